import ParsleyVerif.Props.C04W
#print axioms PV.c04_sentence_sound_w_eof
#print axioms PV.c04_sentence_sound_w
#print axioms PV.c04_sentence_iff_trim_answered
#print axioms PV.c04_sentence_iff_trim
#print axioms PV.c04_sentence_iff_trim_any_engine
#print axioms PV.c04w_lt_iff
#print axioms PV.c04w_lt_accept
#print axioms PV.c04w_lt_reject
#print axioms PV.c04w_arith_iff
#print axioms PV.c04w_arith_iff_answered
#print axioms PV.c04w_arith_accept
