import ParsleyVerif.Props.C10P
#print axioms PV.ProgTie.c10_translated_functions
#print axioms PV.ProgTie.c10_translated_file
#print axioms PV.ProgTie.c10p_skipWhitespaces
#print axioms PV.ProgTie.c10p_example
