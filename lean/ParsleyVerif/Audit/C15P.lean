import ParsleyVerif.Props.C15P
#print axioms PV.ProgTie.c15_translated_functions
#print axioms PV.ProgTie.c15p_insert
#print axioms PV.ProgTie.c15p_newIntSet
#print axioms PV.ProgTie.c15p_union
#print axioms PV.ProgTie.c15p_union_comm_idem
#print axioms PV.ProgTie.c15p_inc
#print axioms PV.ProgTie.c15p_filter
#print axioms PV.ProgTie.c15p_get
#print axioms PV.ProgTie.c15p_example
