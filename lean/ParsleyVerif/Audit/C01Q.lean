import ParsleyVerif.Props.C01Q
#print axioms PV.c01q_world_step
#print axioms PV.c01q_closed_world
#print axioms PV.c01q_closed_world_run
#print axioms PV.c01q_step
#print axioms PV.c01q_closed_check
#print axioms PV.c01q_dangling_ref
#print axioms PV.c01q_parse
#print axioms PV.c01q_fresh_wellFormed
#print axioms PV.c01q_no_panic
#print axioms PV.c01q_xor
#print axioms PV.c01q_terminates
#print axioms PV.c01q_terminates_any_engine
#print axioms PV.c01q_fuel_mono
#print axioms PV.c01q_sound
#print axioms PV.c01q_arith_closed
#print axioms PV.c01q_arith
