import ParsleyVerif.Props.C02
#print axioms PV.c02_slack
#print axioms PV.c02_reentry_from
#print axioms PV.c02_reentry
#print axioms PV.c02_depth_is_count
#print axioms PV.c02_balanced
#print axioms PV.c02_fuel_mono
#print axioms PV.c02_facts
#print axioms PV.c02_translated_conditions
