import ParsleyVerif.Props.C16V
#print axioms PV.c16_find_value
#print axioms PV.c16_parse_full_doc
#print axioms PV.c16_value_full_doc
#print axioms PV.c16_tree_value
#print axioms PV.c16_parse_full
#print axioms PV.c16_value_full
#print axioms PV.c16_render_no_cr
#print axioms PV.c16_value_full_newFile
#print axioms PV.c16_value_full_example
#print axioms PV.c16_value_full_example2
