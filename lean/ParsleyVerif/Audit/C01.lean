import ParsleyVerif.Props.C01
#print axioms PV.c01_sound
#print axioms PV.c01_cache_sound
#print axioms PV.c01_sound_parse
#print axioms PV.c01_spans
#print axioms PV.c01_pre_initial
#print axioms PV.c01_error_positions
#print axioms PV.c01_derives_any
#print axioms PV.c01_derives_optional
#print axioms PV.c01_derives_memo
#print axioms PV.c01_derives_ref
#print axioms PV.c01_derives_seqOf
#print axioms PV.c01_facts
#print axioms PV.c01_translated_conditions
