import ParsleyVerif.Props.C08P
#print axioms PV.TxtTie.c08_translated_unquoteString
#print axioms PV.TxtTie.c08p_unquoteString
#print axioms PV.TxtTie.c08p_readf_unquoteString
#print axioms PV.TxtTie.c08p_no_raw_linebreak
#print axioms PV.TxtTie.c08p_modelExt_rel
#print axioms PV.TxtTie.c08p_example
