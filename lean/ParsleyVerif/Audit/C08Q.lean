import ParsleyVerif.Props.C08Q
#print axioms PV.c08q_all_translated
#print axioms PV.c08_translated_terminals
#print axioms PV.c08q_closure
#print axioms PV.c08q_constructors
#print axioms PV.c08q_documented_panics
#print axioms PV.c08q_leaf
#print axioms PV.c08q_total
#print axioms PV.c08q_panic_only_missing_group
#print axioms PV.c08q_node_span
#print axioms PV.c08q_nonvacuous
#print axioms PV.c08q_example
