import ParsleyVerif.Props.C04P
#print axioms PV.c04p_all_translated
#print axioms PV.c04_translated_evaluate
#print axioms PV.c04_translated_no_panic
#print axioms PV.c04p_needs_interpreter
#print axioms PV.c04p_nonvacuous
