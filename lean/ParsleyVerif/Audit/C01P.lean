import ParsleyVerif.Props.C01P
#print axioms PV.c01p_all_translated
#print axioms PV.c01p_context_cache_append
#print axioms PV.c01_translated_core
#print axioms PV.c01p_parse
#print axioms PV.c01p_data_value_level
#print axioms PV.c01p_sequence_machinery
#print axioms PV.c01p_sequence_family
#print axioms PV.c01p_sentence
#print axioms PV.c01p_nonvacuous
#print axioms PV.c01p_example
