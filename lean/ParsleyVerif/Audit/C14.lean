import ParsleyVerif.Props.C14
#print axioms PV.Conc.c14_noninterference
#print axioms PV.Conc.c14_noninterference_complete
#print axioms PV.Conc.c14_footprint
#print axioms PV.Conc.c14_readonly_untouched
#print axioms PV.Conc.c14_footprint_needed
#print axioms PV.Conc.c14_indices_distinct
#print axioms PV.Conc.c14_indices_obtained
#print axioms PV.Conc.c14_nonatomic_duplicates
#print axioms PV.Conc.c14_facts
