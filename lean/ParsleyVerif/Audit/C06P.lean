import ParsleyVerif.Props.C06P
#print axioms PV.Prod.run_prod
#print axioms PV.Prod.run_blame
#print axioms PV.Prod.run_low
#print axioms PV.Prod.seqParse_prod
#print axioms PV.Prod.seqFirst_prod
#print axioms PV.Prod.seqParse_blame
#print axioms PV.Prod.seqParse_low
#print axioms PV.Prod.okShape
#print axioms PV.Prod.prShape
#print axioms PV.Prod.ok_memoPr
#print axioms PV.Prod.seqParse_est
#print axioms PV.c06_upper_productive_run
#print axioms PV.c06_upper_productive
#print axioms PV.c06_upper_productive_auto
#print axioms PV.c06_lower_productive_run
#print axioms PV.c06_lower_productive
#print axioms PV.c06_exact_productive
#print axioms PV.c06_exact_productive_auto
#print axioms PV.c06_d8_not_productive
#print axioms PV.c06_d8_not_productive_auto
#print axioms PV.c06_d12_cfg_productive_not_enough
#print axioms PV.c06_d12_not_productive
#print axioms PV.c06_d12_not_productive_auto
#print axioms PV.Prod.nv6n_productive
#print axioms PV.Prod.arithN_productive
#print axioms PV.Prod.pf_productive
-- what the model reports for the named arithmetic grammar on "1+*1" (not kernel-evaluable, see Props/C06P.lean):
-- the error, the furthest failing terminal, the positions at which a memoized parser was curtailed
#eval (PV.parse PV.Prod.arithNCfg 200 (PV.G.sentence (.ref 0))).map
  (fun r => (r.err, PV.maxTermFail r.st.log, PV.curtailPositions r.st.log))
