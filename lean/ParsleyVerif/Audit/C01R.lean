import ParsleyVerif.Props.C01R
#print axioms PV.c01r_world_step
#print axioms PV.c01r_closed_world
#print axioms PV.c01r_closed_world_run
#print axioms PV.c01r_step
#print axioms PV.c01r_leaf_is_closure
#print axioms PV.c01r_parse
#print axioms PV.c01r_no_panic
#print axioms PV.c01r_xor
#print axioms PV.c01r_terminates
#print axioms PV.c01r_fuel_mono
#print axioms PV.c01r_sound
#print axioms PV.c01r_arith
