import ParsleyVerif.Props.C06Q
#print axioms PV.TxtTie.byteArray_toList
#print axioms PV.TxtTie.lit_tokOf
#print axioms PV.TxtTie.errObj_text
#print axioms PV.TxtTie.errObj_pos
#print axioms PV.TxtTie.c06q_translated_functions
#print axioms PV.TxtTie.c06q_errorWithPosition
#print axioms PV.TxtTie.c06q_text_shape
#print axioms PV.TxtTie.c06q_example
#print axioms PV.TxtTie.c06q_error_values
#print axioms PV.TxtTie.c06q_notFound_rendered
