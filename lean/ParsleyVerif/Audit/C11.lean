import ParsleyVerif.Props.C11
#print axioms PV.Text.c11_files
#print axioms PV.Text.c11_layout
#print axioms PV.Text.c11_roundtrip
#print axioms PV.Text.c11_roundtrip_raw
#print axioms PV.Text.c11_inj
#print axioms PV.Text.c11_disjoint
#print axioms PV.Text.c11_range
#print axioms PV.Text.c11_cover
#print axioms PV.Text.c11_unknown
#print axioms PV.Text.c11_unknown_past
#print axioms PV.Text.c11_nopanic
#print axioms PV.Text.c11_file
#print axioms PV.Text.c11_crlf
#print axioms PV.Text.c11_lineCol
#print axioms PV.Text.c11_facts
