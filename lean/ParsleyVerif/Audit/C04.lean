import ParsleyVerif.Props.C04
#print axioms PV.c04_xor
#print axioms PV.c04_sentence_sound
#print axioms PV.c04_sentence_only_if
#print axioms PV.c04_eval
#print axioms PV.c04_eval_root
#print axioms PV.c04_eval_needs_interpreter
