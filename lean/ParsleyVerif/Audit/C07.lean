import ParsleyVerif.Props.C07
#print axioms PV.Slice.c07_frame
#print axioms PV.Slice.c07_returned
#print axioms PV.Slice.c07_returned_complete
#print axioms PV.Slice.c07_memo_stable
#print axioms PV.Slice.c07_trim_partial
#print axioms PV.Slice.c07_trim_local
#print axioms PV.Slice.c07_cells_flat
#print axioms PV.Slice.c07_lists_wellformed
#print axioms PV.Slice.c07_pinned_corrupts
#print axioms PV.Slice.c07_trim_shared_mutates
#print axioms PV.Slice.c07_source_facts
#print axioms PV.Slice.c07_source_facts_ast
