import ParsleyVerif.Props.C11P
#print axioms PV.TxtTie.c11_translated_functions
#print axioms PV.TxtTie.c11p_roundtrip
#print axioms PV.TxtTie.c11p_roundtrip_string
#print axioms PV.TxtTie.c11p_unknown
#print axioms PV.TxtTie.c11p_newFileSet
#print axioms PV.TxtTie.c11p_example_rel
#print axioms PV.TxtTie.c11p_example
#print axioms PV.TxtTie.c11p_newFile
#print axioms PV.TxtTie.c11p_replace_is_normCRLF
#print axioms PV.TxtTie.c11p_newFile_filesRel
#print axioms PV.TxtTie.c11p_newFile_example
