import ParsleyVerif.Props.C16D
#print axioms PV.c16_decides
#print axioms PV.c16_decides_accept_example
#print axioms PV.c16_decides_reject_example
