import ParsleyVerif.Props.C15
#print axioms PV.Data.c15_refine
#print axioms PV.Data.c15_grow_irrelevant
#print axioms PV.Data.c15_sorted
#print axioms PV.Data.c15_spec_membership
#print axioms PV.Data.c15_pinned_insert_mutates
