import ParsleyVerif.Props.C16
#print axioms PV.c16_grammar_ok
#print axioms PV.c16_value_trees
#print axioms PV.c16_tree_shape
#print axioms PV.c16_parse_tree
#print axioms PV.c16_jvalOf_total
#print axioms PV.c16_eval_total
#print axioms PV.c16_value
#print axioms PV.c16_json_tree_not_evalSafe
#print axioms PV.c16_denote_arr
#print axioms PV.c16_denote_obj
#print axioms PV.c16_denote_scalars
#print axioms PV.c16_evaluate
#print axioms PV.c16_no_panic
#print axioms PV.c16_value_partial
#print axioms PV.c16_reject_partial
