import ParsleyVerif.Props.C04S
#print axioms PV.c04_sentence_iff_strat
#print axioms PV.c04_sentence_iff_strat_wf
#print axioms PV.c04_sentence_iff_strat_answered
#print axioms PV.c04_sentence_only_if_strat
#print axioms PV.c04s_stratOK_not_termination
#print axioms PV.c04s_sx_iff
#print axioms PV.c04s_sx_accept
#print axioms PV.c04s_sx_reject
#print axioms PV.c04_big_sentence
#print axioms PV.c04_sentence_iff_memofree
#print axioms PV.c04_sentence_iff_memofree_answered
#print axioms PV.c04s_mc_iff
#print axioms PV.c04s_mc_meaning
#print axioms PV.c04s_mc_accept
#print axioms PV.c04s_mc_reject
#print axioms PV.c04_sentence_iff_trim_partial
#print axioms PV.c04s_trim_iff_false
