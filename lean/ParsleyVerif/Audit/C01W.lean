import ParsleyVerif.Props.C01W
#print axioms PV.c01w_ltrim_meaning
#print axioms PV.c01w_rtrim_meaning
#print axioms PV.c01w_moved_spec
#print axioms PV.c01w_refines_sized
#print axioms PV.c01w_refines
#print axioms PV.c01w_sound
#print axioms PV.c01w_cache_sound
#print axioms PV.c01w_reuse_complete
#print axioms PV.c01w_cache_complete
#print axioms PV.c01w_curtailed_covers
#print axioms PV.c01w_curtailed_covers_trees
#print axioms PV.c01w_complete_ends
#print axioms PV.c01w_complete_trees
#print axioms PV.c01w_ends_exact
#print axioms PV.c01w_trees_exact
#print axioms PV.c01w_sentence_complete
#print axioms PV.c01w_sentence_complete_parse
#print axioms PV.c01w_F1_loses
#print axioms PV.c01w_F1_accepts
#print axioms PV.c01w_F2_accepts
#print axioms PV.c01w_rtrim_optional_unmoved
#print axioms PV.C1T.run_completeW
#print axioms PV.C1T.run_soundW
#print axioms PV.C1T.seqParse_completeW
#print axioms PV.C1T.cut_endsW
#print axioms PV.C1T.cut_treesW
#print axioms PV.C1T.containsW_end_le
#print axioms PV.C1T.derivesWN_pos
#print axioms PV.C1T.skip_idem
#print axioms PV.C1T.sentence_completeW
#print axioms PV.C1TNV.c1t_termGood_integer
#print axioms PV.C1TNV.c1t_fragLocalW_integer
#print axioms PV.C1TNV.c1t_scope_trim_term
#print axioms PV.C1TNV.f1Accepts_ends
#print axioms PV.C1TNV.lt_scope
#print axioms PV.C1TNV.lt_ends
#print axioms PV.C1TNV.lt_derives
#print axioms PV.C1TNV.lt_acyclic
#print axioms PV.C1TNV.lt_trees
#print axioms PV.C1TNV.lt_sentence
#print axioms PV.C1TNV.arith_scopeW
#print axioms PV.C1TNV.ar_derives
#print axioms PV.C1TNV.ar_ends
#print axioms PV.C1TNV.ar_sentence

/-! ### TESTS (evaluations of the model, not proofs): what the model answers on the non-vacuity inputs -/
open PV PV.Text PV.C1T PV.C1TNV

-- TEST lt: `P → LeftTrim(P) 'b' | 'a'` on "  abb": the two trees ((a b) b) and (a b), ends 6 and 5
#guard (run ltCfg 60 (.ref 0) [] 1 {}).map (fun r => r.1.res.alts.map Node.rpos) == some [6, 5]
#guard (parse ltCfg 60 (G.sentence (.ref 0))).map (fun p => (p.err.isNone, p.res.alts.map Node.rpos)) == some (true, [6])
-- TEST arith: "1 + 2 " — the tree `1 + 2` (end 7, past the trailing blank) and the prefix `1` (end 3)
#guard (run arCfg 200 (.ref 0) [] 1 {}).map (fun r => r.1.res.alts.map Node.rpos) == some [7, 3]
#guard (parse arCfg 200 Garith.root).map (fun p => (p.err.isNone, p.res.alts.map Node.rpos)) == some (true, [7])
#eval (run arCfg 200 (.ref 0) [] 1 {}).map (fun r => r.1.res.alts.head?)
-- TEST arith, more blanks and both operator levels: " 1 +  2 * ( 3 - 4 ) "
def arCfg2 : Cfg := c1tCfg Garith.env (" 1 +  2 * ( 3 - 4 ) ".toUTF8.toList.map (·.toNat))
#guard (parse arCfg2 400 Garith.root).map (fun p => (p.err.isNone, p.res.alts.map Node.rpos)) == some (true, [21])
-- TEST slack: `P → P 'b' | LeftTrim(P) | ε` on " b": all three ends are found (the derivation of end 3 enters `P` at 2
-- with counter 2 = remaining(2) + 1; with the `+ 1` removed from combinator/memoize.go the Go library loses it)
def slackBody : G := .any [.seq .seqOf [.ref 0, c1tB] {}, .ltrim (.ref 0) .spacesNl, .empty]
def slackCfg : Cfg := c1tCfg [.memo 0 slackBody] [32, 98]
#guard (run slackCfg 80 (.ref 0) [] 1 {}).map (fun r => (r.1.res.alts.map Node.rpos).eraseDups) == some [3, 2, 1]
-- TEST findings F1 / F2 (the model agrees with the Go replay)
#guard (run f1Cfg 20 f1Loses [] 1 {}).map (fun r => r.1.res.alts.length) == some 0
#guard (run f1Cfg 20 f1Accepts [] 1 {}).map (fun r => r.1.res.alts.map Node.rpos) == some [4, 2]
#guard (run f2Cfg 20 f2G [] 1 {}).map (fun r => r.1.res.alts.map Node.rpos) == some [2]
