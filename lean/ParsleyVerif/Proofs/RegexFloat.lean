/-
  `[-+]?[0-9]*\\.[0-9]+(?:[eE][-+]?[0-9]+)?`: the core term, the optional exponent, and the first candidate of the
  unsigned body.
-/
import ParsleyVerif.Proofs.RegexBasic
namespace PV
open PV.Text
open Rx
namespace Rx

def expOpt : Re := (Re.seq (.byte isE) (.seq (Re.byte isSign).opt (Re.byte isDigit).plus)).opt

def floatBody : Re :=
  .seq (.star (.byte isDigit)) (.seq (.byte (· == 46)) (.seq (Re.byte isDigit).plus expOpt))

theorem floatRe_eq : floatRe = .seq (Re.byte isSign).opt floatBody := by
  simp only [floatRe, floatSx, Sx.re, cSign_has, cDigit_has, cE_has, floatBody, expOpt]
  rfl

theorem isDigit_of_isSign (c : Nat) (h : isSign c = true) : isDigit c = false := by
  unfold isSign at h; unfold isDigit; simp at h ⊢; omega

theorem plus_digit_sign (f c : Nat) (t : Bytes) (h : isSign c = true) : (Re.byte isDigit).plus.run f (c :: t) = [] := by
  unfold Re.plus; rw [run_seq_byte_cons, isDigit_of_isSign c h]; rfl

/-- `[-+]?[0-9]+` -/
theorem head?_signed_digits (f : Nat) (l : Bytes) (h : l.length ≤ f) :
    ((Re.seq (Re.byte isSign).opt (Re.byte isDigit).plus).run f l).head? =
      if 0 < spanLen isDigit (l.drop (signLen l)) then some (signLen l + spanLen isDigit (l.drop (signLen l))) else none := by
  rw [head?_signed _ _ _ (fun c t e hc => by rw [e]; exact plus_digit_sign f c t hc),
    head?_plus_byte _ _ _ (by simp; omega)]
  split <;> rfl

theorem head?_expOpt (f : Nat) (l : Bytes) (h : l.length ≤ f) : (expOpt.run f l).head? = some (exponentLen l) := by
  unfold expOpt exponentLen
  rw [run_group_opt, List.head?_append]
  cases l with
  | nil => rfl
  | cons e r =>
    have hr : r.length ≤ f := by simp at h; omega
    rw [run_seq_byte_cons]
    dsimp only
    by_cases he : isE e = true
    · have he' : (decide (e = 101) || decide (e = 69)) = true := by simpa [isE] using he
      rw [if_pos he, if_pos he', List.head?_map, head?_signed_digits f r hr]
      by_cases hd : 0 < spanLen isDigit (r.drop (signLen r))
      · rw [if_pos hd, if_pos hd]; simp [Nat.add_assoc]
      · rw [if_neg hd, if_neg hd]; rfl
    · have he' : ¬ (decide (e = 101) || decide (e = 69)) = true := by simpa [isE] using he
      rw [if_neg he, if_neg he']; rfl

def floatModel (s : Nat) (l : Bytes) : Option Nat :=
  let n := spanLen isDigit l
  match l.drop n with
  | 46 :: r =>
    let m := spanLen isDigit r
    if m > 0 then some (s + n + 1 + m + exponentLen (r.drop m)) else none
  | _ => none

theorem floatBody_digit (f c : Nat) (t : Bytes) (h : isDigit c = true) :
    (Re.seq (.byte (· == 46)) (.seq (Re.byte isDigit).plus expOpt)).run f (c :: t) = [] := by
  have : (c == 46) = false := by unfold isDigit at h; simp at h ⊢; omega
  rw [run_seq_byte_cons, this]; rfl

theorem floatBody_sign (f c : Nat) (t : Bytes) (h : isSign c = true) (hl : (c :: t).length ≤ f) :
    floatBody.run f (c :: t) = [] := by
  have h46 : (c == 46) = false := by unfold isSign at h; simp at h ⊢; omega
  unfold floatBody
  rw [run_seq, run_star_byte _ _ _ hl, spanLen_cons, isDigit_of_isSign c h]
  simp [down, h46]

theorem floatBody_head (s f : Nat) (l : Bytes) (h : l.length ≤ f) :
    ((floatBody.run f l).head?).map (s + ·) = floatModel s l := by
  unfold floatBody floatModel
  rw [head?_star_byte_seq _ _ _ _ h (fun c t hc => floatBody_digit f c t hc)]
  dsimp only
  have hlen : (l.drop (spanLen isDigit l)).length ≤ f := by simp; omega
  split
  · rename_i r heq
    have hr : r.length ≤ f := by rw [heq] at hlen; simp at hlen; omega
    rw [heq, run_seq_byte_cons]
    have : ((46 : Nat) == 46) = true := rfl
    rw [if_pos this, List.head?_map,
      head?_plus_byte_seq_some _ _ _ _ hr (by rw [head?_expOpt _ _ (by simp; omega)]; rfl),
      head?_expOpt _ _ (by simp; omega)]
    by_cases hm : 0 < spanLen isDigit r
    · rw [if_pos hm, if_pos hm]; simp [Nat.add_assoc]
    · rw [if_neg hm, if_neg hm]; rfl
  · rename_i hne
    cases hd : l.drop (spanLen isDigit l) with
    | nil => simp
    | cons c r =>
      have : (c == 46) = false := by
        cases hc : c == 46 with
        | false => rfl
        | true => exact absurd (by rw [hd, eq_of_beq hc]) (hne r)
      rw [run_seq_byte_cons, this]; rfl

end Rx

end PV
