/-
  C05 (full value theorem), TERMINATION of the arithmetic grammar — on every input, trims included
  (Props/C02T.lean covers the combinator set without the trims).

  The descent of Proofs/WFHalts.lean, specialised to the closed grammar: lexicographically
  (end of file − position, budget of the left-recursion context over the two Memoize indices).
  `ref 0` / `ref 1` at a position re-enter themselves only through their Memoize, which increments a counter
  that is below the curtailing threshold; every other call happens after an element that consumed input
  (an expression / term / factor tree and an operator / parenthesis leaf are at least one byte wide:
  `T.pos`, `RuneAtQ.pos` of Proofs/A05Unique.lean, available for everything `run` returns by the exact
  soundness `run_soundT`).  The loops are handled by the total principles of Proofs/RunHalts.lean.
-/
import ParsleyVerif.Proofs.A05Arith
import ParsleyVerif.Proofs.WFHalts
namespace PV.A05
open PV PV.Text

section
variable (cfg : Cfg)

/-- the cache invariant under which termination is shown: every stored tree is an exact derivation -/
abbrev CS (st : St) : Prop := CacheS cfg (arithRT cfg.params cfg.file) Garith.bodyOf st

/-- some fuel makes `run` answer, from every state whose cache is sound -/
def Halts (g : G) (ctx : Ctx) (pos : Nat) : Prop := ∀ st, CS cfg st → ∃ f x, run cfg f g ctx pos st = some x

/-- every result consumes input and stays inside the file -/
def Cons (g : G) : Prop :=
  ∀ pos x, InFile cfg.file pos → DSR cfg (arithRT cfg.params cfg.file) g pos x → pos < x.rpos ∧ InFile cfg.file x.rpos

end

section
variable {cfg : Cfg} (henv : cfg.env = Garith.env) (hoff : 1 ≤ cfg.file.offset) (h0 : cfg.maxCalls = 0)

include henv in
theorem run_pres (fuel : Nat) (g : G) (ctx : Ctx) (pos : Nat) (st : St) (o : Out) (st' : St)
    (hf : Frag cfg true g) (hg : GOK Garith.bodyOf g) (hcs : CS cfg st)
    (h : run cfg fuel g ctx pos st = some (o, st')) :
    (∀ x ∈ o.res.alts, DSR cfg (arithRT cfg.params cfg.file) g pos x) ∧ CS cfg st' :=
  run_soundT cfg _ (arith_closedT cfg henv) Garith.bodyOf (arith_henv cfg henv true) fuel g ctx pos st o st' hf hg hcs h

include hoff in
theorem cons_ref (k : Nat) (hk : k ≤ 2) : Cons cfg (.ref k) := by
  intro pos x hp hd
  have := hd.ref_inv
  match k, hk, this with
  | 0, _, this => exact T.pos hoff this hp
  | 1, _, this => exact T.pos hoff this hp
  | 2, _, this => exact T.pos hoff this hp

include hoff in
theorem cons_rune (c : Nat) (hc : c < 0x80) : Cons cfg (Garith.trim (Garith.rn c)) := by
  intro pos x hp hd
  exact (trim_rune_at hd).pos hoff hp hc

include hoff in
theorem cons_ops (c1 c2 : Nat) (h1 : c1 < 0x80) (h2 : c2 < 0x80) :
    Cons cfg (.any [Garith.trim (Garith.rn c1), Garith.trim (Garith.rn c2)]) := by
  intro pos x hp hd
  obtain ⟨g, hm, dg⟩ := hd.any_inv
  simp only [List.mem_cons, List.not_mem_nil, or_false] at hm
  rcases hm with rfl | rfl
  · exact cons_rune hoff c1 h1 pos x hp dg
  · exact cons_rune hoff c2 h2 pos x hp dg

/-! ### the combinators -/

include h0 in
theorem halts_trim (t : Terminal) (ctx : Ctx) (pos : Nat) : Halts cfg (Garith.trim (.term t)) ctx pos := by
  intro st _
  obtain ⟨x, hx⟩ := run_trimT_halts cfg h0 0 t ctx pos st
  exact ⟨3, x, hx⟩

include h0 in
theorem halts_eof (ctx : Ctx) (pos : Nat) : Halts cfg .eof ctx pos := by
  intro st _
  obtain ⟨x, hx⟩ := run_leaf_some cfg h0 .eof (.inr (.inr rfl)) ctx pos st
  exact ⟨1, x, hx⟩

include h0 in
theorem halts_ref (k : Nat) (g : G) (hk : cfg.env[k]? = some g) (ctx : Ctx) (pos : Nat) (h : Halts cfg g ctx pos) :
    Halts cfg (.ref k) ctx pos := by
  intro st hcs
  obtain ⟨f, x, hx⟩ := h st hcs
  obtain ⟨y, hy⟩ := run_ref_some cfg h0 f k g hk ctx pos st x hx
  exact ⟨f + 1, y, hy⟩

include h0 in
theorem halts_memo (idx : Nat) (body : G) (ctx : Ctx) (pos : Nat)
    (h : ¬ ctx.get idx > remaining cfg.file pos + Facts.curtailSlack → Halts cfg body (ctx.inc idx) pos) :
    Halts cfg (.memo idx body) ctx pos := by
  intro st hcs
  by_cases hrun : cacheGet st.cache idx pos ctx = none ∧ ¬ ctx.get idx > remaining cfg.file pos + Facts.curtailSlack
  · obtain ⟨f, x, hx⟩ := h hrun.2
      (({ st with active := (idx, pos) :: st.active } : St).logEv cfg
        (.body idx pos ((st.active.filter (fun a : Nat × Nat => a.1 == idx && a.2 == pos)).length + 1)))
      (CacheS_of_eq (st := st) hcs (logEv_fields _ cfg _).1)
    obtain ⟨y, hy⟩ := run_memo_some cfg h0 f idx body ctx pos st (fun _ _ => ⟨x, hx⟩)
    exact ⟨f + 1, y, hy⟩
  · obtain ⟨y, hy⟩ := run_memo_some cfg h0 0 idx body ctx pos st (fun h1 h2 => absurd ⟨h1, h2⟩ hrun)
    exact ⟨1, y, hy⟩

include henv h0 in
theorem halts_any (gs : List G) (ctx : Ctx) (pos : Nat) (hel : ∀ g ∈ gs, Frag cfg true g ∧ GOK Garith.bodyOf g)
    (h : ∀ g ∈ gs, Halts cfg g ctx pos) : Halts cfg (.any gs) ctx pos := by
  intro st hcs
  obtain ⟨f, x, hx⟩ := anyLoop_halts (run cfg) (runMono cfg) ctx pos (CS cfg) gs
    (fun g hg st' hI => h g hg st'.regCall (CacheS_of_eq hI rfl))
    (fun f g hg st' o st'' hI hr =>
      (run_pres henv f g ctx pos st'.regCall o st'' (hel g hg).1 (hel g hg).2 (CacheS_of_eq hI rfl) hr).2)
    {} st hcs
  obtain ⟨y, hy⟩ := run_any_some cfg h0 f gs ctx pos st x hx
  exact ⟨f + 1, y, hy⟩

include henv h0 in
/-- a SeqOf whose elements (but the last) consume input: the first element runs at the call position, every
    later one at a later position -/
theorem halts_seq (gs : List G) (so : SeqOpts) (ctx : Ctx) (pos : Nat) (hpos : InFile cfg.file pos)
    (hel : ∀ (d : Nat) (g : G), gs[d]? = some g → Frag cfg true g ∧ GOK Garith.bodyOf g)
    (hcons : ∀ (d : Nat) (g : G), gs[d]? = some g → d + 1 < gs.length → Cons cfg g)
    (hfirst : ∀ (g : G), gs[0]? = some g → Halts cfg g ctx pos)
    (hlater : ∀ (d : Nat) (g : G), 0 < d → gs[d]? = some g → ∀ p c', pos < p → InFile cfg.file p → Halts cfg g c' p) :
    Halts cfg (.seq .seqOf gs so) ctx pos := by
  intro st hcs
  obtain ⟨sh, hsh⟩ : ∃ sh, (G.seq .seqOf gs so).shape = some sh := ⟨_, rfl⟩
  have hlook : ∀ d, sh.lookup d = gs[d]? := by
    intro d
    simp only [G.shape, Option.some.injEq] at hsh
    subst hsh; rfl
  have hlt : ∀ d g, gs[d]? = some g → d < gs.length := by
    intro d g hd
    rcases Nat.lt_or_ge d gs.length with h | h
    · exact h
    · rw [List.getElem?_eq_none h] at hd; cases hd
  let J : Frame → SeqSt → St → Prop := fun fr _ st =>
    CS cfg st ∧ (fr.depth = 0 → fr.ctx = ctx ∧ fr.pos = pos) ∧
    (fr.depth < gs.length → pos ≤ fr.pos ∧ InFile cfg.file fr.pos ∧ (0 < fr.depth → pos < fr.pos))
  obtain ⟨f, x, hx⟩ := seqParse_halts (run cfg) (runMono cfg) sh J
    (fun _ st _ st' => CS cfg st → CS cfg st')
    (fun _ _ => id) (fun _ _ _ _ _ _ h1 h2 h => h2 (h1 h))
    (fun fr ss st ss' st' hJ hE => ⟨hE hJ.1, hJ.2.1, hJ.2.2⟩)
    (by
      intro f fr ss st g o st1 hJ hd hl hrun
      rw [hlook] at hl
      obtain ⟨j1, j2, j3⟩ := hJ
      obtain ⟨s1, s2⟩ := run_pres henv f g fr.ctx fr.pos st.regCall o st1 (hel _ _ hl).1 (hel _ _ hl).2
        (CacheS_of_eq j1 rfl) hrun
      refine ⟨fun _ => s2, ?_, fun _ _ _ => s2⟩
      intro n hn
      refine ⟨s2, by simp [Frame.next], ?_⟩
      intro hdl
      simp only [Frame.next] at hdl ⊢
      obtain ⟨p1, p2, _⟩ := j3 (hlt _ _ hl)
      obtain ⟨q1, q2⟩ := hcons _ _ hl hdl fr.pos n p2 (s1 n hn)
      exact ⟨by omega, q2, fun _ => by omega⟩)
    (fun _ _ _ _ _ _ _ => id)
    (fun fr => gs.length - fr.depth)
    (by
      intro fr ss st g hJ hd hl
      rw [hlook] at hl
      obtain ⟨j1, j2, j3⟩ := hJ
      obtain ⟨p1, p2, p3⟩ := j3 (hlt _ _ hl)
      by_cases hz : fr.depth = 0
      · obtain ⟨e1, e2⟩ := j2 hz
        rw [hz] at hl
        rw [e1, e2]
        exact hfirst g hl st.regCall (CacheS_of_eq j1 rfl)
      · exact hlater _ g (by omega) hl fr.pos fr.ctx (p3 (by omega)) p2 st.regCall (CacheS_of_eq j1 rfl))
    (by
      intro f fr ss st g o st1 _ _ hl _ n _
      rw [hlook] at hl
      have := hlt _ _ hl
      simp only [Frame.next]
      omega)
    (gs.length - 0 + 1) ⟨0, [], ctx, pos, true⟩ (Nat.lt_succ_self _) {} st
    ⟨hcs, fun _ => ⟨rfl, rfl⟩, fun _ => ⟨Nat.le_refl _, hpos, fun h => absurd h (Nat.lt_irrefl _)⟩⟩ rfl
  obtain ⟨y, hy⟩ := run_seqfam_some cfg h0 f _ sh hsh ctx pos st x hx
  exact ⟨f + 1, y, hy⟩

/-! ### the grammar -/

theorem el_trim_rune (c : Nat) (hc : Utf8.encodeRune c ≠ eofTok) :
    Frag cfg true (Garith.trim (Garith.rn c)) ∧ GOK Garith.bodyOf (Garith.trim (Garith.rn c)) := by
  refine ⟨?_, by simp [GOK, G.All, LocalOK, Garith.trim, Garith.rn]⟩
  show Frag cfg true (.rtrim (.ltrim (.term (.rune c [34, c, 34])) .spacesNl) .spacesNl)
  simp only [Frag]
  exact termNoEOF_rune cfg c _ hc

theorem el_trim_int : Frag cfg true (Garith.trim (.term .integer)) ∧ GOK Garith.bodyOf (Garith.trim (.term .integer)) := by
  refine ⟨?_, by simp [GOK, G.All, LocalOK, Garith.trim]⟩
  show Frag cfg true (.rtrim (.ltrim (.term .integer) .spacesNl) .spacesNl)
  simp only [Frag]
  exact termNoEOF_integer cfg

theorem el_ref (k : Nat) : Frag cfg true (.ref k) ∧ GOK Garith.bodyOf (.ref k) :=
  ⟨by simp [Frag], by simp [GOK, G.All, LocalOK]⟩

theorem el_ops (c1 c2 : Nat) (h1 : Utf8.encodeRune c1 ≠ eofTok) (h2 : Utf8.encodeRune c2 ≠ eofTok) :
    Frag cfg true (.any [Garith.trim (Garith.rn c1), Garith.trim (Garith.rn c2)]) ∧
    GOK Garith.bodyOf (.any [Garith.trim (Garith.rn c1), Garith.trim (Garith.rn c2)]) := by
  refine ⟨?_, by simp [GOK, G.All, AllList, LocalOK, Garith.trim, Garith.rn]⟩
  simp only [Frag, FragL, and_true]
  exact ⟨(el_trim_rune c1 h1).1, (el_trim_rune c2 h2).1⟩

include henv h0 in
theorem halts_ops (c1 c2 : Nat) (h1 : Utf8.encodeRune c1 ≠ eofTok) (h2 : Utf8.encodeRune c2 ≠ eofTok)
    (ctx : Ctx) (pos : Nat) : Halts cfg (.any [Garith.trim (Garith.rn c1), Garith.trim (Garith.rn c2)]) ctx pos := by
  refine halts_any henv h0 _ ctx pos ?_ ?_
  · intro g hg
    simp only [List.mem_cons, List.not_mem_nil, or_false] at hg
    rcases hg with rfl | rfl
    · exact el_trim_rune c1 h1
    · exact el_trim_rune c2 h2
  · intro g hg
    simp only [List.mem_cons, List.not_mem_nil, or_false] at hg
    rcases hg with rfl | rfl
    · exact halts_trim h0 _ ctx pos
    · exact halts_trim h0 _ ctx pos

theorem get3 {α : Type} {a b c x : α} {d : Nat} (h : [a, b, c][d]? = some x) :
    (d = 0 ∧ x = a) ∨ (d = 1 ∧ x = b) ∨ (d = 2 ∧ x = c) := by
  match d, h with
  | 0, h => simp at h; exact .inl ⟨rfl, h.symm⟩
  | 1, h => simp at h; exact .inr (.inl ⟨rfl, h.symm⟩)
  | 2, h => simp at h; exact .inr (.inr ⟨rfl, h.symm⟩)
  | d + 3, h => simp at h

include henv hoff h0 in
/-- the binary rule `X → X op Y | Y` under its Memoize -/
theorem halts_level (j : Nat) (hj : j ≤ 1) (c1 c2 : Nat) (a1 : c1 < 0x80) (a2 : c2 < 0x80)
    (e1 : Utf8.encodeRune c1 ≠ eofTok) (e2 : Utf8.encodeRune c2 ≠ eofTok)
    (hk : cfg.env[j]? = some (.memo j (.any [.seq .seqOf [.ref j, .any [Garith.trim (Garith.rn c1), Garith.trim (Garith.rn c2)],
      .ref (j + 1)] Garith.bin, .ref (j + 1)])))
    (ctx : Ctx) (pos : Nat) (hpos : InFile cfg.file pos)
    (hself : ¬ ctx.get j > remaining cfg.file pos + Facts.curtailSlack → Halts cfg (.ref j) (ctx.inc j) pos)
    (hup : Halts cfg (.ref (j + 1)) (ctx.inc j) pos)
    (hlater : ∀ p c', pos < p → InFile cfg.file p → Halts cfg (.ref (j + 1)) c' p) :
    Halts cfg (.ref j) ctx pos := by
  refine halts_ref h0 j _ hk ctx pos (halts_memo h0 j _ ctx pos ?_)
  intro hnc
  refine halts_any henv h0 _ _ pos ?_ ?_
  · intro g hg
    simp only [List.mem_cons, List.not_mem_nil, or_false] at hg
    rcases hg with rfl | rfl
    · refine ⟨?_, ?_⟩
      · simp only [Frag, FragL, and_true, true_and, Garith.bin]
        exact ⟨by decide, (el_trim_rune c1 e1).1, (el_trim_rune c2 e2).1⟩
      · simp [GOK, G.All, AllList, LocalOK, Garith.trim, Garith.rn]
    · exact el_ref _
  · intro g hg
    simp only [List.mem_cons, List.not_mem_nil, or_false] at hg
    rcases hg with rfl | rfl
    · refine halts_seq henv h0 _ _ _ pos hpos ?_ ?_ ?_ ?_
      · intro d g hd
        rcases get3 hd with ⟨_, rfl⟩ | ⟨_, rfl⟩ | ⟨_, rfl⟩
        · exact el_ref _
        · exact el_ops c1 c2 e1 e2
        · exact el_ref _
      · intro d g hd hlt
        rcases get3 hd with ⟨_, rfl⟩ | ⟨_, rfl⟩ | ⟨rfl, rfl⟩
        · exact cons_ref hoff j (by omega)
        · exact cons_ops hoff c1 c2 a1 a2
        · simp at hlt
      · intro g hg0
        simp only [List.getElem?_cons_zero, Option.some.injEq] at hg0
        subst hg0
        exact hself hnc
      · intro d g hd0 hd p c' hp hpi
        rcases get3 hd with ⟨rfl, _⟩ | ⟨_, rfl⟩ | ⟨_, rfl⟩
        · omega
        · exact halts_ops henv h0 c1 c2 e1 e2 c' p
        · exact hlater p c' hp hpi
    · exact hup

include henv hoff h0 in
theorem halts_factor (ctx : Ctx) (pos : Nat) (hpos : InFile cfg.file pos)
    (hlater : ∀ p c', pos < p → InFile cfg.file p → Halts cfg (.ref 0) c' p) : Halts cfg (.ref 2) ctx pos := by
  refine halts_ref h0 2 _ (env2 cfg henv) ctx pos (halts_any henv h0 _ _ pos ?_ ?_)
  · intro g hg
    simp only [List.mem_cons, List.not_mem_nil, or_false] at hg
    rcases hg with rfl | rfl
    · exact el_trim_int
    · refine ⟨?_, by simp [GOK, G.All, AllList, LocalOK, Garith.parenSeq, Garith.trim, Garith.rn]⟩
      simp only [Garith.parenSeq, Frag, FragL, and_true, true_and, Garith.sel1]
      exact ⟨by decide, (el_trim_rune 40 (by decide)).1, (el_trim_rune 41 (by decide)).1⟩
  · intro g hg
    simp only [List.mem_cons, List.not_mem_nil, or_false] at hg
    rcases hg with rfl | rfl
    · exact halts_trim h0 _ ctx pos
    · refine halts_seq henv h0 _ _ _ pos hpos ?_ ?_ ?_ ?_
      · intro d g hd
        rcases get3 hd with ⟨_, rfl⟩ | ⟨_, rfl⟩ | ⟨_, rfl⟩
        · exact el_trim_rune 40 (by decide)
        · exact el_ref _
        · exact el_trim_rune 41 (by decide)
      · intro d g hd hlt
        rcases get3 hd with ⟨_, rfl⟩ | ⟨_, rfl⟩ | ⟨rfl, rfl⟩
        · exact cons_rune hoff 40 (by decide)
        · exact cons_ref hoff 0 (by omega)
        · simp at hlt
      · intro g hg0
        simp only [List.getElem?_cons_zero, Option.some.injEq] at hg0
        subst hg0
        exact halts_trim h0 _ ctx pos
      · intro d g hd0 hd p c' hp hpi
        rcases get3 hd with ⟨rfl, _⟩ | ⟨_, rfl⟩ | ⟨_, rfl⟩
        · omega
        · exact hlater p c' hp hpi
        · exact halts_trim h0 _ c' p

include henv hoff h0 in
/-- **the three nonterminals terminate** at every position of the file, under every context -/
theorem halts_nonterminals : ∀ (m pos : Nat), InFile cfg.file pos → cfg.file.offset + cfg.file.len - pos ≤ m →
    ∀ (ctx : Ctx) (k : Nat), k ≤ 2 → Halts cfg (.ref k) ctx pos := by
  intro m
  induction m using Nat.strongRecOn with
  | ind m IH =>
  intro pos hpos hm
  have IHpos : ∀ p c' k, k ≤ 2 → pos < p → InFile cfg.file p → Halts cfg (.ref k) c' p := by
    intro p c' k hk hp hpi
    have hle : p ≤ cfg.file.offset + cfg.file.len := hpi.2
    exact IH (cfg.file.offset + cfg.file.len - p) (by have := hpos.2; omega) p hpi (Nat.le_refl _) c' k hk
  have h2 : ∀ ctx, Halts cfg (.ref 2) ctx pos := fun ctx =>
    halts_factor henv hoff h0 ctx pos hpos (fun p c' hp hpi => IHpos p c' 0 (by omega) hp hpi)
  -- the two memoized nonterminals, by induction on the budget of the context
  have h10 : ∀ (b : Nat) (ctx : Ctx), budget [0, 1] ctx (capAt cfg pos) ≤ b →
      Halts cfg (.ref 1) ctx pos ∧ Halts cfg (.ref 0) ctx pos := by
    intro b
    induction b using Nat.strongRecOn with
    | ind b ihb =>
    intro ctx hb
    have hdec : ∀ idx, idx ∈ [0, 1] → ¬ ctx.get idx > remaining cfg.file pos + Facts.curtailSlack →
        Halts cfg (.ref 1) (ctx.inc idx) pos ∧ Halts cfg (.ref 0) (ctx.inc idx) pos := by
      intro idx hi hnc
      have := budget_inc [0, 1] ctx (capAt cfg pos) idx hi (by unfold capAt; omega)
      exact ihb (budget [0, 1] (ctx.inc idx) (capAt cfg pos)) (by omega) _ (Nat.le_refl _)
    refine ⟨?_, ?_⟩
    · exact halts_level henv hoff h0 1 (by omega) 42 47 (by decide) (by decide) (by decide) (by decide)
        (env1 cfg henv) ctx pos hpos (fun hnc => (hdec 1 (by simp) hnc).1) (h2 _)
        (fun p c' hp hpi => IHpos p c' 2 (by omega) hp hpi)
    · by_cases hnc : ctx.get 0 > remaining cfg.file pos + Facts.curtailSlack
      · exact halts_ref h0 0 _ (env0 cfg henv) ctx pos (halts_memo h0 0 _ ctx pos (fun h => absurd hnc h))
      · exact halts_level henv hoff h0 0 (by omega) 43 45 (by decide) (by decide) (by decide) (by decide)
          (env0 cfg henv) ctx pos hpos (fun _ => (hdec 0 (by simp) hnc).2) (hdec 0 (by simp) hnc).1
          (fun p c' hp hpi => IHpos p c' 1 (by omega) hp hpi)
  intro ctx k hk
  match k, hk with
  | 2, _ => exact h2 ctx
  | 1, _ => exact (h10 _ ctx (Nat.le_refl _)).1
  | 0, _ => exact (h10 _ ctx (Nat.le_refl _)).2

include henv hoff h0 in
/-- **`run` terminates on the root** `Sentence(expr)`, from the empty context and the empty cache, on every file;
    by fuel monotonicity it answers for every larger fuel too -/
theorem arith_halts : ∃ F, ∀ fuel, F ≤ fuel → ∃ x, run cfg fuel Garith.root [] (cfg.file.pos 0) {} = some x := by
  have hpos : InFile cfg.file (cfg.file.pos 0) := by unfold InFile File.pos; omega
  have hroot : Halts cfg Garith.root [] (cfg.file.pos 0) := by
    refine halts_seq henv h0 [.ref 0, .eof] _ [] _ hpos ?_ ?_ ?_ ?_
    · intro d g hd
      match d, hd with
      | 0, hd => simp at hd; subst hd; exact el_ref 0
      | 1, hd => simp at hd; subst hd; exact ⟨by simp [Frag], by simp [GOK, G.All, LocalOK]⟩
      | d + 2, hd => simp at hd
    · intro d g hd hlt
      match d, hd with
      | 0, hd => simp at hd; subst hd; exact cons_ref hoff 0 (by omega)
      | d + 1, hd => simp at hlt; omega
    · intro g hg0
      simp only [List.getElem?_cons_zero, Option.some.injEq] at hg0
      subst hg0
      exact halts_nonterminals henv hoff h0 _ _ hpos (Nat.le_refl _) [] 0 (by omega)
    · intro d g hd0 hd p c' _ _
      match d, hd with
      | 0, _ => omega
      | 1, hd => simp at hd; subst hd; exact halts_eof h0 c' p
      | d + 2, hd => simp at hd
  obtain ⟨F, x, hx⟩ := hroot {} (by intro e he; cases he)
  exact ⟨F, fun fuel hle => ⟨x, run_mono cfg F fuel hle _ _ _ _ _ hx⟩⟩

end

end PV.A05
