/-
  The model's evaluator never answers a panic at all — not even its own "out of fuel" — on a tree whose interpreters are
  applicable (`Node.EvalSafe`), with fuel above the nesting depth and custom interpreters that do not panic themselves.
  (Proofs/Sentence.lean proves the statement "no panic other than out of fuel" for every fuel; the translated code has no
  such outcome, so the tie needs the stronger form.)
-/
import ParsleyVerif.Proofs.Sentence
import ParsleyVerif.Proofs.Walk
namespace PV.TreeTie
open PV.Text

def NeverPanics (o : EvalOut) : Prop := ∀ s, o ≠ .panic s

theorem evalArray_np (ev : PV.Node → EvalOut) : ∀ (cs : List PV.Node) (acc : List V),
    (∀ c ∈ cs, NeverPanics (ev c)) → NeverPanics (evalArray ev cs acc)
  | [], acc, _ => by intro s h; simp [evalArray] at h
  | [c], acc, h => by
    intro s hs
    simp only [evalArray] at hs
    cases hc : ev c with
    | ok v => simp [hc] at hs
    | err p m => simp [hc] at hs
    | panic s' => exact h c (by simp) s' hc
  | c :: d :: rest, acc, h => by
    intro s hs
    simp only [evalArray] at hs
    cases hc : ev c with
    | ok v =>
      simp only [hc] at hs
      exact evalArray_np ev rest _ (fun x hx => h x (by simp [hx])) s hs
    | err p m => simp [hc] at hs
    | panic s' => exact h c (by simp) s' hc

theorem evalKeyValue_np (ev : PV.Node → EvalOut) (d : Nat)
    (hev : ∀ c : PV.Node, c.EvalSafe → c.depth ≤ d → NeverPanics (ev c))
    (hstr : ∀ t k p r, ev (.term t (.str k) p r) = .ok (.str k))
    (kv : PV.Node) (hs : kv.EvalSafe) (hk : KvShape kv) (hd : kv.depth ≤ d) (acc : List (Bytes × V)) :
    ∀ e, evalKeyValue ev kv acc = .error e → NeverPanics e := by
  intro e he
  cases kv with
  | nt tk kcs p r i =>
    cases kcs with
    | nil => simp [KvShape] at hk
    | cons k0 rest =>
      cases k0 with
      | term t v p0 r0 =>
        cases v with
        | str key =>
          cases rest with
          | nil => simp [KvShape] at hk
          | cons k1 rest2 =>
            cases rest2 with
            | nil => simp [KvShape] at hk
            | cons vn rest3 =>
              have hsl : EvalSafeList (PV.Node.term t (.str key) p0 r0 :: k1 :: vn :: rest3) := by
                unfold PV.Node.EvalSafe at hs
                exact hs.1
              have hvn : vn.EvalSafe := EvalSafeList_mem hsl vn (by simp)
              have hvd : vn.depth ≤ d := by
                have := depth_le_depthAll (c := vn) (cs := PV.Node.term t (.str key) p0 r0 :: k1 :: vn :: rest3) (by simp)
                simp only [PV.Node.depth] at hd
                omega
              simp only [evalKeyValue, List.getElem?_cons_zero, List.getElem?_cons_succ, hstr] at he
              cases hv : ev vn with
              | ok v => simp [hv] at he
              | err pp m => simp only [hv] at he; cases he; intro s hs'; cases hs'
              | panic s' => exact absurd hv (hev vn hvn hvd s')
        | _ => simp [KvShape] at hk
      | _ => simp [KvShape] at hk
  | _ => simp [KvShape] at hk

theorem evalObject_np (ev : PV.Node → EvalOut) (d : Nat)
    (hev : ∀ c : PV.Node, c.EvalSafe → c.depth ≤ d → NeverPanics (ev c))
    (hstr : ∀ t k p r, ev (.term t (.str k) p r) = .ok (.str k)) :
    ∀ (cs : List PV.Node) (acc : List (Bytes × V)), EvalSafeList cs → ObjShape cs → depthAll cs ≤ d →
      NeverPanics (evalObject ev cs acc)
  | [], acc, _, _, _ => by intro s h; simp [evalObject] at h
  | [kv], acc, hs, ho, hd => by
    have hkv : kv.EvalSafe := EvalSafeList_mem hs kv (by simp)
    have hk : KvShape kv := by simpa only [ObjShape] using ho
    have hkd : kv.depth ≤ d := by simp only [depthAll] at hd; omega
    intro s h
    simp only [evalObject] at h
    cases hr : evalKeyValue ev kv acc with
    | ok a => simp [hr] at h
    | error e =>
      simp only [hr] at h
      exact evalKeyValue_np ev d hev hstr kv hkv hk hkd acc e hr s h
  | kv :: x :: rest, acc, hs, ho, hd => by
    have hkv : kv.EvalSafe := EvalSafeList_mem hs kv (by simp)
    have ho' : KvShape kv ∧ ObjShape rest := by simpa only [ObjShape] using ho
    have hsr : EvalSafeList rest := by
      simp only [EvalSafeList] at hs
      exact hs.2.2
    have hkd : kv.depth ≤ d := by simp only [depthAll] at hd; omega
    have hrd : depthAll rest ≤ d := by simp only [depthAll] at hd; omega
    intro s h
    simp only [evalObject] at h
    cases hr : evalKeyValue ev kv acc with
    | ok a =>
      simp only [hr] at h
      exact evalObject_np ev d hev hstr rest a hsr ho'.2 hrd s h
    | error e =>
      simp only [hr] at h
      exact evalKeyValue_np ev d hev hstr kv hkv ho'.1 hkd acc e hr s h

/-- with fuel above the nesting depth the evaluator never answers a panic on a tree with applicable interpreters -/
theorem evalNode_np (ce : CustomEval)
    (hce : ∀ id cs pos ev, (∀ c ∈ cs, NeverPanics (ev c)) → NeverPanics (ce id cs pos ev)) :
    ∀ (fuel : Nat) (x : PV.Node), x.EvalSafe → x.depth < fuel → NeverPanics (evalNode ce fuel x) := by
  intro fuel
  induction fuel with
  | zero => intro x _ h; omega
  | succ fuel ih =>
    intro x hx hd s h
    cases x with
    | term t v p r => simp [evalNode] at h
    | empty p => simp [evalNode] at h
    | eof p => simp [evalNode] at h
    | nt tk cs p r interp =>
      have hx' := EvalSafe_nt tk cs p r interp hx
      simp only [PV.Node.depth] at hd
      have hch : ∀ c ∈ cs, NeverPanics (evalNode ce fuel c) := fun c hc =>
        ih c (EvalSafeList_mem hx'.1 c hc) (by have := depth_le_depthAll hc; omega)
      cases interp with
      | none => exact absurd rfl hx'.2.1
      | nilI => simp [evalNode] at h
      | select i =>
        have hi : i < cs.length := hx'.2.2.1 i rfl
        simp only [evalNode] at h
        have : cs[i]? = some cs[i] := List.getElem?_eq_getElem hi
        rw [this] at h
        exact hch cs[i] (List.getElem_mem hi) s h
      | array =>
        simp only [evalNode] at h
        exact evalArray_np _ cs [] hch s h
      | object =>
        simp only [evalNode] at h
        obtain ⟨f, rfl⟩ : ∃ f, fuel = f + 1 := ⟨fuel - 1, by omega⟩
        refine evalObject_np (evalNode ce (f + 1)) f (fun c hc hcd => ih c hc (by omega)) ?_ cs [] hx'.1 (hx'.2.2.2 rfl)
          (by omega) s h
        intro t k p' r'
        rfl
      | custom id =>
        simp only [evalNode] at h
        exact hce id cs p (evalNode ce fuel) hch s h

end PV.TreeTie
