/-
  THE REUSE INVARIANT (C01, completeness, half A): the result cache, the curtailing sets and the
  context reset of `run` never lose a CURTAILED derivation (Spec/DerivesC.lean).

  `run_complete`: if `run cfg fuel g ctx pos st = some (o, st')` from a cache that satisfies `CacheC`,
  then for EVERY counter function `c'` that dominates `ctx` on the keys of the returned curtailing set
  `o.cp` (and is arbitrary elsewhere) every tree `x` with `DerivesC cfg c' g pos x` is among `o.res`,
  and `CacheC` holds of `st'`.  `CacheC` says the same of every stored entry, with the entry's STORED
  context in place of `ctx` — the premise is literally the test `ResultCache.Get` performs.
-/
import ParsleyVerif.Proofs.RunCompleteBasics
import ParsleyVerif.Proofs.RunLoops
import ParsleyVerif.Proofs.RunEqns
import ParsleyVerif.Proofs.RunSound
namespace PV
open PV.Text

def NoEOF (r : Res) : Prop := ∀ x ∈ r.alts, x.token ≠ eofTok

/-- what a result computed under `ctx` with curtailing set `cp` promises -/
def OutC (cfg : Cfg) (g : G) (ctx : Ctx) (pos : Nat) (o : Out) : Prop :=
  ∀ (c' : Nat → Nat) (x : Node), (∀ k ∈ o.cp, ctx.get k ≤ c' k) → DerivesC cfg c' g pos x → x ∈ o.res.alts

structure EntryC (cfg : Cfg) (bodyOf : Nat → G) (e : CacheEntry) : Prop where
  /-- `Filter(cp)`: only counters of curtailed parsers are stored -/
  keys : ∀ kv ∈ e.ctx, kv.1 ∈ e.cp
  /-- the premise is the test of `ResultCache.Get` -/
  complete : ∀ (c' : Nat → Nat) (x : Node), (∀ kv ∈ e.ctx, kv.2 ≤ c' kv.1) →
      DerivesC cfg c' (.memo e.idx (bodyOf e.idx)) e.pos x → x ∈ e.res.alts
  noEOF : NoEOF e.res

def CacheC (cfg : Cfg) (bodyOf : Nat → G) (st : St) : Prop := ∀ e ∈ st.cache, EntryC cfg bodyOf e

def RunCompleteOK (cfg : Cfg) (bodyOf : Nat → G) (r : RunFn) : Prop :=
  ∀ g ctx pos st o st', Frag cfg g → GOK bodyOf g → CacheC cfg bodyOf st → r g ctx pos st = some (o, st') →
    OutC cfg g ctx pos o ∧ NoEOF o.res ∧ CacheC cfg bodyOf st'

theorem CacheC_of_eq {cfg : Cfg} {bodyOf : Nat → G} {st st' : St} (h : CacheC cfg bodyOf st)
    (e : st'.cache = st.cache) : CacheC cfg bodyOf st' := by
  unfold CacheC; rw [e]; exact h

theorem NoEOF_nil : NoEOF .nil := by intro x hx; cases hx

theorem NoEOF_append {a b : Res} (ha : NoEOF a) (hb : NoEOF b) : NoEOF (appendNode a b) := by
  intro x hx
  cases mem_appendNode _ _ _ hx with
  | inl h => exact ha x h
  | inr h => exact hb x h

/-! ### Any -/

theorem anyLoop_complete (cfg : Cfg) (bodyOf : Nat → G) (r : RunFn) (hr : RunCompleteOK cfg bodyOf r)
    (ctx : Ctx) (pos : Nat) :
    ∀ (gs : List G), (∀ g ∈ gs, Frag cfg g ∧ GOK bodyOf g) →
      ∀ a st a' st', CacheC cfg bodyOf st → NoEOF a.res → anyLoop r ctx pos gs a st = some (a', st') →
        CacheC cfg bodyOf st' ∧ NoEOF a'.res ∧ (∀ x ∈ a.res.alts, x ∈ a'.res.alts) ∧ (∀ k ∈ a.cp, k ∈ a'.cp) ∧
        ∀ g ∈ gs, ∀ (c' : Nat → Nat) (x : Node), (∀ k ∈ a'.cp, ctx.get k ≤ c' k) → DerivesC cfg c' g pos x →
          x ∈ a'.res.alts := by
  intro gs
  induction gs with
  | nil =>
    intro _ a st a' st' hC hN h
    simp only [anyLoop] at h
    cases h
    exact ⟨hC, hN, fun x hx => hx, fun k hk => hk, (by intro g hg; cases hg)⟩
  | cons g gs ih =>
    intro hgs a st a' st' hC hN h
    simp only [anyLoop] at h
    split at h
    · cases h
    · rename_i o st1 hrun
      obtain ⟨hg1, hg2⟩ := hgs g (List.mem_cons_self ..)
      obtain ⟨hO, hNo, hC1⟩ := hr g ctx pos st.regCall o st1 hg1 hg2 (CacheC_of_eq hC rfl) hrun
      obtain ⟨f1, f2, _, _⟩ := altErr_fields pos { a with cp := cpUnion a.cp o.cp, res := appendNode a.res o.res } o.err
      have hN1 : NoEOF (altErr pos { a with cp := cpUnion a.cp o.cp, res := appendNode a.res o.res } o.err).res := by
        rw [f2]; exact NoEOF_append hN hNo
      obtain ⟨c1, c2, c3, c4, c5⟩ := ih (fun g' hg' => hgs g' (List.mem_cons_of_mem _ hg')) _ _ _ _ hC1 hN1 h
      rw [f2] at c3
      rw [f1] at c4
      refine ⟨c1, c2, fun x hx => c3 x (mem_appendNode_left _ _ _ hx), fun k hk => c4 k (mem_cpUnion_left _ _ _ hk), ?_⟩
      intro g' hg' c' x hdom hd
      cases hg' with
      | head =>
        refine c3 x (mem_appendNode_right _ _ _ (hO c' x ?_ hd))
        intro k hk
        exact hdom k (c4 k (mem_cpUnion_right _ _ _ hk))
      | tail _ hm => exact c5 g' hm c' x hdom hd

/-! ### Sequence -/

/-- how the `sequence` object may evolve: results and curtailing parsers are only ever added -/
def SeqLe (ss ss' : SeqSt) : Prop :=
  (∀ x ∈ ss.result.alts, x ∈ ss'.result.alts) ∧ (∀ k ∈ ss.cp, k ∈ ss'.cp) ∧ (NoEOF ss.result → NoEOF ss'.result)

theorem SeqLe.refl (ss : SeqSt) : SeqLe ss ss := ⟨fun _ h => h, fun _ h => h, id⟩
theorem SeqLe.trans {a b c : SeqSt} (h1 : SeqLe a b) (h2 : SeqLe b c) : SeqLe a c :=
  ⟨fun x hx => h2.1 x (h1.1 x hx), fun k hk => h2.2.1 k (h1.2.1 k hk), fun h => h2.2.2 (h1.2.2 h)⟩

/-- the alternatives loop visits EVERY alternative, provided the early exit never fires -/
theorem seqAlts_trace (k : Node → SeqSt → St → Option (Bool × SeqSt × St)) (Inv : St → Prop) :
    ∀ (l : List Node),
      (∀ n ∈ l, ∀ ss st b ss' st', Inv st → k n ss st = some (b, ss', st') → b = false ∧ Inv st' ∧ SeqLe ss ss') →
      ∀ ss st b ss' st', Inv st → seqAlts k l ss st = some (b, ss', st') →
        b = false ∧ Inv st' ∧ SeqLe ss ss' ∧
        ∀ n ∈ l, ∃ ss2 st2 ss3 st3, Inv st2 ∧ k n ss2 st2 = some (false, ss3, st3) ∧ SeqLe ss3 ss' := by
  intro l
  induction l with
  | nil =>
    intro _ ss st b ss' st' hI h
    simp only [seqAlts] at h
    cases h
    exact ⟨rfl, hI, SeqLe.refl _, (by intro n hn; cases hn)⟩
  | cons n rest ih =>
    intro hk ss st b ss' st' hI h
    simp only [seqAlts] at h
    split at h
    · cases h
    · rename_i ss1 st1 hk1
      have := (hk n (List.mem_cons_self ..) _ _ _ _ _ hI hk1).1
      cases this
    · rename_i ss1 st1 hk1
      obtain ⟨_, e1, e2⟩ := hk n (List.mem_cons_self ..) _ _ _ _ _ hI hk1
      obtain ⟨r1, r2, r3, r4⟩ := ih (fun n' hn' => hk n' (List.mem_cons_of_mem _ hn')) ss1 st1 b ss' st' e1 h
      refine ⟨r1, r2, e2.trans r3, ?_⟩
      intro n' hn'
      cases hn' with
      | head => exact ⟨ss, st, ss1, st1, hI, hk1, r3⟩
      | tail _ hm => exact r4 n' hm

/-- whether the emission reports "the last node was EOF" -/
def emitB (fr : Frame) : Bool :=
  if fr.depth > 0 then (match fr.nodes.getLast? with | some l => l.token == eofTok | none => false) else false

/-- the call of element `depth` (a missing element answers nil) -/
def seqStep (r : RunFn) (sh : SeqShape) (fr : Frame) (st : St) : Option (Out × St) :=
  match sh.lookup fr.depth with
  | some g => r g fr.ctx fr.pos st.regCall
  | none => some (⟨.nil, [], none⟩, st)

/-- one unfolding of `seqParse`, in the vocabulary of Proofs/RunLoops.lean -/
theorem seqParse_succ (r : RunFn) (sh : SeqShape) (fuel : Nat) (fr : Frame) (ss : SeqSt) (st : St) :
    seqParse r sh (fuel + 1) fr.depth fr.nodes fr.ctx fr.pos fr.merge ss st =
      match seqStep r sh fr st with
      | none => none
      | some (o, st1) =>
        if o.res.isNil then
          if sh.lenCheck fr.depth then some (emitB fr, seqEmit sh fr (seqAfter fr.merge ss o), st1)
          else some (false, seqAfter fr.merge ss o, st1)
        else
          seqAlts (fun n ss st => seqParse r sh fuel (fr.next n).depth (fr.next n).nodes (fr.next n).ctx
              (fr.next n).pos (fr.next n).merge ss st) o.res.alts (seqAfter fr.merge ss o) st1 := by
  simp only [seqParse]
  have key : ∀ (step : Option (Out × St)),
      (match step with
        | none => none
        | some (o, st) =>
          match o.res with
          | Res.nil =>
            if sh.lenCheck fr.depth = true then
              if fr.depth > 0 then
                some
                  (match fr.nodes.getLast? with
                    | some l => l.token == eofTok
                    | none => false,
                    { (if fr.merge = true then
                        { cp := cpUnion ss.cp o.cp, result := ss.result, err := pickErr ss.err o.err : SeqSt }
                       else { cp := ss.cp, result := ss.result, err := pickErr ss.err o.err }) with
                      result := appendNode (if fr.merge = true then
                          { cp := cpUnion ss.cp o.cp, result := ss.result, err := pickErr ss.err o.err : SeqSt }
                        else { cp := ss.cp, result := ss.result, err := pickErr ss.err o.err }).result
                        (Res.one (handleResult sh fr.pos fr.nodes)) },
                    st)
              else
                some
                  (false,
                    { (if fr.merge = true then
                        { cp := cpUnion ss.cp o.cp, result := ss.result, err := pickErr ss.err o.err : SeqSt }
                       else { cp := ss.cp, result := ss.result, err := pickErr ss.err o.err }) with
                      result := appendNode (if fr.merge = true then
                          { cp := cpUnion ss.cp o.cp, result := ss.result, err := pickErr ss.err o.err : SeqSt }
                        else { cp := ss.cp, result := ss.result, err := pickErr ss.err o.err }).result
                        (Res.one (handleResult sh fr.pos [])) },
                    st)
            else
              some
                (false,
                  if fr.merge = true then { cp := cpUnion ss.cp o.cp, result := ss.result, err := pickErr ss.err o.err }
                  else { cp := ss.cp, result := ss.result, err := pickErr ss.err o.err },
                  st)
          | res =>
            seqAlts
              (fun n ss st =>
                seqParse r sh fuel (fr.depth + 1) (fr.nodes ++ [n]) (if n.rpos > fr.pos then [] else fr.ctx) n.rpos
                  (fr.merge && !decide (n.rpos > fr.pos)) ss st)
              res.alts
              (if fr.merge = true then { cp := cpUnion ss.cp o.cp, result := ss.result, err := pickErr ss.err o.err }
              else { cp := ss.cp, result := ss.result, err := pickErr ss.err o.err })
              st) =
      (match step with
      | none => none
      | some (o, st1) =>
        if o.res.isNil then
          if sh.lenCheck fr.depth then some (emitB fr, seqEmit sh fr (seqAfter fr.merge ss o), st1)
          else some (false, seqAfter fr.merge ss o, st1)
        else
          seqAlts (fun n ss st => seqParse r sh fuel (fr.next n).depth (fr.next n).nodes (fr.next n).ctx
              (fr.next n).pos (fr.next n).merge ss st) o.res.alts (seqAfter fr.merge ss o) st1) := by
    intro step
    cases step with
    | none => rfl
    | some p =>
    obtain ⟨o, st1⟩ := p
    simp only
    have hss : (if fr.merge = true then
          { cp := cpUnion ss.cp o.cp, result := ss.result, err := pickErr ss.err o.err : SeqSt }
        else { cp := ss.cp, result := ss.result, err := pickErr ss.err o.err }) = seqAfter fr.merge ss o := by
      unfold seqAfter
      by_cases hm : fr.merge = true <;> simp [hm]
    rw [hss]
    cases hres : o.res with
    | nil =>
      simp only [Res.isNil, ↓reduceIte]
      by_cases hlc : sh.lenCheck fr.depth = true
      · simp only [hlc, ↓reduceIte]
        by_cases hdp : fr.depth > 0
        · simp only [hdp, ↓reduceIte, seqEmit, emitB]
        · simp only [hdp, ↓reduceIte, seqEmit, emitB]
      · simp only [hlc]
        rfl
    | one n => rfl
    | list l => rfl
  exact key _

theorem emitB_false (fr : Frame) (h : ∀ n ∈ fr.nodes, n.token ≠ eofTok) : emitB fr = false := by
  unfold emitB
  split
  · split
    · rename_i l hl
      have := h l (List.mem_of_getLast? hl)
      simpa using this
    · rfl
  · rfl

theorem seqAfter_result (m : Bool) (ss : SeqSt) (o : Out) : (seqAfter m ss o).result = ss.result := by
  unfold seqAfter; split <;> rfl

theorem seqAfter_cp_left (m : Bool) (ss : SeqSt) (o : Out) : ∀ k ∈ ss.cp, k ∈ (seqAfter m ss o).cp := by
  intro k hk
  unfold seqAfter
  split
  · exact mem_cpUnion_left _ _ _ hk
  · exact hk

theorem seqAfter_cp_right (ss : SeqSt) (o : Out) : ∀ k ∈ o.cp, k ∈ (seqAfter true ss o).cp := by
  intro k hk
  unfold seqAfter
  simp only [↓reduceIte]
  exact mem_cpUnion_right _ _ _ hk

theorem SeqLe_after (m : Bool) (ss : SeqSt) (o : Out) : SeqLe ss (seqAfter m ss o) :=
  ⟨by rw [seqAfter_result]; exact fun _ h => h, seqAfter_cp_left m ss o, by rw [seqAfter_result]; exact id⟩

/-- **Completeness principle for the sequence loop** (dual to `seqParse_ind`): every chain of nodes the
    elements can derive from the frame on — under counters that dominate the frame's context on the
    FINAL curtailing set while merging is on, under any counters once it is off — is emitted. -/
theorem seqParse_complete (cfg : Cfg) (bodyOf : Nat → G) (r : RunFn) (hr : RunCompleteOK cfg bodyOf r)
    (sh : SeqShape)
    (hlook : ∀ d g', sh.lookup d = some g' → Frag cfg g' ∧ GOK bodyOf g')
    (hlc : ∀ d g', sh.lookup d = some g' → sh.lenCheck d = false)
    (htok : sh.token ≠ eofTok) (pos0 : Nat) :
    ∀ (fuel : Nat) (fr : Frame) ss st b ss' st',
      CacheC cfg bodyOf st → fr.depth = fr.nodes.length → (fr.merge = false → fr.ctx = []) →
      (∀ n ∈ fr.nodes, n.token ≠ eofTok) → endOf pos0 fr.nodes = fr.pos →
      seqParse r sh fuel fr.depth fr.nodes fr.ctx fr.pos fr.merge ss st = some (b, ss', st') →
      b = false ∧ CacheC cfg bodyOf st' ∧ SeqLe ss ss' ∧
      ∀ (c' : Nat → Nat) (rest : List Node), (fr.merge = true → ∀ k ∈ ss'.cp, fr.ctx.get k ≤ c' k) →
        DerivesSeqC cfg c' sh fr.depth fr.pos rest → sh.lenCheck (fr.depth + rest.length) = true →
        handleResult sh pos0 (fr.nodes ++ rest) ∈ ss'.result.alts := by
  intro fuel
  induction fuel with
  | zero => intro fr ss st b ss' st' _ _ _ _ _ h; simp [seqParse] at h
  | succ fuel ih =>
    intro fr ss st b ss' st' hC hd hm hne hend h
    rw [seqParse_succ] at h
    generalize hstep : seqStep r sh fr st = step at h
    unfold seqStep at hstep
    cases step with
    | none => simp at h
    | some p =>
    obtain ⟨o, st1⟩ := p
    simp only at h
    -- what the call of element `depth` gives
    have hfacts : CacheC cfg bodyOf st1 ∧ NoEOF o.res ∧
        (∀ g', sh.lookup fr.depth = some g' → OutC cfg g' fr.ctx fr.pos o) ∧
        (sh.lookup fr.depth = none → o.res.isNil = true) := by
      cases hl : sh.lookup fr.depth with
      | none =>
        simp only [hl] at hstep
        cases hstep
        exact ⟨hC, NoEOF_nil, (by intro g' hg'; cases hg'), fun _ => rfl⟩
      | some g' =>
        simp only [hl] at hstep
        obtain ⟨hg1, hg2⟩ := hlook _ _ hl
        obtain ⟨hO, hN, hC1⟩ := hr g' fr.ctx fr.pos st.regCall o st1 hg1 hg2 (CacheC_of_eq hC rfl) hstep
        exact ⟨hC1, hN, (by intro g'' hg''; cases hg''; exact hO), (by intro hc; cases hc)⟩
    obtain ⟨hC1, hNo, hOut, hnone⟩ := hfacts
    -- the domination premise for the element, from the one for the whole frame
    have hdomEl : ∀ (c' : Nat → Nat) (fin : SeqSt), SeqLe (seqAfter fr.merge ss o) fin →
        (fr.merge = true → ∀ k ∈ fin.cp, fr.ctx.get k ≤ c' k) → ∀ k ∈ o.cp, fr.ctx.get k ≤ c' k := by
      intro c' fin hle hdom k hk
      cases hmg : fr.merge with
      | true =>
        refine hdom hmg k (hle.2.1 k ?_)
        rw [hmg]; exact seqAfter_cp_right ss o k hk
      | false => rw [hm hmg]; exact Nat.zero_le _
    -- the tree emitted at this depth
    have hemitEq : handleResult sh fr.pos (if fr.depth > 0 then fr.nodes else []) = handleResult sh pos0 fr.nodes := by
      have hn : (if fr.depth > 0 then fr.nodes else []) = fr.nodes := by
        split
        · rfl
        · have : fr.nodes.length = 0 := by omega
          exact (List.length_eq_zero_iff.mp this).symm
      rw [hn]
      cases hnn : fr.nodes with
      | nil => rw [hnn] at hend; simp only [endOf_nil] at hend; rw [hend]
      | cons a b => exact handleResult_pos_irrel sh _ _ _ (by simp)
    by_cases hnil : o.res.isNil = true
    · -- the element failed (or there is no further element)
      have halts : o.res.alts = [] := alts_nil_of_isNil hnil
      have hnocons : ∀ (c' : Nat → Nat) (n : Node) (rest1 : List Node) (fin : SeqSt), SeqLe (seqAfter fr.merge ss o) fin →
          (fr.merge = true → ∀ k ∈ fin.cp, fr.ctx.get k ≤ c' k) →
          ¬ DerivesSeqC cfg c' sh fr.depth fr.pos (n :: rest1) := by
        intro c' n rest1 fin hle hdom hds
        cases hds with
        | cons hl' hn' _ =>
          have := hOut _ hl' c' n (hdomEl c' fin hle hdom) hn'
          rw [halts] at this; cases this
      simp only [hnil, ↓reduceIte] at h
      by_cases hlcd : sh.lenCheck fr.depth = true
      · simp only [hlcd, ↓reduceIte] at h
        injection h with h
        injection h with hb h
        injection h with hs hst
        subst hb hs hst
        have hle : SeqLe (seqAfter fr.merge ss o) (seqEmit sh fr (seqAfter fr.merge ss o)) := by
          refine ⟨fun x hx => mem_appendNode_left _ _ _ hx, fun k hk => hk, ?_⟩
          intro hN
          refine NoEOF_append hN ?_
          intro x hx
          simp only [Res.alts, List.mem_singleton] at hx
          subst hx
          rw [hemitEq]
          exact handleResult_token sh pos0 fr.nodes htok hne
        refine ⟨emitB_false fr hne, hC1, (SeqLe_after _ _ _).trans hle, ?_⟩
        intro c' rest hdom hds _
        cases rest with
        | nil =>
          rw [List.append_nil]
          simp only [seqEmit]
          refine mem_appendNode_right _ _ _ ?_
          rw [hemitEq]; simp [Res.alts]
        | cons n rest1 => exact absurd hds (hnocons c' n rest1 _ hle hdom)
      · simp only [hlcd] at h
        injection h with h
        injection h with hb h
        injection h with hs hst
        subst hb hs hst
        refine ⟨rfl, hC1, SeqLe_after _ _ _, ?_⟩
        intro c' rest hdom hds hlen
        cases rest with
        | nil => simp only [List.length_nil, Nat.add_zero] at hlen; exact absurd hlen hlcd
        | cons n rest1 => exact absurd hds (hnocons c' n rest1 _ (SeqLe.refl _) hdom)
    · -- the element returned alternatives
      have hnil' : o.res.isNil = false := by simpa using hnil
      simp only [hnil', Bool.false_eq_true, ↓reduceIte] at h
      obtain ⟨g', hl⟩ : ∃ g', sh.lookup fr.depth = some g' := by
        cases hl : sh.lookup fr.depth with
        | none => exact absurd (hnone hl) hnil
        | some g' => exact ⟨g', rfl⟩
      -- the frame each alternative continues with
      have hnext : ∀ n ∈ o.res.alts, (fr.next n).depth = (fr.next n).nodes.length ∧
          ((fr.next n).merge = false → (fr.next n).ctx = []) ∧
          (∀ m ∈ (fr.next n).nodes, m.token ≠ eofTok) ∧ endOf pos0 (fr.next n).nodes = (fr.next n).pos := by
        intro n hn
        refine ⟨by simp [Frame.next, hd], ?_, ?_, by simp only [Frame.next]; exact endOf_snoc _ _ _⟩
        · intro hmf
          simp only [Frame.next] at hmf ⊢
          by_cases hc : n.rpos > fr.pos
          · simp [hc]
          · simp only [hc, decide_false, Bool.not_false, Bool.and_true] at hmf
            simp only [hc, ↓reduceIte]
            exact hm hmf
        · intro m hmm
          simp only [Frame.next, List.mem_append, List.mem_singleton] at hmm
          cases hmm with
          | inl h1 => exact hne m h1
          | inr h1 => rw [h1]; exact hNo n hn
      obtain ⟨t1, t2, t3, t4⟩ := seqAlts_trace _ (CacheC cfg bodyOf) o.res.alts
        (by
          intro n hn ss2 st2 b2 ss3 st3 hC2 hk
          obtain ⟨n1, n2, n3, n4⟩ := hnext n hn
          obtain ⟨i1, i2, i3, _⟩ := ih (fr.next n) ss2 st2 b2 ss3 st3 hC2 n1 n2 n3 n4 hk
          exact ⟨i1, i2, i3⟩)
        _ _ _ _ _ hC1 h
      refine ⟨t1, t2, (SeqLe_after _ _ _).trans t3, ?_⟩
      intro c' rest hdom hds hlen
      cases rest with
      | nil =>
        simp only [List.length_nil, Nat.add_zero] at hlen
        rw [hlc _ _ hl] at hlen; cases hlen
      | cons n rest1 =>
        cases hds with
        | cons hl' hn' hrest =>
          have hnm : n ∈ o.res.alts := hOut _ hl' c' n (hdomEl c' ss' t3 hdom) hn'
          obtain ⟨ss2, st2, ss3, st3, hC2, hk, hle3⟩ := t4 n hnm
          obtain ⟨n1, n2, n3, n4⟩ := hnext n hnm
          obtain ⟨_, _, _, i4⟩ := ih (fr.next n) ss2 st2 false ss3 st3 hC2 n1 n2 n3 n4 hk
          have := i4 (if n.rpos > fr.pos then zeroC else c') rest1 ?_ (by simpa [Frame.next] using hrest)
            (by simpa [Frame.next, Nat.add_assoc, Nat.add_comm 1] using hlen)
          · refine hle3.1 _ ?_
            simpa [Frame.next, List.append_assoc] using this
          · intro hmg k hk3
            simp only [Frame.next] at hmg ⊢
            by_cases hc : n.rpos > fr.pos
            · simp [hc] at hmg
            · simp only [hc, decide_false, Bool.not_false, Bool.and_true] at hmg
              simp only [hc, ↓reduceIte]
              exact hdom hmg k (hle3.2.1 k hk3)

/-! ### the end of (*Sequence).Parse -/

theorem seqFinish_complete (sh : SeqShape) (pos : Nat) (ss : SeqSt) (st : St) :
    (∀ x ∈ ss.result.alts, x ∈ (seqFinish sh pos ss st).1.res.alts) ∧ (seqFinish sh pos ss st).1.cp = ss.cp := by
  by_cases hnil : ss.result.isNil = true
  · refine ⟨?_, by simp [seqFinish]⟩
    rw [alts_nil_of_isNil hnil]; intro x hx; cases hx
  · have hnil' : ss.result.isNil = false := by simpa using hnil
    have e2 : (seqFinish sh pos ss st).1.res = ss.result := by simp [seqFinish, hnil']
    rw [e2]; exact ⟨fun x hx => hx, by simp [seqFinish]⟩

theorem seqOf_shape {gs : List G} {o : SeqOpts} {sh : SeqShape} (hs : (G.seq .seqOf gs o).shape = some sh) :
    (∀ d g', sh.lookup d = some g' → sh.lenCheck d = false) ∧ sh.token = o.token.getD seqTok := by
  simp only [G.shape, Option.some.injEq] at hs
  subst hs
  refine ⟨?_, rfl⟩
  intro d g' hl
  simp only at hl ⊢
  have hlt : d < gs.length := by
    rcases Nat.lt_or_ge d gs.length with h | h
    · exact h
    · rw [List.getElem?_eq_none h] at hl; cases hl
  simp only [beq_eq_false_iff_ne, ne_eq]
  omega

/-! ### the induction -/

theorem run_complete (cfg : Cfg) (bodyOf : Nat → G) (henv : ∀ g' ∈ cfg.env, Frag cfg g' ∧ GOK bodyOf g') :
    ∀ fuel, RunCompleteOK cfg bodyOf (run cfg fuel) := by
  intro fuel
  induction fuel with
  | zero => intro g ctx pos st o st' _ _ _ h; simp [run] at h
  | succ fuel ih =>
    intro g ctx pos st o st' hf hg hcs h
    cases hsh : g.shape with
    | some sh =>
      -- in the fragment the only Sequence-family parser is SeqOf
      obtain ⟨gs, so, rfl⟩ : ∃ gs so, g = .seq .seqOf gs so := by
        cases g with
        | seq k gs so =>
          cases k with
          | seqOf => exact ⟨gs, so, rfl⟩
          | seqTry => have := G.All_self hf; simp [FragLocal] at this
          | seqFirstOrAll => have := G.All_self hf; simp [FragLocal] at this
        | many g1 ae so => have := G.All_self hf; simp [FragLocal] at this
        | sepBy v s ae so => have := G.All_self hf; simp [FragLocal] at this
        | _ => simp [G.shape] at hsh
      rw [run_seqfam cfg fuel _ sh ctx pos st hsh] at h
      split at h
      · cases h
      · unfold runSeq at h
        split at h
        · cases h
        · rename_i b ss st1 hsp
          have hfin : seqFinish sh pos ss st1 = (o, st') := by injection h
          obtain ⟨s1, s2⟩ := seqOf_shape hsh
          have htok : sh.token ≠ eofTok := by
            rw [s2]
            have := G.All_self hf
            simpa [FragLocal] using this
          obtain ⟨_, c2, c3, c4⟩ := seqParse_complete cfg bodyOf (run cfg fuel) ih sh
            (fun d g' hl => ⟨shape_lookup_all hf hsh d g' hl, shape_lookup_all hg hsh d g' hl⟩) s1 htok pos fuel
            ⟨0, [], ctx, pos, true⟩ {} st b ss st1 hcs rfl (by intro hc; cases hc) (by intro n hn; cases hn) rfl hsp
          obtain ⟨f1, f2⟩ := seqFinish_res sh pos ss st1
          obtain ⟨f3, f4⟩ := seqFinish_complete sh pos ss st1
          rw [hfin] at f1 f2 f3 f4
          refine ⟨?_, fun x hx => c3.2.2 NoEOF_nil x (f1 x hx), CacheC_of_eq c2 f2⟩
          intro c' x hdom hd
          cases hd with
          | seqOf hs' hds hlen =>
            rename_i sh' nodes
            have : sh' = sh := by rw [hsh] at hs'; injection hs' with e; exact e.symm
            subst this
            refine f3 _ ?_
            have := c4 c' nodes (by intro _ k hk; rw [f4] at hdom; exact hdom k hk) hds
              (by simpa using hlen)
            simpa using this
    | none =>
    unfold run at h
    split at h
    · cases h
    · cases g with
      | term t =>
        simp only at h
        have hT : ∀ pos n, t.parse cfg.params cfg.file pos = .node n → n.token ≠ eofTok := by
          simpa [Frag, G.All, FragLocal] using hf
        split at h
        · rename_i n hp
          cases h
          refine ⟨?_, ?_, hcs⟩
          · intro c' x _ hd
            cases hd with
            | term hp' => rw [hp] at hp'; cases hp'; simp [Res.alts]
          · intro x hx
            simp only [Res.alts, List.mem_singleton] at hx
            subst hx; exact hT _ _ hp
        · rename_i e hp
          cases h
          refine ⟨?_, NoEOF_nil, CacheC_of_eq hcs (logEv_fields st cfg _).1⟩
          intro c' x _ hd
          cases hd with
          | term hp' => rw [hp] at hp'; cases hp'
        · rename_i site hp
          cases h
          refine ⟨?_, NoEOF_nil, hcs⟩
          intro c' x _ hd
          cases hd with
          | term hp' => rw [hp] at hp'; cases hp'
      | empty =>
        simp only at h
        cases h
        refine ⟨?_, ?_, hcs⟩
        · intro c' x _ hd
          cases hd with
          | empty => simp [Res.alts]
        · intro x hx
          simp only [Res.alts, List.mem_singleton] at hx
          subst hx; simp [Node.token, eofTok]
      | eof => have := G.All_self hf; simp [FragLocal] at this
      | ref k =>
        simp only at h
        split at h
        · rename_i g' hk
          obtain ⟨e1, e2⟩ := henv g' (List.mem_of_getElem? hk)
          obtain ⟨h1, h2, h3⟩ := ih g' ctx pos st o st' e1 e2 hcs h
          refine ⟨?_, h2, h3⟩
          intro c' x hdom hd
          cases hd with
          | ref hk' hd' => rw [hk] at hk'; cases hk'; exact h1 c' x hdom hd'
        · rename_i hk
          cases h
          refine ⟨?_, NoEOF_nil, hcs⟩
          intro c' x _ hd
          cases hd with
          | ref hk' hd' => rw [hk'] at hk; cases hk
      | memo idx body =>
        simp only at h
        have hg2 : body = bodyOf idx ∧ GOK bodyOf body := by simpa [GOK, G.All, LocalOK] using hg
        have hf2 : Frag cfg body := by
          have : FragLocal cfg (.memo idx body) ∧ body.All (FragLocal cfg) := by simpa [Frag, G.All] using hf
          exact this.2
        cases hc : cacheGet st.cache idx pos ctx with
        | some e =>
          -- reuse: the test of `Get` is the premise of the entry's promise
          simp only [hc] at h
          cases h
          obtain ⟨hm, hi, hp⟩ := cacheGet_some hc
          have hE := hcs e hm
          refine ⟨?_, hE.noEOF, CacheC_of_eq hcs (logEv_fields st cfg _).1⟩
          intro c' x hdom hd
          simp only at hdom
          refine hE.complete c' x ?_ (by rw [hi, hp, ← hg2.1]; exact hd)
          intro kv hkv
          have h1 := cacheGet_ctx hc kv hkv
          have h2 := hdom kv.1 (hE.keys kv hkv)
          omega
        | none =>
          simp only [hc] at h
          by_cases hcur : ctx.get idx > remaining cfg.file pos + Facts.curtailSlack
          · -- curtailment: no curtailed derivation enters `idx` under counters that dominate `ctx` on it
            simp only [hcur, ↓reduceIte] at h
            cases h
            refine ⟨?_, NoEOF_nil, CacheC_of_eq hcs (logEv_fields st cfg _).1⟩
            intro c' x hdom hd
            have h1 := hdom idx (by simp)
            cases hd with
            | memo hle _ => omega
          · simp only [hcur, ↓reduceIte] at h
            split at h
            · cases h
            · rename_i o2 st2 hr
              cases h
              have hih := fun hc1 => ih _ _ _ _ _ _ hf2 hg2.2 hc1 hr
              obtain ⟨h1, h2, h3⟩ := hih (CacheC_of_eq hcs (logEv_fields _ cfg _).1)
              have hOut : OutC cfg (.memo idx body) ctx pos o := by
                intro c' x hdom hd
                cases hd with
                | memo hle hd' =>
                  refine h1 (bump c' idx) x ?_ hd'
                  intro k hk
                  by_cases hki : k = idx
                  · subst hki
                    rw [Ctx.get_inc_self]
                    have := hdom k hk
                    simp only [bump, ↓reduceIte]; omega
                  · rw [Ctx.get_inc_other _ _ _ hki]
                    have := hdom k hk
                    simp only [bump, hki, ↓reduceIte]; exact this
              refine ⟨hOut, h2, ?_⟩
              intro e he
              cases mem_cacheSave he with
              | inl h4 =>
                subst h4
                refine ⟨?_, ?_, h2⟩
                · intro kv hkv
                  exact (mem_ctx_filter.mp hkv).2
                · intro c' x hdom hd
                  simp only at hdom hd ⊢
                  rw [← hg2.1] at hd
                  exact hOut c' x (get_le_of_filter hdom) hd
              | inr h4 => exact h3 e h4
      | any gs =>
        simp only at h
        have hgs : ∀ g' ∈ gs, Frag cfg g' ∧ GOK bodyOf g' := by
          have a1 : FragLocal cfg (.any gs) ∧ AllList (FragLocal cfg) gs := by simpa [Frag, G.All] using hf
          have a2 : LocalOK bodyOf (.any gs) ∧ AllList (LocalOK bodyOf) gs := by simpa [GOK, G.All] using hg
          exact fun g' hg' => ⟨AllList_mem a1.2 g' hg', AllList_mem a2.2 g' hg'⟩
        split at h
        · cases h
        · rename_i a st1 hl
          obtain ⟨a1, a2, _, _, a5⟩ := anyLoop_complete cfg bodyOf (run cfg fuel) ih ctx pos gs hgs {} st a st1 hcs NoEOF_nil hl
          have hOut : ∀ (c' : Nat → Nat) (x : Node), (∀ k ∈ a.cp, ctx.get k ≤ c' k) → DerivesC cfg c' (.any gs) pos x →
              x ∈ a.res.alts := by
            intro c' x hdom hd
            cases hd with
            | any hm hd' => exact a5 _ hm c' x hdom hd'
          split at h
          · rename_i hnil
            cases h
            refine ⟨?_, NoEOF_nil, a1⟩
            intro c' x hdom hd
            have := hOut c' x hdom hd
            rw [alts_nil_of_isNil hnil] at this; cases this
          · cases h
            exact ⟨hOut, a2, CacheC_of_eq a1 (setError_ctxErr st1 a.err).2.1⟩
      | optional g' =>
        simp only at h
        have hf' : Frag cfg g' := by
          have : FragLocal cfg (.optional g') ∧ g'.All (FragLocal cfg) := by simpa [Frag, G.All] using hf
          exact this.2
        have hg' : GOK bodyOf g' := by
          have : LocalOK bodyOf (.optional g') ∧ g'.All (LocalOK bodyOf) := by simpa [GOK, G.All] using hg
          exact this.2
        split at h
        · cases h
        · rename_i o1 st1 hr
          cases h
          obtain ⟨h1, h2, h3⟩ := ih g' ctx pos st o1 _ hf' hg' hcs hr
          refine ⟨?_, ?_, h3⟩
          · intro c' x hdom hd
            cases hd with
            | optSome hd' => exact mem_appendNode_left _ _ _ (h1 c' x hdom hd')
            | optNone => exact mem_appendNode_right _ _ _ (by simp [Res.alts])
          · refine NoEOF_append h2 ?_
            intro x hx
            simp only [Res.alts, List.mem_singleton] at hx
            subst hx; simp [Node.token, eofTok]
      | choice gs => have := G.All_self hf; simp [FragLocal] at this
      | name g' nm => have := G.All_self hf; simp [FragLocal] at this
      | single g' => have := G.All_self hf; simp [FragLocal] at this
      | suppress g' => have := G.All_self hf; simp [FragLocal] at this
      | ltrim g' m => have := G.All_self hf; simp [FragLocal] at this
      | rtrim g' m => have := G.All_self hf; simp [FragLocal] at this
      | seq k gs o => simp [G.shape] at hsh
      | many g' ae o => simp [G.shape] at hsh
      | sepBy v s ae o => simp [G.shape] at hsh

end PV
