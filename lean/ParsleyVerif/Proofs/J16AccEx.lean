/-
  C16, the converse — concrete documents inside and outside the language `JLang` (Spec/J16AccLang.lean), proved
  from the DEFINITION of the language (no run of the model): the non-vacuity instances of Props/C16A.lean.

  Inside (forms that the supported subset does not have): `0x1F`, `017`, `-.5e3`, `"\x41\a<TAB>"`, `[1,<FF>2]`.
  Outside: `1e5`, `[1,]`, `[1<LF>,2]` (a line break before `,`), `{"a" 1}`, `"\q"`.

  Everything lives in `PV.J16Acc`.
-/
import ParsleyVerif.Proofs.J16AccFwd
namespace PV.J16Acc
open PV PV.Text PV.J16

/-! ### inside -/

theorem isInt_dec {l : Bytes} (h : Lang.isInt l = true) : Lang.IsInt l := h
theorem isFloat_dec {l : Bytes} (h : Lang.isFloat l = true) : Lang.IsFloat l := h

/-- `0x1F` -/
theorem ex_hex (P : Params) : JLang P [48, 120, 49, 70] :=
  ⟨[], .lit (.int [48, 120, 49, 70]), [], wsNlF_nil, wsNlF_nil, ⟨isInt_dec (by decide), by decide, by decide⟩, rfl⟩

/-- `017` (octal: the value is 15) -/
theorem ex_octal (P : Params) : JLang P [48, 49, 55] :=
  ⟨[], .lit (.int [48, 49, 55]), [], wsNlF_nil, wsNlF_nil, ⟨isInt_dec (by decide), by decide, by decide⟩, rfl⟩

theorem ex_octal_value : Lang.intValue [48, 49, 55] = 15 := by decide
theorem ex_hex_value : Lang.intValue [48, 120, 49, 70] = 31 := by decide

/-- `-.5e3` (whenever ParseFloat accepts the lexeme) -/
theorem ex_float (P : Params) (hf : P.floatOk [45, 46, 53, 101, 51] = true) : JLang P [45, 46, 53, 101, 51] :=
  ⟨[], .lit (.flt [45, 46, 53, 101, 51]), [], wsNlF_nil, wsNlF_nil, ⟨isFloat_dec (by decide), hf⟩, rfl⟩

/-- the body of `"\x41\a<TAB>"` and its value `A`, BEL, TAB -/
theorem ex_body : IsStrBody [92, 120, 52, 49, 92, 97, 9] [65, 7, 9] :=
  IsStrBody.cons (e := [92, 120, 52, 49]) (c := 65)
    (IsStrElem.hex (x := 120) (n := 2) (ds := [52, 49]) (.inl ⟨rfl, rfl⟩) rfl (by decide) (.inl rfl))
    (IsStrBody.cons (e := [92, 97]) (c := 7) (IsStrElem.simple (by decide))
      (IsStrBody.cons (e := [9]) (c := 9) (IsStrElem.plain (by omega) (by omega) (by omega) (by omega) (by omega))
        IsStrBody.nil))

/-- `"\x41\a<TAB>"` -/
theorem ex_str (P : Params) : JLang P [34, 92, 120, 52, 49, 92, 97, 9, 34] :=
  ⟨[], .lit (.str [92, 120, 52, 49, 92, 97, 9] [65, 7, 9]), [], wsNlF_nil, wsNlF_nil, ex_body, rfl⟩

theorem ws_ff : WsNlF [12] := by intro b hb; simp at hb; omega

/-- `[1,<FF>2]`: a form feed before a value -/
def exFFDoc : AccDoc := .arr (.cons [] [] (.lit (.int [49])) (.cons [] [12] (.lit (.int [50])) .nil)) []

theorem ex_ff_ok (P : Params) : exFFDoc.OK P := by
  simp only [exFFDoc, AccDoc.OK, AccItems.OK, AccLit.OK]
  refine ⟨⟨wsSp_nil', wsNlF_nil, ⟨isInt_dec (by decide), by decide, by decide⟩, wsSp_nil', ws_ff,
    ⟨isInt_dec (by decide), by decide, by decide⟩, trivial⟩, wsNlF_nil⟩
where wsSp_nil' : WsSp [] := by intro b hb; cases hb

theorem ex_ff (P : Params) : JLang P [91, 49, 44, 12, 50, 93] :=
  ⟨[], exFFDoc, [], wsNlF_nil, wsNlF_nil, ex_ff_ok P, rfl⟩

/-! ### tools for "outside" -/

theorem wsNlF_head {w X Y : Bytes} {c : Nat} (hw : WsNlF w) (hc : c ≠ 32 ∧ c ≠ 9 ∧ c ≠ 10 ∧ c ≠ 12)
    (h : w ++ X = c :: Y) : w = [] ∧ X = c :: Y := by
  cases w with
  | nil => exact ⟨rfl, h⟩
  | cons b r =>
    simp only [List.cons_append, List.cons.injEq] at h
    have := hw b (by simp)
    omega

theorem wsSp_head {w X Y : Bytes} {c : Nat} (hw : WsSp w) (hc : c ≠ 32 ∧ c ≠ 9)
    (h : w ++ X = c :: Y) : w = [] ∧ X = c :: Y := by
  cases w with
  | nil => exact ⟨rfl, h⟩
  | cons b r =>
    simp only [List.cons_append, List.cons.injEq] at h
    have := hw b (by simp)
    omega

/-- whitespace of the class `WsNlF` in front of `X`, the whole starting with `c` -/
theorem wsNlF_cons {w X Y : Bytes} {c : Nat} (hw : WsNlF w) (h : w ++ X = c :: Y) :
    (w = [] ∧ X = c :: Y) ∨ ∃ w', w = c :: w' ∧ WsNlF w' ∧ w' ++ X = Y := by
  cases w with
  | nil => exact .inl ⟨rfl, h⟩
  | cons b r =>
    simp only [List.cons_append, List.cons.injEq] at h
    obtain ⟨rfl, h2⟩ := h
    exact .inr ⟨r, rfl, fun x hx => hw x (by simp [hx]), h2⟩

/-- a lexeme over an alphabet stops before the first byte outside the alphabet -/
theorem prefix_of_stop {Pc : Nat → Prop} {c : Nat} (hc : ¬ Pc c) : ∀ {l a Z Y : Bytes}, (∀ b ∈ l, Pc b) →
    l ++ Z = a ++ c :: Y → ∃ a2, a = l ++ a2 ∧ Z = a2 ++ c :: Y
  | [], a, Z, Y, _, h => ⟨a, rfl, h⟩
  | b :: l', a, Z, Y, hl, h => by
    cases a with
    | nil =>
      simp only [List.cons_append, List.nil_append, List.cons.injEq] at h
      exact absurd (h.1 ▸ hl b (by simp)) hc
    | cons a0 a' =>
      simp only [List.cons_append, List.cons.injEq] at h
      obtain ⟨rfl, h2⟩ := h
      obtain ⟨a2, rfl, hz⟩ := prefix_of_stop hc (fun x hx => hl x (by simp [hx])) h2
      exact ⟨a2, rfl, hz⟩

/-- bytes of number lexemes -/
def NumCh (b : Nat) : Prop := IntCh b ∨ FloatCh b

theorem lit_num_chars (P : Params) {a : AccLit} (ha : a.OK P) (hn : (∃ l, a = .int l) ∨ (∃ l, a = .flt l)) :
    ∀ b ∈ a.lex, NumCh b := by
  rcases hn with ⟨l, rfl⟩ | ⟨l, rfl⟩
  · exact fun b hb => .inl (isInt_chars ha.1 b hb)
  · exact fun b hb => .inr ((isFloat_chars ha.1).2 b hb)

theorem not_numCh {c : Nat} (h : c = 44 ∨ c = 93 ∨ c = 125 ∨ c = 32 ∨ c = 10 ∨ c = 12 ∨ c = 9 ∨ c = 34 ∨ c = 58) : ¬ NumCh c := by
  intro hn
  rcases hn with hn | hn
  · rcases hn with h1 | h1 | h1 | h1 | h1
    · omega
    · omega
    · unfold Lang.hexDigit at h1; simp at h1; omega
    · omega
    · omega
  · unfold FloatCh at hn; omega

/-- the first byte of a document of the language -/
def Starter (c : Nat) : Prop :=
  c = 110 ∨ c = 116 ∨ c = 102 ∨ c = 34 ∨ c = 91 ∨ c = 123 ∨ c = 45 ∨ c = 43 ∨ c = 46 ∨ (48 ≤ c ∧ c ≤ 57)

theorem doc_head (P : Params) : ∀ (d : AccDoc), d.OK P → ∃ c t, d.render = c :: t ∧ Starter c
  | .lit a, hd => by
    obtain ⟨c, t, h1, _, h3⟩ := lit_head P a hd
    exact ⟨c, t, h1, by unfold Starter; omega⟩
  | .arr .nil _, _ => ⟨91, _, rfl, by unfold Starter; omega⟩
  | .arr (.cons _ _ _ _) _, _ => ⟨91, _, rfl, by unfold Starter; omega⟩
  | .obj .nil _, _ => ⟨123, _, rfl, by unfold Starter; omega⟩
  | .obj (.cons _ _ _ _ _ _ _ _) _, _ => ⟨123, _, rfl, by unfold Starter; omega⟩

/-- a document that starts with a digit is a number literal -/
theorem doc_digit (P : Params) {d : AccDoc} (hd : d.OK P) {c : Nat} {Z Y : Bytes} (h : d.render ++ Z = c :: Y)
    (hc : 48 ≤ c ∧ c ≤ 57) : ∃ a, d = .lit a ∧ a.OK P ∧ ((∃ l, a = .int l) ∨ (∃ l, a = .flt l)) := by
  cases d with
  | lit a =>
    refine ⟨a, rfl, hd, ?_⟩
    cases a with
    | null => simp [AccDoc.render, AccLit.lex] at h; omega
    | bool b => cases b <;> (simp [AccDoc.render, AccLit.lex] at h; omega)
    | int l => exact .inl ⟨l, rfl⟩
    | flt l => exact .inr ⟨l, rfl⟩
    | str b v => simp [AccDoc.render, AccLit.lex, strLex] at h; omega
  | arr items close => cases items <;> (simp [AccDoc.render] at h; omega)
  | obj mems close => cases mems <;> (simp [AccDoc.render] at h; omega)

/-- a number literal `a` at the head of `[x] ++ c :: Y` with `x` a digit and `c` outside the number alphabet: the
    lexeme is `[x]` and it is an integer -/
theorem num_one (P : Params) {a : AccLit} (ha : a.OK P) (hn : (∃ l, a = .int l) ∨ (∃ l, a = .flt l))
    {x c : Nat} {Z Y : Bytes} (hx : 48 ≤ x ∧ x ≤ 57) (hc : ¬ NumCh c) (h : a.lex ++ Z = x :: c :: Y) :
    a = .int [x] ∧ Z = c :: Y := by
  obtain ⟨a2, ha2, hz⟩ := prefix_of_stop (a := [x]) hc (lit_num_chars P ha hn) h
  rcases hn with ⟨l, rfl⟩ | ⟨l, rfl⟩
  · simp only [AccLit.lex] at ha2 hz
    cases l with
    | nil => exact absurd ha.1 (by unfold Lang.IsInt; decide)
    | cons b l' =>
      simp only [List.cons_append, List.cons.injEq] at ha2
      obtain ⟨rfl, h2⟩ := ha2
      have hl' : l' = [] := by
        cases l' with
        | nil => rfl
        | cons _ _ => simp at h2
      subst hl'
      have : a2 = [] := by simpa using h2.symm
      subst this
      exact ⟨rfl, hz⟩
  · exfalso
    simp only [AccLit.lex] at ha2
    have h46 := (isFloat_chars ha.1).1
    cases l with
    | nil => cases h46
    | cons b l' =>
      simp only [List.cons_append, List.cons.injEq] at ha2
      obtain ⟨rfl, h2⟩ := ha2
      have hl' : l' = [] := by
        cases l' with
        | nil => rfl
        | cons _ _ => simp at h2
      subst hl'
      simp at h46; omega


theorem wsSp_cons {w X Y : Bytes} {c : Nat} (hw : WsSp w) (h : w ++ X = c :: Y) :
    (w = [] ∧ X = c :: Y) ∨ ∃ w', w = c :: w' ∧ WsSp w' ∧ w' ++ X = Y := by
  cases w with
  | nil => exact .inl ⟨rfl, h⟩
  | cons b r =>
    simp only [List.cons_append, List.cons.injEq] at h
    obtain ⟨rfl, h2⟩ := h
    exact .inr ⟨r, rfl, fun x hx => hw x (by simp [hx]), h2⟩

/-- a lexeme `l` with `Q l`, followed by `t` with `T t`, cannot spell `w` if no split of `w` satisfies both
    (the hypothesis is a bounded check: `decide`) -/
theorem no_split {w : Bytes} {Q T : Bytes → Bool}
    (hdec : ∀ k, k ≤ w.length → (Q (w.take k) && T (w.drop k)) = false) {l t : Bytes}
    (h : l ++ t = w) (hq : Q l = true) (ht : T t = true) : False := by
  have h1 : w.take l.length = l := by rw [← h]; exact List.take_left
  have h2 : w.drop l.length = t := by rw [← h]; exact List.drop_left
  have := hdec l.length (by rw [← h]; simp)
  rw [h1, h2, hq, ht] at this
  cases this

/-- `WsNlF` as a Boolean test -/
def wsNlFB (t : Bytes) : Bool := t.all fun b => b == 32 || b == 9 || b == 10 || b == 12

theorem wsNlFB_of {t : Bytes} (h : WsNlF t) : wsNlFB t = true := by
  unfold wsNlFB
  rw [List.all_eq_true]
  intro b hb
  rcases h b hb with rfl | rfl | rfl | rfl <;> rfl

/-! ### outside -/

/-- from `t : x = e ∧ P`: substitute `x`, and REPLACE hypothesis `h` (which `t` was computed from) by `P` -/
local macro "step " h:ident " := " t:term : tactic =>
  `(tactic| (obtain ⟨hEqX, heNewX⟩ := $t; clear $h; subst hEqX; have $h := heNewX; clear heNewX))

/-- `1e5`: a float needs a fraction -/
theorem ex_1e5_out (P : Params) : ¬ JLang P [49, 101, 53] := by
  rintro ⟨lead, d, trail, hl, ht, hd, he⟩
  simp only [renderAcc] at he
  obtain ⟨hlead, he'⟩ := wsNlF_head hl (by omega) he.symm
  clear he
  subst hlead
  have he := he'
  clear he'
  obtain ⟨a, rfl, ha, hn⟩ := doc_digit P hd he (by omega)
  rcases hn with ⟨l, rfl⟩ | ⟨l, rfl⟩
  · exact no_split (Q := Lang.isInt) (T := wsNlFB) (by decide) he ha.1 (wsNlFB_of ht)
  · exact no_split (Q := Lang.isFloat) (T := fun _ => true) (by decide) he ha.1 rfl

/-- `[1,]`: no trailing comma -/
theorem ex_trailing_comma_out (P : Params) : ¬ JLang P [91, 49, 44, 93] := by
  rintro ⟨lead, d, trail, hl, ht, hd, he⟩
  simp only [renderAcc] at he
  obtain ⟨hlead, he'⟩ := wsNlF_head hl (by omega) he.symm
  clear he
  subst hlead
  have he := he'
  clear he'
  cases d with
  | lit a =>
    obtain ⟨c, t, h1, _, h3⟩ := lit_head P a hd
    rw [AccDoc.render, h1] at he
    simp only [List.cons_append, List.cons.injEq] at he
    omega
  | obj mems close => cases mems <;> simp [AccDoc.render] at he
  | arr items close =>
    cases items with
    | nil =>
      simp only [AccDoc.render, List.cons_append, List.cons.injEq, true_and, List.append_assoc] at he
      obtain ⟨_, h2⟩ := wsNlF_head hd.2 (by omega) he
      simp at h2
    | cons wc wb d0 r =>
      simp only [AccDoc.OK, AccItems.OK] at hd
      obtain ⟨⟨_, hwb, hd0, hr⟩, hcl⟩ := hd
      simp only [AccDoc.render, List.cons_append, List.cons.injEq, true_and, List.append_assoc] at he
      step he := wsNlF_head hwb (by omega) he
      obtain ⟨a, rfl, ha, hn⟩ := doc_digit P hd0 he (by omega)
      step he := num_one P ha hn (by omega) (not_numCh (.inl rfl)) he
      cases r with
      | nil =>
        simp only [AccItems.renderMore, List.nil_append] at he
        obtain ⟨_, h2⟩ := wsNlF_head hcl (by omega) he
        simp at h2
      | cons wc' wb' d1 r' =>
        simp only [AccItems.OK] at hr
        obtain ⟨hwc', hwb', hd1, _⟩ := hr
        simp only [AccItems.renderMore, List.append_assoc, List.cons_append] at he
        step he := wsSp_head hwc' (by omega) he
        simp only [List.cons.injEq, true_and] at he
        step he := wsNlF_head hwb' (by omega) he
        obtain ⟨c, t, h1, hs⟩ := doc_head P d1 hd1
        rw [h1] at he
        simp only [List.cons_append, List.cons.injEq] at he
        unfold Starter at hs
        omega

/-- `[1<LF>,2]`: no line break before `,` (LeftTrim in mode WsSpaces) — although `[1,<LF>2]` is accepted -/
theorem ex_nl_before_comma_out (P : Params) : ¬ JLang P [91, 49, 10, 44, 50, 93] := by
  rintro ⟨lead, d, trail, hl, ht, hd, he⟩
  simp only [renderAcc] at he
  obtain ⟨hlead, he'⟩ := wsNlF_head hl (by omega) he.symm
  clear he
  subst hlead
  have he := he'
  clear he'
  cases d with
  | lit a =>
    obtain ⟨c, t, h1, _, h3⟩ := lit_head P a hd
    rw [AccDoc.render, h1] at he
    simp only [List.cons_append, List.cons.injEq] at he
    omega
  | obj mems close => cases mems <;> simp [AccDoc.render] at he
  | arr items close =>
    cases items with
    | nil =>
      simp only [AccDoc.render, List.cons_append, List.cons.injEq, true_and, List.append_assoc] at he
      obtain ⟨_, h2⟩ := wsNlF_head hd.2 (by omega) he
      simp at h2
    | cons wc wb d0 r =>
      simp only [AccDoc.OK, AccItems.OK] at hd
      obtain ⟨⟨_, hwb, hd0, hr⟩, hcl⟩ := hd
      simp only [AccDoc.render, List.cons_append, List.cons.injEq, true_and, List.append_assoc] at he
      step he := wsNlF_head hwb (by omega) he
      obtain ⟨a, rfl, ha, hn⟩ := doc_digit P hd0 he (by omega)
      step he := num_one P ha hn (by omega) (not_numCh (.inr (.inr (.inr (.inr (.inl rfl)))))) he
      cases r with
      | nil =>
        simp only [AccItems.renderMore, List.nil_append] at he
        rcases wsNlF_cons hcl he with ⟨_, h2⟩ | ⟨w', _, hw', h2⟩
        · simp at h2
        · obtain ⟨_, h3⟩ := wsNlF_head hw' (by omega) h2
          simp at h3
      | cons wc' wb' d1 r' =>
        simp only [AccItems.OK] at hr
        simp only [AccItems.renderMore, List.append_assoc, List.cons_append] at he
        obtain ⟨_, h2⟩ := wsSp_head hr.1 (by omega) he
        simp at h2

/-- the same array with the line break AFTER the comma is in the language -/
theorem ex_nl_after_comma (P : Params) : JLang P [91, 49, 44, 10, 50, 93] := by
  refine ⟨[], .arr (.cons [] [] (.lit (.int [49])) (.cons [] [10] (.lit (.int [50])) .nil)) [], [], wsNlF_nil,
    wsNlF_nil, ?_, rfl⟩
  simp only [AccDoc.OK, AccItems.OK, AccLit.OK]
  have hs : WsSp [] := by intro b hb; cases hb
  have hn : WsNlF [10] := by intro b hb; simp at hb; omega
  exact ⟨⟨hs, wsNlF_nil, ⟨isInt_dec (by decide), by decide, by decide⟩, hs, hn,
    ⟨isInt_dec (by decide), by decide, by decide⟩, trivial⟩, wsNlF_nil⟩

/-- a string body that starts with plain bytes `a` and a quote IS `a` -/
theorem strBody_plain_prefix {k kv : Bytes} (hk : IsStrBody k kv) : ∀ {a Z Y : Bytes},
    (∀ b ∈ a, Lang.plainByte b = true) → k ++ 34 :: Z = a ++ 34 :: Y → k = a ∧ Z = Y := by
  induction hk with
  | nil =>
    intro a Z Y ha h
    cases a with
    | nil => simp only [List.nil_append, List.cons.injEq, true_and] at h; exact ⟨rfl, h⟩
    | cons a0 a' =>
      simp only [List.nil_append, List.cons_append, List.cons.injEq] at h
      have := ha a0 (by simp)
      rw [← h.1] at this
      exact absurd this (by decide)
  | @cons e c body v he _ ih =>
    intro a Z Y ha h
    obtain ⟨b, t, rfl, _, _, h34, hcase⟩ := isStrElem_head' he
    cases a with
    | nil =>
      simp only [List.nil_append, List.cons_append, List.cons.injEq] at h
      exact absurd h.1 h34
    | cons a0 a' =>
      simp only [List.cons_append, List.append_assoc, List.cons.injEq] at h
      obtain ⟨rfl, h2⟩ := h
      rcases hcase with ⟨_, rfl, _, _⟩ | hnp
      · simp only [List.nil_append] at h2
        obtain ⟨rfl, hz⟩ := ih (fun x hx => ha x (by simp [hx])) h2
        exact ⟨rfl, hz⟩
      · have := ha b (by simp)
        rw [hnp] at this; cases this

/-- `{"a" 1}`: the colon is missing -/
theorem ex_missing_colon_out (P : Params) : ¬ JLang P [123, 34, 97, 34, 32, 49, 125] := by
  rintro ⟨lead, d, trail, hl, ht, hd, he⟩
  simp only [renderAcc] at he
  obtain ⟨hlead, he'⟩ := wsNlF_head hl (by omega) he.symm
  clear he
  subst hlead
  have he := he'
  clear he'
  cases d with
  | lit a =>
    obtain ⟨c, t, h1, _, h3⟩ := lit_head P a hd
    rw [AccDoc.render, h1] at he
    simp only [List.cons_append, List.cons.injEq] at he
    omega
  | arr items close => cases items <;> simp [AccDoc.render] at he
  | obj mems close =>
    cases mems with
    | nil =>
      simp only [AccDoc.render, List.cons_append, List.cons.injEq, true_and, List.append_assoc] at he
      obtain ⟨_, h2⟩ := wsNlF_head hd.2 (by omega) he
      simp at h2
    | cons wc wb k kv wk wv d0 r =>
      simp only [AccDoc.OK, AccMems.OK] at hd
      obtain ⟨⟨_, hwb, hk, hwk, _⟩, _⟩ := hd
      simp only [AccDoc.render, List.cons_append, List.cons.injEq, true_and, List.append_assoc] at he
      step he := wsNlF_head hwb (by omega) he
      simp only [strLex, List.cons_append, List.append_assoc, List.cons.injEq, true_and, List.nil_append] at he
      step he := strBody_plain_prefix hk (a := [97]) (by decide) he
      rcases wsSp_cons hwk he with ⟨_, h2⟩ | ⟨w', _, hw', h2⟩
      · simp at h2
      · obtain ⟨_, h3⟩ := wsSp_head hw' (by omega) h2
        simp at h3

/-- `"\q"`: not an escape of the table -/
theorem ex_bad_escape_out (P : Params) : ¬ JLang P [34, 92, 113, 34] := by
  rintro ⟨lead, d, trail, hl, ht, hd, he⟩
  simp only [renderAcc] at he
  obtain ⟨hlead, he'⟩ := wsNlF_head hl (by omega) he.symm
  clear he
  subst hlead
  have he := he'
  clear he'
  cases d with
  | arr items close => cases items <;> simp [AccDoc.render] at he
  | obj mems close => cases mems <;> simp [AccDoc.render] at he
  | lit a =>
    cases a with
    | null => simp [AccDoc.render, AccLit.lex] at he
    | bool b => cases b <;> simp [AccDoc.render, AccLit.lex] at he
    | int l =>
      obtain ⟨c, t, h1, h2⟩ := isInt_head hd.1
      simp only [AccDoc.render, AccLit.lex, h1, List.cons_append, List.cons.injEq] at he
      omega
    | flt l =>
      obtain ⟨c, t, h1, h2⟩ := isFloat_head hd.1
      simp only [AccDoc.render, AccLit.lex, h1, List.cons_append, List.cons.injEq] at he
      omega
    | str b v =>
      simp only [AccDoc.render, AccLit.lex, strLex, List.cons_append, List.append_assoc, List.cons.injEq, true_and,
        List.nil_append] at he
      have hb : IsStrBody b v := hd
      cases hb with
      | nil => simp at he
      | @cons e c body v' hel _ =>
        cases hel with
        | plain h1 h2 h3 h4 h5 =>
          simp only [List.cons_append, List.nil_append, List.cons.injEq] at he
          omega
        | @simple e' v'' hmem =>
          simp only [List.cons_append, List.nil_append, List.cons.injEq] at he
          obtain ⟨_, he2, _⟩ := he
          subst he2
          simp [Lang.simpleEscapes] at hmem
        | quote => simp at he
        | @hex x n ds hx _ _ _ =>
          simp only [List.cons_append, List.cons.injEq] at he
          omega
        | @oct a0 b0 c0 ha _ _ _ =>
          simp only [List.cons_append, List.nil_append, List.cons.injEq] at he
          obtain ⟨_, he2, _⟩ := he
          subst he2
          revert ha; decide
        | utf8 h1 hv =>
          obtain ⟨b0, t0, hbt, hb0, _⟩ := J16.encodeRune_multi c h1 hv
          rw [hbt] at he
          simp only [List.cons_append, List.cons.injEq] at he
          omega

end PV.J16Acc
