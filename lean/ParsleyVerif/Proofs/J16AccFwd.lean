/-
  C16, the converse — the FORWARD direction for the exact language: the example grammar finds the tree of every
  document of `AccDoc` (Spec/J16AccLang.lean: the accepted syntax, larger than the supported subset — hex / octal
  / `+` integers, floats without integer part, Go's string escapes, raw control characters, form feeds).

  This extends Proofs/J16Value.lean / J16Cont.lean / J16Doc.lean / J16Root.lean (which prove the same for `JDoc`,
  the supported subset) and reuses their combinator layer (`Succ`, `Fails`, `ShChain`, the shapes, the failing
  alternatives); only the leaves (through the byte specifications of Proofs/J16AccNum.lean, J16AccStr.lean) and the
  whitespace class (`WsNlF`: the form feed is whitespace too) are new.

  Everything lives in `PV.J16Acc`.
-/
import ParsleyVerif.Proofs.J16Root
import ParsleyVerif.Proofs.J16AccNum
import ParsleyVerif.Proofs.J16AccStr
namespace PV.J16Acc
open PV PV.Text PV.J16

/-! ### whitespace -/

theorem wsNlF_nil : WsNlF [] := by intro b hb; cases hb

theorem wsNlF_isWs {w : Bytes} (h : WsNlF w) : ∀ b ∈ w, isWs b = true := by
  intro b hb
  rcases h b hb with rfl | rfl | rfl | rfl <;> decide

theorem wsNl_wsNlF {w : Bytes} (h : WsNl w) : WsNlF w := fun b hb => by
  rcases h b hb with h | h | h
  · exact .inl h
  · exact .inr (.inl h)
  · exact .inr (.inr (.inl h))

theorem wsSp_wsNlF {w : Bytes} (h : WsSp w) : WsNlF w := fun b hb => by
  rcases h b hb with h | h
  · exact .inl h
  · exact .inr (.inl h)

theorem adelim_ws {w : Bytes} (h : WsNlF w) : ADelim w := by
  cases w with
  | nil => exact adelim_nil
  | cons b r => have := h b (by simp); exact adelim_cons (by omega)

/-- whitespace, then `,` or a closer: a delimiter -/
theorem adelim_ws_then (w : Bytes) (c : Nat) (l : Bytes) (hw : WsNlF w) (hc : c = 44 ∨ c = 93 ∨ c = 125) :
    ADelim (w ++ c :: l) := by
  cases w with
  | nil => exact adelim_cons (by omega)
  | cons b r =>
    have := hw b (by simp)
    exact adelim_cons (by omega)

/-! ### positions of the expected trees -/

theorem strLex_length (b : Bytes) : (strLex b).length = b.length + 2 := by
  simp [strLex]

theorem tree_pos : ∀ (d : AccDoc) (p : Nat), (d.tree p).pos = p
  | .lit _, _ => rfl
  | .arr .nil _, _ => rfl
  | .arr (.cons _ _ _ _) _, _ => rfl
  | .obj .nil _, _ => rfl
  | .obj (.cons _ _ _ _ _ _ _ _) _, _ => rfl

theorem tree_rpos : ∀ (d : AccDoc) (p : Nat), (d.tree p).rpos = p + d.render.length
  | .lit _, _ => rfl
  | .arr .nil close, p => by
    simp only [AccDoc.tree, AccDoc.render, Node.rpos, List.length_cons, List.length_append, List.length_nil]; omega
  | .arr (.cons _ wb d r) close, p => by
    simp only [AccDoc.tree, AccDoc.render, Node.rpos, List.length_cons, List.length_append, List.length_nil]; omega
  | .obj .nil close, p => by
    simp only [AccDoc.tree, AccDoc.render, Node.rpos, List.length_cons, List.length_append, List.length_nil]; omega
  | .obj (.cons _ wb k kv wk wv d r) close, p => by
    simp only [AccDoc.tree, AccDoc.render, Node.rpos, List.length_cons, List.length_append, List.length_nil]; omega

theorem tree_isTN : ∀ (d : AccDoc) (p : Nat), IsTN (d.tree p)
  | .lit _, _ => trivial
  | .arr .nil _, _ => trivial
  | .arr (.cons _ _ _ _) _, _ => trivial
  | .obj .nil _, _ => trivial
  | .obj (.cons _ _ _ _ _ _ _ _) _, _ => trivial

theorem items_last : ∀ (r : AccItems) (n : Node) (e : Nat), n.rpos = e →
    lastRpos n (r.moreNodes e) = e + r.renderMore.length
  | .nil, n, e, h => by simp [AccItems.moreNodes, AccItems.renderMore, lastRpos_nil, h]
  | .cons wc wb d r, n, e, _ => by
    simp only [AccItems.moreNodes, AccItems.renderMore, lastRpos_cons]
    rw [items_last r _ _ (tree_rpos d _)]
    simp only [List.length_append, List.length_cons]; omega

theorem items_even : ∀ (r : AccItems) (p : Nat), (r.moreNodes p).length % 2 = 0
  | .nil, _ => rfl
  | .cons wc wb d r, p => by
    simp only [AccItems.moreNodes, List.length_cons]
    have := items_even r (p + wc.length + 1 + wb.length + d.render.length)
    omega

theorem accKvNode_rpos (klen : Nat) (kv wk wv : Bytes) (vlen : Nat) (vt : Nat → Node) (p : Nat) :
    (accKvNode klen kv wk wv vlen vt p).rpos = p + klen + wk.length + 1 + wv.length + vlen := rfl

theorem mems_last : ∀ (r : AccMems) (n : Node) (e : Nat), n.rpos = e →
    lastRpos n (r.moreNodes e) = e + r.renderMore.length
  | .nil, n, e, h => by simp [AccMems.moreNodes, AccMems.renderMore, lastRpos_nil, h]
  | .cons wc wb k kv wk wv d r, n, e, _ => by
    simp only [AccMems.moreNodes, AccMems.renderMore, lastRpos_cons]
    rw [mems_last r _ _ (accKvNode_rpos _ _ _ _ _ _ _)]
    simp only [List.length_append, List.length_cons]; omega

theorem mems_even : ∀ (r : AccMems) (p : Nat), (r.moreNodes p).length % 2 = 0
  | .nil, _ => rfl
  | .cons wc wb k kv wk wv d r, p => by
    simp only [AccMems.moreNodes, List.length_cons]
    have := mems_even r (p + wc.length + 1 + wb.length + (strLex k).length + wk.length + 1 + wv.length + d.render.length)
    omega

/-! ### first bytes -/

theorem not_ws_of {c : Nat} (h : c ≠ 32 ∧ c ≠ 9 ∧ c ≠ 10 ∧ c ≠ 12) : isWs c = false := by
  simp only [isWs, Facts.wsBytes, List.contains_cons, List.contains_nil, Bool.or_false, Bool.or_eq_false_iff,
    beq_eq_false_iff_ne]
  omega

theorem lit_head (P : Params) (a : AccLit) (ha : a.OK P) : ∃ c t, a.lex = c :: t ∧ isWs c = false ∧
    (c = 110 ∨ c = 116 ∨ c = 102 ∨ c = 34 ∨ c = 45 ∨ c = 43 ∨ c = 46 ∨ (48 ≤ c ∧ c ≤ 57)) := by
  cases a with
  | null => exact ⟨110, _, rfl, by decide, by omega⟩
  | bool b => cases b
              · exact ⟨102, _, rfl, by decide, by omega⟩
              · exact ⟨116, _, rfl, by decide, by omega⟩
  | int l =>
    obtain ⟨c, t, hct, hc⟩ := isInt_head ha.1
    exact ⟨c, t, hct, not_ws_of (by omega), by omega⟩
  | flt l =>
    obtain ⟨c, t, hct, hc⟩ := isFloat_head ha.1
    exact ⟨c, t, hct, not_ws_of (by omega), by omega⟩
  | str b v => exact ⟨34, _, rfl, by decide, by omega⟩

theorem render_head (P : Params) : ∀ (d : AccDoc), d.OK P → ∃ c t, d.render = c :: t ∧ isWs c = false
  | .lit a, hd => by
    obtain ⟨c, t, h1, h2, _⟩ := lit_head P a hd
    exact ⟨c, t, h1, h2⟩
  | .arr .nil _, _ => ⟨91, _, rfl, by decide⟩
  | .arr (.cons _ _ _ _) _, _ => ⟨91, _, rfl, by decide⟩
  | .obj .nil _, _ => ⟨123, _, rfl, by decide⟩
  | .obj (.cons _ _ _ _ _ _ _ _) _, _ => ⟨123, _, rfl, by decide⟩

theorem render_stop (P : Params) (d : AccDoc) (hd : d.OK P) (T : Bytes) : Stop (d.render ++ T) := by
  obtain ⟨c, t, hct, hc⟩ := render_head P d hd
  rw [hct, List.cons_append]; exact stop_cons c _ hc

theorem strLex_stop (k : Bytes) (T : Bytes) : Stop (strLex k ++ T) := by
  simp only [strLex, List.cons_append]; exact stop_cons 34 _ (by decide)

theorem adelim_items (P : Params) (r : AccItems) (hr : r.OK P) (close : Bytes) (hc : WsNlF close) (tail : Bytes) :
    ADelim (r.renderMore ++ (close ++ 93 :: tail)) := by
  cases r with
  | nil => exact adelim_ws_then close 93 tail hc (by omega)
  | cons wc wb d r =>
    simp only [AccItems.renderMore, List.append_assoc, List.cons_append]
    exact adelim_ws_then wc 44 _ (wsSp_wsNlF (by simp only [AccItems.OK] at hr; exact hr.1)) (by omega)

theorem adelim_mems (P : Params) (r : AccMems) (hr : r.OK P) (close : Bytes) (hc : WsNlF close) (tail : Bytes) :
    ADelim (r.renderMore ++ (close ++ 125 :: tail)) := by
  cases r with
  | nil => exact adelim_ws_then close 125 tail hc (by omega)
  | cons wc wb k kv wk wv d r =>
    simp only [AccMems.renderMore, List.append_assoc, List.cons_append]
    exact adelim_ws_then wc 44 _ (wsSp_wsNlF (by simp only [AccMems.OK] at hr; exact hr.1)) (by omega)

/-! ### the literals -/

theorem spec_null (P : Params) (tail : Bytes) (pos : Nat) (ht : ADelim tail) :
    Terminal.spec P ([110, 117, 108, 108] ++ tail) pos (.nil [110, 117, 108, 108]) =
      .node (.term nilTok .nil pos (pos + 4)) := by
  simp only [Terminal.spec, wordAt_adelim _ tail ht, if_true, tok_nil]; rfl

theorem spec_true (P : Params) (tail : Bytes) (pos : Nat) (ht : ADelim tail) :
    Terminal.spec P ([116, 114, 117, 101] ++ tail) pos (.bool [116, 114, 117, 101] [102, 97, 108, 115, 101]) =
      .node (.term boolTok (.bool true) pos (pos + 4)) := by
  simp only [Terminal.spec, wordAt_adelim _ tail ht, if_true, tok_bool]; rfl

theorem spec_false (P : Params) (tail : Bytes) (pos : Nat) (ht : ADelim tail) :
    Terminal.spec P ([102, 97, 108, 115, 101] ++ tail) pos (.bool [116, 114, 117, 101] [102, 97, 108, 115, 101]) =
      .node (.term boolTok (.bool false) pos (pos + 5)) := by
  have h1 : wordAt [116, 114, 117, 101] ([102, 97, 108, 115, 101] ++ tail) = false :=
    wordAt_head_ne _ _ 116 102 _ ([97, 108, 115, 101] ++ tail) rfl rfl (by omega)
  simp only [Terminal.spec, h1, wordAt_adelim _ tail ht, if_true, tok_bool, Bool.false_eq_true, if_false]; rfl

section
variable {cfg : Cfg} (hS : Std cfg)
include hS

theorem succ_strLit {k kv : Bytes} (hk : IsStrBody k kv) {pos : Nat} {tail : Bytes} (hat : At cfg pos (strLex k ++ tail)) :
    Succ cfg (.term (.string false)) pos (.term strTok (.str kv) pos (pos + (strLex k).length)) := by
  apply succ_of_spec hS (t := .string false) True.intro True.intro hat
  simp only [Terminal.spec]
  exact stringSpec_fwd hk tail pos

/-- the `value` rule on a literal followed by a delimiter -/
theorem value_lit (a : AccLit) (ha : a.OK cfg.params) {pos : Nat} {tail : Bytes} (hat : At cfg pos (a.lex ++ tail))
    (ht : ADelim tail) : Succ cfg (.ref 0) pos (.term a.tok a.val pos (pos + a.lex.length)) := by
  cases a with
  | null =>
    have hat' : At cfg pos (110 :: ([117, 108, 108] ++ tail)) := hat
    have hnn : NotNum 110 := by unfold NotNum; omega
    refine succ_value hS (pre := [.term (.string false), .term .float, .term .integer, Gjson.array, Gjson.object,
        .term (.bool [116, 114, 117, 101] [102, 97, 108, 115, 101])]) rfl ?_ ?_
    · intro g' hg'
      simp only [List.mem_cons, List.not_mem_nil, or_false] at hg'
      rcases hg' with rfl | rfl | rfl | rfl | rfl | rfl
      · exact fails_string hS hat' (by simp)
      · exact fails_float hS hat' (floatMatch_notNum hnn)
      · exact fails_integer hS hat' (integerMatch_notNum hnn)
      · exact fails_array hS hat' (by simp)
      · exact fails_object hS hat' (by simp)
      · exact fails_bool hS hat' (by omega) (by omega)
    · exact succ_of_spec hS nil_wf True.intro hat (spec_null cfg.params tail pos ht)
  | bool b =>
    have hhead : ∃ c l, (AccLit.bool b).lex ++ tail = c :: l ∧ (c = 116 ∨ c = 102) := by
      cases b
      · exact ⟨102, _, rfl, .inr rfl⟩
      · exact ⟨116, _, rfl, .inl rfl⟩
    obtain ⟨c, l, hcl, hc⟩ := hhead
    have hat' : At cfg pos (c :: l) := hcl ▸ hat
    have hnn : NotNum c := by unfold NotNum; omega
    refine succ_value hS (pre := [.term (.string false), .term .float, .term .integer, Gjson.array, Gjson.object]) rfl ?_ ?_
    · intro g' hg'
      simp only [List.mem_cons, List.not_mem_nil, or_false] at hg'
      rcases hg' with rfl | rfl | rfl | rfl | rfl
      · exact fails_string hS hat' (by simp; omega)
      · exact fails_float hS hat' (floatMatch_notNum hnn)
      · exact fails_integer hS hat' (integerMatch_notNum hnn)
      · exact fails_array hS hat' (by simp; omega)
      · exact fails_object hS hat' (by simp; omega)
    · cases b
      · exact succ_of_spec hS bool_wf True.intro hat (spec_false cfg.params tail pos ht)
      · exact succ_of_spec hS bool_wf True.intro hat (spec_true cfg.params tail pos ht)
  | int l =>
    obtain ⟨h1, h2, h3⟩ := ha
    obtain ⟨c, r, hcr, hc⟩ := isInt_head h1
    have hat0 : At cfg pos (l ++ tail) := hat
    have hat' : At cfg pos (c :: (r ++ tail)) := by
      have : l ++ tail = c :: (r ++ tail) := by rw [hcr, List.cons_append]
      exact this ▸ hat0
    refine succ_value hS (pre := [.term (.string false), .term .float]) rfl ?_ ?_
    · intro g' hg'
      simp only [List.mem_cons, List.not_mem_nil, or_false] at hg'
      rcases hg' with rfl | rfl
      · exact fails_string hS hat' (by simp; omega)
      · exact fails_float hS hat0 (floatMatch_int h1 ht)
    · apply succ_of_spec hS (t := .integer) True.intro True.intro hat0
      simp only [Terminal.spec]
      exact integerSpec_fwd h1 ⟨h2, h3⟩ ht pos
  | flt l =>
    obtain ⟨h1, h2⟩ := ha
    obtain ⟨c, r, hcr, hc⟩ := isFloat_head h1
    have hat0 : At cfg pos (l ++ tail) := hat
    have hat' : At cfg pos (c :: (r ++ tail)) := by
      have : l ++ tail = c :: (r ++ tail) := by rw [hcr, List.cons_append]
      exact this ▸ hat0
    refine succ_value hS (pre := [.term (.string false)]) rfl ?_ ?_
    · intro g' hg'
      simp only [List.mem_cons, List.not_mem_nil, or_false] at hg'
      subst hg'
      exact fails_string hS hat' (by simp; omega)
    · apply succ_of_spec hS (t := .float) True.intro True.intro hat0
      simp only [Terminal.spec]
      exact floatSpec_fwd cfg.params h1 h2 ht pos
  | str b v =>
    exact succ_value hS (pre := []) rfl (fun g' hg' => by cases hg') (succ_strLit hS ha hat)

/-! ### the pieces of arrays and objects (whitespace class `WsNlF`) -/

theorem ltrim_nlf_ok {g : G} {p : Nat} {w l : Bytes} {n : Node} (hat : At cfg p (w ++ l)) (hw : WsNlF w) (hl : Stop l)
    (h : Succ cfg g (p + w.length) n) : Succ cfg (.ltrim g .spacesNl) p n :=
  succ_ltrim' hS hat (wsNlF_isWs hw) hl trivial h

theorem comma_fails' {c : Nat} (hcw : isWs c = false) (hne : c ≠ 44) {p : Nat} {w l : Bytes} (hat : At cfg p (w ++ c :: l))
    (hw : WsNlF w) : Fails cfg Gjson.comma p :=
  fails_ltrim' hS hat (wsNlF_isWs hw) (stop_cons c l hcw) (fails_rune hS (by omega) hat.adv (by simp; omega))

theorem closer_ok' {c : Nat} (hc : c < 0x80) (hcw : isWs c = false) {p : Nat} {w l : Bytes} (hat : At cfg p (w ++ c :: l))
    (hw : WsNlF w) : Succ cfg (.ltrim (Gjson.rn c) .spacesNl) p (runeLeaf c (p + w.length)) :=
  ltrim_nlf_ok hS hat hw (stop_cons c l hcw) (succ_rune hS hc hat.adv)

theorem array_of_elems' {pos : Nat} {X close tail : Bytes} {en : Node} (hat : At cfg pos (91 :: X))
    (hel : Succ cfg Gjson.elems (pos + 1) en) (hat2 : At cfg en.rpos (close ++ 93 :: tail)) (hc : WsNlF close) :
    Succ cfg Gjson.array pos
      (.nt seqTok [runeLeaf 91 pos, en, runeLeaf 93 (en.rpos + close.length)] pos (en.rpos + close.length + 1) (.select 1)) := by
  have hch : ShChain cfg arrayShape 0 pos [runeLeaf 91 pos, en, runeLeaf 93 (en.rpos + close.length)] :=
    .step (g := Gjson.rn 91) rfl (succ_rune hS (by omega) hat)
      (.step (g := Gjson.elems) rfl hel
        (.step (g := .ltrim (Gjson.rn 93) .spacesNl) rfl (closer_ok' hS (by omega) (by decide) hat2 hc)
          (.stopNone rfl)))
  exact succ_seqfam hS.mc array_shape hch rfl

theorem object_of_members' {pos : Nat} {X close tail : Bytes} {en : Node} (hat : At cfg pos (123 :: X))
    (hel : Succ cfg Gjson.members (pos + 1) en) (hat2 : At cfg en.rpos (close ++ 125 :: tail)) (hc : WsNlF close) :
    Succ cfg Gjson.object pos
      (.nt seqTok [runeLeaf 123 pos, en, runeLeaf 125 (en.rpos + close.length)] pos (en.rpos + close.length + 1) (.select 1)) := by
  have hch : ShChain cfg objectShape 0 pos [runeLeaf 123 pos, en, runeLeaf 125 (en.rpos + close.length)] :=
    .step (g := Gjson.rn 123) rfl (succ_rune hS (by omega) hat)
      (.step (g := Gjson.members) rfl hel
        (.step (g := .ltrim (Gjson.rn 125) .spacesNl) rfl (closer_ok' hS (by omega) (by decide) hat2 hc)
          (.stopNone rfl)))
  exact succ_seqfam hS.mc object_shape hch rfl

theorem elems_empty' {p : Nat} {close tail : Bytes} (hat : At cfg p (close ++ 93 :: tail)) (hc : WsNlF close) :
    Succ cfg Gjson.elems p (.nt sepByTok [] p p .array) := by
  have hf : Fails cfg (.ltrim Gjson.value .spacesNl) p :=
    fails_ltrim' hS hat (wsNlF_isWs hc) (stop_cons 93 tail (by decide)) (fails_value_closer hS hat.adv (.inl rfl))
  exact succ_seqfam hS.mc elems_shape (.stopFail (g := .ltrim Gjson.value .spacesNl) rfl hf) rfl

theorem members_empty' {p : Nat} {close tail : Bytes} (hat : At cfg p (close ++ 125 :: tail)) (hc : WsNlF close) :
    Succ cfg Gjson.members p (.nt sepByTok [] p p .object) := by
  have hf : Fails cfg (.ltrim Gjson.keyValue .spacesNl) p :=
    fails_ltrim' hS hat (wsNlF_isWs hc) (stop_cons 125 tail (by decide))
      (fails_seqOf hS.mc (fails_string hS hat.adv (by simp)))
  exact succ_seqfam hS.mc members_shape (.stopFail (g := .ltrim Gjson.keyValue .spacesNl) rfl hf) rfl

/-- a key/value member, given the tree of its value -/
theorem kv_ok' (k kv : Bytes) (hk : IsStrBody k kv) (wk wv : Bytes) (hwk : WsSp wk) (hwv : WsNlF wv) (d : AccDoc)
    (hd : d.OK cfg.params) {p : Nat} {T : Bytes} (hat : At cfg p (strLex k ++ (wk ++ 58 :: (wv ++ (d.render ++ T)))))
    (hv : Succ cfg (.ref 0) (p + (strLex k).length + wk.length + 1 + wv.length)
      (d.tree (p + (strLex k).length + wk.length + 1 + wv.length))) :
    Succ cfg Gjson.keyValue p (accKvNode (strLex k).length kv wk wv d.render.length d.tree p) := by
  have hat1 := hat.adv
  have hat2 := hat1.adv.adv1
  have hcolon := sep_ok hS (c := 58) (by omega) (by decide) hat1 hwk
  have hval : Succ cfg (.ltrim Gjson.value .spacesNl) (p + (strLex k).length + wk.length + 1)
      (d.tree (p + (strLex k).length + wk.length + 1 + wv.length)) :=
    ltrim_nlf_ok hS hat2 hwv (render_stop cfg.params d hd T) hv
  have hch : ShChain cfg kvShape 0 p
      [.term strTok (.str kv) p (p + (strLex k).length),
       runeLeaf 58 (p + (strLex k).length + wk.length),
       d.tree (p + (strLex k).length + wk.length + 1 + wv.length)] :=
    .step (g := .term (.string false)) rfl (succ_strLit hS hk hat)
      (.step (g := .ltrim (Gjson.rn 58) .spaces) rfl hcolon
        (.step (g := .ltrim Gjson.value .spacesNl) rfl hval (.stopNone rfl)))
  have := succ_seqfam hS.mc kv_shape hch rfl
  rw [handleResult_cons kvShape p _ _ rfl] at this
  simp only [List.getLast?_cons_cons, List.getLast?_singleton, Option.getD_some, tree_rpos] at this
  exact this

end

/-! ### the recursion over documents -/

theorem arr_render_cons (wc wb : Bytes) (d : AccDoc) (r : AccItems) (close tail : Bytes) :
    (AccDoc.arr (.cons wc wb d r) close).render ++ tail =
      91 :: (wb ++ (d.render ++ (r.renderMore ++ (close ++ 93 :: tail)))) := by
  simp [AccDoc.render]

theorem arr_render_nil (close tail : Bytes) : (AccDoc.arr .nil close).render ++ tail = 91 :: (close ++ 93 :: tail) := by
  simp [AccDoc.render]

theorem obj_render_cons (wc wb k kv wk wv : Bytes) (d : AccDoc) (r : AccMems) (close tail : Bytes) :
    (AccDoc.obj (.cons wc wb k kv wk wv d r) close).render ++ tail =
      123 :: (wb ++ (strLex k ++ (wk ++ 58 :: (wv ++ (d.render ++ (r.renderMore ++ (close ++ 125 :: tail))))))) := by
  simp [AccDoc.render]

theorem obj_render_nil (close tail : Bytes) : (AccDoc.obj .nil close).render ++ tail = 123 :: (close ++ 125 :: tail) := by
  simp [AccDoc.render]

theorem items_renderMore_cons (wc wb : Bytes) (d : AccDoc) (r : AccItems) (Z : Bytes) :
    (AccItems.cons wc wb d r).renderMore ++ Z = wc ++ 44 :: (wb ++ (d.render ++ (r.renderMore ++ Z))) := by
  simp [AccItems.renderMore]

theorem mems_renderMore_cons (wc wb k kv wk wv : Bytes) (d : AccDoc) (r : AccMems) (Z : Bytes) :
    (AccMems.cons wc wb k kv wk wv d r).renderMore ++ Z =
      wc ++ 44 :: (wb ++ (strLex k ++ (wk ++ 58 :: (wv ++ (d.render ++ (r.renderMore ++ Z)))))) := by
  simp [AccMems.renderMore]

mutual
/-- **the `value` rule finds the tree of every accepted document** followed by a delimiter -/
theorem value_ok {cfg : Cfg} (hS : Std cfg) : ∀ (d : AccDoc), d.OK cfg.params → ∀ (pos : Nat) (tail : Bytes),
    At cfg pos (d.render ++ tail) → ADelim tail → Succ cfg (.ref 0) pos (d.tree pos)
  | .lit a, hd, _, _, hat, ht => value_lit hS a hd hat ht
  | .arr .nil close, hd, pos, tail, hat, _ => by
    have hc : WsNlF close := by simp only [AccDoc.OK] at hd; exact hd.2
    have hat0 : At cfg pos (91 :: (close ++ 93 :: tail)) := arr_render_nil close tail ▸ hat
    have hel := elems_empty' hS hat0.adv1 hc
    have := array_of_elems' hS hat0 hel hat0.adv1 hc
    exact value_of_array hS hat0 this
  | .arr (.cons wc wb d r) close, hd, pos, tail, hat, _ => by
    simp only [AccDoc.OK, AccItems.OK] at hd
    obtain ⟨⟨_, hwb, hdd, hr⟩, hc⟩ := hd
    have hat0 := arr_render_cons wc wb d r close tail ▸ hat
    have hat1 := hat0.adv1
    have hat2 := hat1.adv
    have hat3 := hat2.adv
    have hat4 := hat3.adv
    have hv := value_ok hS d hdd _ _ hat2 (adelim_items cfg.params r hr close hc tail)
    have hfirst := ltrim_nlf_ok hS hat1 hwb (render_stop cfg.params d hdd _) hv
    have hrest := items_ok hS r hr 1 _ close tail rfl hc hat3
    have hch : ShChain cfg elemsShape 0 (pos + 1)
        (d.tree (pos + 1 + wb.length) :: r.moreNodes (pos + 1 + wb.length + d.render.length)) :=
      .step (g := .ltrim Gjson.value .spacesNl) rfl hfirst (by rw [tree_rpos]; exact hrest)
    have hel := elems_of_chain hS hch (items_even r _)
    rw [tree_pos, items_last r _ _ (tree_rpos d _)] at hel
    have := array_of_elems' hS hat0 hel hat4 hc
    rw [AccDoc.tree]
    exact value_of_array hS hat0 this
  | .obj .nil close, hd, pos, tail, hat, _ => by
    have hc : WsNlF close := by simp only [AccDoc.OK] at hd; exact hd.2
    have hat0 : At cfg pos (123 :: (close ++ 125 :: tail)) := obj_render_nil close tail ▸ hat
    have hel := members_empty' hS hat0.adv1 hc
    have := object_of_members' hS hat0 hel hat0.adv1 hc
    exact value_of_object hS hat0 this
  | .obj (.cons wc wb k kv wk wv d r) close, hd, pos, tail, hat, _ => by
    simp only [AccDoc.OK, AccMems.OK] at hd
    obtain ⟨⟨_, hwb, hk, hwk, hwv, hdd, hr⟩, hc⟩ := hd
    have hat0 := obj_render_cons wc wb k kv wk wv d r close tail ▸ hat
    have hat1 := hat0.adv1
    have hat2 := hat1.adv
    have hat3 := hat2.adv.adv.adv1.adv
    have hat4 := hat3.adv
    have hat5 := hat4.adv
    have hv := value_ok hS d hdd _ _ hat3 (adelim_mems cfg.params r hr close hc tail)
    have hkv := kv_ok' hS k kv hk wk wv hwk hwv d hdd hat2 hv
    have hfirst := ltrim_nlf_ok hS hat1 hwb (strLex_stop k _) hkv
    have hrest := mems_ok hS r hr 1 _ close tail rfl hc hat4
    have hch : ShChain cfg membersShape 0 (pos + 1)
        (accKvNode (strLex k).length kv wk wv d.render.length d.tree (pos + 1 + wb.length) ::
          r.moreNodes (pos + 1 + wb.length + (strLex k).length + wk.length + 1 + wv.length + d.render.length)) :=
      .step (g := .ltrim Gjson.keyValue .spacesNl) rfl hfirst (by rw [accKvNode_rpos]; exact hrest)
    have hel := members_of_chain hS hch (mems_even r _)
    rw [mems_last r _ _ (accKvNode_rpos _ _ _ _ _ _ _)] at hel
    have := object_of_members' hS hat0 hel hat5 hc
    rw [AccDoc.tree]
    exact value_of_object hS hat0 this

theorem items_ok {cfg : Cfg} (hS : Std cfg) : ∀ (r : AccItems), r.OK cfg.params →
    ∀ (depth pos : Nat) (close tail : Bytes), depth % 2 = 1 → WsNlF close →
    At cfg pos (r.renderMore ++ (close ++ 93 :: tail)) → ShChain cfg elemsShape depth pos (r.moreNodes pos)
  | .nil, _, depth, pos, close, tail, hdep, hc, hat => by
    have hat0 : At cfg pos (close ++ 93 :: tail) := hat
    exact .stopFail (g := Gjson.comma) (lookup_odd elemsShape _ _ rfl depth hdep)
      (comma_fails' hS (by decide) (by omega) hat0 hc)
  | .cons wc wb d r, hr, depth, pos, close, tail, hdep, hc, hat => by
    simp only [AccItems.OK] at hr
    obtain ⟨hwc, hwb, hdd, hr'⟩ := hr
    have hat0 := items_renderMore_cons wc wb d r (close ++ 93 :: tail) ▸ hat
    have hat1 := hat0.adv.adv1
    have hat2 := hat1.adv
    have hat3 := hat2.adv
    have hcomma := sep_ok hS (c := 44) (by omega) (by decide) hat0 hwc
    have hv := value_ok hS d hdd _ _ hat2 (adelim_items cfg.params r hr' close hc tail)
    have hval := ltrim_nlf_ok hS hat1 hwb (render_stop cfg.params d hdd _) hv
    have hrest := items_ok hS r hr' (depth + 1 + 1) _ close tail (by omega) hc hat3
    rw [AccItems.moreNodes]
    exact .step (g := Gjson.comma) (lookup_odd elemsShape _ _ rfl depth hdep) hcomma
      (.step (g := .ltrim Gjson.value .spacesNl) (lookup_even elemsShape _ _ rfl (depth + 1) (by omega)) hval
        (by rw [tree_rpos]; exact hrest))

theorem mems_ok {cfg : Cfg} (hS : Std cfg) : ∀ (r : AccMems), r.OK cfg.params →
    ∀ (depth pos : Nat) (close tail : Bytes), depth % 2 = 1 → WsNlF close →
    At cfg pos (r.renderMore ++ (close ++ 125 :: tail)) → ShChain cfg membersShape depth pos (r.moreNodes pos)
  | .nil, _, depth, pos, close, tail, hdep, hc, hat => by
    have hat0 : At cfg pos (close ++ 125 :: tail) := hat
    exact .stopFail (g := Gjson.comma) (lookup_odd membersShape _ _ rfl depth hdep)
      (comma_fails' hS (by decide) (by omega) hat0 hc)
  | .cons wc wb k kv wk wv d r, hr, depth, pos, close, tail, hdep, hc, hat => by
    simp only [AccMems.OK] at hr
    obtain ⟨hwc, hwb, hk, hwk, hwv, hdd, hr'⟩ := hr
    have hat0 := mems_renderMore_cons wc wb k kv wk wv d r (close ++ 125 :: tail) ▸ hat
    have hat1 := hat0.adv.adv1
    have hat2 := hat1.adv
    have hat3 := hat2.adv.adv.adv1.adv
    have hat4 := hat3.adv
    have hcomma := sep_ok hS (c := 44) (by omega) (by decide) hat0 hwc
    have hv := value_ok hS d hdd _ _ hat3 (adelim_mems cfg.params r hr' close hc tail)
    have hkv := kv_ok' hS k kv hk wk wv hwk hwv d hdd hat2 hv
    have hval := ltrim_nlf_ok hS hat1 hwb (strLex_stop k _) hkv
    have hrest := mems_ok hS r hr' (depth + 1 + 1) _ close tail (by omega) hc hat4
    rw [AccMems.moreNodes]
    exact .step (g := Gjson.comma) (lookup_odd membersShape _ _ rfl depth hdep) hcomma
      (.step (g := .ltrim Gjson.keyValue .spacesNl) (lookup_even membersShape _ _ rfl (depth + 1) (by omega)) hval
        (by rw [accKvNode_rpos]; exact hrest))
end

/-! ### the root -/

/-- the tree under the Sentence node: the document's tree, its end moved past the trailing whitespace (RightTrim) -/
def rootTree (off : Nat) (lead : Bytes) (d : AccDoc) (trail : Bytes) : Node :=
  bump trail.length (d.tree (off + lead.length))

/-- **the root finds the tree** -/
theorem root_ok {cfg : Cfg} (hS : Std cfg) (lead : Bytes) (d : AccDoc) (trail : Bytes) (hd : d.OK cfg.params)
    (hlead : WsNlF lead) (htrail : WsNlF trail) (hdata : cfg.file.data = renderAcc lead d trail) :
    Succ cfg Gjson.root (cfg.file.pos 0) (sentenceNode (rootTree cfg.file.offset lead d trail)) := by
  have hpos : cfg.file.pos 0 = cfg.file.offset := by simp [File.pos]
  rw [hpos]
  have hat0 : At cfg cfg.file.offset (lead ++ (d.render ++ trail)) := by
    refine ⟨⟨Nat.le_refl _, by omega⟩, ?_⟩
    simp [rest, hdata, renderAcc]
  have hat1 := hat0.adv
  have hat2 := hat1.adv
  have hat3 : At cfg (cfg.file.offset + lead.length + d.render.length + trail.length) [] :=
    At.adv (b := []) (by rw [List.append_nil]; exact hat2)
  have hv := value_ok hS d hd _ _ hat1 (adelim_ws htrail)
  have hl := ltrim_nlf_ok hS hat0 hlead (render_stop cfg.params d hd _) hv
  have hin : InFile cfg.file (d.tree (cfg.file.offset + lead.length)).rpos := by rw [tree_rpos]; exact hat2.1
  have hr := succ_rtrim_nl hS.mc hS.off (tree_isTN d _) hin hl
  have hws : wsRun (rest cfg.file (d.tree (cfg.file.offset + lead.length)).rpos) = trail.length := by
    rw [tree_rpos, hat2.2]; exact wsRun_all trail (wsNlF_isWs htrail)
  rw [hws] at hr
  have hrp : (rootTree cfg.file.offset lead d trail).rpos =
      cfg.file.offset + lead.length + d.render.length + trail.length := by
    unfold rootTree; rw [bump_rpos _ _ (tree_isTN d _), tree_rpos]
  have heof : isEOF cfg.file (rootTree cfg.file.offset lead d trail).rpos = true := by
    rw [hrp]; exact (isEOF_spec _ _ hat3.1).2 hat3.2
  have hch : ShChain cfg (sentenceShape (.rtrim (.ltrim (.ref 0) .spacesNl) .spacesNl)) 0 cfg.file.offset
      [rootTree cfg.file.offset lead d trail, .eof (rootTree cfg.file.offset lead d trail).rpos] :=
    .step (g := .rtrim (.ltrim (.ref 0) .spacesNl) .spacesNl) rfl hr
      (.step (g := .eof) rfl (succ_eof hS.mc heof) (.stopNone rfl))
  exact succ_seqfam hS.mc (sentence_shape _) hch rfl

/-! ### the JSON value of the expected tree -/

theorem jval_lit (a : AccLit) (p r : Nat) : jvalOf (.term a.tok a.val p r) = some a.jval := by
  cases a <;> rfl

mutual
theorem jval_tree : ∀ (d : AccDoc) (p : Nat), jvalOf (d.tree p) = some d.val
  | .lit a, p => jval_lit a _ _
  | .arr .nil _, _ => rfl
  | .arr (.cons wc wb d r) close, p => by
    simp only [AccDoc.tree, jvalOf, jvalOfList, AccDoc.val, AccItems.vals]
    rw [jval_tree d, jval_items r _ d.val]
    rfl
  | .obj .nil _, _ => rfl
  | .obj (.cons wc wb k kv wk wv d r) close, p => by
    simp only [AccDoc.tree, jvalOf, jvalOfList, AccDoc.val, AccMems.vals, jkvOfList]
    rw [jkv_node (strLex k).length kv wk wv d _, jkv_mems r _ (kv, d.val)]
    rfl
theorem jval_items : ∀ (r : AccItems) (e : Nat) (v : JVal),
    allSome (everySecond (some v :: jvalOfList (r.moreNodes e))) = some (v :: r.vals)
  | .nil, _, _ => rfl
  | .cons wc wb d r, e, v => by
    simp only [AccItems.moreNodes, jvalOfList, everySecond, allSome, AccItems.vals]
    rw [jval_tree d, jval_items r _ d.val]
    rfl
theorem jkv_node (klen : Nat) (kv wk wv : Bytes) : ∀ (d : AccDoc) (p : Nat),
    jkvOf (accKvNode klen kv wk wv d.render.length d.tree p) = some (kv, d.val)
  | d, p => by
    simp only [accKvNode, jkvOf, jvalOfList]
    rw [jval_tree d]
theorem jkv_mems : ∀ (r : AccMems) (e : Nat) (kvj : Bytes × JVal),
    allSome (everySecond (some kvj :: jkvOfList (r.moreNodes e))) = some (kvj :: r.vals)
  | .nil, _, _ => rfl
  | .cons wc wb k kv wk wv d r, e, kvj => by
    simp only [AccMems.moreNodes, jkvOfList, everySecond, allSome, AccMems.vals]
    rw [jkv_node (strLex k).length kv wk wv d _, jkv_mems r _ (kv, d.val)]
    rfl
end

theorem jval_rootTree (off : Nat) (lead : Bytes) (d : AccDoc) (trail : Bytes) :
    jvalOf (rootTree off lead d trail) = some d.val := by
  unfold rootTree; rw [jvalOf_bump, jval_tree]

end PV.J16Acc
