/-
  "Nothing further is lost" for PRODUCTIVE grammars (property C06, exactness): Proofs/RunLow.lean +
  Proofs/RunLowRun.lean with the coverage by "a curtailment somewhere in the log" (`GeC`, permanent once
  logged) replaced by coverage by a memoized parser that is STILL ACTIVE at a position at or after `x`
  (`GeA`, over the ghost activation stack).  When the activation returns, what it covered is covered by
  what it returns: a result, an error, or — by Proofs/ProdBlame.lean — the blame on another parser that is
  still active.  At the root nothing is active, so every terminal failure is at or before the returned
  error, the context error or the end of a returned result.

  Cached outcomes carry the blame in the form they are stored with: a curtailing parser with a positive
  counter in the stored context (a hit requires the current counters to dominate the stored ones).

  The structure of the proof is that of Proofs/RunLow.lean; only the curtailment case, the cache hit and the
  return of a memoized body differ.  Everything lives in `PV.Prod`.
-/
import ParsleyVerif.Proofs.ProdBlame
import ParsleyVerif.Proofs.RunLowRun
namespace PV
namespace Prod
open PV.Text

/-! ### the left-recursion context counts exactly the active frames at the current position -/

def CtxExact (ctx : Ctx) (pos : Nat) (act : List (Nat × Nat)) : Prop := ∀ k, ctx.get k = actCount act k pos

theorem CtxExact_init (pos : Nat) : CtxExact [] pos [] := fun _ => rfl

theorem CtxExact_memo {ctx : Ctx} {pos : Nat} {act : List (Nat × Nat)} (h : CtxExact ctx pos act) (idx : Nat) :
    CtxExact (ctx.inc idx) pos ((idx, pos) :: act) := by
  intro k
  by_cases hk : k = idx
  · subst hk
    rw [Ctx.get_inc_self, h k]
    simp [actCount]
  · rw [Ctx.get_inc_other _ _ _ hk, h k]
    have : (idx == k) = false := by
      simp only [beq_eq_false_iff_ne, ne_eq]; exact fun e => hk e.symm
    simp [actCount, this]

theorem CtxExact_next {ctx : Ctx} {pos : Nat} {act : List (Nat × Nat)} (h : CtxExact ctx pos act)
    (hle : ∀ a ∈ act, a.2 ≤ pos) (q : Nat) (hq : pos ≤ q) : CtxExact (if q > pos then [] else ctx) q act := by
  by_cases hc : q > pos
  · simp only [hc, ↓reduceIte]
    intro k
    have : actCount act k q = 0 := by
      unfold actCount
      rw [List.length_eq_zero_iff, List.filter_eq_nil_iff]
      intro a ha
      have := hle a ha
      simp only [Bool.and_eq_true, beq_iff_eq, not_and]
      intro _; omega
    rw [this]; rfl
  · simp only [hc, ↓reduceIte]
    have : q = pos := by omega
    subst this
    exact h

theorem CtxExact.mem {ctx : Ctx} {pos : Nat} {act : List (Nat × Nat)} (h : CtxExact ctx pos act) {k : Nat}
    (hk : 1 ≤ ctx.get k) : (k, pos) ∈ act := by
  rw [h k] at hk
  unfold actCount at hk
  cases hf : act.filter (fun a => a.1 == k && a.2 == pos) with
  | nil => rw [hf] at hk; simp at hk
  | cons a rest =>
    have hm : a ∈ act.filter (fun a => a.1 == k && a.2 == pos) := by rw [hf]; exact List.mem_cons_self ..
    rw [List.mem_filter] at hm
    simp only [Bool.and_eq_true, beq_iff_eq] at hm
    have : a = (k, pos) := Prod.ext hm.2.1 hm.2.2
    rw [← this]; exact hm.1

/-! ### coverage -/

/-- a memoized parser is active at a position at or after `x` -/
def GeA (x : Nat) (st : St) : Prop := ∃ a ∈ st.active, x ≤ a.2

/-- position `x` is covered by an error, a result, the context error or an active parser -/
def Cov (x : Nat) (err : Option Err) (res : Res) (st : St) : Prop :=
  GeE x err ∨ GeR x res ∨ GeE x st.ctxErr ∨ GeA x st

theorem GeA_le {x y : Nat} {st : St} (h : x ≤ y) : GeA y st → GeA x st :=
  fun ⟨a, ha, hy⟩ => ⟨a, ha, Nat.le_trans h hy⟩

theorem Cov_le {x y : Nat} {err : Option Err} {res : Res} {st : St} (h : x ≤ y) :
    Cov y err res st → Cov x err res st := by
  rintro (h1 | h1 | h1 | h1)
  · exact .inl (GeE_le h h1)
  · exact .inr (.inl (GeR_le h h1))
  · exact .inr (.inr (.inl (GeE_le h h1)))
  · exact .inr (.inr (.inr (GeA_le h h1)))

/-- how the context state may evolve: the log grows, the context error only moves further, the activation
    stack does not shrink -/
structure StLe (st st' : St) : Prop where
  log : st.log <:+ st'.log
  ctx : ∀ x, GeE x st.ctxErr → GeE x st'.ctxErr
  act : ∀ a ∈ st.active, a ∈ st'.active

theorem GeA_mono {x : Nat} {st st' : St} (h : ∀ a ∈ st.active, a ∈ st'.active) : GeA x st → GeA x st' :=
  fun ⟨a, ha, hx⟩ => ⟨a, h a ha, hx⟩

theorem StLe.refl (st : St) : StLe st st := ⟨List.suffix_refl _, fun _ h => h, fun _ h => h⟩
theorem StLe.trans {a b c : St} (h1 : StLe a b) (h2 : StLe b c) : StLe a c :=
  ⟨h1.log.trans h2.log, fun x h => h2.ctx x (h1.ctx x h), fun x h => h2.act x (h1.act x h)⟩

theorem Cov_mono {x : Nat} {err : Option Err} {res : Res} {st st' : St} (h : StLe st st') :
    Cov x err res st → Cov x err res st' := by
  rintro (h1 | h1 | h1 | h1)
  · exact .inl h1
  · exact .inr (.inl h1)
  · exact .inr (.inr (.inl (h.ctx x h1)))
  · exact .inr (.inr (.inr (GeA_mono h.act h1)))

theorem StLe_setError (st : St) (e : Option Err) : StLe st (st.setError e) :=
  ⟨by rw [(setError_ctxErr st e).2.2.2.1]; exact List.suffix_refl _, fun _ h => GeE_setError_left st e h,
   by rw [(setError_ctxErr st e).2.2.1]; exact fun _ h => h⟩

theorem StLe_logEv (st : St) (cfg : Cfg) (ev : Ev) : StLe st (st.logEv cfg ev) := by
  obtain ⟨_, h2, _, h4, h5⟩ := logEv_fields st cfg ev
  refine ⟨?_, fun x h => by rw [h2]; exact h, by rw [h4]; exact fun _ h => h⟩
  cases h5 with
  | inl h => rw [h]; exact List.suffix_refl _
  | inr h => rw [h]; exact List.suffix_cons _ _

theorem StLe_regCall (st : St) : StLe st st.regCall := ⟨List.suffix_refl _, fun _ h => h, fun _ h => h⟩

/-! ### the invariant -/

/-- a cached outcome covers its position: by its error, its result, the context error, or a curtailing
    parser with a positive counter in the stored context -/
def CovE (e : CacheEntry) (st : St) : Prop :=
  GeE e.pos e.err ∨ GeR e.pos e.res ∨ GeE e.pos st.ctxErr ∨ ∃ k, k ∈ e.cp ∧ 1 ≤ e.ctx.get k

def SLow (c : ProdCert) (cfg : Cfg) (st : St) : Prop :=
  ∀ e ∈ st.cache, CovE e st ∧ OutOK cfg e.pos e.res e.err ∧ EntB c e

theorem SLow_of_eq {c : ProdCert} {cfg : Cfg} {st st' : St} (h : SLow c cfg st) (hc : st'.cache = st.cache)
    (hle : StLe st st') : SLow c cfg st' := by
  intro e hcm
  rw [hc] at hcm
  obtain ⟨h1, h2, h3⟩ := h e hcm
  refine ⟨?_, h2, h3⟩
  rcases h1 with h1 | h1 | h1 | h1
  · exact .inl h1
  · exact .inr (.inl h1)
  · exact .inr (.inr (.inl (hle.ctx _ h1)))
  · exact .inr (.inr (.inr h1))

theorem SLow.cb {c : ProdCert} {cfg : Cfg} {st : St} (h : SLow c cfg st) : CacheBlame c st :=
  fun e he => (h e he).2.2

/-- the terminal failures logged between `st` and `st'` are covered by `err` / `res` / the state `st'` -/
def NewCov (cfg : Cfg) (st st' : St) (err : Option Err) (res : Res) : Prop :=
  ∃ d, st'.log = d ++ st.log ∧ ∀ x k, Ev.termFail x k ∈ d → Cov x err res st' ∧ x ≤ cfg.hi

structure PostLow (c : ProdCert) (cfg : Cfg) (pos : Nat) (st : St) (o : Out) (st' : St) : Prop where
  le : StLe st st'
  newTF : NewCov cfg st st' o.err o.res
  prog : Cov pos o.err o.res st'
  slow : SLow c cfg st'
  out : OutOK cfg pos o.res o.err

def RunLowOK (c : ProdCert) (cfg : Cfg) (r : RunFn) : Prop :=
  ∀ g ctx pos st o st', g.Core (TermGood cfg) → g.All (LocLow cfg) → g.All (MemoPr c) → Pre cfg ctx pos st →
    CtxExact ctx pos st.active → SLow c cfg st → r g ctx pos st = some (o, st') → PostLow c cfg pos st o st'

/-- the frame invariant of the Sequence loop, with the exact context -/
def SeqJX (cfg : Cfg) (pos0 : Nat) (fr : Frame) (ss : SeqSt) (st : St) : Prop :=
  SeqJ cfg pos0 fr ss st ∧ CtxExact fr.ctx fr.pos st.active

theorem SeqJX_stable {cfg : Cfg} {pos0 : Nat} {fr : Frame} {ss ss' : SeqSt} {st st' : St}
    (hJ : SeqJX cfg pos0 fr ss st) (hE : SeqE cfg pos0 ss st ss' st') : SeqJX cfg pos0 fr ss' st' :=
  ⟨SeqJ_stable hJ.1 hE, by rw [hE.2.2.1]; exact hJ.2⟩

theorem NewCov_refl (cfg : Cfg) (st : St) (err : Option Err) (res : Res) : NewCov cfg st st err res :=
  ⟨[], rfl, by intro x k h; cases h⟩

/-- composition: first `st → st1` covered by something that is then covered by the final values -/
theorem NewCov_trans {cfg : Cfg} {st st1 st2 : St} {e1 e2 : Option Err} {r1 r2 : Res}
    (h1 : NewCov cfg st st1 e1 r1) (h2 : NewCov cfg st1 st2 e2 r2)
    (hm : ∀ x, x ≤ cfg.hi → Cov x e1 r1 st1 → Cov x e2 r2 st2) : NewCov cfg st st2 e2 r2 := by
  obtain ⟨d1, hd1, hc1⟩ := h1
  obtain ⟨d2, hd2, hc2⟩ := h2
  refine ⟨d2 ++ d1, by rw [hd2, hd1, List.append_assoc], ?_⟩
  intro x k hx
  cases List.mem_append.mp hx with
  | inl h => exact hc2 x k h
  | inr h => exact ⟨hm x (hc1 x k h).2 (hc1 x k h).1, (hc1 x k h).2⟩

theorem NewCov_imp {cfg : Cfg} {st st1 : St} {e1 e2 : Option Err} {r1 r2 : Res}
    (h1 : NewCov cfg st st1 e1 r1) (hm : ∀ x, x ≤ cfg.hi → Cov x e1 r1 st1 → Cov x e2 r2 st1) :
    NewCov cfg st st1 e2 r2 := by
  obtain ⟨d1, hd1, hc1⟩ := h1
  exact ⟨d1, hd1, fun x k hx => ⟨hm x (hc1 x k hx).2 (hc1 x k hx).1, (hc1 x k hx).2⟩⟩

/-! ### the Sequence family -/

structure ELow (c : ProdCert) (cfg : Cfg) (q : Nat) (ss : SeqSt) (st : St) (ss' : SeqSt) (st' : St) (b : Bool) : Prop where
  le : StLe st st'
  newTF : NewCov cfg st st' ss'.err ss'.result
  prog : Cov q ss'.err ss'.result st'
  mono : ∀ x, Cov x ss.err ss.result st → Cov x ss'.err ss'.result st'
  slow : SLow c cfg st'
  ssl : SsLow cfg ss'
  exit : b = true → ∃ n ∈ ss'.result.alts, cfg.hi ≤ n.rpos

/-- the same for the loop over the alternatives `l` of one element (`frOf n` = the frame entered with `n`) -/
structure AltsLow (c : ProdCert) (cfg : Cfg) (frOf : Node → Frame) (l : List Node) (ss : SeqSt) (st : St) (ss' : SeqSt) (st' : St)
    (b : Bool) : Prop where
  le : StLe st st'
  newTF : NewCov cfg st st' ss'.err ss'.result
  progAll : b = false → ∀ n ∈ l, Cov (frOf n).pos ss'.err ss'.result st'
  mono : ∀ x, Cov x ss.err ss.result st → Cov x ss'.err ss'.result st'
  slow : SLow c cfg st'
  ssl : SsLow cfg ss'
  exit : b = true → ∃ n ∈ ss'.result.alts, cfg.hi ≤ n.rpos

theorem seqAlts_low (c : ProdCert) (cfg : Cfg) (pos0 : Nat) (k : Node → SeqSt → St → Option (Bool × SeqSt × St))
    (frOf : Node → Frame) :
    ∀ (l : List Node),
      (∀ n ∈ l, ∀ ss st b ss' st', SeqJX cfg pos0 (frOf n) ss st → SLow c cfg st → SsLow cfg ss →
        k n ss st = some (b, ss', st') → ELow c cfg (frOf n).pos ss st ss' st' b ∧ SeqE cfg pos0 ss st ss' st') →
      ∀ ss st b ss' st', (∀ n ∈ l, SeqJX cfg pos0 (frOf n) ss st) → SLow c cfg st → SsLow cfg ss →
        seqAlts k l ss st = some (b, ss', st') →
        AltsLow c cfg frOf l ss st ss' st' b ∧ SeqE cfg pos0 ss st ss' st' := by
  intro l
  induction l with
  | nil =>
    intro _ ss st b ss' st' _ hsl hss h
    simp only [seqAlts] at h
    cases h
    exact ⟨⟨StLe.refl _, NewCov_refl _ _ _ _, (by intro _ n hn; cases hn), fun _ h => h, hsl, hss,
      (by intro hb; cases hb)⟩, ⟨id, id, rfl, Nat.le_refl _⟩⟩
  | cons n rest ih =>
    intro hk ss st b ss' st' hJ hsl hss h
    simp only [seqAlts] at h
    split at h
    · cases h
    · rename_i ss1 st1 hk1
      cases h
      obtain ⟨e1, se1⟩ := hk n (List.mem_cons_self ..) _ _ _ _ _ (hJ n (List.mem_cons_self ..)) hsl hss hk1
      exact ⟨⟨e1.le, e1.newTF, (by intro hb; cases hb), e1.mono, e1.slow, e1.ssl, e1.exit⟩, se1⟩
    · rename_i ss1 st1 hk1
      obtain ⟨e1, se1⟩ := hk n (List.mem_cons_self ..) _ _ _ _ _ (hJ n (List.mem_cons_self ..)) hsl hss hk1
      obtain ⟨e2, se2⟩ := ih (fun n' hn' => hk n' (List.mem_cons_of_mem _ hn')) ss1 st1 b ss' st'
        (fun n' hn' => SeqJX_stable (hJ n' (List.mem_cons_of_mem _ hn')) se1) e1.slow e1.ssl h
      refine ⟨⟨e1.le.trans e2.le, NewCov_trans e1.newTF e2.newTF (fun x _ hx => e2.mono x hx), ?_,
        fun x hx => e2.mono x (e1.mono x hx), e2.slow, e2.ssl, e2.exit⟩, SeqE_trans se1 se2⟩
      intro hb n' hn'
      cases hn' with
      | head => exact e2.mono _ e1.prog
      | tail _ hm => exact e2.progAll hb n' hm

/-- the emission of a Sequence at frame `fr` -/
theorem emit_low {c : ProdCert} {cfg : Cfg} {sh : SeqShape} {pos0 : Nat} (fr : Frame) (ss0 ss1 : SeqSt) (st0 st1 : St) (b : Bool)
    (ht : sh.token ≠ eofTok) (hchain : Chain cfg.hi fr.nodes pos0 fr.pos) (heof : EofOKList cfg.hi fr.nodes)
    (hd : fr.depth = fr.nodes.length)
    (hle : StLe st0 st1) (hnew : NewCov cfg st0 st1 ss1.err ss1.result)
    (hmono : ∀ x, Cov x ss0.err ss0.result st0 → Cov x ss1.err ss1.result st1)
    (hsl : SLow c cfg st1) (hss : SsLow cfg ss1)
    (hb : b = true → ∃ l, fr.nodes.getLast? = some l ∧ l.token = eofTok) :
    ELow c cfg fr.pos ss0 st0 (seqEmit sh fr ss1) st1 b := by
  have hn : (if fr.depth > 0 then fr.nodes else []) = fr.nodes := by
    split
    · rfl
    · have : fr.nodes.length = 0 := by omega
      exact (List.length_eq_zero_iff.mp this).symm
  have herr : (seqEmit sh fr ss1).err = ss1.err := rfl
  have hres : (seqEmit sh fr ss1).result = appendNode ss1.result (.one (handleResult sh fr.pos fr.nodes)) := by
    simp only [seqEmit, hn]
  have hrp := handleResult_rpos_c06 cfg.hi sh pos0 fr.pos fr.nodes hchain
  have hmem : handleResult sh fr.pos fr.nodes ∈ (seqEmit sh fr ss1).result.alts := by
    rw [hres]; exact mem_appendNode_right _ _ _ (by simp [Res.alts])
  have hup : ∀ x, Cov x ss1.err ss1.result st1 → Cov x (seqEmit sh fr ss1).err (seqEmit sh fr ss1).result st1 := by
    intro x hx
    rw [herr, hres]
    rcases hx with h1 | h1 | h1 | h1
    · exact .inl h1
    · exact .inr (.inl (GeR_appendNode_left _ h1))
    · exact .inr (.inr (.inl h1))
    · exact .inr (.inr (.inr h1))
  refine ⟨hle, NewCov_imp hnew (fun x _ hx => hup x hx), ?_, fun x hx => hup x (hmono x hx), hsl, ⟨?_, ?_⟩, ?_⟩
  · exact .inr (.inl ⟨_, hmem, by rw [hrp]; exact Nat.le_refl _⟩)
  · intro n hnm
    rw [hres] at hnm
    cases mem_appendNode _ _ _ hnm with
    | inl h1 => exact hss.1 n h1
    | inr h1 =>
      simp only [Res.alts, List.mem_singleton] at h1
      subst h1
      exact handleResult_eofOK sh fr.pos fr.nodes ht heof
  · intro _ hc
    rw [hc] at hmem; cases hmem
  · intro hbt
    obtain ⟨l, hl, hlt⟩ := hb hbt
    refine ⟨_, hmem, ?_⟩
    rw [hrp]
    have hlm : l ∈ fr.nodes := List.mem_of_getLast? hl
    have := Node.EofOK_rpos (EofOKList_mem heof l hlm) hlt
    rw [Chain_getLast cfg.hi fr.nodes pos0 fr.pos l hchain hl] at this
    exact this

theorem seqParse_low (c : ProdCert) (cfg : Cfg) (r : RunFn) (hpos : RunPosOK cfg r) (hr : RunLowOK c cfg r) (g : G) (sh : SeqShape)
    (hg : g.Core (TermGood cfg)) (hgl : g.All (LocLow cfg)) (hgm : g.All (MemoPr c)) (hs : g.shape = some sh) (pos0 : Nat) :
    ∀ (fuel : Nat) (fr : Frame) ss st b ss' st', SeqJX cfg pos0 fr ss st → SLow c cfg st → SsLow cfg ss →
      EofOKList cfg.hi fr.nodes → (∀ i, i < fr.depth → sh.lookup i ≠ none) → fr.depth = fr.nodes.length →
      seqParse r sh fuel fr.depth fr.nodes fr.ctx fr.pos fr.merge ss st = some (b, ss', st') →
      ELow c cfg fr.pos ss st ss' st' b := by
  have hshape := shape_low hs (G.All_self hgl)
  intro fuel
  induction fuel with
  | zero => intro fr ss st b ss' st' _ _ _ _ _ _ h; simp [seqParse] at h
  | succ fuel ih =>
    intro fr ss st b ss' st' hJ hsl hss heof hpre hd h
    obtain ⟨⟨j1, j2, j3, j4, j5, j6⟩, jx⟩ := hJ
    simp only [seqParse] at h
    cases hl : sh.lookup fr.depth with
    | none =>
      simp only [hl] at h
      have hlc := hshape.2 fr.depth hl hpre
      simp only [hlc, ↓reduceIte] at h
      have hafter_err : (seqAfter fr.merge ss ⟨.nil, [], none⟩).err = ss.err := by
        rw [seqAfter_err]; simp [pickErr]
      have hE : ∀ b', (b' = true → ∃ l, fr.nodes.getLast? = some l ∧ l.token = eofTok) →
          ELow c cfg fr.pos ss st (seqEmit sh fr (seqAfter fr.merge ss ⟨.nil, [], none⟩)) st b' := by
        intro b' hb'
        refine emit_low fr ss _ st st b' hshape.1 j3 heof hd (StLe.refl _) (NewCov_refl _ _ _ _) ?_ hsl ?_ hb'
        · intro x hx; rw [hafter_err, seqAfter_result]; exact hx
        · rw [SsLow, seqAfter_result]; exact hss
      by_cases hdp : fr.depth > 0
      · simp only [hdp, ↓reduceIte] at h
        cases hgl' : fr.nodes.getLast? with
        | none =>
          simp only [hgl'] at h
          cases h
          have := hE false (by intro hb'; cases hb')
          simpa [seqEmit, seqAfter, hdp] using this
        | some l =>
          simp only [hgl'] at h
          cases h
          have := hE (l.token == eofTok) (by intro hb'; exact ⟨l, hgl', by simpa using hb'⟩)
          simpa [seqEmit, seqAfter, hdp] using this
      · simp only [hdp, ↓reduceIte] at h
        cases h
        have := hE false (by intro hb'; cases hb')
        simpa [seqEmit, seqAfter, hdp] using this
    | some g' =>
      simp only [hl] at h
      split at h
      · cases h
      · rename_i o st1 hrun
        have hcore := shape_lookup_core hg hs fr.depth g' hl
        have hloc := shape_lookup_all hgl hs fr.depth g' hl
        have hpre' : Pre cfg fr.ctx fr.pos st.regCall := ⟨j1, StOK_regCall j4, j5⟩
        have hpost := hpos g' fr.ctx fr.pos st.regCall o st1 hcore hpre' hrun
        have hlow := hr g' fr.ctx fr.pos st.regCall o st1 hcore hloc (shape_lookup_all hgm hs fr.depth g' hl) hpre' jx
          (SLow_of_eq hsl rfl (StLe_regCall st)) hrun
        have hle1 : StLe st st1 := (StLe_regCall st).trans hlow.le
        have hact : st1.active = st.active := hpost.active
        -- the sequence object after the call
        have hss_eq : (if fr.merge = true then
              { cp := cpUnion ss.cp o.cp, result := ss.result, err := pickErr ss.err o.err : SeqSt }
            else { cp := ss.cp, result := ss.result, err := pickErr ss.err o.err }) = seqAfter fr.merge ss o := by
          unfold seqAfter
          by_cases hm : fr.merge = true <;> simp [hm]
        have herr1 : (seqAfter fr.merge ss o).err = pickErr ss.err o.err := seqAfter_err _ _ _
        have hres1 : (seqAfter fr.merge ss o).result = ss.result := seqAfter_result _ _ _
        have hmono1 : ∀ x, Cov x ss.err ss.result st → Cov x (seqAfter fr.merge ss o).err (seqAfter fr.merge ss o).result st1 := by
          intro x hx
          rw [herr1, hres1]
          rcases Cov_mono hle1 hx with h1 | h1 | h1 | h1
          · exact .inl (GeE_pickErr_left h1)
          · exact .inr (.inl h1)
          · exact .inr (.inr (.inl h1))
          · exact .inr (.inr (.inr h1))
        -- what covered a position after the call is covered by the sequence object, or by a returned node
        have hcov1 : ∀ x, Cov x o.err o.res st1 →
            Cov x (seqAfter fr.merge ss o).err (seqAfter fr.merge ss o).result st1 ∨ GeR x o.res := by
          intro x hx
          rw [herr1, hres1]
          rcases hx with h1 | h1 | h1 | h1
          · exact .inl (.inl (GeE_pickErr_right h1))
          · exact .inr h1
          · exact .inl (.inr (.inr (.inl h1)))
          · exact .inl (.inr (.inr (.inr h1)))
        have hss1 : SsLow cfg (seqAfter fr.merge ss o) := by rw [SsLow, hres1]; exact hss
        have hnew0 : NewCov cfg st st1 o.err o.res := hlow.newTF
        split at h
        · -- the element returned nil
          rename_i hnil
          have hnoR : ∀ x, ¬ GeR x o.res := by intro x; rw [hnil]; exact GeR_nil x
          have hnew1 : NewCov cfg st st1 (seqAfter fr.merge ss o).err (seqAfter fr.merge ss o).result :=
            NewCov_imp hnew0 (fun x _ hx => (hcov1 x hx).resolve_right (hnoR x))
          by_cases hlc : sh.lenCheck fr.depth = true
          · simp only [hlc, ↓reduceIte] at h
            have hE : ∀ b', (b' = true → ∃ l, fr.nodes.getLast? = some l ∧ l.token = eofTok) →
                ELow c cfg fr.pos ss st (seqEmit sh fr (seqAfter fr.merge ss o)) st1 b' := fun b' hb' =>
              emit_low fr ss _ st st1 b' hshape.1 j3 heof hd hle1 hnew1 hmono1 hlow.slow hss1 hb'
            by_cases hdp : fr.depth > 0
            · simp only [hdp, ↓reduceIte] at h
              cases hgl' : fr.nodes.getLast? with
              | none =>
                simp only [hgl'] at h
                cases h
                have := hE false (by intro hb'; cases hb')
                rw [← hss_eq] at this
                simpa [seqEmit, hdp] using this
              | some l =>
                simp only [hgl'] at h
                cases h
                have := hE (l.token == eofTok) (by intro hb'; exact ⟨l, hgl', by simpa using hb'⟩)
                rw [← hss_eq] at this
                simpa [seqEmit, hdp] using this
            · simp only [hdp, ↓reduceIte] at h
              cases h
              have := hE false (by intro hb'; cases hb')
              rw [← hss_eq] at this
              simpa [seqEmit, hdp] using this
          · have hlc' : sh.lenCheck fr.depth = false := by simpa using hlc
            simp only [hlc', Bool.false_eq_true, ↓reduceIte] at h
            cases h
            rw [hss_eq]
            exact ⟨hle1, hnew1, (hcov1 _ hlow.prog).resolve_right (hnoR _), hmono1, hlow.slow, hss1,
              (by intro hb'; cases hb')⟩
        · -- alternatives
          rename_i hnn
          rw [hss_eq] at h
          have hnotnil : o.res.isNil = false := by
            cases hres : o.res with
            | nil => exact absurd hres hnn
            | one n => rfl
            | list l => rfl
          have hJnext : ∀ n ∈ o.res.alts, SeqJX cfg pos0 (fr.next n) (seqAfter fr.merge ss o) st1 := by
            intro n hn
            obtain ⟨hnp, hnw⟩ := hpost.nodes n hn
            have hb := Node.WF_bounds cfg.hi n hnw
            refine ⟨⟨?_, ?_, ?_, hpost.stOK, ?_, SeqStOK_after _ j6 j2 hpost.err⟩, ?_⟩
            · simp only [Frame.next]
              exact ⟨by have := j1.1; omega, by unfold Cfg.hi at hb; omega⟩
            · simp only [Frame.next]; omega
            · simp only [Frame.next]
              exact Chain_append cfg.hi n fr.nodes pos0 fr.pos j3 hnp hnw
            · simp only [Frame.next]
              rw [hact]
              exact ActOK_next j5 n.rpos (by omega)
            · simp only [Frame.next]
              rw [hact]
              exact CtxExact_next jx j5.1 n.rpos (by omega)
          obtain ⟨ea, _⟩ := seqAlts_low c cfg pos0 _ fr.next o.res.alts
            (by
              intro n hn ss2 st2 b2 ss3 st3 hJ2 hsl2 hss2 hk
              have hk' : seqParse r sh fuel (fr.next n).depth (fr.next n).nodes (fr.next n).ctx (fr.next n).pos
                  (fr.next n).merge ss2 st2 = some (b2, ss3, st3) := by simpa [Frame.next] using hk
              refine ⟨ih (fr.next n) ss2 st2 b2 ss3 st3 hJ2 hsl2 hss2 ?_ ?_ (by simp [Frame.next, hd]) hk', ?_⟩
              · simp only [Frame.next]
                exact EofOKList_append (hlow.out.eof n hn) heof
              · intro i hi
                simp only [Frame.next] at hi
                by_cases hc : i < fr.depth
                · exact hpre i hc
                · have : i = fr.depth := by omega
                  rw [this, hl]; exact fun hx => by cases hx
              · exact seqParse_pos cfg r hpos g sh hg hs pos0 fuel (fr.next n) ss2 st2 b2 ss3 st3 hJ2.1
                  (by simp [Frame.next, hd]) hk')
            _ _ b ss' st' hJnext hlow.slow hss1 h
          -- a node of the element covers: through the frame it opens, or through the early exit at End
          have hnode : ∀ x, x ≤ cfg.hi → GeR x o.res → Cov x ss'.err ss'.result st' := by
            intro x hxhi ⟨n, hn, hxn⟩
            cases hb : b with
            | false =>
              have := ea.progAll hb n hn
              simp only [Frame.next] at this
              exact Cov_le hxn this
            | true =>
              obtain ⟨m, hm, hmhi⟩ := ea.exit hb
              exact .inr (.inl ⟨m, hm, by omega⟩)
          have hfin : ∀ x, x ≤ cfg.hi → Cov x o.err o.res st1 → Cov x ss'.err ss'.result st' := by
            intro x hxhi hx
            cases hcov1 x hx with
            | inl h1 => exact ea.mono x h1
            | inr h1 => exact hnode x hxhi h1
          refine ⟨hle1.trans ea.le, NewCov_trans hnew0 ea.newTF hfin, ?_, fun x hx => ea.mono x (hmono1 x hx),
            ea.slow, ea.ssl, ea.exit⟩
          exact hfin fr.pos j1.2 hlow.prog

/-! ### the end of a Sequence -/

theorem NewCov_imp' {cfg : Cfg} {st st1 st2 : St} {e1 e2 : Option Err} {r1 r2 : Res}
    (h1 : NewCov cfg st st1 e1 r1) (hlog : st2.log = st1.log)
    (hm : ∀ x, x ≤ cfg.hi → Cov x e1 r1 st1 → Cov x e2 r2 st2) : NewCov cfg st st2 e2 r2 := by
  obtain ⟨d1, hd1, hc1⟩ := h1
  exact ⟨d1, by rw [hlog, hd1], fun x k hx => ⟨hm x (hc1 x k hx).2 (hc1 x k hx).1, (hc1 x k hx).2⟩⟩

/-- states whose log differs by events that are not terminal failures -/
theorem NewCov_of_prefix {cfg : Cfg} {st st1 st2 : St} {e : Option Err} {r : Res} (h : NewCov cfg st1 st2 e r)
    (hl : st1.log = st.log ∨ ∃ ev, (∀ x k, ev ≠ Ev.termFail x k) ∧ st1.log = ev :: st.log) : NewCov cfg st st2 e r := by
  obtain ⟨d, hd, hc⟩ := h
  cases hl with
  | inl hl => exact ⟨d, by rw [hd, hl], hc⟩
  | inr hl =>
    obtain ⟨ev, hev, hl⟩ := hl
    refine ⟨d ++ [ev], by rw [hd, hl]; simp, ?_⟩
    intro x k hx
    cases List.mem_append.mp hx with
    | inl h1 => exact hc x k h1
    | inr h1 =>
      simp only [List.mem_singleton] at h1
      exact absurd h1.symm (hev x k)

theorem NewCov_logEv (cfg : Cfg) (st : St) (ev : Ev) (hev : ∀ x k, ev ≠ Ev.termFail x k) (e : Option Err) (r : Res) :
    NewCov cfg st (st.logEv cfg ev) e r :=
  NewCov_of_prefix (NewCov_refl cfg _ e r) (by
    cases (logEv_fields st cfg ev).2.2.2.2 with
    | inl h => exact .inl h
    | inr h => exact .inr ⟨ev, hev, h⟩)

theorem seqFinish_low {c : ProdCert} {cfg : Cfg} {pos : Nat} {sh : SeqShape} {ss0 ss : SeqSt} {st st1 : St} {b : Bool}
    (hE : ELow c cfg pos ss0 st ss st1 b) :
    PostLow c cfg pos st (seqFinish sh pos ss st1).1 (seqFinish sh pos ss st1).2 := by
  by_cases hnil : ss.result.isNil = true
  · have e1 : (seqFinish sh pos ss st1).2 = st1 := by simp [seqFinish, hnil]
    have e2 : (seqFinish sh pos ss st1).1.res = .nil := by simp [seqFinish, hnil]
    have e3 : ∀ x, GeE x ss.err → GeE x (seqFinish sh pos ss st1).1.err := by
      intro x ⟨e, he, hx⟩
      simp only [seqFinish, hnil, ↓reduceIte, he]
      cases hn : sh.name with
      | none => exact ⟨e, rfl, hx⟩
      | some nm =>
        simp only []
        split
        · rename_i hc
          simp only [Bool.and_eq_true, decide_eq_true_eq] at hc
          exact ⟨_, rfl, by simp only []; omega⟩
        · exact ⟨e, rfl, hx⟩
    have hc : ∀ x, Cov x ss.err ss.result st1 →
        Cov x (seqFinish sh pos ss st1).1.err (seqFinish sh pos ss st1).1.res st1 := by
      intro x hx
      rcases hx with h1 | h1 | h1 | h1
      · exact .inl (e3 x h1)
      · exact absurd h1 (GeR_of_isNil hnil)
      · exact .inr (.inr (.inl h1))
      · exact .inr (.inr (.inr h1))
    rw [e1]
    refine ⟨hE.le, NewCov_imp hE.newTF (fun x _ hx => hc x hx), hc _ hE.prog, hE.slow, ⟨?_, ?_, ?_⟩⟩
    · rw [e2]; intro _ _ n hn; cases hn
    · rw [e2]; intro hc'; cases hc'
    · rw [e2]; intro n hn; cases hn
  · have hnil' : ss.result.isNil = false := by simpa using hnil
    have e1 : (seqFinish sh pos ss st1).2 = st1.setError ss.err := by simp [seqFinish, hnil']
    have e2 : (seqFinish sh pos ss st1).1.res = ss.result := by simp [seqFinish, hnil']
    have e3 : (seqFinish sh pos ss st1).1.err = none := by
      simp only [seqFinish, hnil', Bool.false_eq_true, ↓reduceIte]
    have hle := StLe_setError st1 ss.err
    have hc : ∀ x, Cov x ss.err ss.result st1 → Cov x none ss.result (st1.setError ss.err) := by
      intro x hx
      rcases hx with h1 | h1 | h1 | h1
      · exact .inr (.inr (.inl (GeE_setError_right st1 _ h1)))
      · exact .inr (.inl h1)
      · exact .inr (.inr (.inl (hle.ctx x h1)))
      · exact .inr (.inr (.inr (GeA_mono hle.act h1)))
    rw [e1]
    refine ⟨hE.le.trans hle, ?_, ?_, SLow_of_eq hE.slow (setError_ctxErr st1 ss.err).2.1 hle, ⟨?_, ?_, ?_⟩⟩
    · rw [e2, e3]
      exact NewCov_imp' hE.newTF (setError_ctxErr st1 ss.err).2.2.2.1 (fun x _ hx => hc x hx)
    · rw [e2, e3]; exact hc _ hE.prog
    · rw [e3]; intro e he; cases he
    · rw [e2]; exact hE.ssl.2
    · rw [e2]; exact hE.ssl.1

/-! ### Any / Choice -/

def CovAlt (pos x : Nat) (a : AltSt) (s : St) : Prop := Cov x a.err a.res s ∨ (x ≤ pos ∧ a.nf.isSome = true)

structure AltInv (c : ProdCert) (cfg : Cfg) (pos : Nat) (st0 : St) (a : AltSt) (s : St) : Prop where
  le : StLe st0 s
  newTF : ∃ d, s.log = d ++ st0.log ∧ ∀ x k, Ev.termFail x k ∈ d → CovAlt pos x a s ∧ x ≤ cfg.hi
  slow : SLow c cfg s
  stOK : StOK cfg s
  active : s.active = st0.active
  altOK : AltOK cfg pos a
  eof : ∀ n ∈ a.res.alts, n.EofOK cfg.hi
  nonempty : a.res.isNil = false → a.res.alts ≠ []

/-- the three things `altErr` does with a new error -/
theorem CovAlt_step {pos x : Nat} {a a0 : AltSt} {s s' : St} {e2 : Option Err} (hle : StLe s s')
    (herr : a0.err = a.err) (hnf : a0.nf = a.nf) (hres : ∀ y, GeR y a.res → GeR y a0.res)
    (h : CovAlt pos x a s) : CovAlt pos x (altErr pos a0 e2) s' := by
  have hr := (altErr_fields pos a0 e2).2.1
  rcases h with h | h
  · rcases Cov_mono hle h with h1 | h1 | h1 | h1
    · exact .inl (.inl (altErr_GeE_left e2 (herr ▸ h1)))
    · exact .inl (.inr (.inl (by rw [hr]; exact hres _ h1)))
    · exact .inl (.inr (.inr (.inl h1)))
    · exact .inl (.inr (.inr (.inr h1)))
  · exact .inr ⟨h.1, altErr_nf_some e2 (hnf ▸ h.2)⟩

theorem CovAlt_new {pos x : Nat} {a0 : AltSt} {s' : St} {o' : Out}
    (hres : ∀ y, GeR y o'.res → GeR y a0.res) (h : Cov x o'.err o'.res s') :
    CovAlt pos x (altErr pos a0 o'.err) s' := by
  have hr := (altErr_fields pos a0 o'.err).2.1
  rcases h with h1 | h1 | h1 | h1
  · cases altErr_cover (pos := pos) (a := a0) h1 with
    | inl h2 => exact .inl (.inl h2)
    | inr h2 => exact .inr h2
  · exact .inl (.inr (.inl (by rw [hr]; exact hres _ h1)))
  · exact .inl (.inr (.inr (.inl h1)))
  · exact .inl (.inr (.inr (.inr h1)))

section
variable {c : ProdCert} {cfg : Cfg} {r : RunFn}

theorem any_step_low (hpos : RunPosOK cfg r) (hr : RunLowOK c cfg r) {ctx : Ctx} {pos : Nat} {st0 : St}
    (hin : InFile cfg.file pos) (hact : ActOK ctx pos st0.active) (hce : CtxExact ctx pos st0.active)
    {g' : G} (hc : g'.Core (TermGood cfg)) (hl : g'.All (LocLow cfg)) (hm : g'.All (MemoPr c)) {a : AltSt} {s : St} {o' : Out} {s' : St}
    (hA : AltInv c cfg pos st0 a s) (hrun : r g' ctx pos s.regCall = some (o', s')) :
    AltInv c cfg pos st0 (altErr pos { a with cp := cpUnion a.cp o'.cp, res := appendNode a.res o'.res } o'.err) s' ∧
    CovAlt pos pos (altErr pos { a with cp := cpUnion a.cp o'.cp, res := appendNode a.res o'.res } o'.err) s' := by
  have hpre' : Pre cfg ctx pos s.regCall :=
    ⟨hin, StOK_regCall hA.stOK, by show ActOK ctx pos s.active; rw [hA.active]; exact hact⟩
  have hpost := hpos g' ctx pos s.regCall o' s' hc hpre' hrun
  have hlow := hr g' ctx pos s.regCall o' s' hc hl hm hpre'
    (by show CtxExact ctx pos s.active; rw [hA.active]; exact hce) (SLow_of_eq hA.slow rfl (StLe_regCall s)) hrun
  have hle : StLe s s' := (StLe_regCall s).trans hlow.le
  have hA0 : AltOK cfg pos { a with cp := cpUnion a.cp o'.cp, res := appendNode a.res o'.res } := by
    refine ⟨?_, hA.altOK.err, hA.altOK.nf⟩
    intro x hx
    cases mem_appendNode _ _ _ hx with
    | inl h1 => exact hA.altOK.nodes x h1
    | inr h1 => exact hpost.nodes x h1
  have hr' := (altErr_fields pos { a with cp := cpUnion a.cp o'.cp, res := appendNode a.res o'.res } o'.err).2.1
  have hold : ∀ x, CovAlt pos x a s →
      CovAlt pos x (altErr pos { a with cp := cpUnion a.cp o'.cp, res := appendNode a.res o'.res } o'.err) s' :=
    fun x hx => CovAlt_step (a := a) (a0 := { a with cp := cpUnion a.cp o'.cp, res := appendNode a.res o'.res }) hle rfl rfl
      (fun y hy => GeR_appendNode_left _ hy) hx
  have hnew : ∀ x, Cov x o'.err o'.res s' →
      CovAlt pos x (altErr pos { a with cp := cpUnion a.cp o'.cp, res := appendNode a.res o'.res } o'.err) s' :=
    fun x hx => CovAlt_new (a0 := { a with cp := cpUnion a.cp o'.cp, res := appendNode a.res o'.res })
      (fun y hy => GeR_appendNode_right _ hy) hx
  refine ⟨⟨hA.le.trans hle, ?_, hlow.slow, hpost.stOK, by rw [hpost.active]; exact hA.active,
    AltOK_altErr hA0 _ hpost.err, ?_, ?_⟩, hnew _ hlow.prog⟩
  · obtain ⟨d1, hd1, hc1⟩ := hA.newTF
    obtain ⟨d2, hd2, hc2⟩ := hlow.newTF
    refine ⟨d2 ++ d1, by rw [hd2]; show _ = _; rw [show s.regCall.log = s.log from rfl, hd1, List.append_assoc], ?_⟩
    intro x k hx
    cases List.mem_append.mp hx with
    | inl h => exact ⟨hnew x (hc2 x k h).1, (hc2 x k h).2⟩
    | inr h => exact ⟨hold x (hc1 x k h).1, (hc1 x k h).2⟩
  · intro n hn
    rw [hr'] at hn
    cases mem_appendNode _ _ _ hn with
    | inl h1 => exact hA.eof n h1
    | inr h1 => exact hlow.out.eof n h1
  · intro hnn
    rw [hr'] at hnn ⊢
    simp only [appendNode_isNil, Bool.and_eq_false_iff] at hnn
    cases hnn with
    | inl h1 =>
      intro hc'
      have hne := hA.nonempty h1
      cases hal : a.res.alts with
      | nil => exact hne hal
      | cons y ys =>
        have : y ∈ (appendNode a.res o'.res).alts := mem_appendNode_left _ _ _ (by rw [hal]; exact List.mem_cons_self ..)
        rw [hc'] at this; cases this
    | inr h1 =>
      intro hc'
      have hne := hlow.out.nonempty h1
      cases hal : o'.res.alts with
      | nil => exact hne hal
      | cons y ys =>
        have : y ∈ (appendNode a.res o'.res).alts := mem_appendNode_right _ _ _ (by rw [hal]; exact List.mem_cons_self ..)
        rw [hc'] at this; cases this

/-- Any / Choice found nothing: the error they return covers what the accumulator covered -/
theorem alt_final_nil {pos : Nat} {st0 : St} {a : AltSt} {s : St}
    (hA : AltInv c cfg pos st0 a s) (hprog : CovAlt pos pos a s) (hnil : a.res.isNil = true) :
    PostLow c cfg pos st0 ⟨.nil, a.cp, match a.err with | some e => some e | none => a.nf⟩ s := by
  have hc : ∀ x, CovAlt pos x a s → Cov x (match a.err with | some e => some e | none => a.nf) .nil s := by
    intro x hx
    rcases hx with (h1 | h1 | h1 | h1) | ⟨h1, h2⟩
    · obtain ⟨e, he, hxe⟩ := h1
      exact .inl ⟨e, by rw [he], hxe⟩
    · exact absurd h1 (GeR_of_isNil hnil)
    · exact .inr (.inr (.inl h1))
    · exact .inr (.inr (.inr h1))
    · cases hae : a.err with
      | some e => exact .inl ⟨e, rfl, by have := (hA.altOK.err e hae).1; omega⟩
      | none =>
        cases hnf : a.nf with
        | none => rw [hnf] at h2; cases h2
        | some e' => exact .inl ⟨e', rfl, by have := (hA.altOK.nf e' hnf).1; omega⟩
  obtain ⟨d, hd, hcd⟩ := hA.newTF
  refine ⟨hA.le, ⟨d, hd, fun x k hx => ⟨hc x (hcd x k hx).1, (hcd x k hx).2⟩⟩, hc _ hprog, hA.slow, ⟨?_, ?_, ?_⟩⟩
  · intro _ _ n hn; cases hn
  · intro hc'; cases hc'
  · intro n hn; cases hn

/-- Any found something: the result is returned, the error goes to the context -/
theorem any_final_res {pos : Nat} {st0 : St} {a : AltSt} {s : St}
    (hA : AltInv c cfg pos st0 a s) (hprog : CovAlt pos pos a s) (hnn : a.res.isNil = false) :
    PostLow c cfg pos st0 ⟨a.res, a.cp, none⟩ (s.setError a.err) := by
  have hle := StLe_setError s a.err
  have hne := hA.nonempty hnn
  have hc : ∀ x, CovAlt pos x a s → Cov x none a.res (s.setError a.err) := by
    intro x hx
    rcases hx with (h1 | h1 | h1 | h1) | ⟨h1, _⟩
    · exact .inr (.inr (.inl (GeE_setError_right s _ h1)))
    · exact .inr (.inl h1)
    · exact .inr (.inr (.inl (hle.ctx x h1)))
    · exact .inr (.inr (.inr (GeA_mono hle.act h1)))
    · cases hal : a.res.alts with
      | nil => exact absurd hal hne
      | cons n ns =>
        have hn : n ∈ a.res.alts := by rw [hal]; exact List.mem_cons_self ..
        obtain ⟨hnp, hnw⟩ := hA.altOK.nodes n hn
        have hb := Node.WF_bounds cfg.hi n hnw
        exact .inr (.inl ⟨n, hn, by omega⟩)
  obtain ⟨d, hd, hcd⟩ := hA.newTF
  refine ⟨hA.le.trans hle, ⟨d, by rw [(setError_ctxErr s a.err).2.2.2.1, hd], fun x k hx => ⟨hc x (hcd x k hx).1, (hcd x k hx).2⟩⟩,
    hc _ hprog, SLow_of_eq hA.slow (setError_ctxErr s a.err).2.1 hle, ⟨?_, hA.nonempty, hA.eof⟩⟩
  intro e he; cases he

theorem choice_step_low (hpos : RunPosOK cfg r) (hr : RunLowOK c cfg r) {ctx : Ctx} {pos : Nat} {st0 : St}
    (hin : InFile cfg.file pos) (hact : ActOK ctx pos st0.active) (hce : CtxExact ctx pos st0.active)
    {g' : G} (hc : g'.Core (TermGood cfg)) (hl : g'.All (LocLow cfg)) (hm : g'.All (MemoPr c)) {a : AltSt} {s : St} {o' : Out} {s' : St}
    (hA : AltInv c cfg pos st0 a s) (hanil : a.res.isNil = true) (hrun : r g' ctx pos s.regCall = some (o', s')) :
    (o'.res.isNil = true →
      AltInv c cfg pos st0 (altErr pos { a with cp := cpUnion a.cp o'.cp } o'.err) s' ∧
      CovAlt pos pos (altErr pos { a with cp := cpUnion a.cp o'.cp } o'.err) s' ∧
      (altErr pos { a with cp := cpUnion a.cp o'.cp } o'.err).res.isNil = true) ∧
    (o'.res.isNil = false →
      PostLow c cfg pos st0 ⟨o'.res, (altErr pos { a with cp := cpUnion a.cp o'.cp } o'.err).cp, none⟩
        (s'.setError (altErr pos { a with cp := cpUnion a.cp o'.cp } o'.err).err)) := by
  have hpre' : Pre cfg ctx pos s.regCall :=
    ⟨hin, StOK_regCall hA.stOK, by show ActOK ctx pos s.active; rw [hA.active]; exact hact⟩
  have hpost := hpos g' ctx pos s.regCall o' s' hc hpre' hrun
  have hlow := hr g' ctx pos s.regCall o' s' hc hl hm hpre'
    (by show CtxExact ctx pos s.active; rw [hA.active]; exact hce) (SLow_of_eq hA.slow rfl (StLe_regCall s)) hrun
  have hle : StLe s s' := (StLe_regCall s).trans hlow.le
  have hr' := (altErr_fields pos { a with cp := cpUnion a.cp o'.cp } o'.err).2.1
  have hA' : AltOK cfg pos (altErr pos { a with cp := cpUnion a.cp o'.cp } o'.err) :=
    AltOK_altErr (a := { a with cp := cpUnion a.cp o'.cp }) ⟨hA.altOK.nodes, hA.altOK.err, hA.altOK.nf⟩ _ hpost.err
  have hold : ∀ x, CovAlt pos x a s → CovAlt pos x (altErr pos { a with cp := cpUnion a.cp o'.cp } o'.err) s' :=
    fun x hx => CovAlt_step (a := a) (a0 := { a with cp := cpUnion a.cp o'.cp }) hle rfl rfl (fun y hy => hy) hx
  obtain ⟨d1, hd1, hc1⟩ := hA.newTF
  obtain ⟨d2, hd2, hc2⟩ := hlow.newTF
  have hdd : s'.log = (d2 ++ d1) ++ st0.log := by
    rw [hd2, show s.regCall.log = s.log from rfl, hd1, List.append_assoc]
  refine ⟨fun honil => ?_, fun honn => ?_⟩
  · -- the alternative failed
    have hnoR : ∀ y, ¬ GeR y o'.res := fun y => GeR_of_isNil honil
    have hnew : ∀ x, Cov x o'.err o'.res s' → CovAlt pos x (altErr pos { a with cp := cpUnion a.cp o'.cp } o'.err) s' :=
      fun x hx => CovAlt_new (a0 := { a with cp := cpUnion a.cp o'.cp }) (fun y hy => absurd hy (hnoR y)) hx
    refine ⟨⟨hA.le.trans hle, ⟨d2 ++ d1, hdd, ?_⟩, hlow.slow, hpost.stOK, by rw [hpost.active]; exact hA.active, hA', ?_, ?_⟩,
      hnew _ hlow.prog, by rw [hr']; exact hanil⟩
    · intro x k hx
      cases List.mem_append.mp hx with
      | inl h => exact ⟨hnew x (hc2 x k h).1, (hc2 x k h).2⟩
      | inr h => exact ⟨hold x (hc1 x k h).1, (hc1 x k h).2⟩
    · rw [hr']; exact hA.eof
    · rw [hr']; exact hA.nonempty
  · -- the alternative matched: early return
    have hne := hlow.out.nonempty honn
    have hle2 := StLe_setError s' (altErr pos { a with cp := cpUnion a.cp o'.cp } o'.err).err
    have hnode : ∀ x, x ≤ pos → GeR x o'.res := by
      intro x hx
      cases hal : o'.res.alts with
      | nil => exact absurd hal hne
      | cons n ns =>
        have hn : n ∈ o'.res.alts := by rw [hal]; exact List.mem_cons_self ..
        obtain ⟨hnp, hnw⟩ := hpost.nodes n hn
        have hb := Node.WF_bounds cfg.hi n hnw
        exact ⟨n, hn, by omega⟩
    -- whatever the accumulator covered is covered by the context error or by the returned result
    have hfin : ∀ x, CovAlt pos x (altErr pos { a with cp := cpUnion a.cp o'.cp } o'.err) s' →
        Cov x none o'.res (s'.setError (altErr pos { a with cp := cpUnion a.cp o'.cp } o'.err).err) := by
      intro x hx
      rcases hx with (h1 | h1 | h1 | h1) | ⟨h1, _⟩
      · exact .inr (.inr (.inl (GeE_setError_right s' _ h1)))
      · rw [hr'] at h1; exact absurd h1 (GeR_of_isNil hanil)
      · exact .inr (.inr (.inl (hle2.ctx x h1)))
      · exact .inr (.inr (.inr (GeA_mono hle2.act h1)))
      · exact .inr (.inl (hnode x h1))
    have hnew : ∀ x, Cov x o'.err o'.res s' →
        Cov x none o'.res (s'.setError (altErr pos { a with cp := cpUnion a.cp o'.cp } o'.err).err) := by
      intro x hx
      rcases hx with h1 | h1 | h1 | h1
      · cases altErr_cover (pos := pos) (a := { a with cp := cpUnion a.cp o'.cp }) h1 with
        | inl h2 => exact .inr (.inr (.inl (GeE_setError_right s' _ h2)))
        | inr h2 => exact .inr (.inl (hnode x h2.1))
      · exact .inr (.inl h1)
      · exact .inr (.inr (.inl (hle2.ctx x h1)))
      · exact .inr (.inr (.inr (GeA_mono hle2.act h1)))
    refine ⟨(hA.le.trans hle).trans hle2, ⟨d2 ++ d1, by rw [(setError_ctxErr s' _).2.2.2.1, hdd], ?_⟩, hnew _ hlow.prog,
      SLow_of_eq hlow.slow (setError_ctxErr s' _).2.1 hle2, ⟨?_, hlow.out.nonempty, hlow.out.eof⟩⟩
    · intro x k hx
      cases List.mem_append.mp hx with
      | inl h => exact ⟨hnew x (hc2 x k h).1, (hc2 x k h).2⟩
      | inr h => exact ⟨hfin x (hold x (hc1 x k h).1), (hc1 x k h).2⟩
    · intro e he; cases he

end

/-! ### the induction -/

/-- a call that only returns an error at or after its position and changes nothing but the log -/
theorem PostLow_err {c : ProdCert} {cfg : Cfg} {pos : Nat} {st st' : St} {cp : List Nat} {e : Err} (hle : StLe st st')
    (hc : st'.cache = st.cache) (hsl : SLow c cfg st) (hpe : pos ≤ e.pos)
    (hnew : NewCov cfg st st' (some e) .nil) : PostLow c cfg pos st ⟨.nil, cp, some e⟩ st' :=
  ⟨hle, hnew, .inl ⟨e, rfl, hpe⟩, SLow_of_eq hsl hc hle, OutOK_nil cfg pos _⟩

theorem run_low (c : ProdCert) (cfg : Cfg) (hgh : cfg.ghost = true) (henvB : EnvBlame c cfg) :
    ∀ fuel, RunLowOK c cfg (run cfg fuel) := by
  have henv := henvB.core
  have henvL := henvB.low
  intro fuel
  induction fuel with
  | zero => intro g ctx pos st o st' _ _ _ _ _ _ h; simp [run] at h
  | succ fuel ih =>
    intro g ctx pos st o st' hg hgl hgm hpre hce hsl h
    have hpos : RunPosOK cfg (run cfg fuel) := run_pos cfg henv fuel
    have hP := run_pos cfg henv (fuel + 1) g ctx pos st o st' hg hpre h
    have hB := run_blame c cfg henvB (fuel + 1) g ctx pos st o st' hg hgl hgm hsl.cb h
    -- neither a result nor an error: a curtailing parser is active at the call position
    have hGeA : ∀ r, pr c r g = true → o.res.isNil = true → o.err = none → GeA pos st' := by
      intro r hpr hn he
      obtain ⟨k, _, hk1, _⟩ := hB.blame r hpr hn he
      exact ⟨(k, pos), by rw [hP.active]; exact hce.mem hk1, Nat.le_refl _⟩
    obtain ⟨hin, hst, hact⟩ := hpre
    have hloc : LocLow cfg g := G.All_self hgl
    cases hsh : g.shape with
    | some sh =>
      rw [run_seqfam cfg fuel g sh ctx pos st hsh] at h
      split at h
      · cases h
      · unfold runSeq at h
        split at h
        · cases h
        · rename_i b ss st1 hsp
          cases h
          have hJ : SeqJX cfg pos ⟨0, [], ctx, pos, true⟩ {} st :=
            ⟨⟨hin, Nat.le_refl _, by unfold Chain; exact ⟨rfl, hin.2⟩, hst, hact,
              ⟨(by intro x hx; cases hx), (by intro er her; cases her)⟩⟩, hce⟩
          have hE := seqParse_low c cfg (run cfg fuel) hpos ih g sh hg hgl hgm hsh pos fuel ⟨0, [], ctx, pos, true⟩ {} st b ss st1
            hJ hsl ⟨(by intro n hn; cases hn), (by intro hc; cases hc)⟩ trivial (by intro i hi; cases hi) rfl hsp
          exact seqFinish_low hE
    | none =>
    unfold run at h
    split at h
    · cases h
    · cases g with
      | term t =>
        simp only at h
        split at h
        · rename_i n hp
          cases h
          have hn := hP.nodes n (by simp [Res.alts])
          have hb := Node.WF_bounds cfg.hi n hn.2
          refine ⟨StLe.refl _, NewCov_refl _ _ _ _, .inr (.inl ⟨n, by simp [Res.alts], by omega⟩), hsl, ⟨?_, ?_, ?_⟩⟩
          · intro e he; cases he
          · intro _; simp [Res.alts]
          · intro m hm
            simp only [Res.alts, List.mem_singleton] at hm
            subst hm; exact hloc pos _ hp
        · rename_i e hp
          cases h
          have he := hP.err e rfl
          refine PostLow_err (StLe_logEv st cfg _) (logEv_fields st cfg _).1 hsl he.1 ?_
          refine ⟨[Ev.termFail e.pos e.kind], by rw [logEv_ghost_c06 hgh]; rfl, ?_⟩
          intro x k hx
          simp only [List.mem_singleton, Ev.termFail.injEq] at hx
          rw [hx.1]
          exact ⟨.inl ⟨e, rfl, Nat.le_refl _⟩, he.2⟩
        · cases h
          exact PostLow_err (StLe.refl _) rfl hsl (Nat.le_refl _) (NewCov_refl _ _ _ _)
      | empty =>
        simp only at h
        cases h
        refine ⟨StLe.refl _, NewCov_refl _ _ _ _, .inr (.inl ⟨.empty pos, by simp [Res.alts], Nat.le_refl _⟩), hsl, ⟨?_, ?_, ?_⟩⟩
        · intro e he; cases he
        · intro _; simp [Res.alts]
        · intro m hm
          simp only [Res.alts, List.mem_singleton] at hm
          subst hm; simp [Node.EofOK]
      | eof =>
        simp only at h
        split at h
        · rename_i heof
          cases h
          refine ⟨StLe.refl _, NewCov_refl _ _ _ _, .inr (.inl ⟨.eof pos, by simp [Res.alts], Nat.le_refl _⟩), hsl, ⟨?_, ?_, ?_⟩⟩
          · intro e he; cases he
          · intro _; simp [Res.alts]
          · intro m hm
            simp only [Res.alts, List.mem_singleton] at hm
            subst hm
            simp only [Node.EofOK, Cfg.hi]
            simp only [isEOF, ge_iff_le, decide_eq_true_eq] at heof
            have := hin.1
            unfold File.len at heof
            unfold File.len
            omega
        · cases h
          refine PostLow_err (StLe_logEv st cfg _) (logEv_fields st cfg _).1 hsl (Nat.le_refl _) ?_
          refine ⟨[Ev.termFail pos (.other endErrMsg)], by rw [logEv_ghost_c06 hgh]; rfl, ?_⟩
          intro x k hx
          simp only [List.mem_singleton, Ev.termFail.injEq] at hx
          rw [hx.1]
          exact ⟨.inl ⟨_, rfl, Nat.le_refl _⟩, hin.2⟩
      | ref k =>
        simp only at h
        split at h
        · rename_i g' hk
          have hm := List.mem_of_getElem? hk
          exact ih g' ctx pos st o st' (henv g' hm) (henvL g' hm) (henvB.mp g' hm) ⟨hin, hst, hact⟩ hce hsl h
        · cases h
          exact PostLow_err (StLe.refl _) rfl hsl (Nat.le_refl _) (NewCov_refl _ _ _ _)
      | memo idx body =>
        simp only at h
        have hbody : body.Core (TermGood cfg) := by simpa [G.Core] using hg
        have hbodyL : body.All (LocLow cfg) := by simp only [G.All] at hgl; exact hgl.2
        have hbodyM : body.All (MemoPr c) := by simp only [G.All] at hgm; exact hgm.2
        have hprm : pr c (c.prank idx + 1) (.memo idx body) = true := by
          have : pr c (c.prank idx) body = true := by simp only [G.All] at hgm; exact hgm.1
          simp [pr, this]
        cases hc : cacheGet st.cache idx pos ctx with
        | some e =>
          simp only [hc] at h
          cases h
          obtain ⟨hm, _, hp⟩ := cacheGet_some hc
          have hle := StLe_logEv st cfg (.hit idx pos)
          obtain ⟨hcv, hok, _⟩ := hsl e hm
          refine ⟨hle, NewCov_logEv cfg st _ (by intro x k hx; cases hx) _ _, ?_,
            SLow_of_eq hsl (logEv_fields st cfg _).1 hle, ?_⟩
          · simp only [CovE, hp] at hcv
            rcases hcv with h1 | h1 | h1 | ⟨k, _, hk1⟩
            · exact .inl h1
            · exact .inr (.inl h1)
            · exact .inr (.inr (.inl (hle.ctx _ h1)))
            · exact .inr (.inr (.inr ⟨(k, pos), hle.act _ (hce.mem (cacheGet_live hc k hk1)), Nat.le_refl _⟩))
          · have := hok; rw [hp] at this; exact this
        | none =>
          simp only [hc] at h
          by_cases hcur : ctx.get idx > remaining cfg.file pos + Facts.curtailSlack
          · simp only [hcur, ↓reduceIte] at h
            cases h
            have hle := StLe_logEv st cfg (.curtail idx pos)
            refine ⟨hle, NewCov_logEv cfg st _ (by intro x k hx; cases hx) _ _, ?_,
              SLow_of_eq hsl (logEv_fields st cfg _).1 hle, OutOK_nil cfg pos _⟩
            exact .inr (.inr (.inr ⟨(idx, pos), hle.act _ (hce.mem (by omega)), Nat.le_refl _⟩))
          · simp only [hcur, ↓reduceIte] at h
            split at h
            · cases h
            · rename_i o2 st2 hr
              cases h
              have hf := logEv_fields ({ st with active := (idx, pos) :: st.active }) cfg
                (.body idx pos ((st.active.filter (fun a : Nat × Nat => a.1 == idx && a.2 == pos)).length + 1))
              have hle0 := StLe_logEv ({ st with active := (idx, pos) :: st.active }) cfg
                (.body idx pos ((st.active.filter (fun a : Nat × Nat => a.1 == idx && a.2 == pos)).length + 1))
              simp only at hf
              generalize hs1 : ({ st with active := (idx, pos) :: st.active } : St).logEv cfg
                (.body idx pos ((st.active.filter (fun a : Nat × Nat => a.1 == idx && a.2 == pos)).length + 1)) = st1
                at hr hf hle0
              have hpre1 := memo_pre hin hst hact hcur hs1
              have hle1 : StLe st st1 := ⟨hle0.log, hle0.ctx, by
                rw [hf.2.2.2.1]; exact fun a ha => List.mem_cons_of_mem _ ha⟩
              have hsl1 : SLow c cfg st1 := SLow_of_eq hsl hf.1 hle1
              have hce1 : CtxExact (ctx.inc idx) pos st1.active := by
                rw [hf.2.2.2.1]; exact CtxExact_memo hce idx
              have hP1 := hpos body (ctx.inc idx) pos st1 o st2 hbody hpre1 hr
              have hlow := ih body (ctx.inc idx) pos st1 o st2 hbody hbodyL hbodyM hpre1 hce1 hsl1 hr
              have hact2 : st2.active = (idx, pos) :: st.active := by rw [hP1.active, hf.2.2.2.1]
              -- the call position is covered without the frame that is about to be popped
              have hprog' : Cov pos o.err o.res
                  ({ st2 with cache := cacheSave st2.cache ({ idx := idx, pos := pos, ctx := ctx.filter o.cp, cp := o.cp, err := o.err, res := o.res } : CacheEntry), active := st.active } : St) := by
                by_cases hn : o.res.isNil = true
                · cases he : o.err with
                  | some e => exact .inl ⟨e, rfl, (hP1.err e he).1⟩
                  | none => exact .inr (.inr (.inr (hGeA _ hprm hn he)))
                · have hn' : o.res.isNil = false := by simpa using hn
                  have hne := hlow.out.nonempty hn'
                  cases hal : o.res.alts with
                  | nil => exact absurd hal hne
                  | cons n ns =>
                    have hnm : n ∈ o.res.alts := by rw [hal]; exact List.mem_cons_self ..
                    obtain ⟨hnp, hnw⟩ := hP1.nodes n hnm
                    have hb := Node.WF_bounds cfg.hi n hnw
                    exact .inr (.inl ⟨n, hnm, by omega⟩)
              have htrans : ∀ x, Cov x o.err o.res st2 → Cov x o.err o.res
                  ({ st2 with cache := cacheSave st2.cache ({ idx := idx, pos := pos, ctx := ctx.filter o.cp, cp := o.cp, err := o.err, res := o.res } : CacheEntry), active := st.active } : St) := by
                intro x hx
                rcases hx with h1 | h1 | h1 | h1
                · exact .inl h1
                · exact .inr (.inl h1)
                · exact .inr (.inr (.inl h1))
                · obtain ⟨a, ha, hxa⟩ := h1
                  rw [hact2] at ha
                  cases ha with
                  | head => exact Cov_le hxa hprog'
                  | tail _ ha => exact .inr (.inr (.inr ⟨a, ha, hxa⟩))
              refine ⟨⟨hle1.log.trans hlow.le.log, fun x hx => hlow.le.ctx x (hle1.ctx x hx), fun a ha => ha⟩, ?_,
                hprog', ?_, hlow.out⟩
              · refine NewCov_imp' (NewCov_of_prefix hlow.newTF ?_) rfl (fun x _ hx => htrans x hx)
                cases hf.2.2.2.2 with
                | inl h5 => exact .inl h5
                | inr h5 => exact .inr ⟨_, (by intro x k hx; cases hx), h5⟩
              · intro e hcm
                cases mem_cacheSave hcm with
                | inl h1 =>
                  refine ⟨?_, by rw [h1]; exact hlow.out, hB.cb e hcm⟩
                  rw [h1]
                  by_cases hn : o.res.isNil = true
                  · cases he : o.err with
                    | some e' => exact .inl ⟨e', rfl, (hP1.err e' he).1⟩
                    | none =>
                      obtain ⟨k, hk, hk1, _⟩ := hB.blame _ hprm hn he
                      exact .inr (.inr (.inr ⟨k, hk, by
                        show 1 ≤ (ctx.filter o.cp).get k
                        rw [get_filter hk]; exact hk1⟩))
                  · have hn' : o.res.isNil = false := by simpa using hn
                    have hne := hlow.out.nonempty hn'
                    cases hal : o.res.alts with
                    | nil => exact absurd hal hne
                    | cons n ns =>
                      have hnm : n ∈ o.res.alts := by rw [hal]; exact List.mem_cons_self ..
                      obtain ⟨hnp, hnw⟩ := hP1.nodes n hnm
                      have hb := Node.WF_bounds cfg.hi n hnw
                      exact .inr (.inl ⟨n, hnm, by show pos ≤ n.rpos; omega⟩)
                | inr h1 =>
                  obtain ⟨q1, q2, q3⟩ := hlow.slow e h1
                  exact ⟨q1, q2, q3⟩
      | any gs =>
        simp only at h
        have hgs : CoreList (TermGood cfg) gs := by simpa [G.Core] using hg
        have hgsL : AllList (LocLow cfg) gs := by simp only [G.All] at hgl; exact hgl.2
        have hgsM : AllList (MemoPr c) gs := by simp only [G.All] at hgm; exact hgm.2
        have hne : gs ≠ [] := hloc
        have hA0 : AltInv c cfg pos st {} st :=
          ⟨StLe.refl _, ⟨[], rfl, by intro x k hx; cases hx⟩, hsl, hst, rfl,
            ⟨(by intro x hx; cases hx), (by intro er her; cases her), (by intro er her; cases her)⟩,
            (by intro n hn; cases hn), (by intro hc; cases hc)⟩
        cases gs with
        | nil => exact absurd rfl hne
        | cons g0 gs' =>
          have hloop : ∀ a' s', anyLoop (run cfg fuel) ctx pos (g0 :: gs') {} st = some (a', s') →
              AltInv c cfg pos st a' s' ∧ CovAlt pos pos a' s' := by
            intro a' s' hl
            simp only [anyLoop] at hl
            split at hl
            · cases hl
            · rename_i o0 s0 hr0
              have h0 := any_step_low hpos ih hin hact hce (CoreList_mem hgs g0 (List.mem_cons_self ..))
                (AllList_mem hgsL g0 (List.mem_cons_self ..)) (AllList_mem hgsM g0 (List.mem_cons_self ..)) hA0 hr0
              exact anyLoop_ind (run cfg fuel) ctx pos
                (fun a s => AltInv c cfg pos st a s ∧ CovAlt pos pos a s) gs'
                (by
                  intro g' hg' a s o' s2 hA hr
                  exact any_step_low hpos ih hin hact hce (CoreList_mem hgs g' (List.mem_cons_of_mem _ hg'))
                    (AllList_mem hgsL g' (List.mem_cons_of_mem _ hg')) (AllList_mem hgsM g' (List.mem_cons_of_mem _ hg')) hA.1 hr)
                _ s0 a' s' h0 hl
          split at h
          · cases h
          · rename_i a st1 hl
            have hA := hloop a st1 hl
            split at h
            · rename_i hnil
              cases h
              exact alt_final_nil hA.1 hA.2 hnil
            · rename_i hnn
              cases h
              exact any_final_res hA.1 hA.2 (by simpa using hnn)
      | choice gs =>
        simp only at h
        have hgs : CoreList (TermGood cfg) gs := by simpa [G.Core] using hg
        have hgsL : AllList (LocLow cfg) gs := by simp only [G.All] at hgl; exact hgl.2
        have hgsM : AllList (MemoPr c) gs := by simp only [G.All] at hgm; exact hgm.2
        have hne : gs ≠ [] := hloc
        have hA0 : AltInv c cfg pos st {} st :=
          ⟨StLe.refl _, ⟨[], rfl, by intro x k hx; cases hx⟩, hsl, hst, rfl,
            ⟨(by intro x hx; cases hx), (by intro er her; cases her), (by intro er her; cases her)⟩,
            (by intro n hn; cases hn), (by intro hc; cases hc)⟩
        cases gs with
        | nil => exact absurd rfl hne
        | cons g0 gs' =>
          have hloop : ∀ out a' s', choiceLoop (run cfg fuel) ctx pos (g0 :: gs') {} st = some (out, a', s') →
              (out = none → AltInv c cfg pos st a' s' ∧ CovAlt pos pos a' s' ∧ a'.res.isNil = true) ∧
              (∀ o1, out = some o1 → PostLow c cfg pos st o1 s') := by
            intro out a' s' hl
            simp only [choiceLoop] at hl
            split at hl
            · cases hl
            · rename_i o0 s0 hr0
              have h0 := choice_step_low hpos ih hin hact hce (CoreList_mem hgs g0 (List.mem_cons_self ..))
                (AllList_mem hgsL g0 (List.mem_cons_self ..)) (AllList_mem hgsM g0 (List.mem_cons_self ..)) hA0 rfl hr0
              by_cases hn0 : o0.res.isNil = true
              · simp only [hn0, Bool.not_true, Bool.false_eq_true, ↓reduceIte] at hl
                exact choiceLoop_ind (run cfg fuel) ctx pos
                  (fun a s => AltInv c cfg pos st a s ∧ CovAlt pos pos a s ∧ a.res.isNil = true)
                  (fun out a s => (out = none → AltInv c cfg pos st a s ∧ CovAlt pos pos a s ∧ a.res.isNil = true) ∧
                    (∀ o1, out = some o1 → PostLow c cfg pos st o1 s)) gs'
                  (by intro a s hA; exact ⟨fun _ => hA, (by intro o1 ho; cases ho)⟩)
                  (by
                    intro g' hg' a s o' s2 hA hr
                    have hstep := choice_step_low hpos ih hin hact hce (CoreList_mem hgs g' (List.mem_cons_of_mem _ hg'))
                      (AllList_mem hgsL g' (List.mem_cons_of_mem _ hg')) (AllList_mem hgsM g' (List.mem_cons_of_mem _ hg')) hA.1 hA.2.2 hr
                    refine ⟨fun hnn => ⟨(by intro hc; cases hc), ?_⟩, fun hnil => hstep.1 hnil⟩
                    intro o1 ho1
                    cases ho1
                    exact hstep.2 hnn)
                  _ s0 out a' s' (h0.1 hn0) hl
              · have hn0' : o0.res.isNil = false := by simpa using hn0
                simp only [hn0', Bool.not_false, ↓reduceIte] at hl
                cases hl
                exact ⟨(by intro hc; cases hc), (by intro o1 ho1; cases ho1; exact h0.2 hn0')⟩
          split at h
          · cases h
          · rename_i o1 a st1 hl
            cases h
            exact (hloop _ _ _ hl).2 _ rfl
          · rename_i a st1 hl
            cases h
            have := (hloop _ _ _ hl).1 rfl
            exact alt_final_nil this.1 this.2.1 this.2.2
      | optional g' =>
        simp only at h
        have hg' : g'.Core (TermGood cfg) := by simpa [G.Core] using hg
        have hgl' : g'.All (LocLow cfg) := by simp only [G.All] at hgl; exact hgl.2
        have hgm' : g'.All (MemoPr c) := by simp only [G.All] at hgm; exact hgm.2
        split at h
        · cases h
        · rename_i o1 st1 hr
          cases h
          have hlow := ih g' ctx pos st o1 _ hg' hgl' hgm' ⟨hin, hst, hact⟩ hce hsl hr
          have hup : ∀ x, Cov x o1.err o1.res st' → Cov x o1.err (appendNode o1.res (.one (.empty pos))) st' := by
            intro x hx
            rcases hx with h1 | h1 | h1 | h1
            · exact .inl h1
            · exact .inr (.inl (GeR_appendNode_left _ h1))
            · exact .inr (.inr (.inl h1))
            · exact .inr (.inr (.inr h1))
          refine ⟨hlow.le, NewCov_imp hlow.newTF (fun x _ hx => hup x hx), hup _ hlow.prog, hlow.slow, ⟨?_, ?_, ?_⟩⟩
          · intro e he n hn
            cases mem_appendNode _ _ _ hn with
            | inl h1 => exact hlow.out.errRes e he n h1
            | inr h1 =>
              simp only [Res.alts, List.mem_singleton] at h1
              subst h1; exact Nat.le_refl _
          · intro _ hc
            have : Node.empty pos ∈ (appendNode o1.res (.one (.empty pos))).alts :=
              mem_appendNode_right _ _ _ (by simp [Res.alts])
            rw [hc] at this; cases this
          · intro n hn
            cases mem_appendNode _ _ _ hn with
            | inl h1 => exact hlow.out.eof n h1
            | inr h1 =>
              simp only [Res.alts, List.mem_singleton] at h1
              subst h1; simp [Node.EofOK]
      | name g' nm =>
        simp only at h
        have hg' : g'.Core (TermGood cfg) := by simpa [G.Core] using hg
        have hgl' : g'.All (LocLow cfg) := by simp only [G.All] at hgl; exact hgl.2
        have hgm' : g'.All (MemoPr c) := by simp only [G.All] at hgm; exact hgm.2
        split at h
        · cases h
        · rename_i o1 st1 hr
          have hlow := ih g' ctx pos st o1 st1 hg' hgl' hgm' ⟨hin, hst, hact⟩ hce hsl hr
          have hp1 := hpos g' ctx pos st o1 st1 hg' ⟨hin, hst, hact⟩ hr
          split at h
          · rename_i e he
            -- the body returned an error: the result (if any) is dropped
            have hdrop : ∀ (e' : Err), e'.pos = e.pos → ∀ x, Cov x o1.err o1.res st1 → Cov x (some e') .nil st1 := by
              intro e' hpe x hx
              rcases hx with h1 | h1 | h1 | h1
              · obtain ⟨e1, he1, hx1⟩ := h1
                rw [he] at he1; cases he1
                exact .inl ⟨e', rfl, by omega⟩
              · obtain ⟨n, hn, hxn⟩ := h1
                have := hlow.out.errRes e he n hn
                have := (hp1.err e he).1
                exact .inl ⟨e', rfl, by omega⟩
              · exact .inr (.inr (.inl h1))
              · exact .inr (.inr (.inr h1))
            split at h
            · rename_i hc
              cases h
              simp only [Bool.and_eq_true, decide_eq_true_eq] at hc
              exact ⟨hlow.le, NewCov_imp hlow.newTF (fun x _ hx => hdrop _ hc.1.symm x hx),
                hdrop _ hc.1.symm _ hlow.prog, hlow.slow, OutOK_nil cfg pos _⟩
            · cases h
              exact ⟨hlow.le, NewCov_imp hlow.newTF (fun x _ hx => hdrop _ rfl x hx),
                hdrop _ rfl _ hlow.prog, hlow.slow, OutOK_nil cfg pos _⟩
          · rename_i he
            split at h
            · rename_i hn
              cases h
              have hc : ∀ x, Cov x o1.err o1.res st' → Cov x (some ⟨pos, .notFound nm⟩) .nil st' := by
                intro x hx
                rcases hx with h1 | h1 | h1 | h1
                · rw [he] at h1; exact absurd h1 (GeE_none x)
                · exact absurd h1 (GeR_of_isNil hn)
                · exact .inr (.inr (.inl h1))
                · exact .inr (.inr (.inr h1))
              exact ⟨hlow.le, NewCov_imp hlow.newTF (fun x _ hx => hc x hx), .inl ⟨_, rfl, Nat.le_refl _⟩,
                hlow.slow, OutOK_nil cfg pos _⟩
            · cases h
              have hc : ∀ x, Cov x o1.err o1.res st' → Cov x none o1.res st' := by
                intro x hx; rw [he] at hx; exact hx
              exact ⟨hlow.le, NewCov_imp hlow.newTF (fun x _ hx => hc x hx), hc _ hlow.prog, hlow.slow,
                ⟨(by intro e he'; cases he'), hlow.out.nonempty, hlow.out.eof⟩⟩
      | single g' =>
        simp only at h
        have hg' : g'.Core (TermGood cfg) := by simpa [G.Core] using hg
        have hgl' : g'.All (LocLow cfg) := by simp only [G.All] at hgl; exact hgl.2
        have hgm' : g'.All (MemoPr c) := by simp only [G.All] at hgm; exact hgm.2
        split at h
        · cases h
        · rename_i o1 st1 hr
          have hlow := ih g' ctx pos st o1 st1 hg' hgl' hgm' ⟨hin, hst, hact⟩ hce hsl hr
          have hp1 := hpos g' ctx pos st o1 st1 hg' ⟨hin, hst, hact⟩ hr
          split at h
          · rename_i e he
            cases h
            have hdrop : ∀ x, Cov x o1.err o1.res st' → Cov x (some e) .nil st' := by
              intro x hx
              rcases hx with h1 | h1 | h1 | h1
              · rw [he] at h1; exact .inl h1
              · obtain ⟨n, hn, hxn⟩ := h1
                have := hlow.out.errRes e he n hn
                have := (hp1.err e he).1
                exact .inl ⟨e, rfl, by omega⟩
              · exact .inr (.inr (.inl h1))
              · exact .inr (.inr (.inr h1))
            exact ⟨hlow.le, NewCov_imp hlow.newTF (fun x _ hx => hdrop x hx), hdrop _ hlow.prog, hlow.slow,
              OutOK_nil cfg pos _⟩
          · rename_i he
            split at h
            · rename_i tk c p r i hres
              cases h
              have hmem : Node.nt tk [c] p r i ∈ o1.res.alts := by rw [hres]; simp [Res.alts]
              obtain ⟨_, hw⟩ := hp1.nodes _ hmem
              have hw' : c.pos = p ∧ c.WF cfg.hi ∧ Chain cfg.hi [] c.rpos r := by
                simpa only [Node.WF, Chain] using hw
              have hcr : c.rpos = r := by
                have := hw'.2.2; simp only [Chain] at this; exact this.1
              have hc : ∀ x, Cov x o1.err o1.res st' → Cov x none (.one c) st' := by
                intro x hx
                rw [he, hres] at hx
                rcases hx with h1 | h1 | h1 | h1
                · exact .inl h1
                · obtain ⟨n, hn, hxn⟩ := h1
                  simp only [Res.alts, List.mem_singleton] at hn
                  subst hn
                  exact .inr (.inl ⟨c, by simp [Res.alts], by simp only [Node.rpos] at hxn; omega⟩)
                · exact .inr (.inr (.inl h1))
                · exact .inr (.inr (.inr h1))
              refine ⟨hlow.le, NewCov_imp hlow.newTF (fun x _ hx => hc x hx), hc _ hlow.prog, hlow.slow, ⟨?_, ?_, ?_⟩⟩
              · intro e he'; cases he'
              · intro _; simp [Res.alts]
              · intro m hm
                simp only [Res.alts, List.mem_singleton] at hm
                subst hm
                have := hlow.out.eof _ hmem
                simp only [Node.EofOK, EofOKList, and_true] at this
                exact this.2
            · cases h
              have hc : ∀ x, Cov x o1.err o1.res st' → Cov x none o1.res st' := by
                intro x hx; rw [he] at hx; exact hx
              exact ⟨hlow.le, NewCov_imp hlow.newTF (fun x _ hx => hc x hx), hc _ hlow.prog, hlow.slow,
                ⟨(by intro e he'; cases he'), hlow.out.nonempty, hlow.out.eof⟩⟩
      | suppress g' => exact hloc.elim
      | ltrim g' m => simp [G.Core] at hg
      | rtrim g' m => simp [G.Core] at hg
      | seq k gs o => simp [G.shape] at hsh
      | many g' ae o => simp [G.shape] at hsh
      | sepBy v s ae o => simp [G.shape] at hsh

end Prod
end PV
