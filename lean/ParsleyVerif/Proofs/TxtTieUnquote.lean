/-
  THE TIE for text/terminal/string.go `unquoteString` as `factgen -out-prog` translates it (two fuelled loops over an
  array heap, strconv.UnquoteChar a field of the world `X`) against Model/Terminal.lean `unquoteString`
  (`unquoteScan`, `unquoteLoop`, `unquoteChar`).
-/
import ParsleyVerif.Proofs.TxtTieHeap
import ParsleyVerif.Proofs.TxtTieReader
import ParsleyVerif.Proofs.TerminalString
namespace PV.TxtTie
open PV.ProgPrelude PV.ProgTie

/-- the world's strconv.UnquoteChar, for the quote `"`, answers what the model's transcription answers (the rune and
    the tail; the `multibyte` flag is not used) -/
def UnquoteRel (X : Ext) : Prop :=
  ∀ s : Text.Bytes, (X.unquoteChar (ints s) 34).map (fun r => (r.1, r.2.2)) =
    (PV.unquoteChar s 34).map (fun r => ((r.1 : Int), ints r.2))

/-! ### the first loop: the scan for the first special byte -/

/-- what the translated scan answers, given the model's index `i` and reason `c`.  At the end of the input (`c = 0`) the loop
    may answer the function's result itself (`return b, len(b)` inside the loop) or leave normally with the index (the test
    `i >= len(b)` standing after the loop): the specification covers both ways of writing it -/
def ScanOut (st : St) (b : Sl) (n : Nat) (r : ProgPrelude.Res (Option (Sl × Int) × Int)) (i c : Nat) : Prop :=
  (c = 0 → r = .ok (some (b, (n : Int)), (i : Int)) st ∨ r = .ok (none, (i : Int)) st) ∧
  (c = 1 → i = 0 → r = .ok (some (Go.nilSl, 0), 0) st) ∧
  (c = 1 → i ≠ 0 → r = (do let s' ← Go.slice b 0 (i : Int); pure (some (s', (i : Int)), (i : Int)) : M _) st) ∧
  (c = 2 → r = .ok (none, (i : Int)) st)

/-- one round of the model's scan, case by case (the tie below rewrites with these, never inside the translated term) -/
theorem unquoteScan_stop (x : Nat) (r : Text.Bytes) (k : Nat) (h : x = 13 ∨ x = 10 ∨ x = 34) :
    PV.unquoteScan (x :: r) k = (k, 1) := by
  have : (x = 13 || x = 10 || x = 34) = true := by simp only [Bool.or_eq_true, decide_eq_true_eq]; omega
  simp [PV.unquoteScan, this]

theorem unquoteScan_break (x : Nat) (r : Text.Bytes) (k : Nat) (h1 : ¬ (x = 13 ∨ x = 10 ∨ x = 34)) (h2 : x = 92 ∨ x ≥ 128) :
    PV.unquoteScan (x :: r) k = (k, 2) := by
  have a : ¬ (x = 13 || x = 10 || x = 34) = true := by simp only [Bool.or_eq_true, decide_eq_true_eq]; omega
  have b : (x = 92 || x ≥ 0x80) = true := by simp only [Bool.or_eq_true, decide_eq_true_eq]; omega
  rw [PV.unquoteScan, if_neg a, if_pos b]

theorem unquoteScan_next (x : Nat) (r : Text.Bytes) (k : Nat) (h1 : ¬ (x = 13 ∨ x = 10 ∨ x = 34)) (h2 : ¬ (x = 92 ∨ x ≥ 128)) :
    PV.unquoteScan (x :: r) k = PV.unquoteScan r (k + 1) := by
  have a : ¬ (x = 13 || x = 10 || x = 34) = true := by simp only [Bool.or_eq_true, decide_eq_true_eq]; omega
  have b : ¬ (x = 92 || x ≥ 0x80) = true := by simp only [Bool.or_eq_true, decide_eq_true_eq]; omega
  rw [PV.unquoteScan, if_neg a, if_neg b]

theorem scan_tie (X : Ext) (st : St) (b : Sl) (bs : Text.Bytes) (hv : view st b = ints bs) (hl : b.len = bs.length) :
    ∀ (fuel k : Nat) (ki : Int), ki = k → bs.length - k < fuel → k ≤ bs.length →
      ScanOut st b bs.length (FactsProg.unquoteString_loop2 X b fuel ki st) (PV.unquoteScan (bs.drop k) k).1
        (PV.unquoteScan (bs.drop k) k).2 := by
  intro fuel
  induction fuel with
  | zero => intro k ki _ hf; omega
  | succ fuel ih =>
    intro k ki e1 hf hk
    rw [FactsProg.unquoteString_loop2]
    simp only [ite_apply, bind_apply, pure_apply, Go.sliceTo]
    subst e1
    have hlen : Go.len b = (bs.length : Int) := by simp [Go.len, hl]
    rcases Nat.lt_or_ge k bs.length with c | c
    · obtain ⟨x, hx⟩ : ∃ x, bs.getD k 0 = x := ⟨_, rfl⟩
      have hdrop : bs.drop k = x :: bs.drop (k + 1) := by rw [← hx]; exact drop_cons_getD bs k c
      have hread : Go.idx b (k : Int) st = .ok ((x : Nat) : Int) st := by
        rw [idx_view st b _ hv (by simp [hl]) _ (by omega) (by simp; omega)]
        congr 1
        simp [ints, List.getD_eq_getElem?_getD, List.getElem?_map, List.getElem?_eq_getElem c, ← hx]
      rw [hdrop]
      by_cases c1 : x = 13 ∨ x = 10 ∨ x = 34
      · rw [unquoteScan_stop x _ k c1]
        by_cases ck : k = 0
        · subst ck
          rcases c1 with c1 | c1 | c1 <;> subst c1 <;>
          · go_decide_text [hread, hlen]
            exact ⟨fun h => absurd h (by decide), fun _ _ => rfl, fun _ h => absurd rfl h, fun h => absurd h (by decide)⟩
        · rcases c1 with c1 | c1 | c1 <;> subst c1 <;>
          · go_decide_text [hread, hlen]
            exact ⟨fun h => absurd h (by decide), fun _ h => absurd h ck, fun _ _ => (by simp only [bind_apply, pure_apply]), fun h => absurd h (by decide)⟩
      · by_cases c2 : x = 92 ∨ x ≥ 128
        · rw [unquoteScan_break x _ k c1 c2]
          by_cases c3 : x = 92
          · go_decide_text [hread, hlen]
            exact ⟨fun h => absurd h (by decide), fun h => absurd h (by decide), fun h => absurd h (by decide), fun _ => rfl⟩
          · go_decide_text [hread, hlen]
            exact ⟨fun h => absurd h (by decide), fun h => absurd h (by decide), fun h => absurd h (by decide), fun _ => rfl⟩
        · rw [unquoteScan_next x _ k c1 c2]
          go_decide_text [hread, hlen]
          exact ih (k + 1) _ (by omega) (by omega) (by omega)
    · have hk' : k = bs.length := by omega
      go_decide_text [hlen]
      rw [List.drop_of_length_le c]
      simp only [PV.unquoteScan]
      refine ⟨fun _ => ?_, fun h => absurd h (by decide), fun h => absurd h (by decide), fun h => absurd h (by decide)⟩
      first
        | exact Or.inl rfl
        | exact Or.inr rfl

/-! ### the second loop: unquoting rune by rune -/

theorem runeStr_nat (c : Nat) : Go.runeStr (c : Int) = ints (Utf8.encodeRune c) := by
  simp only [Go.runeStr, ints]
  rw [if_neg (by omega), Int.toNat_natCast]

/-- one round of the model's second loop, case by case (the tie below rewrites with these, never inside the translated term) -/
theorem unquoteLoop_nil (fm : Nat) (resM : Text.Bytes) : PV.unquoteLoop fm [] resM = (resM, []) := by
  cases fm <;> simp [PV.unquoteLoop]

theorem unquoteLoop_break (fm c : Nat) (r resM : Text.Bytes) (h : c = 13 ∨ c = 10) :
    PV.unquoteLoop (fm + 1) (c :: r) resM = (resM, c :: r) := by
  have h' : ((c :: r).head? = some 13 || (c :: r).head? = some 10) = true := by
    simp only [List.head?_cons, Option.some.injEq, Bool.or_eq_true, decide_eq_true_eq]; exact h
  rw [PV.unquoteLoop, if_neg (by simp), if_pos h']

theorem unquoteLoop_none (fm c : Nat) (r resM : Text.Bytes) (h : ¬ (c = 13 ∨ c = 10)) (hm : PV.unquoteChar (c :: r) 34 = none) :
    PV.unquoteLoop (fm + 1) (c :: r) resM = (resM, c :: r) := by
  have h' : ¬ ((c :: r).head? = some 13 || (c :: r).head? = some 10) = true := by
    simp only [List.head?_cons, Option.some.injEq, Bool.or_eq_true, decide_eq_true_eq]; exact h
  rw [PV.unquoteLoop, if_neg (by simp), if_neg h', hm]

theorem unquoteLoop_some (fm c : Nat) (r resM : Text.Bytes) (h : ¬ (c = 13 ∨ c = 10)) (ch : Nat) (tail : Text.Bytes)
    (hm : PV.unquoteChar (c :: r) 34 = some (ch, tail)) :
    PV.unquoteLoop (fm + 1) (c :: r) resM =
      if ch = Utf8.runeError ∧ (c :: r).length - tail.length = 1 then (resM, c :: r)
      else PV.unquoteLoop fm tail (resM ++ Utf8.encodeRune ch) := by
  have h' : ¬ ((c :: r).head? = some 13 || (c :: r).head? = some 10) = true := by
    simp only [List.head?_cons, Option.some.injEq, Bool.or_eq_true, decide_eq_true_eq]; exact h
  rw [PV.unquoteLoop, if_neg (by simp), if_neg h', hm]
  simp only []
  by_cases c2 : ch = Utf8.runeError ∧ (c :: r).length - tail.length = 1
  · have c2' : (ch = Utf8.runeError && (c :: r).length - tail.length = 1) = true := by
      simp only [Bool.and_eq_true, decide_eq_true_eq]; exact c2
    rw [if_pos c2', if_pos c2]
  · have c2' : ¬ (ch = Utf8.runeError && (c :: r).length - tail.length = 1) = true := by
      simp only [Bool.and_eq_true, decide_eq_true_eq]; exact c2
    rw [if_neg c2', if_neg c2]

theorem loop_tie (X : Ext) (hX : UnquoteRel X) (base : Nat) :
    ∀ (fuel fm : Nat) (str resM : Text.Bytes) (res : Sl) (st : St),
      str.length < fuel → str.length ≤ fm → SWFs st res → base ≤ res.arr → res.isNil = false →
      view st res = ints resM →
      ∃ res' st',
        FactsProg.unquoteString_loop1 X fuel (ints str) res st =
          .ok (ints (PV.unquoteLoop fm str resM).2, res') st' ∧
        Keeps base st st' ∧ SWFs st' res' ∧ base ≤ res'.arr ∧ view st' res' = ints (PV.unquoteLoop fm str resM).1 ∧
        res'.isNil = false := by
  intro fuel
  induction fuel with
  | zero => intro fm str resM res st hf; omega
  | succ fuel ih =>
    intro fm str resM res st hf hfm w hb hn hv
    rw [FactsProg.unquoteString_loop1]
    simp only [ite_apply, bind_apply, pure_apply]
    cases str with
    | nil =>
      rw [unquoteLoop_nil]
      have hnil : ints [] = ([] : Str) := rfl
      go_decide_text [hnil]
      exact ⟨_, _, rfl, Keeps.refl _ _, w, hb, hv, hn⟩
    | cons c r =>
      obtain ⟨fm, rfl⟩ : ∃ k, fm = k + 1 := ⟨fm - 1, by simp at hfm; omega⟩
      have hne : ¬ ints (c :: r) = ([] : Str) := by simp
      have hne' : ints (c :: r) ≠ ([] : Str) := hne
      have hidx : Go.strIdx (ints (c :: r)) 0 st = .ok (c : Int) st := rfl
      by_cases c1 : c = 13 ∨ c = 10
      · rw [unquoteLoop_break fm c r resM c1]
        rcases c1 with c1 | c1 <;> subst c1 <;>
        · go_decide_text [hidx]
          exact ⟨_, _, rfl, Keeps.refl _ _, w, hb, hv, hn⟩
      · have hx := hX (c :: r)
        cases hm : PV.unquoteChar (c :: r) 34 with
        | none =>
          rw [unquoteLoop_none fm c r resM c1 hm]
          rw [hm] at hx
          cases hxx : X.unquoteChar (ints (c :: r)) 34 with
          | some t => rw [hxx] at hx; simp at hx
          | none =>
            have hnil : (Obj.named "strconv.ErrSyntax").isNil = false := rfl
            go_decide_text [hidx, Go.unquoteChar, hxx, hnil]
            exact ⟨_, _, rfl, Keeps.refl _ _, w, hb, hv, hn⟩
        | some pr =>
          obtain ⟨chm, tailm⟩ := pr
          rw [unquoteLoop_some fm c r resM c1 chm tailm hm]
          rw [hm] at hx
          cases hxx : X.unquoteChar (ints (c :: r)) 34 with
          | none => rw [hxx] at hx; simp at hx
          | some t =>
            obtain ⟨v, mb, tl⟩ := t
            rw [hxx] at hx
            simp only [Option.map_some, Option.some.injEq, Prod.mk.injEq] at hx
            obtain ⟨hx1, hx2⟩ := hx
            subst hx1 hx2
            obtain ⟨k, hk⟩ := PV.unquoteChar_step (c :: r) 34 chm tailm hm
            have htl : tailm.length = (c :: r).length - k := by rw [hk.tail_eq, List.length_drop]
            have hkp := hk.pos
            have hkl := hk.le
            have hnil : Obj.nil.isNil = true := rfl
            by_cases c2 : chm = Utf8.runeError ∧ (c :: r).length - tailm.length = 1
            · rw [if_pos c2]
              have a1 : (chm : Int) = 65533 := by have := c2.1; simp only [Utf8.runeError] at this; omega
              have a2 : ((c :: r).length : Int) - (tailm.length : Int) = 1 := by omega
              go_decide_text [hidx, Go.unquoteChar, hxx, hnil, strLen_ints]
              exact ⟨_, _, rfl, Keeps.refl _ _, w, hb, hv, hn⟩
            · rw [if_neg c2]
              have a3 : ¬ ((chm : Int) = 65533 ∧ ((c :: r).length : Int) - (tailm.length : Int) = 1) := by
                intro ⟨h1, h2⟩
                apply c2
                refine ⟨by simp only [Utf8.runeError]; omega, by omega⟩
              obtain ⟨res2, st2, e2, k2, v2, w2, hb2, _, hn2⟩ :=
                appendList_spec st res (ints (Utf8.encodeRune chm)) base w hb hn
              obtain ⟨res', st', e3, k3, w3, hb3, v3, hn3⟩ :=
                ih fm tailm (resM ++ Utf8.encodeRune chm) res2 st2
                  (by simp only [List.length_cons] at hf htl hkl; omega) (by simp only [List.length_cons] at hfm htl hkl; omega)
                  w2 hb2 hn2 (by rw [v2, hv, ints_append])
              have happ : Go.appendStr res (Go.runeStr (chm : Int)) st = .ok res2 st2 := by
                rw [runeStr_nat]; exact e2
              by_cases a4 : (chm : Int) = 65533
              · have a5 : ¬ ((c :: r).length : Int) - (tailm.length : Int) = 1 := fun h => a3 ⟨a4, h⟩
                go_decide_text [hidx, Go.unquoteChar, hxx, hnil, strLen_ints, happ, e3]
                exact ⟨_, _, rfl, k2.trans k3, w3, hb3, v3, hn3⟩
              · go_decide_text [hidx, Go.unquoteChar, hxx, hnil, strLen_ints, happ, e3]
                exact ⟨_, _, rfl, k2.trans k3, w3, hb3, v3, hn3⟩

/-! ### unquoteString -/

theorem mkSlice_spec (st : St) (i : Nat) :
    ∃ s st', Go.mkSlice 0 (i : Int) st = .ok s st' ∧ Grows st st' ∧ SWFs st' s ∧ s.arr = st.arrays.length ∧
      view st' s = [] ∧ s.isNil = false ∧ s.len = 0 := by
  refine ⟨{ arr := st.arrays.length, off := 0, len := 0, cap := i },
    { st with arrays := st.arrays ++ [List.replicate i 0] }, ?_, Grows.push st _, ?_, rfl, ?_, rfl, rfl⟩
  · simp only [Go.mkSlice]
    rw [if_pos ⟨by omega, by omega⟩]
    simp
  · refine ⟨by simp, Nat.zero_le _, ?_⟩
    have : cells { st with arrays := st.arrays ++ [List.replicate i 0] } st.arrays.length = List.replicate i 0 :=
      Data.cells_append_eq st.arrays _
    rw [this]; simp
  · simp [view]

/-- the model's answer when the scan stops at index `i` and the second phase runs from there -/
def phase2M (bs : Text.Bytes) (i : Nat) : Option Text.Bytes × Nat :=
  if (PV.unquoteLoop bs.length (bs.drop i) (bs.take i)).2.length = bs.length then (none, 0)
  else (some (PV.unquoteLoop bs.length (bs.drop i) (bs.take i)).1, bs.length - (PV.unquoteLoop bs.length (bs.drop i) (bs.take i)).2.length)

/-- **unquoteString**: the translated function (for a world whose UnquoteChar is the model's) is, in the sense of
    `FnRel`, the model's `unquoteString`: it never panics, writes to nothing that existed, and returns a slice that shows
    the model's value (nil for `none`) and the model's length -/
theorem tie_unquoteString (X : Ext) (hX : UnquoteRel X) : FnRel (FactsProg.unquoteString X) PV.unquoteString := by
  intro st s bs hv hl hne hnil hcap
  have hlen : Go.len s = (bs.length : Int) := by simp [Go.len, hl]
  have hn0 : bs.length ≠ 0 := fun h => hne (List.length_eq_zero_iff.mp h)
  have hsp := PV.unquoteScan_spec bs 0
  unfold FactsProg.unquoteString
  simp only [bind_apply]
  -- the fuel of the scan, whatever expression the translator computed for it: it exceeds the length
  generalize hfu : (Int.toNat _ + 1 : Nat) = fuel
  have hfuel : bs.length < fuel := by rw [hlen] at hfu; omega
  have hs := scan_tie X st s bs hv hl fuel 0 0 rfl (by omega) (by omega)
  simp only [List.drop_zero] at hs
  -- the four ways the scan can end, against the model
  have ana :
      (FactsProg.unquoteString_loop2 X s fuel 0 st = .ok (some (s, (bs.length : Int)), (bs.length : Int)) st ∧
        PV.unquoteString bs = (some bs, bs.length)) ∨
      (FactsProg.unquoteString_loop2 X s fuel 0 st = .ok (some (Go.nilSl, 0), 0) st ∧ PV.unquoteString bs = (none, 0)) ∨
      (∃ i : Nat, i ≠ 0 ∧ i ≤ bs.length ∧
        FactsProg.unquoteString_loop2 X s fuel 0 st =
          (do let s' ← Go.slice s 0 (i : Int); pure (some (s', (i : Int)), (i : Int)) : M _) st ∧
        PV.unquoteString bs = (some (bs.take i), i)) ∨
      (∃ i : Nat, i ≤ bs.length ∧ FactsProg.unquoteString_loop2 X s fuel 0 st = .ok (none, (i : Int)) st ∧
        PV.unquoteString bs = phase2M bs i) := by
    unfold PV.unquoteString phase2M
    rcases hsc : PV.unquoteScan bs 0 with ⟨i, c⟩
    rw [hsc] at hs hsp
    simp only [Nat.zero_add] at hs hsp
    obtain ⟨_, hi, hc2, hc0⟩ := hsp
    obtain ⟨s0, s1a, s1b, s2⟩ := hs
    match c, hc2, hc0, s0, s1a, s1b, s2 with
    | 0, _, hc0, s0, _, _, _ =>
      have := hc0 rfl
      subst this
      rcases s0 rfl with e | e
      · exact .inl ⟨e, rfl⟩
      · refine .inr (.inr (.inr ⟨bs.length, Nat.le_refl _, e, ?_⟩))
        simp [unquoteLoop_nil, hn0.symm]
    | 1, _, _, _, s1a, s1b, _ =>
      by_cases h0 : i = 0
      · exact .inr (.inl ⟨by have := s1a rfl h0; subst h0; exact this, by simp [h0]⟩)
      · exact .inr (.inr (.inl ⟨i, h0, hi, s1b rfl h0, by simp [h0]⟩))
    | 2, _, _, _, _, _, s2 =>
      exact .inr (.inr (.inr ⟨i, hi, s2 rfl, rfl⟩))
  rcases ana with ⟨hL, hM⟩ | ⟨hL, hM⟩ | ⟨i, h0, hi, hL, hM⟩ | ⟨i, hi, hL, hM⟩
  · rw [hL, hM]
    exact ⟨s, st, rfl, Grows.refl st, hnil, hv, hl⟩
  · rw [hL, hM]
    exact ⟨_, st, rfl, Grows.refl st, rfl, rfl⟩
  · rw [hL, hM]
    obtain ⟨s', e1, v1, l1, n1, _⟩ := slice_view st s 0 i (by omega) (by omega) hcap
    simp only [Int.natCast_zero] at e1
    simp only [bind_apply, pure_apply, e1]
    refine ⟨s', st, rfl, Grows.refl st, by rw [n1, hnil], ?_, ?_⟩
    · rw [v1, hv, List.drop_zero, ← ints_take]; simp
    · rw [l1]; simp only [List.length_take]; omega
  · -- a normal exit of the scan at index i (≤ the length): the second phase, behind a test `i >= len(b)` or not
    rw [hL, hM]
    unfold phase2M
    simp only []
    -- str := string(b[i:])
    obtain ⟨t5, e5, v5, _⟩ := sliceFrom_view st s i (by omega)
    have hstr : Go.strOf t5 st = .ok (ints (bs.drop i)) st := by
      simp only [Go.strOf, v5, hv, ints_drop]
    -- res := make([]byte, 0, i); res = append(res, b[0:i]...)
    obtain ⟨r0, st1, e6, g1, w0, a0, v0, n0, l0⟩ := mkSlice_spec st i
    obtain ⟨t4, e7, v7, _⟩ := slice_view st1 s 0 i (by omega) (by omega) hcap
    simp only [Int.natCast_zero] at e7
    have v7' : view st1 t4 = ints (bs.take i) := by
      rw [v7, view_grows g1 s (by rw [hv]; simp [hl]), hv, List.drop_zero, ints_take]; simp
    have k1 : Keeps st.arrays.length st st1 := g1.keeps
    obtain ⟨r1, st2, e8, k2, v8, w1, hb1, _, n1⟩ :=
      appendList_spec st1 r0 (ints (bs.take i)) st.arrays.length w0 (by omega) n0
    have e8' : Go.appendSl r0 t4 st1 = .ok r1 st2 := by simp only [Go.appendSl, v7']; exact e8
    -- the loop, with whatever fuel the translator computed (it exceeds the length of the rest)
    have hloop : ∀ fuel2, (bs.drop i).length < fuel2 → ∃ res' st3,
        FactsProg.unquoteString_loop1 X fuel2 (ints (bs.drop i)) r1 st2 =
          .ok (ints (PV.unquoteLoop bs.length (bs.drop i) (bs.take i)).2, res') st3 ∧
        Keeps st.arrays.length st2 st3 ∧ SWFs st3 res' ∧ st.arrays.length ≤ res'.arr ∧
        view st3 res' = ints (PV.unquoteLoop bs.length (bs.drop i) (bs.take i)).1 ∧ res'.isNil = false :=
      fun fuel2 h2 => loop_tie X hX st.arrays.length fuel2 bs.length (bs.drop i) (bs.take i) r1 st2 h2
        (by simp only [List.length_drop]; omega) w1 hb1 n1 (by rw [v8, v0]; simp)
    have hle : (PV.unquoteLoop bs.length (bs.drop i) (bs.take i)).2.length ≤ bs.length := by
      obtain ⟨k, _, h2, _⟩ := PV.unquoteLoop_inv bs.length (bs.drop i) (bs.take i)
      rw [h2]; simp only [List.length_drop]; omega
    have hend0 : i = bs.length → (PV.unquoteLoop bs.length (bs.drop i) (bs.take i)) = (bs, []) := by
      intro h; subst h; simp [unquoteLoop_nil]
    by_cases hi' : i = bs.length
    · -- at the very end: either the test after the scan answers (b, len(b)), or the second phase copies b
      have hlr := hend0 hi'
      subst hi'
      rw [hlr] at hloop ⊢
      simp only [List.length_nil, hn0.symm, if_false, Nat.sub_zero]
      first
        | (go_decide_text [hlen]
           exact ⟨s, st, rfl, Grows.refl st, hnil, hv, hl⟩)
        | (simp only [bind_apply, Go.sliceTo, e5, hstr, e6, e7, e8']
           generalize hfu2 : (Int.toNat _ + 1 : Nat) = fuel2
           have hfuel2 : (bs.drop bs.length).length < fuel2 := by
             simp only [strLen_ints, Go.len] at hfu2; simp only [List.length_drop]; omega
           obtain ⟨res', st3, e9, k3, w3, hb3, v3, n3⟩ := hloop fuel2 hfuel2
           simp only [e9]
           have g3 : Grows st st3 := (k1.trans (k2.trans k3)).grows
           have hs0 : Go.strLen ([] : Str) = 0 := rfl
           simp only [ints_nil, hs0, hlen, ite_apply, pure_apply, List.length_nil]
           go_decide_text []
           refine ⟨res', st3, ?_, g3, n3, v3, ?_⟩
           · congr 2 <;> omega
           · have := w3.view_length; rw [v3] at this; simpa using this.symm)
    · have hlt : i < bs.length := by omega
      go_decide_text [hlen]
      simp only [bind_apply, Go.sliceTo, e5, hstr, e6, e7, e8']
      generalize hfu2 : (Int.toNat _ + 1 : Nat) = fuel2
      have hfuel2 : (bs.drop i).length < fuel2 := by
        simp only [strLen_ints, Go.len] at hfu2; simp only [List.length_drop] at hfu2 ⊢; omega
      obtain ⟨res', st3, e9, k3, w3, hb3, v3, n3⟩ := hloop fuel2 hfuel2
      simp only [e9]
      generalize PV.unquoteLoop bs.length (bs.drop i) (bs.take i) = lr at v3 hle ⊢
      obtain ⟨resM, strM⟩ := lr
      simp only [] at v3 hle ⊢
      have g3 : Grows st st3 := (k1.trans (k2.trans k3)).grows
      simp only [strLen_ints, hlen, ite_apply, pure_apply]
      by_cases c3 : strM.length = bs.length
      · rw [if_pos c3]
        go_decide_text []
        exact ⟨_, st3, rfl, g3, rfl, rfl⟩
      · rw [if_neg c3]
        go_decide_text []
        refine ⟨res', st3, ?_, g3, n3, v3, ?_⟩
        · congr 2; omega
        · have := w3.view_length; rw [v3] at this; simpa using this.symm

end PV.TxtTie
