import ParsleyVerif.Proofs.Reader
namespace PV.Text

theorem skipLoop_spec (f : File) (hoff : 1 ≤ f.offset) : ∀ (l : Bytes) (cur nl : Nat),
    skipLoop f l cur nl = (cur + wsRun l,
      if nl ≠ 0 then nl else match firstBreak l with | some i => f.pos (cur + i) | none => 0) := by
  intro l
  induction l with
  | nil => intro cur nl; simp [skipLoop, wsRun, firstBreak]
  | cons b r ih =>
    intro cur nl
    unfold skipLoop
    by_cases hw : isWs b = true
    · rw [if_pos hw, ih]
      have e1 : wsRun (b :: r) = 1 + wsRun r := by simp [wsRun, List.takeWhile_cons, hw]; omega
      rw [e1]
      congr 1
      · omega
      · simp only [firstBreak, hw, if_true]
        by_cases hnl : nl = 0
        · subst hnl
          by_cases hb : isBreak b = true
          · have hp : f.pos cur ≠ 0 := by unfold File.pos; omega
            simp [hb, hp]
          · simp only [hb, Bool.false_eq_true, false_and, if_false, ne_eq, not_true_eq_false]
            cases hfb : firstBreak r with
            | none => simp
            | some i => simp [File.pos]; omega
        · simp [hnl]
    · rw [if_neg hw]
      simp [wsRun, firstBreak, List.takeWhile_cons, hw]

theorem firstBreak_lt (l : Bytes) (i : Nat) (h : firstBreak l = some i) : i < wsRun l := by
  induction l generalizing i with
  | nil => simp [firstBreak] at h
  | cons b r ih =>
    unfold firstBreak at h
    by_cases hw : isWs b = true
    · have e1 : wsRun (b :: r) = 1 + wsRun r := by simp [wsRun, List.takeWhile_cons, hw]; omega
      rw [if_pos hw] at h
      by_cases hb : isBreak b = true
      · rw [if_pos hb] at h; cases h; omega
      · rw [if_neg hb] at h
        cases hfb : firstBreak r with
        | none => simp [hfb] at h
        | some j => simp [hfb] at h; have := ih j hfb; omega
    · rw [if_neg hw] at h; cases h

theorem wsRun_le (l : Bytes) : wsRun l ≤ l.length := by
  unfold wsRun
  induction l with
  | nil => simp
  | cons b r ih => simp only [List.takeWhile_cons]; split <;> simp <;> omega

/-- **SkipWhitespaces**: moves past exactly the run, and reports exactly the mode's verdict -/
theorem skipWhitespaces_spec (f : File) (pos : Nat) (m : WsMode) (h : InFile f pos) (hoff : 1 ≤ f.offset) :
    skipWhitespaces f pos m = (pos + wsRun (rest f pos), wsVerdict m pos (rest f pos)) := by
  obtain ⟨h1, h2⟩ := h
  unfold skipWhitespaces
  have hr : List.drop (pos - f.offset) f.data = rest f pos := rfl
  simp only [hr, skipLoop_spec f hoff]
  have hp : ∀ k, f.pos (pos - f.offset + k) = pos + k := by intro k; unfold File.pos; omega
  simp only [hp, ne_eq, not_true_eq_false, if_false]
  cases m with
  | none =>
    simp only [true_and, wsVerdict]
    by_cases hk : wsRun (rest f pos) > 0
    · rw [if_pos (by omega), if_pos hk]
    · rw [if_neg (by omega), if_neg hk]
      simp
  | forceNl =>
    simp only [wsVerdict, reduceCtorEq, false_and, if_false, true_and]
    cases hfb : firstBreak (rest f pos) with
    | none => simp
    | some i =>
      have : pos + i ≠ 0 := by omega
      simp; omega
  | spaces =>
    simp only [wsVerdict, reduceCtorEq, false_and, if_false, true_and]
    cases hfb : firstBreak (rest f pos) with
    | none => simp
    | some i =>
      have : pos + i > 0 := by omega
      simp [this]
  | spacesNl =>
    simp [wsVerdict]

end PV.Text
