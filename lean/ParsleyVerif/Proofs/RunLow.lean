/-
  "Nothing further is lost" (property C06, lower bound), by induction on fuel over all cases of `run`:

  every terminal failure logged during a call, and the call position itself, is COVERED afterwards: it lies
  at or before the returned error, or at or before the context error, or at or before the end of one of
  the returned results, or at or before a position at which a memoized parser was curtailed.

  The places of the parser core that drop an error value — Any / Choice (`nf`, a not-found error at their own
  position), `pickErr` / `altErr` / `SetError` (keep the further one), Name / Single (drop the result when
  there is an error), the early exit of the Sequence loop once End was reached — all keep coverage.
  Excluded by the local predicate `LocLow`: `SuppressError` (drops the error: `c06_exact_needs_no_suppress`),
  Any / Choice / SeqTry without parsers (fail without any error), a terminal or a Sequence whose token is
  "EOF" (the Sequence loop's early exit tests the token of the last node).
  Positional facts are taken from `run_pos` / `seqParse_pos` (Proofs/RunPos.lean) as black boxes.
-/
import ParsleyVerif.Proofs.RunErr
namespace PV
open PV.Text

/-! ### coverage -/

def GeE (x : Nat) (oe : Option Err) : Prop := ∃ e, oe = some e ∧ x ≤ e.pos
def GeR (x : Nat) (r : Res) : Prop := ∃ n ∈ r.alts, x ≤ n.rpos
def GeC (x : Nat) (log : List Ev) : Prop := ∃ i q, Ev.curtail i q ∈ log ∧ x ≤ q

/-- position `x` is covered by an error, a result, the context error or a curtailment -/
def Cov (x : Nat) (err : Option Err) (res : Res) (st : St) : Prop :=
  GeE x err ∨ GeR x res ∨ GeE x st.ctxErr ∨ GeC x st.log

theorem GeE_le {x y : Nat} {oe : Option Err} (h : x ≤ y) : GeE y oe → GeE x oe :=
  fun ⟨e, he, hy⟩ => ⟨e, he, Nat.le_trans h hy⟩
theorem GeR_le {x y : Nat} {r : Res} (h : x ≤ y) : GeR y r → GeR x r :=
  fun ⟨n, hn, hy⟩ => ⟨n, hn, Nat.le_trans h hy⟩
theorem GeC_le {x y : Nat} {log : List Ev} (h : x ≤ y) : GeC y log → GeC x log :=
  fun ⟨i, q, hq, hy⟩ => ⟨i, q, hq, Nat.le_trans h hy⟩
theorem Cov_le {x y : Nat} {err : Option Err} {res : Res} {st : St} (h : x ≤ y) :
    Cov y err res st → Cov x err res st := by
  rintro (h1 | h1 | h1 | h1)
  · exact .inl (GeE_le h h1)
  · exact .inr (.inl (GeR_le h h1))
  · exact .inr (.inr (.inl (GeE_le h h1)))
  · exact .inr (.inr (.inr (GeC_le h h1)))

theorem GeC_mono {x : Nat} {log log' : List Ev} (h : log <:+ log') : GeC x log → GeC x log' :=
  fun ⟨i, q, hq, hy⟩ => ⟨i, q, h.subset hq, hy⟩

theorem GeE_none (x : Nat) : ¬ GeE x none := fun ⟨_, h, _⟩ => by cases h
theorem GeR_nil (x : Nat) : ¬ GeR x .nil := fun ⟨_, h, _⟩ => by cases h
theorem GeR_of_isNil {x : Nat} {r : Res} (h : r.isNil = true) : ¬ GeR x r := by
  rw [(isNil_iff r).mp h]; exact GeR_nil x

/-- how the context state may evolve: the log grows, the context error only moves further -/
structure StLe (st st' : St) : Prop where
  log : st.log <:+ st'.log
  ctx : ∀ x, GeE x st.ctxErr → GeE x st'.ctxErr

theorem StLe.refl (st : St) : StLe st st := ⟨List.suffix_refl _, fun _ h => h⟩
theorem StLe.trans {a b c : St} (h1 : StLe a b) (h2 : StLe b c) : StLe a c :=
  ⟨h1.log.trans h2.log, fun x h => h2.ctx x (h1.ctx x h)⟩

theorem Cov_mono {x : Nat} {err : Option Err} {res : Res} {st st' : St} (h : StLe st st') :
    Cov x err res st → Cov x err res st' := by
  rintro (h1 | h1 | h1 | h1)
  · exact .inl h1
  · exact .inr (.inl h1)
  · exact .inr (.inr (.inl (h.ctx x h1)))
  · exact .inr (.inr (.inr (GeC_mono h.log h1)))

theorem GeE_pickErr_left {x : Nat} {cur new : Option Err} (h : GeE x cur) : GeE x (pickErr cur new) := by
  obtain ⟨c, hc, hx⟩ := h
  subst hc
  cases new with
  | none => exact ⟨c, rfl, hx⟩
  | some e =>
    simp only [pickErr]
    split
    · exact ⟨e, rfl, by omega⟩
    · exact ⟨c, rfl, hx⟩

theorem GeE_pickErr_right {x : Nat} {cur new : Option Err} (h : GeE x new) : GeE x (pickErr cur new) := by
  obtain ⟨e, he, hx⟩ := h
  subst he
  cases cur with
  | none => exact ⟨e, rfl, hx⟩
  | some c =>
    simp only [pickErr]
    split
    · exact ⟨e, rfl, hx⟩
    · exact ⟨c, rfl, by omega⟩

theorem GeE_setError_left {x : Nat} (st : St) (e : Option Err) (h : GeE x st.ctxErr) : GeE x (st.setError e).ctxErr := by
  obtain ⟨c, hc, hx⟩ := h
  cases e with
  | none => exact ⟨c, hc, hx⟩
  | some e =>
    simp only [St.setError, hc]
    split
    · exact ⟨e, rfl, by omega⟩
    · exact ⟨c, hc, hx⟩

theorem GeE_setError_right {x : Nat} (st : St) (e : Option Err) (h : GeE x e) : GeE x (st.setError e).ctxErr := by
  obtain ⟨e', he, hx⟩ := h
  subst he
  cases hc : st.ctxErr with
  | none => simp only [St.setError, hc]; exact ⟨e', rfl, hx⟩
  | some c =>
    simp only [St.setError, hc]
    split
    · exact ⟨e', rfl, hx⟩
    · exact ⟨c, hc, by omega⟩

theorem StLe_setError (st : St) (e : Option Err) : StLe st (st.setError e) :=
  ⟨by rw [(setError_ctxErr st e).2.2.2.1]; exact List.suffix_refl _, fun _ h => GeE_setError_left st e h⟩

theorem StLe_logEv (st : St) (cfg : Cfg) (ev : Ev) : StLe st (st.logEv cfg ev) := by
  obtain ⟨_, h2, _, _, h5⟩ := logEv_fields st cfg ev
  refine ⟨?_, fun x h => by rw [h2]; exact h⟩
  cases h5 with
  | inl h => rw [h]; exact List.suffix_refl _
  | inr h => rw [h]; exact List.suffix_cons _ _

/-! ### AppendNode keeps every alternative -/

theorem mem_nlAppend1_left (nl : List Node) (n x : Node) (h : x ∈ nl) : x ∈ nlAppend1 nl n := by
  unfold nlAppend1
  split
  · split
    · exact h
    · exact List.mem_append_left _ h
  · exact List.mem_append_left _ h

theorem mem_nlAppend1_self (nl : List Node) (n : Node) : n ∈ nlAppend1 nl n := by
  unfold nlAppend1
  split
  · rename_i p
    split
    · rename_i hany
      obtain ⟨y, hy, hp⟩ := List.any_eq_true.mp hany
      cases y <;> simp only [Node.isEmptyAt, beq_iff_eq, Bool.false_eq_true] at hp
      subst hp; exact hy
    · exact List.mem_append_right _ (List.mem_singleton.mpr rfl)
  · exact List.mem_append_right _ (List.mem_singleton.mpr rfl)

theorem mem_foldl_nlAppend1_left (l : List Node) : ∀ (nl : List Node) (x : Node), x ∈ nl → x ∈ l.foldl nlAppend1 nl := by
  induction l with
  | nil => intro nl x h; exact h
  | cons n l ih => intro nl x h; rw [List.foldl_cons]; exact ih _ _ (mem_nlAppend1_left nl n x h)

theorem mem_foldl_nlAppend1_right (l : List Node) : ∀ (nl : List Node) (x : Node), x ∈ l → x ∈ l.foldl nlAppend1 nl := by
  induction l with
  | nil => intro nl x h; cases h
  | cons n l ih =>
    intro nl x h
    rw [List.foldl_cons]
    cases h with
    | head => exact mem_foldl_nlAppend1_left l _ _ (mem_nlAppend1_self nl n)
    | tail _ hm => exact ih _ _ hm

theorem mem_nlAppend_left (nl : List Node) (b : Res) (x : Node) (h : x ∈ nl) : x ∈ nlAppend nl b := by
  cases b with
  | nil => exact h
  | one n => exact mem_nlAppend1_left nl n x h
  | list l => exact mem_foldl_nlAppend1_left l nl x h

theorem mem_nlAppend_right (nl : List Node) (b : Res) (x : Node) (h : x ∈ b.alts) : x ∈ nlAppend nl b := by
  cases b with
  | nil => cases h
  | one n =>
    simp only [Res.alts, List.mem_singleton] at h
    subst h; exact mem_nlAppend1_self nl x
  | list l => exact mem_foldl_nlAppend1_right l nl x h

theorem mem_appendNode_left (a b : Res) (x : Node) (h : x ∈ a.alts) : x ∈ (appendNode a b).alts := by
  cases a with
  | nil => cases h
  | one n =>
    cases b with
    | nil => exact h
    | one m => exact mem_nlAppend_left [n] (.one m) x h
    | list l => exact mem_nlAppend_left [n] (.list l) x h
  | list la =>
    cases b with
    | nil => exact h
    | one m => exact mem_nlAppend_left la (.one m) x h
    | list l => exact mem_nlAppend_left la (.list l) x h

theorem mem_appendNode_right (a b : Res) (x : Node) (h : x ∈ b.alts) : x ∈ (appendNode a b).alts := by
  cases a with
  | nil => simpa [appendNode] using h
  | one n =>
    cases b with
    | nil => cases h
    | one m => exact mem_nlAppend_right [n] (.one m) x h
    | list l => exact mem_nlAppend_right [n] (.list l) x h
  | list la =>
    cases b with
    | nil => cases h
    | one m => exact mem_nlAppend_right la (.one m) x h
    | list l => exact mem_nlAppend_right la (.list l) x h

theorem GeR_appendNode_left {x : Nat} {a : Res} (b : Res) (h : GeR x a) : GeR x (appendNode a b) :=
  let ⟨n, hn, hx⟩ := h; ⟨n, mem_appendNode_left a b n hn, hx⟩
theorem GeR_appendNode_right {x : Nat} (a : Res) {b : Res} (h : GeR x b) : GeR x (appendNode a b) :=
  let ⟨n, hn, hx⟩ := h; ⟨n, mem_appendNode_right a b n hn, hx⟩

theorem appendNode_isNil (a b : Res) : (appendNode a b).isNil = (a.isNil && b.isNil) := by
  cases a <;> cases b <;> rfl

/-! ### nodes whose token is "EOF" end at the end of the file -/

mutual
def Node.EofOK (hi : Nat) : Node → Prop
  | .term t _ _ r => t = eofTok → hi ≤ r
  | .empty _ => True
  | .eof p => hi ≤ p
  | .nt t cs _ r _ => (t = eofTok → hi ≤ r) ∧ EofOKList hi cs
def EofOKList (hi : Nat) : List Node → Prop
  | [] => True
  | c :: cs => c.EofOK hi ∧ EofOKList hi cs
end

theorem Node.EofOK_rpos {hi : Nat} {n : Node} (h : n.EofOK hi) (ht : n.token = eofTok) : hi ≤ n.rpos := by
  cases n with
  | term t v p r => simp only [Node.EofOK] at h; exact h ht
  | empty p => simp [Node.token, eofTok] at ht
  | eof p => simpa [Node.EofOK, Node.rpos] using h
  | nt t cs p r i => simp only [Node.EofOK] at h; exact h.1 ht

theorem EofOKList_mem {hi : Nat} : ∀ {cs : List Node}, EofOKList hi cs → ∀ c ∈ cs, c.EofOK hi
  | [], _, c, hc => by cases hc
  | c' :: cs, h, c, hc => by
    simp only [EofOKList] at h
    cases hc with
    | head => exact h.1
    | tail _ hm => exact EofOKList_mem h.2 c hm

theorem EofOKList_append {hi : Nat} {n : Node} (hn : n.EofOK hi) : ∀ {cs : List Node}, EofOKList hi cs → EofOKList hi (cs ++ [n])
  | [], _ => by simp only [List.nil_append, EofOKList]; exact ⟨hn, trivial⟩
  | c :: cs, h => by
    simp only [EofOKList] at h
    simp only [List.cons_append, EofOKList]
    exact ⟨h.1, EofOKList_append hn h.2⟩

theorem handleResult_eofOK {hi : Nat} (sh : SeqShape) (p : Nat) (nodes : List Node) (ht : sh.token ≠ eofTok)
    (h : EofOKList hi nodes) : (handleResult sh p nodes).EofOK hi := by
  cases nodes with
  | nil => simp only [handleResult, Node.EofOK, EofOKList, and_true]; exact fun h => absurd h ht
  | cons n rest =>
    cases rest with
    | nil =>
      simp only [EofOKList] at h
      by_cases hs : sh.single = true
      · simp only [handleResult, hs, ↓reduceIte]; exact h.1
      · simp only [handleResult, hs, Bool.false_eq_true, ↓reduceIte, Node.EofOK, EofOKList, and_true]
        exact ⟨fun h' => absurd h' ht, h.1⟩
    | cons m rest =>
      simp only [handleResult, Node.EofOK]
      exact ⟨fun h' => absurd h' ht, h⟩

/-- the node a Sequence emits ends where its last element ended -/
theorem handleResult_rpos_c06 (hi : Nat) (sh : SeqShape) (pos0 p : Nat) (nodes : List Node) (h : Chain hi nodes pos0 p) :
    (handleResult sh p nodes).rpos = p := by
  cases nodes with
  | nil => rfl
  | cons n rest =>
    have hl := Chain_last hi rest n pos0 p h
    cases rest with
    | nil =>
      simp only [List.getLast?_nil, Option.getD_none] at hl
      by_cases hs : sh.single = true
      · simp only [handleResult, hs, ↓reduceIte]; exact hl
      · simp only [handleResult, hs, Bool.false_eq_true, ↓reduceIte, Node.rpos]; exact hl
    | cons m rest => simp only [handleResult, Node.rpos]; exact hl

/-- the last node of a chain ends where the chain ends -/
theorem Chain_getLast (hi : Nat) : ∀ (nodes : List Node) (p r : Nat) (l : Node), Chain hi nodes p r →
    nodes.getLast? = some l → l.rpos = r
  | [], _, _, _, _, hl => by cases hl
  | n :: rest, p, r, l, h, hl => by
    have := Chain_last hi rest n p r h
    rw [List.getLast?_cons] at hl
    simp only [Option.some.injEq] at hl
    rw [← hl]; exact this

/-! ### the local side conditions and the invariant -/

/-- what the lower bound asks of each sub-parser: no SuppressError; Any / Choice / SeqTry have a parser; no
    terminal and no Sequence produces a node with token "EOF" that ends before the end of the file (for the
    built-in terminals over single bytes: their token is one byte, never "EOF") -/
def LocLow (cfg : Cfg) : G → Prop
  | .term t => ∀ pos n, t.parse cfg.params cfg.file pos = .node n → n.EofOK cfg.hi
  | .any gs => gs ≠ []
  | .choice gs => gs ≠ []
  | .seq k gs o => (k = .seqTry → gs ≠ []) ∧ o.token ≠ some eofTok
  | .many _ _ o => o.token ≠ some eofTok
  | .sepBy _ _ _ o => o.token ≠ some eofTok
  | .suppress _ => False
  | _ => True

theorem shape_low {cfg : Cfg} {g : G} {sh : SeqShape} (hs : g.shape = some sh) (hl : LocLow cfg g) :
    sh.token ≠ eofTok ∧
    ∀ d, sh.lookup d = none → (∀ i, i < d → sh.lookup i ≠ none) → sh.lenCheck d = true := by
  have htok : ∀ o : Option Bytes, ∀ dflt : Bytes, dflt ≠ eofTok → o ≠ some eofTok → o.getD dflt ≠ eofTok := by
    intro o dflt hd ho
    cases o with
    | none => exact hd
    | some t => intro h; exact ho (by simpa using h)
  cases g with
  | seq k gs o =>
    simp only [G.shape, Option.some.injEq] at hs
    subst hs
    simp only [LocLow] at hl
    refine ⟨htok _ _ (by decide) hl.2, ?_⟩
    intro d hd hpre
    simp only at hd hpre ⊢
    have h1 : gs.length ≤ d := by simpa using hd
    have h2 : d ≤ gs.length := by
      by_cases hc : d ≤ gs.length
      · exact hc
      · exfalso
        exact hpre gs.length (by omega) (by simp)
    have hd' : d = gs.length := by omega
    subst hd'
    cases k with
    | seqOf => simp
    | seqTry =>
      have : gs ≠ [] := hl.1 rfl
      have : 0 < gs.length := List.length_pos_iff.mpr this
      simp [this]
    | seqFirstOrAll => simp
  | many g1 ae o =>
    simp only [G.shape, Option.some.injEq] at hs
    subst hs
    simp only [LocLow] at hl
    refine ⟨htok _ _ (by decide) hl, ?_⟩
    intro d hd; simp at hd
  | sepBy v s ae o =>
    simp only [G.shape, Option.some.injEq] at hs
    subst hs
    simp only [LocLow] at hl
    refine ⟨htok _ _ (by decide) hl, ?_⟩
    intro d hd
    simp only at hd
    split at hd <;> cases hd
  | _ => simp [G.shape] at hs

/-- facts about one outcome (returned or cached): with an error, every result ends at the call position
    (only Optional returns both, and then the result is its EMPTY node); a non-nil result has an
    alternative; "EOF" nodes end at the end of the file -/
structure OutOK (cfg : Cfg) (pos : Nat) (res : Res) (err : Option Err) : Prop where
  errRes : ∀ e, err = some e → ∀ n ∈ res.alts, n.rpos ≤ pos
  nonempty : res.isNil = false → res.alts ≠ []
  eof : ∀ n ∈ res.alts, n.EofOK cfg.hi

def SLow (cfg : Cfg) (st : St) : Prop :=
  ∀ c ∈ st.cache, Cov c.pos c.err c.res st ∧ OutOK cfg c.pos c.res c.err

theorem SLow_of_eq {cfg : Cfg} {st st' : St} (h : SLow cfg st) (hc : st'.cache = st.cache) (hle : StLe st st') :
    SLow cfg st' := by
  intro c hcm
  rw [hc] at hcm
  exact ⟨Cov_mono hle (h c hcm).1, (h c hcm).2⟩

/-- the terminal failures logged between `st` and `st'` are covered by `err` / `res` / the state `st'` -/
def NewCov (cfg : Cfg) (st st' : St) (err : Option Err) (res : Res) : Prop :=
  ∃ d, st'.log = d ++ st.log ∧ ∀ x k, Ev.termFail x k ∈ d → Cov x err res st' ∧ x ≤ cfg.hi

structure PostLow (cfg : Cfg) (pos : Nat) (st : St) (o : Out) (st' : St) : Prop where
  le : StLe st st'
  newTF : NewCov cfg st st' o.err o.res
  prog : Cov pos o.err o.res st'
  slow : SLow cfg st'
  out : OutOK cfg pos o.res o.err

def RunLowOK (cfg : Cfg) (r : RunFn) : Prop :=
  ∀ g ctx pos st o st', g.Core (TermGood cfg) → g.All (LocLow cfg) → Pre cfg ctx pos st → SLow cfg st →
    r g ctx pos st = some (o, st') → PostLow cfg pos st o st'

theorem NewCov_refl (cfg : Cfg) (st : St) (err : Option Err) (res : Res) : NewCov cfg st st err res :=
  ⟨[], rfl, by intro x k h; cases h⟩

/-- composition: first `st → st1` covered by something that is then covered by the final values -/
theorem NewCov_trans {cfg : Cfg} {st st1 st2 : St} {e1 e2 : Option Err} {r1 r2 : Res}
    (h1 : NewCov cfg st st1 e1 r1) (h2 : NewCov cfg st1 st2 e2 r2)
    (hm : ∀ x, x ≤ cfg.hi → Cov x e1 r1 st1 → Cov x e2 r2 st2) : NewCov cfg st st2 e2 r2 := by
  obtain ⟨d1, hd1, hc1⟩ := h1
  obtain ⟨d2, hd2, hc2⟩ := h2
  refine ⟨d2 ++ d1, by rw [hd2, hd1, List.append_assoc], ?_⟩
  intro x k hx
  cases List.mem_append.mp hx with
  | inl h => exact hc2 x k h
  | inr h => exact ⟨hm x (hc1 x k h).2 (hc1 x k h).1, (hc1 x k h).2⟩

theorem NewCov_imp {cfg : Cfg} {st st1 : St} {e1 e2 : Option Err} {r1 r2 : Res}
    (h1 : NewCov cfg st st1 e1 r1) (hm : ∀ x, x ≤ cfg.hi → Cov x e1 r1 st1 → Cov x e2 r2 st1) :
    NewCov cfg st st1 e2 r2 := by
  obtain ⟨d1, hd1, hc1⟩ := h1
  exact ⟨d1, hd1, fun x k hx => ⟨hm x (hc1 x k hx).2 (hc1 x k hx).1, (hc1 x k hx).2⟩⟩

/-! ### the Sequence family -/

def SsLow (cfg : Cfg) (ss : SeqSt) : Prop :=
  (∀ n ∈ ss.result.alts, n.EofOK cfg.hi) ∧ (ss.result.isNil = false → ss.result.alts ≠ [])

structure ELow (cfg : Cfg) (q : Nat) (ss : SeqSt) (st : St) (ss' : SeqSt) (st' : St) (b : Bool) : Prop where
  le : StLe st st'
  newTF : NewCov cfg st st' ss'.err ss'.result
  prog : Cov q ss'.err ss'.result st'
  mono : ∀ x, Cov x ss.err ss.result st → Cov x ss'.err ss'.result st'
  slow : SLow cfg st'
  ssl : SsLow cfg ss'
  exit : b = true → ∃ n ∈ ss'.result.alts, cfg.hi ≤ n.rpos

/-- the same for the loop over the alternatives `l` of one element (`frOf n` = the frame entered with `n`) -/
structure AltsLow (cfg : Cfg) (frOf : Node → Frame) (l : List Node) (ss : SeqSt) (st : St) (ss' : SeqSt) (st' : St)
    (b : Bool) : Prop where
  le : StLe st st'
  newTF : NewCov cfg st st' ss'.err ss'.result
  progAll : b = false → ∀ n ∈ l, Cov (frOf n).pos ss'.err ss'.result st'
  mono : ∀ x, Cov x ss.err ss.result st → Cov x ss'.err ss'.result st'
  slow : SLow cfg st'
  ssl : SsLow cfg ss'
  exit : b = true → ∃ n ∈ ss'.result.alts, cfg.hi ≤ n.rpos

theorem SeqJ_stable {cfg : Cfg} {pos0 : Nat} {fr : Frame} {ss ss' : SeqSt} {st st' : St}
    (hJ : SeqJ cfg pos0 fr ss st) (hE : SeqE cfg pos0 ss st ss' st') : SeqJ cfg pos0 fr ss' st' := by
  obtain ⟨j1, j2, j3, j4, j5, j6⟩ := hJ
  exact ⟨j1, j2, j3, hE.1 j4, by rw [hE.2.2.1]; exact j5, hE.2.1 j6⟩

theorem SeqE_trans {cfg : Cfg} {pos0 : Nat} {a c e : SeqSt} {b d f : St}
    (h1 : SeqE cfg pos0 a b c d) (h2 : SeqE cfg pos0 c d e f) : SeqE cfg pos0 a b e f :=
  ⟨fun h => h2.1 (h1.1 h), fun h => h2.2.1 (h1.2.1 h), by rw [h2.2.2.1, h1.2.2.1],
    by have := h1.2.2.2; have := h2.2.2.2; omega⟩

theorem seqAlts_low (cfg : Cfg) (pos0 : Nat) (k : Node → SeqSt → St → Option (Bool × SeqSt × St))
    (frOf : Node → Frame) :
    ∀ (l : List Node),
      (∀ n ∈ l, ∀ ss st b ss' st', SeqJ cfg pos0 (frOf n) ss st → SLow cfg st → SsLow cfg ss →
        k n ss st = some (b, ss', st') → ELow cfg (frOf n).pos ss st ss' st' b ∧ SeqE cfg pos0 ss st ss' st') →
      ∀ ss st b ss' st', (∀ n ∈ l, SeqJ cfg pos0 (frOf n) ss st) → SLow cfg st → SsLow cfg ss →
        seqAlts k l ss st = some (b, ss', st') →
        AltsLow cfg frOf l ss st ss' st' b ∧ SeqE cfg pos0 ss st ss' st' := by
  intro l
  induction l with
  | nil =>
    intro _ ss st b ss' st' _ hsl hss h
    simp only [seqAlts] at h
    cases h
    exact ⟨⟨StLe.refl _, NewCov_refl _ _ _ _, (by intro _ n hn; cases hn), fun _ h => h, hsl, hss,
      (by intro hb; cases hb)⟩, ⟨id, id, rfl, Nat.le_refl _⟩⟩
  | cons n rest ih =>
    intro hk ss st b ss' st' hJ hsl hss h
    simp only [seqAlts] at h
    split at h
    · cases h
    · rename_i ss1 st1 hk1
      cases h
      obtain ⟨e1, se1⟩ := hk n (List.mem_cons_self ..) _ _ _ _ _ (hJ n (List.mem_cons_self ..)) hsl hss hk1
      exact ⟨⟨e1.le, e1.newTF, (by intro hb; cases hb), e1.mono, e1.slow, e1.ssl, e1.exit⟩, se1⟩
    · rename_i ss1 st1 hk1
      obtain ⟨e1, se1⟩ := hk n (List.mem_cons_self ..) _ _ _ _ _ (hJ n (List.mem_cons_self ..)) hsl hss hk1
      obtain ⟨e2, se2⟩ := ih (fun n' hn' => hk n' (List.mem_cons_of_mem _ hn')) ss1 st1 b ss' st'
        (fun n' hn' => SeqJ_stable (hJ n' (List.mem_cons_of_mem _ hn')) se1) e1.slow e1.ssl h
      refine ⟨⟨e1.le.trans e2.le, NewCov_trans e1.newTF e2.newTF (fun x _ hx => e2.mono x hx), ?_,
        fun x hx => e2.mono x (e1.mono x hx), e2.slow, e2.ssl, e2.exit⟩, SeqE_trans se1 se2⟩
      intro hb n' hn'
      cases hn' with
      | head => exact e2.mono _ e1.prog
      | tail _ hm => exact e2.progAll hb n' hm

theorem seqAfter_result (merge : Bool) (ss : SeqSt) (o : Out) : (seqAfter merge ss o).result = ss.result := by
  unfold seqAfter; split <;> rfl

theorem StLe_regCall (st : St) : StLe st st.regCall := ⟨List.suffix_refl _, fun _ h => h⟩

/-- the emission of a Sequence at frame `fr` -/
theorem emit_low {cfg : Cfg} {sh : SeqShape} {pos0 : Nat} (fr : Frame) (ss0 ss1 : SeqSt) (st0 st1 : St) (b : Bool)
    (ht : sh.token ≠ eofTok) (hchain : Chain cfg.hi fr.nodes pos0 fr.pos) (heof : EofOKList cfg.hi fr.nodes)
    (hd : fr.depth = fr.nodes.length)
    (hle : StLe st0 st1) (hnew : NewCov cfg st0 st1 ss1.err ss1.result)
    (hmono : ∀ x, Cov x ss0.err ss0.result st0 → Cov x ss1.err ss1.result st1)
    (hsl : SLow cfg st1) (hss : SsLow cfg ss1)
    (hb : b = true → ∃ l, fr.nodes.getLast? = some l ∧ l.token = eofTok) :
    ELow cfg fr.pos ss0 st0 (seqEmit sh fr ss1) st1 b := by
  have hn : (if fr.depth > 0 then fr.nodes else []) = fr.nodes := by
    split
    · rfl
    · have : fr.nodes.length = 0 := by omega
      exact (List.length_eq_zero_iff.mp this).symm
  have herr : (seqEmit sh fr ss1).err = ss1.err := rfl
  have hres : (seqEmit sh fr ss1).result = appendNode ss1.result (.one (handleResult sh fr.pos fr.nodes)) := by
    simp only [seqEmit, hn]
  have hrp := handleResult_rpos_c06 cfg.hi sh pos0 fr.pos fr.nodes hchain
  have hmem : handleResult sh fr.pos fr.nodes ∈ (seqEmit sh fr ss1).result.alts := by
    rw [hres]; exact mem_appendNode_right _ _ _ (by simp [Res.alts])
  have hup : ∀ x, Cov x ss1.err ss1.result st1 → Cov x (seqEmit sh fr ss1).err (seqEmit sh fr ss1).result st1 := by
    intro x hx
    rw [herr, hres]
    rcases hx with h1 | h1 | h1 | h1
    · exact .inl h1
    · exact .inr (.inl (GeR_appendNode_left _ h1))
    · exact .inr (.inr (.inl h1))
    · exact .inr (.inr (.inr h1))
  refine ⟨hle, NewCov_imp hnew (fun x _ hx => hup x hx), ?_, fun x hx => hup x (hmono x hx), hsl, ⟨?_, ?_⟩, ?_⟩
  · exact .inr (.inl ⟨_, hmem, by rw [hrp]; exact Nat.le_refl _⟩)
  · intro n hnm
    rw [hres] at hnm
    cases mem_appendNode _ _ _ hnm with
    | inl h1 => exact hss.1 n h1
    | inr h1 =>
      simp only [Res.alts, List.mem_singleton] at h1
      subst h1
      exact handleResult_eofOK sh fr.pos fr.nodes ht heof
  · intro _ hc
    rw [hc] at hmem; cases hmem
  · intro hbt
    obtain ⟨l, hl, hlt⟩ := hb hbt
    refine ⟨_, hmem, ?_⟩
    rw [hrp]
    have hlm : l ∈ fr.nodes := List.mem_of_getLast? hl
    have := Node.EofOK_rpos (EofOKList_mem heof l hlm) hlt
    rw [Chain_getLast cfg.hi fr.nodes pos0 fr.pos l hchain hl] at this
    exact this

theorem seqParse_low (cfg : Cfg) (r : RunFn) (hpos : RunPosOK cfg r) (hr : RunLowOK cfg r) (g : G) (sh : SeqShape)
    (hg : g.Core (TermGood cfg)) (hgl : g.All (LocLow cfg)) (hs : g.shape = some sh) (pos0 : Nat) :
    ∀ (fuel : Nat) (fr : Frame) ss st b ss' st', SeqJ cfg pos0 fr ss st → SLow cfg st → SsLow cfg ss →
      EofOKList cfg.hi fr.nodes → (∀ i, i < fr.depth → sh.lookup i ≠ none) → fr.depth = fr.nodes.length →
      seqParse r sh fuel fr.depth fr.nodes fr.ctx fr.pos fr.merge ss st = some (b, ss', st') →
      ELow cfg fr.pos ss st ss' st' b := by
  have hshape := shape_low hs (G.All_self hgl)
  intro fuel
  induction fuel with
  | zero => intro fr ss st b ss' st' _ _ _ _ _ _ h; simp [seqParse] at h
  | succ fuel ih =>
    intro fr ss st b ss' st' hJ hsl hss heof hpre hd h
    obtain ⟨j1, j2, j3, j4, j5, j6⟩ := hJ
    simp only [seqParse] at h
    cases hl : sh.lookup fr.depth with
    | none =>
      simp only [hl] at h
      have hlc := hshape.2 fr.depth hl hpre
      simp only [hlc, ↓reduceIte] at h
      have hafter_err : (seqAfter fr.merge ss ⟨.nil, [], none⟩).err = ss.err := by
        rw [seqAfter_err]; simp [pickErr]
      have hE : ∀ b', (b' = true → ∃ l, fr.nodes.getLast? = some l ∧ l.token = eofTok) →
          ELow cfg fr.pos ss st (seqEmit sh fr (seqAfter fr.merge ss ⟨.nil, [], none⟩)) st b' := by
        intro b' hb'
        refine emit_low fr ss _ st st b' hshape.1 j3 heof hd (StLe.refl _) (NewCov_refl _ _ _ _) ?_ hsl ?_ hb'
        · intro x hx; rw [hafter_err, seqAfter_result]; exact hx
        · rw [SsLow, seqAfter_result]; exact hss
      by_cases hdp : fr.depth > 0
      · simp only [hdp, ↓reduceIte] at h
        cases hgl' : fr.nodes.getLast? with
        | none =>
          simp only [hgl'] at h
          cases h
          have := hE false (by intro hb'; cases hb')
          simpa [seqEmit, seqAfter, hdp] using this
        | some l =>
          simp only [hgl'] at h
          cases h
          have := hE (l.token == eofTok) (by intro hb'; exact ⟨l, hgl', by simpa using hb'⟩)
          simpa [seqEmit, seqAfter, hdp] using this
      · simp only [hdp, ↓reduceIte] at h
        cases h
        have := hE false (by intro hb'; cases hb')
        simpa [seqEmit, seqAfter, hdp] using this
    | some g' =>
      simp only [hl] at h
      split at h
      · cases h
      · rename_i o st1 hrun
        have hcore := shape_lookup_core hg hs fr.depth g' hl
        have hloc := shape_lookup_all hgl hs fr.depth g' hl
        have hpre' : Pre cfg fr.ctx fr.pos st.regCall := ⟨j1, StOK_regCall j4, j5⟩
        have hpost := hpos g' fr.ctx fr.pos st.regCall o st1 hcore hpre' hrun
        have hlow := hr g' fr.ctx fr.pos st.regCall o st1 hcore hloc hpre'
          (SLow_of_eq hsl rfl (StLe_regCall st)) hrun
        have hle1 : StLe st st1 := (StLe_regCall st).trans hlow.le
        have hact : st1.active = st.active := hpost.active
        -- the sequence object after the call
        have hss_eq : (if fr.merge = true then
              { cp := cpUnion ss.cp o.cp, result := ss.result, err := pickErr ss.err o.err : SeqSt }
            else { cp := ss.cp, result := ss.result, err := pickErr ss.err o.err }) = seqAfter fr.merge ss o := by
          unfold seqAfter
          by_cases hm : fr.merge = true <;> simp [hm]
        have herr1 : (seqAfter fr.merge ss o).err = pickErr ss.err o.err := seqAfter_err _ _ _
        have hres1 : (seqAfter fr.merge ss o).result = ss.result := seqAfter_result _ _ _
        have hmono1 : ∀ x, Cov x ss.err ss.result st → Cov x (seqAfter fr.merge ss o).err (seqAfter fr.merge ss o).result st1 := by
          intro x hx
          rw [herr1, hres1]
          rcases Cov_mono hle1 hx with h1 | h1 | h1 | h1
          · exact .inl (GeE_pickErr_left h1)
          · exact .inr (.inl h1)
          · exact .inr (.inr (.inl h1))
          · exact .inr (.inr (.inr h1))
        -- what covered a position after the call is covered by the sequence object, or by a returned node
        have hcov1 : ∀ x, Cov x o.err o.res st1 →
            Cov x (seqAfter fr.merge ss o).err (seqAfter fr.merge ss o).result st1 ∨ GeR x o.res := by
          intro x hx
          rw [herr1, hres1]
          rcases hx with h1 | h1 | h1 | h1
          · exact .inl (.inl (GeE_pickErr_right h1))
          · exact .inr h1
          · exact .inl (.inr (.inr (.inl h1)))
          · exact .inl (.inr (.inr (.inr h1)))
        have hss1 : SsLow cfg (seqAfter fr.merge ss o) := by rw [SsLow, hres1]; exact hss
        have hnew0 : NewCov cfg st st1 o.err o.res := hlow.newTF
        split at h
        · -- the element returned nil
          rename_i hnil
          have hnoR : ∀ x, ¬ GeR x o.res := by intro x; rw [hnil]; exact GeR_nil x
          have hnew1 : NewCov cfg st st1 (seqAfter fr.merge ss o).err (seqAfter fr.merge ss o).result :=
            NewCov_imp hnew0 (fun x _ hx => (hcov1 x hx).resolve_right (hnoR x))
          by_cases hlc : sh.lenCheck fr.depth = true
          · simp only [hlc, ↓reduceIte] at h
            have hE : ∀ b', (b' = true → ∃ l, fr.nodes.getLast? = some l ∧ l.token = eofTok) →
                ELow cfg fr.pos ss st (seqEmit sh fr (seqAfter fr.merge ss o)) st1 b' := fun b' hb' =>
              emit_low fr ss _ st st1 b' hshape.1 j3 heof hd hle1 hnew1 hmono1 hlow.slow hss1 hb'
            by_cases hdp : fr.depth > 0
            · simp only [hdp, ↓reduceIte] at h
              cases hgl' : fr.nodes.getLast? with
              | none =>
                simp only [hgl'] at h
                cases h
                have := hE false (by intro hb'; cases hb')
                rw [← hss_eq] at this
                simpa [seqEmit, hdp] using this
              | some l =>
                simp only [hgl'] at h
                cases h
                have := hE (l.token == eofTok) (by intro hb'; exact ⟨l, hgl', by simpa using hb'⟩)
                rw [← hss_eq] at this
                simpa [seqEmit, hdp] using this
            · simp only [hdp, ↓reduceIte] at h
              cases h
              have := hE false (by intro hb'; cases hb')
              rw [← hss_eq] at this
              simpa [seqEmit, hdp] using this
          · have hlc' : sh.lenCheck fr.depth = false := by simpa using hlc
            simp only [hlc', Bool.false_eq_true, ↓reduceIte] at h
            cases h
            rw [hss_eq]
            exact ⟨hle1, hnew1, (hcov1 _ hlow.prog).resolve_right (hnoR _), hmono1, hlow.slow, hss1,
              (by intro hb'; cases hb')⟩
        · -- alternatives
          rename_i hnn
          rw [hss_eq] at h
          have hnotnil : o.res.isNil = false := by
            cases hres : o.res with
            | nil => exact absurd hres hnn
            | one n => rfl
            | list l => rfl
          have hJnext : ∀ n ∈ o.res.alts, SeqJ cfg pos0 (fr.next n) (seqAfter fr.merge ss o) st1 := by
            intro n hn
            obtain ⟨hnp, hnw⟩ := hpost.nodes n hn
            have hb := Node.WF_bounds cfg.hi n hnw
            refine ⟨?_, ?_, ?_, hpost.stOK, ?_, SeqStOK_after _ j6 j2 hpost.err⟩
            · simp only [Frame.next]
              exact ⟨by have := j1.1; omega, by unfold Cfg.hi at hb; omega⟩
            · simp only [Frame.next]; omega
            · simp only [Frame.next]
              exact Chain_append cfg.hi n fr.nodes pos0 fr.pos j3 hnp hnw
            · simp only [Frame.next]
              rw [hact]
              exact ActOK_next j5 n.rpos (by omega)
          obtain ⟨ea, _⟩ := seqAlts_low cfg pos0 _ fr.next o.res.alts
            (by
              intro n hn ss2 st2 b2 ss3 st3 hJ2 hsl2 hss2 hk
              have hk' : seqParse r sh fuel (fr.next n).depth (fr.next n).nodes (fr.next n).ctx (fr.next n).pos
                  (fr.next n).merge ss2 st2 = some (b2, ss3, st3) := by simpa [Frame.next] using hk
              refine ⟨ih (fr.next n) ss2 st2 b2 ss3 st3 hJ2 hsl2 hss2 ?_ ?_ (by simp [Frame.next, hd]) hk', ?_⟩
              · simp only [Frame.next]
                exact EofOKList_append (hlow.out.eof n hn) heof
              · intro i hi
                simp only [Frame.next] at hi
                by_cases hc : i < fr.depth
                · exact hpre i hc
                · have : i = fr.depth := by omega
                  rw [this, hl]; exact fun hx => by cases hx
              · exact seqParse_pos cfg r hpos g sh hg hs pos0 fuel (fr.next n) ss2 st2 b2 ss3 st3 hJ2
                  (by simp [Frame.next, hd]) hk')
            _ _ b ss' st' hJnext hlow.slow hss1 h
          -- a node of the element covers: through the frame it opens, or through the early exit at End
          have hnode : ∀ x, x ≤ cfg.hi → GeR x o.res → Cov x ss'.err ss'.result st' := by
            intro x hxhi ⟨n, hn, hxn⟩
            cases hb : b with
            | false =>
              have := ea.progAll hb n hn
              simp only [Frame.next] at this
              exact Cov_le hxn this
            | true =>
              obtain ⟨m, hm, hmhi⟩ := ea.exit hb
              exact .inr (.inl ⟨m, hm, by omega⟩)
          have hfin : ∀ x, x ≤ cfg.hi → Cov x o.err o.res st1 → Cov x ss'.err ss'.result st' := by
            intro x hxhi hx
            cases hcov1 x hx with
            | inl h1 => exact ea.mono x h1
            | inr h1 => exact hnode x hxhi h1
          refine ⟨hle1.trans ea.le, NewCov_trans hnew0 ea.newTF hfin, ?_, fun x hx => ea.mono x (hmono1 x hx),
            ea.slow, ea.ssl, ea.exit⟩
          exact hfin fr.pos j1.2 hlow.prog

/-! ### the end of a Sequence -/

theorem NewCov_imp' {cfg : Cfg} {st st1 st2 : St} {e1 e2 : Option Err} {r1 r2 : Res}
    (h1 : NewCov cfg st st1 e1 r1) (hlog : st2.log = st1.log)
    (hm : ∀ x, x ≤ cfg.hi → Cov x e1 r1 st1 → Cov x e2 r2 st2) : NewCov cfg st st2 e2 r2 := by
  obtain ⟨d1, hd1, hc1⟩ := h1
  exact ⟨d1, by rw [hlog, hd1], fun x k hx => ⟨hm x (hc1 x k hx).2 (hc1 x k hx).1, (hc1 x k hx).2⟩⟩

/-- states whose log differs by events that are not terminal failures -/
theorem NewCov_of_prefix {cfg : Cfg} {st st1 st2 : St} {e : Option Err} {r : Res} (h : NewCov cfg st1 st2 e r)
    (hl : st1.log = st.log ∨ ∃ ev, (∀ x k, ev ≠ Ev.termFail x k) ∧ st1.log = ev :: st.log) : NewCov cfg st st2 e r := by
  obtain ⟨d, hd, hc⟩ := h
  cases hl with
  | inl hl => exact ⟨d, by rw [hd, hl], hc⟩
  | inr hl =>
    obtain ⟨ev, hev, hl⟩ := hl
    refine ⟨d ++ [ev], by rw [hd, hl]; simp, ?_⟩
    intro x k hx
    cases List.mem_append.mp hx with
    | inl h1 => exact hc x k h1
    | inr h1 =>
      simp only [List.mem_singleton] at h1
      exact absurd h1.symm (hev x k)

theorem NewCov_logEv (cfg : Cfg) (st : St) (ev : Ev) (hev : ∀ x k, ev ≠ Ev.termFail x k) (e : Option Err) (r : Res) :
    NewCov cfg st (st.logEv cfg ev) e r :=
  NewCov_of_prefix (NewCov_refl cfg _ e r) (by
    cases (logEv_fields st cfg ev).2.2.2.2 with
    | inl h => exact .inl h
    | inr h => exact .inr ⟨ev, hev, h⟩)

theorem seqFinish_low {cfg : Cfg} {pos : Nat} {sh : SeqShape} {ss0 ss : SeqSt} {st st1 : St} {b : Bool}
    (hE : ELow cfg pos ss0 st ss st1 b) :
    PostLow cfg pos st (seqFinish sh pos ss st1).1 (seqFinish sh pos ss st1).2 := by
  by_cases hnil : ss.result.isNil = true
  · have e1 : (seqFinish sh pos ss st1).2 = st1 := by simp [seqFinish, hnil]
    have e2 : (seqFinish sh pos ss st1).1.res = .nil := by simp [seqFinish, hnil]
    have e3 : ∀ x, GeE x ss.err → GeE x (seqFinish sh pos ss st1).1.err := by
      intro x ⟨e, he, hx⟩
      simp only [seqFinish, hnil, ↓reduceIte, he]
      cases hn : sh.name with
      | none => exact ⟨e, rfl, hx⟩
      | some nm =>
        simp only []
        split
        · rename_i hc
          simp only [Bool.and_eq_true, decide_eq_true_eq] at hc
          exact ⟨_, rfl, by simp only []; omega⟩
        · exact ⟨e, rfl, hx⟩
    have hc : ∀ x, Cov x ss.err ss.result st1 →
        Cov x (seqFinish sh pos ss st1).1.err (seqFinish sh pos ss st1).1.res st1 := by
      intro x hx
      rcases hx with h1 | h1 | h1 | h1
      · exact .inl (e3 x h1)
      · exact absurd h1 (GeR_of_isNil hnil)
      · exact .inr (.inr (.inl h1))
      · exact .inr (.inr (.inr h1))
    rw [e1]
    refine ⟨hE.le, NewCov_imp hE.newTF (fun x _ hx => hc x hx), hc _ hE.prog, hE.slow, ⟨?_, ?_, ?_⟩⟩
    · rw [e2]; intro _ _ n hn; cases hn
    · rw [e2]; intro hc'; cases hc'
    · rw [e2]; intro n hn; cases hn
  · have hnil' : ss.result.isNil = false := by simpa using hnil
    have e1 : (seqFinish sh pos ss st1).2 = st1.setError ss.err := by simp [seqFinish, hnil']
    have e2 : (seqFinish sh pos ss st1).1.res = ss.result := by simp [seqFinish, hnil']
    have e3 : (seqFinish sh pos ss st1).1.err = none := by
      simp only [seqFinish, hnil', Bool.false_eq_true, ↓reduceIte]
    have hle := StLe_setError st1 ss.err
    have hc : ∀ x, Cov x ss.err ss.result st1 → Cov x none ss.result (st1.setError ss.err) := by
      intro x hx
      rcases hx with h1 | h1 | h1 | h1
      · exact .inr (.inr (.inl (GeE_setError_right st1 _ h1)))
      · exact .inr (.inl h1)
      · exact .inr (.inr (.inl (hle.ctx x h1)))
      · exact .inr (.inr (.inr (GeC_mono hle.log h1)))
    rw [e1]
    refine ⟨hE.le.trans hle, ?_, ?_, SLow_of_eq hE.slow (setError_ctxErr st1 ss.err).2.1 hle, ⟨?_, ?_, ?_⟩⟩
    · rw [e2, e3]
      exact NewCov_imp' hE.newTF (setError_ctxErr st1 ss.err).2.2.2.1 (fun x _ hx => hc x hx)
    · rw [e2, e3]; exact hc _ hE.prog
    · rw [e3]; intro e he; cases he
    · rw [e2]; exact hE.ssl.2
    · rw [e2]; exact hE.ssl.1

/-! ### Any / Choice -/

def CovAlt (pos x : Nat) (a : AltSt) (s : St) : Prop := Cov x a.err a.res s ∨ (x ≤ pos ∧ a.nf.isSome = true)

structure AltInv (cfg : Cfg) (pos : Nat) (st0 : St) (a : AltSt) (s : St) : Prop where
  le : StLe st0 s
  newTF : ∃ d, s.log = d ++ st0.log ∧ ∀ x k, Ev.termFail x k ∈ d → CovAlt pos x a s ∧ x ≤ cfg.hi
  slow : SLow cfg s
  stOK : StOK cfg s
  active : s.active = st0.active
  altOK : AltOK cfg pos a
  eof : ∀ n ∈ a.res.alts, n.EofOK cfg.hi
  nonempty : a.res.isNil = false → a.res.alts ≠ []

/-- the three things `altErr` does with a new error -/
theorem altErr_some_cases (pos : Nat) (a : AltSt) (e2 : Err) :
    (altErr pos a (some e2) = { a with err := some e2 } ∧ (∀ c, a.err = some c → c.pos ≤ e2.pos)) ∨
    (altErr pos a (some e2) = { a with nf := some e2 } ∧ e2.pos ≤ pos) ∨
    (altErr pos a (some e2) = a ∧ ∃ c, a.err = some c ∧ e2.pos < c.pos) := by
  cases ha : a.err with
  | none =>
    by_cases h2 : e2.pos > pos
    · exact .inl ⟨by simp [altErr, ha, h2], by intro c hc; cases hc⟩
    · cases hk : e2.kind.isNotFound
      · exact .inl ⟨by simp [altErr, ha, h2, hk], by intro c hc; cases hc⟩
      · exact .inr (.inl ⟨by simp [altErr, ha, h2, hk], by omega⟩)
  | some c =>
    by_cases h1 : e2.pos ≥ c.pos
    · by_cases h2 : e2.pos > pos
      · exact .inl ⟨by simp [altErr, ha, h1, h2], by intro c' hc'; cases hc'; exact h1⟩
      · cases hk : e2.kind.isNotFound
        · exact .inl ⟨by simp [altErr, ha, h1, h2, hk], by intro c' hc'; cases hc'; exact h1⟩
        · exact .inr (.inl ⟨by simp [altErr, ha, h1, h2, hk], by omega⟩)
    · exact .inr (.inr ⟨by simp [altErr, ha, h1], c, rfl, by omega⟩)

theorem altErr_GeE_left {x pos : Nat} {a : AltSt} (e2 : Option Err) (h : GeE x a.err) : GeE x (altErr pos a e2).err := by
  obtain ⟨c, hc, hx⟩ := h
  cases e2 with
  | none => exact ⟨c, hc, hx⟩
  | some e2 =>
    rcases altErr_some_cases pos a e2 with ⟨h1, h2⟩ | ⟨h1, _⟩ | ⟨h1, _⟩
    · rw [h1]; exact ⟨e2, rfl, by have := h2 c hc; omega⟩
    · rw [h1]; exact ⟨c, hc, hx⟩
    · rw [h1]; exact ⟨c, hc, hx⟩

theorem altErr_nf_some {pos : Nat} {a : AltSt} (e2 : Option Err) (h : a.nf.isSome = true) :
    (altErr pos a e2).nf.isSome = true := by
  cases e2 with
  | none => exact h
  | some e2 =>
    rcases altErr_some_cases pos a e2 with ⟨h1, _⟩ | ⟨h1, _⟩ | ⟨h1, _⟩
    · rw [h1]; exact h
    · rw [h1]; rfl
    · rw [h1]; exact h

/-- a new error is kept as `err`, or as `nf` (then it is at the position of the Any / Choice), or there is
    already a further one -/
theorem altErr_cover {x pos : Nat} {a : AltSt} {e2 : Option Err} (h : GeE x e2) :
    GeE x (altErr pos a e2).err ∨ (x ≤ pos ∧ (altErr pos a e2).nf.isSome = true) := by
  obtain ⟨e, he, hx⟩ := h
  subst he
  rcases altErr_some_cases pos a e with ⟨h1, _⟩ | ⟨h1, h2⟩ | ⟨h1, c, hc, h2⟩
  · rw [h1]; exact .inl ⟨e, rfl, hx⟩
  · rw [h1]; exact .inr ⟨by omega, rfl⟩
  · rw [h1]; exact .inl ⟨c, hc, by omega⟩

theorem CovAlt_step {pos x : Nat} {a a0 : AltSt} {s s' : St} {e2 : Option Err} (hle : StLe s s')
    (herr : a0.err = a.err) (hnf : a0.nf = a.nf) (hres : ∀ y, GeR y a.res → GeR y a0.res)
    (h : CovAlt pos x a s) : CovAlt pos x (altErr pos a0 e2) s' := by
  have hr := (altErr_fields pos a0 e2).2.1
  rcases h with h | h
  · rcases Cov_mono hle h with h1 | h1 | h1 | h1
    · exact .inl (.inl (altErr_GeE_left e2 (herr ▸ h1)))
    · exact .inl (.inr (.inl (by rw [hr]; exact hres _ h1)))
    · exact .inl (.inr (.inr (.inl h1)))
    · exact .inl (.inr (.inr (.inr h1)))
  · exact .inr ⟨h.1, altErr_nf_some e2 (hnf ▸ h.2)⟩

theorem CovAlt_new {pos x : Nat} {a0 : AltSt} {s' : St} {o' : Out}
    (hres : ∀ y, GeR y o'.res → GeR y a0.res) (h : Cov x o'.err o'.res s') :
    CovAlt pos x (altErr pos a0 o'.err) s' := by
  have hr := (altErr_fields pos a0 o'.err).2.1
  rcases h with h1 | h1 | h1 | h1
  · cases altErr_cover (pos := pos) (a := a0) h1 with
    | inl h2 => exact .inl (.inl h2)
    | inr h2 => exact .inr h2
  · exact .inl (.inr (.inl (by rw [hr]; exact hres _ h1)))
  · exact .inl (.inr (.inr (.inl h1)))
  · exact .inl (.inr (.inr (.inr h1)))

section
variable {cfg : Cfg} {r : RunFn}

theorem any_step_low (hpos : RunPosOK cfg r) (hr : RunLowOK cfg r) {ctx : Ctx} {pos : Nat} {st0 : St}
    (hin : InFile cfg.file pos) (hact : ActOK ctx pos st0.active)
    {g' : G} (hc : g'.Core (TermGood cfg)) (hl : g'.All (LocLow cfg)) {a : AltSt} {s : St} {o' : Out} {s' : St}
    (hA : AltInv cfg pos st0 a s) (hrun : r g' ctx pos s.regCall = some (o', s')) :
    AltInv cfg pos st0 (altErr pos { a with cp := cpUnion a.cp o'.cp, res := appendNode a.res o'.res } o'.err) s' ∧
    CovAlt pos pos (altErr pos { a with cp := cpUnion a.cp o'.cp, res := appendNode a.res o'.res } o'.err) s' := by
  have hpre' : Pre cfg ctx pos s.regCall :=
    ⟨hin, StOK_regCall hA.stOK, by show ActOK ctx pos s.active; rw [hA.active]; exact hact⟩
  have hpost := hpos g' ctx pos s.regCall o' s' hc hpre' hrun
  have hlow := hr g' ctx pos s.regCall o' s' hc hl hpre' (SLow_of_eq hA.slow rfl (StLe_regCall s)) hrun
  have hle : StLe s s' := (StLe_regCall s).trans hlow.le
  have hA0 : AltOK cfg pos { a with cp := cpUnion a.cp o'.cp, res := appendNode a.res o'.res } := by
    refine ⟨?_, hA.altOK.err, hA.altOK.nf⟩
    intro x hx
    cases mem_appendNode _ _ _ hx with
    | inl h1 => exact hA.altOK.nodes x h1
    | inr h1 => exact hpost.nodes x h1
  have hr' := (altErr_fields pos { a with cp := cpUnion a.cp o'.cp, res := appendNode a.res o'.res } o'.err).2.1
  have hold : ∀ x, CovAlt pos x a s →
      CovAlt pos x (altErr pos { a with cp := cpUnion a.cp o'.cp, res := appendNode a.res o'.res } o'.err) s' :=
    fun x hx => CovAlt_step (a := a) (a0 := { a with cp := cpUnion a.cp o'.cp, res := appendNode a.res o'.res }) hle rfl rfl
      (fun y hy => GeR_appendNode_left _ hy) hx
  have hnew : ∀ x, Cov x o'.err o'.res s' →
      CovAlt pos x (altErr pos { a with cp := cpUnion a.cp o'.cp, res := appendNode a.res o'.res } o'.err) s' :=
    fun x hx => CovAlt_new (a0 := { a with cp := cpUnion a.cp o'.cp, res := appendNode a.res o'.res })
      (fun y hy => GeR_appendNode_right _ hy) hx
  refine ⟨⟨hA.le.trans hle, ?_, hlow.slow, hpost.stOK, by rw [hpost.active]; exact hA.active,
    AltOK_altErr hA0 _ hpost.err, ?_, ?_⟩, hnew _ hlow.prog⟩
  · obtain ⟨d1, hd1, hc1⟩ := hA.newTF
    obtain ⟨d2, hd2, hc2⟩ := hlow.newTF
    refine ⟨d2 ++ d1, by rw [hd2]; show _ = _; rw [show s.regCall.log = s.log from rfl, hd1, List.append_assoc], ?_⟩
    intro x k hx
    cases List.mem_append.mp hx with
    | inl h => exact ⟨hnew x (hc2 x k h).1, (hc2 x k h).2⟩
    | inr h => exact ⟨hold x (hc1 x k h).1, (hc1 x k h).2⟩
  · intro n hn
    rw [hr'] at hn
    cases mem_appendNode _ _ _ hn with
    | inl h1 => exact hA.eof n h1
    | inr h1 => exact hlow.out.eof n h1
  · intro hnn
    rw [hr'] at hnn ⊢
    simp only [appendNode_isNil, Bool.and_eq_false_iff] at hnn
    cases hnn with
    | inl h1 =>
      intro hc'
      have hne := hA.nonempty h1
      cases hal : a.res.alts with
      | nil => exact hne hal
      | cons y ys =>
        have : y ∈ (appendNode a.res o'.res).alts := mem_appendNode_left _ _ _ (by rw [hal]; exact List.mem_cons_self ..)
        rw [hc'] at this; cases this
    | inr h1 =>
      intro hc'
      have hne := hlow.out.nonempty h1
      cases hal : o'.res.alts with
      | nil => exact hne hal
      | cons y ys =>
        have : y ∈ (appendNode a.res o'.res).alts := mem_appendNode_right _ _ _ (by rw [hal]; exact List.mem_cons_self ..)
        rw [hc'] at this; cases this

/-- Any / Choice found nothing: the error they return covers what the accumulator covered -/
theorem alt_final_nil {pos : Nat} {st0 : St} {a : AltSt} {s : St}
    (hA : AltInv cfg pos st0 a s) (hprog : CovAlt pos pos a s) (hnil : a.res.isNil = true) :
    PostLow cfg pos st0 ⟨.nil, a.cp, match a.err with | some e => some e | none => a.nf⟩ s := by
  have hc : ∀ x, CovAlt pos x a s → Cov x (match a.err with | some e => some e | none => a.nf) .nil s := by
    intro x hx
    rcases hx with (h1 | h1 | h1 | h1) | ⟨h1, h2⟩
    · obtain ⟨e, he, hxe⟩ := h1
      exact .inl ⟨e, by rw [he], hxe⟩
    · exact absurd h1 (GeR_of_isNil hnil)
    · exact .inr (.inr (.inl h1))
    · exact .inr (.inr (.inr h1))
    · cases hae : a.err with
      | some e => exact .inl ⟨e, rfl, by have := (hA.altOK.err e hae).1; omega⟩
      | none =>
        cases hnf : a.nf with
        | none => rw [hnf] at h2; cases h2
        | some e' => exact .inl ⟨e', rfl, by have := (hA.altOK.nf e' hnf).1; omega⟩
  obtain ⟨d, hd, hcd⟩ := hA.newTF
  refine ⟨hA.le, ⟨d, hd, fun x k hx => ⟨hc x (hcd x k hx).1, (hcd x k hx).2⟩⟩, hc _ hprog, hA.slow, ⟨?_, ?_, ?_⟩⟩
  · intro _ _ n hn; cases hn
  · intro hc'; cases hc'
  · intro n hn; cases hn

/-- Any found something: the result is returned, the error goes to the context -/
theorem any_final_res {pos : Nat} {st0 : St} {a : AltSt} {s : St}
    (hA : AltInv cfg pos st0 a s) (hprog : CovAlt pos pos a s) (hnn : a.res.isNil = false) :
    PostLow cfg pos st0 ⟨a.res, a.cp, none⟩ (s.setError a.err) := by
  have hle := StLe_setError s a.err
  have hne := hA.nonempty hnn
  have hc : ∀ x, CovAlt pos x a s → Cov x none a.res (s.setError a.err) := by
    intro x hx
    rcases hx with (h1 | h1 | h1 | h1) | ⟨h1, _⟩
    · exact .inr (.inr (.inl (GeE_setError_right s _ h1)))
    · exact .inr (.inl h1)
    · exact .inr (.inr (.inl (hle.ctx x h1)))
    · exact .inr (.inr (.inr (GeC_mono hle.log h1)))
    · cases hal : a.res.alts with
      | nil => exact absurd hal hne
      | cons n ns =>
        have hn : n ∈ a.res.alts := by rw [hal]; exact List.mem_cons_self ..
        obtain ⟨hnp, hnw⟩ := hA.altOK.nodes n hn
        have hb := Node.WF_bounds cfg.hi n hnw
        exact .inr (.inl ⟨n, hn, by omega⟩)
  obtain ⟨d, hd, hcd⟩ := hA.newTF
  refine ⟨hA.le.trans hle, ⟨d, by rw [(setError_ctxErr s a.err).2.2.2.1, hd], fun x k hx => ⟨hc x (hcd x k hx).1, (hcd x k hx).2⟩⟩,
    hc _ hprog, SLow_of_eq hA.slow (setError_ctxErr s a.err).2.1 hle, ⟨?_, hA.nonempty, hA.eof⟩⟩
  intro e he; cases he

theorem choice_step_low (hpos : RunPosOK cfg r) (hr : RunLowOK cfg r) {ctx : Ctx} {pos : Nat} {st0 : St}
    (hin : InFile cfg.file pos) (hact : ActOK ctx pos st0.active)
    {g' : G} (hc : g'.Core (TermGood cfg)) (hl : g'.All (LocLow cfg)) {a : AltSt} {s : St} {o' : Out} {s' : St}
    (hA : AltInv cfg pos st0 a s) (hanil : a.res.isNil = true) (hrun : r g' ctx pos s.regCall = some (o', s')) :
    (o'.res.isNil = true →
      AltInv cfg pos st0 (altErr pos { a with cp := cpUnion a.cp o'.cp } o'.err) s' ∧
      CovAlt pos pos (altErr pos { a with cp := cpUnion a.cp o'.cp } o'.err) s' ∧
      (altErr pos { a with cp := cpUnion a.cp o'.cp } o'.err).res.isNil = true) ∧
    (o'.res.isNil = false →
      PostLow cfg pos st0 ⟨o'.res, (altErr pos { a with cp := cpUnion a.cp o'.cp } o'.err).cp, none⟩
        (s'.setError (altErr pos { a with cp := cpUnion a.cp o'.cp } o'.err).err)) := by
  have hpre' : Pre cfg ctx pos s.regCall :=
    ⟨hin, StOK_regCall hA.stOK, by show ActOK ctx pos s.active; rw [hA.active]; exact hact⟩
  have hpost := hpos g' ctx pos s.regCall o' s' hc hpre' hrun
  have hlow := hr g' ctx pos s.regCall o' s' hc hl hpre' (SLow_of_eq hA.slow rfl (StLe_regCall s)) hrun
  have hle : StLe s s' := (StLe_regCall s).trans hlow.le
  have hr' := (altErr_fields pos { a with cp := cpUnion a.cp o'.cp } o'.err).2.1
  have hA' : AltOK cfg pos (altErr pos { a with cp := cpUnion a.cp o'.cp } o'.err) :=
    AltOK_altErr (a := { a with cp := cpUnion a.cp o'.cp }) ⟨hA.altOK.nodes, hA.altOK.err, hA.altOK.nf⟩ _ hpost.err
  have hold : ∀ x, CovAlt pos x a s → CovAlt pos x (altErr pos { a with cp := cpUnion a.cp o'.cp } o'.err) s' :=
    fun x hx => CovAlt_step (a := a) (a0 := { a with cp := cpUnion a.cp o'.cp }) hle rfl rfl (fun y hy => hy) hx
  obtain ⟨d1, hd1, hc1⟩ := hA.newTF
  obtain ⟨d2, hd2, hc2⟩ := hlow.newTF
  have hdd : s'.log = (d2 ++ d1) ++ st0.log := by
    rw [hd2, show s.regCall.log = s.log from rfl, hd1, List.append_assoc]
  refine ⟨fun honil => ?_, fun honn => ?_⟩
  · -- the alternative failed
    have hnoR : ∀ y, ¬ GeR y o'.res := fun y => GeR_of_isNil honil
    have hnew : ∀ x, Cov x o'.err o'.res s' → CovAlt pos x (altErr pos { a with cp := cpUnion a.cp o'.cp } o'.err) s' :=
      fun x hx => CovAlt_new (a0 := { a with cp := cpUnion a.cp o'.cp }) (fun y hy => absurd hy (hnoR y)) hx
    refine ⟨⟨hA.le.trans hle, ⟨d2 ++ d1, hdd, ?_⟩, hlow.slow, hpost.stOK, by rw [hpost.active]; exact hA.active, hA', ?_, ?_⟩,
      hnew _ hlow.prog, by rw [hr']; exact hanil⟩
    · intro x k hx
      cases List.mem_append.mp hx with
      | inl h => exact ⟨hnew x (hc2 x k h).1, (hc2 x k h).2⟩
      | inr h => exact ⟨hold x (hc1 x k h).1, (hc1 x k h).2⟩
    · rw [hr']; exact hA.eof
    · rw [hr']; exact hA.nonempty
  · -- the alternative matched: early return
    have hne := hlow.out.nonempty honn
    have hle2 := StLe_setError s' (altErr pos { a with cp := cpUnion a.cp o'.cp } o'.err).err
    have hnode : ∀ x, x ≤ pos → GeR x o'.res := by
      intro x hx
      cases hal : o'.res.alts with
      | nil => exact absurd hal hne
      | cons n ns =>
        have hn : n ∈ o'.res.alts := by rw [hal]; exact List.mem_cons_self ..
        obtain ⟨hnp, hnw⟩ := hpost.nodes n hn
        have hb := Node.WF_bounds cfg.hi n hnw
        exact ⟨n, hn, by omega⟩
    -- whatever the accumulator covered is covered by the context error or by the returned result
    have hfin : ∀ x, CovAlt pos x (altErr pos { a with cp := cpUnion a.cp o'.cp } o'.err) s' →
        Cov x none o'.res (s'.setError (altErr pos { a with cp := cpUnion a.cp o'.cp } o'.err).err) := by
      intro x hx
      rcases hx with (h1 | h1 | h1 | h1) | ⟨h1, _⟩
      · exact .inr (.inr (.inl (GeE_setError_right s' _ h1)))
      · rw [hr'] at h1; exact absurd h1 (GeR_of_isNil hanil)
      · exact .inr (.inr (.inl (hle2.ctx x h1)))
      · exact .inr (.inr (.inr (GeC_mono hle2.log h1)))
      · exact .inr (.inl (hnode x h1))
    have hnew : ∀ x, Cov x o'.err o'.res s' →
        Cov x none o'.res (s'.setError (altErr pos { a with cp := cpUnion a.cp o'.cp } o'.err).err) := by
      intro x hx
      rcases hx with h1 | h1 | h1 | h1
      · cases altErr_cover (pos := pos) (a := { a with cp := cpUnion a.cp o'.cp }) h1 with
        | inl h2 => exact .inr (.inr (.inl (GeE_setError_right s' _ h2)))
        | inr h2 => exact .inr (.inl (hnode x h2.1))
      · exact .inr (.inl h1)
      · exact .inr (.inr (.inl (hle2.ctx x h1)))
      · exact .inr (.inr (.inr (GeC_mono hle2.log h1)))
    refine ⟨(hA.le.trans hle).trans hle2, ⟨d2 ++ d1, by rw [(setError_ctxErr s' _).2.2.2.1, hdd], ?_⟩, hnew _ hlow.prog,
      SLow_of_eq hlow.slow (setError_ctxErr s' _).2.1 hle2, ⟨?_, hlow.out.nonempty, hlow.out.eof⟩⟩
    · intro x k hx
      cases List.mem_append.mp hx with
      | inl h => exact ⟨hnew x (hc2 x k h).1, (hc2 x k h).2⟩
      | inr h => exact ⟨hfin x (hold x (hc1 x k h).1), (hc1 x k h).2⟩
    · intro e he; cases he

/-- the state in which a memoized body starts satisfies the positional precondition -/
theorem memo_pre {ctx : Ctx} {pos idx : Nat} {st st1 : St} (hin : InFile cfg.file pos) (hst : StOK cfg st)
    (hact : ActOK ctx pos st.active) (hcur : ¬ ctx.get idx > remaining cfg.file pos + Facts.curtailSlack)
    (hs1 : ({ st with active := (idx, pos) :: st.active } : St).logEv cfg
      (.body idx pos ((st.active.filter (fun a : Nat × Nat => a.1 == idx && a.2 == pos)).length + 1)) = st1) :
    Pre cfg (ctx.inc idx) pos st1 := by
  have hcount : actCount st.active idx pos ≤ ctx.get idx := hact.2 idx
  have hf := logEv_fields ({ st with active := (idx, pos) :: st.active }) cfg
    (.body idx pos ((st.active.filter (fun a : Nat × Nat => a.1 == idx && a.2 == pos)).length + 1))
  simp only at hf
  rw [hs1] at hf
  refine ⟨hin, ?_, ?_⟩
  · refine ⟨by rw [hf.1]; exact hst.cache, by rw [hf.2.1]; exact hst.ctxErr, ?_⟩
    cases hf.2.2.2.2 with
    | inl h5 => rw [h5]; exact hst.log
    | inr h5 =>
      rw [h5]
      intro i p d hm
      cases hm with
      | head =>
        have : actCount st.active idx pos = (st.active.filter (fun a => a.1 == idx && a.2 == pos)).length := rfl
        omega
      | tail _ hm => exact hst.log i p d hm
  · rw [hf.2.2.2.1]
    refine ⟨?_, ?_⟩
    · intro a ha
      cases ha with
      | head => exact Nat.le_refl _
      | tail _ ha => exact hact.1 a ha
    · intro k
      by_cases hk : k = idx
      · subst hk
        rw [Ctx.get_inc_self]
        have : actCount ((k, pos) :: st.active) k pos = actCount st.active k pos + 1 := by
          simp [actCount]
        omega
      · rw [Ctx.get_inc_other _ _ _ hk]
        have : actCount ((idx, pos) :: st.active) k pos = actCount st.active k pos := by
          have : (idx == k) = false := by
            simp only [beq_eq_false_iff_ne, ne_eq]; exact fun e => hk e.symm
          simp [actCount, this]
        rw [this]; exact hact.2 k

end

end PV
