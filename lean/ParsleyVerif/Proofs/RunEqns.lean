/-
  The Sequence family (SeqOf / SeqTry / SeqFirstOrAll / Many / SepBy) goes through one piece of code
  (`sequence.Parse`); this file gives `run` on such a parser as one equation, so that inductions over
  `run` treat the family once.
-/
import ParsleyVerif.Model.Run
namespace PV

/-- the end of (*Sequence).Parse / (*sequence).Parse: result or error, context error, Name override -/
def seqFinish (sh : SeqShape) (pos : Nat) (ss : SeqSt) (st : St) : Out × St :=
  let (res, err, st) :=
    if ss.result.isNil then (Res.nil, ss.err, st) else (ss.result, none, st.setError ss.err)
  let err := match err, sh.name with
    | some e, some nm => if e.pos = pos && e.kind.isNotFound then some ⟨pos, .notFound nm⟩ else some e
    | e, _ => e
  (⟨res, ss.cp, err⟩, st)

def runSeq (r : RunFn) (sh : SeqShape) (fuel : Nat) (ctx : Ctx) (pos : Nat) (st : St) : Option (Out × St) :=
  match seqParse r sh fuel 0 [] ctx pos true {} st with
  | none => none
  | some (_, ss, st) => some (seqFinish sh pos ss st)

theorem run_seqfam (cfg : Cfg) (fuel : Nat) (g : G) (sh : SeqShape) (ctx : Ctx) (pos : Nat) (st : St)
    (hs : g.shape = some sh) :
    run cfg (fuel + 1) g ctx pos st =
      if cfg.maxCalls ≠ 0 ∧ st.calls > cfg.maxCalls then none else runSeq (run cfg fuel) sh fuel ctx pos st := by
  cases g <;> simp only [G.shape, Option.some.injEq, reduceCtorEq] at hs
  all_goals
    subst hs
    unfold run
    rfl

/-- the end of text.LeftTrim, after the operand answered `o` -/
def ltrimFinish (pos pos' : Nat) (wsErr : Option Err) (o : Out) (st : St) : Out × St :=
  let st := match st.ctxErr with
    | some ce => if ce.pos = pos' && ce.kind.isNotFound then st.setError (some ⟨pos, ce.kind⟩) else st
    | none => st
  match o.err with
  | some e =>
    match wsErr with
    | some w =>
      if e.pos > pos' then (⟨.nil, [], some w⟩, st)
      else if e.kind.isNotFound then (⟨o.res, o.cp, some ⟨pos, e.kind⟩⟩, st)
      else (⟨o.res, o.cp, some e⟩, st)
    | none => (⟨o.res, o.cp, some e⟩, st)
  | none =>
    match wsErr with
    | some w => (⟨.nil, [], some w⟩, st)
    | none => (⟨o.res, o.cp, none⟩, st)

theorem run_ltrim (cfg : Cfg) (fuel : Nat) (g : G) (m : Text.WsMode) (ctx : Ctx) (pos : Nat) (st : St) :
    run cfg (fuel + 1) (.ltrim g m) ctx pos st =
      if cfg.maxCalls ≠ 0 ∧ st.calls > cfg.maxCalls then none else
      match run cfg fuel g ctx (Text.skipWhitespaces cfg.file pos m).1 st with
      | none => none
      | some (o, st1) =>
        some (ltrimFinish pos (Text.skipWhitespaces cfg.file pos m).1 (wsToErr (Text.skipWhitespaces cfg.file pos m).2) o st1) := by
  conv => lhs; unfold run
  by_cases hb : cfg.maxCalls ≠ 0 ∧ st.calls > cfg.maxCalls
  · rw [if_pos hb, if_pos hb]
  · rw [if_neg hb, if_neg hb]
    cases hr : run cfg fuel g ctx (Text.skipWhitespaces cfg.file pos m).1 st with
    | none => simp only [hr]
    | some r =>
      obtain ⟨o, st1⟩ := r
      simp only [hr, ltrimFinish]
      cases ho : o.err with
      | none =>
        cases hw : wsToErr (Text.skipWhitespaces cfg.file pos m).2 with
        | none => simp only; cases st1.ctxErr <;> rfl
        | some w => simp only; cases st1.ctxErr <;> rfl
      | some e =>
        cases hw : wsToErr (Text.skipWhitespaces cfg.file pos m).2 with
        | none => simp only; cases st1.ctxErr <;> rfl
        | some w =>
          simp only
          by_cases h1 : e.pos > (Text.skipWhitespaces cfg.file pos m).1
          · simp only [h1, ↓reduceIte]; cases st1.ctxErr <;> rfl
          · simp only [h1, ↓reduceIte]
            by_cases h2 : e.kind.isNotFound = true
            · simp only [h2, ↓reduceIte]; cases st1.ctxErr <;> rfl
            · simp only [h2]; cases st1.ctxErr <;> rfl

theorem ltrimFinish_res (pos pos' : Nat) (wsErr : Option Err) (o : Out) (st : St) :
    (∀ x ∈ (ltrimFinish pos pos' wsErr o st).1.res.alts, x ∈ o.res.alts) ∧
    (ltrimFinish pos pos' wsErr o st).2.cache = st.cache := by
  have hst : (match st.ctxErr with
      | some ce => if ce.pos = pos' && ce.kind.isNotFound then st.setError (some ⟨pos, ce.kind⟩) else st
      | none => st).cache = st.cache := by
    split
    · split
      · unfold St.setError
        simp only
        split
        · rfl
        · split <;> rfl
      · rfl
    · rfl
  unfold ltrimFinish
  simp only
  cases o.err with
  | none =>
    cases wsErr with
    | none => exact ⟨fun x hx => hx, hst⟩
    | some w => exact ⟨fun x hx => (by cases hx), hst⟩
  | some e =>
    cases wsErr with
    | none => exact ⟨fun x hx => hx, hst⟩
    | some w =>
      simp only
      split
      · exact ⟨fun x hx => (by cases hx), hst⟩
      · split
        · exact ⟨fun x hx => hx, hst⟩
        · exact ⟨fun x hx => hx, hst⟩

end PV
