/-
  The Sequence family (SeqOf / SeqTry / SeqFirstOrAll / Many / SepBy) goes through one piece of code
  (`sequence.Parse`); this file gives `run` on such a parser as one equation, so that inductions over
  `run` treat the family once.
-/
import ParsleyVerif.Model.Run
namespace PV

/-- the end of (*Sequence).Parse / (*sequence).Parse: result or error, context error, Name override -/
def seqFinish (sh : SeqShape) (pos : Nat) (ss : SeqSt) (st : St) : Out × St :=
  let (res, err, st) :=
    if ss.result.isNil then (Res.nil, ss.err, st) else (ss.result, none, st.setError ss.err)
  let err := match err, sh.name with
    | some e, some nm => if e.pos = pos && e.kind.isNotFound then some ⟨pos, .notFound nm⟩ else some e
    | e, _ => e
  (⟨res, ss.cp, err⟩, st)

def runSeq (r : RunFn) (sh : SeqShape) (fuel : Nat) (ctx : Ctx) (pos : Nat) (st : St) : Option (Out × St) :=
  match seqParse r sh fuel 0 [] ctx pos true {} st with
  | none => none
  | some (_, ss, st) => some (seqFinish sh pos ss st)

theorem run_seqfam (cfg : Cfg) (fuel : Nat) (g : G) (sh : SeqShape) (ctx : Ctx) (pos : Nat) (st : St)
    (hs : g.shape = some sh) :
    run cfg (fuel + 1) g ctx pos st =
      if cfg.maxCalls ≠ 0 ∧ st.calls > cfg.maxCalls then none else runSeq (run cfg fuel) sh fuel ctx pos st := by
  cases g <;> simp only [G.shape, Option.some.injEq, reduceCtorEq] at hs
  all_goals
    subst hs
    unfold run
    rfl

end PV
