/-
  The positional invariant of the parser core, by induction on fuel (one proof, used by C01 spans,
  C02 re-entry bound, C04 Sentence soundness):

  * every returned / cached tree starts at the call position, is contiguous and lies within the file;
  * every returned / cached / recorded error is positioned between the call position and the end of file;
  * the ghost activation stack is restored by every call, and a memoized body is never active more than
    `remaining + curtailSlack + 1` times at one position.
-/
import ParsleyVerif.Proofs.RunBasics
import ParsleyVerif.Proofs.RunLoops
import ParsleyVerif.Proofs.RunEqns
import ParsleyVerif.Proofs.ReaderWs
namespace PV
open PV.Text

/-! ### well-formed trees -/

mutual
theorem Node.WF_bounds (hi : Nat) : ∀ n : Node, n.WF hi → n.pos ≤ n.rpos ∧ n.rpos ≤ hi
  | .term _ _ p r, h => by simpa [Node.WF, Node.pos, Node.rpos] using h
  | .empty p, h => by simpa [Node.WF, Node.pos, Node.rpos] using h
  | .eof p, h => by simpa [Node.WF, Node.pos, Node.rpos] using h
  | .nt _ cs p r _, h => by
    simp only [Node.WF] at h
    simpa [Node.pos, Node.rpos] using Chain_bounds hi cs p r h
theorem Chain_bounds (hi : Nat) : ∀ (cs : List Node) (p r : Nat), Chain hi cs p r → p ≤ r ∧ r ≤ hi
  | [], p, r, h => by simp only [Chain] at h; omega
  | c :: cs, p, r, h => by
    simp only [Chain] at h
    have h1 := Node.WF_bounds hi c h.2.1
    have h2 := Chain_bounds hi cs c.rpos r h.2.2
    omega
end

theorem Chain_append (hi : Nat) (n : Node) : ∀ (cs : List Node) (p r : Nat),
    Chain hi cs p r → n.pos = r → n.WF hi → Chain hi (cs ++ [n]) p n.rpos
  | [], p, r, h, hp, hw => by
    have h' : p = r ∧ r ≤ hi := by simpa only [Chain] using h
    show Chain hi [n] p n.rpos
    unfold Chain
    refine ⟨by omega, hw, ?_⟩
    unfold Chain
    exact ⟨rfl, (Node.WF_bounds hi n hw).2⟩
  | c :: cs, p, r, h, hp, hw => by
    have h' : c.pos = p ∧ c.WF hi ∧ Chain hi cs c.rpos r := by simpa only [Chain] using h
    show Chain hi (c :: (cs ++ [n])) p n.rpos
    unfold Chain
    exact ⟨h'.1, h'.2.1, Chain_append hi n cs c.rpos r h'.2.2 hp hw⟩

theorem getLast?_getD_cons (m n : Node) (rest : List Node) :
    ((m :: rest).getLast?).getD n = (rest.getLast?).getD m := by
  rw [List.getLast?_cons]; rfl

theorem Chain_last (hi : Nat) : ∀ (rest : List Node) (n : Node) (p r : Nat),
    Chain hi (n :: rest) p r → ((rest.getLast?).getD n).rpos = r
  | [], n, p, r, h => by
    have h' : n.pos = p ∧ n.WF hi ∧ Chain hi [] n.rpos r := by simpa only [Chain] using h
    have h'' : n.rpos = r ∧ r ≤ hi := by simpa only [Chain] using h'.2.2
    simp [h''.1]
  | m :: rest, n, p, r, h => by
    have h' : n.pos = p ∧ n.WF hi ∧ Chain hi (m :: rest) n.rpos r := by simpa only [Chain] using h
    rw [getLast?_getD_cons]
    exact Chain_last hi rest m n.rpos r h'.2.2

theorem handleResult_ok (hi : Nat) (sh : SeqShape) (pos0 p : Nat) (nodes : List Node)
    (h : Chain hi nodes pos0 p) :
    (handleResult sh p nodes).pos = pos0 ∧ (handleResult sh p nodes).WF hi := by
  cases nodes with
  | nil =>
    have h' : pos0 = p ∧ p ≤ hi := by simpa only [Chain] using h
    show (Node.nt sh.token [] p p sh.interp).pos = pos0 ∧ (Node.nt sh.token [] p p sh.interp).WF hi
    refine ⟨h'.1.symm, ?_⟩
    unfold Node.WF Chain
    exact ⟨rfl, h'.2⟩
  | cons n rest =>
    have h' : n.pos = pos0 ∧ n.WF hi ∧ Chain hi rest n.rpos p := by simpa only [Chain] using h
    cases rest with
    | nil =>
      by_cases hs : sh.single = true
      · have : handleResult sh p [n] = n := by simp [handleResult, hs]
        rw [this]; exact ⟨h'.1, h'.2.1⟩
      · have : handleResult sh p [n] = .nt sh.token [n] n.pos n.rpos sh.interp := by simp [handleResult, hs]
        rw [this]
        refine ⟨h'.1, ?_⟩
        unfold Node.WF Chain
        refine ⟨rfl, h'.2.1, ?_⟩
        unfold Chain
        exact ⟨rfl, (Node.WF_bounds hi n h'.2.1).2⟩
    | cons m rest =>
      have hl := Chain_last hi (m :: rest) n pos0 p h
      have : handleResult sh p (n :: m :: rest) =
          .nt sh.token (n :: m :: rest) n.pos (((m :: rest).getLast?).getD n).rpos sh.interp := rfl
      rw [this, hl]
      refine ⟨h'.1, ?_⟩
      unfold Node.WF
      rw [h'.1]; exact h

/-! ### the invariant -/

def LogOK (cfg : Cfg) (log : List Ev) : Prop :=
  ∀ idx p d, Ev.body idx p d ∈ log → d ≤ remaining cfg.file p + Facts.curtailSlack + 1

structure EntryOK (cfg : Cfg) (e : CacheEntry) : Prop where
  inFile : InFile cfg.file e.pos
  nodes : ∀ x ∈ e.res.alts, x.pos = e.pos ∧ x.WF cfg.hi
  err : ∀ er, e.err = some er → e.pos ≤ er.pos ∧ er.pos ≤ cfg.hi

structure StOK (cfg : Cfg) (st : St) : Prop where
  cache : ∀ e ∈ st.cache, EntryOK cfg e
  ctxErr : ∀ er, st.ctxErr = some er → cfg.file.offset ≤ er.pos ∧ er.pos ≤ cfg.hi
  log : LogOK cfg st.log

def actCount (act : List (Nat × Nat)) (k pos : Nat) : Nat :=
  (act.filter (fun a => a.1 == k && a.2 == pos)).length

/-- the activation stack only holds frames at or before the current position, and the left-recursion
    context counts at least the frames of each parser at the current position -/
def ActOK (ctx : Ctx) (pos : Nat) (act : List (Nat × Nat)) : Prop :=
  (∀ a ∈ act, a.2 ≤ pos) ∧ ∀ k, actCount act k pos ≤ ctx.get k

def Pre (cfg : Cfg) (ctx : Ctx) (pos : Nat) (st : St) : Prop :=
  InFile cfg.file pos ∧ StOK cfg st ∧ ActOK ctx pos st.active

structure Post (cfg : Cfg) (pos : Nat) (st0 : St) (o : Out) (st' : St) : Prop where
  nodes : ∀ x ∈ o.res.alts, x.pos = pos ∧ x.WF cfg.hi
  err : ∀ er, o.err = some er → pos ≤ er.pos ∧ er.pos ≤ cfg.hi
  stOK : StOK cfg st'
  active : st'.active = st0.active
  calls : st0.calls ≤ st'.calls

theorem StOK_of_eq {cfg : Cfg} {st st' : St} (h : StOK cfg st) (hc : st'.cache = st.cache)
    (he : st'.ctxErr = st.ctxErr) (hl : st'.log = st.log) : StOK cfg st' :=
  ⟨by rw [hc]; exact h.cache, by rw [he]; exact h.ctxErr, by rw [hl]; exact h.log⟩

theorem StOK_regCall {cfg : Cfg} {st : St} (h : StOK cfg st) : StOK cfg st.regCall :=
  StOK_of_eq h rfl rfl rfl

theorem StOK_setError {cfg : Cfg} {st : St} (h : StOK cfg st) (e : Option Err)
    (he : ∀ er, e = some er → cfg.file.offset ≤ er.pos ∧ er.pos ≤ cfg.hi) : StOK cfg (st.setError e) := by
  obtain ⟨h1, h2, _, h4, _⟩ := setError_ctxErr st e
  refine ⟨by rw [h2]; exact h.cache, ?_, by rw [h4]; exact h.log⟩
  intro er her
  cases h1 with
  | inl h1 => exact h.ctxErr er (h1 ▸ her)
  | inr h1 => exact he er (h1 ▸ her)

theorem StOK_logEv_notBody {cfg : Cfg} {st : St} (h : StOK cfg st) (ev : Ev)
    (hev : ∀ idx p d, ev ≠ Ev.body idx p d) : StOK cfg (st.logEv cfg ev) := by
  obtain ⟨h1, h2, _, _, h5⟩ := logEv_fields st cfg ev
  refine ⟨by rw [h1]; exact h.cache, by rw [h2]; exact h.ctxErr, ?_⟩
  cases h5 with
  | inl h5 => rw [h5]; exact h.log
  | inr h5 =>
    rw [h5]
    intro idx p d hm
    cases hm with
    | head => exact absurd rfl (hev idx p d)
    | tail _ hm => exact h.log idx p d hm

theorem ActOK_same {ctx : Ctx} {pos : Nat} {a b : List (Nat × Nat)} (h : ActOK ctx pos a) (e : b = a) :
    ActOK ctx pos b := e ▸ h

/-- sub-parsers of a Sequence-family parser are in scope when it is -/
theorem shape_lookup_core {T : Terminal → Prop} {g : G} {sh : SeqShape} (hg : g.Core T)
    (hs : g.shape = some sh) (i : Nat) (g' : G) (hl : sh.lookup i = some g') : g'.Core T := by
  cases g with
  | seq k gs o =>
    simp only [G.shape, Option.some.injEq] at hs
    subst hs
    simp only at hl
    simp only [G.Core] at hg
    exact CoreList_mem hg g' (List.mem_of_getElem? hl)
  | many g1 ae o =>
    simp only [G.shape, Option.some.injEq] at hs
    subst hs
    simp only [Option.some.injEq] at hl
    subst hl
    simpa [G.Core] using hg
  | sepBy v s ae o =>
    simp only [G.shape, Option.some.injEq] at hs
    subst hs
    simp only [G.Core] at hg
    simp only at hl
    split at hl
    · cases hl; exact hg.1
    · cases hl; exact hg.2
  | _ => simp [G.shape] at hs

/-! ### the Sequence family -/

structure SeqStOK (cfg : Cfg) (pos0 : Nat) (ss : SeqSt) : Prop where
  nodes : ∀ x ∈ ss.result.alts, x.pos = pos0 ∧ x.WF cfg.hi
  err : ∀ er, ss.err = some er → pos0 ≤ er.pos ∧ er.pos ≤ cfg.hi

def SeqE (cfg : Cfg) (pos0 : Nat) (ss : SeqSt) (st : St) (ss' : SeqSt) (st' : St) : Prop :=
  (StOK cfg st → StOK cfg st') ∧ (SeqStOK cfg pos0 ss → SeqStOK cfg pos0 ss') ∧
  st'.active = st.active ∧ st.calls ≤ st'.calls

def SeqJ (cfg : Cfg) (pos0 : Nat) (fr : Frame) (ss : SeqSt) (st : St) : Prop :=
  InFile cfg.file fr.pos ∧ pos0 ≤ fr.pos ∧ Chain cfg.hi fr.nodes pos0 fr.pos ∧ StOK cfg st ∧
  ActOK fr.ctx fr.pos st.active ∧ SeqStOK cfg pos0 ss

theorem SeqStOK_after {cfg : Cfg} {pos0 p : Nat} {ss : SeqSt} {o : Out} (merge : Bool) (h : SeqStOK cfg pos0 ss)
    (hp : pos0 ≤ p) (he : ∀ er, o.err = some er → p ≤ er.pos ∧ er.pos ≤ cfg.hi) :
    SeqStOK cfg pos0 (seqAfter merge ss o) := by
  have hres : (seqAfter merge ss o).result = ss.result := by unfold seqAfter; split <;> rfl
  have herr : (seqAfter merge ss o).err = pickErr ss.err o.err := by unfold seqAfter; split <;> rfl
  refine ⟨by rw [hres]; exact h.nodes, ?_⟩
  intro er her
  rw [herr] at her
  cases pickErr_cases ss.err o.err with
  | inl h1 => exact h.err er (h1 ▸ her)
  | inr h1 => have := he er (h1 ▸ her); omega

theorem SeqStOK_emit {cfg : Cfg} {pos0 : Nat} {ss : SeqSt} (sh : SeqShape) (fr : Frame) (h : SeqStOK cfg pos0 ss)
    (hd : fr.depth = fr.nodes.length) (hc : Chain cfg.hi fr.nodes pos0 fr.pos) :
    SeqStOK cfg pos0 (seqEmit sh fr ss) := by
  refine ⟨?_, h.err⟩
  intro x hx
  simp only [seqEmit] at hx
  cases mem_appendNode _ _ _ hx with
  | inl h1 => exact h.nodes x h1
  | inr h1 =>
    simp only [Res.alts, List.mem_singleton] at h1
    subst h1
    have : (if fr.depth > 0 then fr.nodes else []) = fr.nodes := by
      split
      · rfl
      · rename_i hz
        have : fr.nodes.length = 0 := by omega
        exact (List.length_eq_zero_iff.mp this).symm
    rw [this]
    exact handleResult_ok cfg.hi sh pos0 fr.pos fr.nodes hc

/-- what the positional invariant needs of the function that runs sub-parsers -/
def RunPosOK (cfg : Cfg) (r : RunFn) : Prop :=
  ∀ g ctx pos st o st', g.Core (TermGood cfg) → Pre cfg ctx pos st → r g ctx pos st = some (o, st') →
    Post cfg pos st o st'

theorem ActOK_next {ctx : Ctx} {pos : Nat} {act : List (Nat × Nat)} (h : ActOK ctx pos act) (q : Nat) (hq : pos ≤ q) :
    ActOK (if q > pos then [] else ctx) q act := by
  by_cases hc : q > pos
  · simp only [hc, ↓reduceIte]
    refine ⟨fun a ha => by have := h.1 a ha; omega, fun k => ?_⟩
    have : actCount act k q = 0 := by
      unfold actCount
      rw [List.length_eq_zero_iff, List.filter_eq_nil_iff]
      intro a ha
      have := h.1 a ha
      simp only [Bool.and_eq_true, beq_iff_eq, not_and]
      intro _; omega
    omega
  · simp only [hc, ↓reduceIte]
    have : q = pos := by omega
    subst this
    exact h

theorem seqParse_pos (cfg : Cfg) (r : RunFn) (hr : RunPosOK cfg r) (g : G) (sh : SeqShape)
    (hg : g.Core (TermGood cfg)) (hs : g.shape = some sh) (pos0 : Nat) :
    ∀ (fuel : Nat) (fr : Frame) ss st b ss' st', SeqJ cfg pos0 fr ss st → fr.depth = fr.nodes.length →
      seqParse r sh fuel fr.depth fr.nodes fr.ctx fr.pos fr.merge ss st = some (b, ss', st') →
      SeqE cfg pos0 ss st ss' st' := by
  refine seqParse_ind r sh (SeqJ cfg pos0) (SeqE cfg pos0) ?_ ?_ ?_ ?_ ?_
  · intro ss st; exact ⟨id, id, rfl, Nat.le_refl _⟩
  · intro a b c d e f h1 h2
    exact ⟨fun h => h2.1 (h1.1 h), fun h => h2.2.1 (h1.2.1 h), by rw [h2.2.2.1, h1.2.2.1], by have := h1.2.2.2; have := h2.2.2.2; omega⟩
  · intro fr ss st ss' st' hJ hE
    obtain ⟨j1, j2, j3, j4, j5, j6⟩ := hJ
    exact ⟨j1, j2, j3, hE.1 j4, by rw [hE.2.2.1]; exact j5, hE.2.1 j6⟩
  · intro fr ss st g' o st1 hJ hd hl hrun
    obtain ⟨j1, j2, j3, j4, j5, j6⟩ := hJ
    have hcore := shape_lookup_core hg hs fr.depth g' hl
    have hpost := hr g' fr.ctx fr.pos st.regCall o st1 hcore ⟨j1, StOK_regCall j4, j5⟩ hrun
    have hact : st1.active = st.active := hpost.active
    have hcalls : st.calls ≤ st1.calls := by
      have := hpost.calls
      have e : st.regCall.calls = st.calls + 1 := rfl
      omega
    refine ⟨⟨fun _ => hpost.stOK, fun h => SeqStOK_after _ h j2 hpost.err, hact, hcalls⟩, ?_, ?_⟩
    · intro n hn
      obtain ⟨hnp, hnw⟩ := hpost.nodes n hn
      have hb := Node.WF_bounds cfg.hi n hnw
      refine ⟨?_, ?_, ?_, hpost.stOK, ?_, SeqStOK_after _ j6 j2 hpost.err⟩
      · simp only [Frame.next]
        exact ⟨by have := j1.1; omega, by unfold Cfg.hi at hb; omega⟩
      · simp only [Frame.next]; omega
      · simp only [Frame.next]
        exact Chain_append cfg.hi n fr.nodes pos0 fr.pos j3 hnp hnw
      · simp only [Frame.next]
        rw [hact]
        exact ActOK_next j5 n.rpos (by omega)
    · intro _ _
      refine ⟨fun _ => hpost.stOK, fun h => SeqStOK_emit sh fr (SeqStOK_after _ h j2 hpost.err) hd j3, hact, hcalls⟩
  · intro fr ss st hJ hd _ _
    obtain ⟨j1, j2, j3, j4, j5, j6⟩ := hJ
    refine ⟨id, fun h => SeqStOK_emit sh fr (SeqStOK_after _ h j2 (by intro er he; cases he)) hd j3, rfl, Nat.le_refl _⟩

/-! ### Any / Choice accumulators -/

structure AltOK (cfg : Cfg) (pos : Nat) (a : AltSt) : Prop where
  nodes : ∀ x ∈ a.res.alts, x.pos = pos ∧ x.WF cfg.hi
  err : ∀ er, a.err = some er → pos ≤ er.pos ∧ er.pos ≤ cfg.hi
  nf : ∀ er, a.nf = some er → pos ≤ er.pos ∧ er.pos ≤ cfg.hi

theorem AltOK_altErr {cfg : Cfg} {pos : Nat} {a : AltSt} (h : AltOK cfg pos a) (e : Option Err)
    (he : ∀ er, e = some er → pos ≤ er.pos ∧ er.pos ≤ cfg.hi) : AltOK cfg pos (altErr pos a e) := by
  obtain ⟨_, h2, h3, h4⟩ := altErr_fields pos a e
  refine ⟨by rw [h2]; exact h.nodes, ?_, ?_⟩
  · intro er her
    cases h3 with
    | inl h3 => exact h.err er (h3 ▸ her)
    | inr h3 => exact he er (h3 ▸ her)
  · intro er her
    cases h4 with
    | inl h4 => exact h.nf er (h4 ▸ her)
    | inr h4 => exact he er (h4 ▸ her)

theorem seqFinish_pos {cfg : Cfg} {pos : Nat} {sh : SeqShape} {ss : SeqSt} {st0 st : St} (hin : InFile cfg.file pos)
    (hss : SeqStOK cfg pos ss) (hst : StOK cfg st) (hact : st.active = st0.active) (hcalls : st0.calls ≤ st.calls) :
    Post cfg pos st0 (seqFinish sh pos ss st).1 (seqFinish sh pos ss st).2 := by
  have hlo := hin.1
  by_cases hnil : ss.result.isNil = true
  · -- no result: the error is returned
    have e1 : (seqFinish sh pos ss st).2 = st := by simp [seqFinish, hnil]
    have e2 : (seqFinish sh pos ss st).1.res = .nil := by simp [seqFinish, hnil]
    have e3 : ∀ er, (seqFinish sh pos ss st).1.err = some er → pos ≤ er.pos ∧ er.pos ≤ cfg.hi := by
      intro er her
      simp only [seqFinish, hnil, ↓reduceIte] at her
      cases hse : ss.err with
      | none => simp [hse] at her
      | some e =>
        have hb := hss.err e hse
        cases hn : sh.name with
        | none => simp only [hse, hn] at her; cases her; exact hb
        | some nm =>
          simp only [hse, hn] at her
          split at her
          · cases her; exact ⟨Nat.le_refl _, by unfold Cfg.hi; have := hin.2; omega⟩
          · cases her; exact hb
    rw [e1]
    exact ⟨(by rw [e2]; intro x hx; cases hx), e3, hst, hact, hcalls⟩
  · have hnil' : ss.result.isNil = false := by simpa using hnil
    have e1 : (seqFinish sh pos ss st).2 = st.setError ss.err := by simp [seqFinish, hnil']
    have e2 : (seqFinish sh pos ss st).1.res = ss.result := by simp [seqFinish, hnil']
    have e3 : (seqFinish sh pos ss st).1.err = none := by
      simp only [seqFinish, hnil', Bool.false_eq_true, ↓reduceIte]
    obtain ⟨_, _, h3, _, h5⟩ := setError_ctxErr st ss.err
    rw [e1]
    refine ⟨by rw [e2]; exact hss.nodes, (by rw [e3]; intro er her; cases her), ?_, by rw [h3]; exact hact, by rw [h5]; exact hcalls⟩
    exact StOK_setError hst _ (fun er her => by have := hss.err er her; omega)

/-! ### the induction -/

theorem run_pos (cfg : Cfg) (henv : ∀ g' ∈ cfg.env, g'.Core (TermGood cfg)) :
    ∀ fuel, RunPosOK cfg (run cfg fuel) := by
  intro fuel
  induction fuel with
  | zero => intro g ctx pos st o st' _ _ h; simp [run] at h
  | succ fuel ih =>
    intro g ctx pos st o st' hg hpre h
    obtain ⟨hin, hst, hact⟩ := hpre
    have hhi : pos ≤ cfg.hi := hin.2
    -- the Sequence family first
    cases hsh : g.shape with
    | some sh =>
      rw [run_seqfam cfg fuel g sh ctx pos st hsh] at h
      split at h
      · cases h
      · unfold runSeq at h
        split at h
        · cases h
        · rename_i b ss st1 hsp
          cases h
          have hJ : SeqJ cfg pos ⟨0, [], ctx, pos, true⟩ {} st :=
            ⟨hin, Nat.le_refl _, by unfold Chain; exact ⟨rfl, hhi⟩, hst, hact,
              ⟨(by intro x hx; cases hx), (by intro er her; cases her)⟩⟩
          have hE := seqParse_pos cfg (run cfg fuel) ih g sh hg hsh pos fuel ⟨0, [], ctx, pos, true⟩ {} st b ss st1 hJ rfl hsp
          exact seqFinish_pos hin (hE.2.1 hJ.2.2.2.2.2) (hE.1 hst) hE.2.2.1 hE.2.2.2
    | none =>
    unfold run at h
    split at h
    · cases h
    · cases g with
      | term t =>
        simp only at h
        have hT : TermGood cfg t := by simpa [G.Core] using hg
        obtain ⟨hTn, hTe⟩ := hT pos hin
        split at h
        · rename_i n hp
          cases h
          refine ⟨?_, (by intro er her; cases her), hst, rfl, Nat.le_refl _⟩
          intro x hx
          simp only [Res.alts, List.mem_singleton] at hx
          subst hx; exact hTn _ hp
        · rename_i e hp
          cases h
          refine ⟨(by intro x hx; cases hx), ?_, StOK_logEv_notBody hst _ (by intro _ _ _ hc; cases hc),
            (logEv_fields st cfg _).2.2.2.1, by rw [(logEv_fields st cfg _).2.2.1]; exact Nat.le_refl _⟩
          intro er her; cases her; exact hTe _ hp
        · cases h
          exact ⟨(by intro x hx; cases hx), (by intro er her; cases her; exact ⟨Nat.le_refl _, hhi⟩), hst, rfl, Nat.le_refl _⟩
      | empty =>
        simp only at h
        cases h
        refine ⟨?_, (by intro er her; cases her), hst, rfl, Nat.le_refl _⟩
        intro x hx
        simp only [Res.alts, List.mem_singleton] at hx
        subst hx; exact ⟨rfl, by simpa [Node.WF] using hhi⟩
      | eof =>
        simp only at h
        split at h
        · cases h
          refine ⟨?_, (by intro er her; cases her), hst, rfl, Nat.le_refl _⟩
          intro x hx
          simp only [Res.alts, List.mem_singleton] at hx
          subst hx; exact ⟨rfl, by simpa [Node.WF] using hhi⟩
        · cases h
          refine ⟨(by intro x hx; cases hx), (by intro er her; cases her; exact ⟨Nat.le_refl _, hhi⟩),
            StOK_logEv_notBody hst _ (by intro _ _ _ hc; cases hc),
            (logEv_fields st cfg _).2.2.2.1, by rw [(logEv_fields st cfg _).2.2.1]; exact Nat.le_refl _⟩
      | ref k =>
        simp only at h
        split at h
        · rename_i g' hk
          exact ih g' ctx pos st o st' (henv g' (List.mem_of_getElem? hk)) ⟨hin, hst, hact⟩ h
        · cases h
          exact ⟨(by intro x hx; cases hx), (by intro er her; cases her; exact ⟨Nat.le_refl _, hhi⟩), hst, rfl, Nat.le_refl _⟩
      | memo idx body =>
        simp only at h
        have hbody : body.Core (TermGood cfg) := by simpa [G.Core] using hg
        cases hc : cacheGet st.cache idx pos ctx with
        | some e =>
          simp only [hc] at h
          cases h
          obtain ⟨hm, _, hp⟩ := cacheGet_some hc
          have hE := hst.cache e hm
          refine ⟨by rw [← hp]; exact hE.nodes, by rw [← hp]; exact hE.err,
            StOK_logEv_notBody hst _ (by intro _ _ _ hc; cases hc),
            (logEv_fields st cfg _).2.2.2.1, by rw [(logEv_fields st cfg _).2.2.1]; exact Nat.le_refl _⟩
        | none =>
          simp only [hc] at h
          by_cases hcur : ctx.get idx > remaining cfg.file pos + Facts.curtailSlack
          · simp only [hcur, ↓reduceIte] at h
            cases h
            exact ⟨(by intro x hx; cases hx), (by intro er her; cases her),
              StOK_logEv_notBody hst _ (by intro _ _ _ hc; cases hc),
              (logEv_fields st cfg _).2.2.2.1, by rw [(logEv_fields st cfg _).2.2.1]; exact Nat.le_refl _⟩
          · simp only [hcur, ↓reduceIte] at h
            split at h
            · cases h
            · rename_i o2 st2 hr
              cases h
              -- the state the body starts in
              have hcount : actCount st.active idx pos ≤ ctx.get idx := hact.2 idx
              have hf := logEv_fields ({ st with active := (idx, pos) :: st.active }) cfg
                (.body idx pos ((st.active.filter (fun a : Nat × Nat => a.1 == idx && a.2 == pos)).length + 1))
              simp only at hf
              generalize hs1 : ({ st with active := (idx, pos) :: st.active } : St).logEv cfg
                (.body idx pos ((st.active.filter (fun a : Nat × Nat => a.1 == idx && a.2 == pos)).length + 1)) = st1 at hr hf
              have hst1 : StOK cfg st1 := by
                refine ⟨by rw [hf.1]; exact hst.cache, by rw [hf.2.1]; exact hst.ctxErr, ?_⟩
                cases hf.2.2.2.2 with
                | inl h5 => rw [h5]; exact hst.log
                | inr h5 =>
                  rw [h5]
                  intro i p d hm
                  cases hm with
                  | head =>
                    have : actCount st.active idx pos = (st.active.filter (fun a => a.1 == idx && a.2 == pos)).length := rfl
                    omega
                  | tail _ hm => exact hst.log i p d hm
              have hact1 : ActOK (ctx.inc idx) pos st1.active := by
                rw [hf.2.2.2.1]
                refine ⟨?_, ?_⟩
                · intro a ha
                  cases ha with
                  | head => exact Nat.le_refl _
                  | tail _ ha => exact hact.1 a ha
                · intro k
                  by_cases hk : k = idx
                  · subst hk
                    rw [Ctx.get_inc_self]
                    have : actCount ((k, pos) :: st.active) k pos = actCount st.active k pos + 1 := by
                      simp [actCount, List.filter_cons]
                    omega
                  · rw [Ctx.get_inc_other _ _ _ hk]
                    have : actCount ((idx, pos) :: st.active) k pos = actCount st.active k pos := by
                      have : (idx == k) = false := by
                        simp only [beq_eq_false_iff_ne, ne_eq]; exact fun e => hk e.symm
                      simp [actCount, List.filter_cons, this]
                    rw [this]; exact hact.2 k
              have hpost := ih body (ctx.inc idx) pos st1 o st2 hbody ⟨hin, hst1, hact1⟩ hr
              have hcalls : st.calls ≤ st2.calls := by
                have := hpost.calls
                have : st1.calls = st.calls := hf.2.2.1
                omega
              refine ⟨hpost.nodes, hpost.err, ?_, rfl, hcalls⟩
              refine ⟨?_, hpost.stOK.ctxErr, hpost.stOK.log⟩
              intro e he
              cases mem_cacheSave he with
              | inl h1 => subst h1; exact ⟨hin, hpost.nodes, hpost.err⟩
              | inr h1 => exact hpost.stOK.cache e h1
      | any gs =>
        simp only at h
        have hgs : CoreList (TermGood cfg) gs := by simpa [G.Core] using hg
        split at h
        · cases h
        · rename_i a st1 hl
          have hA := anyLoop_ind (run cfg fuel) ctx pos
            (fun a s => AltOK cfg pos a ∧ StOK cfg s ∧ s.active = st.active ∧ st.calls ≤ s.calls) gs
            (by
              intro g' hg' a s o' s' hA hr
              obtain ⟨a1, a2, a3, a4⟩ := hA
              have hpost := ih g' ctx pos s.regCall o' s' (CoreList_mem hgs g' hg')
                ⟨hin, StOK_regCall a2, by show ActOK ctx pos s.active; rw [a3]; exact hact⟩ hr
              have hA0 : AltOK cfg pos { a with cp := cpUnion a.cp o'.cp, res := appendNode a.res o'.res } := by
                refine ⟨?_, a1.err, a1.nf⟩
                intro x hx
                cases mem_appendNode _ _ _ hx with
                | inl h1 => exact a1.nodes x h1
                | inr h1 => exact hpost.nodes x h1
              refine ⟨AltOK_altErr hA0 _ hpost.err, hpost.stOK, by rw [hpost.active]; exact a3, ?_⟩
              have := hpost.calls
              have e : s.regCall.calls = s.calls + 1 := rfl
              omega)
            {} st a st1
            ⟨⟨(by intro x hx; cases hx), (by intro er her; cases her), (by intro er her; cases her)⟩, hst, rfl, Nat.le_refl _⟩ hl
          obtain ⟨a1, a2, a3, a4⟩ := hA
          split at h
          · cases h
            refine ⟨(by intro x hx; cases hx), ?_, a2, a3, a4⟩
            intro er her
            cases hae : a.err with
            | some e => simp only [hae] at her; cases her; exact a1.err _ hae
            | none => simp only [hae] at her; exact a1.nf _ her
          · cases h
            obtain ⟨_, _, h3, _, h5⟩ := setError_ctxErr st1 a.err
            refine ⟨a1.nodes, (by intro er her; cases her),
              StOK_setError a2 _ (fun er her => by have := a1.err er her; have := hin.1; omega),
              by rw [h3]; exact a3, by rw [h5]; exact a4⟩
      | choice gs =>
        simp only at h
        have hgs : CoreList (TermGood cfg) gs := by simpa [G.Core] using hg
        have hF := choiceLoop_ind (run cfg fuel) ctx pos
          (fun a s => AltOK cfg pos a ∧ StOK cfg s ∧ s.active = st.active ∧ st.calls ≤ s.calls)
          (fun out a s => AltOK cfg pos a ∧ StOK cfg s ∧ s.active = st.active ∧ st.calls ≤ s.calls ∧
            ∀ o', out = some o' → (∀ x ∈ o'.res.alts, x.pos = pos ∧ x.WF cfg.hi) ∧ o'.err = none) gs
          (by intro a s hA; exact ⟨hA.1, hA.2.1, hA.2.2.1, hA.2.2.2, (by intro o' ho; cases ho)⟩)
          (by
            intro g' hg' a s o' s' hA hr
            obtain ⟨a1, a2, a3, a4⟩ := hA
            have hpost := ih g' ctx pos s.regCall o' s' (CoreList_mem hgs g' hg')
              ⟨hin, StOK_regCall a2, by show ActOK ctx pos s.active; rw [a3]; exact hact⟩ hr
            have hcalls : st.calls ≤ s'.calls := by
              have := hpost.calls
              have e : s.regCall.calls = s.calls + 1 := rfl
              omega
            have hA' : AltOK cfg pos (altErr pos { a with cp := cpUnion a.cp o'.cp } o'.err) :=
              AltOK_altErr (a := { a with cp := cpUnion a.cp o'.cp }) ⟨a1.nodes, a1.err, a1.nf⟩ _ hpost.err
            refine ⟨fun _ => ?_, fun _ => ⟨hA', hpost.stOK, by rw [hpost.active]; exact a3, hcalls⟩⟩
            obtain ⟨_, _, h3, _, h5⟩ := setError_ctxErr s' (altErr pos { a with cp := cpUnion a.cp o'.cp } o'.err).err
            refine ⟨hA', StOK_setError hpost.stOK _ (fun er her => by have := hA'.err er her; have := hin.1; omega),
              by rw [h3, hpost.active]; exact a3, by rw [h5]; exact hcalls, ?_⟩
            intro o2 ho2
            cases ho2
            exact ⟨hpost.nodes, rfl⟩)
        split at h
        · cases h
        · rename_i o1 a st1 hl
          cases h
          obtain ⟨a1, a2, a3, a4, a5⟩ := hF {} st (some o) a st'
            ⟨⟨(by intro x hx; cases hx), (by intro er her; cases her), (by intro er her; cases her)⟩, hst, rfl, Nat.le_refl _⟩ hl
          obtain ⟨h1, h2⟩ := a5 o rfl
          exact ⟨h1, (by rw [h2]; intro er her; cases her), a2, a3, a4⟩
        · rename_i a st1 hl
          cases h
          obtain ⟨a1, a2, a3, a4, _⟩ := hF {} st none a st'
            ⟨⟨(by intro x hx; cases hx), (by intro er her; cases her), (by intro er her; cases her)⟩, hst, rfl, Nat.le_refl _⟩ hl
          refine ⟨(by intro x hx; cases hx), ?_, a2, a3, a4⟩
          intro er her
          cases hae : a.err with
          | some e => simp only [hae] at her; cases her; exact a1.err _ hae
          | none => simp only [hae] at her; exact a1.nf _ her
      | optional g' =>
        simp only at h
        have hg' : g'.Core (TermGood cfg) := by simpa [G.Core] using hg
        split at h
        · cases h
        · rename_i o1 st1 hr
          cases h
          have hpost := ih g' ctx pos st o1 _ hg' ⟨hin, hst, hact⟩ hr
          refine ⟨?_, hpost.err, hpost.stOK, hpost.active, hpost.calls⟩
          intro x hx
          cases mem_appendNode _ _ _ hx with
          | inl h1 => exact hpost.nodes x h1
          | inr h1 =>
            simp only [Res.alts, List.mem_singleton] at h1
            subst h1; exact ⟨rfl, by simpa [Node.WF] using hhi⟩
      | name g' nm =>
        simp only at h
        have hg' : g'.Core (TermGood cfg) := by simpa [G.Core] using hg
        split at h
        · cases h
        · rename_i o1 st1 hr
          have hpost := ih g' ctx pos st o1 st1 hg' ⟨hin, hst, hact⟩ hr
          split at h
          · rename_i e he
            split at h
            · cases h
              exact ⟨(by intro x hx; cases hx), (by intro er her; cases her; exact ⟨Nat.le_refl _, hhi⟩),
                hpost.stOK, hpost.active, hpost.calls⟩
            · cases h
              exact ⟨(by intro x hx; cases hx), (by intro er her; cases her; exact hpost.err _ he),
                hpost.stOK, hpost.active, hpost.calls⟩
          · split at h
            · cases h
              exact ⟨(by intro x hx; cases hx), (by intro er her; cases her; exact ⟨Nat.le_refl _, hhi⟩),
                hpost.stOK, hpost.active, hpost.calls⟩
            · cases h
              exact ⟨hpost.nodes, (by intro er her; cases her), hpost.stOK, hpost.active, hpost.calls⟩
      | single g' =>
        simp only at h
        have hg' : g'.Core (TermGood cfg) := by simpa [G.Core] using hg
        split at h
        · cases h
        · rename_i o1 st1 hr
          have hpost := ih g' ctx pos st o1 st1 hg' ⟨hin, hst, hact⟩ hr
          split at h
          · rename_i e he
            cases h
            exact ⟨(by intro x hx; cases hx), (by intro er her; cases her; exact hpost.err _ he),
              hpost.stOK, hpost.active, hpost.calls⟩
          · split at h
            · rename_i tk c p r i hres
              cases h
              refine ⟨?_, (by intro er her; cases her), hpost.stOK, hpost.active, hpost.calls⟩
              intro x hx
              simp only [Res.alts, List.mem_singleton] at hx
              subst hx
              have := hpost.nodes (.nt tk [x] p r i) (by rw [hres]; simp [Res.alts])
              obtain ⟨hp, hw⟩ := this
              have hw' : x.pos = p ∧ x.WF cfg.hi ∧ Chain cfg.hi [] x.rpos r := by
                simpa only [Node.WF, Chain] using hw
              exact ⟨by rw [hw'.1]; exact hp, hw'.2.1⟩
            · cases h
              exact ⟨hpost.nodes, (by intro er her; cases her), hpost.stOK, hpost.active, hpost.calls⟩
      | suppress g' =>
        simp only at h
        have hg' : g'.Core (TermGood cfg) := by simpa [G.Core] using hg
        split at h
        · cases h
        · rename_i o1 st1 hr
          cases h
          have hpost := ih g' ctx pos st o1 _ hg' ⟨hin, hst, hact⟩ hr
          exact ⟨hpost.nodes, (by intro er her; cases her), hpost.stOK, hpost.active, hpost.calls⟩
      | ltrim g' m => simp [G.Core] at hg
      | rtrim g' m => simp [G.Core] at hg
      | seq k gs o => simp [G.shape] at hsh
      | many g' ae o => simp [G.shape] at hsh
      | sepBy v s ae o => simp [G.shape] at hsh

end PV
