/-
  Stratified grammars (Spec/Strat.lean): the scope predicates the proofs work with, their projections to
  sub-parsers, and what the stratum-0 part of the certificate says about DERIVATIONS (no `run` here):

  `low_derives` — for a stratum-0 parser `g` and a derivation `Derives cfg g pos x` (the monotone reading, of
  which every exact `Big` result is an instance): the tree starts at `pos`, is well formed, carries no "EOF"
  token anywhere, and if it has zero width then `mayBeEmpty g` (soundness of the nullable tables of the
  certificate at derivation level).
-/
import ParsleyVerif.Spec.Strat
import ParsleyVerif.Proofs.WFCons
import ParsleyVerif.Proofs.CurtailCover
import ParsleyVerif.Proofs.BigStepRules
namespace PV.Strat
open PV PV.Text

/-! ### scope -/

/-- a stratum-0 parser in scope: accepted by the check, one parser per Memoize index, terminals in scope -/
structure LowS (cfg : Cfg) (s : Cert) (bodyOf : Nat → G) (g : G) : Prop where
  ok : lowOK s g = true
  gok : GOK bodyOf g
  terms : TermsOK cfg g
  cons : TermsCons cfg g

/-- a stratum-1 parser in scope -/
structure UpS (cfg : Cfg) (s : Cert) (bodyOf : Nat → G) (g : G) : Prop where
  ok : upOK s g = true
  gok : GOK bodyOf g
  terms : TermsOK cfg g
  cons : LeafCons cfg s g

/-- the environment of a stratified grammar -/
structure EnvS (cfg : Cfg) (s : Cert) (bodyOf : Nat → G) : Prop where
  low : ∀ k g, cfg.env[k]? = some g → s.lowRule k = true → LowS cfg s bodyOf g
  up : ∀ k g, cfg.env[k]? = some g → s.lowRule k = false → UpS cfg s bodyOf g
  nullable : ∀ k g, cfg.env[k]? = some g → s.lowRule k = true → mayBeEmpty s.lrf.wf g = true →
    s.lrf.wf.nullable k = true
  closed : ∀ k g, cfg.env[k]? = some g → s.lowRule k = true → ∀ i ∈ lrfMemos s.lrf g, i ∈ s.lrf.lm k

theorem lowOKList_mem {s : Cert} : ∀ {gs : List G}, lowOKList s gs = true → ∀ g ∈ gs, lowOK s g = true
  | [], _, g, hg => by cases hg
  | g' :: gs, h, g, hg => by
    simp only [lowOKList, Bool.and_eq_true] at h
    cases hg with
    | head => exact h.1
    | tail _ hm => exact lowOKList_mem h.2 g hm

theorem upOKList_mem {s : Cert} : ∀ {gs : List G}, upOKList s gs = true → ∀ g ∈ gs, upOK s g = true
  | [], _, g, hg => by cases hg
  | g' :: gs, h, g, hg => by
    simp only [upOKList, Bool.and_eq_true] at h
    cases hg with
    | head => exact h.1
    | tail _ hm => exact upOKList_mem h.2 g hm

theorem tokOK_ne {o : SeqOpts} {d : Bytes} (h : tokOK o d = true) : o.token.getD d ≠ eofTok := by
  simpa [tokOK] using h

namespace LowS
variable {cfg : Cfg} {s : Cert} {bodyOf : Nat → G}

theorem term {t : Terminal} (h : LowS cfg s bodyOf (.term t)) : TermS cfg (.term t) ∧ ConsT cfg (.term t) := by
  have h1 := h.terms
  have h2 := h.cons
  exact ⟨by simpa [TermsOK, G.All] using h1, by simpa [TermsCons, G.All] using h2⟩

theorem memo {i : Nat} {b : G} (h : LowS cfg s bodyOf (.memo i b)) :
    s.lowIdx i = true ∧ i ∉ lrfMemos s.lrf b ∧ (mayBeEmpty s.lrf.wf b = true → s.lrf.wf.nullM i = true) ∧
      b = bodyOf i ∧ LowS cfg s bodyOf b := by
  have h1 := h.ok
  simp only [lowOK, Bool.and_eq_true, Bool.not_eq_true', Bool.or_eq_true, List.contains_eq_mem,
    decide_eq_false_iff_not] at h1
  have h2 : b = bodyOf i ∧ GOK bodyOf b := by simpa [GOK, G.All, LocalOK] using h.gok
  have h3 : TermS cfg (.memo i b) ∧ b.All (TermS cfg) := by simpa [TermsOK, G.All] using h.terms
  have h4 : ConsT cfg (.memo i b) ∧ b.All (ConsT cfg) := by simpa [TermsCons, G.All] using h.cons
  refine ⟨h1.1.1.1, h1.1.1.2, ?_, h2.1, ⟨h1.2, h2.2, h3.2, h4.2⟩⟩
  intro hm
  cases h1.1.2 with
  | inl h4 => rw [hm] at h4; cases h4
  | inr h4 => exact h4

theorem any {gs : List G} (h : LowS cfg s bodyOf (.any gs)) : ∀ g ∈ gs, LowS cfg s bodyOf g := by
  have h1 : lowOKList s gs = true := by simpa [lowOK] using h.ok
  have h2 : LocalOK bodyOf (.any gs) ∧ AllList (LocalOK bodyOf) gs := by simpa [GOK, G.All] using h.gok
  have h3 : TermS cfg (.any gs) ∧ AllList (TermS cfg) gs := by simpa [TermsOK, G.All] using h.terms
  have h4 : ConsT cfg (.any gs) ∧ AllList (ConsT cfg) gs := by simpa [TermsCons, G.All] using h.cons
  exact fun g hg => ⟨lowOKList_mem h1 g hg, AllList_mem h2.2 g hg, AllList_mem h3.2 g hg, AllList_mem h4.2 g hg⟩

theorem choice {gs : List G} (h : LowS cfg s bodyOf (.choice gs)) : ∀ g ∈ gs, LowS cfg s bodyOf g := by
  have h1 : lowOKList s gs = true := by simpa [lowOK] using h.ok
  have h2 : LocalOK bodyOf (.choice gs) ∧ AllList (LocalOK bodyOf) gs := by simpa [GOK, G.All] using h.gok
  have h3 : TermS cfg (.choice gs) ∧ AllList (TermS cfg) gs := by simpa [TermsOK, G.All] using h.terms
  have h4 : ConsT cfg (.choice gs) ∧ AllList (ConsT cfg) gs := by simpa [TermsCons, G.All] using h.cons
  exact fun g hg => ⟨lowOKList_mem h1 g hg, AllList_mem h2.2 g hg, AllList_mem h3.2 g hg, AllList_mem h4.2 g hg⟩

theorem optional {g : G} (h : LowS cfg s bodyOf (.optional g)) : LowS cfg s bodyOf g := by
  have h1 : lowOK s g = true := by simpa [lowOK] using h.ok
  have h2 : LocalOK bodyOf (.optional g) ∧ g.All (LocalOK bodyOf) := by simpa [GOK, G.All] using h.gok
  have h3 : TermS cfg (.optional g) ∧ g.All (TermS cfg) := by simpa [TermsOK, G.All] using h.terms
  have h4 : ConsT cfg (.optional g) ∧ g.All (ConsT cfg) := by simpa [TermsCons, G.All] using h.cons
  exact ⟨h1, h2.2, h3.2, h4.2⟩

theorem name {g : G} {nm : Bytes} (h : LowS cfg s bodyOf (.name g nm)) : LowS cfg s bodyOf g := by
  have h1 : lowOK s g = true := by simpa [lowOK] using h.ok
  have h2 : LocalOK bodyOf (.name g nm) ∧ g.All (LocalOK bodyOf) := by simpa [GOK, G.All] using h.gok
  have h3 : TermS cfg (.name g nm) ∧ g.All (TermS cfg) := by simpa [TermsOK, G.All] using h.terms
  have h4 : ConsT cfg (.name g nm) ∧ g.All (ConsT cfg) := by simpa [TermsCons, G.All] using h.cons
  exact ⟨h1, h2.2, h3.2, h4.2⟩

theorem single {g : G} (h : LowS cfg s bodyOf (.single g)) : LowS cfg s bodyOf g := by
  have h1 : lowOK s g = true := by simpa [lowOK] using h.ok
  have h2 : LocalOK bodyOf (.single g) ∧ g.All (LocalOK bodyOf) := by simpa [GOK, G.All] using h.gok
  have h3 : TermS cfg (.single g) ∧ g.All (TermS cfg) := by simpa [TermsOK, G.All] using h.terms
  have h4 : ConsT cfg (.single g) ∧ g.All (ConsT cfg) := by simpa [TermsCons, G.All] using h.cons
  exact ⟨h1, h2.2, h3.2, h4.2⟩

theorem suppress {g : G} (h : LowS cfg s bodyOf (.suppress g)) : LowS cfg s bodyOf g := by
  have h1 : lowOK s g = true := by simpa [lowOK] using h.ok
  have h2 : LocalOK bodyOf (.suppress g) ∧ g.All (LocalOK bodyOf) := by simpa [GOK, G.All] using h.gok
  have h3 : TermS cfg (.suppress g) ∧ g.All (TermS cfg) := by simpa [TermsOK, G.All] using h.terms
  have h4 : ConsT cfg (.suppress g) ∧ g.All (ConsT cfg) := by simpa [TermsCons, G.All] using h.cons
  exact ⟨h1, h2.2, h3.2, h4.2⟩

/-- the elements of a stratum-0 Sequence-family parser are stratum-0 parsers; its token is not "EOF" -/
theorem lookup {g : G} {sh : SeqShape} (h : LowS cfg s bodyOf g) (hs : g.shape = some sh) :
    (∀ d g', sh.lookup d = some g' → LowS cfg s bodyOf g') ∧ sh.token ≠ eofTok := by
  have hl : ∀ d g', sh.lookup d = some g' → lowOK s g' = true := by
    cases g with
    | seq k gs o =>
      simp only [G.shape, Option.some.injEq] at hs
      subst hs
      have h1 : tokOK o seqTok = true ∧ lowOKList s gs = true := by simpa [lowOK] using h.ok
      intro d g' hd
      exact lowOKList_mem h1.2 g' (List.mem_of_getElem? hd)
    | many g1 ae o =>
      simp only [G.shape, Option.some.injEq] at hs
      subst hs
      have h1 : tokOK o manyTok = true ∧ lowOK s g1 = true := by simpa [lowOK] using h.ok
      intro d g' hd
      simp only [Option.some.injEq] at hd
      subst hd; exact h1.2
    | sepBy v sp ae o =>
      simp only [G.shape, Option.some.injEq] at hs
      subst hs
      have h1 : (tokOK o sepByTok = true ∧ lowOK s v = true) ∧ lowOK s sp = true := by simpa [lowOK] using h.ok
      intro d g' hd
      simp only at hd
      split at hd
      · cases hd; exact h1.1.2
      · cases hd; exact h1.2
    | _ => simp [G.shape] at hs
  have ht : sh.token ≠ eofTok := by
    cases g with
    | seq k gs o =>
      simp only [G.shape, Option.some.injEq] at hs
      subst hs
      have h1 : tokOK o seqTok = true ∧ lowOKList s gs = true := by simpa [lowOK] using h.ok
      exact tokOK_ne h1.1
    | many g1 ae o =>
      simp only [G.shape, Option.some.injEq] at hs
      subst hs
      have h1 : tokOK o manyTok = true ∧ lowOK s g1 = true := by simpa [lowOK] using h.ok
      exact tokOK_ne h1.1
    | sepBy v sp ae o =>
      simp only [G.shape, Option.some.injEq] at hs
      subst hs
      have h1 : (tokOK o sepByTok = true ∧ lowOK s v = true) ∧ lowOK s sp = true := by simpa [lowOK] using h.ok
      exact tokOK_ne h1.1.1
    | _ => simp [G.shape] at hs
  exact ⟨fun d g' hd => ⟨hl d g' hd, shape_lookup_all h.gok hs d g' hd, shape_lookup_all h.terms hs d g' hd,
    shape_lookup_all h.cons hs d g' hd⟩, ht⟩

end LowS

/-! ### nullable tables -/

theorem mbeAny_mem {c : WFCert} : ∀ {gs : List G} {g : G}, g ∈ gs → mayBeEmpty c g = true → mbeAny c gs = true
  | [], _, hg, _ => by cases hg
  | g' :: gs, g, hg, h => by
    simp only [mbeAny, Bool.or_eq_true]
    cases hg with
    | head => exact .inl h
    | tail _ hm => exact .inr (mbeAny_mem hm h)

/-! ### what a stratum-0 derivation looks like -/

theorem InFile_hi {cfg : Cfg} {pos : Nat} (h : InFile cfg.file pos) : pos ≤ cfg.hi := h.2

structure DOut (cfg : Cfg) (s : Cert) (g : G) (pos : Nat) (x : Node) : Prop where
  start : x.pos = pos
  wf : x.WF cfg.hi
  tok : NoEofDeep x
  null : x.rpos = pos → mayBeEmpty s.lrf.wf g = true

theorem DOut.inFile {cfg : Cfg} {s : Cert} {g : G} {pos : Nat} {x : Node} (h : DOut cfg s g pos x)
    (hin : InFile cfg.file pos) : pos ≤ x.rpos ∧ x.rpos ≤ cfg.hi ∧ InFile cfg.file x.rpos := by
  have hb := Node.WF_bounds cfg.hi x h.wf
  rw [h.start] at hb
  exact ⟨hb.1, hb.2, InFile_of_le hin hb.1 hb.2⟩

theorem noEofDeep_token : ∀ {x : Node}, NoEofDeep x → x.token ≠ eofTok
  | .term _ _ _ _, h => by simpa [NoEofDeep, Node.token] using h
  | .empty _, _ => by simp [Node.token, eofTok]
  | .eof _, h => by simp [NoEofDeep] at h
  | .nt _ _ _ _ _, h => by
    simp only [NoEofDeep] at h
    simpa [Node.token] using h.1

theorem noEofDeep_handleResult (sh : SeqShape) (p : Nat) (nodes : List Node) (ht : sh.token ≠ eofTok)
    (hn : NoEofDeepList nodes) : NoEofDeep (handleResult sh p nodes) := by
  cases nodes with
  | nil => simp only [handleResult, NoEofDeep, NoEofDeepList]; exact ⟨ht, trivial⟩
  | cons n rest =>
    cases rest with
    | nil =>
      simp only [NoEofDeepList] at hn
      by_cases hs : sh.single = true
      · simp only [handleResult, hs, ↓reduceIte]; exact hn.1
      · simp only [handleResult, hs, NoEofDeep, NoEofDeepList]; exact ⟨ht, hn.1, trivial⟩
    | cons m rest =>
      show NoEofDeep (.nt sh.token (n :: m :: rest) _ _ _)
      simp only [NoEofDeep]
      exact ⟨ht, hn⟩

theorem noEofDeepList_mem : ∀ {l : List Node}, NoEofDeepList l → ∀ n ∈ l, NoEofDeep n
  | [], _, n, hn => by cases hn
  | m :: l, h, n, hn => by
    simp only [NoEofDeepList] at h
    cases hn with
    | head => exact h.1
    | tail _ hm => exact noEofDeepList_mem h.2 n hm

mutual
/-- **stratum-0 derivations**: position, well-formedness, tokens, and soundness of the nullable tables -/
theorem low_derives {cfg : Cfg} {s : Cert} {bodyOf : Nat → G} (henv : EnvS cfg s bodyOf) :
    ∀ {g : G} {pos : Nat} {x : Node}, Derives cfg g pos x → LowS cfg s bodyOf g → InFile cfg.file pos →
      DOut cfg s g pos x
  | _, pos, _, .term (t := t) (n := n) hp, hg, hin => by
    obtain ⟨⟨t1, t3⟩, t2⟩ := hg.term
    obtain ⟨a1, a2⟩ := (t1 pos hin).1 n hp
    refine ⟨a1, a2, t3 pos n hp, ?_⟩
    intro hz
    have := t2 pos n hin hp
    omega
  | _, pos, _, .empty, _, hin => by
    refine ⟨rfl, ?_, trivial, fun _ => rfl⟩
    simp only [Node.WF]; exact hin.2
  | _, _, _, .eof _, hg, _ => by have := hg.ok; simp [lowOK] at this
  | _, pos, x, .ref (k := k) (g := g) hk hd, hg, hin => by
    have hlow : s.lowRule k = true := by simpa [lowOK] using hg.ok
    have ih := low_derives henv hd (henv.low k g hk hlow) hin
    refine ⟨ih.start, ih.wf, ih.tok, ?_⟩
    intro hz
    simp only [mayBeEmpty]
    exact henv.nullable k g hk hlow (ih.null hz)
  | _, pos, x, .memo (i := i) (g := b) hd, hg, hin => by
    obtain ⟨_, _, m3, _, m5⟩ := hg.memo
    have ih := low_derives henv hd m5 hin
    refine ⟨ih.start, ih.wf, ih.tok, ?_⟩
    intro hz
    simp only [mayBeEmpty]
    exact m3 (ih.null hz)
  | _, pos, x, .any (gs := gs) (g := g) hm hd, hg, hin => by
    have ih := low_derives henv hd (hg.any g hm) hin
    refine ⟨ih.start, ih.wf, ih.tok, ?_⟩
    intro hz
    simp only [mayBeEmpty]
    exact mbeAny_mem hm (ih.null hz)
  | _, pos, x, .choice (gs := gs) (g := g) hm hd, hg, hin => by
    have ih := low_derives henv hd (hg.choice g hm) hin
    refine ⟨ih.start, ih.wf, ih.tok, ?_⟩
    intro hz
    simp only [mayBeEmpty]
    exact mbeAny_mem hm (ih.null hz)
  | _, pos, x, .optSome hd, hg, hin => by
    have ih := low_derives henv hd hg.optional hin
    exact ⟨ih.start, ih.wf, ih.tok, fun _ => rfl⟩
  | _, pos, _, .optNone, _, hin => by
    refine ⟨rfl, ?_, trivial, fun _ => rfl⟩
    simp only [Node.WF]; exact hin.2
  | _, pos, x, .name hd, hg, hin => by
    have ih := low_derives henv hd hg.name hin
    exact ⟨ih.start, ih.wf, ih.tok, fun hz => by simp only [mayBeEmpty]; exact ih.null hz⟩
  | _, pos, x, .suppress hd, hg, hin => by
    have ih := low_derives henv hd hg.suppress hin
    exact ⟨ih.start, ih.wf, ih.tok, fun hz => by simp only [mayBeEmpty]; exact ih.null hz⟩
  | _, pos, c, .singleUnwrap (tk := tk) (p := p) (r := r) (i := i) hd, hg, hin => by
    have ih := low_derives henv hd hg.single hin
    have hp : p = pos := ih.start
    have hw : c.pos = p ∧ c.WF cfg.hi ∧ (c.rpos = r ∧ r ≤ cfg.hi) := by
      have := ih.wf; simpa only [Node.WF, Chain] using this
    have ht : tk ≠ eofTok ∧ (NoEofDeep c ∧ True) := by
      have := ih.tok; simpa only [NoEofDeep, NoEofDeepList] using this
    refine ⟨by rw [hw.1, hp], hw.2.1, ht.2.1, ?_⟩
    intro hz
    simp only [mayBeEmpty]
    refine ih.null ?_
    show r = pos
    rw [← hw.2.2.1]; exact hz
  | _, pos, x, .singleKeep hd, hg, hin => by
    have ih := low_derives henv hd hg.single hin
    exact ⟨ih.start, ih.wf, ih.tok, fun hz => by simp only [mayBeEmpty]; exact ih.null hz⟩
  | _, _, _, .ltrim _, hg, _ => by have := hg.ok; simp [lowOK] at this
  | _, _, _, .rtrimMove _, hg, _ => by have := hg.ok; simp [lowOK] at this
  | _, _, _, .rtrimKeep _, hg, _ => by have := hg.ok; simp [lowOK] at this
  | g, pos, _, .seqfam (sh := sh) (nodes := nodes) hs hds hl, hg, hin => by
    obtain ⟨l1, l2⟩ := hg.lookup hs
    obtain ⟨c1, c2, c3⟩ := low_derivesSeq henv hds l1 hin
    have hok := handleResult_ok cfg.hi sh pos (endOf pos nodes) nodes c1
    have heq : handleResult sh pos nodes = handleResult sh (endOf pos nodes) nodes := by
      cases hn : nodes with
      | nil => rfl
      | cons a b => exact handleResult_pos_irrel sh _ _ _ (by simp)
    rw [heq]
    refine ⟨hok.1, hok.2, noEofDeep_handleResult sh _ nodes l2 c2, ?_⟩
    intro hz
    rw [handleResult_rpos_wf cfg.hi sh pos _ nodes c1] at hz
    cases hmb : mayBeEmpty s.lrf.wf g with
    | true => rfl
    | false =>
      exact (shape_emit_cons hs hmb nodes.length hl (fun i hi gi hgi => c3 hz i hi gi (by simpa using hgi))).elim
theorem low_derivesSeq {cfg : Cfg} {s : Cert} {bodyOf : Nat → G} (henv : EnvS cfg s bodyOf) :
    ∀ {sh : SeqShape} {d pos : Nat} {nodes : List Node}, DerivesSeq cfg sh d pos nodes →
      (∀ d g', sh.lookup d = some g' → LowS cfg s bodyOf g') → InFile cfg.file pos →
      Chain cfg.hi nodes pos (endOf pos nodes) ∧ NoEofDeepList nodes ∧
      (endOf pos nodes = pos → ∀ i, i < nodes.length → ∀ gi, sh.lookup (d + i) = some gi →
        mayBeEmpty s.lrf.wf gi = true)
  | _, _, pos, _, .nil, _, hin => by
    refine ⟨?_, trivial, fun _ i hi => by simp at hi⟩
    simp only [Chain, endOf_nil, true_and]; exact hin.2
  | sh, d, pos, _, .cons (g := g) (n := n) (rest := rest) hl hd hrest, hg, hin => by
    have ih1 := low_derives henv hd (hg d g hl) hin
    obtain ⟨b1, b2, b3⟩ := ih1.inFile hin
    obtain ⟨c1, c2, c3⟩ := low_derivesSeq henv hrest hg b3
    have hcb := Chain_bounds cfg.hi rest n.rpos _ c1
    refine ⟨?_, ⟨ih1.tok, c2⟩, ?_⟩
    · rw [endOf_cons]
      simp only [Chain]
      exact ⟨ih1.start, ih1.wf, c1⟩
    · intro hz i hi gi hgi
      rw [endOf_cons] at hz
      have hn : n.rpos = pos := by omega
      cases i with
      | zero =>
        simp only [Nat.add_zero] at hgi
        rw [hl] at hgi
        cases hgi
        exact ih1.null hn
      | succ j =>
        refine c3 (by omega) j (by simp at hi; omega) gi ?_
        rw [← hgi]; congr 1; omega
end

/-- every alternative of an exact stratum-0 result -/
theorem low_big {cfg : Cfg} {s : Cert} {bodyOf : Nat → G} (henv : EnvS cfg s bodyOf) {g : G} {pos : Nat} {R : Res}
    {e : Bool} (hb : Big cfg g pos R e) (hg : LowS cfg s bodyOf g) (hin : InFile cfg.file pos) :
    ∀ x ∈ R.alts, DOut cfg s g pos x :=
  fun x hx => low_derives henv (Big.big_derives hb x hx) hg hin

end PV.Strat
