/-
  parsley.EvaluateNode, (*NonTerminalNode).Value, ast.InterpreterFunc.Eval and the interpreters of ast/interpreter
  (Select, Array, Object, Nil), translated, against the model's `evalNode` (Model/Eval.lean).

  Evaluation does not write the heap, so no separation is needed: `NRep h x n` says that the heap `h` shows the model
  node `x` at the node value `n` (sharing is allowed).
-/
import ParsleyVerif.Proofs.TreeTieBasics
import ParsleyVerif.Proofs.Walk
import ParsleyVerif.Model.Eval
import Mathlib.Tactic.Ring
import Mathlib.Tactic.Push
namespace PV.TreeTie
open PV.CorePrelude hiding Node World
open PV.TreePrelude PV.FactsTree


abbrev MNode := PV.Node

mutual
/-- a value of the model as an `interface{}` value: a string is a Go string, an array a []interface{}, an object a
    map[string]interface{}; the other kinds of value are of other dynamic types (tagged) -/
def tV : V → TValue
  | .nil => .nil
  | .int i => .other 0 [i]
  | .str b => .str b
  | .rune c => .other 1 [(c : Int)]
  | .bool b => .other 2 [if b then 1 else 0]
  | .float l => .other 3 (l.map Int.ofNat)
  | .dur l => .other 4 (l.map Int.ofNat)
  | .opaque id => .other 5 [(id : Int)]
  | .arr l => .list (tVs l)
  | .obj kvs => .smap (tKVs kvs)
def tVs : List V → List TValue
  | [] => []
  | v :: r => tV v :: tVs r
def tKVs : List (Text.Bytes × V) → List (Bytes × TValue)
  | [] => []
  | (k, v) :: r => (k, tV v) :: tKVs r
end

theorem tVs_eq_map (l : List V) : tVs l = l.map tV := by
  induction l with
  | nil => rfl
  | cons v r ih => simp [tVs, ih]

theorem tVs_append (l₁ l₂ : List V) : tVs (l₁ ++ l₂) = tVs l₁ ++ tVs l₂ := by
  simp [tVs_eq_map]

theorem tVs_length (l : List V) : (tVs l).length = l.length := by simp [tVs_eq_map]

/-- the model's interpreter as an interpreter value -/
def iEnc : PV.Interp → TInterp
  | .none => .nil
  | .select i => .select ⟨(i : Int)⟩
  | .array => .fn .Array
  | .object => .fn .Object
  | .nilI => .fn .Nil
  | .custom id => .custom id

mutual
/-- the heap shows the model node `x` at the node value `n` -/
def NRep (h : Heap) : MNode → TN → Prop
  | .term tok v p r, n => ∃ sch, n = .term { schema := sch, token := tok, value := tV v.toV, pos := p, readerPos := r }
  | .empty p, n => n = .empty p
  | .eof p, n => n = .eof p
  | .nt _ cs p _ ip, n => ∃ a c, n = .ref a ∧ h a = some c ∧ c.pos = (p : Int) ∧ c.interpreter = iEnc ip ∧ NRepL h cs c.children
def NRepL (h : Heap) : List MNode → List TN → Prop
  | [], [] => True
  | x :: xs, n :: ns => NRep h x n ∧ NRepL h xs ns
  | _, _ => False
end

theorem NRepL_length {h : Heap} : ∀ {cs : List MNode} {ns : List TN}, NRepL h cs ns → ns.length = cs.length
  | [], [], _ => rfl
  | _ :: xs, _ :: ns, hr => by simp [NRepL_length hr.2]
  | [], _ :: _, hr => by simp [NRepL] at hr
  | _ :: _, [], hr => by simp [NRepL] at hr

theorem NRepL_get {h : Heap} : ∀ {cs : List MNode} {ns : List TN}, NRepL h cs ns → ∀ (i : Nat) (x : MNode),
    cs[i]? = some x → ∃ n, ns[i]? = some n ∧ NRep h x n
  | [], [], _, i, x, hx => by simp at hx
  | y :: xs, n :: ns, hr, 0, x, hx => by simp at hx; subst hx; exact ⟨n, rfl, hr.1⟩
  | y :: xs, n :: ns, hr, i + 1, x, hx => by
    simp at hx
    obtain ⟨n', h1, h2⟩ := NRepL_get hr.2 i x hx
    exact ⟨n', by simpa using h1, h2⟩
  | [], _ :: _, hr, _, _, _ => by simp [NRepL] at hr
  | _ :: _, [], hr, _, _, _ => by simp [NRepL] at hr

/-- the outcome `x` of a translated evaluation in the state `s` is the model's outcome (the store is not written) -/
def EvCorr (s : TSt) (x : TRes TSt (TValue × TErr)) : EvalOut → Prop
  | .ok v => x = .ok (tV v, PV.CorePrelude.Err.nil) s
  | .err p m => ∃ v, x = .ok (v, PV.CorePrelude.Err.mk (p : Int) (.other 0 m)) s
  | .panic _ => x = .panic

/-- the hypothesis about user-defined interpreters: on a node the heap shows, handed an evaluator that agrees with the
    model's on the nodes not deeper than the children, the world's `Eval` answers what the model's `ce` answers -/
def EvalWorld (W : TW) (ce : CustomEval) (uctx : TValue) : Prop :=
  ∀ (id : Nat) (cb : TValue → TN → TM (TValue × TErr)) (ev : MNode → EvalOut) (s : TSt) (a : Ptr) (tok : Text.Bytes)
    (cs : List MNode) (p r : Nat),
    NRep s.heap (.nt tok cs p r (.custom id)) (.ref a) →
    (∀ x n, x.depth ≤ depthAll cs → NRep s.heap x n → EvCorr s (cb uctx n s) (ev x)) →
    EvCorr s (W.Eval cb (.custom id) uctx (.ref a) s) (ce id cs p ev)

theorem noValue_eq : ErrNoValue = .other 0 noValueMsg := rfl

/-! ### interpreter.Array -/

theorem evalArray_step (ev : MNode → EvalOut) (c : MNode) (rest : List MNode) (acc : List V) :
    evalArray ev (c :: rest) acc = match ev c with
      | .ok v => evalArray ev (rest.drop 1) (acc ++ [v])
      | e => e := by
  cases rest with
  | nil => cases h : ev c <;> simp [evalArray, h]
  | cons d r => cases h : ev c <;> simp [evalArray, h]

/-- the outcome of the translated loop of Array against the model's `evalArray` -/
def ArrCorr (s : TSt) (x : TRes TSt (Brk (TValue × TErr) (List TValue × Int))) : EvalOut → Prop
  | .ok v => ∃ vs i', v = .arr vs ∧ x = .ok (.done (tVs vs, i')) s
  | .err p m => x = .ok (.ret (PV.TreePrelude.Value.nil, PV.CorePrelude.Err.mk (p : Int) (.other 0 m))) s
  | .panic _ => x = .panic

theorem nth_nat {α : Type} (l : List α) (i : Nat) (s : TSt) :
    (CorePrelude.Go.nth l (i : Int) : TM α) s = match l[i]? with | some v => .ok v s | none => .panic := by
  simp only [CorePrelude.Go.nth, Int.natCast_nonneg, ↓reduceIte, Int.toNat_natCast]
  cases l[i]? <;> rfl

theorem drop_eq_cons {α : Type} (l : List α) (i : Nat) (x : α) (h : l[i]? = some x) : l.drop i = x :: l.drop (i + 1) := by
  have hi : i < l.length := by
    rcases Nat.lt_or_ge i l.length with h1 | h1
    · exact h1
    · rw [List.getElem?_eq_none h1] at h; cases h
  rw [List.drop_eq_getElem_cons hi]
  simp [List.getElem?_eq_getElem hi] at h
  rw [h]

theorem arr_loop (W : TW) (uctx : TValue) (s : TSt) (ns : List TN) (cs : List MNode) (hrep : NRepL s.heap cs ns)
    (ev : MNode → EvalOut) (r1 : TValue → TN → TM (TValue × TErr)) (r2 : Ptr → TValue → TM (TValue × TErr))
    (r3 : FnName → TValue → TN → TM (TValue × TErr)) (r4 : selectInterpreter → TValue → TN → TM (TValue × TErr))
    (r5 r6 : TValue → TN → TM (TValue × TErr))
    (hrec : ∀ x n, x ∈ cs → NRep s.heap x n → EvCorr s (r1 uctx n s) (ev x)) :
    ∀ (m j : Nat) (acc : List V) (lfuel : Nat), cs.length - 2 * j ≤ m → acc.length = j → cs.length - 2 * j < lfuel →
      2 * j ≤ cs.length + 1 →
      ArrCorr s (Array_func_loop1 W uctx ns r1 r2 r3 r4 r5 r6 lfuel
        (tVs acc ++ List.replicate ((cs.length + 1) / 2 - j) PV.TreePrelude.Value.nil) ((2 * j : Nat) : Int) s)
        (evalArray ev (cs.drop (2 * j)) acc) := by
  have hlen := NRepL_length hrep
  intro m
  induction m with
  | zero =>
    intro j acc lfuel hm hacc hfu hj
    obtain ⟨lfuel, rfl⟩ : ∃ k, lfuel = k + 1 := ⟨lfuel - 1, by omega⟩
    have hd : cs.drop (2 * j) = [] := List.drop_eq_nil_of_le (by omega)
    have h0 : (cs.length + 1) / 2 - j = 0 := by omega
    simp only [Array_func_loop1, CorePrelude.Go.len, hlen, hd, evalArray, ArrCorr, h0, List.replicate_zero, List.append_nil]
    refine ⟨acc, ((2 * j : Nat) : Int), rfl, ?_⟩
    have : ¬ (2 * (j : Int) < (cs.length : Int)) := by omega
    simp [this]
  | succ m ih =>
    intro j acc lfuel hm hacc hfu hj
    obtain ⟨lfuel, rfl⟩ : ∃ k, lfuel = k + 1 := ⟨lfuel - 1, by omega⟩
    by_cases hlt : 2 * j < cs.length
    · obtain ⟨c, hc⟩ : ∃ c, cs[2 * j]? = some c := ⟨cs[2 * j], by simp [hlt]⟩
      obtain ⟨n, hn, hrn⟩ := NRepL_get hrep (2 * j) c hc
      have hmem : c ∈ cs := List.mem_of_getElem? hc
      have hcorr := hrec c n hmem hrn
      have hlt' : ((2 * j : Nat) : Int) < (cs.length : Int) := by omega
      rw [drop_eq_cons cs (2 * j) c hc, evalArray_step]
      simp only [Array_func_loop1, CorePrelude.Go.len, hlen, hlt', decide_true, ↓reduceIte, bind_apply, nth_nat, hn]
      cases hev : ev c with
      | ok v =>
        rw [hev] at hcorr
        simp only [EvCorr] at hcorr
        have hj2 : j < (cs.length + 1) / 2 := by omega
        have hset : (CorePrelude.Go.setNth (tVs acc ++ List.replicate ((cs.length + 1) / 2 - j) PV.TreePrelude.Value.nil) (j : Int) (tV v) : TM (List TValue)) s =
            .ok (tVs (acc ++ [v]) ++ List.replicate ((cs.length + 1) / 2 - (j + 1)) PV.TreePrelude.Value.nil) s := by
          have hl : j < (tVs acc ++ List.replicate ((cs.length + 1) / 2 - j) PV.TreePrelude.Value.nil).length := by
            simp [tVs_length, hacc]; omega
          unfold CorePrelude.Go.setNth
          simp only [Int.natCast_nonneg, Int.toNat_natCast, hl, and_self, ↓reduceIte, pure_apply]
          congr 1
          have e1 : (cs.length + 1) / 2 - j = ((cs.length + 1) / 2 - (j + 1)) + 1 := by omega
          rw [e1, List.replicate_succ, tVs_append]
          have hl2 : (tVs acc).length = j := by rw [tVs_length, hacc]
          rw [List.set_append_right _ _ (by omega)]
          simp [hl2, tVs]
        have htd : Int.tdiv ((2 * j : Nat) : Int) 2 = (j : Int) := by
          push_cast
          exact Int.mul_tdiv_cancel_left _ (by decide)
        have hi2 : ((2 * j : Nat) : Int) + 2 = ((2 * (j + 1) : Nat) : Int) := by push_cast; ring
        simp only [hcorr, CorePrelude.Err.isNil, Bool.not_true, Bool.false_eq_true, ↓reduceIte, bind_apply]
        simp (disch := omega) only [dec_false, Bool.false_eq_true, ↓reduceIte, pure_apply, htd, hset, hi2]
        have := ih (j + 1) (acc ++ [v]) lfuel (by omega) (by simp [hacc]) (by omega) (by omega)
        have hd2 : (cs.drop (2 * j + 1)).drop 1 = cs.drop (2 * (j + 1)) := by
          rw [List.drop_drop]; congr 1
        rw [hd2]
        exact this
      | err p msg =>
        rw [hev] at hcorr
        obtain ⟨v', hv'⟩ := hcorr
        simp [hv', ArrCorr, CorePrelude.Err.isNil]
      | panic msg =>
        rw [hev] at hcorr
        simp only [EvCorr] at hcorr
        simp [hcorr, ArrCorr]
    · have hd : cs.drop (2 * j) = [] := List.drop_eq_nil_of_le (by omega)
      have h0 : (cs.length + 1) / 2 - j = 0 := by omega
      simp only [Array_func_loop1, CorePrelude.Go.len, hlen, hd, evalArray, ArrCorr, h0, List.replicate_zero, List.append_nil]
      refine ⟨acc, ((2 * j : Nat) : Int), rfl, ?_⟩
      have : ¬ (2 * (j : Int) < (cs.length : Int)) := by omega
      simp [this]

/-! ### interpreter.Object -/

theorem evalObject_step (ev : MNode → EvalOut) (kv : MNode) (rest : List MNode) (acc : List (Text.Bytes × V)) :
    evalObject ev (kv :: rest) acc = match evalKeyValue ev kv acc with
      | .ok acc' => evalObject ev (rest.drop 1) acc'
      | .error e => e := by
  cases rest with
  | nil => cases h : evalKeyValue ev kv acc <;> simp [evalObject, h]
  | cons d r => cases h : evalKeyValue ev kv acc <;> simp [evalObject, h]

theorem smapSet_tKVs (acc : List (Text.Bytes × V)) (k : Text.Bytes) (v : V) :
    TreePrelude.Go.smapSet (tKVs acc) k (tV v) = tKVs (objSet acc k v) := by
  induction acc with
  | nil => simp [tKVs, TreePrelude.Go.smapSet, objSet]
  | cons kv r ih =>
    obtain ⟨k', v'⟩ := kv
    by_cases h : k = k'
    · simp [tKVs, TreePrelude.Go.smapSet, objSet, h]
    · simp [tKVs, TreePrelude.Go.smapSet, objSet, h, ih]

/-- the outcome of the translated loop of Object against the model's `evalObject` -/
def ObjCorr (s : TSt) (x : TRes TSt (Brk (TValue × TErr) (List (Bytes × TValue) × Int))) : EvalOut → Prop
  | .ok v => ∃ kvs i', v = .obj kvs ∧ x = .ok (.done (tKVs kvs, i')) s
  | .err p m => x = .ok (.ret (PV.TreePrelude.Value.nil, PV.CorePrelude.Err.mk (p : Int) (.other 0 m))) s
  | .panic _ => x = .panic

theorem tV_str_inv (v : V) (b : Bytes) (h : tV v = .str b) : v = .str b := by
  cases v <;> simp [tV] at h
  subst h; rfl

theorem assertString_tV (v : V) (s : TSt) :
    (TreePrelude.Go.assertString (tV v) : TM Bytes) s = match v with | .str k => .ok k s | _ => .panic := by
  cases v <;> simp [tV, TreePrelude.Go.assertString]

set_option maxHeartbeats 1000000 in
theorem obj_loop (W : TW) (uctx : TValue) (s : TSt) (ns : List TN) (cs : List MNode) (hrep : NRepL s.heap cs ns)
    (ev : MNode → EvalOut) (r1 : TValue → TN → TM (TValue × TErr)) (r2 : Ptr → TValue → TM (TValue × TErr))
    (r3 : FnName → TValue → TN → TM (TValue × TErr)) (r4 : selectInterpreter → TValue → TN → TM (TValue × TErr))
    (r5 r6 : TValue → TN → TM (TValue × TErr))
    (hrec : ∀ x n, x.depth ≤ depthAll cs → NRep s.heap x n → EvCorr s (r1 uctx n s) (ev x)) :
    ∀ (m j : Nat) (acc : List (Text.Bytes × V)) (lfuel : Nat), cs.length - 2 * j ≤ m → cs.length - 2 * j < lfuel →
      ObjCorr s (Object_func_loop1 W uctx ns r1 r2 r3 r4 r5 r6 lfuel (tKVs acc) ((2 * j : Nat) : Int) s)
        (evalObject ev (cs.drop (2 * j)) acc) := by
  have hlen := NRepL_length hrep
  have hexit : ∀ (j : Nat) (acc : List (Text.Bytes × V)) (lfuel : Nat), ¬ 2 * j < cs.length →
      ObjCorr s (Object_func_loop1 W uctx ns r1 r2 r3 r4 r5 r6 (lfuel + 1) (tKVs acc) ((2 * j : Nat) : Int) s)
        (evalObject ev (cs.drop (2 * j)) acc) := by
    intro j acc lfuel hlt
    have hd : cs.drop (2 * j) = [] := List.drop_eq_nil_of_le (by omega)
    simp only [Object_func_loop1, CorePrelude.Go.len, hlen, hd, evalObject, ObjCorr]
    refine ⟨acc, ((2 * j : Nat) : Int), rfl, ?_⟩
    have : ¬ (2 * (j : Int) < (cs.length : Int)) := by omega
    simp [this]
  intro m
  induction m with
  | zero =>
    intro j acc lfuel hm hfu
    obtain ⟨lfuel, rfl⟩ : ∃ k, lfuel = k + 1 := ⟨lfuel - 1, by omega⟩
    exact hexit j acc lfuel (by omega)
  | succ m ih =>
    intro j acc lfuel hm hfu
    obtain ⟨lfuel, rfl⟩ : ∃ k, lfuel = k + 1 := ⟨lfuel - 1, by omega⟩
    by_cases hlt : 2 * j < cs.length
    · obtain ⟨kv, hc⟩ : ∃ c, cs[2 * j]? = some c := ⟨cs[2 * j], by simp [hlt]⟩
      obtain ⟨n, hn, hrn⟩ := NRepL_get hrep (2 * j) kv hc
      have hmem : kv ∈ cs := List.mem_of_getElem? hc
      have hkvd : kv.depth ≤ depthAll cs := depth_le_depthAll hmem
      have hlt' : ((2 * j : Nat) : Int) < (cs.length : Int) := by omega
      have hi2 : ((2 * j : Nat) : Int) + 2 = ((2 * (j + 1) : Nat) : Int) := by push_cast; ring
      have hd2 : (cs.drop (2 * j + 1)).drop 1 = cs.drop (2 * (j + 1)) := by
        rw [List.drop_drop]; congr 1
      rw [drop_eq_cons cs (2 * j) kv hc, evalObject_step, hd2]
      simp only [Object_func_loop1, CorePrelude.Go.len, hlen, hlt', decide_true, ↓reduceIte, bind_apply, nth_nat, hn]
      cases kv with
      | term tok v p r =>
        obtain ⟨sch, rfl⟩ := hrn
        simp [TreePrelude.Node.assertKinds, TreePrelude.Node.hasKind, TreePrelude.Node.kind, evalKeyValue, ObjCorr]
      | empty p =>
        simp only [NRep] at hrn; subst hrn
        simp [TreePrelude.Node.assertKinds, TreePrelude.Node.hasKind, TreePrelude.Node.kind, evalKeyValue, ObjCorr]
      | eof p =>
        simp only [NRep] at hrn; subst hrn
        simp [TreePrelude.Node.assertKinds, TreePrelude.Node.hasKind, TreePrelude.Node.kind, evalKeyValue, ObjCorr]
      | nt tok kcs p r ip =>
        obtain ⟨a, c, rfl, hca, _, _, hkr⟩ := hrn
        have hkl := NRepL_length hkr
        have hdk : depthAll kcs < depthAll cs := by simp only [PV.Node.depth] at hkvd; omega
        simp only [TreePrelude.Node.assertKinds, TreePrelude.Node.hasKind, TreePrelude.Node.kind, List.contains_cons,
          beq_self_eq_true, Bool.true_or, ↓reduceIte, pure_apply, NonTerminalNode_Children, bind_apply, load_some hca,
          evalKeyValue]
        rw [show ((0 : Int)) = ((0 : Nat) : Int) from rfl, nth_nat]
        cases hk0 : kcs[0]? with
        | none =>
          have : c.children[0]? = none := by
            rw [List.getElem?_eq_none_iff] at hk0 ⊢; omega
          simp [this, ObjCorr]
        | some kn =>
          obtain ⟨n0, hn0, hr0⟩ := NRepL_get hkr 0 kn hk0
          have hc0 := hrec kn n0 (by have := depth_le_depthAll (List.mem_of_getElem? hk0); omega) hr0
          simp only [hn0]
          cases hev0 : ev kn with
          | err p0 m0 =>
            rw [hev0] at hc0
            obtain ⟨v', hv'⟩ := hc0
            simp [hv', ObjCorr, CorePrelude.Err.isNil]
          | panic m0 =>
            rw [hev0] at hc0
            simp only [EvCorr] at hc0
            simp [hc0, ObjCorr]
          | ok key =>
            rw [hev0] at hc0
            simp only [EvCorr] at hc0
            simp only [hc0, CorePrelude.Err.isNil, Bool.not_true, Bool.false_eq_true, ↓reduceIte, bind_apply, load_some hca, pure_apply]
            rw [show ((2 : Int)) = ((2 : Nat) : Int) from rfl, nth_nat]
            cases hk2 : kcs[2]? with
            | none =>
              have : c.children[2]? = none := by
                rw [List.getElem?_eq_none_iff] at hk2 ⊢; omega
              simp [this, ObjCorr]
            | some vn =>
              obtain ⟨n2, hn2, hr2⟩ := NRepL_get hkr 2 vn hk2
              have hc2 := hrec vn n2 (by have := depth_le_depthAll (List.mem_of_getElem? hk2); omega) hr2
              simp only [hn2]
              cases hev2 : ev vn with
              | err p0 m0 =>
                rw [hev2] at hc2
                obtain ⟨v', hv'⟩ := hc2
                simp [hv', ObjCorr, CorePrelude.Err.isNil]
              | panic m0 =>
                rw [hev2] at hc2
                simp only [EvCorr] at hc2
                simp [hc2, ObjCorr]
              | ok v =>
                rw [hev2] at hc2
                simp only [EvCorr] at hc2
                simp only [hc2, CorePrelude.Err.isNil, Bool.not_true, Bool.false_eq_true, ↓reduceIte, bind_apply,
                  assertString_tV]
                cases key with
                | str k =>
                  simp only [smapSet_tKVs, hi2]
                  exact ih (j + 1) (objSet acc k v) lfuel (by omega) (by omega)
                | _ => simp [ObjCorr]
    · exact hexit j acc lfuel hlt

/-! ### parsley.EvaluateNode -/

/-- how Array / Object finish: `return` inside the loop, or the collected values -/
def finish {α : Type} (wrap : α → TValue) : TRes TSt (Brk (TValue × TErr) (α × Int)) → TRes TSt (TValue × TErr)
  | .ok (.ret t) s' => .ok t s'
  | .ok (.done (res, _)) s' => .ok (wrap res, PV.CorePrelude.Err.nil) s'
  | .panic => .panic
  | .nofuel => .nofuel

theorem evcorr_arr {s : TSt} {x : TRes TSt (Brk (TValue × TErr) (List TValue × Int))} {o : EvalOut} (h : ArrCorr s x o) :
    EvCorr s (finish PV.TreePrelude.Value.list x) o := by
  cases o with
  | ok v => obtain ⟨vs, i', rfl, rfl⟩ := h; simp [EvCorr, tV, finish]
  | err p m => simp only [ArrCorr] at h; subst h; exact ⟨_, rfl⟩
  | panic m => simp only [ArrCorr] at h; subst h; rfl

theorem evcorr_obj {s : TSt} {x : TRes TSt (Brk (TValue × TErr) (List (Bytes × TValue) × Int))} {o : EvalOut}
    (h : ObjCorr s x o) : EvCorr s (finish PV.TreePrelude.Value.smap x) o := by
  cases o with
  | ok v => obtain ⟨vs, i', rfl, rfl⟩ := h; simp [EvCorr, tV, finish]
  | err p m => simp only [ObjCorr] at h; subst h; exact ⟨_, rfl⟩
  | panic m => simp only [ObjCorr] at h; subst h; rfl

set_option maxHeartbeats 2000000 in
/-- **parsley.EvaluateNode, translated, is the model's `evalNode`** (with (*NonTerminalNode).Value, InterpreterFunc.Eval,
    Select, Array, Object, Nil): on every node the heap shows, with fuel above the nesting depth on both sides -/
theorem tie_EvaluateNode (W : TW) (ce : CustomEval) (uctx : TValue) (hw : EvalWorld W ce uctx) (s : TSt) :
    ∀ (F : Nat) (x : MNode) (n : TN) (fuel : Nat), NRep s.heap x n → x.depth < F → 4 * x.depth + 1 ≤ fuel →
      EvCorr s (EvaluateNode W fuel uctx n s) (evalNode ce F x) := by
  intro F
  induction F with
  | zero => intro x n fuel _ h; omega
  | succ F ih =>
    intro x n fuel hrep hd hfu
    cases x with
    | term tok v p r =>
      obtain ⟨sch, rfl⟩ := hrep
      obtain ⟨fuel, rfl⟩ : ∃ k, fuel = k + 1 := ⟨fuel - 1, by omega⟩
      simp [EvaluateNode, TreePrelude.Node.asKinds, TreePrelude.Node.hasKind, TreePrelude.Node.kind, TerminalNode_Value,
        evalNode, EvCorr]
    | empty p =>
      simp only [NRep] at hrep; subst hrep
      obtain ⟨fuel, rfl⟩ : ∃ k, fuel = k + 1 := ⟨fuel - 1, by omega⟩
      simp [EvaluateNode, TreePrelude.Node.asKinds, TreePrelude.Node.hasKind, TreePrelude.Node.kind, EmptyNode_Pos,
        evalNode, EvCorr, noValue_eq, CorePrelude.NewError]
    | eof p =>
      simp only [NRep] at hrep; subst hrep
      obtain ⟨fuel, rfl⟩ : ∃ k, fuel = k + 1 := ⟨fuel - 1, by omega⟩
      simp [EvaluateNode, TreePrelude.Node.asKinds, TreePrelude.Node.hasKind, TreePrelude.Node.kind, EndNode_Value,
        evalNode, EvCorr, tV]
    | nt tok cs p r ip =>
      obtain ⟨a, c, rfl, hca, hpos, hip, hkr⟩ := hrep
      have hkl := NRepL_length hkr
      simp only [PV.Node.depth] at hd hfu
      obtain ⟨f4, rfl⟩ : ∃ k, fuel = k + 4 := ⟨fuel - 4, by omega⟩
      have hrec : ∀ (f : Nat), f4 ≤ f → ∀ x' n', x'.depth ≤ depthAll cs → NRep s.heap x' n' →
          EvCorr s (EvaluateNode W f uctx n' s) (evalNode ce F x') :=
        fun f hf x' n' hx' hr' => ih x' n' f hr' (by omega) (by omega)
      have hstart : EvaluateNode W (f4 + 4) uctx (.ref a) s = NonTerminalNode_Value W (f4 + 3) a uctx s := by
        simp [EvaluateNode, TreePrelude.Node.asKinds, TreePrelude.Node.hasKind, TreePrelude.Node.kind]
      rw [hstart]
      have hval : NonTerminalNode_Value W (f4 + 3) a uctx s =
          if c.interpreter.isNil then .panic else
            (match c.interpreter with
              | .select sel => selectInterpreter_Eval W (f4 + 2) sel uctx (.ref a)
              | .fn f => InterpreterFunc_Eval W (f4 + 2) f uctx (.ref a)
              | .custom id => W.Eval (EvaluateNode W (f4 + 2)) (.custom id) uctx (.ref a)
              | _ => CorePrelude.Go.panic : TM (TValue × TErr)) s := by
        simp only [NonTerminalNode_Value, bind_apply, load_some hca]
        cases hci : c.interpreter <;> simp [TreePrelude.Interp.isNil, load_some hca, hci]
      rw [hval, hip]
      cases ip with
      | none => simp [iEnc, TreePrelude.Interp.isNil, evalNode, EvCorr]
      | nilI =>
        simp [iEnc, TreePrelude.Interp.isNil, evalNode, EvCorr, InterpreterFunc_Eval, Nil_func, tV]
      | custom id =>
        simp only [iEnc, TreePrelude.Interp.isNil, Bool.false_eq_true, ↓reduceIte, evalNode]
        exact hw id (EvaluateNode W (f4 + 2)) (evalNode ce F) s a tok cs p r ⟨a, c, rfl, hca, hpos, hip, hkr⟩
          (hrec (f4 + 2) (by omega))
      | select i =>
        simp only [iEnc, TreePrelude.Interp.isNil, Bool.false_eq_true, ↓reduceIte, evalNode,
          selectInterpreter_Eval, NonTerminalNode_Children, bind_apply, load_some hca,
          CorePrelude.Go.len, hkl, pure_apply]
        cases hci : cs[i]? with
        | none =>
          have : (cs.length : Int) ≤ (i : Int) := by
            rw [List.getElem?_eq_none_iff] at hci; omega
          simp [this, EvCorr]
        | some ci =>
          have hlt : i < cs.length := by
            rcases Nat.lt_or_ge i cs.length with h1 | h1
            · exact h1
            · rw [List.getElem?_eq_none h1] at hci; cases hci
          obtain ⟨ni, hni, hri⟩ := NRepL_get hkr i ci hci
          have h1 : ¬ ((i : Int) < 0) := by omega
          have h2 : ¬ ((cs.length : Int) ≤ (i : Int)) := by omega
          simp only [ge_iff_le, h1, h2, decide_false, Bool.or_self, Bool.false_eq_true, ↓reduceIte, pure_apply, nth_nat, hni]
          have := hrec (f4 + 1) (by omega) ci ni (depth_le_depthAll (List.mem_of_getElem? hci)) hri
          cases hres : EvaluateNode W (f4 + 1) uctx ni s with
          | ok v s' => rw [hres] at this; simpa using this
          | panic => rw [hres] at this; simpa using this
          | nofuel => rw [hres] at this; simpa using this
      | array =>
        simp only [iEnc, TreePrelude.Interp.isNil, Bool.false_eq_true, ↓reduceIte, evalNode,
          InterpreterFunc_Eval, Array_func, NonTerminalNode_Children, bind_apply, load_some hca, CorePrelude.Go.len, hkl,
          pure_apply]
        have htd : Int.tdiv ((cs.length : Int) + 1) 2 = (((cs.length + 1) / 2 : Nat) : Int) := by
          rw [Int.tdiv_eq_ediv_of_nonneg (by omega)]; push_cast; rfl
        have hmk : (CorePrelude.Go.mkList (((cs.length + 1) / 2 : Nat) : Int) : TM (List TValue)) s =
            .ok (List.replicate ((cs.length + 1) / 2) PV.TreePrelude.Value.nil) s := by
          simp [CorePrelude.Go.mkList]; rfl
        simp (disch := omega) only [dec_false, Bool.false_eq_true, ↓reduceIte, pure_apply, htd, hmk, Int.toNat_natCast]
        have hloop := arr_loop W uctx s c.children cs hkr (evalNode ce F) (EvaluateNode W f4) (NonTerminalNode_Value W f4)
          (InterpreterFunc_Eval W f4) (selectInterpreter_Eval W f4) (Array_func W f4) (Object_func W f4)
          (fun x' n' hm hr' => hrec f4 (Nat.le_refl _) x' n' (depth_le_depthAll hm) hr')
          cs.length 0 [] (cs.length + 1) (by omega) rfl (by omega) (by omega)
        simp only [Nat.mul_zero, Nat.sub_zero, tVs, List.nil_append, List.drop_zero, Nat.cast_zero] at hloop
        have := evcorr_arr hloop
        cases hres : Array_func_loop1 W uctx c.children (EvaluateNode W f4) (NonTerminalNode_Value W f4)
          (InterpreterFunc_Eval W f4) (selectInterpreter_Eval W f4) (Array_func W f4) (Object_func W f4) (cs.length + 1)
          (List.replicate ((cs.length + 1) / 2) PV.TreePrelude.Value.nil) 0 s with
        | ok b s' =>
          rw [hres] at this
          cases b with
          | ret t => simpa [finish] using this
          | done st => obtain ⟨res, i'⟩ := st; simpa [finish] using this
        | panic => rw [hres] at this; simpa [finish] using this
        | nofuel => rw [hres] at this; simpa [finish] using this
      | object =>
        simp only [iEnc, TreePrelude.Interp.isNil, Bool.false_eq_true, ↓reduceIte, evalNode,
          InterpreterFunc_Eval, Object_func, NonTerminalNode_Children, bind_apply, load_some hca, CorePrelude.Go.len, hkl,
          pure_apply]
        simp (disch := omega) only [dec_false, Bool.false_eq_true, ↓reduceIte, pure_apply, Int.toNat_natCast,
          TreePrelude.Go.mkSMap]
        have hloop := obj_loop W uctx s c.children cs hkr (evalNode ce F) (EvaluateNode W f4) (NonTerminalNode_Value W f4)
          (InterpreterFunc_Eval W f4) (selectInterpreter_Eval W f4) (Array_func W f4) (Object_func W f4)
          (hrec f4 (Nat.le_refl _)) cs.length 0 [] (cs.length + 1) (by omega) (by omega)
        simp only [Nat.mul_zero, tKVs, List.drop_zero, Nat.cast_zero] at hloop
        have := evcorr_obj hloop
        cases hres : Object_func_loop1 W uctx c.children (EvaluateNode W f4) (NonTerminalNode_Value W f4)
          (InterpreterFunc_Eval W f4) (selectInterpreter_Eval W f4) (Array_func W f4) (Object_func W f4) (cs.length + 1)
          [] 0 s with
        | ok b s' =>
          rw [hres] at this
          cases b with
          | ret t => simpa [finish] using this
          | done st => obtain ⟨res, i'⟩ := st; simpa [finish] using this
        | panic => rw [hres] at this; simpa [finish] using this
        | nofuel => rw [hres] at this; simpa [finish] using this

/-! ### the root: parsley.Evaluate -/

/-- the heap shows the parser result `r` at the node value `n` -/
def RRep (h : Heap) : PV.Res → TN → Prop
  | .nil, n => n = .nil
  | .one x, n => NRep h x n
  | .list l, n => ∃ ns, n = .list ns ∧ NRepL h l ns

/-- EvaluateNode on the root handed over by Evaluate: the model's `evalRes` -/
theorem tie_evalRes (W : TW) (ce : CustomEval) (uctx : TValue) (hw : EvalWorld W ce uctx) (s : TSt) (F : Nat) (r : PV.Res)
    (n : TN) (fuel : Nat) (hrep : RRep s.heap r n) (hd : ∀ x ∈ r.alts, x.depth < F ∧ 4 * x.depth + 1 ≤ fuel) (hf : 2 ≤ fuel) :
    EvCorr s (EvaluateNode W fuel uctx n s) (evalRes ce F r) := by
  cases r with
  | nil =>
    simp only [RRep] at hrep; subst hrep
    obtain ⟨fuel, rfl⟩ : ∃ k, fuel = k + 1 := ⟨fuel - 1, by omega⟩
    simp [EvaluateNode, TreePrelude.Node.asKinds, TreePrelude.Node.hasKind, TreePrelude.Node.kind, evalRes, EvCorr]
  | one x =>
    have := hd x (by simp [PV.Res.alts])
    exact tie_EvaluateNode W ce uctx hw s F x n fuel hrep this.1 this.2
  | list l =>
    obtain ⟨ns, rfl, hl⟩ := hrep
    obtain ⟨fuel, rfl⟩ : ∃ k, fuel = k + 2 := ⟨fuel - 2, by omega⟩
    cases l with
    | nil =>
      cases ns with
      | nil =>
        simp [EvaluateNode, TreePrelude.Node.asKinds, TreePrelude.Node.hasKind, TreePrelude.Node.kind, evalRes, EvCorr,
          NodeList_Pos, CorePrelude.Go.nth]
      | cons _ _ => simp [NRepL] at hl
    | cons x xs =>
      cases ns with
      | nil => simp [NRepL] at hl
      | cons n0 ns =>
        have h0 := hl.1
        simp only [evalRes, EvCorr]
        refine ⟨PV.TreePrelude.Value.nil, ?_⟩
        cases x with
        | term tok v p r =>
          obtain ⟨sch, rfl⟩ := h0
          simp [EvaluateNode, TreePrelude.Node.asKinds, TreePrelude.Node.hasKind, TreePrelude.Node.kind, NodeList_Pos,
            CorePrelude.Go.nth, TerminalNode_Pos, PV.Node.pos, noValue_eq, CorePrelude.NewError]
        | empty p =>
          simp only [NRep] at h0; subst h0
          simp [EvaluateNode, TreePrelude.Node.asKinds, TreePrelude.Node.hasKind, TreePrelude.Node.kind, NodeList_Pos,
            CorePrelude.Go.nth, EmptyNode_Pos, PV.Node.pos, noValue_eq, CorePrelude.NewError]
        | eof p =>
          simp only [NRep] at h0; subst h0
          simp [EvaluateNode, TreePrelude.Node.asKinds, TreePrelude.Node.hasKind, TreePrelude.Node.kind, NodeList_Pos,
            CorePrelude.Go.nth, EndNode_Pos, PV.Node.pos, noValue_eq, CorePrelude.NewError]
        | nt tok cs p r ip =>
          obtain ⟨a, c, rfl, hca, hpos, _, _⟩ := h0
          simp [EvaluateNode, TreePrelude.Node.asKinds, TreePrelude.Node.hasKind, TreePrelude.Node.kind, NodeList_Pos,
            CorePrelude.Go.nth, NonTerminalNode_Pos, load_some hca, hpos, PV.Node.pos, noValue_eq, CorePrelude.NewError]

/-- **parsley.Evaluate, translated**: Parse (the world's), then EvaluateNode with the context's user context; an
    evaluation error is handed to FileSet.ErrorWithPosition (kept symbolic: `positioned`), a parse error is returned as
    it is.  `po` is the model's parse outcome that the world's Parse shows. -/
theorem tie_Evaluate (W : TW) (ce : CustomEval) (p : Parser) (s s1 : TSt) (n : TN) (c : TCause) (F fuel : Nat)
    (po : ParseOut) (hparse : W.Parse p s = .ok (n, c) s1) (hw : EvalWorld W ce s1.userCtx)
    (hc : c.isNil = po.msg.isNone) (hrep : po.msg = none → RRep s1.heap po.res n)
    (hd : ∀ x ∈ po.res.alts, x.depth < F ∧ 4 * x.depth + 1 ≤ fuel) (hf : 2 ≤ fuel) :
    Evaluate W fuel p s =
      if po.msg.isSome then .ok (PV.TreePrelude.Value.nil, c) s1
      else match evalRes ce F po.res with
        | .ok v => .ok (tV v, PV.CorePrelude.Cause.nil) s1
        | .err pos msg => .ok (PV.TreePrelude.Value.nil, PV.CorePrelude.Cause.positioned (pos : Int) (.other 0 msg)) s1
        | .panic _ => .panic := by
  simp only [Evaluate, bind_apply, hparse]
  cases hm : po.msg with
  | some m =>
    rw [hm] at hc
    simp [hc]
  | none =>
    rw [hm] at hc
    have := tie_evalRes W ce s1.userCtx hw s1 F po.res n fuel (hrep hm) hd hf
    simp only [hc, Option.isNone_none, Bool.not_true, Bool.false_eq_true, ↓reduceIte, read_apply, bind_apply,
      Option.isSome_none]
    cases hev : evalRes ce F po.res with
    | ok v =>
      rw [hev] at this
      simp only [EvCorr] at this
      simp [this, CorePrelude.Err.isNil]
    | err pos msg =>
      rw [hev] at this
      obtain ⟨v', hv'⟩ := this
      simp [hv', CorePrelude.Err.isNil, CorePrelude.ErrorWithPosition]
    | panic m =>
      rw [hev] at this
      simp only [EvCorr] at this
      simp [this]

end PV.TreeTie
