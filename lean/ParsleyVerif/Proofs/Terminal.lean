/-
  C08 helper lemmas, part 1: the five literal matchers report a length inside their input, and every
  terminal of Model/Terminal.lean answers exactly `Terminal.spec` (Spec/TerminalSpec.lean) on `rest f pos`.
-/
import ParsleyVerif.Spec.TerminalSpec
import ParsleyVerif.Proofs.Reader
import ParsleyVerif.Proofs.Utf8
namespace PV
open PV.Text

/-! ### positions -/
theorem rest_add (f : File) (pos k : Nat) (h : InFile f pos) : rest f (pos + k) = (rest f pos).drop k := by
  unfold rest; rw [List.drop_drop]; congr 1; unfold InFile at h; omega

theorem inFile_add (f : File) (pos k : Nat) (h : InFile f pos) (hk : k ≤ (rest f pos).length) : InFile f (pos + k) := by
  have := rest_length f pos h
  unfold InFile at *; omega

theorem rest_eq_nil_drop (l : Bytes) (k : Nat) (h : l.drop k = []) : l.length ≤ k := by
  simpa using h

/-! ### ReadRune through `runeW` -/
theorem readRune_eq (f : File) (pos ch : Nat) (h : InFile f pos) :
    readRune f pos ch = some (match runeW ch (rest f pos) with | some w => (pos + w, true) | none => (pos, false)) := by
  by_cases hc : ch < 0x80
  · rw [readRune_ascii f pos ch h hc]; unfold runeW; rw [if_pos hc]
    by_cases hh : (rest f pos).head? = some ch
    · rw [if_pos hh, if_pos hh]
    · rw [if_neg hh, if_neg hh]
  · rw [readRune_multibyte f pos ch h hc]; unfold runeW; rw [if_neg hc]
    by_cases hh : rest f pos ≠ [] ∧ (Utf8.decodeRune (rest f pos)).1 = ch
    · rw [if_pos hh, if_pos hh]
    · rw [if_neg hh, if_neg hh]

theorem runeW_bounds (ch : Nat) (l : Bytes) (w : Nat) (h : runeW ch l = some w) : 1 ≤ w ∧ w ≤ l.length := by
  unfold runeW at h
  split at h
  · split at h
    · rename_i hh
      cases h
      cases l with
      | nil => simp at hh
      | cons _ _ => simp
    · cases h
  · split at h
    · rename_i hh
      cases h
      exact Utf8.decodeRune_width l hh.1
    · cases h

theorem runeW_ascii (ch : Nat) (l : Bytes) (hc : ch < 0x80) :
    runeW ch l = if l.head? = some ch then some 1 else none := by
  unfold runeW; rw [if_pos hc]

/-! ### the matchers stay inside their input -/
theorem spanLen_le (p : Nat → Bool) (l : Bytes) : spanLen p l ≤ l.length :=
  (List.takeWhile_prefix p).length_le

theorem signLen_le_one (l : Bytes) : signLen l ≤ 1 := by
  unfold signLen; split <;> omega

theorem length_of_drop_cons {l : Bytes} {s : Nat} {d : Nat} {r : Bytes} (h : l.drop s = d :: r) :
    l.length = s + 1 + r.length := by
  have h1 : (l.drop s).length = r.length + 1 := by rw [h]; rfl
  rw [List.length_drop] at h1
  omega

theorem integerMatch_le (l : Bytes) (k : Nat) (h : integerMatch l = some k) : k ≤ l.length := by
  unfold integerMatch at h
  simp only [] at h
  split at h
  · rename_i d r hd
    have hl := length_of_drop_cons hd
    split at h
    · cases h; have := spanLen_le isDigit r; omega
    · split at h
      · split at h
        · rename_i x r'
          split at h
          · cases h; have := spanLen_le isHex r'; simp at hl; omega
          · cases h; have := spanLen_le isOct (x :: r'); omega
        · cases h; omega
      · cases h
  · cases h

theorem exponentLen_le (l : Bytes) : exponentLen l ≤ l.length := by
  unfold exponentLen
  split
  · rename_i e r
    split
    · simp only []
      split
      · have := spanLen_le isDigit (r.drop (signLen r))
        rw [List.length_drop] at this
        simp; omega
      · omega
    · omega
  · omega

theorem floatMatch_le (l : Bytes) (k : Nat) (h : floatMatch l = some k) : k ≤ l.length := by
  unfold floatMatch at h
  simp only [] at h
  split at h
  · rename_i r hd
    have hl := length_of_drop_cons hd
    split at h
    · cases h
      have h1 := exponentLen_le (r.drop (spanLen isDigit r))
      rw [List.length_drop] at h1
      have h2 := spanLen_le isDigit r
      omega
    · cases h
  · cases h

theorem unitLen_le (l : Bytes) : unitLen l ≤ l.length := by
  unfold unitLen
  split <;> simp <;> omega

theorem durItem_aux (l : Bytes) (n fr : Nat) :
    (if unitLen (l.drop (n + fr)) > 0 then n + fr + unitLen (l.drop (n + fr)) else 0) ≤ l.length := by
  split
  · have h1 := unitLen_le (l.drop (n + fr))
    rw [List.length_drop] at h1
    omega
  · omega

theorem durItemLen_le (l : Bytes) : durItemLen l ≤ l.length := by
  unfold durItemLen
  simp only []
  split
  · omega
  · exact durItem_aux l _ _

theorem durItems_le : ∀ (fuel : Nat) (l : Bytes), durItems fuel l ≤ l.length := by
  intro fuel
  induction fuel with
  | zero => intro l; simp [durItems]
  | succ n ih =>
    intro l
    unfold durItems
    simp only []
    split
    · omega
    · have h1 := ih (l.drop (durItemLen l))
      have h2 := durItemLen_le l
      rw [List.length_drop] at h1
      omega

theorem durationMatch_le (l : Bytes) (k : Nat) (h : durationMatch l = some k) : k ≤ l.length := by
  unfold durationMatch at h
  simp only [] at h
  split at h
  · cases h
    have h1 := durItems_le l.length (l.drop (signLen l))
    rw [List.length_drop] at h1
    have := signLen_le_one l
    rename_i hk
    omega
  · cases h

theorem charMatch_le (l : Bytes) (k : Nat) (h : charMatch l = some k) : 1 ≤ k ∧ k ≤ l.length := by
  unfold charMatch at h
  split at h
  · cases h
  · rename_i e r
    split at h
    · cases h; simp
    · split at h
      · rename_i hc; cases h; simp at hc ⊢; omega
      · split at h
        · rename_i hc; cases h; simp at hc ⊢; omega
        · split at h
          · rename_i hc; cases h; simp at hc ⊢; omega
          · cases h; simp
  · rename_i c r _
    split at h
    · cases h
    · cases h
      exact Utf8.decodeRune_width (c :: r) (by simp)

theorem backquoteMatch_le (l : Bytes) (k : Nat) (h : backquoteMatch l = some k) : 1 ≤ k ∧ k ≤ l.length := by
  unfold backquoteMatch at h
  simp only [] at h
  split at h
  · cases h; exact ⟨by omega, spanLen_le _ l⟩
  · cases h

end PV
