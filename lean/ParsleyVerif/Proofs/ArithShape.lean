/-
  C05, tree shape: every derivation of the arithmetic grammar's nonterminals is an expression / term / factor
  tree.  One finite check per rule on abstract derivations (Proofs/ArithAbs.lean).
-/
import ParsleyVerif.Proofs.ArithAbs
import ParsleyVerif.Proofs.Sentence
import ParsleyVerif.Spec.Arith
namespace PV
open PV.Text

/-- what the three rules derive -/
def arithR (f : File) : Nat → Nat → Node → Prop
  | 0, _, x => IsTree f 0 x
  | 1, _, x => IsTree f 1 x
  | 2, _, x => IsTree f 2 x
  | _, _, _ => True

/-- terminal.Rune returns a leaf with the rune as value, at a position where the file has it -/
theorem rune_parse_leaf {P : Params} {f : File} {c : Nat} {nm : Bytes} {pos : Nat} {x : Node}
    (h : Terminal.parse P f (.rune c nm) pos = .node x) : IsRuneLeaf f c x := by
  simp only [Terminal.parse] at h
  split at h
  · cases h
  · rename_i rp heq
    cases h
    exact ⟨pos, rp, rfl, rp, heq⟩
  · simp [nf] at h

/-- terminal.Integer returns a leaf with an integer value -/
theorem integer_parse_leaf {P : Params} {f : File} {pos : Nat} {x : Node}
    (h : Terminal.parse P f .integer pos = .node x) : ∃ tok v p r, x = .term tok (.int v) p r := by
  simp only [Terminal.parse] at h
  split at h
  · cases h
  · split at h
    · cases h
    · simp [nf] at h
    · split at h
      · simp [other] at h
      · cases h; exact ⟨_, _, _, _, rfl⟩
  · simp [nf] at h

theorem setRpos_runeLeaf {f : File} {c : Nat} {m : WsMode} {y : Node} (h : IsRuneLeaf f c y) :
    IsRuneLeaf f c (setRposNode f m y none).1 := by
  obtain ⟨p, r, rfl, hat⟩ := h
  exact ⟨p, _, rfl, hat⟩

variable {cfg : Cfg} {R : Nat → Nat → Node → Prop}

/-- Trim(Rune(c)) derives rune leaves -/
theorem trim_rune {c pos x} (h : DerivesR cfg R (Garith.trim (Garith.rn c)) pos x) : IsRuneLeaf cfg.file c x := by
  obtain ⟨y, hy, hx⟩ := h.rtrim_inv
  have hl := rune_parse_leaf hy.ltrim_inv.term_inv
  rcases hx with rfl | rfl
  · exact hl
  · exact setRpos_runeLeaf hl

/-- Trim(Integer()) derives integer leaves -/
theorem trim_int {pos x} (h : DerivesR cfg R (Garith.trim (.term .integer)) pos x) : IsTree cfg.file 2 x := by
  obtain ⟨y, hy, hx⟩ := h.rtrim_inv
  obtain ⟨tok, v, p, r, rfl⟩ := integer_parse_leaf hy.ltrim_inv.term_inv
  rcases hx with rfl | rfl
  · exact .int
  · exact .int

/-- the binary rule `X → X op Y` of level `n` -/
theorem arith_bin {f : File} (hf : cfg.file = f) {n : Nat} {a ops b : G} {c1 c2 : Nat} {o1 o2 : Op} {pos x}
    (ha : ∀ p y, DerivesR cfg R a p y → IsTree f n y) (hb : ∀ p y, DerivesR cfg R b p y → IsTree f (n + 1) y)
    (hops : ops = .any [Garith.trim (Garith.rn c1), Garith.trim (Garith.rn c2)])
    (h1 : Op.ofRune c1 = some o1) (h2 : Op.ofRune c2 = some o2) (l1 : o1.level = n) (l2 : o2.level = n)
    (h : DerivesR cfg R (.seq .seqOf [a, ops, b] Garith.bin) pos x) : IsTree f n x := by
  subst hf hops
  obtain ⟨x1, x2, x3, d1, d2, d3, rfl⟩ := h.seqOf3_inv
  obtain ⟨g, hm, dg⟩ := d2.any_inv
  simp only [List.mem_cons, List.not_mem_nil, or_false] at hm
  rcases hm with rfl | rfl
  · exact .bin (ha _ _ d1) (trim_rune dg) h1 l1 (hb _ _ d3)
  · exact .bin (ha _ _ d1) (trim_rune dg) h2 l2 (hb _ _ d3)

/-- the three tree classes are closed under the three rule bodies -/
theorem arith_closed (cfg : Cfg) (henv : cfg.env = Garith.env) : ClosedR cfg (arithR cfg.file) := by
  intro k g pos x hk h
  rw [henv] at hk
  match k, hk with
  | 0, hk =>
    simp only [Garith.env, List.getElem?_cons_zero, Option.some.injEq] at hk
    subst hk
    obtain ⟨g, hm, dg⟩ := h.memo_inv.any_inv
    simp only [List.mem_cons, List.not_mem_nil, or_false] at hm
    rcases hm with rfl | rfl
    · exact arith_bin (n := 0) rfl (fun _ _ d => d.ref_inv) (fun _ _ d => d.ref_inv) rfl
        (c1 := 43) (c2 := 45) rfl rfl rfl rfl dg
    · exact .up dg.ref_inv
  | 1, hk =>
    simp only [Garith.env, List.getElem?_cons_succ, List.getElem?_cons_zero, Option.some.injEq] at hk
    subst hk
    obtain ⟨g, hm, dg⟩ := h.memo_inv.any_inv
    simp only [List.mem_cons, List.not_mem_nil, or_false] at hm
    rcases hm with rfl | rfl
    · exact arith_bin (n := 1) rfl (fun _ _ d => d.ref_inv) (fun _ _ d => d.ref_inv) rfl
        (c1 := 42) (c2 := 47) rfl rfl rfl rfl dg
    · exact .up dg.ref_inv
  | 2, hk =>
    simp only [Garith.env, List.getElem?_cons_succ, List.getElem?_cons_zero, Option.some.injEq] at hk
    subst hk
    obtain ⟨g, hm, dg⟩ := h.any_inv
    simp only [List.mem_cons, List.not_mem_nil, or_false] at hm
    rcases hm with rfl | rfl
    · exact trim_int dg
    · obtain ⟨x1, x2, x3, d1, d2, d3, rfl⟩ := dg.seqOf3_inv
      exact .paren (trim_rune d1) d2.ref_inv (trim_rune d3)
  | k + 3, hk => trivial

/-- every derivation of `expr` / `term` / `factor` is an expression / term / factor tree -/
theorem arith_derives_tree (cfg : Cfg) (henv : cfg.env = Garith.env) (k : Nat) (hk : k < 3) (pos : Nat) (x : Node)
    (h : Derives cfg (.ref k) pos x) : IsTree cfg.file k x := by
  have := (derives_abs cfg (arithR cfg.file) (arith_closed cfg henv) h).ref_inv
  match k, hk, this with
  | 0, _, this => exact this
  | 1, _, this => exact this
  | 2, _, this => exact this

end PV
