/-
  C16, full value theorem — abstract value + layout = document (`JV.decorate`), and: a rendered document contains no
  CR, so text.NewFile's CRLF normalisation leaves it as it is.
-/
import ParsleyVerif.Proofs.J16Str
namespace PV.J16
open PV PV.Text

/-! ### `decorate` -/

theorem wsNl_nil : WsNl [] := by intro b hb; cases hb
theorem wsSp_nil : WsSp [] := by intro b hb; cases hb

mutual
theorem decorate_val : ∀ (v : JV) (l : Layout), (v.decorate l).val = v.val
  | .null, _ => rfl
  | .bool _, _ => rfl
  | .int _, _ => rfl
  | .dec _, _ => rfl
  | .str _, _ => rfl
  | .arr vs, .arr ls close => by simp only [JV.decorate, JDoc.val, JV.val, decItems_vals vs ls]
  | .arr vs, .leaf => by simp only [JV.decorate, JDoc.val, JV.val, decItems_vals vs .nil]
  | .arr vs, .obj _ _ => by simp only [JV.decorate, JDoc.val, JV.val, decItems_vals vs .nil]
  | .obj kvs, .obj ls close => by simp only [JV.decorate, JDoc.val, JV.val, decMems_vals kvs ls]
  | .obj kvs, .leaf => by simp only [JV.decorate, JDoc.val, JV.val, decMems_vals kvs .nil]
  | .obj kvs, .arr _ _ => by simp only [JV.decorate, JDoc.val, JV.val, decMems_vals kvs .nil]
theorem decItems_vals : ∀ (vs : JVs) (ls : LItems), (vs.decorate ls).vals = vs.vals
  | .nil, _ => by simp only [JVs.decorate, JItems.vals, JVs.vals]
  | .cons v r, .cons wc wb l ls => by
    simp only [JVs.decorate, JItems.vals, JVs.vals, decorate_val v l, decItems_vals r ls]
  | .cons v r, .nil => by
    simp only [JVs.decorate, JItems.vals, JVs.vals, decorate_val v .leaf, decItems_vals r .nil]
theorem decMems_vals : ∀ (kvs : JKVs) (ls : LMems), (kvs.decorate ls).vals = kvs.vals
  | .nil, _ => by simp only [JKVs.decorate, JMems.vals, JKVs.vals]
  | .cons k v r, .cons wc wb wk wv l ls => by
    simp only [JKVs.decorate, JMems.vals, JKVs.vals, decorate_val v l, decMems_vals r ls]
  | .cons k v r, .nil => by
    simp only [JKVs.decorate, JMems.vals, JKVs.vals, decorate_val v .leaf, decMems_vals r .nil]
end

mutual
theorem decorate_ok : ∀ (v : JV) (l : Layout), v.Supported → l.Adm → (v.decorate l).OK
  | .null, _, _, _ => trivial
  | .bool _, _, _, _ => trivial
  | .int _, _, h, _ => h
  | .dec _, _, h, _ => h
  | .str _, _, h, _ => h
  | .arr vs, .arr ls close, h, ha => by
    simp only [Layout.Adm] at ha
    simp only [JV.decorate, JDoc.OK]
    exact ⟨decItems_ok vs ls h ha.1, ha.2⟩
  | .arr vs, .leaf, h, _ => by
    simp only [JV.decorate, JDoc.OK]
    exact ⟨decItems_ok vs .nil h trivial, wsNl_nil⟩
  | .arr vs, .obj _ _, h, _ => by
    simp only [JV.decorate, JDoc.OK]
    exact ⟨decItems_ok vs .nil h trivial, wsNl_nil⟩
  | .obj kvs, .obj ls close, h, ha => by
    simp only [Layout.Adm] at ha
    simp only [JV.decorate, JDoc.OK]
    exact ⟨decMems_ok kvs ls h ha.1, ha.2⟩
  | .obj kvs, .leaf, h, _ => by
    simp only [JV.decorate, JDoc.OK]
    exact ⟨decMems_ok kvs .nil h trivial, wsNl_nil⟩
  | .obj kvs, .arr _ _, h, _ => by
    simp only [JV.decorate, JDoc.OK]
    exact ⟨decMems_ok kvs .nil h trivial, wsNl_nil⟩
theorem decItems_ok : ∀ (vs : JVs) (ls : LItems), vs.Supported → ls.Adm → (vs.decorate ls).OK
  | .nil, _, _, _ => by simp only [JVs.decorate, JItems.OK]
  | .cons v r, .cons wc wb l ls, h, ha => by
    simp only [JVs.Supported] at h
    simp only [LItems.Adm] at ha
    simp only [JVs.decorate, JItems.OK]
    exact ⟨ha.1, ha.2.1, decorate_ok v l h.1 ha.2.2.1, decItems_ok r ls h.2 ha.2.2.2⟩
  | .cons v r, .nil, h, _ => by
    simp only [JVs.Supported] at h
    simp only [JVs.decorate, JItems.OK]
    exact ⟨wsSp_nil, wsNl_nil, decorate_ok v .leaf h.1 trivial, decItems_ok r .nil h.2 trivial⟩
theorem decMems_ok : ∀ (kvs : JKVs) (ls : LMems), kvs.Supported → ls.Adm → (kvs.decorate ls).OK
  | .nil, _, _, _ => by simp only [JKVs.decorate, JMems.OK]
  | .cons k v r, .cons wc wb wk wv l ls, h, ha => by
    simp only [JKVs.Supported] at h
    simp only [LMems.Adm] at ha
    simp only [JKVs.decorate, JMems.OK]
    exact ⟨ha.1, ha.2.1, h.1, ha.2.2.1, ha.2.2.2.1, decorate_ok v l h.2.1 ha.2.2.2.2.1, decMems_ok r ls h.2.2 ha.2.2.2.2.2⟩
  | .cons k v r, .nil, h, _ => by
    simp only [JKVs.Supported] at h
    simp only [JKVs.decorate, JMems.OK]
    exact ⟨wsSp_nil, wsNl_nil, h.1, wsSp_nil, wsNl_nil, decorate_ok v .leaf h.2.1 trivial, decMems_ok r .nil h.2.2 trivial⟩
end

mutual
theorem decorate_floats (P : Params) : ∀ (v : JV) (l : Layout), v.FloatsOk P → (v.decorate l).FloatsOk P
  | .null, _, _ => trivial
  | .bool _, _, _ => trivial
  | .int _, _, _ => trivial
  | .dec _, _, h => h
  | .str _, _, _ => trivial
  | .arr vs, .arr ls close, h => by simp only [JV.decorate, JDoc.FloatsOk]; exact decItems_floats P vs ls h
  | .arr vs, .leaf, h => by simp only [JV.decorate, JDoc.FloatsOk]; exact decItems_floats P vs .nil h
  | .arr vs, .obj _ _, h => by simp only [JV.decorate, JDoc.FloatsOk]; exact decItems_floats P vs .nil h
  | .obj kvs, .obj ls close, h => by simp only [JV.decorate, JDoc.FloatsOk]; exact decMems_floats P kvs ls h
  | .obj kvs, .leaf, h => by simp only [JV.decorate, JDoc.FloatsOk]; exact decMems_floats P kvs .nil h
  | .obj kvs, .arr _ _, h => by simp only [JV.decorate, JDoc.FloatsOk]; exact decMems_floats P kvs .nil h
theorem decItems_floats (P : Params) : ∀ (vs : JVs) (ls : LItems), vs.FloatsOk P → (vs.decorate ls).FloatsOk P
  | .nil, _, _ => by simp only [JVs.decorate, JItems.FloatsOk]
  | .cons v r, .cons wc wb l ls, h => by
    simp only [JVs.FloatsOk] at h
    simp only [JVs.decorate, JItems.FloatsOk]
    exact ⟨decorate_floats P v l h.1, decItems_floats P r ls h.2⟩
  | .cons v r, .nil, h => by
    simp only [JVs.FloatsOk] at h
    simp only [JVs.decorate, JItems.FloatsOk]
    exact ⟨decorate_floats P v .leaf h.1, decItems_floats P r .nil h.2⟩
theorem decMems_floats (P : Params) : ∀ (kvs : JKVs) (ls : LMems), kvs.FloatsOk P → (kvs.decorate ls).FloatsOk P
  | .nil, _, _ => by simp only [JKVs.decorate, JMems.FloatsOk]
  | .cons k v r, .cons wc wb wk wv l ls, h => by
    simp only [JKVs.FloatsOk] at h
    simp only [JKVs.decorate, JMems.FloatsOk]
    exact ⟨decorate_floats P v l h.1, decMems_floats P r ls h.2⟩
  | .cons k v r, .nil, h => by
    simp only [JKVs.FloatsOk] at h
    simp only [JKVs.decorate, JMems.FloatsOk]
    exact ⟨decorate_floats P v .leaf h.1, decMems_floats P r .nil h.2⟩
end

/-! ### no CR in a rendered document -/

def NoCR (l : Bytes) : Prop := ∀ b ∈ l, b ≠ 13

theorem noCR_nil : NoCR [] := by intro b hb; cases hb
theorem noCR_cons {c : Nat} {l : Bytes} (hc : c ≠ 13) (hl : NoCR l) : NoCR (c :: l) := by
  intro b hb
  rcases List.mem_cons.mp hb with rfl | h
  · exact hc
  · exact hl b h
theorem noCR_append {a b : Bytes} (ha : NoCR a) (hb : NoCR b) : NoCR (a ++ b) := by
  intro x hx
  rcases List.mem_append.mp hx with h | h
  · exact ha x h
  · exact hb x h
theorem noCR_wsNl {w : Bytes} (h : WsNl w) : NoCR w := by
  intro b hb; have := h b hb; omega
theorem noCR_wsSp {w : Bytes} (h : WsSp w) : NoCR w := by
  intro b hb; have := h b hb; omega
theorem noCR_digits {l : Bytes} (h : AllDigits l) : NoCR l := by
  intro b hb; have := h b hb; omega

theorem normCRLF_noCR : ∀ (l : Bytes), NoCR l → normCRLF l = l := by
  intro l
  induction l with
  | nil => intro _; rfl
  | cons b r ih =>
    intro h
    have hb := h b (by simp)
    have hr : NoCR r := fun x hx => h x (by simp [hx])
    unfold normCRLF
    split
    · rename_i heq; injection heq with h1 _; exact absurd h1 hb
    · rename_i heq; injection heq with h1 h2; subst h1; subst h2; rw [ih hr]
    · rename_i heq; cases heq

theorem noCR_renderInt (i : Int) : NoCR (renderInt i) := by
  have := noCR_digits (natDigits_spec i.natAbs).all
  unfold renderInt
  split
  · exact noCR_cons (by omega) this
  · exact this

theorem noCR_renderEx (ex : Option (Nat × Option Nat × Bytes))
    (hex : match ex with
      | none => True
      | some (e, s, ds) => (e = 101 ∨ e = 69) ∧ (s = none ∨ s = some 43 ∨ s = some 45) ∧ ds ≠ [] ∧ AllDigits ds) :
    NoCR (DecLex.renderEx ex) := by
  match ex, hex with
  | none, _ => exact noCR_nil
  | some (e, none, ds), ⟨he, _, _, hall⟩ => exact noCR_cons (by omega) (noCR_digits hall)
  | some (e, some s, ds), ⟨he, hs, _, hall⟩ =>
    have : s ≠ 13 := by
      rcases hs with h | h | h
      · cases h
      · injection h with h; omega
      · injection h with h; omega
    exact noCR_cons (by omega) (noCR_cons this (noCR_digits hall))

theorem noCR_dec (d : DecLex) (hd : d.OK) : NoCR d.render := by
  obtain ⟨hip, _, _, hfr, _, hex⟩ := hd
  unfold DecLex.render
  apply noCR_append
  · split
    · exact noCR_cons (by omega) noCR_nil
    · exact noCR_nil
  · exact noCR_append (noCR_digits hip) (noCR_cons (by omega) (noCR_append (noCR_digits hfr) (noCR_renderEx d.ex hex)))

theorem hexDigit_ge {b : Nat} (h : Lang.hexDigit b = true) : 48 ≤ b := by
  unfold Lang.hexDigit at h
  simp at h
  omega

theorem noCR_encodeRune (c : Nat) (h1 : 0x80 ≤ c) : NoCR (Utf8.encodeRune c) := by
  unfold Utf8.encodeRune
  rw [if_neg (by omega)]
  split
  · intro b hb; simp at hb; omega
  · split
    · intro b hb; simp at hb; omega
    · split
      · intro b hb; simp at hb; omega
      · intro b hb; simp at hb; omega

theorem noCR_elem (e : SElem) (he : e.OK) : NoCR e.render := by
  cases e with
  | plain b =>
    obtain ⟨h1, _⟩ := he
    exact noCR_cons (by omega) noCR_nil
  | esc x =>
    have : x ≠ 13 := by rcases he with h | h | h | h | h | h | h <;> omega
    exact noCR_cons (by omega) (noCR_cons this noCR_nil)
  | uni a b c d =>
    obtain ⟨ha, hb, hc, hd, _⟩ := he
    have := hexDigit_ge ha; have := hexDigit_ge hb; have := hexDigit_ge hc; have := hexDigit_ge hd
    exact noCR_cons (by omega) (noCR_cons (by omega) (noCR_cons (by omega) (noCR_cons (by omega)
      (noCR_cons (by omega) (noCR_cons (by omega) noCR_nil)))))
  | utf8 c => exact noCR_encodeRune c he.1

theorem noCR_elems : ∀ (s : List SElem), StrOK s → NoCR (renderElems s) := by
  intro s
  induction s with
  | nil => intro _; exact noCR_nil
  | cons e r ih =>
    intro hs
    exact noCR_append (noCR_elem e (hs e (by simp))) (ih (fun x hx => hs x (by simp [hx])))

theorem noCR_str (s : List SElem) (hs : StrOK s) : NoCR (renderStr s) :=
  noCR_cons (by omega) (noCR_append (noCR_elems s hs) (noCR_cons (by omega) noCR_nil))

mutual
theorem noCR_doc : ∀ (d : JDoc), d.OK → NoCR d.render
  | .null, _ => by intro b hb; simp [JDoc.render] at hb; omega
  | .bool true, _ => by intro b hb; simp [JDoc.render] at hb; omega
  | .bool false, _ => by intro b hb; simp [JDoc.render] at hb; omega
  | .int i, _ => noCR_renderInt i
  | .dec d, h => noCR_dec d h
  | .str s, h => noCR_str s h
  | .arr .nil close, h => by
    simp only [JDoc.OK] at h
    exact noCR_cons (by omega) (noCR_append (noCR_wsNl h.2) (noCR_cons (by omega) noCR_nil))
  | .arr (.cons wc wb d r) close, h => by
    simp only [JDoc.OK, JItems.OK] at h
    obtain ⟨⟨_, hwb, hd, hr⟩, hc⟩ := h
    simp only [JDoc.render]
    exact noCR_cons (by omega) (noCR_append (noCR_wsNl hwb) (noCR_append (noCR_doc d hd)
      (noCR_append (noCR_items r hr) (noCR_append (noCR_wsNl hc) (noCR_cons (by omega) noCR_nil)))))
  | .obj .nil close, h => by
    simp only [JDoc.OK] at h
    exact noCR_cons (by omega) (noCR_append (noCR_wsNl h.2) (noCR_cons (by omega) noCR_nil))
  | .obj (.cons wc wb k wk wv d r) close, h => by
    simp only [JDoc.OK, JMems.OK] at h
    obtain ⟨⟨_, hwb, hk, hwk, hwv, hd, hr⟩, hc⟩ := h
    simp only [JDoc.render]
    exact noCR_cons (by omega) (noCR_append (noCR_wsNl hwb) (noCR_append (noCR_str k hk)
      (noCR_append (noCR_wsSp hwk) (noCR_cons (by omega) (noCR_append (noCR_wsNl hwv) (noCR_append (noCR_doc d hd)
        (noCR_append (noCR_mems r hr) (noCR_append (noCR_wsNl hc) (noCR_cons (by omega) noCR_nil)))))))))
theorem noCR_items : ∀ (r : JItems), r.OK → NoCR r.renderMore
  | .nil, _ => noCR_nil
  | .cons wc wb d r, h => by
    simp only [JItems.OK] at h
    obtain ⟨hwc, hwb, hd, hr⟩ := h
    simp only [JItems.renderMore]
    exact noCR_append (noCR_wsSp hwc) (noCR_cons (by omega) (noCR_append (noCR_wsNl hwb)
      (noCR_append (noCR_doc d hd) (noCR_items r hr))))
theorem noCR_mems : ∀ (r : JMems), r.OK → NoCR r.renderMore
  | .nil, _ => noCR_nil
  | .cons wc wb k wk wv d r, h => by
    simp only [JMems.OK] at h
    obtain ⟨hwc, hwb, hk, hwk, hwv, hd, hr⟩ := h
    simp only [JMems.renderMore]
    exact noCR_append (noCR_wsSp hwc) (noCR_cons (by omega) (noCR_append (noCR_wsNl hwb) (noCR_append (noCR_str k hk)
      (noCR_append (noCR_wsSp hwk) (noCR_cons (by omega) (noCR_append (noCR_wsNl hwv)
        (noCR_append (noCR_doc d hd) (noCR_mems r hr))))))))
end

/-- text.NewFile leaves a rendered document as it is -/
theorem normCRLF_renderDoc (lead : Bytes) (d : JDoc) (trail : Bytes) (hd : d.OK) (hl : WsNl lead) (ht : WsNl trail) :
    normCRLF (renderDoc lead d trail) = renderDoc lead d trail :=
  normCRLF_noCR _ (noCR_append (noCR_wsNl hl) (noCR_append (noCR_doc d hd) (noCR_wsNl ht)))

end PV.J16
