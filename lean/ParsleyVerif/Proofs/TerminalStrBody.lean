/-
  C08 helper lemmas, part 8: unquoteString = `Lang.strBody` (plain run, then elements each denoting a
  code point that is re-encoded as UTF-8), and the char literal value = `Lang.charValue`.
-/
import ParsleyVerif.Proofs.TerminalEsc
namespace PV
open PV.Text

theorem hexEscape_width (n : Nat) (any : Bool) (r : Bytes) (c w : Nat) (h : Lang.hexEscape n any r = some (c, w)) :
    w = 2 + n ∧ n ≤ r.length := by
  unfold Lang.hexEscape at h
  split at h
  · rename_i hc
    simp only [Option.some.injEq, Prod.mk.injEq] at h
    exact ⟨h.2.symm, hc.1⟩
  · cases h

theorem octEscape_width (e : Nat) (r : Bytes) (c w : Nat) (h : Lang.octEscape e r = some (c, w)) :
    w = 4 ∧ 2 ≤ r.length := by
  unfold Lang.octEscape at h
  split at h
  · rename_i hc
    simp only [Option.some.injEq, Prod.mk.injEq] at h
    exact ⟨h.2.symm, hc.1⟩
  · cases h

/-- an element is at least one byte and lies inside the input -/
theorem escElem_width (q : Nat) (s : Bytes) (c w : Nat) (h : Lang.escElem q s = some (c, w)) : 1 ≤ w ∧ w ≤ s.length := by
  cases s with
  | nil => cases h
  | cons a r =>
    rw [escElem_cons] at h
    by_cases c1 : a = q
    · rw [if_pos c1] at h; cases h
    rw [if_neg c1] at h
    by_cases c2 : a ≠ 92
    · rw [if_pos c2] at h
      by_cases c3 : a < 0x80
      · rw [if_pos c3] at h
        simp only [Option.some.injEq, Prod.mk.injEq] at h; simp; omega
      · rw [if_neg c3] at h
        simp only [Option.some.injEq] at h
        have := Utf8.decodeRune_width (a :: r) (by simp)
        rw [h] at this; exact this
    rw [if_neg c2] at h
    cases r with
    | nil => cases h
    | cons e r2 =>
      simp only [] at h
      cases hl : Lang.simpleEscapes.lookup e with
      | some v =>
        rw [hl] at h
        simp only [Option.some.injEq, Prod.mk.injEq] at h; simp; omega
      | none =>
        rw [hl] at h
        simp only [] at h
        by_cases d0 : e = q
        · rw [if_pos d0] at h
          simp only [Option.some.injEq, Prod.mk.injEq] at h; simp; omega
        rw [if_neg d0] at h
        by_cases d1 : e = 120
        · rw [if_pos d1] at h
          have := hexEscape_width _ _ _ _ _ h; simp; omega
        rw [if_neg d1] at h
        by_cases d2 : e = 117
        · rw [if_pos d2] at h
          have := hexEscape_width _ _ _ _ _ h; simp; omega
        rw [if_neg d2] at h
        by_cases d3 : e = 85
        · rw [if_pos d3] at h
          have := hexEscape_width _ _ _ _ _ h; simp; omega
        rw [if_neg d3] at h
        by_cases d4 : Lang.octDigit e = true
        · rw [if_pos d4] at h
          have := octEscape_width _ _ _ _ h; simp; omega
        · rw [if_neg d4] at h; cases h

/-- a raw line break is not an element -/
theorem strElem_nl (l : Bytes) (h : l.head? = some 13 ∨ l.head? = some 10) : Lang.strElem l = none := by
  unfold Lang.strElem; rw [if_pos h]

theorem strElem_not_nl (l : Bytes) (h : ¬ (l.head? = some 13 ∨ l.head? = some 10)) :
    Lang.strElem l = match Lang.escElem 34 l with
      | some (c, w) => if c = Utf8.runeError ∧ w = 1 then none else some (c, w)
      | none => none := by
  unfold Lang.strElem; rw [if_neg h]; rfl

theorem strElem_some (s : Bytes) (c w : Nat) (h : Lang.strElem s = some (c, w)) :
    ¬ (s.head? = some 13 ∨ s.head? = some 10) ∧ Lang.escElem 34 s = some (c, w) ∧ ¬ (c = Utf8.runeError ∧ w = 1) := by
  by_cases hnl : s.head? = some 13 ∨ s.head? = some 10
  · rw [strElem_nl s hnl] at h; cases h
  · rw [strElem_not_nl s hnl] at h
    cases he : Lang.escElem 34 s with
    | none => rw [he] at h; cases h
    | some p =>
      obtain ⟨c', w'⟩ := p
      rw [he] at h
      simp only [] at h
      by_cases hb : c' = Utf8.runeError ∧ w' = 1
      · rw [if_pos hb] at h; cases h
      · rw [if_neg hb] at h
        simp only [Option.some.injEq, Prod.mk.injEq] at h
        obtain ⟨h1, h2⟩ := h
        subst h1; subst h2
        exact ⟨hnl, rfl, hb⟩

theorem strElem_width (s : Bytes) (c w : Nat) (h : Lang.strElem s = some (c, w)) : 1 ≤ w ∧ w ≤ s.length :=
  escElem_width 34 s c w (strElem_some s c w h).2.1

def widths (es : List (Nat × Nat)) : Nat := (es.map (·.2)).sum

theorem strElems_sum_le : ∀ (n : Nat) (l : Bytes), widths (Lang.strElems n l) ≤ l.length := by
  intro n
  induction n with
  | zero => intro l; simp [Lang.strElems, widths]
  | succ n ih =>
    intro l
    unfold Lang.strElems
    cases he : Lang.strElem l with
    | none => simp [widths]
    | some p =>
      obtain ⟨c, w⟩ := p
      have hw := strElem_width l c w he
      have := ih (l.drop w)
      rw [List.length_drop] at this
      simp only [widths, List.map_cons, List.sum_cons] at this ⊢
      omega

/-- the second loop of unquoteString appends, for each element, the UTF-8 encoding of its code point -/
theorem unquoteLoop_eq : ∀ (fuel : Nat) (str res : Bytes),
    unquoteLoop fuel str res =
      (res ++ (Lang.strElems fuel str).flatMap (fun e => Utf8.encodeRune e.1), str.drop (widths (Lang.strElems fuel str))) := by
  intro fuel
  induction fuel with
  | zero => intro str res; simp [unquoteLoop, Lang.strElems, widths]
  | succ n ih =>
    intro str res
    unfold unquoteLoop Lang.strElems
    by_cases hs : str = []
    · subst hs; simp [Lang.strElem, Lang.escElem, widths]
    rw [if_neg hs]
    by_cases hnl : str.head? = some 13 ∨ str.head? = some 10
    · rw [if_pos (by simpa using hnl), strElem_nl str hnl]; simp [widths]
    rw [if_neg (by simpa using hnl), strElem_not_nl str hnl, unquoteChar_eq str 34 (Or.inl rfl)]
    cases he : Lang.escElem 34 str with
    | none => simp [stepOf, widths]
    | some p =>
      obtain ⟨c, w⟩ := p
      have hw := escElem_width 34 str c w he
      have hlen : str.length - (str.drop w).length = w := by rw [List.length_drop]; omega
      simp only [stepOf, Option.map_some, hlen]
      by_cases hb : c = Utf8.runeError ∧ w = 1
      · rw [if_pos (by simpa using hb), if_pos hb]; simp [widths]
      · rw [if_neg (by simpa using hb), if_neg hb, ih]
        simp only [widths, List.flatMap_cons, List.map_cons, List.sum_cons, List.append_assoc, List.drop_drop]

theorem takeWhile_drop_head (p : Nat → Bool) (l : Bytes) (b : Nat) (t : Bytes)
    (h : l.drop (l.takeWhile p).length = b :: t) : p b = false := by
  induction l with
  | nil => simp at h
  | cons a r ih =>
    by_cases ha : p a = true
    · rw [List.takeWhile_cons_of_pos ha] at h
      exact ih (by simpa using h)
    · rw [List.takeWhile_cons_of_neg ha] at h
      simp at h
      cases hb : p b with
      | false => rfl
      | true => rw [← h.1] at hb; exact absurd hb ha

/-- the first loop of unquoteString: the run of plain bytes, and why it stopped -/
theorem unquoteScan_eq : ∀ (r : Bytes) (i : Nat),
    unquoteScan r i = (i + (r.takeWhile Lang.plainByte).length,
      match r.drop (r.takeWhile Lang.plainByte).length with
      | [] => 0
      | b :: _ => if b = 13 ∨ b = 10 ∨ b = 34 then 1 else 2) := by
  intro r
  induction r with
  | nil => intro i; rfl
  | cons b r ih =>
    intro i
    unfold unquoteScan
    by_cases c1 : (b = 13 || b = 10 || b = 34) = true
    · have hp : Lang.plainByte b = false := by
        simp only [Bool.or_eq_true, decide_eq_true_eq] at c1
        unfold Lang.plainByte; rcases c1 with (c | c) | c <;> subst c <;> rfl
      rw [if_pos c1, List.takeWhile_cons_of_neg (by simp [hp])]
      simp only [List.length_nil, List.drop_zero, Nat.add_zero]
      rw [if_pos (by simpa [or_assoc] using c1)]
    · rw [if_neg c1]
      have c1' : ¬ (b = 13 ∨ b = 10 ∨ b = 34) := by simpa [or_assoc] using c1
      by_cases c2 : (b = 92 || b ≥ 0x80) = true
      · have hp : Lang.plainByte b = false := by
          simp only [Bool.or_eq_true, decide_eq_true_eq] at c2
          unfold Lang.plainByte
          rcases c2 with c | c
          · subst c; rfl
          · simp; omega
        rw [if_pos c2, List.takeWhile_cons_of_neg (by simp [hp])]
        simp only [List.length_nil, List.drop_zero, Nat.add_zero]
        rw [if_neg c1']
      · have hp : Lang.plainByte b = true := by
          simp only [Bool.or_eq_true, decide_eq_true_eq, not_or] at c2
          unfold Lang.plainByte
          simp; omega
        rw [if_neg c2, ih, List.takeWhile_cons_of_pos hp]
        simp only [List.length_cons, List.drop_succ_cons]
        congr 1; omega

/-- **unquoteString = the documented body reader** -/
theorem unquoteString_eq (r : Bytes) : unquoteString r = Lang.strBody r := by
  unfold unquoteString Lang.strBody
  rw [unquoteScan_eq]
  simp only [Nat.zero_add]
  have hle : (r.takeWhile Lang.plainByte).length ≤ r.length := (List.takeWhile_prefix _).length_le
  generalize hi : (r.takeWhile Lang.plainByte).length = i at hle
  have hDl : (r.drop i).length = r.length - i := List.length_drop
  cases hD : r.drop i with
  | nil =>
    rw [hD] at hDl
    have : i = r.length := by simp at hDl; omega
    simp only [this]
  | cons b t =>
    rw [hD] at hDl
    simp only []
    by_cases c : b = 13 ∨ b = 10 ∨ b = 34
    · rw [if_pos c, if_pos c]; rfl
    · rw [if_neg c, if_neg c]
      simp only []
      rw [hD, unquoteLoop_eq]
      simp only []
      have hs := strElems_sum_le r.length (b :: t)
      have hw : ((Lang.strElems r.length (b :: t)).map (·.2)).sum = widths (Lang.strElems r.length (b :: t)) := rfl
      rw [hw]
      generalize widths (Lang.strElems r.length (b :: t)) = S at hs
      rw [List.length_drop]
      by_cases hz : i + S = 0
      · rw [if_pos (by omega), if_pos hz]
      · rw [if_neg (by omega), if_neg hz]
        congr 1; omega

/-- the char literal check `tail == "" && err == nil` of terminal.Char is `Lang.charValue` -/
theorem unquoteChar_charValue (body : Bytes) (v : Nat) :
    unquoteChar body 39 = some (v, []) ↔ Lang.charValue body = some v := by
  rw [unquoteChar_eq body 39 (Or.inr rfl)]
  unfold Lang.charValue stepOf
  cases he : Lang.escElem 39 body with
  | none => simp
  | some p =>
    obtain ⟨c, w⟩ := p
    have hw := escElem_width 39 body c w he
    simp only [Option.map_some, Option.some.injEq, Prod.mk.injEq]
    by_cases hl : w = body.length
    · rw [if_pos hl]; simp [hl]
    · rw [if_neg hl]
      simp only [reduceCtorEq, iff_false, not_and]
      intro _ hd
      have : body.length ≤ w := by simpa using hd
      omega


/-- the bound on the number of elements is never the reason why `strElems` stops: what follows the
    elements found is not an element -/
theorem strElems_stop : ∀ (n : Nat) (l : Bytes), l.length ≤ n →
    Lang.strElem (l.drop (widths (Lang.strElems n l))) = none := by
  intro n
  induction n with
  | zero =>
    intro l hl
    have : l = [] := List.length_eq_zero_iff.mp (by omega)
    subst this; rfl
  | succ n ih =>
    intro l hl
    unfold Lang.strElems
    cases he : Lang.strElem l with
    | none => simpa [widths] using he
    | some p =>
      obtain ⟨c, w⟩ := p
      have hw := strElem_width l c w he
      have := ih (l.drop w) (by rw [List.length_drop]; omega)
      simp only [widths, List.map_cons, List.sum_cons] at this ⊢
      rw [List.drop_drop] at this
      exact this

/-- `\xHH` denotes the code point 16·H+H, whatever follows -/
theorem strElem_hex_x (h1 h2 : Nat) (t : Bytes) (hh1 : Lang.hexDigit h1 = true) (hh2 : Lang.hexDigit h2 = true) :
    Lang.strElem (92 :: 120 :: h1 :: h2 :: t) = some (Lang.digitValue h1 * 16 + Lang.digitValue h2, 4) := by
  have he : Lang.escElem 34 (92 :: 120 :: h1 :: h2 :: t) = Lang.hexEscape 2 true (h1 :: h2 :: t) := rfl
  have hx : Lang.hexEscape 2 true (h1 :: h2 :: t) = some (Lang.digitValue h1 * 16 + Lang.digitValue h2, 4) := by
    unfold Lang.hexEscape
    rw [if_pos ⟨by simp, by simp [hh1, hh2], Or.inl rfl⟩]
    simp [Lang.digitsValue]
  rw [strElem_not_nl _ (by simp), he, hx]
  simp only []
  rw [if_neg (by omega)]

end PV
