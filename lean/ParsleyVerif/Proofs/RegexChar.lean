/-
  `\\[abfnrtv']|\\x[0-9a-fA-F]{2,2}|\\u[0-9a-fA-F]{4,4}|\\U[0-9a-fA-F]{8,8}|[^']`: the core term and its first candidate.
-/
import ParsleyVerif.Proofs.RegexBasic
namespace PV
open PV.Text
open Rx
namespace Rx

theorem decodeRune_ascii (c : Nat) (t : Bytes) (h : c < 0x80) : Utf8.decodeRune (c :: t) = (c, 1) := by
  simp [Utf8.decodeRune, h]

theorem ite_fst_ge (c : Prop) [Decidable c] (a w n : Nat) (hn : n ≤ Utf8.runeError) (h : c → n ≤ a) :
    n ≤ (if c then (a, w) else (Utf8.runeError, 1)).1 := by
  by_cases hc : c
  · rw [if_pos hc]; exact h hc
  · rw [if_neg hc]; exact hn

theorem decodeRune_fst_ge (c : Nat) (t : Bytes) (h : ¬ c < 0x80) : 0x80 ≤ (Utf8.decodeRune (c :: t)).1 := by
  have hn : 0x80 ≤ Utf8.runeError := by decide
  unfold Utf8.decodeRune
  dsimp only
  rw [if_neg h]
  by_cases c2 : c < 0xC2
  · rw [if_pos c2]; exact hn
  rw [if_neg c2]
  by_cases c3 : c ≤ 0xDF
  · rw [if_pos c3]
    split
    · exact ite_fst_ge _ _ _ _ hn (fun _ => by omega)
    · exact hn
  rw [if_neg c3]
  by_cases c4 : c ≤ 0xEF
  · rw [if_pos c4]
    split
    · rename_i b1 b2 _
      refine ite_fst_ge _ _ _ _ hn (fun hc => ?_)
      simp only [Bool.and_eq_true, decide_eq_true_eq] at hc
      have : (if c = 237 then 159 else 191) ≤ 191 := by split <;> omega
      by_cases e0 : c = 0xE0
      · rw [if_pos e0] at hc; omega
      · rw [if_neg e0] at hc; omega
    · exact hn
  rw [if_neg c4]
  by_cases c5 : c ≤ 0xF4
  · rw [if_pos c5]
    split
    · rename_i b1 b2 b3 _
      refine ite_fst_ge _ _ _ _ hn (fun hc => ?_)
      simp only [Bool.and_eq_true, decide_eq_true_eq] at hc
      have : (if c = 244 then 143 else 191) ≤ 191 := by split <;> omega
      by_cases e0 : c = 0xF0
      · rw [if_pos e0] at hc; omega
      · rw [if_neg e0] at hc; omega
    · exact hn
  rw [if_neg c5]; exact hn

theorem decodeRune_ne39 (c : Nat) (t : Bytes) : ((Utf8.decodeRune (c :: t)).1 != 39) = (c != 39) := by
  by_cases h : c < 0x80
  · rw [decodeRune_ascii c t h]
  · have := decodeRune_fst_ge c t h
    have a : (Utf8.decodeRune (c :: t)).1 ≠ 39 := by omega
    have b : c ≠ 39 := by omega
    rw [bne_iff_ne.mpr a, bne_iff_ne.mpr b]

@[simp] theorem run_rune_cons (p : Nat → Bool) (f c : Nat) (t : Bytes) :
    (Re.rune p).run f (c :: t) = if p (Utf8.decodeRune (c :: t)).1 then [(Utf8.decodeRune (c :: t)).2] else [] := rfl
@[simp] theorem run_rune_nil (p : Nat → Bool) (f : Nat) : (Re.rune p).run f [] = [] := rfl

def charCore : Re :=
  .alt (.seq (.byte (· == 92)) (.byte isEsc))
  (.alt (.seq (.byte (· == 92)) (.seq (Re.lit [120]) (Re.rep 2 (.byte isHex))))
  (.alt (.seq (.byte (· == 92)) (.seq (Re.lit [117]) (Re.rep 4 (.byte isHex))))
  (.alt (.seq (.byte (· == 92)) (.seq (Re.lit [85]) (Re.rep 8 (.byte isHex))))
        (.rune (fun b => b != 39)))))

theorem charRe_eq : charRe = charCore := by
  simp only [charRe, charSx, Sx.re, cHex_has, cEsc_has, cNq_has]
  rfl

theorem hexAlt (e k n : Nat) (r : Bytes) :
    (if (e == k) = true then
        List.map (fun x => 1 + x) (if n ≤ r.length ∧ (List.take n r).all isHex = true then [n] else [])
      else []) =
    if (decide (e = k) && decide (r.length ≥ n) && allHex (List.take n r)) = true then [1 + n] else [] := by
  have hiff : ((decide (e = k) && decide (r.length ≥ n) && allHex (List.take n r)) = true) ↔
      (e = k ∧ n ≤ r.length ∧ (List.take n r).all isHex = true) := by
    simp only [Bool.and_eq_true, decide_eq_true_eq, allHex, ge_iff_le, and_assoc]
  by_cases hk : e = k
  · have hk' : (e == k) = true := by simpa using hk
    rw [if_pos hk']
    by_cases hc : n ≤ r.length ∧ (List.take n r).all isHex = true
    · rw [if_pos hc, if_pos (hiff.2 ⟨hk, hc⟩)]; rfl
    · rw [if_neg hc, if_neg (fun h => hc (hiff.1 h).2)]; rfl
  · have hk' : ¬ (e == k) = true := by simpa using hk
    rw [if_neg hk', if_neg (fun h => hk (hiff.1 h).1)]

theorem charCore_head (f : Nat) (l : Bytes) : (charCore.run f l).head? = charMatch l := by
  unfold charMatch
  split
  · simp [charCore]
  · rename_i e r
    simp only [charCore, run_alt, run_seq_byte_cons, run_seq_lit_cons, run_seq_lit_nil, run_rep_byte, run_rune_cons,
      run_byte_cons, decodeRune_ascii 92 (e :: r) (by omega)]
    have h92 : ((92 : Nat) == 92) = true := rfl
    have h39 : ((92 : Nat) != 39) = true := rfl
    simp only [h92, h39, if_true, hexAlt]
    by_cases h1 : isEsc e = true
    · have h1' : [97, 98, 102, 110, 114, 116, 118, 39].contains e = true := h1
      rw [if_pos h1, if_pos h1']; rfl
    · have h1' : ¬ [97, 98, 102, 110, 114, 116, 118, 39].contains e = true := h1
      rw [if_neg h1, if_neg h1']
      by_cases c2 : (decide (e = 120) && decide (r.length ≥ 2) && allHex (List.take 2 r)) = true
      · rw [if_pos c2, if_pos c2]; rfl
      · rw [if_neg c2, if_neg c2]
        by_cases c4 : (decide (e = 117) && decide (r.length ≥ 4) && allHex (List.take 4 r)) = true
        · rw [if_pos c4, if_pos c4]; rfl
        · rw [if_neg c4, if_neg c4]
          by_cases c8 : (decide (e = 85) && decide (r.length ≥ 8) && allHex (List.take 8 r)) = true
          · rw [if_pos c8, if_pos c8]; rfl
          · rw [if_neg c8, if_neg c8]; rfl
  · rename_i c t hne
    have hrest : (charCore.run f (c :: t)).head? = ((Re.rune (fun b => b != 39)).run f (c :: t)).head? := by
      by_cases c92 : c = 92
      · subst c92
        cases t with
        | nil => simp [charCore]
        | cons e r => exact absurd rfl (fun h => hne e r rfl h)
      · have : (c == 92) = false := by simpa using c92
        simp [charCore, this]
    rw [hrest, run_rune_cons, decodeRune_ne39]
    by_cases c39 : c = 39
    · subst c39; rfl
    · rw [if_neg c39, if_pos (bne_iff_ne.mpr c39)]; rfl

end Rx
end PV
