/-
  C05 (full value theorem), lexical layer: what `Trim(Rune(c))` and `Trim(Integer())` find at a position,
  as facts about `rest f pos`; the whitespace skip of mode WsSpacesNl.
  Everything lives in `PV.A05`.
-/
import ParsleyVerif.Props.C08
import ParsleyVerif.Proofs.ReaderWs
import ParsleyVerif.Spec.Arith
namespace PV.A05
open PV PV.Text

/-- where `SkipWhitespaces(pos, WsSpacesNl)` stops -/
def sk (f : File) (q : Nat) : Nat := (skipWhitespaces f q .spacesNl).1
/-- `SetReaderPos` with the WsSpacesNl skip -/
def mv (f : File) (n : Node) : Node := (setRposNode f .spacesNl n none).1

theorem skip_spacesNl_snd (f : File) (q : Nat) : (skipWhitespaces f q .spacesNl).2 = none := by
  unfold skipWhitespaces
  simp

theorem setRpos_snd_none (f : File) (n : Node) : (setRposNode f .spacesNl n none).2 = none := by
  cases n <;> simp [setRposNode, skip_spacesNl_snd, wsToErr]

theorem mv_term (f : File) (t : Bytes) (v : Val) (p r : Nat) : mv f (.term t v p r) = .term t v p (sk f r) := by
  simp [mv, setRposNode, sk]

theorem sk_eq (f : File) (q : Nat) (h : InFile f q) (hoff : 1 ≤ f.offset) : sk f q = q + wsRun (rest f q) := by
  unfold sk
  rw [skipWhitespaces_spec f q .spacesNl h hoff]

theorem sk_inFile (f : File) (q : Nat) (h : InFile f q) (hoff : 1 ≤ f.offset) : InFile f (sk f q) := by
  rw [sk_eq f q h hoff]
  exact inFile_add f q _ h (wsRun_le _)

theorem sk_ge (f : File) (q : Nat) (h : InFile f q) (hoff : 1 ≤ f.offset) : q ≤ sk f q := by
  rw [sk_eq f q h hoff]; omega

theorem rest_sk (f : File) (q : Nat) (h : InFile f q) (hoff : 1 ≤ f.offset) :
    rest f (sk f q) = (rest f q).dropWhile isWs := by
  rw [sk_eq f q h hoff, rest_add f q _ h]
  unfold wsRun
  generalize rest f q = l
  induction l with
  | nil => simp
  | cons b r ih =>
    by_cases hb : isWs b = true
    · simp [hb, ih]
    · simp [hb]

/-- after the skip the next byte is not a whitespace byte -/
theorem head_sk_not_ws (f : File) (q : Nat) (h : InFile f q) (hoff : 1 ≤ f.offset) (b : Nat)
    (hb : (rest f (sk f q)).head? = some b) : isWs b = false := by
  rw [rest_sk f q h hoff] at hb
  generalize rest f q = l at hb
  induction l with
  | nil => simp at hb
  | cons c r ih =>
    by_cases hc : isWs c = true
    · simp only [List.dropWhile_cons, hc, ↓reduceIte] at hb; exact ih hb
    · simp only [List.dropWhile_cons, hc] at hb
      simp at hb
      subst hb; simpa using hc

/-- no whitespace at the position: the skip stays -/
theorem sk_of_head (f : File) (q : Nat) (h : InFile f q) (hoff : 1 ≤ f.offset)
    (hh : ∀ b, (rest f q).head? = some b → isWs b = false) : sk f q = q := by
  rw [sk_eq f q h hoff]
  have : wsRun (rest f q) = 0 := by
    unfold wsRun
    cases hr : rest f q with
    | nil => simp
    | cons b r =>
      have := hh b (by rw [hr]; rfl)
      simp [this]
  omega

/-- a run of whitespace bytes followed by something that does not start with one -/
theorem wsRun_append (ws l : Bytes) (hws : ∀ b ∈ ws, isWs b = true)
    (hl : ∀ b, l.head? = some b → isWs b = false) : wsRun (ws ++ l) = ws.length := by
  unfold wsRun
  induction ws with
  | nil =>
    cases l with
    | nil => simp
    | cons b r =>
      have := hl b rfl
      simp [this]
  | cons c r ih =>
    have hc := hws c (List.mem_cons_self ..)
    simp only [List.cons_append, List.takeWhile_cons, hc, ↓reduceIte, List.length_cons]
    rw [ih (fun b hb => hws b (List.mem_cons_of_mem _ hb))]

/-! ### Rune -/

/-- an ASCII rune terminal: found iff the byte is next; one byte wide -/
theorem rune_node_iff (P : Params) (f : File) (p c : Nat) (nm : Bytes) (n : Node) (h : InFile f p) (hc : c < 0x80) :
    Terminal.parse P f (.rune c nm) p = .node n ↔
      (rest f p).head? = some c ∧ n = .term (Utf8.encodeRune c) (.rune c) p (p + 1) := by
  rw [c08_rune_node P f p c nm n h, runeW_ascii c _ hc]
  constructor
  · rintro ⟨w, hw, rfl⟩
    by_cases hh : (rest f p).head? = some c
    · rw [if_pos hh] at hw; cases hw; exact ⟨hh, rfl⟩
    · rw [if_neg hh] at hw; cases hw
  · rintro ⟨hh, rfl⟩
    exact ⟨1, by rw [if_pos hh], rfl⟩

/-! ### Integer -/

/-- the first byte of an integer literal is a sign or a digit -/
theorem isInt_head (l : Bytes) (h : Lang.isInt l = true) :
    ∃ b r, l = b :: r ∧ (b = 43 ∨ b = 45 ∨ (48 ≤ b ∧ b ≤ 57)) := by
  have body : ∀ l, Lang.isIntBody l = true → ∃ b r, l = b :: r ∧ (48 ≤ b ∧ b ≤ 57) := by
    intro l hl
    cases l with
    | nil => simp [Lang.isIntBody, Lang.decimalLit, Lang.hexLit, Lang.octalLit] at hl
    | cons b r =>
      refine ⟨b, r, rfl, ?_⟩
      simp only [Lang.isIntBody, Bool.or_eq_true] at hl
      rcases hl with (hl | hl) | hl
      · simp only [Lang.decimalLit, Lang.nzDigit, Bool.and_eq_true, decide_eq_true_eq] at hl
        omega
      · by_cases hb : b = 48
        · omega
        · cases r with
          | nil => simp [Lang.hexLit] at hl
          | cons x t => simp [Lang.hexLit, hb] at hl
      · by_cases hb : b = 48
        · omega
        · simp [Lang.octalLit, hb] at hl
  unfold Lang.isInt Lang.optSign at h
  simp only [Bool.or_eq_true] at h
  rcases h with h | h
  · obtain ⟨b, r, rfl, hb⟩ := body l h
    exact ⟨b, r, rfl, .inr (.inr hb)⟩
  · cases l with
    | nil => cases h
    | cons b r =>
      simp only [Bool.and_eq_true, Lang.sign, Bool.or_eq_true, decide_eq_true_eq] at h
      refine ⟨b, r, rfl, ?_⟩
      rcases h.1 with h1 | h1
      · exact .inr (.inl h1)
      · exact .inl h1

/-- what an Integer node says about the text: the first byte is a sign or a digit -/
theorem integer_node_head (P : Params) (f : File) (p : Nat) (n : Node) (h : InFile f p)
    (hn : Terminal.parse P f .integer p = .node n) :
    ∃ b, (rest f p).head? = some b ∧ (b = 43 ∨ b = 45 ∨ (48 ≤ b ∧ b ≤ 57)) ∧
      ∃ v k, 0 < k ∧ k ≤ (rest f p).length ∧ n = .term (tokOf "INTEGER") (.int v) p (p + k) := by
  obtain ⟨k, hk, _, _, _, rfl⟩ := (c08_integer_value P f p n h).mp hn
  have hm := longestPrefix_mem hk
  have hle := longestPrefix_le hk
  obtain ⟨b, r, hbr, hb⟩ := isInt_head _ hm
  have hk0 : 0 < k := by
    cases k with
    | zero => simp at hbr
    | succ k => omega
  refine ⟨b, ?_, hb, _, k, hk0, hle, rfl⟩
  cases hr : rest f p with
  | nil => rw [hr] at hbr; simp at hbr
  | cons c t =>
    rw [hr] at hbr
    cases k with
    | zero => omega
    | succ k =>
      simp only [List.take_succ_cons, List.cons.injEq] at hbr
      simp [hbr.1]

end PV.A05
