/-
  C17, part 10: the exact call count of family 7 of the suite, `P → P b | P c | a` (two left-recursive alternatives
  in one rule: env = [Memoize(Any(SeqOf(P,'b'), SeqOf(P,'c'), 'a'))], root = Sentence(P), input `a` followed by
  `c b c b …` up to length n), for EVERY n ≥ 1.

  What the run does (`pbpc_level`): at position 1 Memoize is entered with left-recursion count 0, …, n+1 and
  curtailed at count n+2.  In every activation the FIRST alternative `P b` runs the inner activation; the SECOND
  alternative `P c` finds the inner activation's result in the cache (stored with context {P ↦ count}, which is
  not greater than the current one) — except in the lowest activation, where `P` is curtailed twice (a
  curtailment stores nothing).  The activation that is `m+1` levels above the curtailed one returns the
  min(m+1, n) shortest prefixes — those ending in `b` first, then those ending in `c`, then `a` — and costs
  5 calls (`P b`, `P c`, `a`, the element `P` twice) plus 2 per alternative of the inner activation.
  Sentence tries `End` after every alternative up to the one that spans the input: for odd n that is the
  first one; for even n the n/2 - 1 prefixes ending in `b` come first.
  Total: n² + 8n + 12 (n odd), n² + 8n + 11 + n/2 (n even).
-/
import ParsleyVerif.Proofs.CallsMutual
namespace PV.C17b
open PV.Text PV.C17

def pbpcBody : G := .any [lrS 0 98, lrS 0 99, runeT 97]
def pbpcP : G := .memo 0 pbpcBody
def pbpcEnv : List G := [pbpcP]

/-- the harness's input: `a`, then `"bc"[i%2]` for i = 1 … n-1 -/
def pbpcInput (n : Nat) : Bytes := 97 :: (List.range' 1 (n - 1)).map (fun i => if i % 2 = 0 then 98 else 99)
def pbpcFile (n : Nat) : File := { name := "f", data := pbpcInput n, offset := 1 }

structure IsPbPc (n : Nat) (cfg : Cfg) : Prop where
  env : cfg.env = pbpcEnv
  file : cfg.file = pbpcFile n
  max : cfg.maxCalls = 0

variable {n : Nat} {cfg : Cfg}

theorem pbpc_off (hc : IsPbPc n cfg) : cfg.file.offset = 1 := by rw [hc.file]; rfl

theorem pbpc_get (q : Nat) : (pbpcInput n)[q + 1]? =
    if q + 2 ≤ n then some (if q % 2 = 1 then 98 else 99) else none := by
  simp only [pbpcInput, List.getElem?_cons_succ, List.getElem?_map]
  by_cases h : q + 2 ≤ n
  · have hq : q < n - 1 := by omega
    rw [List.getElem?_range' hq]
    by_cases h' : q % 2 = 1
    · simp [h, h']; omega
    · simp [h, h']; omega
  · have : (List.range' 1 (n - 1))[q]? = none := by
      apply List.getElem?_eq_none_iff.mpr
      simp; omega
    simp [h, this]

/-- `b` follows the odd positions 3 … n, `c` the even positions 2 … n -/
theorem pbpc_fol_b (hc : IsPbPc n cfg) (p : Nat) (h2 : 2 ≤ p) :
    fol cfg.file.data 98 p = decide (p % 2 = 1 ∧ p ≤ n) := by
  rw [hc.file]
  obtain ⟨q, rfl⟩ : ∃ q, p = q + 2 := ⟨p - 2, by omega⟩
  simp only [fol, pbpcFile]
  rw [show q + 2 - 1 = q + 1 by omega, pbpc_get]
  by_cases h : q + 2 ≤ n <;> by_cases h' : q % 2 = 1 <;> simp [h, h'] <;> (intros; omega)

theorem pbpc_fol_c (hc : IsPbPc n cfg) (p : Nat) (h2 : 2 ≤ p) :
    fol cfg.file.data 99 p = decide (p % 2 = 0 ∧ p ≤ n) := by
  rw [hc.file]
  obtain ⟨q, rfl⟩ : ∃ q, p = q + 2 := ⟨p - 2, by omega⟩
  simp only [fol, pbpcFile]
  rw [show q + 2 - 1 = q + 1 by omega, pbpc_get]
  by_cases h : q + 2 ≤ n <;> by_cases h' : q % 2 = 1 <;> simp [h, h'] <;> (intros; omega)

theorem pbpc_fol_a (hc : IsPbPc n cfg) : fol cfg.file.data 97 1 = true := by
  rw [hc.file]; rfl

theorem pbpc_remaining (hc : IsPbPc n cfg) (hn : 1 ≤ n) : remaining cfg.file 1 + Facts.curtailSlack = n + 1 := by
  rw [hc.file]
  simp [remaining, pbpcFile, pbpcInput, File.len, Facts.curtailSlack]
  omega

/-- the left-recursion context with count `t` -/
def ctx0 : Nat → Ctx
  | 0 => []
  | t + 1 => [(0, t + 1)]

theorem ctx0_inc (t : Nat) : (ctx0 t).inc 0 = ctx0 (t + 1) := by
  cases t <;> simp [ctx0, Ctx.inc]
theorem ctx0_get (t : Nat) : (ctx0 t).get 0 = t := by
  cases t <;> simp [ctx0, Ctx.get]
theorem ctx0_filter (t : Nat) : (ctx0 t).filter [0] = ctx0 t := by
  cases t <;> simp [ctx0, Ctx.filter]

/-- the cache entry an activation leaves behind -/
def pbpcEntry (t : Nat) (L : List Node) : CacheEntry :=
  { idx := 0, pos := 1, ctx := ctx0 t, cp := [0], err := none, res := resOf L }

theorem pbpc_hit (t : Nat) (L : List Node) : cacheGet [pbpcEntry t L] 0 1 (ctx0 t) = some (pbpcEntry t L) := by
  cases t <;> simp [cacheGet, pbpcEntry, ctx0, Ctx.get]

/-- the end positions one level up: the prefixes `b` extends, the prefixes `c` extends, and `a` -/
def nxt (data : Bytes) (l : List Nat) : List Nat :=
  (l.filter (fol data 98)).map (· + 1) ++ (l.filter (fol data 99)).map (· + 1) ++ [2]

/-- **one activation** whose inner activation answers with `L`, first by running (`inner1`), then again from the
    cache `K1` it left behind (`inner2`) -/
theorem pbpc_step (hc : IsPbPc n cfg) (hn : 1 ≤ n) (f t : Nat) (ht : t ≤ n + 1) (L : List Node)
    (hL : ∀ x ∈ L, 1 < x.rpos) (c : Nat) (K1 : List CacheEntry)
    (hK1 : K1.filter (fun x => !(x.idx == 0 && x.pos == 1)) = [])
    (inner1 : ∀ s : St, s.cache = [] →
      ∃ e s1, run cfg (f + 2) pbpcP (ctx0 (t + 1)) 1 s = some (⟨resOf L, [0], e⟩, s1) ∧ s1.calls = s.calls + c ∧
        s1.cache = K1)
    (inner2 : ∀ s : St, s.cache = K1 →
      ∃ e s1, run cfg (f + 2) pbpcP (ctx0 (t + 1)) 1 s = some (⟨resOf L, [0], e⟩, s1) ∧ s1.calls = s.calls + 0 ∧
        s1.cache = K1) :
    ∃ L' : List Node, L'.map Node.rpos = nxt cfg.file.data (L.map Node.rpos) ∧
      ∀ st : St, st.cache = [] →
        ∃ st', run cfg (f + 6) pbpcP (ctx0 t) 1 st = some (⟨resOf L', [0], none⟩, st') ∧
          st'.calls = st.calls + c + 5 + 2 * L.length ∧ st'.cache = [pbpcEntry t L'] := by
  have henv : cfg.env[0]? = some pbpcP := by rw [hc.env]; rfl
  refine ⟨extAllG (lrSh 0 98) [] 98 cfg.file.data L ++ extAllG (lrSh 0 99) [] 99 cfg.file.data L ++ baseL cfg.file.data 97,
    ?_, ?_⟩
  · rw [List.map_append, List.map_append, extAllG_rpos _ rfl, extAllG_rpos _ rfl, baseL_rpos, pbpc_fol_a hc]
    rfl
  intro st hcache
  rw [pbpcP, run_memo_eq hc.max (f + 5) 0 pbpcBody (ctx0 t) 1 st (by rw [hcache]; rfl)
    (by rw [pbpc_remaining hc hn, ctx0_get]; omega), ctx0_inc]
  obtain ⟨e1, s1, a1, a2, a3⟩ := run_lrS hc.max (pbpc_off hc) 0 98 (by omega) pbpcP henv f (ctx0 (t + 1)) L hL c [0] []
    (· = K1) inner1 (memoEnter cfg 0 1 st).regCall
    (by show (memoEnter cfg 0 1 st).cache = []; rw [(memoEnter_fields _ _ _ _).2, hcache])
  obtain ⟨e2, s2, b1, b2, b3⟩ := run_lrS hc.max (pbpc_off hc) 0 99 (by omega) pbpcP henv f (ctx0 (t + 1)) L hL 0 [0] K1
    (· = K1) inner2 s1.regCall a3
  obtain ⟨e3, s3, c1, c2, c3⟩ := run_base hc.max (pbpc_off hc) 97 (by omega) (f + 3) (ctx0 (t + 1)) s2.regCall
  obtain ⟨e', s4, r1, r2, r3, r4⟩ := run_any3c hc.max (f + 3) _ _ _ (ctx0 (t + 1)) 1 (memoEnter cfg 0 1 st) _ _ _ s1 s2 s3
    a1 b1 c1
  have hres : appendNode (appendNode (resOf (extAllG (lrSh 0 98) [] 98 cfg.file.data L))
        (resOf (extAllG (lrSh 0 99) [] 99 cfg.file.data L))) (resOf (baseL cfg.file.data 97)) =
      resOf (extAllG (lrSh 0 98) [] 98 cfg.file.data L ++ extAllG (lrSh 0 99) [] 99 cfg.file.data L ++
        baseL cfg.file.data 97) := by
    rw [appendNode_resOf_list _ _ (extAllG_notEmpty _ _ _ _ _), appendNode_resOf_list _ _ (baseL_notEmpty _ _)]
  have hcp : cpUnion (cpUnion (cpUnion [] [0]) [0]) [] = [0] := by simp [cpUnion]
  simp only [hres, hcp] at r1 r4
  have hne : extAllG (lrSh 0 98) [] 98 cfg.file.data L ++ extAllG (lrSh 0 99) [] 99 cfg.file.data L ++
      baseL cfg.file.data 97 ≠ [] := by
    simp [baseL, pbpc_fol_a hc]
  have he : e' = none := r4 (resOf_isNil_false _ hne)
  subst he
  rw [pbpcBody, r1]
  refine ⟨_, rfl, ?_, ?_⟩
  · show s4.calls = _
    rw [r2, c2]
    show s2.calls + 1 = _
    rw [b2]
    show s1.calls + 1 + 1 + 0 + L.length + 1 = _
    rw [a2]
    show (memoEnter cfg 0 1 st).calls + 1 + 1 + c + L.length + 1 + 1 + 0 + L.length + 1 = _
    rw [(memoEnter_fields _ _ _ _).1]
    omega
  · show cacheSave s4.cache _ = _
    rw [r3, c3]
    show cacheSave s2.cache _ = _
    rw [b3]
    simp only [cacheSave, hK1, ctx0_filter]
    rfl

/-! ### the end positions at every level -/

theorem fil98_od (hc : IsPbPc n cfg) : ∀ b, (od b).filter (fol cfg.file.data 98) = od (min b ((n - 1) / 2)) := by
  intro b
  induction b with
  | zero => simp [od]
  | succ b ih =>
    show List.filter (fol cfg.file.data 98) ((2 * b + 3) :: od b) = _
    rw [List.filter_cons, ih, pbpc_fol_b hc _ (by omega)]
    by_cases h : 2 * b + 3 ≤ n
    · have h1 : (2 * b + 3) % 2 = 1 ∧ 2 * b + 3 ≤ n := ⟨by omega, h⟩
      have e1 : min b ((n - 1) / 2) = b := by omega
      have e2 : min (b + 1) ((n - 1) / 2) = b + 1 := by omega
      simp only [h1, and_self, decide_true, ↓reduceIte, e1, e2]
      rfl
    · have h1 : ¬ ((2 * b + 3) % 2 = 1 ∧ 2 * b + 3 ≤ n) := fun x => h x.2
      have e : min (b + 1) ((n - 1) / 2) = min b ((n - 1) / 2) := by omega
      simp only [h1, decide_false, Bool.false_eq_true, ↓reduceIte, e]

theorem fil99_ev (hc : IsPbPc n cfg) : ∀ j, (ev j).filter (fol cfg.file.data 99) = ev (min j (n / 2)) := by
  intro j
  induction j with
  | zero => simp [ev]
  | succ j ih =>
    show List.filter (fol cfg.file.data 99) ((2 * j + 2) :: ev j) = _
    rw [List.filter_cons, ih, pbpc_fol_c hc _ (by omega)]
    by_cases h : 2 * j + 2 ≤ n
    · have h1 : (2 * j + 2) % 2 = 0 ∧ 2 * j + 2 ≤ n := ⟨by omega, h⟩
      have e1 : min j (n / 2) = j := by omega
      have e2 : min (j + 1) (n / 2) = j + 1 := by omega
      simp only [h1, and_self, decide_true, ↓reduceIte, e1, e2]
      rfl
    · have h1 : ¬ ((2 * j + 2) % 2 = 0 ∧ 2 * j + 2 ≤ n) := fun x => h x.2
      have e : min (j + 1) (n / 2) = min j (n / 2) := by omega
      simp only [h1, decide_false, Bool.false_eq_true, ↓reduceIte, e]

theorem fil99_od (hc : IsPbPc n cfg) (b : Nat) : (od b).filter (fol cfg.file.data 99) = [] := by
  apply List.filter_eq_nil_iff.mpr
  intro p hp
  have := od_mem b p hp
  rw [pbpc_fol_c hc p (by omega)]
  simp; omega

theorem fil98_ev (hc : IsPbPc n cfg) (j : Nat) : (ev j).filter (fol cfg.file.data 98) = [] := by
  apply List.filter_eq_nil_iff.mpr
  intro p hp
  have := ev_mem j p hp
  rw [pbpc_fol_b hc p (by omega)]
  simp; omega

/-- the end positions at level `m`: the prefixes ending in `b` (even ends 4, 6, …), those ending in `c` (odd ends),
    and `a` (end 2); saturated at the input length -/
def LP (n m : Nat) : List Nat :=
  (od (min ((m - 1) / 2) ((n - 1) / 2))).map (· + 1) ++ od (min (m / 2) (n / 2)) ++ [2]

theorem LP_eq (n m : Nat) : LP n m =
    (od (min ((m - 1) / 2) ((n - 1) / 2))).map (· + 1) ++ (od (min (m / 2) (n / 2)) ++ [2]) := by
  simp [LP]

theorem nxt_LP (hc : IsPbPc n cfg) (m : Nat) (hm : 1 ≤ m) : nxt cfg.file.data (LP n m) = LP n (m + 1) := by
  -- the `b`-extensions come from the odd ends
  have h98 : (LP n m).filter (fol cfg.file.data 98) = od (min (min (m / 2) (n / 2)) ((n - 1) / 2)) := by
    have hE : ((od (min ((m - 1) / 2) ((n - 1) / 2))).map (· + 1)).filter (fol cfg.file.data 98) = [] := by
      apply List.filter_eq_nil_iff.mpr
      intro p hp
      obtain ⟨q, hq, rfl⟩ := List.mem_map.mp hp
      have := od_mem _ q hq
      rw [pbpc_fol_b hc _ (by omega)]
      simp; omega
    have h2 : fol cfg.file.data 98 2 = false := by
      rw [pbpc_fol_b hc 2 (by omega)]; simp
    rw [LP, List.filter_append, List.filter_append, hE, fil98_od hc]
    simp [h2]
  -- the `c`-extensions come from the even ends
  have h99 : (LP n m).filter (fol cfg.file.data 99) = ev (min (min ((m - 1) / 2) ((n - 1) / 2) + 1) (n / 2)) := by
    have hsplit : (LP n m).filter (fol cfg.file.data 99) =
        ((od (min ((m - 1) / 2) ((n - 1) / 2))).map (· + 1) ++ [2]).filter (fol cfg.file.data 99) := by
      rw [LP, List.filter_append, List.filter_append, List.filter_append, fil99_od hc]
      simp
    rw [hsplit, od_map_succ, fil99_ev hc]
  rw [nxt, h98, h99, ev_map_succ, LP]
  have e1 : min (min (m / 2) (n / 2)) ((n - 1) / 2) = min ((m + 1 - 1) / 2) ((n - 1) / 2) := by omega
  have e2 : min (min ((m - 1) / 2) ((n - 1) / 2) + 1) (n / 2) = min ((m + 1) / 2) (n / 2) := by omega
  rw [e1, e2]

theorem LP_length (hn : 1 ≤ n) (m : Nat) (hm : 1 ≤ m) : (LP n m).length = min m n := by
  simp only [LP, List.length_append, List.length_map, od_length, List.length_singleton]
  omega

theorem LP_mem (m p : Nat) (hp : p ∈ LP n m) : 1 < p := by
  simp only [LP, List.mem_append, List.mem_map, List.mem_singleton] at hp
  rcases hp with (⟨q, hq, rfl⟩ | hq) | rfl
  · have := od_mem _ q hq; omega
  · have := od_mem _ p hq; omega
  · omega

theorem gt1_of_map_LP (L : List Node) (m : Nat) (h : L.map Node.rpos = LP n m) : ∀ x ∈ L, 1 < x.rpos := by
  intro x hx
  have : x.rpos ∈ LP n m := by rw [← h]; exact List.mem_map_of_mem hx
  exact LP_mem m _ this

/-- the calls of the activation `m+1` levels above the curtailed one -/
def pbpcCost (n : Nat) : Nat → Nat
  | 0 => 5
  | m + 1 => pbpcCost n m + 5 + 2 * min (m + 1) n

/-- **the left spine** -/
theorem pbpc_level (hc : IsPbPc n cfg) (hn : 1 ≤ n) : ∀ m t, m + t = n + 1 →
    ∃ L : List Node, L.map Node.rpos = LP n (m + 1) ∧ ∀ st : St, st.cache = [] →
      ∃ st', run cfg (4 * m + 6) pbpcP (ctx0 t) 1 st = some (⟨resOf L, [0], none⟩, st') ∧
        st'.calls = st.calls + pbpcCost n m ∧ st'.cache = [pbpcEntry t L] := by
  intro m
  induction m with
  | zero =>
    intro t ht
    -- the inner activation is curtailed, twice
    have cur : ∀ s : St, s.cache = [] →
        ∃ e s1, run cfg (0 + 2) pbpcP (ctx0 (t + 1)) 1 s = some (⟨resOf [], [0], e⟩, s1) ∧ s1.calls = s.calls + 0 ∧
          s1.cache = [] := by
      intro s hs
      rw [pbpcP, run_memo_curtail_eq hc.max 1 0 pbpcBody (ctx0 (t + 1)) 1 s (by rw [hs]; rfl)
        (by rw [pbpc_remaining hc hn, ctx0_get]; omega)]
      exact ⟨none, _, rfl, (logEv_fields _ _ _).2.2.1, by rw [(logEv_fields _ _ _).1, hs]⟩
    obtain ⟨L', hL', step⟩ := pbpc_step hc hn 0 t (by omega) [] (fun x hx => by cases hx) 0 [] rfl cur cur
    refine ⟨L', hL', ?_⟩
    intro st hcache
    obtain ⟨st', h1, h2, h3⟩ := step st hcache
    exact ⟨st', h1, by rw [h2]; rfl, h3⟩
  | succ m ih =>
    intro t ht
    obtain ⟨L, hLm, inner⟩ := ih (t + 1) (by omega)
    have inner1 : ∀ s : St, s.cache = [] →
        ∃ e s1, run cfg (4 * m + 4 + 2) pbpcP (ctx0 (t + 1)) 1 s = some (⟨resOf L, [0], e⟩, s1) ∧
          s1.calls = s.calls + pbpcCost n m ∧ s1.cache = [pbpcEntry (t + 1) L] := by
      intro s hs
      obtain ⟨s1, a, b, c⟩ := inner s hs
      exact ⟨none, s1, a, b, c⟩
    have inner2 : ∀ s : St, s.cache = [pbpcEntry (t + 1) L] →
        ∃ e s1, run cfg (4 * m + 4 + 2) pbpcP (ctx0 (t + 1)) 1 s = some (⟨resOf L, [0], e⟩, s1) ∧
          s1.calls = s.calls + 0 ∧ s1.cache = [pbpcEntry (t + 1) L] := by
      intro s hs
      rw [pbpcP, run_memo_hit_eq hc.max (4 * m + 4 + 1) 0 pbpcBody (ctx0 (t + 1)) 1 s (pbpcEntry (t + 1) L)
        (by rw [hs]; exact pbpc_hit (t + 1) L)]
      exact ⟨none, _, rfl, (logEv_fields _ _ _).2.2.1, by rw [(logEv_fields _ _ _).1, hs]⟩
    obtain ⟨L', hL', step⟩ := pbpc_step hc hn (4 * m + 4) t (by omega) L (gt1_of_map_LP L _ hLm) (pbpcCost n m)
      [pbpcEntry (t + 1) L] rfl inner1 inner2
    rw [hLm, nxt_LP hc (m + 1) (by omega)] at hL'
    refine ⟨L', hL', ?_⟩
    intro st hcache
    obtain ⟨st', h1, h2, h3⟩ := step st hcache
    refine ⟨st', ?_, ?_, h3⟩
    · rw [show 4 * (m + 1) + 6 = 4 * m + 4 + 6 by omega]; exact h1
    · have : L.length = min (m + 1) n := by
        rw [← List.length_map (f := Node.rpos), hLm, LP_length hn (m + 1) (by omega)]
      rw [h2, pbpcCost, this]; omega

theorem pbpcCost_low (n : Nat) : ∀ m, m ≤ n → pbpcCost n m = m * m + 6 * m + 5 := by
  intro m
  induction m with
  | zero => intro _; rfl
  | succ m ih =>
    intro hm
    have e : (m + 1) * (m + 1) = m * m + 2 * m + 1 := by
      rw [Nat.add_mul, Nat.mul_add]; omega
    rw [pbpcCost, ih (by omega), e, Nat.min_eq_left hm]
    omega

theorem pbpcCost_top (n : Nat) : pbpcCost n (n + 1) = n * n + 8 * n + 10 := by
  rw [pbpcCost, pbpcCost_low n n (Nat.le_refl _), Nat.min_eq_right (by omega)]
  omega

/-- the closed form -/
def pbpcCalls (n : Nat) : Nat := n * n + 8 * n + 12 + (if n % 2 = 0 then n / 2 - 1 else 0)

theorem pbpc_isEOF (hc : IsPbPc n cfg) (hn : 1 ≤ n) (p : Nat) : isEOF cfg.file p = decide (n + 1 ≤ p) := by
  rw [hc.file]
  simp only [isEOF, pbpcFile, File.len, pbpcInput, List.length_cons, List.length_map, List.length_range']
  congr 1
  apply propext
  constructor <;> intro h <;> omega

theorem od_head (a : Nat) : ∃ tl, (od a).map (· + 1) ++ od a ++ [2] = (2 * a + 2) :: tl := by
  cases a with
  | zero => exact ⟨[], rfl⟩
  | succ a => exact ⟨_, rfl⟩

/-- **the closed form for `P → P b | P c | a`** -/
theorem pbpc_parse (hc : IsPbPc n cfg) (hn : 1 ≤ n) :
    ∃ p, parse cfg (4 * n + 14) (G.sentence (.ref 0)) = some p ∧ p.err = none ∧ p.res.isNil = false ∧
      p.st.calls = pbpcCalls n := by
  have hpos : cfg.file.pos 0 = 1 := by rw [hc.file]; rfl
  obtain ⟨L, hLm, lvl⟩ := pbpc_level hc hn (n + 1) 0 (by omega)
  obtain ⟨s1, h1, h2, _⟩ := lvl ({} : St).regCall rfl
  have href : run cfg (4 * n + 10 + 3) (.ref 0) [] 1 ({} : St).regCall = some (⟨resOf L, [0], none⟩, s1) := by
    rw [run_ref hc.max (4 * n + 10 + 2) 0 pbpcP (by rw [hc.env]; rfl)]
    exact run_mono cfg (4 * (n + 1) + 6) (4 * n + 10 + 2) (by omega) _ _ _ _ _ h1
  have hs1 : s1.calls = n * n + 8 * n + 11 := by
    rw [h2, pbpcCost_top]; simp [St.regCall]; omega
  have hLP : LP n (n + 1 + 1) = (od ((n - 1) / 2)).map (· + 1) ++ od (n / 2) ++ [2] := by
    have e1 : min ((n + 1 + 1 - 1) / 2) ((n - 1) / 2) = (n - 1) / 2 := by omega
    have e2 : min ((n + 1 + 1) / 2) (n / 2) = n / 2 := by omega
    rw [LP, e1, e2]
  rw [hLP] at hLm
  have fin : ∀ (pre : List Node) (h : Node) (rest : List Node), L = pre ++ h :: rest → h.rpos = n + 1 →
      (∀ x ∈ pre, 1 < x.rpos ∧ x.rpos ≤ n) →
      ∃ p, parse cfg (4 * n + 14) (G.sentence (.ref 0)) = some p ∧ p.err = none ∧ p.res.isNil = false ∧
        p.st.calls = n * n + 8 * n + 12 + pre.length := by
    intro pre h rest hL hh hpre
    have heof : isEOF cfg.file h.rpos = true := by rw [pbpc_isEOF hc hn, hh]; simp
    obtain ⟨o, st', r1, r2, r3, r4⟩ := sentence_skip hc.max (4 * n + 10) (.ref 0) 1 {} _ (resOf L) _ none pre h rest
      href (by rw [resOf_alts, hL])
      (fun x hx => ⟨(hpre x hx).1, by rw [pbpc_isEOF hc hn]; simp; exact Nat.lt_succ_of_le (hpre x hx).2⟩)
      (by omega) heof
    have := parse_of_run (cfg := cfg) (4 * n + 14) (G.sentence (.ref 0)) o st' (by rw [hpos]; exact r1) r2 r3
    refine ⟨_, this, rfl, r2, ?_⟩
    show st'.calls = _
    rw [r4, hs1]
    omega
  by_cases hpar : n % 2 = 0
  · -- even n: the prefixes ending in `b` come first
    obtain ⟨b, hb⟩ : ∃ b, n = 2 * b + 2 := ⟨n / 2 - 1, by omega⟩
    have e1 : (n - 1) / 2 = b := by omega
    have e2 : n / 2 = b + 1 := by omega
    rw [e1, e2, List.append_assoc] at hLm
    obtain ⟨l1, l2, hL, m1, m2⟩ := List.map_eq_append_iff.mp hLm
    have m2' : l2.map Node.rpos = (2 * b + 3) :: (od b ++ [2]) := m2
    obtain ⟨h, rest, hl2, hh, _⟩ := List.map_eq_cons_iff.mp m2'
    obtain ⟨p, q1, q2, q3, q4⟩ := fin l1 h rest (by rw [hL, hl2]) (by rw [hh]; omega) (by
      intro x hx
      have : x.rpos ∈ (od b).map (· + 1) := by rw [← m1]; exact List.mem_map_of_mem hx
      obtain ⟨q, hq, hqe⟩ := List.mem_map.mp this
      have := od_mem b q hq
      omega)
    refine ⟨p, q1, q2, q3, ?_⟩
    have hlen : l1.length = b := by
      rw [← List.length_map (f := Node.rpos), m1, List.length_map, od_length]
    rw [q4, hlen, pbpcCalls]
    simp only [hpar, ↓reduceIte]
    omega
  · -- odd n: the first alternative spans the input
    obtain ⟨a, ha⟩ : ∃ a, n = 2 * a + 1 := ⟨n / 2, by omega⟩
    have e1 : (n - 1) / 2 = a := by omega
    have e2 : n / 2 = a := by omega
    rw [e1, e2] at hLm
    obtain ⟨tl, htl⟩ := od_head a
    rw [htl] at hLm
    obtain ⟨h, rest, hL, hh, _⟩ := List.map_eq_cons_iff.mp hLm
    obtain ⟨p, q1, q2, q3, q4⟩ := fin [] h rest (by rw [hL]; rfl) (by rw [hh]; omega) (fun x hx => by cases hx)
    refine ⟨p, q1, q2, q3, ?_⟩
    rw [q4, pbpcCalls]
    simp only [hpar, ↓reduceIte]
    rfl

def pbpcCfg (n : Nat) : Cfg := famCfg pbpcEnv (pbpcInput n)

theorem pbpcCfg_is (n : Nat) : IsPbPc n (pbpcCfg n) := ⟨rfl, rfl, rfl⟩
end PV.C17b
