/-
  The CLOSED WORLD of the translated parser core: definitions.

  Props/C01P.lean ties every TRANSLATED combinator closure (Generated/FactsCore.lean) to the matching case of the
  model's `run`, under the hypothesis that the world's `parse` agrees with `run` on the operands.  This file builds the
  world in which that hypothesis is discharged: `gWorld cfg root fuel`, by recursion on the fuel, from the translated
  closures themselves.

  * Parser handles.  A `parsley.Parser` value of the translation is `Parser.mk n`.  Here `n` encodes a PATH into the finite
    table `root :: cfg.env` of the grammar: `[k]` is the k-th entry of the table (0 = the root, k+1 = the rule `cfg.env[k]`),
    `π ++ [i]` the i-th operand (`kids`) of the sub-parser at `π`.  (`Encodable (List ℕ)` of Mathlib: a computable
    bijection `List ℕ ≃ ℕ`.)  `ref k` — a parser VARIABLE of the Go program, through which the recursion of the grammar
    goes — is the handle `[k+1]`.
  * `(gWorld cfg root (fuel+1)).parse (hdl π)` looks the path up (`resolve`) and runs the TRANSLATED closure of the
    combinator found there (`node`), over the world `gWorld cfg root fuel` and the handles of the operands.  Parsers of the
    Sequence family are built by the TRANSLATED constructors (SeqOf / SeqTry / SeqFirstOrAll / Many / Many1 / SepBy /
    SepBy1) and setters (Token / Name / HandleResult(ReturnSingle()) / Bind) and run by the translated
    `(*Sequence).Parse` (whose own recursion `sequence.parse` ⇄ `parseNext` gets the fuel 2·fuel − 1).
  * The only leaves taken from the model: the terminals (`Terminal.parse`, Model/Terminal.lean: C08's subject) and the
    reader (`rdWorld`: the model's file functions, so `WorldRel` holds by construction; C10P ties those to the
    translated reader).
  * Fuel 0: out of fuel.  A handle that is nil / not a path of the table: a Go panic (nil-pointer call).
-/
import ParsleyVerif.Proofs.CoreTieChoice
import ParsleyVerif.Proofs.CoreTieMemo
import ParsleyVerif.Proofs.CoreTieTrim
import ParsleyVerif.Proofs.CoreTieParse
import ParsleyVerif.Proofs.CoreTieSeqCtor
import ParsleyVerif.Spec.Derives
import Mathlib.Logic.Equiv.List
namespace PV.CW
open PV.CoreTie PV.FactsCore

/-! ### paths into the grammar -/

/-- the operands of a combinator node, in the order the Go constructor takes them -/
def kids : G → List G
  | .memo _ g => [g]
  | .any gs => gs
  | .choice gs => gs
  | .seq _ gs _ => gs
  | .many g _ _ => [g]
  | .sepBy v s _ _ => [v, s]
  | .optional g => [g]
  | .name g _ => [g]
  | .ltrim g _ => [g]
  | .rtrim g _ => [g]
  | .single g => [g]
  | .suppress g => [g]
  | .term _ => []
  | .empty => []
  | .eof => []
  | .ref _ => []

/-- the sub-parser of `g` at a path of operand indexes -/
def subAt : List Nat → G → Option G
  | [], g => some g
  | i :: π, g =>
    match (kids g)[i]? with
    | some k => subAt π k
    | none => none

/-- the sub-parser at a path into a table: entry `k`, then operand indexes -/
def resolve (T : List G) : List Nat → Option G
  | [] => none
  | k :: π =>
    match T[k]? with
    | some g => subAt π g
    | none => none

/-- the table of a configuration and a root parser: entry 0 = the root, entry k+1 = the rule `cfg.env[k]` -/
def table (cfg : Cfg) (root : G) : List G := root :: cfg.env

/-- the handle of a path -/
def hdl (π : List Nat) : Parser := .mk (Encodable.encode π)

/-- the handle of the root parser -/
def rootH : Parser := hdl [0]

/-- the handle of the parser variable `ref k` -/
def refH (k : Nat) : Parser := hdl [k + 1]

/-- the handle of the i-th operand of the node at `π` -/
def kidH (π : List Nat) (i : Nat) : Parser := hdl (π ++ [i])

/-- the handles of the first `n` operands of the node at `π` -/
def kidsH (π : List Nat) (n : Nat) : List Parser := (List.range' 0 n).map (kidH π)

/-! ### the leaves taken from the model -/

/-- the model's answer of a terminal, as `run` reports it -/
def termOut (cfg : Cfg) (t : Terminal) (pos : Nat) : Out :=
  match t.parse cfg.params cfg.file pos with
  | .node n => ⟨.one n, [], none⟩
  | .err e => ⟨.nil, [], some e⟩
  | .panic site => ⟨.nil, [], some ⟨pos, .panic (tokOf site)⟩⟩

/-- a terminal parser: the model's `Terminal.parse` (the context is not touched) -/
def Terminal_parse (cfg : Cfg) (t : Terminal) (_leftRecCtx : IntMap) (pos : Int) : CM (CNode × IntSet × CErr) :=
  pure (eOut (termOut cfg t pos.toNat))

/-- the whitespace mode of a code (`text.WsMode` is an int in Go) -/
def modeOf (m : Int) : Text.WsMode :=
  if m = 0 then .none else if m = 1 then .spaces else if m = 3 then .forceNl else .spacesNl

/-- the reader of a configuration (the model's file functions), and no parser -/
def rdWorld (cfg : Cfg) : World Context :=
  { parse := fun _ _ _ => CorePrelude.Go.panic,
    Reader_Remaining := fun p => (Text.remaining cfg.file p.toNat : Nat),
    Reader_IsEOF := fun p => Text.isEOF cfg.file p.toNat,
    Reader_Pos := fun i => (cfg.file.pos i.toNat : Nat),
    Reader_SkipWhitespaces := fun p m =>
      (((Text.skipWhitespaces cfg.file p.toNat (modeOf m)).1 : Nat),
        eErr (wsToErr (Text.skipWhitespaces cfg.file p.toNat (modeOf m)).2)),
    Transform := fun _ n => (n, .nil),
    StaticCheck := fun _ _ => .nil }

/-! ### parsers of the Sequence family: translated constructors, setters, Parse -/

/-- SeqOf / SeqTry / SeqFirstOrAll, translated -/
def seqCtor (W : World Context) (k : SeqKind) (ps : List Parser) : CM (Option Sequence) :=
  match k with
  | .seqOf => SeqOf W ps
  | .seqTry => SeqTry W ps
  | .seqFirstOrAll => SeqFirstOrAll W ps

/-- `.Token(t)`, translated, where the grammar term has a token -/
def optToken (W : World Context) (o : SeqOpts) (S : Sequence) : CM Sequence :=
  match o.token with
  | some t => do let r ← Sequence_Token W S t; pure r.1
  | none => pure S

/-- `.Name(nm)`, translated, where the grammar term has a name -/
def optName (W : World Context) (o : SeqOpts) (S : Sequence) : CM Sequence :=
  match o.name with
  | some nm => do let r ← Sequence_Name W S nm; pure r.1
  | none => pure S

/-- `.HandleResult(ReturnSingle())`, translated, where the grammar term has the option -/
def optSingle (W : World Context) (o : SeqOpts) (S : Sequence) : CM Sequence :=
  if o.single then (do
    let h ← ReturnSingle W
    let r ← Sequence_HandleResult W S (some h)
    pure r.1)
  else pure S

/-- the option setters of a Sequence, translated: `.Token(t)` / `.Name(nm)` / `.HandleResult(ReturnSingle())` where the
    grammar term has the option, then `.Bind(interp)` (the nil interpreter when there is none) -/
def applyOpts (W : World Context) (o : SeqOpts) (S : Sequence) : CM Sequence := do
  let S ← optToken W o S
  let S ← optName W o S
  let S ← optSingle W o S
  let r ← Sequence_Bind W S (eInterp o.interp)
  pure r.1

/-- build the Sequence with the translated constructor and setters, then run the translated `(*Sequence).Parse`;
    `fuel` is the fuel of the world `W` the operands are called in -/
def seqNode (W : World Context) (fuel : Nat) (ctor : CM (Option Sequence)) (o : SeqOpts)
    (leftRecCtx : IntMap) (pos : Int) : CM (CNode × IntSet × CErr) := do
  let oS ← ctor
  let S ← CorePrelude.Go.deref oS
  let S ← applyOpts W o S
  Sequence_Parse W (2 * fuel - 1) S leftRecCtx pos

/-! ### one level of the world -/

/-- the TRANSLATED closure of the combinator at the head of `g` (the node at path `π`), over the world `W` (which has
    fuel `fuel`) and the handles of its operands -/
def node (cfg : Cfg) (W : World Context) (fuel : Nat) (π : List Nat) : G → IntMap → Int → CM (CNode × IntSet × CErr)
  | .term t => Terminal_parse cfg t
  | .empty => Empty_parse W
  | .eof => End_parse W (CorePrelude.errors_New (CorePrelude.Go.str "was expecting the end of input"))
  | .ref k => W.parse (refH k)
  | .memo idx _ => Memoize_parse W (kidH π 0) (idx : Int)
  | .any gs => Any_parse W (kidsH π gs.length)
  | .choice gs => Choice_parse W (kidsH π gs.length)
  | .seq k gs o => seqNode W fuel (seqCtor W k (kidsH π gs.length)) o
  | .many _ ae o => seqNode W fuel (if ae then Many W (kidH π 0) else Many1 W (kidH π 0)) o
  | .sepBy _ _ ae o =>
    seqNode W fuel (if ae then SepBy W (kidH π 0) (kidH π 1) else SepBy1 W (kidH π 0) (kidH π 1)) o
  | .optional _ => Optional_parse W (kidH π 0)
  | .name _ nm => ReturnError_parse W (kidH π 0) (CorePrelude.NotFoundError nm)
  | .ltrim _ mode => LeftTrim_parse W (kidH π 0) (modeCode mode)
  | .rtrim _ mode => RightTrim_parse W (kidH π 0) (modeCode mode)
  | .single _ => Single_parse W (kidH π 0)
  | .suppress _ => SuppressError_parse W (kidH π 0)

/-- `p.Parse(ctx, leftRecCtx, pos)` on a handle: decode the path, find the sub-parser, run its translated closure -/
def dispatch (cfg : Cfg) (root : G) (W : World Context) (fuel : Nat) :
    Parser → IntMap → Int → CM (CNode × IntSet × CErr)
  | .nil, _, _ => CorePrelude.Go.panic
  | .mk n, m, pos =>
    match (Encodable.decode n : Option (List Nat)) with
    | none => CorePrelude.Go.panic
    | some π =>
      match resolve (table cfg root) π with
      | none => CorePrelude.Go.panic
      | some g => node cfg W fuel π g m pos

/-- **the closed world**, by recursion on the fuel -/
def gWorld (cfg : Cfg) (root : G) : Nat → World Context
  | 0 => { rdWorld cfg with parse := fun _ _ _ => CorePrelude.Go.outOfFuel }
  | fuel + 1 => { rdWorld cfg with parse := dispatch cfg root (gWorld cfg root fuel) fuel }

/-! ### the grammars covered: every `ref` names a rule of the environment -/

/-- every `ref k` inside `g` has `k < n` -/
def RefsBelow (n : Nat) (g : G) : Prop := g.All (fun x => ∀ k, x = .ref k → k < n)

/-- the root and every rule only refer to rules that exist (no nil parser variable is ever called) -/
structure Closed (cfg : Cfg) (root : G) : Prop where
  root : RefsBelow cfg.env.length root
  env : ∀ g ∈ cfg.env, RefsBelow cfg.env.length g

mutual
/-- a checker for `RefsBelow` -/
def refsBelowB (n : Nat) : G → Bool
  | .term _ => true
  | .empty => true
  | .eof => true
  | .ref k => decide (k < n)
  | .memo _ g => refsBelowB n g
  | .any gs => refsBelowAllB n gs
  | .choice gs => refsBelowAllB n gs
  | .seq _ gs _ => refsBelowAllB n gs
  | .many g _ _ => refsBelowB n g
  | .sepBy v s _ _ => refsBelowB n v && refsBelowB n s
  | .optional g => refsBelowB n g
  | .name g _ => refsBelowB n g
  | .ltrim g _ => refsBelowB n g
  | .rtrim g _ => refsBelowB n g
  | .single g => refsBelowB n g
  | .suppress g => refsBelowB n g
def refsBelowAllB (n : Nat) : List G → Bool
  | [] => true
  | g :: gs => refsBelowB n g && refsBelowAllB n gs
end

/-- the checker of `Closed` -/
def closedB (env : List G) (root : G) : Bool := refsBelowB env.length root && refsBelowAllB env.length env

end PV.CW
