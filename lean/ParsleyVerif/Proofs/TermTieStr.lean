/-
  The tie of the TERMINAL PARSERS, part 3: Char and String (several reader calls in a row, each with its own error
  position; UnquoteChar; the quote selection of String, the backquote body, Readf with unquoteString).
-/
import ParsleyVerif.Proofs.TermTieNum
namespace PV.TermTie
open PV.CoreTie PV.Text PV.TermPrelude PV.FactsTerm

variable {σ : Type}

theorem rx_char :
    CorePrelude.Go.str "\\\\[abfnrtv']|\\\\x[0-9a-fA-F]{2,2}|\\\\u[0-9a-fA-F]{4,4}|\\\\U[0-9a-fA-F]{8,8}|[^']" =
      rxBytes Rx.charSx := by
  unfold rxBytes; rw [Rx.charSx_src]; rfl

theorem rx_backquote : CorePrelude.Go.str "[^`]+" = rxBytes Rx.backquoteSx := by
  unfold rxBytes; rw [Rx.backquoteSx_src]; rfl

theorem tokOf_empty : tokOf "" = [] := by simp [tokOf]

/-- terminal.Char(schema) -/
theorem tie_Char (T : TWorld) (cfg : Cfg) (hT : TWorldRel T cfg) (schema : CorePrelude.Opaque)
    (m : IntMap) (pos : Nat) (s : σ) :
    CorrT (Char_parse T schema (CorePrelude.Go.str "char literal") m (pos : Int) s) s
      (Terminal.char.parse cfg.params cfg.file pos) := by
  unfold Char_parse Terminal.parse
  have hq39 : ∀ p : Nat, T.Reader_ReadRune (p : Int) 39 = (readRune cfg.file p 39).map ePB := fun p => hT.readRune p 39
  have hre : ∀ p : Nat, T.Reader_ReadRegexp (p : Int)
      (tokOf "\\\\[abfnrtv']|\\\\x[0-9a-fA-F]{2,2}|\\\\u[0-9a-fA-F]{4,4}|\\\\U[0-9a-fA-F]{8,8}|[^']") =
      (readRegexp charMatch cfg.file p).map ePS := fun p => by rw [← goStr_eq_tokOf, rx_char]; exact hT.reChar p
  rcases h1 : readRune cfg.file pos 39 with _ | ⟨rp1, _ | _⟩
  · term_simp [hq39, h1]
  · term_simp [hq39, h1]; term_done
  · rcases h2 : readRegexp charMatch cfg.file rp1 with _ | ⟨rp2, _ | res⟩
    · term_simp [hq39, hre, h1, h2]; term_done
    · term_simp [hq39, hre, h1, h2]; term_done
    · rcases h3 : readRune cfg.file rp2 39 with _ | ⟨rp3, _ | _⟩
      · term_simp [hq39, hre, h1, h2, h3]; term_done
      · term_simp [hq39, hre, h1, h2, h3]; term_done
      · have hu := hT.unquoteChar res
        rcases hq : T.strconv_UnquoteChar res 39 with ⟨v, mb, tail, er⟩
        rw [hq] at hu
        rcases h4 : unquoteChar res 39 with _ | ⟨v', tl⟩
        · rw [h4] at hu
          simp only at hu
          term_simp [hq39, hre, h1, h2, h3, h4, hq, hu, tokOf_empty]
          term_done
        · rw [h4] at hu
          obtain ⟨mb', hu⟩ := hu
          simp only [Prod.mk.injEq] at hu
          obtain ⟨rfl, rfl, rfl, rfl⟩ := hu
          cases tail with
          | nil => term_simp [hq39, hre, h1, h2, h3, h4, hq, tokOf_empty]; term_done
          | cons b tl => term_simp [hq39, hre, h1, h2, h3, h4, hq, tokOf_empty]; term_done

/-- `parsley.NewErrorf(readerPos, "was expecting '%s'", string(quote))` for the two quotes -/
theorem expecting_quote (q : Nat) (hq : q = 34 ∨ q = 96) :
    Go.subst1 (tokOf "was expecting '%s'") (Utf8.encodeRune q) = tokOf "was expecting '" ++ [q] ++ tokOf "'" := by
  rcases hq with rfl | rfl <;> with_unfolding_all rfl

/-- terminal.String(schema, allowBackquote) -/
theorem tie_String (T : TWorld) (cfg : Cfg) (hT : TWorldRel T cfg) (schema : CorePrelude.Opaque) (bq : Bool)
    (m : IntMap) (pos : Nat) (s : σ) :
    CorrT (String_parse T schema bq (CorePrelude.Go.str "string literal") m (pos : Int) s) s
      ((Terminal.string bq).parse cfg.params cfg.file pos) := by
  unfold String_parse Terminal.parse
  have hq34 : ∀ p : Nat, T.Reader_ReadRune (p : Int) 34 = (readRune cfg.file p 34).map ePB := fun p => hT.readRune p 34
  have hq96 : ∀ p : Nat, T.Reader_ReadRune (p : Int) 96 = (readRune cfg.file p 96).map ePB := fun p => hT.readRune p 96
  have hre : ∀ p : Nat, T.Reader_ReadRegexp (p : Int) (tokOf "[^`]+") =
      (readRegexp backquoteMatch cfg.file p).map ePS := fun p => by rw [← goStr_eq_tokOf, rx_backquote]; exact hT.reBackquote p
  have hrf := hT.readf
  have e34 := expecting_quote 34 (Or.inl rfl)
  have e96 := expecting_quote 96 (Or.inr rfl)
  have s34 : Go.stringOfRune 34 = Utf8.encodeRune 34 := stringOfRune_nat 34
  have s96 : Go.stringOfRune 96 = Utf8.encodeRune 96 := stringOfRune_nat 96
  rcases h1 : readRune cfg.file pos 34 with _ | ⟨rp1, _ | _⟩
  · term_simp [hq34, h1]
  · -- no double quote
    cases bq with
    | false => term_simp [hq34, h1]; term_done
    | true =>
      rcases h1b : readRune cfg.file pos 96 with _ | ⟨rp1', _ | _⟩
      · term_simp [hq34, hq96, h1, h1b]; term_done
      · term_simp [hq34, hq96, h1, h1b]; term_done
      · -- a backquoted literal
        rcases h2 : readRune cfg.file rp1' 96 with _ | ⟨rp2, _ | _⟩
        · term_simp [hq34, hq96, h1, h1b, h2]; term_done
        · rcases h3 : readRegexp backquoteMatch cfg.file rp2 with _ | ⟨rp3, value⟩
          · term_simp [hq34, hq96, hre, h1, h1b, h2, h3]; term_done
          · rcases h4 : readRune cfg.file rp3 96 with _ | ⟨rp4, _ | _⟩
            · term_simp [hq34, hq96, hre, h1, h1b, h2, h3, h4]; term_done
            · term_simp [hq34, hq96, hre, h1, h1b, h2, h3, h4, NewErrorf1, s96, e96]; term_done
            · cases value <;> (term_simp [hq34, hq96, hre, h1, h1b, h2, h3, h4]; term_done)
        · term_simp [hq34, hq96, h1, h1b, h2, tokOf_empty]; term_done
  · -- a double-quoted literal
    rcases h2 : readRune cfg.file rp1 34 with _ | ⟨rp2, _ | _⟩
    · term_simp [hq34, h1, h2]; term_done
    · rcases h3 : readf unquoteString cfg.file rp2 with _ | ⟨rp3, value⟩
      · term_simp [hq34, hrf, h1, h2, h3]; term_done
      · rcases h4 : readRune cfg.file rp3 34 with _ | ⟨rp4, _ | _⟩
        · term_simp [hq34, hrf, h1, h2, h3, h4]; term_done
        · term_simp [hq34, hrf, h1, h2, h3, h4, NewErrorf1, s34, e34]; term_done
        · cases value <;> (term_simp [hq34, hrf, h1, h2, h3, h4]; term_done)
    · term_simp [hq34, h1, h2, tokOf_empty]; term_done

end PV.TermTie
