/-
  C17, part 14: the arithmetic family — a lower bound of the call count and the doubling bound, for ALL operator
  strings: 8·arCalls ≥ 36k² + 85k + 51, hence an input with at most 2k+1 operators costs at most 16 times the calls
  of any input with k operators.
-/
import Mathlib.Tactic.Linarith
import ParsleyVerif.Proofs.CallsArithInput
namespace PV.C17b
open PV.Text PV.C17

theorem sum_range_ge (f : Nat → Nat) (B : Nat) : ∀ J, (∀ j, j < J → B ≤ f j) → J * B ≤ ((List.range J).map f).sum := by
  intro J
  induction J with
  | zero => intro _; simp
  | succ J ih =>
    intro h
    rw [List.range_succ, List.map_append, List.sum_append, Nat.add_mul, Nat.one_mul]
    have := ih (fun j hj => h j (by omega))
    have := h J (by omega)
    simp only [List.map_cons, List.map_nil, List.sum_cons, List.sum_nil]
    omega

/-- the levels of the spine of `E`: the k+2 top levels have all k+1 alternatives -/
theorem levels_ge (k s : Nat) (rf : Nat → Nat) (htot : pre rf (s + 1) = k + 1) (hs : s ≤ k) :
    3 * (2 * k + 3) + (k + 2) * (k + 1) ≤
      ((List.range (2 * k + 3)).map (fun j => 3 + pre rf (min j (s + 1)) + min j s)).sum := by
  have key : ∀ d, 3 * (k + 1 + d) + d * (k + 1) ≤
      ((List.range (k + 1 + d)).map (fun j => 3 + pre rf (min j (s + 1)) + min j s)).sum := by
    intro d
    induction d with
    | zero =>
      have := sum_range_ge (fun j => 3 + pre rf (min j (s + 1)) + min j s) 3 (k + 1) (fun j _ => by omega)
      simp only [Nat.add_zero, Nat.zero_mul]
      omega
    | succ d ih =>
      rw [show k + 1 + (d + 1) = (k + 1 + d) + 1 by omega, List.range_succ, List.map_append, List.sum_append]
      simp only [List.map_cons, List.map_nil, List.sum_cons, List.sum_nil]
      have e : min (k + 1 + d) (s + 1) = s + 1 := by omega
      rw [e, htot, Nat.add_mul, Nat.one_mul]
      omega
  have := key (k + 2)
  rw [show k + 1 + (k + 2) = 2 * k + 3 by omega] at this
  omega

/-- Σ_{j<D} min(j, r) -/
def triS (r : Nat) : Nat → Nat
  | 0 => 0
  | j + 1 => triS r j + min j r

theorem tcLevels_ge (r : Nat) : ∀ D, 6 * D + 5 * triS r D ≤ tcLevels r D := by
  intro D
  induction D with
  | zero => simp [triS, tcLevels]
  | succ D ih => rw [tcLevels, triS]; omega

theorem triS_low (r : Nat) : ∀ j, j ≤ r → 2 * triS r j + j = j * j := by
  intro j
  induction j with
  | zero => intro _; rfl
  | succ j ih =>
    intro hj
    have := ih (by omega)
    rw [triS, Nat.min_eq_left (by omega)]
    nlinarith

theorem triS_high (r : Nat) : ∀ d, triS r (r + d) = triS r r + d * r := by
  intro d
  induction d with
  | zero => simp
  | succ d ih =>
    rw [show r + (d + 1) = (r + d) + 1 by omega, triS, ih, Nat.min_eq_right (by omega)]
    nlinarith

/-- the first run of `T` for a term with `r` stars that has `u ≥ r+1` ones from its start to the end of the input -/
theorem tcLevels_term (r u : Nat) (h : r + 1 ≤ u) : 15 * ((r + 1) * u) ≤ 2 * tcLevels r (2 * u + 1) := by
  have h1 := tcLevels_ge r (2 * u + 1)
  have h2 := triS_high r (2 * u + 1 - r)
  rw [show r + (2 * u + 1 - r) = 2 * u + 1 by omega] at h2
  have h3 := triS_low r r (Nat.le_refl _)
  obtain ⟨w, hw⟩ : ∃ w, u = r + 1 + w := ⟨u - (r + 1), by omega⟩
  subst hw
  have e : 2 * (r + 1 + w) + 1 - r = r + 3 + 2 * w := by omega
  rw [e] at h2
  nlinarith

theorem firstRunsX_ge (k : Nat) (rf : Nat → Nat) : ∀ m, pre rf m ≤ k + 1 →
    ∀ V, pre rf m + V = k + 1 →
      15 * ((k + 1) * (k + 1)) + 15 * pre rf m ≤ 4 * firstRunsX k rf m + 15 * (V * V) := by
  intro m
  induction m with
  | zero =>
    intro _ V hV
    simp only [pre, Nat.zero_add] at hV
    subst hV
    simp [firstRunsX, pre]
  | succ m ih =>
    intro hm V hV
    rw [pre] at hm hV
    have h1 := ih (by omega) (rf m + 1 + V) (by omega)
    have e : 2 * k + 4 - qf rf m = 2 * (rf m + 1 + V) + 1 := by unfold qf; omega
    have h2 := tcLevels_term (rf m) (rf m + 1 + V) (by omega)
    rw [firstRunsX, e, pre]
    nlinarith

/-- **a lower bound of the same order as the upper bound** -/
theorem arCount_ge (k s : Nat) (rf : Nat → Nat) (htot : pre rf (s + 1) = k + 1) :
    36 * (k * k) + 85 * k + 51 ≤ 8 * arCount k s rf := by
  have hs : s ≤ k := by
    have := le_pre rf (s + 1)
    omega
  have h1 := levels_ge k s rf htot hs
  have h2 := firstRunsX_ge k rf (s + 1) (by omega) 0 (by omega)
  rw [htot] at h2
  unfold arCount
  nlinarith

theorem arCalls_ge (ops : List Nat) (hops : OpsOK ops) :
    36 * (ops.length * ops.length) + 85 * ops.length + 51 ≤ 8 * arCalls ops := by
  have ht := arData_terms ops hops
  exact arCount_ge ops.length _ _ ht.total

/-- **doubling, for all inputs**: an input with at most 2k+1 operators (length at most 2n+1, n = 2k+1 the length of
    the other input) costs at most 16 times the calls -/
theorem ar_double (ops ops' : List Nat) (hops : OpsOK ops) (hops' : OpsOK ops') (hk : ops'.length ≤ 2 * ops.length + 1) :
    arCalls ops' ≤ 16 * arCalls ops := by
  have h1 := arCalls_ge ops hops
  obtain ⟨p, _, _, _, h4, h5⟩ := ar_ops_parse ops' hops'
  rw [h4] at h5
  have h6 : (2 * ops'.length + 3) * (9 * ops'.length + 11) ≤
      (2 * (2 * ops.length + 1) + 3) * (9 * (2 * ops.length + 1) + 11) :=
    Nat.mul_le_mul (by omega) (by omega)
  generalize ops.length = k at *
  generalize ops'.length = k' at *
  nlinarith

/-! ### the lengths of the harness's inputs -/

theorem arithBuild_le (m : Nat) : ∀ fuel acc, acc.length ≤ m → (arithBuild fuel m acc).length ≤ m := by
  intro fuel
  induction fuel with
  | zero => intro acc h; exact h
  | succ fuel ih =>
    intro acc h
    rw [arithBuild]
    split
    · apply ih
      split <;> simp <;> omega
    · exact h

theorem arithBuild_ge (m : Nat) : ∀ fuel acc, m ≤ 2 * fuel + acc.length + 1 → m ≤ (arithBuild fuel m acc).length + 1 := by
  intro fuel
  induction fuel with
  | zero => intro acc h; simpa [arithBuild] using h
  | succ fuel ih =>
    intro acc h
    rw [arithBuild]
    split
    · apply ih
      split <;> simp <;> omega
    · omega

theorem arithInput_length (n : Nat) : n ≤ (arithInput n).length ∧ (arithInput n).length ≤ n + 1 := by
  have h1 := arithBuild_le n n [] (by simp)
  have h2 := arithBuild_ge n n [] (by simp; omega)
  simp only [arithInput, List.length_append, List.length_singleton]
  omega

/-- **doubling on the harness's inputs, every length parameter n ≥ 1** -/
theorem ar_double_harness (n : Nat) (ops ops' : List Nat) (hops : OpsOK ops) (hops' : OpsOK ops')
    (h1 : arithInput n = arData ops) (h2 : arithInput (2 * n) = arData ops') : arCalls ops' ≤ 16 * arCalls ops := by
  apply ar_double ops ops' hops hops'
  have l1 := arithInput_length n
  have l2 := arithInput_length (2 * n)
  rw [h1, arData_length] at l1
  rw [h2, arData_length] at l2
  omega

end PV.C17b
