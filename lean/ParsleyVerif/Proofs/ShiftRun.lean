/-
  C12, step 2: the parser core commutes with the shift of the file.
  Every helper of `run` commutes with the shift maps (the shift is injective on positions and monotone,
  so every comparison of two positions has the same answer); the loops are proved for any two step
  functions related by the shift; `run` by induction on the fuel.
-/
import ParsleyVerif.Proofs.ShiftPrims
namespace PV
open PV.Text

theorem beq_add_right (a c b : Nat) : (a + b == c + b) = (a == c) := by
  rw [Bool.eq_iff_iff]; simp

/-! ### nodes and results -/

@[simp] theorem Node.shiftList_eq (b : Nat) (l : List Node) : Node.shiftList b l = l.map (Node.shift b) := by
  induction l with
  | nil => rfl
  | cons n ns ih => simp [Node.shiftList, ih]

@[simp] theorem Node.shift_pos (b : Nat) (n : Node) : (n.shift b).pos = n.pos + b := by
  cases n <;> simp [Node.shift, Node.pos]
@[simp] theorem Node.shift_rpos (b : Nat) (n : Node) : (n.shift b).rpos = n.rpos + b := by
  cases n <;> simp [Node.shift, Node.rpos]
@[simp] theorem Node.shift_token (b : Nat) (n : Node) : (n.shift b).token = n.token := by
  cases n <;> simp [Node.shift, Node.token]
@[simp] theorem Node.shift_isEmptyAt (b p : Nat) (n : Node) : (n.shift b).isEmptyAt (p + b) = n.isEmptyAt p := by
  cases n <;> simp only [Node.shift, Node.isEmptyAt]
  rw [Bool.eq_iff_iff]; simp

@[simp] theorem Res.shift_alts (b : Nat) (r : Res) : (r.shift b).alts = r.alts.map (Node.shift b) := by
  cases r <;> simp [Res.shift, Res.alts]
@[simp] theorem Res.shift_isNil (b : Nat) (r : Res) : (r.shift b).isNil = r.isNil := by
  cases r <;> simp [Res.shift, Res.isNil]

theorem any_isEmptyAt_shift (b p : Nat) (l : List Node) :
    (l.map (Node.shift b)).any (Node.isEmptyAt (p + b)) = l.any (Node.isEmptyAt p) := by
  induction l with
  | nil => rfl
  | cons n ns ih => simp [ih]

theorem nlAppend1_shift (b : Nat) (l : List Node) (n : Node) :
    nlAppend1 (l.map (Node.shift b)) (n.shift b) = (nlAppend1 l n).map (Node.shift b) := by
  cases n with
  | empty p =>
    simp only [nlAppend1, Node.shift, any_isEmptyAt_shift]
    split <;> simp [Node.shift]
  | _ => simp [nlAppend1, Node.shift]

theorem foldl_nlAppend1_shift (b : Nat) (l2 : List Node) : ∀ l : List Node,
    (l2.map (Node.shift b)).foldl nlAppend1 (l.map (Node.shift b)) = (l2.foldl nlAppend1 l).map (Node.shift b) := by
  induction l2 with
  | nil => intro l; rfl
  | cons n ns ih => intro l; simp only [List.map_cons, List.foldl_cons, nlAppend1_shift, ih]

theorem nlAppend_shift (b : Nat) (l : List Node) (r : Res) :
    nlAppend (l.map (Node.shift b)) (r.shift b) = (nlAppend l r).map (Node.shift b) := by
  cases r with
  | nil => rfl
  | one n => simp [nlAppend, Res.shift, nlAppend1_shift]
  | list l2 => simp [nlAppend, Res.shift, foldl_nlAppend1_shift]

theorem appendNode_shift (b : Nat) (a c : Res) :
    appendNode (a.shift b) (c.shift b) = (appendNode a c).shift b := by
  cases a with
  | nil => cases c <;> rfl
  | one n =>
    cases c with
    | nil => rfl
    | one m =>
      have := nlAppend_shift b [n] (.one m)
      simp only [List.map_cons, List.map_nil, Res.shift] at this
      simp [appendNode, Res.shift, this]
    | list m =>
      have := nlAppend_shift b [n] (.list m)
      simp only [List.map_cons, List.map_nil] at this
      simp only [Res.shift] at this
      simp [appendNode, Res.shift, this]
  | list l =>
    cases c with
    | nil => rfl
    | one m =>
      have := nlAppend_shift b l (.one m)
      simp only [Res.shift] at this
      simp [appendNode, Res.shift, this]
    | list m =>
      have := nlAppend_shift b l (.list m)
      simp only [Res.shift] at this
      simp [appendNode, Res.shift, this]

/-! ### errors -/

@[simp] theorem Err.shift_pos (b : Nat) (e : Err) : (e.shift b).pos = e.pos + b := rfl
@[simp] theorem Err.shift_kind (b : Nat) (e : Err) : (e.shift b).kind = e.kind := rfl

theorem pickErr_shift (b : Nat) (cur new : Option Err) :
    pickErr (cur.map (Err.shift b)) (new.map (Err.shift b)) = (pickErr cur new).map (Err.shift b) := by
  cases new with
  | none => rfl
  | some e =>
    cases cur with
    | none => rfl
    | some c =>
      simp only [pickErr, Option.map_some, Err.shift_pos, Nat.add_le_add_iff_right, ge_iff_le]
      split <;> rfl

/-! ### the context -/

@[simp] theorem St.shift_calls (b : Nat) (st : St) : (st.shift b).calls = st.calls := rfl
@[simp] theorem St.shift_cache (b : Nat) (st : St) : (st.shift b).cache = st.cache.map (CacheEntry.shift b) := rfl
@[simp] theorem St.shift_ctxErr (b : Nat) (st : St) : (st.shift b).ctxErr = st.ctxErr.map (Err.shift b) := rfl
@[simp] theorem St.shift_active (b : Nat) (st : St) : (st.shift b).active = st.active.map (fun a => (a.1, a.2 + b)) := rfl
@[simp] theorem St.shift_log (b : Nat) (st : St) : (st.shift b).log = st.log.map (Ev.shift b) := rfl

@[simp] theorem shiftCfg_file (b : Nat) (cfg : Cfg) : (shiftCfg b cfg).file = shiftFile b cfg.file := rfl
@[simp] theorem shiftCfg_env (b : Nat) (cfg : Cfg) : (shiftCfg b cfg).env = cfg.env := rfl
@[simp] theorem shiftCfg_params (b : Nat) (cfg : Cfg) : (shiftCfg b cfg).params = cfg.params := rfl
@[simp] theorem shiftCfg_ghost (b : Nat) (cfg : Cfg) : (shiftCfg b cfg).ghost = cfg.ghost := rfl
@[simp] theorem shiftCfg_maxCalls (b : Nat) (cfg : Cfg) : (shiftCfg b cfg).maxCalls = cfg.maxCalls := rfl

theorem regCall_shift (b : Nat) (st : St) : (st.shift b).regCall = st.regCall.shift b := rfl

theorem logEv_shift (b : Nat) (cfg : Cfg) (st : St) (e : Ev) :
    (st.shift b).logEv (shiftCfg b cfg) (e.shift b) = (st.logEv cfg e).shift b := by
  unfold St.logEv
  simp only [shiftCfg_ghost]
  cases cfg.ghost <;> simp [St.shift]

theorem setError_shift (b : Nat) (st : St) (e : Option Err) :
    (st.shift b).setError (e.map (Err.shift b)) = (st.setError e).shift b := by
  cases e with
  | none => rfl
  | some e =>
    simp only [St.setError, Option.map_some, St.shift_ctxErr]
    cases hc : st.ctxErr with
    | none => simp [St.shift, hc]
    | some c =>
      simp only [Option.map_some, Err.shift_pos, ge_iff_le, Nat.add_le_add_iff_right]
      split <;> simp [St.shift, hc]

theorem cacheGet_shift (b : Nat) (c : List CacheEntry) (idx pos : Nat) (ctx : Ctx) :
    cacheGet (c.map (CacheEntry.shift b)) idx (pos + b) ctx = (cacheGet c idx pos ctx).map (CacheEntry.shift b) := by
  have hf : ∀ l : List CacheEntry,
      (l.map (CacheEntry.shift b)).find? (fun e => e.idx == idx && e.pos == pos + b)
        = (l.find? (fun e => e.idx == idx && e.pos == pos)).map (CacheEntry.shift b) := by
    intro l
    induction l with
    | nil => rfl
    | cons x xs ih =>
      have hx : ((x.shift b).idx == idx && (x.shift b).pos == pos + b) = (x.idx == idx && x.pos == pos) := by
        simp [CacheEntry.shift, beq_add_right]
      simp only [List.map_cons, List.find?_cons, hx]
      split <;> simp [ih]
  unfold cacheGet
  rw [hf]
  cases c.find? (fun e => e.idx == idx && e.pos == pos) with
  | none => rfl
  | some e =>
    simp only [Option.map_some]
    have : (e.shift b).ctx = e.ctx := rfl
    rw [this]
    split <;> rfl

theorem cacheSave_shift (b : Nat) (c : List CacheEntry) (e : CacheEntry) :
    cacheSave (c.map (CacheEntry.shift b)) (e.shift b) = (cacheSave c e).map (CacheEntry.shift b) := by
  unfold cacheSave
  simp only [List.map_cons, List.filter_map]
  congr 2
  apply List.filter_congr
  intro x _
  simp [CacheEntry.shift, beq_add_right]

/-! ### Sequence -/

theorem handleResult_shift (b : Nat) (sh : SeqShape) (pos : Nat) (nodes : List Node) :
    handleResult sh (pos + b) (nodes.map (Node.shift b)) = (handleResult sh pos nodes).shift b := by
  match nodes with
  | [] => simp [handleResult, Node.shift]
  | [n] =>
    simp only [handleResult, List.map_cons, List.map_nil]
    split <;> simp [Node.shift]
  | n :: m :: rest =>
    simp only [handleResult, List.map_cons, Node.shift, Node.shiftList_eq, Node.shift_pos]
    have : ((Node.shift b m :: List.map (Node.shift b) rest).getLast?.getD (Node.shift b n)).rpos
        = (((m :: rest).getLast?).getD n).rpos + b := by
      rw [← List.map_cons, List.getLast?_map]
      cases (m :: rest).getLast? <;> simp
    rw [this]

@[simp] theorem SeqSt.shift_cp (b : Nat) (ss : SeqSt) : (ss.shift b).cp = ss.cp := rfl
@[simp] theorem SeqSt.shift_result (b : Nat) (ss : SeqSt) : (ss.shift b).result = ss.result.shift b := rfl
@[simp] theorem SeqSt.shift_err (b : Nat) (ss : SeqSt) : (ss.shift b).err = ss.err.map (Err.shift b) := rfl

/-! ### Any / Choice -/

@[simp] theorem AltSt.shift_cp (b : Nat) (a : AltSt) : (a.shift b).cp = a.cp := rfl
@[simp] theorem AltSt.shift_res (b : Nat) (a : AltSt) : (a.shift b).res = a.res.shift b := rfl
@[simp] theorem AltSt.shift_err (b : Nat) (a : AltSt) : (a.shift b).err = a.err.map (Err.shift b) := rfl
@[simp] theorem AltSt.shift_nf (b : Nat) (a : AltSt) : (a.shift b).nf = a.nf.map (Err.shift b) := rfl

theorem altErr_shift (b pos : Nat) (a : AltSt) (e2 : Option Err) :
    altErr (pos + b) (a.shift b) (e2.map (Err.shift b)) = (altErr pos a e2).shift b := by
  cases e2 with
  | none => rfl
  | some e2 =>
    have h2 : (decide (e2.pos + b > pos + b) || !e2.kind.isNotFound) = (decide (e2.pos > pos) || !e2.kind.isNotFound) := by
      simp
    cases ha : a.err with
    | none =>
      simp only [altErr, Option.map_some, AltSt.shift_err, Err.shift_pos, Err.shift_kind, ha, Option.map_none, h2]
      simp only [if_true]
      split <;> simp [AltSt.shift, ha, Err.shift]
    | some e =>
      simp only [altErr, Option.map_some, AltSt.shift_err, Err.shift_pos, Err.shift_kind, ha, h2]
      have h1 : decide (e2.pos + b ≥ e.pos + b) = decide (e2.pos ≥ e.pos) := by simp
      rw [h1]
      split
      · split <;> simp [AltSt.shift, ha, Err.shift]
      · simp [AltSt.shift, ha, Err.shift]

/-! ### trims -/

theorem wsToErr_shift (b : Nat) (e : Option (Nat × WsErr)) :
    wsToErr (e.map (shiftP b)) = (wsToErr e).map (Err.shift b) := by
  cases e with
  | none => rfl
  | some e => rfl

end PV
