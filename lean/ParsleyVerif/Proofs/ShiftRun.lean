/-
  C12, step 2: the parser core commutes with the shift of the file.
  Every helper of `run` commutes with the shift maps (the shift is injective on positions and monotone,
  so every comparison of two positions has the same answer); the loops are proved for any two step
  functions related by the shift; `run` by induction on the fuel.
-/
import ParsleyVerif.Proofs.ShiftPrims
import ParsleyVerif.Proofs.RunEqns
namespace PV
open PV.Text

theorem beq_add_right (a c b : Nat) : (a + b == c + b) = (a == c) := by
  rw [Bool.eq_iff_iff]; simp

/-! ### nodes and results -/

@[simp] theorem Node.shiftList_eq (b : Nat) (l : List Node) : Node.shiftList b l = l.map (Node.shift b) := by
  induction l with
  | nil => rfl
  | cons n ns ih => simp [Node.shiftList, ih]

@[simp] theorem Node.shift_pos (b : Nat) (n : Node) : (n.shift b).pos = n.pos + b := by
  cases n <;> simp [Node.shift, Node.pos]
@[simp] theorem Node.shift_rpos (b : Nat) (n : Node) : (n.shift b).rpos = n.rpos + b := by
  cases n <;> simp [Node.shift, Node.rpos]
@[simp] theorem Node.shift_token (b : Nat) (n : Node) : (n.shift b).token = n.token := by
  cases n <;> simp [Node.shift, Node.token]
@[simp] theorem Node.shift_isEmptyAt (b p : Nat) (n : Node) : (n.shift b).isEmptyAt (p + b) = n.isEmptyAt p := by
  cases n <;> simp only [Node.shift, Node.isEmptyAt]
  rw [Bool.eq_iff_iff]; simp

@[simp] theorem Res.shift_alts (b : Nat) (r : Res) : (r.shift b).alts = r.alts.map (Node.shift b) := by
  cases r <;> simp [Res.shift, Res.alts]
@[simp] theorem Res.shift_isNil (b : Nat) (r : Res) : (r.shift b).isNil = r.isNil := by
  cases r <;> simp [Res.shift, Res.isNil]

theorem any_isEmptyAt_shift (b p : Nat) (l : List Node) :
    (l.map (Node.shift b)).any (Node.isEmptyAt (p + b)) = l.any (Node.isEmptyAt p) := by
  induction l with
  | nil => rfl
  | cons n ns ih => simp [ih]

theorem nlAppend1_shift (b : Nat) (l : List Node) (n : Node) :
    nlAppend1 (l.map (Node.shift b)) (n.shift b) = (nlAppend1 l n).map (Node.shift b) := by
  cases n with
  | empty p =>
    simp only [nlAppend1, Node.shift, any_isEmptyAt_shift]
    split <;> simp [Node.shift]
  | _ => simp [nlAppend1, Node.shift]

theorem foldl_nlAppend1_shift (b : Nat) (l2 : List Node) : ∀ l : List Node,
    (l2.map (Node.shift b)).foldl nlAppend1 (l.map (Node.shift b)) = (l2.foldl nlAppend1 l).map (Node.shift b) := by
  induction l2 with
  | nil => intro l; rfl
  | cons n ns ih => intro l; simp only [List.map_cons, List.foldl_cons, nlAppend1_shift, ih]

theorem nlAppend_shift (b : Nat) (l : List Node) (r : Res) :
    nlAppend (l.map (Node.shift b)) (r.shift b) = (nlAppend l r).map (Node.shift b) := by
  cases r with
  | nil => rfl
  | one n => simp [nlAppend, Res.shift, nlAppend1_shift]
  | list l2 => simp [nlAppend, Res.shift, foldl_nlAppend1_shift]

theorem appendNode_shift (b : Nat) (a c : Res) :
    appendNode (a.shift b) (c.shift b) = (appendNode a c).shift b := by
  cases a with
  | nil => cases c <;> rfl
  | one n =>
    cases c with
    | nil => rfl
    | one m =>
      have := nlAppend_shift b [n] (.one m)
      simp only [List.map_cons, List.map_nil, Res.shift] at this
      simp [appendNode, Res.shift, this]
    | list m =>
      have := nlAppend_shift b [n] (.list m)
      simp only [List.map_cons, List.map_nil] at this
      simp only [Res.shift] at this
      simp [appendNode, Res.shift, this]
  | list l =>
    cases c with
    | nil => rfl
    | one m =>
      have := nlAppend_shift b l (.one m)
      simp only [Res.shift] at this
      simp [appendNode, Res.shift, this]
    | list m =>
      have := nlAppend_shift b l (.list m)
      simp only [Res.shift] at this
      simp [appendNode, Res.shift, this]

/-! ### errors -/

@[simp] theorem Err.shift_pos (b : Nat) (e : Err) : (e.shift b).pos = e.pos + b := rfl
@[simp] theorem Err.shift_kind (b : Nat) (e : Err) : (e.shift b).kind = e.kind := rfl

theorem pickErr_shift (b : Nat) (cur new : Option Err) :
    pickErr (cur.map (Err.shift b)) (new.map (Err.shift b)) = (pickErr cur new).map (Err.shift b) := by
  cases new with
  | none => rfl
  | some e =>
    cases cur with
    | none => rfl
    | some c =>
      simp only [pickErr, Option.map_some, Err.shift_pos, Nat.add_le_add_iff_right, ge_iff_le]
      split <;> rfl

/-! ### the context -/

@[simp] theorem St.shift_calls (b : Nat) (st : St) : (st.shift b).calls = st.calls := rfl
@[simp] theorem St.shift_cache (b : Nat) (st : St) : (st.shift b).cache = st.cache.map (CacheEntry.shift b) := rfl
@[simp] theorem St.shift_ctxErr (b : Nat) (st : St) : (st.shift b).ctxErr = st.ctxErr.map (Err.shift b) := rfl
@[simp] theorem St.shift_active (b : Nat) (st : St) : (st.shift b).active = st.active.map (fun a => (a.1, a.2 + b)) := rfl
@[simp] theorem St.shift_log (b : Nat) (st : St) : (st.shift b).log = st.log.map (Ev.shift b) := rfl

@[simp] theorem shiftCfg_file (b : Nat) (cfg : Cfg) : (shiftCfg b cfg).file = shiftFile b cfg.file := rfl
@[simp] theorem shiftCfg_env (b : Nat) (cfg : Cfg) : (shiftCfg b cfg).env = cfg.env := rfl
@[simp] theorem shiftCfg_params (b : Nat) (cfg : Cfg) : (shiftCfg b cfg).params = cfg.params := rfl
@[simp] theorem shiftCfg_ghost (b : Nat) (cfg : Cfg) : (shiftCfg b cfg).ghost = cfg.ghost := rfl
@[simp] theorem shiftCfg_maxCalls (b : Nat) (cfg : Cfg) : (shiftCfg b cfg).maxCalls = cfg.maxCalls := rfl

theorem regCall_shift (b : Nat) (st : St) : (st.shift b).regCall = st.regCall.shift b := rfl

theorem logEv_shift' (b : Nat) (cfg cfg' : Cfg) (hg : cfg'.ghost = cfg.ghost) (st : St) (e : Ev) :
    (st.shift b).logEv cfg' (e.shift b) = (st.logEv cfg e).shift b := by
  unfold St.logEv
  simp only [hg]
  by_cases h : cfg.ghost = true <;> simp [St.shift, h]

theorem logEv_shift (b : Nat) (cfg : Cfg) (st : St) (e : Ev) :
    (st.shift b).logEv (shiftCfg b cfg) (e.shift b) = (st.logEv cfg e).shift b :=
  logEv_shift' b cfg _ rfl st e

theorem setError_shift (b : Nat) (st : St) (e : Option Err) :
    (st.shift b).setError (e.map (Err.shift b)) = (st.setError e).shift b := by
  cases e with
  | none => rfl
  | some e =>
    simp only [St.setError, Option.map_some, St.shift_ctxErr]
    cases hc : st.ctxErr with
    | none => simp [St.shift, hc]
    | some c =>
      simp only [Option.map_some, Err.shift_pos, ge_iff_le, Nat.add_le_add_iff_right]
      split <;> simp [St.shift, hc]

theorem setError_shift_some (b : Nat) (st : St) (p : Nat) (k : ErrKind) :
    (St.shift b st).setError (some ⟨p + b, k⟩) = (st.setError (some ⟨p, k⟩)).shift b :=
  setError_shift b st (some ⟨p, k⟩)

theorem cacheGet_shift (b : Nat) (c : List CacheEntry) (idx pos : Nat) (ctx : Ctx) :
    cacheGet (c.map (CacheEntry.shift b)) idx (pos + b) ctx = (cacheGet c idx pos ctx).map (CacheEntry.shift b) := by
  have hf : ∀ l : List CacheEntry,
      (l.map (CacheEntry.shift b)).find? (fun e => e.idx == idx && e.pos == pos + b)
        = (l.find? (fun e => e.idx == idx && e.pos == pos)).map (CacheEntry.shift b) := by
    intro l
    induction l with
    | nil => rfl
    | cons x xs ih =>
      have hx : ((x.shift b).idx == idx && (x.shift b).pos == pos + b) = (x.idx == idx && x.pos == pos) := by
        simp [CacheEntry.shift, beq_add_right]
      simp only [List.map_cons, List.find?_cons, hx]
      split <;> simp [ih]
  unfold cacheGet
  rw [hf]
  cases c.find? (fun e => e.idx == idx && e.pos == pos) with
  | none => rfl
  | some e =>
    simp only [Option.map_some]
    have : (e.shift b).ctx = e.ctx := rfl
    rw [this]
    split <;> rfl

theorem cacheSave_shift (b : Nat) (c : List CacheEntry) (e : CacheEntry) :
    cacheSave (c.map (CacheEntry.shift b)) (e.shift b) = (cacheSave c e).map (CacheEntry.shift b) := by
  unfold cacheSave
  simp only [List.map_cons, List.filter_map]
  congr 2
  apply List.filter_congr
  intro x _
  simp [CacheEntry.shift, beq_add_right]

/-! ### Sequence -/

theorem handleResult_shift (b : Nat) (sh : SeqShape) (pos : Nat) (nodes : List Node) :
    handleResult sh (pos + b) (nodes.map (Node.shift b)) = (handleResult sh pos nodes).shift b := by
  match nodes with
  | [] => simp [handleResult, Node.shift]
  | [n] =>
    simp only [handleResult, List.map_cons, List.map_nil]
    split <;> simp [Node.shift]
  | n :: m :: rest =>
    simp only [handleResult, List.map_cons, Node.shift, Node.shiftList_eq, Node.shift_pos]
    have : ((Node.shift b m :: List.map (Node.shift b) rest).getLast?.getD (Node.shift b n)).rpos
        = (((m :: rest).getLast?).getD n).rpos + b := by
      rw [← List.map_cons, List.getLast?_map]
      cases (m :: rest).getLast? <;> simp
    rw [this]

@[simp] theorem SeqSt.shift_cp (b : Nat) (ss : SeqSt) : (ss.shift b).cp = ss.cp := rfl
@[simp] theorem SeqSt.shift_result (b : Nat) (ss : SeqSt) : (ss.shift b).result = ss.result.shift b := rfl
@[simp] theorem SeqSt.shift_err (b : Nat) (ss : SeqSt) : (ss.shift b).err = ss.err.map (Err.shift b) := rfl

/-! ### Any / Choice -/

@[simp] theorem AltSt.shift_cp (b : Nat) (a : AltSt) : (a.shift b).cp = a.cp := rfl
@[simp] theorem AltSt.shift_res (b : Nat) (a : AltSt) : (a.shift b).res = a.res.shift b := rfl
@[simp] theorem AltSt.shift_err (b : Nat) (a : AltSt) : (a.shift b).err = a.err.map (Err.shift b) := rfl
@[simp] theorem AltSt.shift_nf (b : Nat) (a : AltSt) : (a.shift b).nf = a.nf.map (Err.shift b) := rfl

theorem altErr_shift (b pos : Nat) (a : AltSt) (e2 : Option Err) :
    altErr (pos + b) (a.shift b) (e2.map (Err.shift b)) = (altErr pos a e2).shift b := by
  cases e2 with
  | none => rfl
  | some e2 =>
    by_cases c2 : e2.pos > pos ∨ e2.kind.isNotFound = false
    · cases ha : a.err with
      | none => simp [altErr, AltSt.shift, Err.shift, ha, c2]
      | some e =>
        by_cases c1 : e2.pos ≥ e.pos
        · have c1' : e2.pos + b ≥ e.pos + b := by omega
          simp [altErr, AltSt.shift, Err.shift, ha, c2, c1, c1']
        · have c1' : ¬ e2.pos + b ≥ e.pos + b := by omega
          simp [altErr, AltSt.shift, Err.shift, ha, c1, c1']
    · cases ha : a.err with
      | none => simp [altErr, AltSt.shift, Err.shift, ha, c2]
      | some e =>
        by_cases c1 : e2.pos ≥ e.pos
        · have c1' : e2.pos + b ≥ e.pos + b := by omega
          simp [altErr, AltSt.shift, Err.shift, ha, c2, c1, c1']
        · have c1' : ¬ e2.pos + b ≥ e.pos + b := by omega
          simp [altErr, AltSt.shift, Err.shift, ha, c1, c1']

/-! ### trims -/

theorem wsToErr_shift (b : Nat) (e : Option (Nat × WsErr)) :
    wsToErr (e.map (shiftP b)) = (wsToErr e).map (Err.shift b) := by
  cases e with
  | none => rfl
  | some e => rfl

/-- SkipWhitespaces commutes with the shift of this file by `b` (true when `1 ≤ f.offset`, and when `b = 0`) -/
def WsShift (b : Nat) (f : File) : Prop :=
  ∀ pos m, skipWhitespaces (shiftFile b f) (pos + b) m = shiftWs b (skipWhitespaces f pos m)

theorem wsShift_of_offset (b : Nat) (f : File) (hoff : 1 ≤ f.offset) : WsShift b f :=
  fun pos m => skipWhitespaces_shift b f pos m hoff

theorem setRposNode_shift (b : Nat) (f : File) (m : WsMode) (hws : WsShift b f) (n : Node) (ws : Option Err) :
    setRposNode (shiftFile b f) m (n.shift b) (ws.map (Err.shift b))
      = ((setRposNode f m n ws).1.shift b, (setRposNode f m n ws).2.map (Err.shift b)) := by
  cases n with
  | term t v p r =>
    simp only [setRposNode, Node.shift, hws r m]
    rcases skipWhitespaces f r m with ⟨r', e⟩
    simp [shiftWs, wsToErr_shift]
  | nt t c p r i =>
    simp only [setRposNode, Node.shift, hws r m]
    rcases skipWhitespaces f r m with ⟨r', e⟩
    simp [shiftWs, wsToErr_shift]
  | empty p =>
    simp only [setRposNode, Node.shift, hws p m]
    rcases skipWhitespaces f p m with ⟨r', e⟩
    simp [shiftWs, wsToErr_shift]
  | eof p => simp [setRposNode, Node.shift]

theorem setRposList_shift (b : Nat) (f : File) (m : WsMode) (hws : WsShift b f) (l : List Node) : ∀ ws : Option Err,
    setRposList (shiftFile b f) m (l.map (Node.shift b)) (ws.map (Err.shift b))
      = ((setRposList f m l ws).1.map (Node.shift b), (setRposList f m l ws).2.map (Err.shift b)) := by
  induction l with
  | nil => intro ws; rfl
  | cons n rest ih =>
    intro ws
    simp only [setRposList, List.map_cons, setRposNode_shift b f m hws, ih]

theorem setRposRes_shift (b : Nat) (f : File) (m : WsMode) (hws : WsShift b f) (r : Res) :
    setRposRes (shiftFile b f) m (r.shift b)
      = ((setRposRes f m r).1.shift b, (setRposRes f m r).2.map (Err.shift b)) := by
  cases r with
  | nil => rfl
  | one n =>
    have := setRposNode_shift b f m hws n none
    simp only [Option.map_none] at this
    simp only [setRposRes, Res.shift, this]
  | list l =>
    have := setRposList_shift b f m hws l none
    simp only [Option.map_none] at this
    simp only [setRposRes, Res.shift, this]

/-! ### the loops, for any two step functions related by the shift -/

def ShiftRel (b : Nat) (r r' : RunFn) : Prop :=
  ∀ g ctx pos st, r' g ctx (pos + b) (St.shift b st) = (r g ctx pos st).map (shiftOS b)

def shiftSeq (b : Nat) (t : Bool × SeqSt × St) : Bool × SeqSt × St := (t.1, t.2.1.shift b, t.2.2.shift b)

theorem seqAlts_shift (b : Nat) (k k' : Node → SeqSt → St → Option (Bool × SeqSt × St))
    (hk : ∀ n ss st, k' (n.shift b) (ss.shift b) (st.shift b) = (k n ss st).map (shiftSeq b)) :
    ∀ (l : List Node) ss st,
      seqAlts k' (l.map (Node.shift b)) (SeqSt.shift b ss) (St.shift b st) = (seqAlts k l ss st).map (shiftSeq b) := by
  intro l
  induction l with
  | nil => intro ss st; rfl
  | cons n rest ih =>
    intro ss st
    simp only [List.map_cons, seqAlts, hk]
    rcases k n ss st with _ | ⟨_ | _, ss1, st1⟩
    · rfl
    · simp only [Option.map_some, shiftSeq]; exact ih ss1 st1
    · rfl

/-- `seqParse` in pieces: the call of the next parser … -/
def seqStep_c12 (r : RunFn) (sh : SeqShape) (depth : Nat) (ctx : Ctx) (pos : Nat) (st : St) : Option (Out × St) :=
  match sh.lookup depth with
  | some g => r g ctx pos st.regCall
  | none => some (⟨.nil, [], none⟩, st)

/-- … the update of the error and of the curtailing parsers … -/
def ssUpd (merge : Bool) (ss : SeqSt) (o : Out) : SeqSt :=
  let ss := { ss with err := pickErr ss.err o.err }
  if merge then { ss with cp := cpUnion ss.cp o.cp } else ss

/-- … `parseNext` … -/
def seqNext (r : RunFn) (sh : SeqShape) (fuel depth : Nat) (nodes : List Node) (ctx : Ctx) (pos : Nat) (merge : Bool) :
    Node → SeqSt → St → Option (Bool × SeqSt × St) :=
  fun n ss st =>
    let consumed := n.rpos > pos
    seqParse r sh fuel (depth + 1) (nodes ++ [n]) (if consumed then [] else ctx) n.rpos
      (merge && !consumed) ss st

/-- … and what happens with the result -/
def seqCont (r : RunFn) (sh : SeqShape) (fuel depth : Nat) (nodes : List Node) (ctx : Ctx) (pos : Nat) (merge : Bool)
    (ss : SeqSt) (o : Out) (st : St) : Option (Bool × SeqSt × St) :=
  match o.res with
  | .nil =>
    if sh.lenCheck depth then
      if depth > 0 then
        some ((match nodes.getLast? with | some l => l.token == eofTok | none => false),
              { ss with result := appendNode ss.result (.one (handleResult sh pos nodes)) }, st)
      else
        some (false, { ss with result := appendNode ss.result (.one (handleResult sh pos [])) }, st)
    else some (false, ss, st)
  | res => seqAlts (seqNext r sh fuel depth nodes ctx pos merge) res.alts ss st

theorem seqParse_succ_c12 (r : RunFn) (sh : SeqShape) (fuel depth : Nat) (nodes : List Node) (ctx : Ctx) (pos : Nat)
    (merge : Bool) (ss : SeqSt) (st : St) :
    seqParse r sh (fuel + 1) depth nodes ctx pos merge ss st =
      match seqStep_c12 r sh depth ctx pos st with
      | none => none
      | some (o, st1) => seqCont r sh fuel depth nodes ctx pos merge (ssUpd merge ss o) o st1 := by
  rw [seqParse]
  rfl

theorem ssUpd_shift (b : Nat) (merge : Bool) (ss : SeqSt) (o : Out) :
    ssUpd merge (ss.shift b) (o.shift b) = (ssUpd merge ss o).shift b := by
  cases merge <;> simp [ssUpd, SeqSt.shift, Out.shift, pickErr_shift]

theorem seqStep_shift (b : Nat) (r r' : RunFn) (h : ShiftRel b r r') (sh : SeqShape) (depth : Nat) (ctx : Ctx)
    (pos : Nat) (st : St) :
    seqStep_c12 r' sh depth ctx (pos + b) (st.shift b) = (seqStep_c12 r sh depth ctx pos st).map (shiftOS b) := by
  unfold seqStep_c12
  cases sh.lookup depth with
  | none => rfl
  | some g => simp only [regCall_shift, h g ctx pos st.regCall]

theorem seqParse_shift (b : Nat) (r r' : RunFn) (h : ShiftRel b r r') (sh : SeqShape) :
    ∀ fuel depth nodes ctx pos merge ss st,
    seqParse r' sh fuel depth (nodes.map (Node.shift b)) ctx (pos + b) merge (SeqSt.shift b ss) (St.shift b st)
      = (seqParse r sh fuel depth nodes ctx pos merge ss st).map (shiftSeq b) := by
  intro fuel
  induction fuel with
  | zero => intros; rfl
  | succ fuel ih =>
    intro depth nodes ctx pos merge ss st
    rw [seqParse_succ_c12, seqParse_succ_c12, seqStep_shift b r r' h]
    rcases seqStep_c12 r sh depth ctx pos st with _ | ⟨o, st1⟩
    · rfl
    · simp only [Option.map_some, shiftOS, ssUpd_shift]
      generalize ssUpd merge ss o = ss1
      have hnext : ∀ n ss st, seqNext r' sh fuel depth (nodes.map (Node.shift b)) ctx (pos + b) merge (n.shift b) (SeqSt.shift b ss) (St.shift b st)
          = (seqNext r sh fuel depth nodes ctx pos merge n ss st).map (shiftSeq b) := by
        intro n ss st
        simp only [seqNext, Node.shift_rpos, gt_iff_lt, Nat.add_lt_add_iff_right]
        have : nodes.map (Node.shift b) ++ [n.shift b] = (nodes ++ [n]).map (Node.shift b) := by simp
        rw [this, ih]
      unfold seqCont
      have hA1 : ∀ (a : Res) (n : Node), appendNode (a.shift b) (.one (n.shift b)) = (appendNode a (.one n)).shift b :=
        fun a n => appendNode_shift b a (.one n)
      have hH0 : handleResult sh (pos + b) [] = (handleResult sh pos []).shift b := handleResult_shift b sh pos []
      cases hres : o.res with
      | nil =>
        have hN : Res.shift b .nil = .nil := rfl
        simp only [Out.shift, hres, hN, List.getLast?_map, SeqSt.shift_result, handleResult_shift, hH0, hA1]
        by_cases h1 : sh.lenCheck depth = true
        · by_cases h2 : depth > 0
          · simp only [h1, h2, if_true, Option.map_some, shiftSeq]
            cases nodes.getLast? <;> simp [SeqSt.shift]
          · simp only [h1, h2, if_true, if_false, Option.map_some, shiftSeq]
            simp [SeqSt.shift]
        · simp [h1, shiftSeq]
      | one n =>
        simp only [Out.shift, hres, Res.shift]
        exact seqAlts_shift b _ _ hnext [n] ss1 st1
      | list l =>
        simp only [Out.shift, hres, Res.shift]
        exact seqAlts_shift b _ _ hnext l ss1 st1

def shiftAny (b : Nat) (t : AltSt × St) : AltSt × St := (t.1.shift b, t.2.shift b)

theorem anyLoop_shift (b : Nat) (r r' : RunFn) (h : ShiftRel b r r') (ctx : Ctx) (pos : Nat) :
    ∀ (gs : List G) (a : AltSt) (st : St),
    anyLoop r' ctx (pos + b) gs (AltSt.shift b a) (St.shift b st) = (anyLoop r ctx pos gs a st).map (shiftAny b) := by
  intro gs
  induction gs with
  | nil => intro a st; rfl
  | cons g gs ih =>
    intro a st
    simp only [anyLoop, regCall_shift, h g ctx pos st.regCall]
    rcases r g ctx pos st.regCall with _ | ⟨o, st1⟩
    · rfl
    · simp only [Option.map_some, shiftOS]
      have : (⟨cpUnion (AltSt.shift b a).cp (Out.shift b o).cp, appendNode (AltSt.shift b a).res (Out.shift b o).res,
                (AltSt.shift b a).err, (AltSt.shift b a).nf⟩ : AltSt)
          = AltSt.shift b ⟨cpUnion a.cp o.cp, appendNode a.res o.res, a.err, a.nf⟩ := by
        simp [AltSt.shift, Out.shift, appendNode_shift]
      rw [this]
      have he : (Out.shift b o).err = o.err.map (Err.shift b) := rfl
      rw [he, altErr_shift, ih]

def shiftChoice (b : Nat) (t : Option Out × AltSt × St) : Option Out × AltSt × St :=
  (t.1.map (Out.shift b), t.2.1.shift b, t.2.2.shift b)

theorem choiceLoop_shift (b : Nat) (r r' : RunFn) (h : ShiftRel b r r') (ctx : Ctx) (pos : Nat) :
    ∀ (gs : List G) (a : AltSt) (st : St),
    choiceLoop r' ctx (pos + b) gs (AltSt.shift b a) (St.shift b st) = (choiceLoop r ctx pos gs a st).map (shiftChoice b) := by
  intro gs
  induction gs with
  | nil => intro a st; rfl
  | cons g gs ih =>
    intro a st
    simp only [choiceLoop, regCall_shift, h g ctx pos st.regCall]
    rcases r g ctx pos st.regCall with _ | ⟨o, st1⟩
    · rfl
    · simp only [Option.map_some, shiftOS]
      have : (⟨cpUnion (AltSt.shift b a).cp (Out.shift b o).cp, (AltSt.shift b a).res,
                (AltSt.shift b a).err, (AltSt.shift b a).nf⟩ : AltSt)
          = AltSt.shift b ⟨cpUnion a.cp o.cp, a.res, a.err, a.nf⟩ := by
        simp [AltSt.shift, Out.shift]
      rw [this]
      have he : (Out.shift b o).err = o.err.map (Err.shift b) := rfl
      have hr : (Out.shift b o).res = o.res.shift b := rfl
      rw [he, hr, altErr_shift, Res.shift_isNil]
      split
      · simp [shiftChoice, Out.shift, setError_shift]
      · exact ih _ _

/-! ### the Sequence family, in pieces -/

-- `seqFinish` (what `(*Sequence).Parse` does after `sequence.parse` has returned) is defined in Proofs/RunEqns.lean

def seqTail (r : RunFn) (sh : SeqShape) (fuel : Nat) (ctx : Ctx) (pos : Nat) (st : St) : Option (Out × St) :=
  match seqParse r sh fuel 0 [] ctx pos true {} st with
  | none => none
  | some (_, ss, st) => some (seqFinish sh pos ss st)

theorem run_seqFamily (cfg : Cfg) (fuel : Nat) (g : G) (ctx : Ctx) (pos : Nat) (st : St) (sh : SeqShape)
    (hg : (∃ k gs o, g = .seq k gs o) ∨ (∃ g' ae o, g = .many g' ae o) ∨ (∃ v s ae o, g = .sepBy v s ae o))
    (hsh : g.shape = some sh) :
    run cfg (fuel + 1) g ctx pos st =
      if cfg.maxCalls ≠ 0 ∧ st.calls > cfg.maxCalls then none else seqTail (run cfg fuel) sh fuel ctx pos st := by
  rcases hg with ⟨k, gs, o, rfl⟩ | ⟨g', ae, o, rfl⟩ | ⟨v, s', ae, o, rfl⟩
  all_goals
    simp only [run, hsh]
    rfl

theorem seqFinish_shift (b : Nat) (sh : SeqShape) (pos : Nat) (ss : SeqSt) (st : St) :
    seqFinish sh (pos + b) (ss.shift b) (st.shift b) = shiftOS b (seqFinish sh pos ss st) := by
  unfold seqFinish
  simp only [SeqSt.shift_result, Res.shift_isNil, SeqSt.shift_err, SeqSt.shift_cp]
  by_cases hnil : ss.result.isNil = true
  · simp only [hnil, if_true]
    rcases ss.err with _ | e <;> rcases sh.name with _ | nm <;> simp [shiftOS, Out.shift, Res.shift, Err.shift]
    split <;> rfl
  · simp only [hnil]
    rcases sh.name with _ | nm <;> simp [shiftOS, Out.shift, setError_shift]

theorem seqTail_shift (b : Nat) (r r' : RunFn) (h : ShiftRel b r r') (sh : SeqShape) (fuel : Nat) (ctx : Ctx)
    (pos : Nat) (st : St) :
    seqTail r' sh fuel ctx (pos + b) (st.shift b) = (seqTail r sh fuel ctx pos st).map (shiftOS b) := by
  unfold seqTail
  have key := seqParse_shift b r r' h sh fuel 0 [] ctx pos true {} st
  rw [show SeqSt.shift b {} = {} from rfl, List.map_nil] at key
  rw [key]
  rcases seqParse r sh fuel 0 [] ctx pos true {} st with _ | ⟨fst, ss, st1⟩
  · rfl
  · simp only [Option.map_some, shiftSeq, seqFinish_shift]

/-! ### run -/

/-- `cfg'` is `cfg` on the shifted file (whatever its `fileSet` is: `run` never reads it) -/
structure CfgShift (b : Nat) (cfg cfg' : Cfg) : Prop where
  file : cfg'.file = shiftFile b cfg.file
  env : cfg'.env = cfg.env
  params : cfg'.params = cfg.params
  ghost : cfg'.ghost = cfg.ghost
  maxCalls : cfg'.maxCalls = cfg.maxCalls

theorem run_shift' (b : Nat) (cfg cfg' : Cfg) (hc : CfgShift b cfg cfg') (hws : WsShift b cfg.file) :
    ∀ fuel g ctx pos st,
      run cfg' fuel g ctx (pos + b) (St.shift b st) = (run cfg fuel g ctx pos st).map (shiftOS b) := by
  have hcf := hc.file
  have hce := hc.env
  have hcp := hc.params
  have hcm := hc.maxCalls
  intro fuel
  induction fuel with
  | zero => intros; rfl
  | succ fuel ih =>
    intro g ctx pos st
    have hrel : ShiftRel b (run cfg fuel) (run cfg' fuel) := ih
    by_cases hmax : cfg.maxCalls ≠ 0 ∧ st.calls > cfg.maxCalls
    · cases g <;> simp [run, hmax, hcm]
    · cases g with
      | term t =>
        simp only [run, hcm, St.shift_calls, hmax, if_false]
        simp only [hcp, hcf, Terminal.parse_shift]
        cases Terminal.parse cfg.params cfg.file t pos with
        | node n => simp [TermOut.shift, shiftOS, Out.shift, Res.shift]
        | err e =>
          have := logEv_shift' b cfg cfg' hc.ghost st (.termFail e.pos e.kind)
          simp [TermOut.shift, shiftOS, Out.shift, Res.shift, ← this, Ev.shift, Err.shift]
        | panic s => simp [TermOut.shift, shiftOS, Out.shift, Res.shift, Err.shift]
      | empty =>
        simp only [run, hcm, St.shift_calls, hmax, if_false]
        simp [shiftOS, Out.shift, Res.shift, Node.shift]
      | eof =>
        simp only [run, hcm, St.shift_calls, hmax, if_false, hcf, isEOF_shift]
        have := logEv_shift' b cfg cfg' hc.ghost st (.termFail pos (.other endErrMsg))
        split <;> simp [shiftOS, Out.shift, Res.shift, Node.shift, Err.shift, ← this, Ev.shift]
      | ref k =>
        simp only [run, hcm, St.shift_calls, hmax, if_false, hce]
        cases cfg.env[k]? with
        | none => simp [shiftOS, Out.shift, Res.shift, Err.shift]
        | some g' => exact ih g' ctx pos st
      | memo idx body =>
        simp only [run, hcm, St.shift_calls, hmax, if_false, St.shift_cache, cacheGet_shift]
        cases cacheGet st.cache idx pos ctx with
        | some e =>
          have := logEv_shift' b cfg cfg' hc.ghost st (.hit idx pos)
          simp [shiftOS, Out.shift, CacheEntry.shift, ← this, Ev.shift]
        | none =>
          simp only [Option.map_none, hcf, remaining_shift]
          by_cases hcur : ctx.get idx > remaining cfg.file pos + Facts.curtailSlack
          · have := logEv_shift' b cfg cfg' hc.ghost st (.curtail idx pos)
            simp [hcur, shiftOS, Out.shift, Res.shift, ← this, Ev.shift]
          · simp only [hcur, if_false]
            have hdepth : (List.filter (fun a => a.fst == idx && a.snd == pos + b) (St.shift b st).active).length
                = (List.filter (fun a => a.fst == idx && a.snd == pos) st.active).length := by
              simp only [St.shift_active, List.filter_map, List.length_map]
              congr 1
              apply List.filter_congr
              intro x _
              simp [beq_add_right]
            rw [hdepth]
            have hst1 : (⟨List.map (CacheEntry.shift b) st.cache, (St.shift b st).ctxErr, st.calls,
                  (idx, pos + b) :: (St.shift b st).active, (St.shift b st).log⟩ : St)
                = St.shift b ⟨st.cache, st.ctxErr, st.calls, (idx, pos) :: st.active, st.log⟩ := by
              simp [St.shift]
            have hev : ∀ d, Ev.body idx (pos + b) d = Ev.shift b (Ev.body idx pos d) := fun _ => rfl
            rw [hst1, hev, logEv_shift' b cfg cfg' hc.ghost, ih]
            generalize run cfg fuel body (ctx.inc idx) pos _ = res
            rcases res with _ | ⟨o, st2⟩
            · rfl
            · simp only [Option.map_some, shiftOS]
              have he : (⟨idx, pos + b, ctx.filter (Out.shift b o).cp, (Out.shift b o).cp,
                    (Out.shift b o).err, (Out.shift b o).res⟩ : CacheEntry)
                  = CacheEntry.shift b ⟨idx, pos, ctx.filter o.cp, o.cp, o.err, o.res⟩ := rfl
              rw [he, St.shift_cache, cacheSave_shift]
              rfl
      | any gs =>
        simp only [run, hcm, St.shift_calls, hmax, if_false]
        have key := anyLoop_shift b _ _ hrel ctx pos gs {} st
        rw [show AltSt.shift b {} = {} from rfl] at key
        rw [key]
        rcases anyLoop (run cfg fuel) ctx pos gs {} st with _ | ⟨⟨acp, ares, aerr, anf⟩, st1⟩
        · rfl
        · simp only [Option.map_some, shiftAny, AltSt.shift_res, Res.shift_isNil]
          split
          · cases aerr <;> simp [shiftOS, Out.shift, Res.shift]
          · simp [shiftOS, Out.shift, setError_shift]
      | choice gs =>
        simp only [run, hcm, St.shift_calls, hmax, if_false]
        have key := choiceLoop_shift b _ _ hrel ctx pos gs {} st
        rw [show AltSt.shift b {} = {} from rfl] at key
        rw [key]
        rcases choiceLoop (run cfg fuel) ctx pos gs {} st with _ | ⟨_ | o, ⟨acp, ares, aerr, anf⟩, st1⟩
        · rfl
        · simp only [Option.map_some, shiftChoice, Option.map_none]
          cases aerr <;> simp [shiftOS, Out.shift, Res.shift]
        · simp [shiftChoice, shiftOS]
      | optional g' =>
        simp only [run, hcm, St.shift_calls, hmax, if_false, ih]
        rcases run cfg fuel g' ctx pos st with _ | ⟨o, st1⟩
        · rfl
        · have := appendNode_shift b o.res (.one (.empty pos))
          rw [show Res.shift b (.one (.empty pos)) = .one (.empty (pos + b)) from rfl] at this
          simp [shiftOS, Out.shift, this]
      | suppress g' =>
        simp only [run, hcm, St.shift_calls, hmax, if_false, ih]
        rcases run cfg fuel g' ctx pos st with _ | ⟨o, st1⟩
        · rfl
        · simp [shiftOS, Out.shift]
      | name g' nm =>
        simp only [run, hcm, St.shift_calls, hmax, if_false, ih]
        rcases run cfg fuel g' ctx pos st with _ | ⟨o, st1⟩
        · rfl
        · rcases o with ⟨res, cp, _ | e⟩
          · simp only [Option.map_some, shiftOS, Out.shift, Option.map_none, Res.shift_isNil]
            split <;> simp [shiftOS, Out.shift, Res.shift, Err.shift]
          · simp only [Option.map_some, shiftOS, Out.shift, Err.shift_pos, Err.shift_kind, Nat.add_right_cancel_iff]
            split <;> simp [shiftOS, Out.shift, Res.shift, Err.shift]
      | single g' =>
        simp only [run, hcm, St.shift_calls, hmax, if_false, ih]
        rcases run cfg fuel g' ctx pos st with _ | ⟨o, st1⟩
        · rfl
        · rcases o with ⟨res, cp, _ | e⟩
          · simp only [Option.map_some, shiftOS, Out.shift, Option.map_none]
            rcases res with _ | n | l
            · simp [Res.shift, shiftOS, Out.shift]
            · rcases n with ⟨t, v, p, r⟩ | p | p | ⟨t, cs, p, r, i⟩
              · simp [Res.shift, Node.shift, shiftOS, Out.shift]
              · simp [Res.shift, Node.shift, shiftOS, Out.shift]
              · simp [Res.shift, Node.shift, shiftOS, Out.shift]
              · rcases cs with _ | ⟨c, _ | ⟨d, rest⟩⟩ <;> simp [Res.shift, Node.shift, shiftOS, Out.shift]
            · simp [Res.shift, shiftOS, Out.shift]
          · simp [shiftOS, Out.shift, Res.shift]
      | ltrim g' m =>
        simp only [run, hcm, St.shift_calls, hmax, if_false, hcf, hws pos m]
        rcases skipWhitespaces cfg.file pos m with ⟨pos', ws⟩
        simp only [shiftWs, wsToErr_shift, ih]
        rcases run cfg fuel g' ctx pos' st with _ | ⟨o, st1⟩
        · rfl
        · rcases o with ⟨res, cp, _ | e⟩ <;> rcases wsToErr ws with _ | w <;> rcases hce : st1.ctxErr with _ | ce <;>
            simp only [Out.shift, Option.map_some, Option.map_none, St.shift_ctxErr, hce, Err.shift_pos, Err.shift_kind,
              Nat.add_right_cancel_iff, gt_iff_lt, Nat.add_lt_add_iff_right, setError_shift_some, shiftOS] <;>
            (repeat' split) <;> simp [shiftOS, Out.shift, Res.shift, Err.shift]
      | rtrim g' m =>
        simp only [run, hcm, St.shift_calls, hmax, if_false, hcf, ih]
        rcases run cfg fuel g' ctx pos st with _ | ⟨o, st1⟩
        · rfl
        · rcases o with ⟨res, cp, _ | e⟩
          · simp only [Option.map_some, shiftOS, Out.shift, Option.map_none, setRposRes_shift b _ m hws]
            rcases setRposRes cfg.file m res with ⟨res', _ | w⟩ <;> simp [shiftOS, Out.shift, Res.shift]
          · simp only [Option.map_some, shiftOS, Out.shift, Err.shift_pos, Err.shift_kind, hws e.pos m]
            rcases skipWhitespaces cfg.file e.pos m with ⟨errPos, x⟩
            simp only [shiftWs, gt_iff_lt, Nat.add_lt_add_iff_right]
            split <;> simp [Err.shift]
      | seq k gs o =>
        rw [run_seqFamily _ _ _ _ _ _ _ (Or.inl ⟨_, _, _, rfl⟩) rfl, run_seqFamily _ _ _ _ _ _ _ (Or.inl ⟨_, _, _, rfl⟩) rfl]
        simp only [hcm, St.shift_calls, hmax, if_false]
        exact seqTail_shift b _ _ hrel _ fuel ctx pos st
      | many g' ae o =>
        rw [run_seqFamily _ _ _ _ _ _ _ (Or.inr (Or.inl ⟨_, _, _, rfl⟩)) rfl,
          run_seqFamily _ _ _ _ _ _ _ (Or.inr (Or.inl ⟨_, _, _, rfl⟩)) rfl]
        simp only [hcm, St.shift_calls, hmax, if_false]
        exact seqTail_shift b _ _ hrel _ fuel ctx pos st
      | sepBy v s' ae o =>
        rw [run_seqFamily _ _ _ _ _ _ _ (Or.inr (Or.inr ⟨_, _, _, _, rfl⟩)) rfl,
          run_seqFamily _ _ _ _ _ _ _ (Or.inr (Or.inr ⟨_, _, _, _, rfl⟩)) rfl]
        simp only [hcm, St.shift_calls, hmax, if_false]
        exact seqTail_shift b _ _ hrel _ fuel ctx pos st

theorem run_shift (b : Nat) (cfg : Cfg) (hws : WsShift b cfg.file) :
    ∀ fuel g ctx pos st,
      run (shiftCfg b cfg) fuel g ctx (pos + b) (St.shift b st) = (run cfg fuel g ctx pos st).map (shiftOS b) :=
  run_shift' b cfg _ ⟨rfl, rfl, rfl, rfl, rfl⟩ hws

end PV
