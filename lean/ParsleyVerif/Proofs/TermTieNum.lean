/-
  The tie of the TERMINAL PARSERS, part 2: Integer, Float, TimeDuration (a literal regular expression, then a library
  conversion of the lexeme).
-/
import ParsleyVerif.Proofs.TermTieSimple
import ParsleyVerif.Proofs.Lang
namespace PV.TermTie
open PV.CoreTie PV.Text PV.TermPrelude PV.FactsTerm

variable {σ : Type}

/-! the expressions in the Go source are the printed syntax trees of Spec/Regex.lean -/

theorem rx_integer : CorePrelude.Go.str "[-+]?(?:[1-9][0-9]*|0[xX][0-9a-fA-F]+|0[0-7]*)" = rxBytes Rx.integerSx := by
  unfold rxBytes; rw [Rx.integerSx_src]; rfl

theorem rx_float : CorePrelude.Go.str "[-+]?[0-9]*\\.[0-9]+(?:[eE][-+]?[0-9]+)?" = rxBytes Rx.floatSx := by
  unfold rxBytes; rw [Rx.floatSx_src]; rfl

theorem rx_duration :
    CorePrelude.Go.str "[-+]?(?:[0-9]+(?:\\.[0-9]+)?(?:ns|us|µs|μs|ms|s|m|h))+" = rxBytes Rx.durationSx := by
  unfold rxBytes; rw [Rx.durationSx_src]; rfl

/-- the lexeme `ReadRegexp` returns for the integer expression is in the integer syntax -/
theorem readRegexp_integer_isInt (f : File) (pos rp : Nat) (lex : Bytes)
    (h : readRegexp integerMatch f pos = some (rp, some lex)) : Lang.IsInt lex := by
  unfold readRegexp at h
  split at h
  · cases h
  · simp only at h
    split at h
    · cases h
    · split at h
      · cases h
      · rename_i m hm
        split at h
        · cases h
        · simp only [Option.some.injEq, Prod.mk.injEq] at h
          rw [← h.2]
          exact integerMatch_sound _ m hm

/-- terminal.Integer(schema) -/
theorem tie_Integer (T : TWorld) (cfg : Cfg) (hT : TWorldRel T cfg) (schema : CorePrelude.Opaque)
    (m : IntMap) (pos : Nat) (s : σ) :
    CorrT (Integer_parse T schema (CorePrelude.Go.str "integer value") m (pos : Int) s) s
      (Terminal.integer.parse cfg.params cfg.file pos) := by
  unfold Integer_parse Terminal.parse
  rw [bindT, rx_integer, hT.reInteger]
  cases h : readRegexp integerMatch cfg.file pos with
  | none => term_simp [h]
  | some r =>
    obtain ⟨rp, lexo⟩ := r
    cases lexo with
    | none => term_simp [h]; term_done
    | some lex =>
      have hr : T.Reader_ReadRune (rp : Int) 46 = (readRune cfg.file rp 46).map ePB := hT.readRune rp 46
      have hp := hT.parseInt lex (readRegexp_integer_isInt _ _ _ _ h)
      rcases hq : T.strconv_ParseInt lex 0 64 with ⟨iv, er⟩
      rw [hq] at hp
      cases h2 : readRune cfg.file rp 46 with
      | none => rw [h2] at hr; term_simp [h, hr, hq, h2]; term_done
      | some r2 =>
        obtain ⟨rp2, b⟩ := r2
        rw [h2] at hr
        cases b
        · cases h3 : parseInt0 lex with
          | none =>
            rw [h3] at hp
            simp only at hp
            term_simp [h, hr, hq, hp, h2, h3]
            term_done
          | some v =>
            rw [h3] at hp
            simp only [Prod.mk.injEq] at hp
            obtain ⟨rfl, rfl⟩ := hp
            term_simp [h, hr, hq, h2, h3]
            term_done
        · term_simp [h, hr, hq, h2]
          term_done

/-- terminal.Float(schema): the value is symbolic (the lexeme) -/
theorem tie_Float (T : TWorld) (cfg : Cfg) (hT : TWorldRel T cfg) (schema : CorePrelude.Opaque)
    (m : IntMap) (pos : Nat) (s : σ) :
    CorrT (Float_parse T schema (CorePrelude.Go.str "float value") m (pos : Int) s) s
      (Terminal.float.parse cfg.params cfg.file pos) := by
  unfold Float_parse Terminal.parse
  rw [bindT, rx_float, hT.reFloat]
  cases h : readRegexp floatMatch cfg.file pos with
  | none => term_simp [h]
  | some r =>
    obtain ⟨rp, lexo⟩ := r
    cases lexo with
    | none => term_simp [h]; term_done
    | some lex =>
      have hp := hT.parseFloat lex
      rcases hq : T.strconv_ParseFloat lex 64 with ⟨fv, er⟩
      rw [hq] at hp
      cases h3 : cfg.params.floatOk lex with
      | false =>
        rw [h3] at hp
        simp only [Bool.false_eq_true, if_false] at hp
        term_simp [h, hq, hp, h3]
        term_done
      | true =>
        rw [h3] at hp
        simp only [if_true, Prod.mk.injEq] at hp
        obtain ⟨rfl, rfl⟩ := hp
        term_simp [h, hq, h3, symOf]
        term_done

/-- terminal.TimeDuration(schema): the value is symbolic (the lexeme), the error is ParseDuration's -/
theorem tie_TimeDuration (T : TWorld) (cfg : Cfg) (hT : TWorldRel T cfg) (schema : CorePrelude.Opaque)
    (m : IntMap) (pos : Nat) (s : σ) :
    CorrT (TimeDuration_parse T schema (CorePrelude.Go.str "time duration") m (pos : Int) s) s
      (Terminal.duration.parse cfg.params cfg.file pos) := by
  unfold TimeDuration_parse Terminal.parse
  rw [bindT, rx_duration, hT.reDuration]
  cases h : readRegexp durationMatch cfg.file pos with
  | none => term_simp [h]
  | some r =>
    obtain ⟨rp, lexo⟩ := r
    cases lexo with
    | none => term_simp [h]; term_done
    | some lex =>
      have hp := hT.parseDuration lex
      rcases hq : T.time_ParseDuration lex with ⟨dv, er⟩
      rw [hq] at hp
      cases h3 : cfg.params.durErr lex with
      | some msg =>
        rw [h3] at hp
        simp only at hp
        subst hp
        term_simp [h, hq, h3]
        term_done
      | none =>
        rw [h3] at hp
        simp only [Prod.mk.injEq] at hp
        obtain ⟨rfl, rfl⟩ := hp
        term_simp [h, hq, h3, symOf]
        term_done

end PV.TermTie
