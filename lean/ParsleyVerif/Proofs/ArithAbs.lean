/-
  Derivations with the rule references abstracted (used by C05 and C16).

  `DerivesR cfg R g pos x` is `Derives cfg g pos x` except for one rule: a reference `.ref k` derives `x`
  when `R k pos x` holds.  If `R` is closed under the rule bodies (`Closed`: whatever the body of rule `k`
  derives with references read as `R` satisfies `R k`), every real derivation is an abstract one
  (`derives_abs`).  Abstract derivations of a closed term contain no recursion through the rules, so they can
  be inverted completely by case analysis: this turns "which trees does the recursive grammar derive?" into
  one finite check per rule.
-/
import ParsleyVerif.Spec.Derives
namespace PV
open PV.Text

mutual
inductive DerivesR (cfg : Cfg) (R : Nat → Nat → Node → Prop) : G → Nat → Node → Prop
  | term {t pos n} : t.parse cfg.params cfg.file pos = .node n → DerivesR cfg R (.term t) pos n
  | empty {pos} : DerivesR cfg R .empty pos (.empty pos)
  | eof {pos} : isEOF cfg.file pos = true → DerivesR cfg R .eof pos (.eof pos)
  | ref {k pos x} : R k pos x → DerivesR cfg R (.ref k) pos x
  | memo {i g pos x} : DerivesR cfg R g pos x → DerivesR cfg R (.memo i g) pos x
  | any {gs g pos x} : g ∈ gs → DerivesR cfg R g pos x → DerivesR cfg R (.any gs) pos x
  | choice {gs g pos x} : g ∈ gs → DerivesR cfg R g pos x → DerivesR cfg R (.choice gs) pos x
  | optSome {g pos x} : DerivesR cfg R g pos x → DerivesR cfg R (.optional g) pos x
  | optNone {g pos} : DerivesR cfg R (.optional g) pos (.empty pos)
  | name {g nm pos x} : DerivesR cfg R g pos x → DerivesR cfg R (.name g nm) pos x
  | suppress {g pos x} : DerivesR cfg R g pos x → DerivesR cfg R (.suppress g) pos x
  | singleUnwrap {g pos tk c p r i} : DerivesR cfg R g pos (.nt tk [c] p r i) → DerivesR cfg R (.single g) pos c
  | singleKeep {g pos x} : DerivesR cfg R g pos x → DerivesR cfg R (.single g) pos x
  | ltrim {g m pos x} : DerivesR cfg R g (skipWhitespaces cfg.file pos m).1 x → DerivesR cfg R (.ltrim g m) pos x
  | rtrimMove {g m pos x} : DerivesR cfg R g pos x → DerivesR cfg R (.rtrim g m) pos (setRposNode cfg.file m x none).1
  | rtrimKeep {g m pos x} : DerivesR cfg R g pos x → DerivesR cfg R (.rtrim g m) pos x
  | seqfam {g sh pos nodes} : g.shape = some sh → DerivesSeqR cfg R sh 0 pos nodes →
      sh.lenCheck nodes.length = true → DerivesR cfg R g pos (handleResult sh pos nodes)
inductive DerivesSeqR (cfg : Cfg) (R : Nat → Nat → Node → Prop) : SeqShape → Nat → Nat → List Node → Prop
  | nil {sh d pos} : DerivesSeqR cfg R sh d pos []
  | cons {sh d pos g n rest} : sh.lookup d = some g → DerivesR cfg R g pos n →
      DerivesSeqR cfg R sh (d + 1) n.rpos rest → DerivesSeqR cfg R sh d pos (n :: rest)
end

/-- `R` is closed under the rule bodies -/
def ClosedR (cfg : Cfg) (R : Nat → Nat → Node → Prop) : Prop :=
  ∀ k g pos x, cfg.env[k]? = some g → DerivesR cfg R g pos x → R k pos x

/-- every derivation is an abstract derivation, for every `R` closed under the rule bodies -/
theorem derives_abs (cfg : Cfg) (R : Nat → Nat → Node → Prop) (hR : ClosedR cfg R) :
    ∀ {g pos x}, Derives cfg g pos x → DerivesR cfg R g pos x := by
  intro g pos x h
  refine @Derives.rec cfg (fun g pos x _ => DerivesR cfg R g pos x)
    (fun sh d pos nodes _ => DerivesSeqR cfg R sh d pos nodes)
    ?_ ?_ ?_ ?_ ?_ ?_ ?_ ?_ ?_ ?_ ?_ ?_ ?_ ?_ ?_ ?_ ?_ ?_ ?_ g pos x h
  · intro t pos n h; exact .term h
  · intro pos; exact .empty
  · intro pos h; exact .eof h
  · intro k g pos x hk _ ih; exact .ref (hR k g pos x hk ih)
  · intro i g pos x _ ih; exact .memo ih
  · intro gs g pos x hm _ ih; exact .any hm ih
  · intro gs g pos x hm _ ih; exact .choice hm ih
  · intro g pos x _ ih; exact .optSome ih
  · intro g pos; exact .optNone
  · intro g nm pos x _ ih; exact .name ih
  · intro g pos x _ ih; exact .suppress ih
  · intro g pos tk c p r i _ ih; exact .singleUnwrap ih
  · intro g pos x _ ih; exact .singleKeep ih
  · intro g m pos x _ ih; exact .ltrim ih
  · intro g m pos x _ ih; exact .rtrimMove ih
  · intro g m pos x _ ih; exact .rtrimKeep ih
  · intro g sh pos nodes hs _ hl ih; exact .seqfam hs ih hl
  · intro sh d pos; exact .nil
  · intro sh d pos g n rest hl _ _ ih1 ih2; exact .cons hl ih1 ih2

/-! ### inversion -/
variable {cfg : Cfg} {R : Nat → Nat → Node → Prop}

theorem DerivesR.term_inv {t pos x} (h : DerivesR cfg R (.term t) pos x) :
    t.parse cfg.params cfg.file pos = .node x := by
  cases h with
  | term h => exact h
  | seqfam hs _ _ => simp [G.shape] at hs

theorem DerivesR.ref_inv {k pos x} (h : DerivesR cfg R (.ref k) pos x) : R k pos x := by
  cases h with
  | ref h => exact h
  | seqfam hs _ _ => simp [G.shape] at hs

theorem DerivesR.memo_inv {i g pos x} (h : DerivesR cfg R (.memo i g) pos x) : DerivesR cfg R g pos x := by
  cases h with
  | memo h => exact h
  | seqfam hs _ _ => simp [G.shape] at hs

theorem DerivesR.name_inv {g nm pos x} (h : DerivesR cfg R (.name g nm) pos x) : DerivesR cfg R g pos x := by
  cases h with
  | name h => exact h
  | seqfam hs _ _ => simp [G.shape] at hs

theorem DerivesR.any_inv {gs pos x} (h : DerivesR cfg R (.any gs) pos x) : ∃ g ∈ gs, DerivesR cfg R g pos x := by
  cases h with
  | any hm h => exact ⟨_, hm, h⟩
  | seqfam hs _ _ => simp [G.shape] at hs

theorem DerivesR.choice_inv {gs pos x} (h : DerivesR cfg R (.choice gs) pos x) :
    ∃ g ∈ gs, DerivesR cfg R g pos x := by
  cases h with
  | choice hm h => exact ⟨_, hm, h⟩
  | seqfam hs _ _ => simp [G.shape] at hs

theorem DerivesR.ltrim_inv {g m pos x} (h : DerivesR cfg R (.ltrim g m) pos x) :
    DerivesR cfg R g (skipWhitespaces cfg.file pos m).1 x := by
  cases h with
  | ltrim h => exact h
  | seqfam hs _ _ => simp [G.shape] at hs

theorem DerivesR.rtrim_inv {g m pos x} (h : DerivesR cfg R (.rtrim g m) pos x) :
    ∃ y, DerivesR cfg R g pos y ∧ (x = y ∨ x = (setRposNode cfg.file m y none).1) := by
  cases h with
  | rtrimMove h => exact ⟨_, h, .inr rfl⟩
  | rtrimKeep h => exact ⟨_, h, .inl rfl⟩
  | seqfam hs _ _ => simp [G.shape] at hs

/-- a Sequence-family parser derives what its result handler builds from a chain of element derivations -/
theorem DerivesR.seq_inv {g sh pos x} (h : DerivesR cfg R g pos x) (hs : g.shape = some sh) :
    ∃ nodes, DerivesSeqR cfg R sh 0 pos nodes ∧ sh.lenCheck nodes.length = true ∧ x = handleResult sh pos nodes := by
  cases h with
  | seqfam hs' hd hl =>
    rw [hs] at hs'
    cases hs'
    exact ⟨_, hd, hl, rfl⟩
  | _ => simp [G.shape] at hs

/-- element `i` of a chain is derived by parser `d + i` of the shape, somewhere -/
theorem DerivesSeqR.get {sh : SeqShape} : ∀ {nodes : List Node} {d pos : Nat}, DerivesSeqR cfg R sh d pos nodes →
    ∀ i n, nodes[i]? = some n → ∃ g p, sh.lookup (d + i) = some g ∧ DerivesR cfg R g p n
  | [], _, _, _, i, n, hn => by simp at hn
  | m :: rest, d, pos, h, i, n, hn => by
    cases h with
    | cons hl hm hrest =>
      cases i with
      | zero =>
        simp only [List.getElem?_cons_zero, Option.some.injEq] at hn
        subst hn
        exact ⟨_, _, hl, hm⟩
      | succ j =>
        simp only [List.getElem?_cons_succ] at hn
        obtain ⟨g, p, hg, hd⟩ := DerivesSeqR.get hrest j n hn
        exact ⟨g, p, by rw [← hg]; congr 1; omega, hd⟩

/-- the three-element SeqOf -/
theorem DerivesR.seqOf3_inv {a b c : G} {o : SeqOpts} {pos x}
    (h : DerivesR cfg R (.seq .seqOf [a, b, c] o) pos x) :
    ∃ x1 x2 x3, DerivesR cfg R a pos x1 ∧ DerivesR cfg R b x1.rpos x2 ∧ DerivesR cfg R c x2.rpos x3 ∧
      x = .nt (o.token.getD seqTok) [x1, x2, x3] x1.pos x3.rpos o.interp := by
  obtain ⟨nodes, hd, hl, rfl⟩ := h.seq_inv rfl
  simp only [List.length_cons, List.length_nil, beq_iff_eq] at hl
  cases hd with
  | nil => simp at hl
  | cons l1 h1 hr1 =>
    cases hr1 with
    | nil => simp at hl
    | cons l2 h2 hr2 =>
      cases hr2 with
      | nil => simp at hl
      | cons l3 h3 hr3 =>
        cases hr3 with
        | cons _ _ _ => simp at hl
        | nil =>
          simp only [List.getElem?_cons_zero, Option.some.injEq, Nat.zero_add, List.getElem?_cons_succ] at l1 l2 l3
          subst l1 l2 l3
          exact ⟨_, _, _, h1, h2, h3, by simp [handleResult]⟩

end PV
