/-
  `run` computes the big-step semantics `Big` (Spec/BigStep.lean) on every run in which nothing was
  curtailed.

  One induction on fuel over all of `run` (`Big.run_big`), with the cache invariant "every entry (idx, pos)
  holds the exact result of the body of Memoize `idx` at `pos`" (`Big.CacheBig`), in the style of
  Proofs/RunSound.lean.  `NoCurtail` is a property of the FINAL log; logs only grow (`run_grow`), so every
  sub-run inherits it (the bookkeeping is that of Proofs/MemoSim.lean / MemoOnce.lean).  The left-recursion
  context and the curtailing sets play no role: the only place where they influence a result is the
  curtailment branch of Memoize, which `NoCurtail` excludes.
-/
import ParsleyVerif.Spec.BigStep
import ParsleyVerif.Proofs.MemoBasics
import ParsleyVerif.Proofs.MemoSim
namespace PV
open PV.Text

namespace Big

/-- the scope of the theorem, locally: one parser per Memoize index; LeftTrim in the mode in which
    whitespace is always acceptable (`text.WsSpacesNl`) -/
def OKLocal (bodyOf : Nat → G) : G → Prop
  | .memo i g => g = bodyOf i
  | .ltrim _ m => m = .spacesNl
  | _ => True

def InScope (bodyOf : Nat → G) (g : G) : Prop := g.All (OKLocal bodyOf)

/-- every cache entry holds the exact result (and the error bit) of its parser at its position -/
def CacheBig (cfg : Cfg) (bodyOf : Nat → G) (st : St) : Prop :=
  ∀ e ∈ st.cache, Big cfg (bodyOf e.idx) e.pos e.res e.err.isSome

theorem CacheBig.of_eq {cfg : Cfg} {bodyOf : Nat → G} {st st' : St} (h : CacheBig cfg bodyOf st)
    (hc : st'.cache = st.cache) : CacheBig cfg bodyOf st' := by
  unfold CacheBig; rw [hc]; exact h

def RunBig (cfg : Cfg) (bodyOf : Nat → G) (r : RunFn) : Prop :=
  ∀ g ctx pos st o st', InScope bodyOf g → r g ctx pos st = some (o, st') → NoCurtail st'.log →
    CacheBig cfg bodyOf st → Big cfg g pos o.res o.err.isSome ∧ CacheBig cfg bodyOf st'

theorem big_cast {cfg : Cfg} {g : G} {pos : Nat} {R : Res} {e e' : Bool} (h : Big cfg g pos R e) (he : e = e') :
    Big cfg g pos R e' := he ▸ h

/-! ### the error bit of Any / Choice -/

def altFlag (a : AltSt) : Bool := a.err.isSome || a.nf.isSome

theorem altFlag_altErr (pos : Nat) (a : AltSt) (e : Option Err) :
    altFlag (altErr pos a e) = (altFlag a || e.isSome) := by
  cases e with
  | none => simp [altErr, altFlag]
  | some e2 =>
    obtain ⟨cp, res, err, nf⟩ := a
    cases err with
    | none =>
      by_cases h2 : e2.pos > pos
      · simp [altErr, altFlag, h2]
      · cases hk : e2.kind.isNotFound <;> simp [altErr, altFlag, h2, hk]
    | some c =>
      by_cases h1 : e2.pos ≥ c.pos
      · by_cases h2 : e2.pos > pos
        · simp [altErr, altFlag, h1, h2]
        · cases hk : e2.kind.isNotFound <;> simp [altErr, altFlag, h1, h2, hk]
      · simp [altErr, altFlag, h1]

theorem altFlag_final (a : AltSt) :
    (match a.err with | some e => some e | none => a.nf).isSome = altFlag a := by
  unfold altFlag
  cases a.err <;> simp

theorem altFlag_cp (a : AltSt) (cp : List Nat) : altFlag { a with cp := cp } = altFlag a := rfl

/-! ### Any -/

theorem anyLoop_big {cfg : Cfg} {bodyOf : Nat → G} {r : RunFn} (hr : RunBig cfg bodyOf r) (hg : RunGrow r)
    (ctx : Ctx) (pos : Nat) :
    ∀ (gs : List G) a st a' st', AllList (OKLocal bodyOf) gs →
      anyLoop r ctx pos gs a st = some (a', st') → NoCurtail st'.log → CacheBig cfg bodyOf st →
      CacheBig cfg bodyOf st' ∧ ∃ e, BigAny cfg gs pos a.res a'.res e ∧ altFlag a' = (altFlag a || e) := by
  intro gs
  induction gs with
  | nil =>
    intro a st a' st' _ h _ hc
    simp only [anyLoop] at h
    cases h
    exact ⟨hc, false, .nil, by simp⟩
  | cons g gs ih =>
    intro a st a' st' hall h hnc hc
    simp only [AllList] at hall
    simp only [anyLoop] at h
    split at h
    · cases h
    · rename_i o st1 hrun
      have htail := anyLoop_grow hg _ _ _ _ _ _ _ h
      obtain ⟨hb, hc1⟩ := hr g ctx pos _ o st1 hall.1 hrun (hnc.of_suffix htail.log) (hc.of_eq rfl)
      obtain ⟨hc2, e2, hb2, hf2⟩ := ih _ _ _ _ hall.2 h hnc hc1
      rw [(altErr_fields pos _ o.err).2.1] at hb2
      refine ⟨hc2, o.err.isSome || e2, .cons hb hb2, ?_⟩
      rw [hf2, altFlag_altErr]
      simp only [altFlag, Bool.or_assoc]

/-! ### Choice -/

theorem choiceLoop_big {cfg : Cfg} {bodyOf : Nat → G} {r : RunFn} (hr : RunBig cfg bodyOf r) (hg : RunGrow r)
    (ctx : Ctx) (pos : Nat) :
    ∀ (gs : List G) a st out a' st', AllList (OKLocal bodyOf) gs →
      choiceLoop r ctx pos gs a st = some (out, a', st') → NoCurtail st'.log → CacheBig cfg bodyOf st →
      CacheBig cfg bodyOf st' ∧ ∃ R e, BigChoice cfg gs pos R e ∧
        (match out with
         | some o => o.res = R ∧ R.isNil = false ∧ o.err = none ∧ e = false
         | none => R = .nil ∧ altFlag a' = (altFlag a || e)) := by
  intro gs
  induction gs with
  | nil =>
    intro a st out a' st' _ h _ hc
    simp only [choiceLoop] at h
    cases h
    exact ⟨hc, .nil, false, .nil, rfl, by simp⟩
  | cons g gs ih =>
    intro a st out a' st' hall h hnc hc
    simp only [AllList] at hall
    simp only [choiceLoop] at h
    split at h
    · cases h
    · rename_i o st1 hrun
      by_cases hn : o.res.isNil = true
      · simp only [hn, Bool.not_true, Bool.false_eq_true, ↓reduceIte] at h
        have htail := choiceLoop_grow hg _ _ _ _ _ _ _ _ h
        obtain ⟨hb, hc1⟩ := hr g ctx pos _ o st1 hall.1 hrun (hnc.of_suffix htail.log) (hc.of_eq rfl)
        obtain ⟨hc2, R, e2, hb2, hout⟩ := ih _ _ _ _ _ hall.2 h hnc hc1
        rw [(isNil_iff _).mp hn] at hb
        refine ⟨hc2, R, (R.isNil && o.err.isSome) || e2, .skip hb hb2, ?_⟩
        cases out with
        | some o2 =>
          simp only at hout ⊢
          obtain ⟨h1, h2, h3, h4⟩ := hout
          exact ⟨h1, h2, h3, by simp [h2, h4]⟩
        | none =>
          simp only at hout ⊢
          obtain ⟨h1, h2⟩ := hout
          refine ⟨h1, ?_⟩
          rw [h2, altFlag_altErr, altFlag_cp, h1]
          simp [Res.isNil, Bool.or_assoc]
      · have hn' : o.res.isNil = false := by simpa using hn
        simp only [hn', Bool.not_false, ↓reduceIte] at h
        cases h
        rw [setError_log] at hnc
        obtain ⟨hb, hc1⟩ := hr g ctx pos _ o st1 hall.1 hrun hnc (hc.of_eq rfl)
        exact ⟨hc1.of_eq (setError_cache _ _), o.res, false, .hit hb hn', rfl, hn', rfl, rfl⟩

/-! ### the Sequence family -/

theorem foldEmit_append (acc : Res) (a b : List Node) : foldEmit acc (a ++ b) = foldEmit (foldEmit acc a) b := by
  unfold foldEmit
  rw [List.foldl_append]

theorem pickErr_isSome (cur new : Option Err) : (pickErr cur new).isSome = (cur.isSome || new.isSome) := by
  cases new with
  | none => simp [pickErr]
  | some e =>
    cases cur with
    | none => simp [pickErr]
    | some c => simp only [pickErr]; split <;> simp

theorem seqAfter_fields (merge : Bool) (ss : SeqSt) (o : Out) :
    (seqAfter merge ss o).result = ss.result ∧ (seqAfter merge ss o).err.isSome = (ss.err.isSome || o.err.isSome) := by
  unfold seqAfter
  cases merge <;> simp [pickErr_isSome]

/-- what `BigSeq`, the accumulated result and the error bit say after a call into the enumeration -/
def SeqPost (cfg : Cfg) (bodyOf : Nat → G) (J : List Node → Bool → Bool → Prop) (ss : SeqSt) (b : Bool) (ss' : SeqSt)
    (st' : St) : Prop :=
  CacheBig cfg bodyOf st' ∧ ∃ em e, J em b e ∧ ss'.result = foldEmit ss.result em ∧
    ss'.err.isSome = (ss.err.isSome || e)

theorem seqAlts_big {cfg : Cfg} {bodyOf : Nat → G} (sh : SeqShape) (depth : Nat) (nodes : List Node)
    (k : Node → SeqSt → St → Option (Bool × SeqSt × St))
    (hgk : ∀ n ss st b ss' st', k n ss st = some (b, ss', st') → Grow st st')
    (hk : ∀ n ss st b ss' st', k n ss st = some (b, ss', st') → NoCurtail st'.log → CacheBig cfg bodyOf st →
      SeqPost cfg bodyOf (BigSeq cfg sh (depth + 1) (nodes ++ [n]) n.rpos) ss b ss' st') :
    ∀ l ss st b ss' st', seqAlts k l ss st = some (b, ss', st') → NoCurtail st'.log → CacheBig cfg bodyOf st →
      SeqPost cfg bodyOf (BigAlts cfg sh depth nodes l) ss b ss' st' := by
  intro l
  induction l with
  | nil =>
    intro ss st b ss' st' h _ hc
    simp only [seqAlts] at h
    cases h
    exact ⟨hc, [], false, .nil, rfl, by simp⟩
  | cons n rest ih =>
    intro ss st b ss' st' h hnc hc
    cases hk1 : k n ss st with
    | none => simp [seqAlts, hk1] at h
    | some x =>
      obtain ⟨b1, ss1, st1⟩ := x
      cases b1 with
      | true =>
        simp only [seqAlts, hk1] at h
        cases h
        obtain ⟨hc1, em, e, hb, hres, herr⟩ := hk n _ _ _ _ _ hk1 hnc hc
        exact ⟨hc1, em, e, .stop hb, hres, herr⟩
      | false =>
        simp only [seqAlts, hk1] at h
        have htail := seqAlts_grow k hgk rest _ _ _ _ _ h
        obtain ⟨hc1, em1, e1, hb1, hres1, herr1⟩ := hk n _ _ _ _ _ hk1 (hnc.of_suffix htail.log) hc
        obtain ⟨hc2, em2, e2, hb2, hres2, herr2⟩ := ih _ _ _ _ _ h hnc hc1
        refine ⟨hc2, em1 ++ em2, e1 || e2, .next hb1 hb2, ?_, ?_⟩
        · rw [foldEmit_append, ← hres1, hres2]
        · rw [herr2, herr1, Bool.or_assoc]

theorem seqParse_big {cfg : Cfg} {bodyOf : Nat → G} {r : RunFn} (hr : RunBig cfg bodyOf r) (hg : RunGrow r)
    (sh : SeqShape) (hall : ∀ i g, sh.lookup i = some g → InScope bodyOf g) :
    ∀ fuel depth nodes ctx pos merge ss st b ss' st', depth = nodes.length →
      seqParse r sh fuel depth nodes ctx pos merge ss st = some (b, ss', st') → NoCurtail st'.log →
      CacheBig cfg bodyOf st →
      SeqPost cfg bodyOf (BigSeq cfg sh depth nodes pos) ss b ss' st' := by
  intro fuel
  induction fuel with
  | zero => intro depth nodes ctx pos merge ss st b ss' st' _ h; simp [seqParse] at h
  | succ fuel ih =>
    intro depth nodes ctx pos merge ss st b ss' st' hd h hnc hc
    rw [seqParse_succM] at h
    cases hst : seqStepM r sh depth ctx pos st with
    | none => simp [hst] at h
    | some x =>
      obtain ⟨o, st1⟩ := x
      simp only [hst] at h
      have htail : Grow st1 st' := seqContM_grow hg sh fuel depth nodes ctx pos merge _ o st1 b ss' st' hd h
      obtain ⟨haf1, haf2⟩ := seqAfter_fields merge ss o
      -- what happens when element `depth` is missing or yields nothing
      have hnil : ∀ (J : List Node → Bool → Bool → Prop), o.res = .nil → CacheBig cfg bodyOf st1 →
          J (if sh.lenCheck depth then [handleResult sh pos nodes] else []) (sh.lenCheck depth && lastIsEOF nodes)
            o.err.isSome →
          SeqPost cfg bodyOf J ss b ss' st' := by
        intro J hres hc1 hJ
        unfold seqContM at h
        simp only [hres] at h
        by_cases hlc : sh.lenCheck depth = true
        · simp only [hlc, ↓reduceIte, Bool.true_and] at h hJ
          by_cases hdp : depth > 0
          · simp only [hdp, ↓reduceIte] at h
            cases h
            exact ⟨hc1, _, _, hJ, by simp only [foldEmit, List.foldl_cons, List.foldl_nil, haf1], haf2⟩
          · simp only [hdp, ↓reduceIte] at h
            cases h
            have hn0 : nodes = [] := List.length_eq_zero_iff.mp (by omega)
            subst hn0
            exact ⟨hc1, _, _, hJ, by simp only [foldEmit, List.foldl_cons, List.foldl_nil, haf1], haf2⟩
        · have hlc' : sh.lenCheck depth = false := by simpa using hlc
          simp only [hlc', Bool.false_eq_true, ↓reduceIte, Bool.false_and] at h hJ
          cases h
          exact ⟨hc1, _, _, hJ, by simp only [foldEmit, List.foldl_nil, haf1], haf2⟩
      unfold seqStepM at hst
      cases hl : sh.lookup depth with
      | none =>
        simp only [hl] at hst
        cases hst
        exact hnil _ rfl hc (.last hl)
      | some g =>
        simp only [hl] at hst
        obtain ⟨hb, hc1⟩ := hr g ctx pos _ o st1 (hall _ _ hl) hst (hnc.of_suffix htail.log) (hc.of_eq rfl)
        by_cases hn : o.res.isNil = true
        · have hres := (isNil_iff _).mp hn
          rw [hres] at hb
          exact hnil _ hres hc1 (.fail hl hb)
        · have hn' : o.res.isNil = false := by simpa using hn
          have h2 : seqAlts (seqNextM r sh fuel depth nodes ctx pos merge) o.res.alts (seqAfter merge ss o) st1 =
              some (b, ss', st') := by
            unfold seqContM at h
            cases hres : o.res with
            | nil => rw [hres] at hn'; simp [Res.isNil] at hn'
            | one n1 => simp only [hres] at h; exact h
            | list l1 => simp only [hres] at h; exact h
          obtain ⟨hc2, em, e2, hb2, hres2, herr2⟩ := seqAlts_big (cfg := cfg) (bodyOf := bodyOf) sh depth nodes _
            (fun n ss2 st2 b2 ss3 st3 hk =>
              seqParse_grow hg sh fuel ⟨depth + 1, nodes ++ [n], _, n.rpos, _⟩ ss2 st2 b2 ss3 st3 (by simp [hd]) hk)
            (fun n ss2 st2 b2 ss3 st3 hk hnc2 hc2 =>
              ih (depth + 1) (nodes ++ [n]) _ n.rpos _ ss2 st2 b2 ss3 st3 (by simp [hd]) hk hnc2 hc2)
            _ _ _ _ _ _ h2 hnc hc1
          refine ⟨hc2, em, o.err.isSome || e2, .step hl hb hn' hb2, by rw [hres2, haf1], ?_⟩
          rw [herr2, haf2, Bool.or_assoc]

theorem seqFinish_big (sh : SeqShape) (pos : Nat) (ss : SeqSt) (st : St) :
    (seqFinish sh pos ss st).1.res = ss.result ∧
    (seqFinish sh pos ss st).1.err.isSome = (ss.result.isNil && ss.err.isSome) := by
  unfold seqFinish
  by_cases hnil : ss.result.isNil = true
  · simp only [hnil, ↓reduceIte, Bool.true_and]
    refine ⟨((isNil_iff _).mp hnil).symm, ?_⟩
    cases ss.err with
    | none => rfl
    | some e =>
      cases sh.name with
      | none => rfl
      | some nm => simp only; split <;> rfl
  · have hnil' : ss.result.isNil = false := by simpa using hnil
    simp only [hnil', Bool.false_eq_true, ↓reduceIte, Bool.false_and]
    cases sh.name <;> simp

/-! ### the one-child combinators -/

theorem nameOut_big (pos : Nat) (nm : Bytes) (o : Out) :
    (nameOut pos nm o).err.isSome = (o.err.isSome || o.res.isNil) ∧
    (nameOut pos nm o).res = (if (o.err.isSome || o.res.isNil) = true then Res.nil else o.res) := by
  obtain ⟨res, cp, err⟩ := o
  cases err with
  | some e => simp only [nameOut]; split <;> simp
  | none =>
    simp only [nameOut]
    by_cases hn : res.isNil = true
    · simp [hn]
    · simp [hn]

theorem singleOut_big (o : Out) :
    (singleOut o).err.isSome = o.err.isSome ∧
    (singleOut o).res = (if o.err.isSome = true then Res.nil else unwrapSingle o.res) := by
  obtain ⟨res, cp, err⟩ := o
  cases err with
  | some e => simp [singleOut]
  | none =>
    simp only [singleOut]
    split
    · simp [unwrapSingle]
    · rename_i hx
      simp only [Option.isSome_none, Bool.false_eq_true, ↓reduceIte, true_and]
      unfold unwrapSingle
      split
      · rename_i tk c p r i
        exact absurd rfl (hx tk c p r i)
      · rfl

theorem skipWhitespaces_spacesNl (f : File) (pos : Nat) : (skipWhitespaces f pos .spacesNl).2 = none := by
  simp only [skipWhitespaces]
  generalize skipLoop f (f.data.drop (pos - f.offset)) (pos - f.offset) 0 = r
  obtain ⟨cur, nl⟩ := r
  simp

theorem ltrimOut_none (pos pos' : Nat) (o : Out) :
    (ltrimOut pos pos' none o).res = o.res ∧ (ltrimOut pos pos' none o).err.isSome = o.err.isSome := by
  obtain ⟨res, cp, err⟩ := o
  cases err <;> simp [ltrimOut]

theorem rtrimOut_big (f : File) (m : WsMode) (o : Out) :
    (rtrimOut f m o).res = (rtrimRes f m o.res o.err.isSome).1 ∧
    (rtrimOut f m o).err.isSome = (rtrimRes f m o.res o.err.isSome).2 := by
  obtain ⟨res, cp, err⟩ := o
  cases err with
  | some e => simp [rtrimOut, rtrimRes]
  | none =>
    simp only [rtrimOut, rtrimRes, Option.isSome_none, Bool.false_eq_true, ↓reduceIte]
    cases hs : setRposRes f m res with
    | mk r' ws => cases ws <;> simp

/-! ### the induction -/

theorem run_big (cfg : Cfg) (hgh : cfg.ghost = true) (bodyOf : Nat → G) (henv : ∀ g' ∈ cfg.env, InScope bodyOf g') :
    ∀ fuel, RunBig cfg bodyOf (run cfg fuel) := by
  intro fuel
  induction fuel with
  | zero => intro g ctx pos st o st' _ h; simp [run] at h
  | succ fuel ih =>
    intro g ctx pos st o st' hg h hnc hc
    have hgrow := run_grow cfg fuel
    cases hsh : g.shape with
    | some sh =>
      rw [run_seqfam cfg fuel g sh ctx pos st hsh] at h
      split at h
      · cases h
      · unfold runSeq at h
        split at h
        · cases h
        · rename_i b ss st1 hsp
          have hfin := seqFinish_fields sh pos ss st1
          have hfb := seqFinish_big sh pos ss st1
          generalize seqFinish sh pos ss st1 = fin at h hfin hfb
          obtain ⟨fo, fs⟩ := fin
          cases h
          simp only at hfin hfb
          have hfl : st'.log = st1.log ∧ st'.cache = st1.cache := by
            cases hfin.2 with
            | inl h1 => rw [h1]; exact ⟨rfl, rfl⟩
            | inr h1 => rw [h1, setError_log, setError_cache]; exact ⟨rfl, rfl⟩
          obtain ⟨hc1, em, e, hb, hres, herr⟩ := seqParse_big ih hgrow sh
            (fun i g' hl => shape_lookup_all hg hsh i g' hl) fuel 0 [] ctx pos true {} st b ss st1 rfl hsp
            (by rw [← hfl.1]; exact hnc) hc
          refine ⟨?_, hc1.of_eq hfl.2⟩
          refine .seqfam hsh hb (by rw [hfb.1, hres]) ?_
          rw [hfb.2, hfb.1, herr]
          simp
    | none =>
    cases hw : g.wrap cfg.file pos with
    | some w =>
      rw [run_wrap cfg fuel g w ctx pos st hw] at h
      split at h
      · cases h
      · split at h
        · cases h
        · rename_i o1 st1 hrun
          cases h
          rw [wrap_fix_eq hw] at hnc ⊢
          have hchild : InScope bodyOf w.child := wrap_all hg hw
          cases g with
          | optional g' =>
            simp only [G.wrap, Option.some.injEq] at hw
            subst hw
            obtain ⟨hb, hc1⟩ := ih _ _ _ _ _ _ hchild hrun hnc hc
            exact ⟨.optional hb, hc1⟩
          | name g' nm =>
            simp only [G.wrap, Option.some.injEq] at hw
            subst hw
            obtain ⟨hb, hc1⟩ := ih _ _ _ _ _ _ hchild hrun hnc hc
            obtain ⟨n1, n2⟩ := nameOut_big pos nm o1
            exact ⟨.name hb n1 (by rw [n2, n1]), hc1⟩
          | single g' =>
            simp only [G.wrap, Option.some.injEq] at hw
            subst hw
            obtain ⟨hb, hc1⟩ := ih _ _ _ _ _ _ hchild hrun hnc hc
            obtain ⟨n1, n2⟩ := singleOut_big o1
            simp only
            rw [n1]
            exact ⟨.single hb n2, hc1⟩
          | suppress g' =>
            simp only [G.wrap, Option.some.injEq] at hw
            subst hw
            obtain ⟨hb, hc1⟩ := ih _ _ _ _ _ _ hchild hrun hnc hc
            exact ⟨.suppress hb, hc1⟩
          | ltrim g' m =>
            have hm : m = .spacesNl := by have := G.All_self hg; simpa [OKLocal] using this
            subst hm
            simp only [G.wrap, Option.some.injEq] at hw
            subst hw
            obtain ⟨hb, hc1⟩ := ih _ _ _ _ _ _ hchild hrun hnc hc
            have hws := skipWhitespaces_spacesNl cfg.file pos
            simp only [hws, wsToErr]
            obtain ⟨n1, n2⟩ := ltrimOut_none pos (skipWhitespaces cfg.file pos .spacesNl).1 o1
            rw [n1, n2]
            exact ⟨.ltrimOk hws hb, hc1⟩
          | rtrim g' m =>
            simp only [G.wrap, Option.some.injEq] at hw
            subst hw
            obtain ⟨hb, hc1⟩ := ih _ _ _ _ _ _ hchild hrun hnc hc
            obtain ⟨n1, n2⟩ := rtrimOut_big cfg.file m o1
            exact ⟨.rtrim hb n1 n2, hc1⟩
          | _ => simp [G.wrap] at hw
    | none =>
    unfold run at h
    split at h
    · cases h
    · cases g with
      | term t =>
        simp only at h
        split at h
        · rename_i n hp
          cases h
          exact ⟨.termOk hp, hc⟩
        · rename_i e hp
          cases h
          exact ⟨.termFail (by intro n hn; rw [hp] at hn; cases hn), hc.of_eq (logEv_fields st cfg _).1⟩
        · rename_i s hp
          cases h
          exact ⟨.termFail (by intro n hn; rw [hp] at hn; cases hn), hc⟩
      | empty => simp only at h; cases h; exact ⟨.empty, hc⟩
      | eof =>
        simp only at h
        split at h
        · rename_i he
          cases h
          exact ⟨.eofOk he, hc⟩
        · rename_i he
          cases h
          exact ⟨.eofFail (by simpa using he), hc.of_eq (logEv_fields st cfg _).1⟩
      | ref k =>
        simp only at h
        split at h
        · rename_i g' hk
          obtain ⟨hb, hc1⟩ := ih g' ctx pos st o st' (henv g' (List.mem_of_getElem? hk)) h hnc hc
          exact ⟨.ref hk hb, hc1⟩
        · rename_i hk
          cases h
          exact ⟨.refNone hk, hc⟩
      | memo idx body =>
        simp only at h
        have hg2 : body = bodyOf idx ∧ InScope bodyOf body := by simpa [InScope, G.All, OKLocal] using hg
        cases hcg : cacheGet st.cache idx pos ctx with
        | some e =>
          simp only [hcg] at h
          cases h
          obtain ⟨hm, hi, hp⟩ := cacheGet_some hcg
          have := hc e hm
          rw [hi, hp, ← hg2.1] at this
          exact ⟨.memo this, hc.of_eq (logEv_fields st cfg _).1⟩
        | none =>
          simp only [hcg] at h
          by_cases hcur : ctx.get idx > remaining cfg.file pos + Facts.curtailSlack
          · simp only [hcur, ↓reduceIte] at h
            cases h
            rw [logEv_ghost hgh] at hnc
            exact absurd (List.mem_cons_self ..) (hnc idx pos)
          · simp only [hcur, ↓reduceIte] at h
            split at h
            · cases h
            · rename_i o2 st2 hrun
              cases h
              simp only at hnc
              obtain ⟨hb, hc1⟩ := ih _ _ _ _ _ _ hg2.2 hrun hnc (hc.of_eq (logEv_fields _ cfg _).1)
              refine ⟨.memo hb, ?_⟩
              intro e he
              cases mem_cacheSave he with
              | inl h3 => subst h3; simp only; rw [← hg2.1]; exact hb
              | inr h3 => exact hc1 e h3
      | any gs =>
        simp only at h
        have hgs : AllList (OKLocal bodyOf) gs := by
          have : OKLocal bodyOf (.any gs) ∧ AllList (OKLocal bodyOf) gs := by simpa [InScope, G.All] using hg
          exact this.2
        split at h
        · cases h
        · rename_i a st1 hl
          have hlog : st'.log = st1.log ∧ st'.cache = st1.cache := by
            split at h
            · cases h; exact ⟨rfl, rfl⟩
            · cases h; exact ⟨setError_log _ _, setError_cache _ _⟩
          obtain ⟨hc1, e, hb, hf⟩ := anyLoop_big ih hgrow ctx pos gs {} st a st1 hgs hl (by rw [← hlog.1]; exact hnc) hc
          have hf' : altFlag a = e := by rw [hf]; simp [altFlag]
          refine ⟨?_, hc1.of_eq hlog.2⟩
          by_cases hnil : a.res.isNil = true
          · simp only [hnil, ↓reduceIte] at h
            cases h
            simp only
            have hr0 : a.res = .nil := (isNil_iff _).mp hnil
            rw [hr0] at hb
            refine big_cast (.any hb rfl) ?_
            rw [← hf']
            unfold altFlag
            cases a.err <;> simp [Res.isNil]
          · simp only [hnil] at h
            cases h
            exact .any hb (by simp [hnil])
      | choice gs =>
        simp only at h
        have hgs : AllList (OKLocal bodyOf) gs := by
          have : OKLocal bodyOf (.choice gs) ∧ AllList (OKLocal bodyOf) gs := by simpa [InScope, G.All] using hg
          exact this.2
        cases hl : choiceLoop (run cfg fuel) ctx pos gs {} st with
        | none => simp [hl] at h
        | some x =>
          obtain ⟨out, a, st1⟩ := x
          rw [hl] at h
          have hlog : st' = st1 := by
            cases out <;> (simp only at h; cases h; rfl)
          subst hlog
          obtain ⟨hc1, R, e, hb, hout⟩ := choiceLoop_big ih hgrow ctx pos gs {} st out a st' hgs hl hnc hc
          refine ⟨?_, hc1⟩
          cases out with
          | some o2 =>
            simp only at h hout
            cases h
            obtain ⟨h1, _, h3, h4⟩ := hout
            rw [h1, h3]
            subst h4
            exact .choice hb
          | none =>
            simp only at h hout
            cases h
            obtain ⟨h1, h2⟩ := hout
            simp only
            have h2' : altFlag a = e := by rw [h2]; simp [altFlag]
            rw [← h1]
            refine big_cast (.choice hb) ?_
            rw [← h2']
            unfold altFlag
            cases a.err <;> simp
      | optional g' => simp [G.wrap] at hw
      | name g' nm => simp [G.wrap] at hw
      | single g' => simp [G.wrap] at hw
      | suppress g' => simp [G.wrap] at hw
      | ltrim g' m => simp [G.wrap] at hw
      | rtrim g' m => simp [G.wrap] at hw
      | seq k gs o => simp [G.shape] at hsh
      | many g' ae o => simp [G.shape] at hsh
      | sepBy v s ae o => simp [G.shape] at hsh

end Big

end PV
