/-
  C17, part 6: the three families of the suite for which no closed form is proved here (arith, mutual,
  hidden), as the harness builds them (harness/cmd/corr/c17.go) — definitions only, used by the bounded
  checks in Props/C17.lean.
-/
import ParsleyVerif.Model.Run
namespace PV.C17
open PV.Text

/-- `parser.Rune(c)`; the name is `strconv.Quote(string(c))` for these ASCII characters -/
def runeT (c : Nat) : G := .term (.rune c [34, c, 34])
def seqOfT (l : List G) : G := .seq .seqOf l {}

def famCfg (env : List G) (data : Bytes) : Cfg :=
  { env := env, file := { name := "f", data := data, offset := 1 }, fileSet := {},
    params := { floatOk := fun _ => true, durErr := fun _ => none, regexp := fun _ _ => none }, ghost := false }

/-- the call count and whether the parse succeeded -/
def famCalls (env : List G) (data : Bytes) (fuel : Nat) : Option (Nat × Bool) :=
  (parse (famCfg env data) fuel (G.sentence (.ref 0))).map fun p => (p.st.calls, p.err.isNone)

/-- family 2: expr → expr + term | term ; term → term * factor | factor ; factor → 1 | ( expr ) -/
def arithEnv : List G := [
  .memo 0 (.any [seqOfT [.ref 0, runeT 43, .ref 1], .ref 1]),
  .memo 1 (.any [seqOfT [.ref 1, runeT 42, .ref 2], .ref 2]),
  .any [runeT 49, seqOfT [runeT 40, .ref 0, runeT 41]]]

/-- the harness's input: "1+" repeated, "1*" where the length so far is 2 mod 7, while shorter than n-1; then "1" -/
def arithBuild : Nat → Nat → Bytes → Bytes
  | 0, _, acc => acc
  | fuel + 1, n, acc =>
    if acc.length < n - 1 then arithBuild fuel n (acc ++ (if acc.length % 7 == 2 then [49, 42] else [49, 43])) else acc
def arithInput (n : Nat) : Bytes := arithBuild n n [] ++ [49]

/-- family 3: A → B a | x ; B → A b | y -/
def mutualEnv : List G := [
  .memo 0 (.any [seqOfT [.ref 1, runeT 97], runeT 120]),
  .memo 1 (.any [seqOfT [.ref 0, runeT 98], runeT 121])]
def mutualInput (k : Nat) : Bytes := 120 :: (List.replicate k [98, 97]).flatten

/-- family 4: P → x? P b | a -/
def hiddenEnv : List G := [.memo 0 (.any [seqOfT [.optional (runeT 120), .ref 0, runeT 98], runeT 97])]
def hiddenInput (n : Nat) : Bytes := 97 :: List.replicate (n - 1) 98

end PV.C17
