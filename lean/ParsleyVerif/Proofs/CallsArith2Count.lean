/-
  C17, part 16: family 8 ("arith2") — counting.  As CallsArithCount.lean, with the alternatives of every level known
  up to their order (`List.Perm`): the counts depend on the numbers of alternatives and of operators behind them only.
-/
import ParsleyVerif.Proofs.CallsArith2
namespace PV.C17b
open PV.Text PV.C17 List

/-! ### permutations -/

theorem filter_or_perm {α : Type} (p1 p2 : α → Bool) (hd : ∀ x, ¬ (p1 x = true ∧ p2 x = true)) :
    ∀ l : List α, l.filter p1 ++ l.filter p2 ~ l.filter (fun x => p1 x || p2 x) := by
  intro l
  induction l with
  | nil => exact Perm.refl _
  | cons x l ih =>
    by_cases h1 : p1 x = true
    · have h2 : p2 x = false := by
        cases h : p2 x
        · rfl
        · exact absurd ⟨h1, h⟩ (hd x)
      simp only [List.filter_cons, h1, h2, Bool.true_or, ↓reduceIte, Bool.false_eq_true, List.cons_append]
      exact Perm.cons x ih
    · have h1' : p1 x = false := by simpa using h1
      by_cases h2 : p2 x = true
      · simp only [List.filter_cons, h1', h2, Bool.false_or, ↓reduceIte, Bool.false_eq_true]
        exact Perm.trans perm_middle (Perm.cons x ih)
      · have h2' : p2 x = false := by simpa using h2
        simp only [List.filter_cons, h1', h2', Bool.or_self, Bool.false_eq_true, ↓reduceIte]
        exact ih

theorem flatMap_append_perm {α β : Type} (f g : α → List β) :
    ∀ l : List α, l.flatMap f ++ l.flatMap g ~ l.flatMap (fun x => f x ++ g x) := by
  intro l
  induction l with
  | nil => exact Perm.refl _
  | cons x l ih =>
    simp only [List.flatMap_cons]
    -- (f x ++ F) ++ (g x ++ G) ~ (f x ++ g x) ++ (F ++ G)
    have h1 : f x ++ l.flatMap f ++ (g x ++ l.flatMap g) ~ f x ++ (g x ++ (l.flatMap f ++ l.flatMap g)) := by
      rw [List.append_assoc]
      apply Perm.append_left
      rw [← List.append_assoc, ← List.append_assoc]
      exact Perm.append_right _ perm_append_comm
    refine Perm.trans h1 ?_
    rw [← List.append_assoc]
    exact Perm.append_left _ ih

theorem fol_disjoint (data : Bytes) (a b p : Nat) (hab : a ≠ b) : ¬ (fol data a p = true ∧ fol data b p = true) := by
  intro ⟨h1, h2⟩
  simp only [fol, beq_iff_eq] at h1 h2
  rw [h1] at h2
  exact hab (Option.some.inj h2)

/-! ### the terms -/

/-- the input consists of the terms 0 … s, term `i` with `rf i` operators `*` or `/`; a `+` or `-` between
    consecutive terms -/
structure Ar2Terms (data : Bytes) (k : Nat) (rf : Nat → Nat) (s : Nat) : Prop where
  total : pre rf (s + 1) = k + 1
  mul : ∀ i, i ≤ s → ∀ t, t ≤ rf i →
    (fol data 42 (qf rf i + 1 + 2 * t) || fol data 47 (qf rf i + 1 + 2 * t)) = decide (t < rf i)
  add : ∀ i, i ≤ s → ∀ t, t ≤ rf i →
    (fol data 43 (qf rf i + 1 + 2 * t) || fol data 45 (qf rf i + 1 + 2 * t)) = decide (t = rf i ∧ i < s)

variable {data : Bytes} {k s : Nat} {rf : Nat → Nat}

theorem qf_bound2 (ht : Ar2Terms data k rf s) (i : Nat) (hi : i ≤ s) : qf rf i + 2 * rf i ≤ 2 * k + 1 := by
  have h1 := pre_mono rf (i + 1) (s + 1) (by omega)
  rw [ht.total, pre] at h1
  unfold qf; omega

theorem filter_op_rpos (data : Bytes) (ch : Nat) (l : List Node) :
    ((l.filter (isOp data ch)).map (mulExt ch)).map Node.rpos = ((l.map Node.rpos).filter (fol data ch)).map (· + 2) := by
  induction l with
  | nil => rfl
  | cons x l ih =>
    simp only [List.filter_cons, List.map_cons]
    by_cases h : isOp data ch x = true
    · have h' : fol data ch x.rpos = true := h
      simp only [h, h', ↓reduceIte, List.map_cons, mulExt_rpos, ih]
    · have h2 : isOp data ch x = false := by simpa using h
      have h' : fol data ch x.rpos = false := h2
      simp only [h2, h', Bool.false_eq_true, ↓reduceIte, ih]

theorem filter_op_length (data : Bytes) (ch : Nat) (l : List Node) :
    (l.filter (isOp data ch)).length = ((l.map Node.rpos).filter (fol data ch)).length := by
  induction l with
  | nil => rfl
  | cons x l ih =>
    simp only [List.filter_cons, List.map_cons]
    by_cases h : isOp data ch x = true
    · have h' : fol data ch x.rpos = true := h
      simp only [h, h', ↓reduceIte, List.length_cons, ih]
    · have h2 : isOp data ch x = false := by simpa using h
      have h' : fol data ch x.rpos = false := h2
      simp only [h2, h', Bool.false_eq_true, ↓reduceIte, ih]

/-- `T` at `q` with `r` operators `*`, `/` behind it: the ends, up to their order -/
theorem TN2_rpos (data : Bytes) (q r : Nat)
    (hp : ∀ t, t ≤ r → (fol data 42 (q + 1 + 2 * t) || fol data 47 (q + 1 + 2 * t)) = decide (t < r)) :
    ∀ j, (TN2 data q j).map Node.rpos ~ tl q (min j (r + 1)) := by
  intro j
  induction j with
  | zero => simp [TN2, tl]
  | succ j ih =>
    rw [TN2, List.map_append, List.map_append, filter_op_rpos, filter_op_rpos, ← List.map_append]
    have h1 := filter_or_perm (fol data 42) (fol data 47) (fun p => fol_disjoint data 42 47 p (by omega))
      ((TN2 data q j).map Node.rpos)
    have h2 := Perm.filter (fun p => fol data 42 p || fol data 47 p) ih
    rw [tl_filter_lt q r _ _ (Nat.min_le_right _ _) hp] at h2
    have h3 := (Perm.trans h1 h2).map (· + 2)
    have e : min (min j (r + 1)) r + 1 = min (j + 1) (r + 1) := by omega
    rw [← e, ← tl_map_succ]
    exact Perm.append_right _ h3

theorem TC2_step (data : Bytes) (q r : Nat)
    (hp : ∀ t, t ≤ r → (fol data 42 (q + 1 + 2 * t) || fol data 47 (q + 1 + 2 * t)) = decide (t < r)) (j : Nat) :
    TC2 data q (j + 1) = TC2 data q j + 8 + 2 * min j (r + 1) + 4 * min (min j (r + 1)) r := by
  have hperm := TN2_rpos data q r hp j
  have h1 : (TN2 data q j).length = min j (r + 1) := by
    rw [← List.length_map (f := Node.rpos), hperm.length_eq, tl_length]
  have h2 : ((TN2 data q j).filter (isOp data 42)).length + ((TN2 data q j).filter (isOp data 47)).length =
      min (min j (r + 1)) r := by
    rw [filter_op_length, filter_op_length, ← List.length_append]
    have a := filter_or_perm (fol data 42) (fol data 47) (fun p => fol_disjoint data 42 47 p (by omega))
      ((TN2 data q j).map Node.rpos)
    have b := Perm.filter (fun p => fol data 42 p || fol data 47 p) hperm
    rw [tl_filter_lt q r _ _ (Nat.min_le_right _ _) hp] at b
    rw [(Perm.trans a b).length_eq, tl_length]
  rw [TC2, h1, h2]

theorem TC2_le (data : Bytes) (q r : Nat)
    (hp : ∀ t, t ≤ r → (fol data 42 (q + 1 + 2 * t) || fol data 47 (q + 1 + 2 * t)) = decide (t < r)) :
    ∀ j, TC2 data q j ≤ j * (6 * r + 10) := by
  intro j
  induction j with
  | zero => simp [TC2]
  | succ j ih =>
    rw [TC2_step data q r hp, Nat.add_mul, Nat.one_mul]
    omega

theorem TNf2_rpos (ht : Ar2Terms data k rf s) (i : Nat) (hi : i ≤ s) :
    (TNf2 data k (qf rf i)).map Node.rpos ~ blk rf i := by
  have := qf_bound2 ht i hi
  have h := TN2_rpos data (qf rf i) (rf i) (ht.mul i hi) (2 * k + 4 - qf rf i)
  have e : min (2 * k + 4 - qf rf i) (rf i + 1) = rf i + 1 := by omega
  rw [e] at h
  exact h

theorem pRes2_rpos (data : Bytes) (k ch : Nat) (l : List Node) :
    (pRes2 data k ch l).map Node.rpos =
      (l.map Node.rpos).flatMap (fun p => if fol data ch p then (TNf2 data k (p + 1)).map Node.rpos else []) := by
  induction l with
  | nil => rfl
  | cons x l ih =>
    simp only [pRes2, List.flatMap_cons, List.map_append, List.map_cons] at ih ⊢
    rw [ih]
    congr 1
    by_cases h : isOp data ch x = true
    · have h' : fol data ch x.rpos = true := h
      simp only [h, h', ↓reduceIte, List.map_map]
      apply List.map_congr_left
      intro y _
      rfl
    · have h2 : isOp data ch x = false := by simpa using h
      have h' : fol data ch x.rpos = false := h2
      simp [h2, h']

/-- the `T`-ends behind an operator `+` or `-` -/
def gAdd (data : Bytes) (k : Nat) (p : Nat) : List Nat :=
  if fol data 43 p || fol data 45 p then (TNf2 data k (p + 1)).map Node.rpos else []

theorem gAdd_split (data : Bytes) (k p : Nat) :
    (if fol data 43 p then (TNf2 data k (p + 1)).map Node.rpos else []) ++
      (if fol data 45 p then (TNf2 data k (p + 1)).map Node.rpos else []) = gAdd data k p := by
  unfold gAdd
  by_cases h1 : fol data 43 p = true
  · have h2 : fol data 45 p = false := by
      cases h : fol data 45 p
      · rfl
      · exact absurd ⟨h1, h⟩ (fol_disjoint data 43 45 p (by omega))
    simp [h1, h2]
  · have h1' : fol data 43 p = false := by simpa using h1
    simp [h1']

theorem blk_flat2 (ht : Ar2Terms data k rf s) (i : Nat) (hi : i ≤ s) :
    (blk rf i).flatMap (gAdd data k) ~ if i < s then blk rf (i + 1) else [] := by
  have hrest : (tl (qf rf i) (rf i)).flatMap (gAdd data k) = [] := by
    apply List.flatMap_eq_nil_iff.mpr
    intro p hp
    obtain ⟨t, ht', rfl⟩ := (tl_mem _ _ _).mp hp
    have := ht.add i hi t (by omega)
    have hne : ¬ (t = rf i ∧ i < s) := by omega
    unfold gAdd
    rw [this]
    simp [hne]
  have hhead := ht.add i hi (rf i) (Nat.le_refl _)
  have e : qf rf i + 2 * rf i + 1 = qf rf i + 1 + 2 * rf i := by omega
  rw [blk, tl, List.flatMap_cons, hrest, List.append_nil, e]
  unfold gAdd
  rw [hhead]
  by_cases h : i < s
  · have e2 : qf rf i + 1 + 2 * rf i + 1 = qf rf (i + 1) := by rw [qf_succ]; omega
    simp only [h, and_self, decide_true, ↓reduceIte, e2]
    exact TNf2_rpos ht (i + 1) (by omega)
  · simp [h]

theorem BL_flat2 (ht : Ar2Terms data k rf s) : ∀ j, (BL rf s j).flatMap (gAdd data k) ++ blk rf 0 ~ BL rf s (j + 1) := by
  intro j
  induction j with
  | zero => simp [BL]
  | succ j ih =>
    conv => lhs; rw [BL]
    rw [List.flatMap_append, List.append_assoc]
    have hb : (if j ≤ s then blk rf j else []).flatMap (gAdd data k) ~ (if j + 1 ≤ s then blk rf (j + 1) else []) := by
      by_cases h : j ≤ s
      · simp only [h, ↓reduceIte]
        have := blk_flat2 ht j h
        by_cases h' : j < s
        · have h'' : j + 1 ≤ s := h'
          simpa [h', h''] using this
        · have h'' : ¬ j + 1 ≤ s := by omega
          simpa [h', h''] using this
      · have h'' : ¬ j + 1 ≤ s := by omega
        simp [h, h'']
    conv => rhs; rw [BL]
    exact Perm.append hb ih

theorem EN2_rpos (ht : Ar2Terms data k rf s) : ∀ j, (EN2 data k j).map Node.rpos ~ BL rf s j := by
  intro j
  induction j with
  | zero => exact Perm.refl _
  | succ j ih =>
    rw [EN2, List.map_append, List.map_append, pRes2_rpos, pRes2_rpos]
    have h1 := flatMap_append_perm
      (fun p => if fol data 43 p then (TNf2 data k (p + 1)).map Node.rpos else [])
      (fun p => if fol data 45 p then (TNf2 data k (p + 1)).map Node.rpos else [])
      ((EN2 data k j).map Node.rpos)
    have h2 : ((EN2 data k j).map Node.rpos).flatMap (fun p =>
        (if fol data 43 p then (TNf2 data k (p + 1)).map Node.rpos else []) ++
          (if fol data 45 p then (TNf2 data k (p + 1)).map Node.rpos else [])) =
        ((EN2 data k j).map Node.rpos).flatMap (gAdd data k) := by
      congr 1
      funext p
      exact gAdd_split data k p
    rw [h2] at h1
    have h3 := Perm.flatMap_right (gAdd data k) ih
    have h4 := TNf2_rpos ht 0 (Nat.zero_le _)
    exact Perm.trans (Perm.append (Perm.trans h1 h3) h4) (BL_flat2 ht j)

theorem EN2_length (ht : Ar2Terms data k rf s) (j : Nat) : (EN2 data k j).length = pre rf (min j (s + 1)) := by
  rw [← List.length_map (f := Node.rpos), (EN2_rpos ht j).length_eq, BL_length]

theorem blk_add (ht : Ar2Terms data k rf s) (i : Nat) (hi : i ≤ s) :
    ((blk rf i).filter (fun p => fol data 43 p || fol data 45 p)).length = if i < s then 1 else 0 := by
  have hrest : (tl (qf rf i) (rf i)).filter (fun p => fol data 43 p || fol data 45 p) = [] := by
    apply List.filter_eq_nil_iff.mpr
    intro p hp
    obtain ⟨t, ht', rfl⟩ := (tl_mem _ _ _).mp hp
    have := ht.add i hi t (by omega)
    have hne : ¬ (t = rf i ∧ i < s) := by omega
    rw [this]
    simp [hne]
  have hhead := ht.add i hi (rf i) (Nat.le_refl _)
  have e : qf rf i + 2 * rf i + 1 = qf rf i + 1 + 2 * rf i := by omega
  rw [blk, tl, List.filter_cons, hrest, e, hhead]
  by_cases h : i < s <;> simp [h]

theorem BL_add (ht : Ar2Terms data k rf s) : ∀ j,
    ((BL rf s j).filter (fun p => fol data 43 p || fol data 45 p)).length = min j s := by
  intro j
  induction j with
  | zero => simp [BL]
  | succ j ih =>
    rw [BL, List.filter_append, List.length_append, ih]
    by_cases h : j ≤ s
    · simp only [h, ↓reduceIte]
      rw [blk_add ht j h]
      split <;> omega
    · simp only [h, ↓reduceIte, List.filter_nil, List.length_nil]
      omega

/-- the alternatives that `+` follows and those that `-` follows: one per term but the last -/
theorem EN2_add (ht : Ar2Terms data k rf s) (j : Nat) :
    ((EN2 data k j).filter (isOp data 43)).length + ((EN2 data k j).filter (isOp data 45)).length = min j s := by
  rw [filter_op_length, filter_op_length, ← List.length_append]
  have a := filter_or_perm (fol data 43) (fol data 45) (fun p => fol_disjoint data 43 45 p (by omega))
    ((EN2 data k j).map Node.rpos)
  have b := Perm.filter (fun p => fol data 43 p || fol data 45 p) (EN2_rpos ht j)
  rw [(Perm.trans a b).length_eq, BL_add ht]

theorem BL_add_next (ht : Ar2Terms data k rf s) : ∀ j p, p ∈ BL rf s j →
    (fol data 43 p || fol data 45 p) = true → ∃ i, i < min j s ∧ p + 1 = qf rf (i + 1) := by
  intro j
  induction j with
  | zero => intro p hp; cases hp
  | succ j ih =>
    intro p hp h43
    rw [BL, List.mem_append] at hp
    rcases hp with hp | hp
    · by_cases h : j ≤ s
      · simp only [h, ↓reduceIte, blk] at hp
        obtain ⟨t, ht', rfl⟩ := (tl_mem _ _ _).mp hp
        have := ht.add j h t (by omega)
        rw [this] at h43
        simp only [decide_eq_true_eq] at h43
        refine ⟨j, by omega, ?_⟩
        rw [qf_succ, h43.1]; omega
      · simp [h] at hp
    · obtain ⟨i, hi, e⟩ := ih p hp h43
      exact ⟨i, by omega, e⟩

theorem starts_le2 (ht : Ar2Terms data k rf s) : ∀ q ∈ starts rf (s + 1), q ≤ 2 * k + 1 := by
  intro q hq
  obtain ⟨i, hi, rfl⟩ := (starts_mem rf _ _).mp hq
  have := qf_bound2 ht i (by omega)
  omega

theorem EN2_add_next (ht : Ar2Terms data k rf s) (ch : Nat) (hch : ch = 43 ∨ ch = 45) (j : Nat) :
    ∀ x ∈ EN2 data k j, isOp data ch x = true → x.rpos + 1 ∈ starts rf (s + 1) := by
  intro x hx hp
  have hm : x.rpos ∈ BL rf s j := (EN2_rpos ht j).mem_iff.mp (List.mem_map_of_mem hx)
  have hp' : (fol data 43 x.rpos || fol data 45 x.rpos) = true := by
    have : fol data ch x.rpos = true := hp
    rcases hch with rfl | rfl <;> simp [this]
  obtain ⟨i, hi, e⟩ := BL_add_next ht j x.rpos hm hp'
  exact (starts_mem rf _ _).mpr ⟨i + 1, by omega, e⟩

/-! ### the potential -/

def phi2 (data : Bytes) (k : Nat) (K : List CacheEntry) (qs : List Nat) : Nat :=
  (qs.map (tCost2 data k K)).sum

theorem tCost2_tCache2_other (data : Bytes) (k : Nat) (K : List CacheEntry) (q q' : Nat) (hq : q ≤ 2 * k + 1)
    (h : q' ≠ q) : tCost2 data k (tCache2 data k K q) q' = tCost2 data k K q' := by
  unfold tCost2
  rw [look_tCache2_other data k K q hq 1 q' (fun x => h x.2)]

theorem tCost2_tCache2_self (data : Bytes) (k : Nat) (K : List CacheEntry) (q : Nat) (hq : q ≤ 2 * k + 1) :
    tCost2 data k (tCache2 data k K q) q = 0 := by
  cases hl : look K 1 q with
  | some e => simp [tCost2, tCache2, hl]
  | none =>
    have : look (tCache2 data k K q) 1 q = some (TEnt q [] (TNf2 data k q)) := by
      simp only [tCache2, hl]
      rw [look_TKf2 data k q hq]; simp
    simp [tCost2, this]

theorem tCost2_cacheSave_E (data : Bytes) (k : Nat) (K : List CacheEntry) (e : CacheEntry) (he : e.idx = 0) (q : Nat) :
    tCost2 data k (cacheSave K e) q = tCost2 data k K q := by
  unfold tCost2
  rw [look_cacheSave, if_neg (by rw [he]; omega)]

theorem phi2_tCache2_notin (data : Bytes) (k : Nat) (K : List CacheEntry) (q : Nat) (hq : q ≤ 2 * k + 1) :
    ∀ qs, q ∉ qs → phi2 data k (tCache2 data k K q) qs = phi2 data k K qs := by
  intro qs
  induction qs with
  | nil => intro _; rfl
  | cons q' qs ih =>
    intro h
    simp only [List.mem_cons, not_or] at h
    simp only [phi2, List.map_cons, List.sum_cons] at ih ⊢
    rw [tCost2_tCache2_other data k K q q' hq (fun x => h.1 x.symm), ih h.2]

theorem phi2_tCache2 (data : Bytes) (k : Nat) (K : List CacheEntry) (q : Nat) (hq : q ≤ 2 * k + 1) :
    ∀ qs, qs.Nodup → q ∈ qs → tCost2 data k K q + phi2 data k (tCache2 data k K q) qs = phi2 data k K qs := by
  intro qs
  induction qs with
  | nil => intro _ h; cases h
  | cons q' qs ih =>
    intro hnd hm
    obtain ⟨hn1, hn2⟩ := List.nodup_cons.mp hnd
    by_cases h : q = q'
    · subst h
      have := phi2_tCache2_notin data k K q hq qs hn1
      simp only [phi2, List.map_cons, List.sum_cons] at this ⊢
      rw [tCost2_tCache2_self data k K q hq, this]
      omega
    · have hm' : q ∈ qs := by
        rcases List.mem_cons.mp hm with h' | h'
        · exact absurd h' h
        · exact h'
      have := ih hn2 hm'
      simp only [phi2, List.map_cons, List.sum_cons] at this ⊢
      rw [tCost2_tCache2_other data k K q q' hq (fun x => h x.symm)]
      omega

theorem phi2_cacheSave_E (data : Bytes) (k : Nat) (K : List CacheEntry) (e : CacheEntry) (he : e.idx = 0) (qs : List Nat) :
    phi2 data k (cacheSave K e) qs = phi2 data k K qs := by
  unfold phi2
  congr 1
  apply List.map_congr_left
  intro q _
  exact tCost2_cacheSave_E data k K e he q

theorem pot_pCache2 (data : Bytes) (k ch : Nat) (qs : List Nat) (hnd : qs.Nodup) (hqs : ∀ q ∈ qs, q ≤ 2 * k + 1) :
    ∀ (l : List Node), (∀ x ∈ l, isOp data ch x = true → x.rpos + 1 ∈ qs) → ∀ K,
      pCost2 data k ch K l + phi2 data k (pCache2 data k ch K l) qs =
        l.length + (l.filter (isOp data ch)).length + phi2 data k K qs := by
  intro l
  induction l with
  | nil => intro _ K; simp [pCost2, pCache2]
  | cons x l ih =>
    intro hl K
    by_cases hp : isOp data ch x = true
    · have hm := hl x (List.mem_cons_self ..) hp
      have := ih (fun y hy => hl y (List.mem_cons_of_mem _ hy)) (tCache2 data k K (x.rpos + 1))
      have h2 := phi2_tCache2 data k K (x.rpos + 1) (hqs _ hm) qs hnd hm
      simp only [pCost2, pCache2, hp, ↓reduceIte, List.filter_cons, List.length_cons]
      omega
    · have hp2 : isOp data ch x = false := by simpa using hp
      have := ih (fun y hy => hl y (List.mem_cons_of_mem _ hy)) K
      simp only [pCost2, pCache2, hp2, Bool.false_eq_true, ↓reduceIte, List.filter_cons, List.length_cons]
      omega

/-- **the levels of `E`**: calls + potential -/
theorem EC2_pot (ht : Ar2Terms data k rf s) : ∀ J,
    EC2 data k J + phi2 data k (EK2 data k J) (starts rf (s + 1)) =
      ((List.range J).map (fun j => 5 + 2 * pre rf (min j (s + 1)) + min j s)).sum +
        phi2 data k [] (starts rf (s + 1)) := by
  intro J
  induction J with
  | zero => simp [EC2, EK2]
  | succ J ih =>
    have h1 := pot_pCache2 data k 43 (starts rf (s + 1)) (starts_nodup rf _) (starts_le2 ht) (EN2 data k J)
      (EN2_add_next ht 43 (.inl rfl) J) (EK2 data k J)
    have h1' := pot_pCache2 data k 45 (starts rf (s + 1)) (starts_nodup rf _) (starts_le2 ht) (EN2 data k J)
      (EN2_add_next ht 45 (.inr rfl) J) (pCache2 data k 43 (EK2 data k J) (EN2 data k J))
    have h2 := phi2_tCache2 data k
      (pCache2 data k 45 (pCache2 data k 43 (EK2 data k J) (EN2 data k J)) (EN2 data k J)) 1 (by omega)
      (starts rf (s + 1)) (starts_nodup rf _) ((starts_mem rf _ _).mpr ⟨0, by omega, rfl⟩)
    have h3 := EN2_length ht J
    have h4 := EN2_add ht J
    rw [EC2, EK2, phi2_cacheSave_E _ _ _ _ rfl, List.range_succ, List.map_append, List.sum_append]
    simp only [List.map_cons, List.map_nil, List.sum_cons, List.sum_nil]
    omega

theorem tCost2_of_has (data : Bytes) (k : Nat) (K : List CacheEntry) (q : Nat) (h : hasT K q) : tCost2 data k K q = 0 := by
  unfold hasT at h
  unfold tCost2
  cases hl : look K 1 q with
  | some e => rfl
  | none => rw [hl] at h; cases h

theorem has_tCache2 (data : Bytes) (k : Nat) (K : List CacheEntry) (q q' : Nat) (hq : q ≤ 2 * k + 1)
    (h : hasT K q' ∨ q' = q) : hasT (tCache2 data k K q) q' := by
  by_cases e : q' = q
  · subst e
    unfold hasT
    cases hl : look K 1 q' with
    | some x => simp [tCache2, hl]
    | none =>
      simp only [tCache2, hl]
      rw [look_TKf2 data k q' hq]; simp
  · rcases h with h | h
    · unfold hasT
      rw [look_tCache2_other data k K q hq 1 q' (fun x => e x.2)]
      exact h
    · exact absurd h e

theorem has_pCache2 (data : Bytes) (k ch : Nat) : ∀ (l : List Node),
    (∀ x ∈ l, isOp data ch x = true → x.rpos + 1 ≤ 2 * k + 1) → ∀ K q,
    (hasT K q ∨ ∃ x ∈ l, isOp data ch x = true ∧ q = x.rpos + 1) → hasT (pCache2 data k ch K l) q := by
  intro l
  induction l with
  | nil =>
    intro _ K q h
    rcases h with h | ⟨x, hx, _⟩
    · exact h
    · cases hx
  | cons x l ih =>
    intro hl K q h
    by_cases hp : isOp data ch x = true
    · simp only [pCache2, hp, ↓reduceIte]
      apply ih (fun y hy => hl y (List.mem_cons_of_mem _ hy))
      rcases h with h | ⟨y, hy, hy1, hy2⟩
      · exact .inl (has_tCache2 data k K _ q (hl x (List.mem_cons_self ..) hp) (.inl h))
      · rcases List.mem_cons.mp hy with rfl | hy
        · exact .inl (has_tCache2 data k K _ q (hl y (List.mem_cons_self ..) hp) (.inr hy2))
        · exact .inr ⟨y, hy, hy1, hy2⟩
    · have hp2 : isOp data ch x = false := by simpa using hp
      simp only [pCache2, hp2, Bool.false_eq_true, ↓reduceIte]
      apply ih (fun y hy => hl y (List.mem_cons_of_mem _ hy))
      rcases h with h | ⟨y, hy, hy1, hy2⟩
      · exact .inl h
      · rcases List.mem_cons.mp hy with rfl | hy
        · rw [hp2] at hy1; cases hy1
        · exact .inr ⟨y, hy, hy1, hy2⟩

theorem EK2_has (ht : Ar2Terms data k rf s) (j i : Nat) (hi : i < min (j + 1) (s + 1)) :
    hasT (EK2 data k (j + 1)) (qf rf i) := by
  have hle : ∀ ch, ch = 43 ∨ ch = 45 → ∀ x ∈ EN2 data k j, isOp data ch x = true → x.rpos + 1 ≤ 2 * k + 1 := by
    intro ch hch x hx hp
    exact starts_le2 ht _ (EN2_add_next ht ch hch j x hx hp)
  unfold hasT
  rw [EK2, look_cacheSave, if_neg (by simp [EEnt])]
  apply has_tCache2 data k _ 1 (qf rf i) (by omega)
  cases i with
  | zero => exact .inr rfl
  | succ i =>
    left
    have hm := BL_head_mem rf s j i (by omega)
    have hm' := (EN2_rpos ht j).mem_iff.mpr hm
    obtain ⟨x, hx, hxe⟩ := List.mem_map.mp hm'
    have hadd := ht.add i (by omega) (rf i) (Nat.le_refl _)
    have hd : (decide (rf i = rf i ∧ i < s)) = true := by simp; omega
    rw [hd, ← hxe] at hadd
    have hq : qf rf (i + 1) = x.rpos + 1 := by rw [hxe, qf_succ]; omega
    by_cases h43 : fol data 43 x.rpos = true
    · apply has_pCache2 data k 45 _ (hle 45 (.inr rfl))
      left
      apply has_pCache2 data k 43 _ (hle 43 (.inl rfl))
      right
      exact ⟨x, hx, h43, hq⟩
    · have h45 : fol data 45 x.rpos = true := by
        have h43' : fol data 43 x.rpos = false := by simpa using h43
        rw [h43'] at hadd
        simpa using hadd
      apply has_pCache2 data k 45 _ (hle 45 (.inr rfl))
      right
      exact ⟨x, hx, h45, hq⟩

theorem phi2_EK2_zero (ht : Ar2Terms data k rf s) (J : Nat) (hJ : s + 1 ≤ J) :
    phi2 data k (EK2 data k J) (starts rf (s + 1)) = 0 := by
  obtain ⟨j, rfl⟩ : ∃ j, J = j + 1 := ⟨J - 1, by omega⟩
  unfold phi2
  apply sum_zero_of
  intro c hc
  obtain ⟨q, hq, rfl⟩ := List.mem_map.mp hc
  obtain ⟨i, hi, rfl⟩ := (starts_mem rf _ _).mp hq
  exact tCost2_of_has data k _ _ (EK2_has ht j i (by omega))

def firstRuns2 (data : Bytes) (k : Nat) (rf : Nat → Nat) : Nat → Nat
  | 0 => 0
  | m + 1 => TCf2 data k (qf rf m) + firstRuns2 data k rf m

theorem phi2_nil (data : Bytes) (k : Nat) (rf : Nat → Nat) : ∀ m, phi2 data k [] (starts rf m) = firstRuns2 data k rf m := by
  intro m
  induction m with
  | zero => rfl
  | succ m ih =>
    simp only [phi2, starts, List.map_cons, List.sum_cons, firstRuns2] at ih ⊢
    rw [ih]
    rfl

theorem terms_le2 (ht : Ar2Terms data k rf s) : s ≤ k := by
  have := le_pre rf (s + 1)
  rw [ht.total] at this
  omega

/-- **the calls of the spine of `E`** — exactly -/
theorem EC2_exact (ht : Ar2Terms data k rf s) :
    EC2 data k (2 * k + 3) =
      ((List.range (2 * k + 3)).map (fun j => 5 + 2 * pre rf (min j (s + 1)) + min j s)).sum +
        firstRuns2 data k rf (s + 1) := by
  have h := EC2_pot ht (2 * k + 3)
  have hs := terms_le2 ht
  rw [phi2_EK2_zero ht _ (by omega), phi2_nil] at h
  omega

theorem TCf2_le (ht : Ar2Terms data k rf s) (i : Nat) (hi : i ≤ s) :
    TCf2 data k (qf rf i) ≤ (2 * k + 3) * (6 * rf i + 10) := by
  have h1 := TC2_le data (qf rf i) (rf i) (ht.mul i hi) (2 * k + 4 - qf rf i)
  have h2 : 2 * k + 4 - qf rf i ≤ 2 * k + 3 := by unfold qf; omega
  exact Nat.le_trans h1 (Nat.mul_le_mul_right _ h2)

theorem firstRuns2_le (ht : Ar2Terms data k rf s) : ∀ m, m ≤ s + 1 →
    firstRuns2 data k rf m ≤ (2 * k + 3) * (6 * pre rf m + 4 * m) := by
  intro m
  induction m with
  | zero => intro _; simp [firstRuns2]
  | succ m ih =>
    intro hm
    have h1 := ih (by omega)
    have h2 := TCf2_le ht m (by omega)
    have e : 6 * pre rf (m + 1) + 4 * (m + 1) = (6 * rf m + 10) + (6 * pre rf m + 4 * m) := by
      rw [pre]; omega
    rw [firstRuns2, e, Nat.mul_add]
    omega

/-- **at most (2k+3)(13k+17) calls in the spine of `E`** -/
theorem EC2_le (ht : Ar2Terms data k rf s) : EC2 data k (2 * k + 3) ≤ (2 * k + 3) * (13 * k + 17) := by
  have hs := terms_le2 ht
  have h1 : ((List.range (2 * k + 3)).map (fun j => 5 + 2 * pre rf (min j (s + 1)) + min j s)).sum ≤
      (2 * k + 3) * (3 * k + 7) := by
    apply sum_range_le
    intro j _
    have := pre_mono rf (min j (s + 1)) (s + 1) (Nat.min_le_right _ _)
    rw [ht.total] at this
    omega
  have h2 := firstRuns2_le ht (s + 1) (Nat.le_refl _)
  rw [ht.total] at h2
  have h3 : (2 * k + 3) * (6 * (k + 1) + 4 * (s + 1)) ≤ (2 * k + 3) * (10 * k + 10) :=
    Nat.mul_le_mul_left _ (by omega)
  have e : (2 * k + 3) * (13 * k + 17) = (2 * k + 3) * (3 * k + 7) + (2 * k + 3) * (10 * k + 10) := by
    rw [← Nat.mul_add]; congr 1; omega
  rw [EC2_exact ht, e]
  omega

/-! ### the parse -/

theorem split_first {α : Type} (P : α → Prop) [DecidablePred P] : ∀ l : List α, (∃ x ∈ l, P x) →
    ∃ pre h rest, l = pre ++ h :: rest ∧ P h ∧ ∀ y ∈ pre, ¬ P y := by
  intro l
  induction l with
  | nil => rintro ⟨x, hx, _⟩; cases hx
  | cons a l ih =>
    intro hex
    by_cases ha : P a
    · exact ⟨[], a, l, rfl, ha, fun y hy => by cases hy⟩
    · have : ∃ x ∈ l, P x := by
        obtain ⟨x, hx, hp⟩ := hex
        rcases List.mem_cons.mp hx with rfl | hx
        · exact absurd hp ha
        · exact ⟨x, hx, hp⟩
      obtain ⟨pre, h, rest, e, hp, hn⟩ := ih this
      refine ⟨a :: pre, h, rest, by rw [e]; rfl, hp, ?_⟩
      intro y hy
      rcases List.mem_cons.mp hy with rfl | hy
      · exact ha
      · exact hn y hy

variable {cfg : Cfg}

/-- **family 8 on any input `1 o₁ 1 … o_k 1`**: the parse succeeds; its calls are those of the spine of `E`
    (`EC2_exact`, `EC2_le`), one for the element of Sentence, and one `End` per alternative up to the first that spans
    the input (at most k+1) -/
theorem ar2_parse (hc : IsAr2 k cfg) (ht : Ar2Terms cfg.file.data k rf s) :
    ∃ p, parse cfg (24 * k + 44) (G.sentence (.ref 0)) = some p ∧ p.err = none ∧ p.res.isNil = false ∧
      EC2 cfg.file.data k (2 * k + 3) + 2 ≤ p.st.calls ∧ p.st.calls ≤ EC2 cfg.file.data k (2 * k + 3) + k + 2 := by
  have hpos : cfg.file.pos 0 = 1 := by simp [File.pos, hc.off]
  obtain ⟨s1, h1, h2, _⟩ := ar2_E_level hc (2 * k + 3) 0 (by omega) ({} : St).regCall rfl
  have hne : 2 * k + 3 ≠ 0 := by omega
  simp only [hne, ↓reduceIte] at h1
  have href : run cfg (24 * k + 40 + 3) (.ref 0) [] 1 ({} : St).regCall =
      some (⟨resOf (EN2 cfg.file.data k (2 * k + 3)), [0, 1], none⟩, s1) := by
    rw [run_ref hc.max (24 * k + 40 + 2) 0 ar2E (by rw [hc.env]; rfl)]
    exact run_mono cfg (12 * k + 24 + 6 * (2 * k + 3)) (24 * k + 40 + 2) (by omega) _ _ _ _ _ h1
  have hs := terms_le2 ht
  -- an alternative that spans the input
  have hmem : 2 * k + 2 ∈ BL rf s (2 * k + 3) := by
    have := BL_head_mem rf s (2 * k + 3) s (by omega)
    have hq := ht.total
    rw [pre] at hq
    have e : qf rf s + 1 + 2 * rf s = 2 * k + 2 := by unfold qf; omega
    rw [e] at this
    exact this
  have hmem' := (EN2_rpos ht (2 * k + 3)).mem_iff.mpr hmem
  obtain ⟨x0, hx0, hx0e⟩ := List.mem_map.mp hmem'
  obtain ⟨pre', h, rest, hL, hh, hpre⟩ := split_first (fun x : Node => x.rpos = 2 * k + 2) _ ⟨x0, hx0, hx0e⟩
  have hlen : cfg.file.len = 2 * k + 1 := hc.len
  have heof : isEOF cfg.file h.rpos = true := by
    simp only [isEOF, hc.off, hh, hlen]
    simp
  have hgood := EN2_good hc (2 * k + 3)
  obtain ⟨o, st', r1, r2, r3, r4⟩ := sentence_skip hc.max (24 * k + 40) (.ref 0) 1 {} _ _ _ none pre' h rest
    href (by rw [resOf_alts, hL])
    (fun y hy => by
      have hg := hgood y (by rw [hL]; exact List.mem_append_left _ hy)
      have hny := hpre y hy
      refine ⟨hg.1, ?_⟩
      simp only [isEOF, hc.off, hlen]
      have : y.rpos ≤ 2 * k + 2 := hg.2.2.1
      simp; omega)
    (by omega) heof
  have := parse_of_run (cfg := cfg) (24 * k + 44) (G.sentence (.ref 0)) o st' (by rw [hpos]; exact r1) r2 r3
  have hl : pre'.length + 1 ≤ k + 1 := by
    have h3 := EN2_length ht (2 * k + 3)
    rw [hL, List.length_append, List.length_cons] at h3
    have := pre_mono rf (min (2 * k + 3) (s + 1)) (s + 1) (Nat.min_le_right _ _)
    rw [ht.total] at this
    omega
  refine ⟨_, this, rfl, r2, ?_, ?_⟩
  · show _ ≤ st'.calls
    rw [r4, h2]; simp [St.regCall]; omega
  · show st'.calls ≤ _
    rw [r4, h2]; simp [St.regCall]; omega
