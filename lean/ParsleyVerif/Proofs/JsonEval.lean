/-
  C16, evaluation of JSON trees: every JSON tree denotes a JSON value, and evaluates — with every custom
  interpreter table, for every fuel — to the evaluator value of that JSON value, unless the fuel runs out.
-/
import ParsleyVerif.Spec.JsonSem
import ParsleyVerif.Proofs.Walk
namespace PV
open PV.Text

/-! ### lists -/

theorem everySecond_map {α β} (g : α → β) : ∀ l : List α, everySecond (l.map g) = (everySecond l).map g
  | [] => rfl
  | [_] => rfl
  | a :: _ :: rest => by simp [everySecond, everySecond_map g rest]

theorem mem_everySecond {α} {l : List α} {x : α} (h : x ∈ everySecond l) : ∃ i, l[i]? = some x ∧ i % 2 = 0 := by
  obtain ⟨j, hj⟩ := List.mem_iff_getElem?.mp h
  rw [everySecond_getElem?] at hj
  exact ⟨2 * j, hj, by omega⟩

theorem jvalOfList_eq : ∀ cs : List Node, jvalOfList cs = cs.map jvalOf
  | [] => by simp [jvalOfList]
  | c :: cs => by simp [jvalOfList, jvalOfList_eq cs]

theorem jkvOfList_eq : ∀ cs : List Node, jkvOfList cs = cs.map jkvOf
  | [] => by simp [jkvOfList]
  | c :: cs => by simp [jkvOfList, jkvOfList_eq cs]

/-- pointwise relation of two lists -/
inductive Forall2 {α β} (P : α → β → Prop) : List α → List β → Prop
  | nil : Forall2 P [] []
  | cons {a b l₁ l₂} : P a b → Forall2 P l₁ l₂ → Forall2 P (a :: l₁) (b :: l₂)

theorem forall2_of_mem {α β} {P : α → β → Prop} : ∀ (L : List α), (∀ n ∈ L, ∃ j, P n j) → ∃ js, Forall2 P L js
  | [], _ => ⟨[], .nil⟩
  | a :: L, h => by
    obtain ⟨j, hj⟩ := h a (by simp)
    obtain ⟨js, hjs⟩ := forall2_of_mem L (fun n hn => h n (by simp [hn]))
    exact ⟨j :: js, .cons hj hjs⟩

theorem allSome_map {α β} {g : α → Option β} {P : α → β → Prop} (hP : ∀ a b, P a b → g a = some b) :
    ∀ {L : List α} {js : List β}, Forall2 P L js → allSome (L.map g) = some js
  | _, _, .nil => rfl
  | _, _, .cons h t => by simp [allSome, hP _ _ h, allSome_map hP t]

/-! ### outcomes -/

/-- the value of `j`, or out of fuel (and then the fuel does not exceed the depth) -/
def JsonOutcome (x : Node) (j : JVal) (fuel : Nat) (o : EvalOut) : Prop :=
  o = .ok (denote j) ∨ (o = .panic "out of fuel" ∧ fuel ≤ x.depth)

/-- `x` denotes `j` and evaluates accordingly -/
def JsonGood (ce : CustomEval) (x : Node) (j : JVal) : Prop :=
  jvalOf x = some j ∧ ∀ fuel, JsonOutcome x j fuel (evalNode ce fuel x)

theorem evalSeq_good (ce : CustomEval) (k : Nat) : ∀ {L : List Node} {js : List JVal}, Forall2 (JsonGood ce) L js →
    evalSeq (evalNode ce k) L = .ok (denoteList js) ∨
    (evalSeq (evalNode ce k) L = .error (.panic "out of fuel") ∧ ∃ n ∈ L, k ≤ n.depth)
  | _, _, .nil => .inl rfl
  | _, _, .cons (a := n) (l₁ := L) h t => by
    simp only [evalSeq]
    rcases h.2 k with h1 | ⟨h1, h2⟩
    · rcases evalSeq_good ce k t with h3 | ⟨h3, m, hm, hk⟩
      · exact .inl (by simp [h1, h3, EvalOut.toExcept, denoteList])
      · exact .inr ⟨by simp [h1, h3, EvalOut.toExcept], m, by simp [hm], hk⟩
    · exact .inr ⟨by simp [h1, EvalOut.toExcept], n, by simp, h2⟩

/-- a key/value node denotes a member and evaluates accordingly -/
def KvGood (ce : CustomEval) (n : Node) (kj : Bytes × JVal) : Prop :=
  jkvOf n = some kj ∧ ∀ k, kvOf (evalNode ce k) n = .ok (kj.1, denote kj.2) ∨
    (kvOf (evalNode ce k) n = .error (.panic "out of fuel") ∧ k + 1 ≤ n.depth + 1 ∧ k ≤ n.depth)

theorem kvSeq_good (ce : CustomEval) (k : Nat) : ∀ {L : List Node} {kjs : List (Bytes × JVal)}, Forall2 (KvGood ce) L kjs →
    kvSeq (evalNode ce k) L = .ok (denotePairs kjs) ∨
    (kvSeq (evalNode ce k) L = .error (.panic "out of fuel") ∧ ∃ n ∈ L, k ≤ n.depth)
  | _, _, .nil => .inl rfl
  | _, _, .cons (a := n) (b := kj) (l₁ := L) h t => by
    simp only [kvSeq]
    rcases h.2 k with h1 | ⟨h1, _, h2⟩
    · rcases kvSeq_good ce k t with h3 | ⟨h3, m, hm, hk⟩
      · refine .inl ?_
        obtain ⟨kk, jj⟩ := kj
        simp [h1, h3, denotePairs]
      · exact .inr ⟨by simp [h1, h3], m, by simp [hm], hk⟩
    · exact .inr ⟨by simp [h1], n, by simp, h2⟩

theorem kv_good (ce : CustomEval) (tk tok kb : Bytes) (kp kr : Nat) (colon v : Node) (p q : Nat) (i : Interp) (jv : JVal)
    (hc : colon.depth = 0) (hv : JsonGood ce v jv) :
    KvGood ce (.nt tk [.term tok (.str kb) kp kr, colon, v] p q i) (kb, jv) := by
  refine ⟨?_, ?_⟩
  · simp [jkvOf, jvalOfList, hv.1]
  · intro k
    have hd : (Node.nt tk [.term tok (.str kb) kp kr, colon, v] p q i).depth = v.depth + 1 := by
      simp [Node.depth, depthAll, hc]
    simp only [kvOf, List.getElem?_cons_zero, List.getElem?_cons_succ, Option.elim]
    cases k with
    | zero => exact .inr ⟨by simp [evalNode, EvalOut.toExcept], by omega, by omega⟩
    | succ k' =>
      rcases hv.2 (k' + 1) with h1 | ⟨h1, h2⟩
      · exact .inl (by simp [evalNode, EvalOut.toExcept, h1, Val.toV])
      · exact .inr ⟨by simp [evalNode, EvalOut.toExcept, h1, Val.toV], by omega, by omega⟩

theorem leaf_depth (tok : Bytes) (v : Val) (p r : Nat) : (Node.term tok v p r).depth = 0 := by simp [Node.depth]

theorem runeLeaf_depth {f : File} {c : Nat} {x : Node} (h : IsRuneLeaf f c x) : x.depth = 0 := by
  obtain ⟨p, r, rfl, _⟩ := h
  exact leaf_depth ..

theorem depth_wrap (tk tk2 : Bytes) (lb rb : Node) (cs : List Node) (p2 q2 p q : Nat) (i2 i : Interp)
    (hl : lb.depth = 0) (hr : rb.depth = 0) :
    (Node.nt tk [lb, .nt tk2 cs p2 q2 i2, rb] p q i).depth = depthAll cs + 2 := by
  simp [Node.depth, depthAll, hl, hr]

theorem jvalOf_select1 (tk : Bytes) (a b c : Node) (p q : Nat) :
    jvalOf (.nt tk [a, b, c] p q (.select 1)) = jvalOf b := by
  simp [jvalOf, jvalOfList]

/-- **every JSON tree denotes a JSON value and evaluates to it** (or the fuel runs out) -/
theorem json_good (ce : CustomEval) {f : File} {x : Node} (h : IsJsonTree f x) : ∃ j, JsonGood ce x j := by
  induction h with
  | @str tok s p r =>
    refine ⟨.str s, by simp [jvalOf], fun fuel => ?_⟩
    cases fuel with
    | zero => exact .inr ⟨rfl, Nat.zero_le _⟩
    | succ k => exact .inl (by simp [evalNode, Val.toV, denote])
  | @float tok s p r =>
    refine ⟨.float s, by simp [jvalOf], fun fuel => ?_⟩
    cases fuel with
    | zero => exact .inr ⟨rfl, Nat.zero_le _⟩
    | succ k => exact .inl (by simp [evalNode, Val.toV, denote])
  | @int tok s p r =>
    refine ⟨.int s, by simp [jvalOf], fun fuel => ?_⟩
    cases fuel with
    | zero => exact .inr ⟨rfl, Nat.zero_le _⟩
    | succ k => exact .inl (by simp [evalNode, Val.toV, denote])
  | @bool tok s p r =>
    refine ⟨.bool s, by simp [jvalOf], fun fuel => ?_⟩
    cases fuel with
    | zero => exact .inr ⟨rfl, Nat.zero_le _⟩
    | succ k => exact .inl (by simp [evalNode, Val.toV, denote])
  | @null tok p r =>
    refine ⟨.null, by simp [jvalOf], fun fuel => ?_⟩
    cases fuel with
    | zero => exact .inr ⟨rfl, Nat.zero_le _⟩
    | succ k => exact .inl (by simp [evalNode, Val.toV, denote])
  | @arr tk lb tk2 elems p2 q2 rb p q hlb hrb _ _ _ ih =>
    obtain ⟨js, hjs⟩ := forall2_of_mem (P := JsonGood ce) (everySecond elems) (fun n hn => by
      obtain ⟨i, hi, hpar⟩ := mem_everySecond hn
      exact ih i n hi hpar)
    have hval : jvalOf (.nt tk2 elems p2 q2 .array) = some (.arr js) := by
      simp only [jvalOf, jvalOfList_eq, everySecond_map]
      rw [allSome_map (P := JsonGood ce) (fun a b hab => hab.1) hjs]
      rfl
    have hdep := depth_wrap tk tk2 lb rb elems p2 q2 p q .array (.select 1) (runeLeaf_depth hlb) (runeLeaf_depth hrb)
    refine ⟨.arr js, ?_, fun fuel => ?_⟩
    · rw [jvalOf_select1, hval]
    · rw [JsonOutcome, hdep]
      match fuel with
      | 0 => exact .inr ⟨rfl, Nat.zero_le _⟩
      | 1 => exact .inr ⟨by simp [evalNode], by omega⟩
      | k + 2 =>
        have he : evalNode ce (k + 2) (.nt tk [lb, .nt tk2 elems p2 q2 .array, rb] p q (.select 1)) =
            EvalOut.ofExcept (fun vs => .arr ([] ++ vs)) (evalSeq (evalNode ce k) (everySecond elems)) := by
          simp [evalNode, evalArray_spec]
        rw [he]
        rcases evalSeq_good ce k hjs with h1 | ⟨h1, n, hn, hk⟩
        · exact .inl (by simp [h1, EvalOut.ofExcept, denote])
        · refine .inr ⟨by simp [h1, EvalOut.ofExcept], ?_⟩
          have := depth_le_depthAll (everySecond_subset _ _ hn)
          omega
  | @obj tk lb tk2 mems p2 q2 rb p q hlb hrb _ _ hkv _ ih =>
    obtain ⟨kjs, hkjs⟩ := forall2_of_mem (P := KvGood ce) (everySecond mems) (fun n hn => by
      obtain ⟨i, hi, hpar⟩ := mem_everySecond hn
      obtain ⟨tk3, tok, kb, kp, kr, colon, v, p3, q3, rfl, hcolon⟩ := hkv i n hi hpar
      obtain ⟨jv, hjv⟩ := ih i _ _ _ _ _ _ _ hi hpar
      exact ⟨(kb, jv), kv_good ce _ _ _ _ _ _ _ _ _ _ _ (runeLeaf_depth hcolon) hjv⟩)
    have hval : jvalOf (.nt tk2 mems p2 q2 .object) = some (.obj kjs) := by
      simp only [jvalOf, jkvOfList_eq, everySecond_map]
      rw [allSome_map (P := KvGood ce) (fun a b hab => hab.1) hkjs]
      rfl
    have hdep := depth_wrap tk tk2 lb rb mems p2 q2 p q .object (.select 1) (runeLeaf_depth hlb) (runeLeaf_depth hrb)
    refine ⟨.obj kjs, ?_, fun fuel => ?_⟩
    · rw [jvalOf_select1, hval]
    · rw [JsonOutcome, hdep]
      match fuel with
      | 0 => exact .inr ⟨rfl, Nat.zero_le _⟩
      | 1 => exact .inr ⟨by simp [evalNode], by omega⟩
      | k + 2 =>
        have he : evalNode ce (k + 2) (.nt tk [lb, .nt tk2 mems p2 q2 .object, rb] p q (.select 1)) =
            EvalOut.ofExcept (fun kvs => .obj (kvs.foldl (fun m kv => objSet m kv.1 kv.2) []))
              (kvSeq (evalNode ce k) (everySecond mems)) := by
          simp [evalNode, evalObject_spec]
        rw [he]
        rcases kvSeq_good ce k hkjs with h1 | ⟨h1, n, hn, hk⟩
        · exact .inl (by simp [h1, EvalOut.ofExcept, denote, mapOfPairs])
        · refine .inr ⟨by simp [h1, EvalOut.ofExcept], ?_⟩
          have := depth_le_depthAll (everySecond_subset _ _ hn)
          omega

end PV
