/-
  C01 with trims (prefix C1T): value-level facts about SkipWhitespaces / SetReaderPos and about the ends of
  text.LeftTrim / text.RightTrim, shared by the soundness and the completeness induction.
-/
import ParsleyVerif.Spec.DerivesW
import ParsleyVerif.Proofs.RunCompleteBasics
import ParsleyVerif.Proofs.RunSound
import ParsleyVerif.Proofs.RunEqns
import ParsleyVerif.Proofs.WFTCons
import ParsleyVerif.Proofs.Trim
namespace PV.C1T
open PV PV.Text

/-! ### `G.All` -/

theorem All_memo {P : G → Prop} {i : Nat} {g : G} (h : (G.memo i g).All P) : g.All P := by
  simp only [G.All] at h; exact h.2
theorem All_any {P : G → Prop} {gs : List G} (h : (G.any gs).All P) : ∀ g ∈ gs, g.All P := by
  simp only [G.All] at h; exact AllList_mem h.2
theorem All_optional {P : G → Prop} {g : G} (h : (G.optional g).All P) : g.All P := by
  simp only [G.All] at h; exact h.2
theorem All_ltrim {P : G → Prop} {g : G} {m : WsMode} (h : (G.ltrim g m).All P) : g.All P := by
  simp only [G.All] at h; exact h.2
theorem All_rtrim {P : G → Prop} {g : G} {m : WsMode} (h : (G.rtrim g m).All P) : g.All P := by
  simp only [G.All] at h; exact h.2

/-! ### SkipWhitespaces -/

theorem skip_spacesNl (f : File) (pos : Nat) : (skipWhitespaces f pos .spacesNl).2 = none := by
  unfold skipWhitespaces
  simp

theorem wsRun_drop_self (l : Bytes) : wsRun (l.drop (wsRun l)) = 0 := by
  unfold wsRun
  induction l with
  | nil => simp
  | cons b r ih =>
    by_cases hw : isWs b = true
    · simp only [List.takeWhile_cons, hw, ↓reduceIte, List.length_cons, List.drop_succ_cons]
      exact ih
    · simp [hw]

theorem skip_fst_eq (f : File) (pos : Nat) (m : WsMode) (h : InFile f pos) :
    (skipWhitespaces f pos m).1 = pos + wsRun (rest f pos) := by
  rw [PV.WFT.skipWs_fst]
  obtain ⟨h1, h2⟩ := h
  unfold File.pos
  omega

/-- after the maximal run there is no whitespace left: a second skip (any mode) stays where it is -/
theorem skip_idem (f : File) (pos : Nat) (m m' : WsMode) (h : InFile f pos) :
    (skipWhitespaces f (skipWhitespaces f pos m).1 m').1 = (skipWhitespaces f pos m).1 := by
  have hb := PV.WFT.skipWs_bounds f pos m h
  have hin' : InFile f (skipWhitespaces f pos m).1 := ⟨by have := h.1; omega, hb.2⟩
  rw [skip_fst_eq f _ m' hin', skip_fst_eq f pos m h, rest_add_c10 f pos _ h, wsRun_drop_self]
  rfl

/-- where no whitespace is left, a skip (any mode) stays where it is -/
theorem skip_fix (f : File) (pos : Nat) (m m' : WsMode) (h : InFile f pos)
    (hfix : (skipWhitespaces f pos m).1 = pos) : (skipWhitespaces f pos m').1 = pos := by
  rw [skip_fst_eq f pos m h] at hfix
  rw [skip_fst_eq f pos m' h]
  exact hfix

/-! ### SetReaderPos -/

theorem moved_token (cfg : Cfg) (m : WsMode) (x : Node) : (moved cfg m x).token = x.token := by
  cases x <;> simp [moved, setRposNode, Node.token]

/-- not an EndNode (the one node type whose SetReaderPos does nothing) -/
def NotEof (x : Node) : Prop := ∀ p, x ≠ .eof p

theorem NotEof_of_token {x : Node} (h : x.token ≠ eofTok) : NotEof x := by
  intro p hp; subst hp; exact h rfl

theorem moved_rpos (cfg : Cfg) (m : WsMode) (x : Node) (h : NotEof x) :
    (moved cfg m x).rpos = (skipWhitespaces cfg.file x.rpos m).1 := by
  cases x with
  | eof p => exact absurd rfl (h p)
  | term _ _ _ _ => simp [moved, setRposNode, Node.rpos]
  | empty _ => simp [moved, setRposNode, Node.rpos]
  | nt _ _ _ _ _ => simp [moved, setRposNode, Node.rpos]

theorem movedErr_eq (cfg : Cfg) (m : WsMode) (x : Node) (h : NotEof x) :
    movedErr cfg m x = wsToErr (skipWhitespaces cfg.file x.rpos m).2 := by
  cases x with
  | eof p => exact absurd rfl (h p)
  | term _ _ _ _ => simp [movedErr, setRposNode, Node.rpos]
  | empty _ => simp [movedErr, setRposNode, Node.rpos]
  | nt _ _ _ _ _ => simp [movedErr, setRposNode, Node.rpos]

theorem moved_notEof (cfg : Cfg) (m : WsMode) (x : Node) (h : NotEof x) : NotEof (moved cfg m x) := by
  cases x with
  | eof p => exact absurd rfl (h p)
  | term _ _ _ _ => intro p hp; simp [moved, setRposNode] at hp
  | empty _ => intro p hp; simp [moved, setRposNode] at hp
  | nt _ _ _ _ _ => intro p hp; simp [moved, setRposNode] at hp

theorem handleResult_notEof (sh : SeqShape) (p : Nat) (nodes : List Node) (h : ∀ n ∈ nodes, NotEof n) :
    NotEof (handleResult sh p nodes) := by
  cases nodes with
  | nil => intro q hq; simp [handleResult] at hq
  | cons n rest =>
    cases rest with
    | nil =>
      by_cases hs : sh.single = true
      · simp only [handleResult, hs, ↓reduceIte]; exact h n (List.mem_cons_self ..)
      · intro q hq; simp [handleResult, hs] at hq
    | cons m rest => intro q hq; simp [handleResult] at hq

theorem movedErr_spacesNl (cfg : Cfg) (x : Node) : movedErr cfg .spacesNl x = none := by
  cases x <;> simp [movedErr, setRposNode, skip_spacesNl, wsToErr]

theorem setRposNode_snd_spacesNl (f : File) (n : Node) : (setRposNode f .spacesNl n none).2 = none := by
  cases n <;> simp [setRposNode, skip_spacesNl, wsToErr]

theorem setRposNode_snd (f : File) (m : WsMode) (n : Node) (ws : Option Err) (h : n.token ≠ eofTok) :
    (setRposNode f m n ws).2 = (setRposNode f m n none).2 := by
  cases n with
  | eof p => exact absurd rfl h
  | term _ _ _ _ => simp [setRposNode]
  | empty _ => simp [setRposNode]
  | nt _ _ _ _ _ => simp [setRposNode]

theorem mem_setRposList_of_mem (f : File) (m : WsMode) : ∀ (l : List Node) (ws : Option Err) (x : Node),
    x ∈ l → (setRposNode f m x none).1 ∈ (setRposList f m l ws).1
  | [], _, _, h => by cases h
  | n :: rest, ws, x, h => by
    simp only [setRposList]
    cases h with
    | head => rw [setRposNode_fst f m n ws]; exact List.mem_cons_self ..
    | tail _ hm => exact List.mem_cons_of_mem _ (mem_setRposList_of_mem f m rest _ x hm)

/-- SetReaderPos keeps every alternative (moved) -/
theorem mem_setRposRes_of_mem (f : File) (m : WsMode) (r : Res) (x : Node) (h : x ∈ r.alts) :
    (setRposNode f m x none).1 ∈ (setRposRes f m r).1.alts := by
  cases r with
  | nil => cases h
  | one n =>
    simp only [Res.alts, List.mem_singleton] at h
    subst h
    simp [setRposRes, Res.alts]
  | list l =>
    simp only [Res.alts] at h
    simp only [setRposRes, Res.alts]
    exact mem_setRposList_of_mem f m l none x h

theorem setRposList_snd_spacesNl (f : File) : ∀ (l : List Node), (setRposList f .spacesNl l none).2 = none
  | [] => rfl
  | n :: rest => by
    simp only [setRposList]
    have h1 : (setRposNode f .spacesNl n none).2 = none := setRposNode_snd_spacesNl f n
    rw [h1]
    exact setRposList_snd_spacesNl f rest

/-- WsSpacesNl never rejects -/
theorem setRposRes_snd_spacesNl (f : File) (r : Res) : (setRposRes f .spacesNl r).2 = none := by
  cases r with
  | nil => rfl
  | one n => simp only [setRposRes]; exact setRposNode_snd_spacesNl f n
  | list l => simp only [setRposRes]; exact setRposList_snd_spacesNl f l

/-- with at most one alternative, the verdict SetReaderPos leaves behind is that alternative's -/
theorem setRposRes_snd_one (f : File) (m : WsMode) (r : Res) (x : Node) (hx : x ∈ r.alts) (hlen : r.alts.length ≤ 1) :
    (setRposRes f m r).2 = (setRposNode f m x none).2 := by
  cases r with
  | nil => cases hx
  | one n =>
    simp only [Res.alts, List.mem_singleton] at hx
    subst hx
    simp [setRposRes]
  | list l =>
    simp only [Res.alts] at hx hlen
    cases l with
    | nil => cases hx
    | cons n rest =>
      cases rest with
      | nil =>
        simp only [List.mem_singleton] at hx
        subst hx
        simp [setRposRes, setRposList]
      | cons n2 rest2 => simp at hlen

theorem length_setRposList (f : File) (m : WsMode) : ∀ (l : List Node) (ws : Option Err),
    (setRposList f m l ws).1.length = l.length
  | [], _ => rfl
  | n :: rest, ws => by simp only [setRposList, List.length_cons]; rw [length_setRposList f m rest]

theorem length_setRposRes (f : File) (m : WsMode) (r : Res) : (setRposRes f m r).1.alts.length = r.alts.length := by
  cases r with
  | nil => rfl
  | one n => simp [setRposRes, Res.alts]
  | list l => simp only [setRposRes, Res.alts]; exact length_setRposList f m l none

theorem isNil_setRposRes (f : File) (m : WsMode) (r : Res) : (setRposRes f m r).1.isNil = r.isNil := by
  cases r <;> simp [setRposRes, Res.isNil]

/-! ### the end of text.RightTrim -/

/-- the end of text.RightTrim, after the operand answered `o` -/
def rtrimFinish (cfg : Cfg) (m : WsMode) (o : Out) : Out :=
  match o.err with
  | some e =>
    ⟨o.res, o.cp, some (if !e.kind.isWs && (skipWhitespaces cfg.file e.pos m).1 > e.pos
      then ⟨(skipWhitespaces cfg.file e.pos m).1, e.kind⟩ else e)⟩
  | none =>
    match (setRposRes cfg.file m o.res).2 with
    | some w => ⟨.nil, [], some w⟩
    | none => ⟨(setRposRes cfg.file m o.res).1, o.cp, none⟩

theorem run_rtrim_eq (cfg : Cfg) (fuel : Nat) (g : G) (m : WsMode) (ctx : Ctx) (pos : Nat) (st : St) :
    run cfg (fuel + 1) (.rtrim g m) ctx pos st =
      if cfg.maxCalls ≠ 0 ∧ st.calls > cfg.maxCalls then none else
      match run cfg fuel g ctx pos st with
      | none => none
      | some (o, st1) => some (rtrimFinish cfg m o, st1) := by
  conv => lhs; unfold run
  by_cases hb : cfg.maxCalls ≠ 0 ∧ st.calls > cfg.maxCalls
  · rw [if_pos hb, if_pos hb]
  · rw [if_neg hb, if_neg hb]
    cases hr : run cfg fuel g ctx pos st with
    | none => simp only [hr]
    | some r =>
      obtain ⟨o, st1⟩ := r
      simp only [hr, rtrimFinish]
      cases ho : o.err with
      | some e => rfl
      | none =>
        simp only
        cases hs : setRposRes cfg.file m o.res with
        | mk res' ws =>
          cases ws with
          | some w => rfl
          | none => rfl

/-! ### "never a result together with an error", "at most one alternative" -/

/-- what the scope predicates promise about an answer -/
def OutShape (cfg : Cfg) (g : G) (o : Out) : Prop :=
  (ErrFree cfg g → o.res.isNil = false → o.err = none) ∧ (OneAlt g → o.res.alts.length ≤ 1)

theorem ErrFree_of_top (cfg : Cfg) : ∀ g : G, ErrFreeTop g → ErrFree cfg g
  | .term _, _ => trivial
  | .empty, _ => trivial
  | .any _, _ => trivial
  | .seq .seqOf _ _, _ => trivial
  | .memo _ g, h => by simp only [ErrFreeTop] at h; simp only [ErrFree]; exact ErrFree_of_top cfg g h
  | .ltrim g _, h => by simp only [ErrFreeTop] at h; simp only [ErrFree]; exact ErrFree_of_top cfg g h
  | .rtrim g _, h => by simp only [ErrFreeTop] at h; simp only [ErrFree]; exact ErrFree_of_top cfg g h
  | .seq .seqTry _ _, h => by simp [ErrFreeTop] at h
  | .seq .seqFirstOrAll _ _, h => by simp [ErrFreeTop] at h
  | .eof, h => by simp [ErrFreeTop] at h
  | .ref _, h => by simp [ErrFreeTop] at h
  | .choice _, h => by simp [ErrFreeTop] at h
  | .many _ _ _, h => by simp [ErrFreeTop] at h
  | .sepBy _ _ _ _, h => by simp [ErrFreeTop] at h
  | .optional _, h => by simp [ErrFreeTop] at h
  | .name _ _, h => by simp [ErrFreeTop] at h
  | .single _, h => by simp [ErrFreeTop] at h
  | .suppress _, h => by simp [ErrFreeTop] at h

theorem ltrimFinish_res_eq (pos pos' : Nat) (wsErr : Option Err) (o : Out) (st : St) :
    (ltrimFinish pos pos' wsErr o st).1.res = o.res ∨ (ltrimFinish pos pos' wsErr o st).1.res = .nil := by
  unfold ltrimFinish
  simp only
  cases o.err with
  | none =>
    cases wsErr with
    | none => exact .inl rfl
    | some w => exact .inr rfl
  | some e =>
    cases wsErr with
    | none => exact .inl rfl
    | some w =>
      simp only
      split
      · exact .inr rfl
      · split
        · exact .inl rfl
        · exact .inl rfl

/-- an accepted run: LeftTrim hands the operand's alternatives and curtailing set on -/
theorem ltrimFinish_ok (pos pos' : Nat) (o : Out) (st : St) :
    (ltrimFinish pos pos' none o st).1.res = o.res ∧ (ltrimFinish pos pos' none o st).1.cp = o.cp := by
  unfold ltrimFinish
  simp only
  cases o.err <;> exact ⟨rfl, rfl⟩

/-- a rejected run over an operand that never answers a result with an error: no result -/
theorem ltrimFinish_reject (pos pos' : Nat) (w : Err) (o : Out) (st : St) (h : o.res.isNil = false → o.err = none) :
    (ltrimFinish pos pos' (some w) o st).1.res.alts = [] := by
  unfold ltrimFinish
  simp only
  cases he : o.err with
  | none => rfl
  | some e =>
    have hn : o.res.isNil = true := by
      cases hh : o.res.isNil with
      | true => rfl
      | false => have := h hh; rw [he] at this; cases this
    simp only
    split
    · rfl
    · split
      · exact alts_nil_of_isNil hn
      · exact alts_nil_of_isNil hn

theorem ltrimFinish_errfree (pos pos' : Nat) (wsErr : Option Err) (o : Out) (st : St)
    (h : o.res.isNil = false → o.err = none) :
    (ltrimFinish pos pos' wsErr o st).1.res.isNil = false → (ltrimFinish pos pos' wsErr o st).1.err = none := by
  unfold ltrimFinish
  simp only
  cases he : o.err with
  | none =>
    cases wsErr with
    | none => intro _; rfl
    | some w => intro hh; simp [Res.isNil] at hh
  | some e =>
    have hn : o.res.isNil = true := by
      cases hh : o.res.isNil with
      | true => rfl
      | false => have := h hh; rw [he] at this; cases this
    cases wsErr with
    | none => intro hh; simp only at hh; rw [hn] at hh; cases hh
    | some w =>
      simp only
      split
      · intro hh; simp [Res.isNil] at hh
      · split
        · intro hh; simp only at hh; rw [hn] at hh; cases hh
        · intro hh; simp only at hh; rw [hn] at hh; cases hh

theorem OutShape_ltrim (cfg : Cfg) (g : G) (m : WsMode) (pos pos' : Nat) (wsErr : Option Err) (o : Out) (st : St)
    (h : OutShape cfg g o) : OutShape cfg (.ltrim g m) (ltrimFinish pos pos' wsErr o st).1 := by
  refine ⟨?_, ?_⟩
  · intro he
    exact ltrimFinish_errfree pos pos' wsErr o st (h.1 (by simpa [ErrFree] using he))
  · intro h1
    have := h.2 (by simpa [OneAlt] using h1)
    cases ltrimFinish_res_eq pos pos' wsErr o st with
    | inl e => rw [e]; exact this
    | inr e => rw [e]; simp [Res.alts]

theorem rtrimFinish_errfree (cfg : Cfg) (m : WsMode) (o : Out) (h : o.res.isNil = false → o.err = none) :
    (rtrimFinish cfg m o).res.isNil = false → (rtrimFinish cfg m o).err = none := by
  unfold rtrimFinish
  cases he : o.err with
  | some e =>
    intro hh
    simp only at hh
    have := h hh
    rw [he] at this; cases this
  | none =>
    simp only
    split
    · intro hh; simp [Res.isNil] at hh
    · intro _; rfl

theorem rtrimFinish_length (cfg : Cfg) (m : WsMode) (o : Out) : (rtrimFinish cfg m o).res.alts.length ≤ o.res.alts.length := by
  unfold rtrimFinish
  cases o.err with
  | some e => exact Nat.le_refl _
  | none =>
    simp only
    split
    · simp [Res.alts]
    · rw [length_setRposRes]; exact Nat.le_refl _

theorem OutShape_rtrim (cfg : Cfg) (g : G) (m : WsMode) (o : Out) (h : OutShape cfg g o) :
    OutShape cfg (.rtrim g m) (rtrimFinish cfg m o) := by
  refine ⟨?_, ?_⟩
  · intro he
    exact rtrimFinish_errfree cfg m o (h.1 (by simpa [ErrFree] using he))
  · intro h1
    have := h.2 (by simpa [OneAlt] using h1)
    have := rtrimFinish_length cfg m o
    omega

/-- the alternatives RightTrim returns are moved alternatives of the operand whose whitespace the mode
    accepts — given that the operand never answers a result with an error and, for a rejecting mode, at most
    one alternative -/
theorem rtrimFinish_sound (cfg : Cfg) (m : WsMode) (o : Out) (herr : o.res.isNil = false → o.err = none)
    (hone : m = .spacesNl ∨ o.res.alts.length ≤ 1) (x : Node) (hx : x ∈ (rtrimFinish cfg m o).res.alts) :
    ∃ n ∈ o.res.alts, x = moved cfg m n ∧ movedErr cfg m n = none := by
  unfold rtrimFinish at hx
  cases he : o.err with
  | some e =>
    rw [he] at hx
    simp only at hx
    have hn : o.res.isNil = true := by
      cases hh : o.res.isNil with
      | true => rfl
      | false => have := herr hh; rw [he] at this; cases this
    rw [alts_nil_of_isNil hn] at hx; cases hx
  | none =>
    rw [he] at hx
    simp only at hx
    cases hs : (setRposRes cfg.file m o.res).2 with
    | some w => rw [hs] at hx; cases hx
    | none =>
      rw [hs] at hx
      simp only at hx
      obtain ⟨n, hn, hxe⟩ := mem_setRposRes cfg.file m o.res x hx
      refine ⟨n, hn, hxe, ?_⟩
      cases hone with
      | inl h1 => subst h1; exact movedErr_spacesNl cfg n
      | inr h1 =>
        have := setRposRes_snd_one cfg.file m o.res n hn h1
        rw [hs] at this
        exact this.symm

/-- and RightTrim returns every such alternative -/
theorem rtrimFinish_complete (cfg : Cfg) (m : WsMode) (o : Out) (herr : o.res.isNil = false → o.err = none)
    (hone : m = .spacesNl ∨ o.res.alts.length ≤ 1) (n : Node) (hn : n ∈ o.res.alts) (hok : movedErr cfg m n = none) :
    moved cfg m n ∈ (rtrimFinish cfg m o).res.alts ∧ (rtrimFinish cfg m o).cp = o.cp := by
  have hnn : o.res.isNil = false := by
    cases hh : o.res.isNil with
    | false => rfl
    | true => rw [alts_nil_of_isNil hh] at hn; cases hn
  have he := herr hnn
  have hs : (setRposRes cfg.file m o.res).2 = none := by
    cases hone with
    | inl h1 => subst h1; exact setRposRes_snd_spacesNl cfg.file o.res
    | inr h1 => rw [setRposRes_snd_one cfg.file m o.res n hn h1]; exact hok
  unfold rtrimFinish
  rw [he]
  simp only [hs]
  exact ⟨mem_setRposRes_of_mem cfg.file m o.res n hn, trivial⟩

theorem rtrimFinish_noEOF (cfg : Cfg) (m : WsMode) (o : Out) (h : ∀ x ∈ o.res.alts, x.token ≠ eofTok) :
    ∀ x ∈ (rtrimFinish cfg m o).res.alts, x.token ≠ eofTok := by
  intro x hx
  unfold rtrimFinish at hx
  cases he : o.err with
  | some e => rw [he] at hx; exact h x hx
  | none =>
    rw [he] at hx
    simp only at hx
    cases hs : (setRposRes cfg.file m o.res).2 with
    | some w => rw [hs] at hx; cases hx
    | none =>
      rw [hs] at hx
      simp only at hx
      obtain ⟨n, hn, hxe⟩ := mem_setRposRes cfg.file m o.res x hx
      rw [hxe]
      have := moved_token cfg m n
      unfold moved at this
      rw [this]; exact h n hn

end PV.C1T
