/-
  Non-vacuity of the tree ties: a concrete heap, tree, world, encoding and model parameters that satisfy the hypotheses of
  `tie_Walk`, `tie_StaticCheck` (`CheckWorld`, with a user-defined checker that can fail and a Select node) and
  `transform_tie` (`TransformWorld`, with a user-defined transformer).
-/
import ParsleyVerif.Proofs.TreeTieTransform
namespace PV.TreeTie.Ex
open PV.CorePrelude hiding Node World
open PV.TreePrelude PV.FactsTree PV.TreeTie
open PV.Walk (T ICap Checker Transformer)

def tm (p : Int) : TN := .term { schema := .nil, token := [], value := .nil, pos := p, readerPos := p }

def cell (i : TInterp) (kids : List TN) : TCell :=
  { schema := .nil, token := [], children := kids, pos := 0, readerPos := 0, interpreter := i }

/-- 1: no interpreter, over [terminal, 2, a list, 4]; 2: Select(0) over two terminals; 3: a user-defined interpreter (type 1:
    a checker and a transformer) over a terminal; 4: another one (type 2), no children -/
def heap : Heap := fun a =>
  if a = 1 then some (cell .nil [tm 10, .ref 2, .list [.ref 3, tm 11], .ref 4])
  else if a = 2 then some (cell (.select ⟨0⟩) [tm 12, tm 13])
  else if a = 3 then some (cell (.custom 1) [tm 14])
  else if a = 4 then some (cell (.custom 2) [])
  else none

def root : Sk :=
  .nt 1 [.leaf (tm 10), .nt 2 [.leaf (tm 12), .leaf (tm 13)], .list [.nt 3 [.leaf (tm 14)], .leaf (tm 11)], .nt 4 []]

def st : TSt := { heap := heap, vars := [], userCtx := .nil, ext := [] }

/-- the world: the user-defined types 1 and 2 implement StaticChecker and NodeTransformer; as checkers they answer schema
    42 — or fail with code 9 when `bad`; as transformers they answer a new terminal node — or fail with code 8 when `bad` -/
def world (bad : Bool) : TW where
  implements id _ := id == 1 || id == 2
  StaticCheck _ _ _ := fun s => .ok (if bad then (.nil, encErr 9) else (encS (some 42), .nil)) s
  TransformNode _ _ _ := fun s => .ok (if bad then (.nil, encErr 8) else (tm 677, .nil)) s
  Eval _ _ _ _ := Go.panic
  Parse _ := Go.panic

def enc : Enc where
  key
    | .ref a => a
    | .term t => 100 + t.pos.toNat
    | .list _ => 50
    | _ => 0
  icode
    | .nil => none
    | .select _ => some 0
    | .fn _ => some 1
    | .custom id => some (id + 2)

def caps : Nat → ICap := fun k => ⟨k == 0 || k == 3 || k == 4, k == 3 || k == 4⟩

def chk (bad : Bool) : Checker := fun k _ => if k = 0 then .ok none else if bad then .error 9 else .ok (some 42)

def tr (bad : Bool) : Transformer := fun _ _ => if bad then .error 8 else .ok (.leaf 777)

theorem shaped : Shaped heap root := by
  simp [root, Shaped, ShapedL, heap, cell, nodes, Sk.node, tm, LeafNode]

theorem nodup : root.addrs.Nodup := by decide

theorem checkWorld (bad : Bool) (u : TValue) : CheckWorld (world bad) enc u caps (chk bad) heap root where
  readOnly id u n := by intro s a s' h; simp [world] at h; exact h.2.symm
  nilCode i := by cases i <;> simp [enc]
  caps i k h := by
    cases i with
    | nil => simp [enc] at h
    | select s => simp [enc] at h; subst h; simp [caps, isChecker]
    | fn f => simp [enc] at h; subst h; simp [caps, isChecker]
    | custom id =>
      simp [enc] at h; subst h
      simp [caps, isChecker, world]
  custom id k a kids s c hk himp _ _ _ := by
    simp [enc] at hk; subst hk
    cases bad <;> simp [world, chk, encChk]
  select sel k a kids s c hk _ hsame hc hi hsh := by
    simp [enc] at hk; subst hk
    -- the cell is, up to its schema, the cell of the initial heap
    have h0 := hsame a
    rw [hc] at h0
    have : ∃ c0, heap a = some c0 ∧ stripS c = stripS c0 := by
      cases hh : heap a with
      | none => rw [hh] at h0; simp at h0
      | some c0 => rw [hh] at h0; simp at h0; exact ⟨c0, rfl, h0⟩
    obtain ⟨c0, hc0, hst⟩ := this
    have hint : c.interpreter = c0.interpreter := by simpa [stripS] using congrArg (·.interpreter) hst
    have hkid : c.children = c0.children := by simpa [stripS] using congrArg (·.children) hst
    have ha : a = 2 ∧ c0 = cell (.select ⟨0⟩) [tm 12, tm 13] := by
      unfold heap at hc0
      split at hc0
      · simp at hc0; subst hc0; rw [hi] at hint; simp [cell] at hint
      · split at hc0
        · rename_i h2; simp at hc0; exact ⟨h2, hc0.symm⟩
        · split at hc0
          · simp at hc0; subst hc0; rw [hi] at hint; simp [cell] at hint
          · split at hc0
            · simp at hc0; subst hc0; rw [hi] at hint; simp [cell] at hint
            · cases hc0
    obtain ⟨rfl, rfl⟩ := ha
    have hsel : sel = ⟨0⟩ := by rw [hi] at hint; simpa [cell] using hint
    subst hsel
    rw [tie_Select_StaticCheck (world bad) 0 u 2 s c hc, hkid]
    simp [cell, tm, childSchema, chk, encChk, encS]

theorem transformWorld (bad : Bool) (u : TValue) : TransformWorld (world bad) enc u caps (tr bad) where
  nilCode i := by cases i <;> simp [enc]
  caps i k h := by
    cases i with
    | nil => simp [enc] at h
    | select s => simp [enc] at h; subst h; simp [caps, isTransformer]
    | fn f => simp [enc] at h; subst h; simp [caps, isTransformer]
    | custom id =>
      simp [enc] at h; subst h
      simp [caps, isTransformer, world]
  custom id k a kids s c hk _ _ _ _ _ := by
    cases bad
    · simp only [tr, Bool.false_eq_true, ↓reduceIte, TrOut]
      refine ⟨s, .leaf (tm 677), by simp [world, Sk.node], by simp [Shaped, LeafNode, tm], by simp [absT, enc, tm],
        by simp [Sk.addrs], fun b _ _ => ⟨rfl, by simp [Sk.addrs]⟩⟩
    · simp only [tr, ↓reduceIte, TrOut]
      exact ⟨.nil, s, by simp [world], fun b _ _ => ⟨rfl, by simp⟩⟩

end PV.TreeTie.Ex
