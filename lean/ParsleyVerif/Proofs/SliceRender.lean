import ParsleyVerif.Proofs.SliceHeap
/-
  What `render` depends on: if two states agree on a set of nodes that is closed under "child of" (the node
  objects and the views of their children slices), every handle into that set reads the same in both.
  Instances: the append family (all old nodes, Proofs/SliceInv.lean) and SetReaderPos (the nodes that cannot
  see the trimmed objects, Proofs/SliceTrim.lean).
-/
namespace PV.Slice

theorem flatMap_congr' {α β : Type} {l : List α} {f g : α → List β} (h : ∀ x ∈ l, f x = g x) :
    l.flatMap f = l.flatMap g := by
  induction l with
  | nil => rfl
  | cons x xs ih =>
    simp only [List.flatMap_cons]
    rw [h x (by simp), ih (fun y hy => h y (by simp [hy]))]

theorem table_length (s : St) : (table s).length = s.nodes.length := build_length _ _

/-- the two states agree on the `good` nodes, and `good` is closed under children -/
structure Agree (s s' : St) (good : Nat → Prop) : Prop where
  lt : ∀ n, good n → n < s.nodes.length ∧ n < s'.nodes.length
  node : ∀ n, good n → s'.nodes[n]? = s.nodes[n]?
  view : ∀ n tok sl pos rpos, good n → s.nodes[n]? = some (.nt tok sl pos rpos) → view s'.arrs sl = view s.arrs sl
  child : ∀ n tok sl pos rpos m, good n → s.nodes[n]? = some (.nt tok sl pos rpos) →
    Handle.ptr m ∈ PV.Slice.view s.arrs sl → m < n → good m

theorem table_agree {s s' : St} {good : Nat → Prop} (ag : Agree s s' good) :
    ∀ n, good n → (table s')[n]? = (table s)[n]? := by
  intro n hg
  unfold table
  apply build_agree (renderNode s'.nodes s'.arrs) (renderNode s.nodes s.arrs) good ?_ n _ _ (ag.lt n hg).2 (ag.lt n hg).1 hg
  intro n hg t t' hl hl' hag
  unfold renderNode
  rw [ag.node n hg]
  cases hn : s.nodes[n]? with
  | none => rfl
  | some o =>
    cases o with
    | term tok val pos rpos => rfl
    | nt tok sl pos rpos =>
      simp only
      rw [ag.view n tok sl pos rpos hg hn]
      congr 2
      apply flatMap_congr'
      intro c hc
      cases c with
      | ptr m =>
        simp only [renderCell, List.getD_eq_getElem?_getD]
        by_cases hm : m < n
        · rw [hag m hm (ag.child n tok sl pos rpos m hg hn hc hm)]
        · rw [List.getElem?_eq_none (by omega), List.getElem?_eq_none (by omega)]
      | _ => rfl

/-- the handle only leads to `good` nodes -/
def GoodH (s : St) (good : Nat → Prop) : Handle → Prop
  | .ptr m => good m
  | .list sl => ∀ m, Handle.ptr m ∈ view s.arrs sl → good m
  | _ => True

theorem render_agree {s s' : St} {good : Nat → Prop} (ag : Agree s s' good) (h : Handle) (gh : GoodH s good h)
    (hv : ∀ sl, h = Handle.list sl → view s'.arrs sl = view s.arrs sl) : render s' h = render s h := by
  unfold render
  cases h with
  | ptr m =>
    simp only [renderWith, renderCell, List.getD_eq_getElem?_getD]
    rw [table_agree ag m gh]
  | list sl =>
    simp only [renderWith]
    rw [hv sl rfl]
    congr 2
    apply flatMap_congr'
    intro c hc
    cases c with
    | ptr m =>
      simp only [renderCell, List.getD_eq_getElem?_getD]
      rw [table_agree ag m (gh m hc)]
    | _ => rfl
  | _ => rfl

/-- handle well-formedness relative to the ghost bound `top` -/
def HWF (s : St) (top : Nat → Nat) : Handle → Prop
  | .ptr m => m < s.nodes.length
  | .list sl => SWF s.arrs sl ∧ 0 < sl.len ∧ sl.len ≤ top sl.arr ∧ Handle.nil ∉ view s.arrs sl
  | _ => True

/-- node well-formedness: children slices are well-formed and below `top` -/
def NodesWF (s : St) (top : Nat → Nat) : Prop :=
  ∀ (n tok : Nat) (sl : Slice) (pos rpos : Nat), s.nodes[n]? = some (NodeObj.nt tok sl pos rpos) → SWF s.arrs sl ∧ sl.len ≤ top sl.arr

/-- the append family: old node objects are never touched, arrays are framed -/
def StFrame (top : Nat → Nat) (s s' : St) : Prop :=
  (∃ l, s'.nodes = s.nodes ++ l) ∧ FrameA top s.arrs s'.arrs

theorem StFrame.refl (top : Nat → Nat) (s : St) : StFrame top s s := ⟨⟨[], by simp⟩, FrameA.refl _ _⟩

theorem StFrame.agree {top : Nat → Nat} {s s' : St} (fr : StFrame top s s') (nw : NodesWF s top)
    (ok : CellsOK s.nodes.length s.arrs) : Agree s s' (fun n => n < s.nodes.length) := by
  obtain ⟨⟨l, hl⟩, fa⟩ := fr
  refine ⟨fun n hn => ⟨hn, by rw [hl]; simp; omega⟩, fun n hn => ?_, fun n tok sl pos rpos hn hs => ?_,
    fun n tok sl pos rpos m _ _ hm _ => ?_⟩
  · rw [hl, List.getElem?_append_left hn]
  · exact fa.view_eq sl (nw n tok sl pos rpos hs).2
  · exact view_cellOK ok sl _ hm

/-- **frame lemma**: a framed step does not change what any well-formed handle reads -/
theorem render_frame {top : Nat → Nat} {s s' : St} (fr : StFrame top s s') (nw : NodesWF s top)
    (ok : CellsOK s.nodes.length s.arrs) (h : Handle) (hw : HWF s top h) : render s' h = render s h := by
  apply render_agree (fr.agree nw ok) h
  · cases h with
    | ptr m => exact hw
    | list sl => intro m hm; exact view_cellOK ok sl _ hm
    | _ => trivial
  · intro sl hsl
    subst hsl
    exact fr.2.view_eq sl hw.2.2.1

end PV.Slice
