import ParsleyVerif.Model.Utf8
namespace PV.Utf8

theorem ite_pair_bounds (c : Prop) [Decidable c] (a b k n : Nat) (hk1 : 1 ≤ k) (hkn : k ≤ n) :
    1 ≤ (if c then (a, k) else (b, 1)).2 ∧ (if c then (a, k) else (b, 1)).2 ≤ n := by
  split <;> simp <;> omega

theorem decodeRune_width (l : List Nat) (h : l ≠ []) : 1 ≤ (decodeRune l).2 ∧ (decodeRune l).2 ≤ l.length := by
  cases l with
  | nil => exact absurd rfl h
  | cons b0 r =>
    simp only [decodeRune]
    by_cases c1 : b0 < 0x80
    · rw [if_pos c1]; simp
    · rw [if_neg c1]
      by_cases c2 : b0 < 0xC2
      · rw [if_pos c2]; simp
      · rw [if_neg c2]
        by_cases c3 : b0 ≤ 0xDF
        · rw [if_pos c3]
          cases r with
          | nil => simp
          | cons b1 r' => exact ite_pair_bounds _ _ _ _ _ (by omega) (by simp)
        · rw [if_neg c3]
          by_cases c4 : b0 ≤ 0xEF
          · rw [if_pos c4]
            match r with
            | [] => simp
            | [_] => simp
            | b1 :: b2 :: r' => exact ite_pair_bounds _ _ _ _ _ (by omega) (by simp)
          · rw [if_neg c4]
            by_cases c5 : b0 ≤ 0xF4
            · rw [if_pos c5]
              match r with
              | [] => simp
              | [_] => simp
              | [_, _] => simp
              | b1 :: b2 :: b3 :: r' => exact ite_pair_bounds _ _ _ _ _ (by omega) (by simp)
            · rw [if_neg c5]; simp

/-- a Unicode scalar value -/
def ValidScalar (c : Nat) : Prop := c ≤ 0x10FFFF ∧ ¬ (0xD800 ≤ c ∧ c ≤ 0xDFFF)

theorem validRune_of (c : Nat) (h : ValidScalar c) : validRune c = true := by
  unfold validRune isSurrogate maxRune ValidScalar at *
  simp; omega

/-- **UTF-8 round trip**: decoding the encoding of a scalar value, followed by anything, gives it back with its width -/
theorem decode_encode (c : Nat) (t : List Nat) (h : ValidScalar c) :
    decodeRune (encodeRune c ++ t) = (c, (encodeRune c).length) := by
  have hv := validRune_of c h
  obtain ⟨h1, h2⟩ := h
  unfold encodeRune
  by_cases c1 : c < 0x80
  · rw [if_pos c1]; simp [decodeRune, c1]
  · rw [if_neg c1]
    by_cases c2 : c < 0x800
    · rw [if_pos c2]
      simp only [List.cons_append, List.nil_append, decodeRune]
      rw [if_neg (by omega), if_neg (by omega), if_pos (by omega)]
      have : isCont (0x80 + c % 64) = true := by simp [isCont]; omega
      simp only [this, if_true, List.length_cons, List.length_nil]
      congr 1; omega
    · rw [if_neg c2]
      simp only [hv, Bool.not_true, Bool.false_eq_true, if_false]
      by_cases c3 : c < 0x10000
      · rw [if_pos c3]
        simp only [List.cons_append, List.nil_append, decodeRune]
        rw [if_neg (by omega), if_neg (by omega), if_neg (by omega), if_pos (by omega)]
        have k2 : isCont (0x80 + c % 64) = true := by simp [isCont]; omega
        have k1 : ((if 0xE0 + c / 4096 = 0xE0 then 0xA0 else 0x80) ≤ 0x80 + c / 64 % 64 &&
            decide (0x80 + c / 64 % 64 ≤ if 0xE0 + c / 4096 = 0xED then 0x9F else 0xBF)) = true := by
          simp only [Bool.and_eq_true, decide_eq_true_eq]
          constructor
          · split <;> omega
          · split <;> omega
        simp only [k2, Bool.and_true]
        rw [if_pos (by simpa using k1)]
        simp only [List.length_cons, List.length_nil]
        congr 1; omega
      · rw [if_neg c3]
        simp only [List.cons_append, List.nil_append, decodeRune]
        rw [if_neg (by omega), if_neg (by omega), if_neg (by omega), if_neg (by omega), if_pos (by omega)]
        have k2 : isCont (0x80 + c / 64 % 64) = true := by simp [isCont]; omega
        have k3 : isCont (0x80 + c % 64) = true := by simp [isCont]; omega
        have k1 : ((if 0xF0 + c / 262144 = 0xF0 then 0x90 else 0x80) ≤ 0x80 + c / 4096 % 64 &&
            decide (0x80 + c / 4096 % 64 ≤ if 0xF0 + c / 262144 = 0xF4 then 0x8F else 0xBF)) = true := by
          simp only [Bool.and_eq_true, decide_eq_true_eq]
          constructor
          · split <;> omega
          · split <;> omega
        simp only [k2, k3, Bool.and_true]
        rw [if_pos (by simpa using k1)]
        simp only [List.length_cons, List.length_nil]
        congr 1; omega

end PV.Utf8
