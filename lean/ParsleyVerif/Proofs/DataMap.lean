import ParsleyVerif.Proofs.DataSet2
namespace PV.Data

/-! ### map heap lemmas -/

theorem mobj_modify_same (mh : MHeap) (a : Nat) (f : FMap → FMap) (ha : a < mh.length) :
    mobj (mh.modify a f) a = f (mobj mh a) := by
  simp [mobj, List.getD_eq_getElem?_getD, ha]

theorem mobj_modify_ne (mh : MHeap) (a b : Nat) (f : FMap → FMap) (hne : a ≠ b) :
    mobj (mh.modify a f) b = mobj mh b := by
  simp [mobj, List.getD_eq_getElem?_getD, hne]

theorem mobj_append_lt (mh : MHeap) (c : FMap) (a : Nat) (ha : a < mh.length) :
    mobj (mh ++ [c]) a = mobj mh a := by
  simp [mobj, List.getD_eq_getElem?_getD, List.getElem?_append_left ha]

theorem mobj_append_eq (mh : MHeap) (c : FMap) : mobj (mh ++ [c]) mh.length = c := by
  simp [mobj, List.getD_eq_getElem?_getD]

def MFrame (mh mh' : MHeap) : Prop :=
  mh.length ≤ mh'.length ∧ ∀ a, a < mh.length → mobj mh' a = mobj mh a

theorem MFrame.refl (mh : MHeap) : MFrame mh mh := ⟨Nat.le_refl _, fun _ _ => rfl⟩

def MSorted (m : FMap) : Prop := (m.map (·.1)).Pairwise (· < ·)

/-- folding writes through one handle = folding `mset` on that object; nothing else changes -/
theorem fold_mwrite (fresh : Nat) (kvs : List (Int × Int)) : ∀ (H : MHeap), fresh < H.length →
    mobj (kvs.foldl (fun mh' kv => mwrite mh' fresh kv.1 kv.2) H) fresh
      = kvs.foldl (fun m kv => mset m kv.1 kv.2) (mobj H fresh) ∧
    (kvs.foldl (fun mh' kv => mwrite mh' fresh kv.1 kv.2) H).length = H.length ∧
    ∀ a, a ≠ fresh → mobj (kvs.foldl (fun mh' kv => mwrite mh' fresh kv.1 kv.2) H) a = mobj H a := by
  induction kvs with
  | nil => intro H _; exact ⟨rfl, rfl, fun _ _ => rfl⟩
  | cons kv kvs ih =>
    intro H hf
    simp only [List.foldl_cons]
    have hl : fresh < (mwrite H fresh kv.1 kv.2).length := by simp [mwrite]; exact hf
    obtain ⟨i1, i2, i3⟩ := ih (mwrite H fresh kv.1 kv.2) hl
    refine ⟨?_, ?_, ?_⟩
    · rw [i1]; simp only [mwrite, mobj_modify_same _ _ _ hf]
    · rw [i2]; simp [mwrite]
    · intro a ha; rw [i3 a ha]; simp only [mwrite]; exact mobj_modify_ne _ _ _ _ (Ne.symm ha)

theorem mset_append_max (m : FMap) (k v : Int) (h : ∀ p ∈ m, p.1 < k) : mset m k v = m ++ [(k, v)] := by
  induction m with
  | nil => rfl
  | cons p r ih =>
    obtain ⟨k', v'⟩ := p
    have hk : k' < k := h (k', v') (by simp)
    simp only [mset]
    rw [if_neg (by omega), if_neg (by omega), ih (fun q hq => h q (List.mem_cons_of_mem _ hq))]
    rfl

theorem fold_mset_sorted (rest : FMap) : ∀ (acc : FMap), MSorted (acc ++ rest) →
    rest.foldl (fun m kv => mset m kv.1 kv.2) acc = acc ++ rest := by
  induction rest with
  | nil => intro acc _; simp
  | cons kv rest ih =>
    intro acc hs
    simp only [List.foldl_cons]
    have hlt : ∀ p ∈ acc, p.1 < kv.1 := by
      intro p hp
      unfold MSorted at hs
      rw [List.map_append, List.pairwise_append] at hs
      exact hs.2.2 p.1 (List.mem_map_of_mem hp) kv.1 (by simp)
    rw [mset_append_max acc kv.1 kv.2 hlt]
    have : acc ++ [(kv.1, kv.2)] ++ rest = acc ++ kv :: rest := by simp
    rw [ih (acc ++ [(kv.1, kv.2)]) (by rw [this]; exact hs), this]

theorem mOfList_id (m : FMap) (hs : MSorted m) : m.foldl (fun acc kv => mset acc kv.1 kv.2) [] = m := by
  have := fold_mset_sorted m [] (by simpa using hs)
  simpa using this

theorem mem_mset_keys (m : FMap) (k v : Int) (x : Int) :
    x ∈ (mset m k v).map (·.1) ↔ x ∈ m.map (·.1) ∨ x = k := by
  induction m with
  | nil => simp [mset]
  | cons p r ih =>
    obtain ⟨k', v'⟩ := p
    simp only [mset]
    split
    · simp; grind
    · split
      · rename_i h; subst h; simp; grind
      · simp only [List.map_cons, List.mem_cons, ih]; grind

theorem mset_sorted (m : FMap) (k v : Int) (hs : MSorted m) : MSorted (mset m k v) := by
  induction m with
  | nil => simp [mset, MSorted]
  | cons p r ih =>
    obtain ⟨k', v'⟩ := p
    unfold MSorted at hs ⊢
    simp only [List.map_cons, List.pairwise_cons] at hs
    simp only [mset]
    split
    · simp only [List.map_cons, List.pairwise_cons]
      refine ⟨?_, hs⟩
      intro a ha
      rcases List.mem_cons.mp ha with h | h
      · omega
      · have := hs.1 a h; omega
    · split
      · rename_i h; subst h
        simp only [List.map_cons, List.pairwise_cons]; exact hs
      · simp only [List.map_cons, List.pairwise_cons]
        refine ⟨?_, ih hs.2⟩
        intro a ha
        rcases (mem_mset_keys r k v a).mp ha with h | h
        · exact hs.1 a h
        · omega

theorem fold_mset_sorted' (kvs : List (Int × Int)) : ∀ (acc : FMap), MSorted acc →
    MSorted (kvs.foldl (fun m kv => mset m kv.1 kv.2) acc) := by
  induction kvs with
  | nil => intro acc h; exact h
  | cons kv kvs ih => intro acc h; exact ih _ (mset_sorted _ _ _ h)

theorem newIntMap_spec (mh : MHeap) (kvs : List (Int × Int)) :
    (newIntMap mh kvs).2 = mh.length ∧ mobj (newIntMap mh kvs).1 mh.length = mOfList kvs ∧
    MFrame mh (newIntMap mh kvs).1 ∧ (newIntMap mh kvs).1.length = mh.length + 1 := by
  refine ⟨rfl, mobj_append_eq _ _, ⟨by simp [newIntMap], fun a ha => mobj_append_lt _ _ _ ha⟩, by simp [newIntMap]⟩

theorem mclone_spec (mh : MHeap) (i : Nat) (hs : MSorted (mobj mh i)) :
    (mclone mh i).2 = mh.length ∧ mobj (mclone mh i).1 mh.length = mobj mh i ∧
    MFrame mh (mclone mh i).1 ∧ (mclone mh i).1.length = mh.length + 1 := by
  unfold mclone
  obtain ⟨f1, f2, f3⟩ := fold_mwrite mh.length (mobj mh i) (mh ++ [[]]) (by simp)
  refine ⟨rfl, ?_, ⟨?_, ?_⟩, ?_⟩
  · show mobj (List.foldl _ _ _) mh.length = _
    rw [f1, mobj_append_eq, mOfList_id _ hs]
  · show mh.length ≤ List.length (List.foldl _ _ _)
    rw [f2]; simp
  · intro a ha
    show mobj (List.foldl _ _ _) a = _
    rw [f3 a (by omega), mobj_append_lt _ _ _ ha]
  · show List.length (List.foldl _ _ _) = _
    rw [f2]; simp

theorem inc_spec (mh : MHeap) (i : Nat) (k : Int) (hs : MSorted (mobj mh i)) :
    (inc mh i k).2 = mh.length ∧ mobj (inc mh i k).1 mh.length = mInc (mobj mh i) k ∧
    MFrame mh (inc mh i k).1 ∧ (inc mh i k).1.length = mh.length + 1 := by
  obtain ⟨c1, c2, c3, c4⟩ := mclone_spec mh i hs
  unfold inc
  generalize mclone mh i = cl at c1 c2 c3 c4
  obtain ⟨mh1, i2⟩ := cl
  simp only at c1 c2 c3 c4 ⊢
  subst c1
  have hl : mh.length < mh1.length := by omega
  rw [c2]
  unfold mInc
  cases hg : mget (mobj mh i) k with
  | none =>
    refine ⟨rfl, ?_, ⟨?_, ?_⟩, ?_⟩
    · simp only [mwrite, mobj_modify_same _ _ _ hl, c2]
    · simp [mwrite]; omega
    · intro a ha; simp only [mwrite]; rw [mobj_modify_ne _ _ _ _ (by omega)]; exact c3.2 a ha
    · simp [mwrite]; omega
  | some v =>
    refine ⟨rfl, ?_, ⟨?_, ?_⟩, ?_⟩
    · simp only [mwrite, mobj_modify_same _ _ _ hl, c2]
    · simp [mwrite]; omega
    · intro a ha; simp only [mwrite]; rw [mobj_modify_ne _ _ _ _ (by omega)]; exact c3.2 a ha
    · simp [mwrite]; omega

theorem filter_fold (mh0 : MHeap) (i : Nat) (hi : i < mh0.length) (keys : List Int) :
    ∀ (H : MHeap), mh0.length < H.length → mobj H i = mobj mh0 i →
      (∀ a, a < mh0.length → mobj H a = mobj mh0 a) →
      mobj (keys.foldl (filterStep mh0.length i) H) mh0.length
        = keys.foldl (mFilterStep (mobj mh0 i)) (mobj H mh0.length) ∧
      (keys.foldl (filterStep mh0.length i) H).length = H.length ∧
      (∀ a, a < mh0.length → mobj (keys.foldl (filterStep mh0.length i) H) a = mobj mh0 a) := by
  induction keys with
  | nil => intro H _ _ hfr; exact ⟨rfl, rfl, hfr⟩
  | cons key keys ih =>
    intro H hl hobj hfr
    simp only [List.foldl_cons]
    cases hg : mget (mobj mh0 i) key with
    | none =>
      have e1 : filterStep mh0.length i H key = H := by simp [filterStep, hobj, hg]
      have e2 : mFilterStep (mobj mh0 i) (mobj H mh0.length) key = mobj H mh0.length := by simp [mFilterStep, hg]
      rw [e1, e2]
      exact ih H hl hobj hfr
    | some v =>
      have e1 : filterStep mh0.length i H key = mwrite H mh0.length key v := by simp [filterStep, hobj, hg]
      have e2 : mFilterStep (mobj mh0 i) (mobj H mh0.length) key = mset (mobj H mh0.length) key v := by
        simp [mFilterStep, hg]
      rw [e1, e2]
      have hl' : mh0.length < (mwrite H mh0.length key v).length := by simp [mwrite]; exact hl
      have hobj' : mobj (mwrite H mh0.length key v) i = mobj mh0 i := by
        simp only [mwrite]; rw [mobj_modify_ne _ _ _ _ (by omega)]; exact hobj
      have hfr' : ∀ a, a < mh0.length → mobj (mwrite H mh0.length key v) a = mobj mh0 a := by
        intro a ha; simp only [mwrite]; rw [mobj_modify_ne _ _ _ _ (by omega)]; exact hfr a ha
      obtain ⟨r1, r2, r3⟩ := ih (mwrite H mh0.length key v) hl' hobj' hfr'
      refine ⟨?_, ?_, r3⟩
      · rw [r1]; simp only [mwrite, mobj_modify_same _ _ _ hl]
      · rw [r2]; simp [mwrite]

theorem filter_spec (mh : MHeap) (i : Nat) (hi : i < mh.length) (keys : List Int) :
    (filter mh i keys).2 = mh.length ∧ mobj (filter mh i keys).1 mh.length = mFilter (mobj mh i) keys ∧
    MFrame mh (filter mh i keys).1 ∧ (filter mh i keys).1.length = mh.length + 1 := by
  obtain ⟨r1, r2, r3⟩ := filter_fold mh i hi keys (mh ++ [[]]) (by simp) (mobj_append_lt _ _ _ hi)
    (fun a ha => mobj_append_lt _ _ _ ha)
  unfold filter mFilter
  refine ⟨rfl, ?_, ⟨?_, ?_⟩, ?_⟩
  · show mobj (List.foldl _ _ _) mh.length = _
    rw [r1, mobj_append_eq]
  · show mh.length ≤ List.length (List.foldl _ _ _)
    rw [r2]; simp
  · exact r3
  · show List.length (List.foldl _ _ _) = _
    rw [r2]; simp

theorem mFilter_sorted (m : FMap) (keys : List Int) : MSorted (mFilter m keys) := by
  unfold mFilter
  have : ∀ (acc : FMap), MSorted acc → MSorted (keys.foldl (mFilterStep m) acc) := by
    induction keys with
    | nil => intro acc h; exact h
    | cons key keys ih =>
      intro acc h
      simp only [List.foldl_cons]
      apply ih
      unfold mFilterStep
      cases mget m key with
      | none => exact h
      | some v => exact mset_sorted _ _ _ h
  exact this [] (by simp [MSorted])

theorem mInc_sorted (m : FMap) (k : Int) (h : MSorted m) : MSorted (mInc m k) := by
  unfold mInc; cases mget m k <;> exact mset_sorted _ _ _ h

theorem mOfList_sorted (kvs : List (Int × Int)) : MSorted (mOfList kvs) :=
  fold_mset_sorted' kvs [] (by simp [MSorted])

end PV.Data
