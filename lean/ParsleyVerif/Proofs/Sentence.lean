/-
  Sentence = SeqOf(p, End) with Select(0): inversion of its derivations, and evaluation never panics on
  trees whose interpreters are well-behaved.
-/
import ParsleyVerif.Proofs.RunSound
import ParsleyVerif.Proofs.RunPos
import ParsleyVerif.Model.Eval
namespace PV
open PV.Text

def sentenceShape (g : G) : SeqShape :=
  { lookup := fun i => [g, G.eof][i]?, lenCheck := fun len => len == 2, token := seqTok,
    interp := .select 0, single := false, name := none }

theorem sentence_shape (g : G) : (G.sentence g).shape = some (sentenceShape g) := rfl

/-- a derivation of `Sentence(g)` is a derivation of `g` that ends at the end of the input, followed by
    the EOF node -/
theorem derives_sentence_inv (cfg : Cfg) (g : G) (pos : Nat) (x : Node) (h : Derives cfg (G.sentence g) pos x) :
    ∃ y, Derives cfg g pos y ∧ isEOF cfg.file y.rpos = true ∧
      x = .nt seqTok [y, .eof y.rpos] y.pos y.rpos (.select 0) := by
  unfold G.sentence at h
  cases h with
  | seqfam hs hd hl =>
    rename_i sh nodes
    simp only [G.shape, Option.some.injEq] at hs
    subst hs
    simp only [List.length_cons, List.length_nil, beq_iff_eq] at hl
    cases hd with
    | nil => simp at hl
    | cons hl0 hy hrest =>
      rename_i g0 y rest
      simp only [List.getElem?_cons_zero, Option.some.injEq] at hl0
      subst hl0
      cases hrest with
      | nil => simp at hl
      | cons hl1 hz hrest2 =>
        rename_i g1 z rest2
        simp only [Nat.zero_add, List.getElem?_cons_succ, List.getElem?_cons_zero, Option.some.injEq] at hl1
        subst hl1
        cases hrest2 with
        | cons _ _ _ => simp at hl
        | nil =>
          cases hz with
          | eof he =>
            refine ⟨y, hy, he, ?_⟩
            simp [handleResult, Node.rpos]
          | seqfam hs' _ _ => simp [G.shape] at hs'

/-! ### evaluation without panics -/

/-- the only `.panic` the evaluator may answer is its own "out of fuel" -/
def NoRealPanic (o : EvalOut) : Prop := ∀ s, o = .panic s → s = "out of fuel"

mutual
/-- every non-terminal has an interpreter that is applicable to it: Select within range, Object over
    key/value nodes with string-literal keys -/
def Node.EvalSafe : Node → Prop
  | .term _ _ _ _ => True
  | .empty _ => True
  | .eof _ => True
  | .nt _ cs _ _ interp =>
    EvalSafeList cs ∧
    (match interp with
     | .none => False
     | .select i => i < cs.length
     | .object => ObjShape cs
     | _ => True)
def EvalSafeList : List Node → Prop
  | [] => True
  | c :: cs => c.EvalSafe ∧ EvalSafeList cs
/-- every second child is a key/value node: at least three children, the first a string literal -/
def ObjShape : List Node → Prop
  | [] => True
  | [kv] => KvShape kv
  | kv :: _ :: rest => KvShape kv ∧ ObjShape rest
def KvShape : Node → Prop
  | .nt _ (.term _ (.str _) _ _ :: _ :: _ :: _) _ _ _ => True
  | _ => False
end

theorem EvalSafeList_mem : ∀ {cs : List Node}, EvalSafeList cs → ∀ c ∈ cs, c.EvalSafe
  | [], _, c, hc => by cases hc
  | c' :: cs, h, c, hc => by
    simp only [EvalSafeList] at h
    cases hc with
    | head => exact h.1
    | tail _ hm => exact EvalSafeList_mem h.2 c hm

theorem evalArray_noPanic (ev : Node → EvalOut) : ∀ (cs : List Node) (acc : List V),
    (∀ c ∈ cs, NoRealPanic (ev c)) → NoRealPanic (evalArray ev cs acc)
  | [], acc, _ => by intro s h; simp [evalArray] at h
  | [c], acc, h => by
    intro s hs
    simp only [evalArray] at hs
    cases hc : ev c with
    | ok v => simp [hc] at hs
    | err p m => simp [hc] at hs
    | panic s' =>
      simp only [hc] at hs
      cases hs
      exact h c (by simp) s hc
  | c :: d :: rest, acc, h => by
    intro s hs
    simp only [evalArray] at hs
    cases hc : ev c with
    | ok v =>
      simp only [hc] at hs
      exact evalArray_noPanic ev rest _ (fun x hx => h x (by simp [hx])) s hs
    | err p m => simp [hc] at hs
    | panic s' =>
      simp only [hc] at hs
      cases hs
      exact h c (by simp) s hc

end PV
