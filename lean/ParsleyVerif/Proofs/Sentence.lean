/-
  Sentence = SeqOf(p, End) with Select(0): inversion of its derivations, and evaluation never panics on
  trees whose interpreters are well-behaved.
-/
import ParsleyVerif.Proofs.RunSound
import ParsleyVerif.Proofs.RunPos
import ParsleyVerif.Model.Eval
namespace PV
open PV.Text

def sentenceShape (g : G) : SeqShape :=
  { lookup := fun i => [g, G.eof][i]?, lenCheck := fun len => len == 2, token := seqTok,
    interp := .select 0, single := false, name := none }

theorem sentence_shape (g : G) : (G.sentence g).shape = some (sentenceShape g) := rfl

/-- a derivation of `Sentence(g)` is a derivation of `g` that ends at the end of the input, followed by
    the EOF node -/
theorem derives_sentence_inv (cfg : Cfg) (g : G) (pos : Nat) (x : Node) (h : Derives cfg (G.sentence g) pos x) :
    ∃ y, Derives cfg g pos y ∧ isEOF cfg.file y.rpos = true ∧
      x = .nt seqTok [y, .eof y.rpos] y.pos y.rpos (.select 0) := by
  unfold G.sentence at h
  cases h with
  | seqfam hs hd hl =>
    rename_i sh nodes
    simp only [G.shape, Option.some.injEq] at hs
    subst hs
    simp only [List.length_cons, List.length_nil, beq_iff_eq] at hl
    cases hd with
    | nil => simp at hl
    | cons hl0 hy hrest =>
      rename_i g0 y rest
      simp only [List.getElem?_cons_zero, Option.some.injEq] at hl0
      subst hl0
      cases hrest with
      | nil => simp at hl
      | cons hl1 hz hrest2 =>
        rename_i g1 z rest2
        simp only [Nat.zero_add, List.getElem?_cons_succ, List.getElem?_cons_zero, Option.some.injEq] at hl1
        subst hl1
        cases hrest2 with
        | cons _ _ _ => simp at hl
        | nil =>
          cases hz with
          | eof he =>
            refine ⟨y, hy, he, ?_⟩
            simp [handleResult, Node.rpos]
          | seqfam hs' _ _ => simp [G.shape] at hs'

/-! ### evaluation without panics -/

/-- the only `.panic` the evaluator may answer is its own "out of fuel" -/
def NoRealPanic (o : EvalOut) : Prop := ∀ s, o = .panic s → s = "out of fuel"

mutual
/-- every non-terminal has an interpreter that is applicable to it: Select within range, Object over
    key/value nodes with string-literal keys -/
def Node.EvalSafe : Node → Prop
  | .term _ _ _ _ => True
  | .empty _ => True
  | .eof _ => True
  | .nt _ cs _ _ interp =>
    EvalSafeList cs ∧
    (match interp with
     | .none => False
     | .select i => i < cs.length
     | .object => ObjShape cs
     | _ => True)
def EvalSafeList : List Node → Prop
  | [] => True
  | c :: cs => c.EvalSafe ∧ EvalSafeList cs
/-- every second child is a key/value node: at least three children, the first a string literal -/
def ObjShape : List Node → Prop
  | [] => True
  | [kv] => KvShape kv
  | kv :: _ :: rest => KvShape kv ∧ ObjShape rest
def KvShape : Node → Prop
  | .nt _ (.term _ (.str _) _ _ :: _ :: _ :: _) _ _ _ => True
  | _ => False
end

theorem EvalSafeList_mem : ∀ {cs : List Node}, EvalSafeList cs → ∀ c ∈ cs, c.EvalSafe
  | [], _, c, hc => by cases hc
  | c' :: cs, h, c, hc => by
    simp only [EvalSafeList] at h
    cases hc with
    | head => exact h.1
    | tail _ hm => exact EvalSafeList_mem h.2 c hm

theorem evalArray_noPanic (ev : Node → EvalOut) : ∀ (cs : List Node) (acc : List V),
    (∀ c ∈ cs, NoRealPanic (ev c)) → NoRealPanic (evalArray ev cs acc)
  | [], acc, _ => by intro s h; simp [evalArray] at h
  | [c], acc, h => by
    intro s hs
    simp only [evalArray] at hs
    cases hc : ev c with
    | ok v => simp [hc] at hs
    | err p m => simp [hc] at hs
    | panic s' =>
      simp only [hc] at hs
      cases hs
      exact h c (by simp) s hc
  | c :: d :: rest, acc, h => by
    intro s hs
    simp only [evalArray] at hs
    cases hc : ev c with
    | ok v =>
      simp only [hc] at hs
      exact evalArray_noPanic ev rest _ (fun x hx => h x (by simp [hx])) s hs
    | err p m => simp [hc] at hs
    | panic s' =>
      simp only [hc] at hs
      cases hs
      exact h c (by simp) s hc

end PV

namespace PV
open PV.Text

theorem evalKeyValue_noPanic (ev : Node → EvalOut) (hev : ∀ c, c.EvalSafe → NoRealPanic (ev c))
    (hstr : ∀ t k p r, ev (.term t (.str k) p r) = .ok (.str k) ∨ ev (.term t (.str k) p r) = .panic "out of fuel")
    (kv : Node) (hs : kv.EvalSafe) (hk : KvShape kv) (acc : List (Bytes × V)) :
    ∀ e, evalKeyValue ev kv acc = .error e → NoRealPanic e := by
  intro e he
  cases kv with
  | nt tk kcs p r i =>
    cases kcs with
    | nil => simp [KvShape] at hk
    | cons k0 rest =>
      cases k0 with
      | term t v p0 r0 =>
        cases v with
        | str key =>
          cases rest with
          | nil => simp [KvShape] at hk
          | cons k1 rest2 =>
            cases rest2 with
            | nil => simp [KvShape] at hk
            | cons vn rest3 =>
              have hsl : EvalSafeList (Node.term t (.str key) p0 r0 :: k1 :: vn :: rest3) := by
                unfold Node.EvalSafe at hs
                exact hs.1
              have hvn : vn.EvalSafe := EvalSafeList_mem hsl vn (by simp)
              simp only [evalKeyValue, List.getElem?_cons_zero, List.getElem?_cons_succ] at he
              cases hstr t key p0 r0 with
              | inl h1 =>
                simp only [h1] at he
                cases hv : ev vn with
                | ok v => simp [hv] at he
                | err pp m => simp only [hv] at he; cases he; intro s hs'; cases hs'
                | panic s' =>
                  simp only [hv] at he
                  cases he
                  rw [← hv]; exact hev vn hvn
              | inr h1 =>
                simp only [h1] at he
                cases he
                intro s hs'; cases hs'; rfl
        | _ => simp [KvShape] at hk
      | _ => simp [KvShape] at hk
  | _ => simp [KvShape] at hk

theorem evalObject_noPanic (ev : Node → EvalOut) (hev : ∀ c, c.EvalSafe → NoRealPanic (ev c))
    (hstr : ∀ t k p r, ev (.term t (.str k) p r) = .ok (.str k) ∨ ev (.term t (.str k) p r) = .panic "out of fuel") :
    ∀ (cs : List Node) (acc : List (Bytes × V)), EvalSafeList cs → ObjShape cs → NoRealPanic (evalObject ev cs acc)
  | [], acc, _, _ => by intro s h; simp [evalObject] at h
  | [kv], acc, hs, ho => by
    have hkv : kv.EvalSafe := EvalSafeList_mem hs kv (by simp)
    have hk : KvShape kv := by simpa only [ObjShape] using ho
    intro s h
    simp only [evalObject] at h
    cases hr : evalKeyValue ev kv acc with
    | ok a => simp [hr] at h
    | error e =>
      simp only [hr] at h
      exact evalKeyValue_noPanic ev hev hstr kv hkv hk acc e hr s h
  | kv :: d :: rest, acc, hs, ho => by
    have hkv : kv.EvalSafe := EvalSafeList_mem hs kv (by simp)
    have ho' : KvShape kv ∧ ObjShape rest := by simpa only [ObjShape] using ho
    have hsr : EvalSafeList rest := by
      simp only [EvalSafeList] at hs
      exact hs.2.2
    intro s h
    simp only [evalObject] at h
    cases hr : evalKeyValue ev kv acc with
    | ok a =>
      simp only [hr] at h
      exact evalObject_noPanic ev hev hstr rest a hsr ho'.2 s h
    | error e =>
      simp only [hr] at h
      exact evalKeyValue_noPanic ev hev hstr kv hkv ho'.1 acc e hr s h

theorem EvalSafe_nt (tk : Bytes) (cs : List Node) (p r : Nat) (interp : Interp)
    (h : (Node.nt tk cs p r interp).EvalSafe) :
    EvalSafeList cs ∧ interp ≠ .none ∧ (∀ i, interp = .select i → i < cs.length) ∧ (interp = .object → ObjShape cs) := by
  unfold Node.EvalSafe at h
  cases interp <;> simp_all

/-- evaluation of a tree whose interpreters are applicable never panics (the evaluator's own "out of fuel"
    aside), whatever the custom interpreters do as long as they do not panic themselves -/
theorem evalNode_noPanic (ce : CustomEval)
    (hce : ∀ id cs pos ev, (∀ c ∈ cs, NoRealPanic (ev c)) → NoRealPanic (ce id cs pos ev)) :
    ∀ (fuel : Nat) (x : Node), x.EvalSafe → NoRealPanic (evalNode ce fuel x) := by
  intro fuel
  induction fuel with
  | zero => intro x _ s h; simp only [evalNode] at h; cases h; rfl
  | succ fuel ih =>
    intro x hx s h
    cases x with
    | term t v p r => simp [evalNode] at h
    | empty p => simp [evalNode] at h
    | eof p => simp [evalNode] at h
    | nt tk cs p r interp =>
      have hx' := EvalSafe_nt tk cs p r interp hx
      have hch : ∀ c ∈ cs, NoRealPanic (evalNode ce fuel c) := fun c hc => ih c (EvalSafeList_mem hx'.1 c hc)
      cases interp with
      | none => exact absurd rfl hx'.2.1
      | nilI => simp [evalNode] at h
      | select i =>
        have hi : i < cs.length := hx'.2.2.1 i rfl
        simp only [evalNode] at h
        have : cs[i]? = some cs[i] := List.getElem?_eq_getElem hi
        rw [this] at h
        exact hch cs[i] (List.getElem_mem hi) s h
      | array =>
        simp only [evalNode] at h
        exact evalArray_noPanic _ cs [] hch s h
      | object =>
        simp only [evalNode] at h
        refine evalObject_noPanic (evalNode ce fuel) ih ?_ cs [] hx'.1 (hx'.2.2.2 rfl) s h
        intro t k p' r'
        cases fuel with
        | zero => exact .inr rfl
        | succ f => exact .inl rfl
      | custom id =>
        simp only [evalNode] at h
        exact hce id cs p (evalNode ce fuel) hch s h

end PV

namespace PV

theorem nlAppend1_ne_nil (nl : List Node) (n : Node) : nlAppend1 nl n ≠ [] := by
  unfold nlAppend1
  split
  · split
    · rename_i hany
      intro hnil
      rw [hnil] at hany
      simp at hany
    · simp
  · simp

theorem appendNode_one_alts_ne (a : Res) (n : Node) : (appendNode a (.one n)).alts ≠ [] := by
  cases a with
  | nil => simp [appendNode, Res.alts]
  | one m => simpa [appendNode, Res.alts, nlAppend] using nlAppend1_ne_nil [m] n
  | list l => simpa [appendNode, Res.alts, nlAppend] using nlAppend1_ne_nil l n

/-- a Sequence-family parser either leaves its result untouched or has at least one alternative -/
theorem seqParse_result (r : RunFn) (sh : SeqShape) :
    ∀ (fuel : Nat) (fr : Frame) ss st b ss' st', fr.depth = fr.nodes.length →
      seqParse r sh fuel fr.depth fr.nodes fr.ctx fr.pos fr.merge ss st = some (b, ss', st') →
      ss'.result = ss.result ∨ ss'.result.alts ≠ [] := by
  have hafter : ∀ (m : Bool) (ss : SeqSt) (o : Out), (seqAfter m ss o).result = ss.result := by
    intro m ss o; unfold seqAfter; split <;> rfl
  intro fuel fr ss st b ss' st' hd h
  refine seqParse_ind r sh (fun _ _ _ => True)
    (fun ss _ ss' _ => ss'.result = ss.result ∨ ss'.result.alts ≠ []) ?_ ?_ ?_ ?_ ?_ fuel fr ss st b ss' st' trivial hd h
  · intro ss st; exact .inl rfl
  · intro a b c d e f h1 h2
    cases h2 with
    | inl h2 => rw [h2]; exact h1
    | inr h2 => exact .inr h2
  · intro _ _ _ _ _ _ _; trivial
  · intro fr ss st g o st1 _ _ _ _
    refine ⟨.inl (hafter _ _ _), fun _ _ => trivial, fun _ _ => .inr ?_⟩
    simp only [seqEmit]
    exact appendNode_one_alts_ne _ _
  · intro fr ss st _ _ _ _
    refine .inr ?_
    simp only [seqEmit]
    exact appendNode_one_alts_ne _ _

end PV
