import ParsleyVerif.Proofs.DataHeap
namespace PV.Data

/-! ### functional correctness of insertValue against `sInsert` -/

theorem pairwise_getD {l : List Int} (hs : l.Pairwise (· < ·)) {a b : Nat} (hab : a < b) (hb : b < l.length) :
    l.getD a 0 < l.getD b 0 := by
  have ha : a < l.length := by omega
  have e1 : l.getD a 0 = l[a] := by simp [List.getD_eq_getElem?_getD, ha]
  have e2 : l.getD b 0 = l[b] := by simp [List.getD_eq_getElem?_getD, hb]
  rw [e1, e2]
  exact (List.pairwise_iff_getElem.mp hs) a b ha hb hab

theorem goSearchInts_spec (l : List Int) (v : Int) (hs : l.Pairwise (· < ·)) :
    goSearchInts l v ≤ l.length ∧ (∀ k, k < goSearchInts l v → l.getD k 0 < v) ∧
    (goSearchInts l v < l.length → l.getD (goSearchInts l v) 0 ≥ v) := by
  have mono : ∀ a b, a ≤ b → b < l.length →
      (fun i => decide (l.getD i 0 ≥ v)) a = true → (fun i => decide (l.getD i 0 ≥ v)) b = true := by
    intro a b hab hb ha
    simp only [decide_eq_true_eq] at ha ⊢
    by_cases h : a = b
    · subst h; exact ha
    · have := pairwise_getD hs (show a < b by omega) hb
      omega
  obtain ⟨h1, h2, h3⟩ := goSearch_spec _ l.length mono
  refine ⟨h1, ?_, ?_⟩
  · intro k hk
    have := h2 k hk
    simp only [decide_eq_false_iff_not] at this
    omega
  · intro hlt
    have := h3 hlt
    simp only [decide_eq_true_eq] at this
    exact this

theorem sInsert_index (l : List Int) (v : Int) : ∀ (idx : Nat), idx ≤ l.length →
    (∀ k, k < idx → l.getD k 0 < v) → (idx < l.length → l.getD idx 0 ≥ v) →
    sInsert l v = if idx < l.length ∧ l.getD idx 0 = v then l else l.take idx ++ v :: l.drop idx := by
  induction l with
  | nil => intro idx h1 _ _; simp at h1; subst h1; simp [sInsert]
  | cons x xs ih =>
    intro idx h1 hlo hhi
    cases idx with
    | zero =>
      have hx : x ≥ v := by simpa using hhi (by simp)
      simp only [sInsert, List.getD_cons_zero, List.length_cons, Nat.zero_lt_succ, true_and, List.take_zero,
        List.drop_zero, List.nil_append]
      by_cases h : v < x
      · simp [h]; omega
      · have : v = x := by omega
        simp [this]
    | succ k =>
      have hx : x < v := by simpa using hlo 0 (by omega)
      have := ih k (by simpa using h1) (fun j hj => by simpa using hlo (j + 1) (by omega))
        (fun hk => by simpa using hhi (by simpa using hk))
      simp only [sInsert]
      rw [if_neg (by omega), if_neg (by omega), this]
      simp only [List.length_cons, Nat.add_lt_add_iff_right, List.getD_cons_succ, List.take_succ_cons,
        List.drop_succ_cons]
      split <;> simp

theorem copyShift_set (l rest : List Int) (z : Int) (idx : Nat) (v : Int) (hi : idx ≤ l.length) :
    (copyShift (l ++ z :: rest) idx l.length).set idx v = l.take idx ++ v :: l.drop idx ++ rest := by
  unfold copyShift
  apply List.ext_getElem?
  intro i
  simp only [List.getElem?_set, List.getElem?_append, List.getElem?_take, List.getElem?_drop,
    List.length_append, List.length_take, List.length_drop, List.length_cons, List.getElem?_cons]
  grind

theorem sInsert_sorted (l : List Int) (v : Int) (hs : l.Pairwise (· < ·)) : (sInsert l v).Pairwise (· < ·) := by
  induction l with
  | nil => simp [sInsert]
  | cons x xs ih =>
    simp only [sInsert]
    have hx := (List.pairwise_cons.mp hs)
    split
    · exact List.pairwise_cons.mpr ⟨fun a ha => by
        rcases List.mem_cons.mp ha with h | h
        · omega
        · have := hx.1 a h; omega, hs⟩
    · split
      · exact hs
      · refine List.pairwise_cons.mpr ⟨?_, ih hx.2⟩
        intro a ha
        have hm : ∀ (l : List Int) (a : Int), a ∈ sInsert l v → a ∈ l ∨ a = v := by
          intro l
          induction l with
          | nil => intro a h; simp [sInsert] at h; exact Or.inr h
          | cons y ys ih2 =>
            intro a h
            simp only [sInsert] at h
            split at h
            · rcases List.mem_cons.mp h with h | h
              · exact Or.inr h
              · exact Or.inl h
            · split at h
              · exact Or.inl h
              · rcases List.mem_cons.mp h with h | h
                · exact Or.inl (by simp [h])
                · rcases ih2 a h with h | h
                  · exact Or.inl (List.mem_cons_of_mem _ h)
                  · exact Or.inr h
        rcases hm xs a ha with h | h
        · exact hx.1 a h
        · omega

theorem mem_sInsert (l : List Int) (v a : Int) : a ∈ sInsert l v ↔ a ∈ l ∨ a = v := by
  induction l with
  | nil => simp [sInsert]
  | cons x xs ih =>
    simp only [sInsert]
    split
    · simp; grind
    · split
      · rename_i h; simp; grind
      · simp [ih]; grind

/-- insertValue on a well-formed, sorted, private (arr ≥ base) slice -/
theorem insertValue_spec (grow : Nat → Nat) (h : Heap) (s : Slice) (v : Int) (w : SWF h s)
    (hs : (view h s).Pairwise (· < ·)) (base : Nat) (hb : base ≤ s.arr) :
    SWF (insertValue grow h s v).1 (insertValue grow h s v).2 ∧
    view (insertValue grow h s v).1 (insertValue grow h s v).2 = sInsert (view h s) v ∧
    Frame base h (insertValue grow h s v).1 ∧ base ≤ (insertValue grow h s v).2.arr := by
  have hlen : (view h s).length = s.len := by
    have := w.2.1; have := w.2.2; simp [view]; omega
  obtain ⟨g1, g2, g3⟩ := goSearchInts_spec (view h s) v hs
  have hsi := sInsert_index (view h s) v (goSearchInts (view h s) v) g1 g2 g3
  unfold insertValue
  simp only []
  by_cases hc : goSearchInts (view h s) v < s.len ∧ (view h s).getD (goSearchInts (view h s) v) 0 = v
  · rw [if_pos hc]
    refine ⟨w, ?_, Frame.refl _ _, hb⟩
    rw [hsi, if_pos (by rw [hlen]; exact hc)]
  · rw [if_neg hc]
    obtain ⟨a1, a2, a3, a4, a5⟩ := append_spec grow h s 0 w base hb
    generalize hap : append grow h s 0 = ap at a1 a2 a3 a4 a5
    obtain ⟨h1, s1⟩ := ap
    simp only at a1 a2 a3 a4 a5 ⊢
    have hidx : goSearchInts (view h s) v ≤ (view h s).length := g1
    -- the array of s1 is (view h s ++ [0]) ++ rest
    have hc1 : cells h1 s1.arr = view h s ++ 0 :: (cells h1 s1.arr).drop (s.len + 1) := by
      have : (cells h1 s1.arr).take (s.len + 1) = view h s ++ [0] := by rw [← a5]; exact a2
      calc cells h1 s1.arr = (cells h1 s1.arr).take (s.len + 1) ++ (cells h1 s1.arr).drop (s.len + 1) := by simp
        _ = _ := by rw [this]; simp
    have hset : ∀ (hh : Heap) (a : Nat) (c : List Int), a < hh.length → cells (setCells hh a c) a = c := by
      intro hh a c ha; simp [setCells, cells_modify_same _ _ _ ha]
    have hs1 : s1.arr < h1.length := a1.1
    have key : cells (writeCell (setCells h1 s1.arr (copyShift (cells h1 s1.arr) (goSearchInts (view h s) v) s.len)) s1.arr
        (goSearchInts (view h s) v) v) s1.arr =
        (view h s).take (goSearchInts (view h s) v) ++ v :: (view h s).drop (goSearchInts (view h s) v) ++
          (cells h1 s1.arr).drop (s.len + 1) := by
      have l1 : s1.arr < (setCells h1 s1.arr (copyShift (cells h1 s1.arr) (goSearchInts (view h s) v) s.len)).length := by
        simp [setCells]; exact hs1
      simp only [writeCell, cells_modify_same _ _ _ l1, hset _ _ _ hs1]
      have := copyShift_set (view h s) ((cells h1 s1.arr).drop (s.len + 1)) 0 (goSearchInts (view h s) v) v hidx
      rw [hlen] at this
      rw [← this, ← hc1]
    refine ⟨⟨?_, a1.2.1, ?_⟩, ?_, ⟨?_, ?_⟩, a4⟩
    · simp [writeCell, setCells]; exact hs1
    · rw [key]
      have := a1.2.2
      rw [hc1] at this
      simp at this ⊢
      omega
    · show List.take s1.len _ = _
      rw [key, hsi, if_neg (by rw [hlen]; exact hc), a5]
      have : ((view h s).take (goSearchInts (view h s) v) ++ v :: (view h s).drop (goSearchInts (view h s) v)).length = s.len + 1 := by
        simp; omega
      rw [List.take_append_of_le_length (by omega), List.take_of_length_le (by omega)]
    · simp [writeCell, setCells]; exact a3.1
    · intro a ha
      simp only [writeCell, setCells]
      rw [cells_modify_ne _ _ _ _ (by omega), cells_modify_ne _ _ _ _ (by omega)]
      exact a3.2 a ha

end PV.Data
