/-
  C16, full value theorem — layer 3c: the recursion over documents.

  `value_ok`   the `value` rule finds `d.tree pos` at the first byte of `d.render` (followed by a delimiter);
  `items_ok`   after an array element, SepBy's chain continues through `, value` for every further item and stops
               (the separator fails) where the closer stands;
  `mems_ok`    the same for the members of an object.
-/
import ParsleyVerif.Proofs.J16Cont
namespace PV.J16
open PV PV.Text

theorem arr_render_cons (wc wb : Bytes) (d : JDoc) (r : JItems) (close tail : Bytes) :
    (JDoc.arr (.cons wc wb d r) close).render ++ tail =
      91 :: (wb ++ (d.render ++ (r.renderMore ++ (close ++ 93 :: tail)))) := by
  simp [JDoc.render]

theorem arr_render_nil (close tail : Bytes) : (JDoc.arr .nil close).render ++ tail = 91 :: (close ++ 93 :: tail) := by
  simp [JDoc.render]

theorem obj_render_cons (wc wb : Bytes) (k : List SElem) (wk wv : Bytes) (d : JDoc) (r : JMems) (close tail : Bytes) :
    (JDoc.obj (.cons wc wb k wk wv d r) close).render ++ tail =
      123 :: (wb ++ (renderStr k ++ (wk ++ 58 :: (wv ++ (d.render ++ (r.renderMore ++ (close ++ 125 :: tail))))))) := by
  simp [JDoc.render]

theorem obj_render_nil (close tail : Bytes) : (JDoc.obj .nil close).render ++ tail = 123 :: (close ++ 125 :: tail) := by
  simp [JDoc.render]

theorem items_renderMore_cons (wc wb : Bytes) (d : JDoc) (r : JItems) (Z : Bytes) :
    (JItems.cons wc wb d r).renderMore ++ Z = wc ++ 44 :: (wb ++ (d.render ++ (r.renderMore ++ Z))) := by
  simp [JItems.renderMore]

theorem mems_renderMore_cons (wc wb : Bytes) (k : List SElem) (wk wv : Bytes) (d : JDoc) (r : JMems) (Z : Bytes) :
    (JMems.cons wc wb k wk wv d r).renderMore ++ Z =
      wc ++ 44 :: (wb ++ (renderStr k ++ (wk ++ 58 :: (wv ++ (d.render ++ (r.renderMore ++ Z)))))) := by
  simp [JMems.renderMore]

theorem renderStr_stop (k : List SElem) (T : Bytes) : Stop (renderStr k ++ T) := by
  simp only [renderStr, List.cons_append]; exact stop_cons 34 _ (by decide)

mutual
theorem value_ok {cfg : Cfg} (hS : Std cfg) : ∀ (d : JDoc), d.OK → d.FloatsOk cfg.params → ∀ (pos : Nat) (tail : Bytes),
    At cfg pos (d.render ++ tail) → Delim tail → Succ cfg (.ref 0) pos (d.tree pos)
  | .null, _, _, _, _, hat, ht => value_null hS hat ht
  | .bool b, _, _, _, _, hat, ht => value_bool hS b hat ht
  | .int i, hd, _, _, _, hat, ht => value_int hS i hd hat ht
  | .dec x, hd, hf, _, _, hat, ht => value_dec hS x hd hf hat ht
  | .str s, hd, _, _, _, hat, _ => value_str hS s hd hat
  | .arr .nil close, hd, _, pos, tail, hat, _ => by
    have hc : WsNl close := by simp only [JDoc.OK] at hd; exact hd.2
    have hat0 : At cfg pos (91 :: (close ++ 93 :: tail)) := arr_render_nil close tail ▸ hat
    have hel := elems_empty hS hat0.adv1 hc
    have := array_of_elems hS hat0 hel hat0.adv1 hc
    exact value_of_array hS hat0 this
  | .arr (.cons wc wb d r) close, hd, hf, pos, tail, hat, _ => by
    simp only [JDoc.OK, JItems.OK] at hd
    obtain ⟨⟨_, hwb, hdd, hr⟩, hc⟩ := hd
    simp only [JDoc.FloatsOk, JItems.FloatsOk] at hf
    have hat0 := arr_render_cons wc wb d r close tail ▸ hat
    have hat1 := hat0.adv1
    have hat2 := hat1.adv
    have hat3 := hat2.adv
    have hat4 := hat3.adv
    have hv := value_ok hS d hdd hf.1 _ _ hat2 (delim_items r hr close hc tail)
    have hfirst := ltrim_nl_ok hS hat1 hwb (render_stop d hdd _) hv
    have hrest := items_ok hS r hr hf.2 1 _ close tail rfl hc hat3
    have hch : ShChain cfg elemsShape 0 (pos + 1)
        (d.tree (pos + 1 + wb.length) :: r.moreNodes (pos + 1 + wb.length + d.render.length)) :=
      .step (g := .ltrim Gjson.value .spacesNl) rfl hfirst (by rw [tree_rpos]; exact hrest)
    have hel := elems_of_chain hS hch (items_even r _)
    rw [tree_pos, items_last r _ _ (tree_rpos d _)] at hel
    have := array_of_elems hS hat0 hel hat4 hc
    rw [JDoc.tree]
    exact value_of_array hS hat0 this
  | .obj .nil close, hd, _, pos, tail, hat, _ => by
    have hc : WsNl close := by simp only [JDoc.OK] at hd; exact hd.2
    have hat0 : At cfg pos (123 :: (close ++ 125 :: tail)) := obj_render_nil close tail ▸ hat
    have hel := members_empty hS hat0.adv1 hc
    have := object_of_members hS hat0 hel hat0.adv1 hc
    exact value_of_object hS hat0 this
  | .obj (.cons wc wb k wk wv d r) close, hd, hf, pos, tail, hat, _ => by
    simp only [JDoc.OK, JMems.OK] at hd
    obtain ⟨⟨_, hwb, hk, hwk, hwv, hdd, hr⟩, hc⟩ := hd
    simp only [JDoc.FloatsOk, JMems.FloatsOk] at hf
    have hat0 := obj_render_cons wc wb k wk wv d r close tail ▸ hat
    have hat1 := hat0.adv1
    have hat2 := hat1.adv
    have hat3 := hat2.adv.adv.adv1.adv
    have hat4 := hat3.adv
    have hat5 := hat4.adv
    have hv := value_ok hS d hdd hf.1 _ _ hat3 (delim_mems r hr close hc tail)
    have hkv := kv_ok hS k hk wk wv hwk hwv d hdd hat2 hv
    have hfirst := ltrim_nl_ok hS hat1 hwb (renderStr_stop k _) hkv
    have hrest := mems_ok hS r hr hf.2 1 _ close tail rfl hc hat4
    have hch : ShChain cfg membersShape 0 (pos + 1)
        (kvNode k wk wv d.render.length d.tree (pos + 1 + wb.length) ::
          r.moreNodes (pos + 1 + wb.length + (renderStr k).length + wk.length + 1 + wv.length + d.render.length)) :=
      .step (g := .ltrim Gjson.keyValue .spacesNl) rfl hfirst (by rw [kvNode_rpos]; exact hrest)
    have hel := members_of_chain hS hch (mems_even r _)
    rw [mems_last r _ _ (kvNode_rpos _ _ _ _ _ _)] at hel
    have := object_of_members hS hat0 hel hat5 hc
    rw [JDoc.tree]
    exact value_of_object hS hat0 this

theorem items_ok {cfg : Cfg} (hS : Std cfg) : ∀ (r : JItems), r.OK → r.FloatsOk cfg.params →
    ∀ (depth pos : Nat) (close tail : Bytes), depth % 2 = 1 → WsNl close →
    At cfg pos (r.renderMore ++ (close ++ 93 :: tail)) → ShChain cfg elemsShape depth pos (r.moreNodes pos)
  | .nil, _, _, depth, pos, close, tail, hdep, hc, hat => by
    have hat0 : At cfg pos (close ++ 93 :: tail) := hat
    exact .stopFail (g := Gjson.comma) (lookup_odd elemsShape _ _ rfl depth hdep)
      (comma_fails hS (by decide) (by omega) hat0 hc)
  | .cons wc wb d r, hr, hf, depth, pos, close, tail, hdep, hc, hat => by
    simp only [JItems.OK] at hr
    obtain ⟨hwc, hwb, hdd, hr'⟩ := hr
    simp only [JItems.FloatsOk] at hf
    have hat0 := items_renderMore_cons wc wb d r (close ++ 93 :: tail) ▸ hat
    have hat1 := hat0.adv.adv1
    have hat2 := hat1.adv
    have hat3 := hat2.adv
    have hcomma := sep_ok hS (c := 44) (by omega) (by decide) hat0 hwc
    have hv := value_ok hS d hdd hf.1 _ _ hat2 (delim_items r hr' close hc tail)
    have hval := ltrim_nl_ok hS hat1 hwb (render_stop d hdd _) hv
    have hrest := items_ok hS r hr' hf.2 (depth + 1 + 1) _ close tail (by omega) hc hat3
    rw [JItems.moreNodes]
    exact .step (g := Gjson.comma) (lookup_odd elemsShape _ _ rfl depth hdep) hcomma
      (.step (g := .ltrim Gjson.value .spacesNl) (lookup_even elemsShape _ _ rfl (depth + 1) (by omega)) hval
        (by rw [tree_rpos]; exact hrest))

theorem mems_ok {cfg : Cfg} (hS : Std cfg) : ∀ (r : JMems), r.OK → r.FloatsOk cfg.params →
    ∀ (depth pos : Nat) (close tail : Bytes), depth % 2 = 1 → WsNl close →
    At cfg pos (r.renderMore ++ (close ++ 125 :: tail)) → ShChain cfg membersShape depth pos (r.moreNodes pos)
  | .nil, _, _, depth, pos, close, tail, hdep, hc, hat => by
    have hat0 : At cfg pos (close ++ 125 :: tail) := hat
    exact .stopFail (g := Gjson.comma) (lookup_odd membersShape _ _ rfl depth hdep)
      (comma_fails hS (by decide) (by omega) hat0 hc)
  | .cons wc wb k wk wv d r, hr, hf, depth, pos, close, tail, hdep, hc, hat => by
    simp only [JMems.OK] at hr
    obtain ⟨hwc, hwb, hk, hwk, hwv, hdd, hr'⟩ := hr
    simp only [JMems.FloatsOk] at hf
    have hat0 := mems_renderMore_cons wc wb k wk wv d r (close ++ 125 :: tail) ▸ hat
    have hat1 := hat0.adv.adv1
    have hat2 := hat1.adv
    have hat3 := hat2.adv.adv.adv1.adv
    have hat4 := hat3.adv
    have hcomma := sep_ok hS (c := 44) (by omega) (by decide) hat0 hwc
    have hv := value_ok hS d hdd hf.1 _ _ hat3 (delim_mems r hr' close hc tail)
    have hkv := kv_ok hS k hk wk wv hwk hwv d hdd hat2 hv
    have hval := ltrim_nl_ok hS hat1 hwb (renderStr_stop k _) hkv
    have hrest := mems_ok hS r hr' hf.2 (depth + 1 + 1) _ close tail (by omega) hc hat4
    rw [JMems.moreNodes]
    exact .step (g := Gjson.comma) (lookup_odd membersShape _ _ rfl depth hdep) hcomma
      (.step (g := .ltrim Gjson.keyValue .spacesNl) (lookup_even membersShape _ _ rfl (depth + 1) (by omega)) hval
        (by rw [kvNode_rpos]; exact hrest))
end

end PV.J16
