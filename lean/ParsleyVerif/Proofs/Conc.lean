/-
  C14 — lemmas about the interleaving machines of Model/Conc.lean.
-/
import ParsleyVerif.Model.Conc
namespace PV.Conc

theorem upd_same {N : Nat} {β : Fin N → Type} (f : (i : Fin N) → β i) (i : Fin N) (v : β i) :
    upd f i v i = v := by
  simp [upd]

theorem upd_other {N : Nat} {β : Fin N → Type} (f : (i : Fin N) → β i) (i j : Fin N) (v : β i) (h : j ≠ i) :
    upd f i v j = f j := by
  simp [upd, h]

/-! ### Machine -/
namespace Machine
variable {N : Nat} (M : Machine N)

theorem stepRun_graph (s : State M) (j : Fin N) : (M.stepRun s j).graph = s.graph := by
  unfold stepRun; split <;> rfl

theorem stepRun_counter (s : State M) (j : Fin N) : (M.stepRun s j).counter = s.counter := by
  unfold stepRun; split <;> rfl

theorem stepRun_self (s : State M) (i : Fin N) :
    (M.stepRun s i).locals i = M.soloStep i s.graph (s.locals i) := by
  unfold stepRun soloStep
  split
  · next h => rw [h]; rfl
  · next l h => rw [h]; exact upd_same _ _ _

theorem stepRun_other (s : State M) (i j : Fin N) (h : i ≠ j) :
    (M.stepRun s j).locals i = s.locals i := by
  unfold stepRun
  split
  · rfl
  · exact upd_other _ _ _ _ h

theorem run_graph_counter (sched : List (Fin N)) :
    ∀ s : State M, (M.run sched s).graph = s.graph ∧ (M.run sched s).counter = s.counter := by
  induction sched with
  | nil => intro s; exact ⟨rfl, rfl⟩
  | cons j rest ih =>
    intro s
    have := ih (M.stepRun s j)
    rw [stepRun_graph, stepRun_counter] at this
    exact this

theorem run_locals (i : Fin N) (sched : List (Fin N)) :
    ∀ s : State M, (M.run sched s).locals i = M.solo i s.graph (occ i sched) (s.locals i) := by
  induction sched with
  | nil => intro s; rfl
  | cons j rest ih =>
    intro s
    show (M.run rest (M.stepRun s j)).locals i = _
    rw [ih, stepRun_graph]
    by_cases h : j = i
    · subst h
      rw [stepRun_self]
      simp [occ, Nat.add_comm 1, solo]
    · rw [stepRun_other M s i j (fun e => h e.symm)]
      simp [occ, h]

/-- a finished run stays where it is -/
theorem solo_stable (i : Fin N) (g : M.Graph) (l : M.Local i) (h : M.step i g l = none) :
    ∀ n, M.solo i g n l = l := by
  intro n
  induction n with
  | zero => rfl
  | succ n ih =>
    show M.solo i g n (M.soloStep i g l) = l
    have : M.soloStep i g l = l := by simp [soloStep, h]
    rw [this, ih]

theorem solo_add (i : Fin N) (g : M.Graph) (m : Nat) :
    ∀ (n : Nat) (l : M.Local i), M.solo i g (n + m) l = M.solo i g m (M.solo i g n l) := by
  intro n
  induction n with
  | zero => intro l; simp [solo]
  | succ n ih =>
    intro l
    rw [Nat.add_right_comm]
    show M.solo i g (n + m) (M.soloStep i g l) = M.solo i g m (M.solo i g n (M.soloStep i g l))
    exact ih _

/-- two finishing points of the same solo run are the same state -/
theorem solo_final_unique (i : Fin N) (g : M.Graph) (l : M.Local i) (n m : Nat)
    (hn : M.step i g (M.solo i g n l) = none) (hm : M.step i g (M.solo i g m l) = none) :
    M.solo i g n l = M.solo i g m l := by
  rcases Nat.le_total n m with h | h
  · obtain ⟨d, rfl⟩ := Nat.exists_eq_add_of_le h
    rw [solo_add, solo_stable M i g _ hn]
  · obtain ⟨d, rfl⟩ := Nat.exists_eq_add_of_le h
    rw [solo_add, solo_stable M i g _ hm]

end Machine

/-! ### HMachine -/
namespace HMachine
variable {N : Nat} {Loc Val : Type} (H : HMachine N Loc Val)

theorem agree_refl (own : Fin N → Loc → Prop) (ro : Loc → Prop) (i : Fin N) (h : Loc → Val) :
    Agree own ro i h h := fun _ _ => rfl

/-- a step of another run is invisible on `own i ∪ ro` -/
theorem stepRun_other {own : Fin N → Loc → Prop} {ro : Loc → Prop} (F : H.Footprint own ro)
    (i j : Fin N) (hij : j ≠ i) (h : Loc → Val) : Agree own ro i (H.stepRun h j) h := by
  intro l hl
  unfold stepRun
  cases hs : H.step j h with
  | none => rfl
  | some h' =>
    show h' l = h l
    apply F.writes_own j h h' l hs
    rcases hl with hl | hl
    · exact fun hj => F.own_disjoint j i l hij hj hl
    · exact fun hj => F.ro_disjoint j l hj hl

/-- a step of run `i` maps heaps that agree on `own i ∪ ro` to heaps that agree on it -/
theorem stepRun_self {own : Fin N → Loc → Prop} {ro : Loc → Prop} (F : H.Footprint own ro)
    (i : Fin N) (h₁ h₂ : Loc → Val) (hag : Agree own ro i h₁ h₂) :
    Agree own ro i (H.stepRun h₁ i) (H.stepRun h₂ i) := by
  have hh := F.reads_halt i h₁ h₂ hag
  unfold stepRun
  cases h1 : H.step i h₁ with
  | none =>
    cases h2 : H.step i h₂ with
    | none => exact hag
    | some b => rw [h1, h2] at hh; cases hh
  | some a =>
    cases h2 : H.step i h₂ with
    | none => rw [h1, h2] at hh; cases hh
    | some b => exact F.reads_val i h₁ h₂ a b hag h1 h2

theorem run_agree {own : Fin N → Loc → Prop} {ro : Loc → Prop} (F : H.Footprint own ro)
    (i : Fin N) (sched : List (Fin N)) :
    ∀ h₁ h₂ : Loc → Val, Agree own ro i h₁ h₂ →
      Agree own ro i (H.run sched h₁) (H.solo i (occ i sched) h₂) := by
  induction sched with
  | nil => intro h₁ h₂ hag; exact hag
  | cons j rest ih =>
    intro h₁ h₂ hag
    show Agree own ro i (H.run rest (H.stepRun h₁ j)) _
    by_cases hj : j = i
    · subst hj
      have : occ j (j :: rest) = occ j rest + 1 := by simp [occ, Nat.add_comm]
      rw [this]
      show Agree own ro j _ (H.solo j (occ j rest) (H.stepRun h₂ j))
      exact ih _ _ (stepRun_self H F j h₁ h₂ hag)
    · have : occ i (j :: rest) = occ i rest := by simp [occ, hj]
      rw [this]
      apply ih
      intro l hl
      rw [stepRun_other H F i j hj h₁ l hl]
      exact hag l hl

/-- the shared part is never written -/
theorem run_ro {own : Fin N → Loc → Prop} {ro : Loc → Prop} (F : H.Footprint own ro)
    (sched : List (Fin N)) : ∀ (h : Loc → Val) (l : Loc), ro l → H.run sched h l = h l := by
  induction sched with
  | nil => intro h l _; rfl
  | cons j rest ih =>
    intro h l hl
    show H.run rest (H.stepRun h j) l = h l
    rw [ih _ l hl]
    unfold stepRun
    cases hs : H.step j h with
    | none => rfl
    | some h' => exact F.writes_own j h h' l hs (fun hj => F.ro_disjoint j l hj hl)

end HMachine

/-! ### parser indexes -/

/-- every index handed out is at most the counter, and no two constructors hold the same one -/
def CInv {k : Nat} (s : CState k) : Prop :=
  (∀ i v, s.got i = some v → v ≤ s.counter) ∧
  (∀ i j v w, i ≠ j → s.got i = some v → s.got j = some w → v ≠ w)

theorem fetchAdd_inv {k : Nat} (s : CState k) (i : Fin k) (inv : CInv s) : CInv (fetchAdd s i) := by
  unfold fetchAdd
  split
  · exact inv
  · next hnone =>
    obtain ⟨hle, hne⟩ := inv
    refine ⟨?_, ?_⟩
    · intro a v
      show (if a = i then some (s.counter + 1) else s.got a) = some v → v ≤ s.counter + 1
      split
      · intro h; cases h; exact Nat.le_refl _
      · intro h; exact Nat.le_succ_of_le (hle a v h)
    · intro a b v w hab
      show (if a = i then some (s.counter + 1) else s.got a) = some v →
           (if b = i then some (s.counter + 1) else s.got b) = some w → v ≠ w
      by_cases ha : a = i
      · have hb : b ≠ i := fun e => hab (ha.trans e.symm)
        rw [if_pos ha, if_neg hb]
        intro h1 h2; cases h1
        have := hle b w h2
        omega
      · rw [if_neg ha]
        by_cases hb : b = i
        · rw [if_pos hb]
          intro h1 h2; cases h2
          have := hle a v h1
          omega
        · rw [if_neg hb]
          exact hne a b v w hab

theorem runAtomic_inv {k : Nat} (sched : List (Fin k)) : ∀ s : CState k, CInv s → CInv (runAtomic sched s) := by
  induction sched with
  | nil => intro s inv; exact inv
  | cons j rest ih => intro s inv; exact ih _ (fetchAdd_inv s j inv)

theorem init_inv (k c₀ : Nat) : CInv (CState.init k c₀) :=
  ⟨fun _ _ h => (by cases h), fun _ _ _ _ _ h => (by cases h)⟩

theorem fetchAdd_keeps {k : Nat} (s : CState k) (i j : Fin k) (h : (s.got j).isSome) :
    ((fetchAdd s i).got j).isSome := by
  unfold fetchAdd
  split
  · exact h
  · show (if j = i then some (s.counter + 1) else s.got j).isSome
    split
    · rfl
    · exact h

theorem fetchAdd_gets {k : Nat} (s : CState k) (i : Fin k) : ((fetchAdd s i).got i).isSome := by
  unfold fetchAdd
  split
  · next v h => rw [h]; rfl
  · show (if i = i then some (s.counter + 1) else s.got i).isSome
    rw [if_pos rfl]; rfl

theorem runAtomic_keeps {k : Nat} (sched : List (Fin k)) (j : Fin k) :
    ∀ s : CState k, (s.got j).isSome → ((runAtomic sched s).got j).isSome := by
  induction sched with
  | nil => intro s h; exact h
  | cons i rest ih => intro s h; exact ih _ (fetchAdd_keeps s i j h)

theorem runAtomic_gets {k : Nat} (sched : List (Fin k)) (j : Fin k) (hj : j ∈ sched) :
    ∀ s : CState k, ((runAtomic sched s).got j).isSome := by
  induction sched with
  | nil => cases hj
  | cons i rest ih =>
    intro s
    show ((runAtomic rest (fetchAdd s i)).got j).isSome
    rcases List.mem_cons.mp hj with h | h
    · subst h; exact runAtomic_keeps rest j _ (fetchAdd_gets s j)
    · exact ih h _

/-! ### the concrete heap machine keeps the discipline -/

theorem exHeap_footprint : exHeap.Footprint exOwn exRo := by
  refine ⟨?_, ?_, ?_, ?_, ?_⟩
  · intro i j l hij hi hj
    apply hij
    apply Fin.ext
    unfold exOwn at hi hj
    omega
  · intro i l hi hr
    unfold exOwn at hi
    unfold exRo at hr
    have := i.isLt
    omega
  · intro i h h' l hs hn
    unfold exOwn at hn
    simp only [exHeap] at hs
    split at hs
    · cases hs
      simp [hn]
    · cases hs
  · intro i h₁ h₂ hag
    have : h₁ i.val = h₂ i.val := hag i.val (Or.inl rfl)
    simp only [exHeap, this]
    split <;> rfl
  · intro i h₁ h₂ a b hag ha hb
    have e0 : h₁ i.val = h₂ i.val := hag i.val (Or.inl rfl)
    have e2 : h₁ 2 = h₂ 2 := hag 2 (Or.inr rfl)
    simp only [exHeap] at ha hb
    split at ha
    · split at hb
      · cases ha; cases hb
        intro l hl
        show (if l = i.val then h₁ l + h₁ 2 else h₁ l) = (if l = i.val then h₂ l + h₂ 2 else h₂ l)
        rw [hag l hl, e2]
      · cases hb
    · cases ha

end PV.Conc
