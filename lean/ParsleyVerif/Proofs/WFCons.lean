/-
  Soundness of `mayBeEmpty` (C02, certificate side): a parser that the certificate says cannot be empty
  only returns nodes that end strictly after the call position — from any state whose cache has that
  property, under any left-recursion context, with any fuel.  By induction on fuel; the positional
  invariant (`run_pos`) supplies spans.
-/
import ParsleyVerif.Spec.WF
import ParsleyVerif.Spec.Derives
import ParsleyVerif.Proofs.RunPos
import ParsleyVerif.Proofs.RunSound
namespace PV
open PV.Text

/-- a terminal never matches the empty lexeme -/
def TermCons (cfg : Cfg) (t : Terminal) : Prop :=
  ∀ pos n, InFile cfg.file pos → t.parse cfg.params cfg.file pos = .node n → n.rpos > pos

/-- the local conditions of the certificate, as a predicate on one sub-parser -/
def LocalP (c : WFCert) (cfg : Cfg) : G → Prop
  | .term t => TermCons cfg t
  | .memo i g => i ∈ c.memos ∧ (mayBeEmpty c g = true → c.nullM i = true)
  | .many g _ _ => mayBeEmpty c g = false
  | .sepBy v s _ _ => ¬ (mayBeEmpty c v = true ∧ mayBeEmpty c s = true)
  | _ => True

/-- a parser in the scope of the termination theorem: no trims, good terminals, local conditions everywhere -/
structure GWF (c : WFCert) (cfg : Cfg) (g : G) : Prop where
  core : g.Core (TermGood cfg)
  loc : g.All (LocalP c cfg)

structure EnvOK (c : WFCert) (cfg : Cfg) : Prop where
  maxCalls : cfg.maxCalls = 0
  rules : ∀ g ∈ cfg.env, GWF c cfg g
  nullable : ∀ k g, cfg.env[k]? = some g → mayBeEmpty c g = true → c.nullable k = true
  rank : ∀ k g, cfg.env[k]? = some g → ∀ k' ∈ leftRefsU c g, c.rank k' < c.rank k

theorem EnvOK.core {c : WFCert} {cfg : Cfg} (h : EnvOK c cfg) : ∀ g' ∈ cfg.env, g'.Core (TermGood cfg) :=
  fun g hg => (h.rules g hg).core

theorem GWF_list {c : WFCert} {cfg : Cfg} {gs : List G} (h1 : CoreList (TermGood cfg) gs)
    (h2 : AllList (LocalP c cfg) gs) : ∀ g ∈ gs, GWF c cfg g :=
  fun g hg => ⟨CoreList_mem h1 g hg, AllList_mem h2 g hg⟩

theorem GWF_lookup {c : WFCert} {cfg : Cfg} {g : G} {sh : SeqShape} (hg : GWF c cfg g) (hs : g.shape = some sh)
    (i : Nat) (g' : G) (hl : sh.lookup i = some g') : GWF c cfg g' :=
  ⟨shape_lookup_core hg.core hs i g' hl, shape_lookup_all hg.loc hs i g' hl⟩

/-! ### list forms of `mayBeEmpty` -/

theorem mbeAny_false {c : WFCert} : ∀ {gs : List G}, mbeAny c gs = false → ∀ g ∈ gs, mayBeEmpty c g = false
  | [], _, g, hg => by cases hg
  | g' :: gs, h, g, hg => by
    simp only [mbeAny, Bool.or_eq_false_iff] at h
    cases hg with
    | head => exact h.1
    | tail _ hm => exact mbeAny_false h.2 g hm

theorem mbeAll_of_lookup {c : WFCert} : ∀ (gs : List G),
    (∀ i, i < gs.length → ∀ gi, gs[i]? = some gi → mayBeEmpty c gi = true) → mbeAll c gs = true
  | [], _ => rfl
  | g :: gs, h => by
    simp only [mbeAll, Bool.and_eq_true]
    refine ⟨h 0 (by simp) g rfl, mbeAll_of_lookup gs ?_⟩
    intro i hi gi hgi
    exact h (i + 1) (by simp; omega) gi (by simpa using hgi)

/-- with `mayBeEmpty g = false`, a Sequence-family parser cannot emit a result while all the elements
    matched so far may be empty -/
theorem shape_emit_cons {c : WFCert} {g : G} {sh : SeqShape} (hs : g.shape = some sh)
    (hne : mayBeEmpty c g = false) (d : Nat) (hlc : sh.lenCheck d = true)
    (hprev : ∀ i, i < d → ∀ gi, sh.lookup i = some gi → mayBeEmpty c gi = true) : False := by
  cases g with
  | seq k gs o =>
    simp only [G.shape, Option.some.injEq] at hs
    subst hs
    simp only at hlc hprev
    cases k with
    | seqOf =>
      simp only [beq_iff_eq] at hlc
      subst hlc
      have := mbeAll_of_lookup (c := c) gs (fun i hi gi hgi => hprev i hi gi hgi)
      simp [mayBeEmpty, this] at hne
    | seqTry =>
      simp only [Bool.and_eq_true, decide_eq_true_eq] at hlc
      cases gs with
      | nil => simp at hlc; omega
      | cons g0 rest =>
        have := hprev 0 (by omega) g0 rfl
        simp [mayBeEmpty, mbeHead, this] at hne
    | seqFirstOrAll =>
      cases gs with
      | nil => simp [mayBeEmpty, mbeHead] at hne
      | cons g0 rest =>
        have hd : 0 < d := by
          simp only [Bool.or_eq_true, beq_iff_eq, List.length_cons] at hlc
          omega
        have := hprev 0 hd g0 rfl
        simp [mayBeEmpty, mbeHead, this] at hne
  | many g1 ae o =>
    simp only [G.shape, Option.some.injEq] at hs
    subst hs
    simp only [mayBeEmpty, Bool.or_eq_false_iff] at hne
    simp only [hne.1, Bool.false_or, decide_eq_true_eq] at hlc
    have := hprev 0 hlc g1 rfl
    simp [this] at hne
  | sepBy v s ae o =>
    simp only [G.shape, Option.some.injEq] at hs
    subst hs
    simp only [mayBeEmpty, Bool.or_eq_false_iff] at hne
    simp only [hne.1, Bool.and_false, Bool.false_or, beq_iff_eq] at hlc
    have := hprev 0 (by omega) v (by simp)
    simp [this] at hne
  | _ => simp [G.shape] at hs

theorem handleResult_rpos_wf (hi : Nat) (sh : SeqShape) (pos0 p : Nat) (nodes : List Node)
    (h : Chain hi nodes pos0 p) : (handleResult sh p nodes).rpos = p := by
  cases nodes with
  | nil => rfl
  | cons n rest =>
    have h' : n.pos = pos0 ∧ n.WF hi ∧ Chain hi rest n.rpos p := by simpa only [Chain] using h
    cases rest with
    | nil =>
      have h'' : n.rpos = p ∧ p ≤ hi := by simpa only [Chain] using h'.2.2
      by_cases hs : sh.single = true
      · have : handleResult sh p [n] = n := by simp [handleResult, hs]
        rw [this]; exact h''.1
      · have : handleResult sh p [n] = .nt sh.token [n] n.pos n.rpos sh.interp := by simp [handleResult, hs]
        rw [this]; exact h''.1
    | cons m rest =>
      have hl := Chain_last hi (m :: rest) n pos0 p h
      have : handleResult sh p (n :: m :: rest) =
          .nt sh.token (n :: m :: rest) n.pos (((m :: rest).getLast?).getD n).rpos sh.interp := rfl
      rw [this]; exact hl

/-! ### the invariant -/

/-- cached results of Memoize indexes that cannot be empty consume -/
def CacheCons (c : WFCert) (st : St) : Prop :=
  ∀ e ∈ st.cache, c.nullM e.idx = false → ∀ x ∈ e.res.alts, x.rpos > e.pos

/-- the states a call may start in -/
def Good (c : WFCert) (cfg : Cfg) (ctx : Ctx) (pos : Nat) (st : St) : Prop :=
  Pre cfg ctx pos st ∧ CacheCons c st

def ResCons (c : WFCert) (g : G) (pos0 : Nat) (res : Res) : Prop :=
  mayBeEmpty c g = false → ∀ x ∈ res.alts, x.rpos > pos0

structure ConsPost (c : WFCert) (g : G) (pos : Nat) (o : Out) (st' : St) : Prop where
  cache : CacheCons c st'
  cons : ResCons c g pos o.res

def RunConsOK (c : WFCert) (cfg : Cfg) (r : RunFn) : Prop :=
  ∀ g ctx pos st o st', GWF c cfg g → Good c cfg ctx pos st → r g ctx pos st = some (o, st') →
    ConsPost c g pos o st'

theorem CacheCons_of_eq {c : WFCert} {st st' : St} (h : CacheCons c st) (e : st'.cache = st.cache) :
    CacheCons c st' := by
  unfold CacheCons; rw [e]; exact h

theorem Good_regCall {c : WFCert} {cfg : Cfg} {ctx : Ctx} {pos : Nat} {st : St} (h : Good c cfg ctx pos st) :
    Good c cfg ctx pos st.regCall :=
  ⟨⟨h.1.1, StOK_regCall h.1.2.1, h.1.2.2⟩, CacheCons_of_eq h.2 rfl⟩

/-- the state after a sub-call is a state the next sub-call at the same position may start in -/
theorem Good_after {c : WFCert} {cfg : Cfg} {ctx : Ctx} {pos : Nat} {st st' : St} {o : Out} {g : G}
    (h : Good c cfg ctx pos st) (hp : Post cfg pos st o st') (hc : ConsPost c g pos o st') :
    Good c cfg ctx pos st' :=
  ⟨⟨h.1.1, hp.stOK, by rw [hp.active]; exact h.1.2.2⟩, hc.cache⟩

/-! ### the Sequence family -/

def ConsJ (c : WFCert) (cfg : Cfg) (g : G) (sh : SeqShape) (ctx0 : Ctx) (pos0 : Nat)
    (fr : Frame) (ss : SeqSt) (st : St) : Prop :=
  SeqJ cfg pos0 fr ss st ∧ CacheCons c st ∧
  (fr.pos = pos0 → fr.ctx = ctx0 ∧ ∀ i, i < fr.depth → ∀ gi, sh.lookup i = some gi → mayBeEmpty c gi = true) ∧
  ResCons c g pos0 ss.result

def ConsE (c : WFCert) (cfg : Cfg) (g : G) (pos0 : Nat) (ss : SeqSt) (st : St) (ss' : SeqSt) (st' : St) : Prop :=
  SeqE cfg pos0 ss st ss' st' ∧ (CacheCons c st → CacheCons c st') ∧
  (ResCons c g pos0 ss.result → ResCons c g pos0 ss'.result)

theorem ConsE_refl (c : WFCert) (cfg : Cfg) (g : G) (pos0 : Nat) (ss : SeqSt) (st : St) :
    ConsE c cfg g pos0 ss st ss st :=
  ⟨⟨id, id, rfl, Nat.le_refl _⟩, id, id⟩

theorem ConsE_trans (c : WFCert) (cfg : Cfg) (g : G) (pos0 : Nat) (a : SeqSt) (b : St) (c' : SeqSt) (d : St)
    (e : SeqSt) (f : St) (h1 : ConsE c cfg g pos0 a b c' d) (h2 : ConsE c cfg g pos0 c' d e f) :
    ConsE c cfg g pos0 a b e f :=
  ⟨⟨fun h => h2.1.1 (h1.1.1 h), fun h => h2.1.2.1 (h1.1.2.1 h), by rw [h2.1.2.2.1, h1.1.2.2.1],
      by have := h1.1.2.2.2; have := h2.1.2.2.2; omega⟩,
    fun h => h2.2.1 (h1.2.1 h), fun h => h2.2.2 (h1.2.2 h)⟩

theorem ConsJ_stable (c : WFCert) (cfg : Cfg) (g : G) (sh : SeqShape) (ctx0 : Ctx) (pos0 : Nat)
    (fr : Frame) (ss : SeqSt) (st : St) (ss' : SeqSt) (st' : St)
    (hJ : ConsJ c cfg g sh ctx0 pos0 fr ss st) (hE : ConsE c cfg g pos0 ss st ss' st') :
    ConsJ c cfg g sh ctx0 pos0 fr ss' st' := by
  obtain ⟨⟨j1, j2, j3, j4, j5, j6⟩, k1, k2, k3⟩ := hJ
  exact ⟨⟨j1, j2, j3, hE.1.1 j4, by rw [hE.1.2.2.1]; exact j5, hE.1.2.1 j6⟩, hE.2.1 k1, k2, hE.2.2 k3⟩

theorem seqAfter_result (m : Bool) (ss : SeqSt) (o : Out) : (seqAfter m ss o).result = ss.result := by
  unfold seqAfter; split <;> rfl

theorem ResCons_emit {c : WFCert} {cfg : Cfg} {g : G} {sh : SeqShape} {pos0 : Nat} (hs : g.shape = some sh)
    (fr : Frame) (ss : SeqSt) (hd : fr.depth = fr.nodes.length) (hch : Chain cfg.hi fr.nodes pos0 fr.pos)
    (hle : pos0 ≤ fr.pos)
    (hprev : fr.pos = pos0 → ∀ i, i < fr.depth → ∀ gi, sh.lookup i = some gi → mayBeEmpty c gi = true)
    (hlc : sh.lenCheck fr.depth = true) (h : ResCons c g pos0 ss.result) :
    ResCons c g pos0 (seqEmit sh fr ss).result := by
  intro hne x hx
  simp only [seqEmit] at hx
  cases mem_appendNode _ _ _ hx with
  | inl h1 => exact h hne x h1
  | inr h1 =>
    simp only [Res.alts, List.mem_singleton] at h1
    subst h1
    have hn : (if fr.depth > 0 then fr.nodes else []) = fr.nodes := by
      split
      · rfl
      · have : fr.nodes.length = 0 := by omega
        exact (List.length_eq_zero_iff.mp this).symm
    rw [hn, handleResult_rpos_wf cfg.hi sh pos0 fr.pos fr.nodes hch]
    by_cases he : fr.pos = pos0
    · exact (shape_emit_cons hs hne fr.depth hlc (hprev he)).elim
    · omega

theorem ConsJ_call (c : WFCert) (cfg : Cfg) (r : RunFn) (hr : RunPosOK cfg r) (hc : RunConsOK c cfg r)
    (g : G) (sh : SeqShape) (hg : GWF c cfg g) (hs : g.shape = some sh) (ctx0 : Ctx) (pos0 : Nat)
    (fr : Frame) (ss : SeqSt) (st : St) (g' : G) (o : Out) (st1 : St)
    (hJ : ConsJ c cfg g sh ctx0 pos0 fr ss st) (hd : fr.depth = fr.nodes.length)
    (hl : sh.lookup fr.depth = some g') (hrun : r g' fr.ctx fr.pos st.regCall = some (o, st1)) :
    ConsE c cfg g pos0 ss st (seqAfter fr.merge ss o) st1 ∧
    (∀ n ∈ o.res.alts, ConsJ c cfg g sh ctx0 pos0 (fr.next n) (seqAfter fr.merge ss o) st1) ∧
    (o.res.isNil = true → sh.lenCheck fr.depth = true →
      ConsE c cfg g pos0 ss st (seqEmit sh fr (seqAfter fr.merge ss o)) st1) := by
  obtain ⟨⟨j1, j2, j3, j4, j5, j6⟩, k1, k2, k3⟩ := hJ
  have hg' := GWF_lookup hg hs fr.depth g' hl
  have hpre : Pre cfg fr.ctx fr.pos st.regCall := ⟨j1, StOK_regCall j4, j5⟩
  have hpost := hr g' fr.ctx fr.pos st.regCall o st1 hg'.core hpre hrun
  have hcons := hc g' fr.ctx fr.pos st.regCall o st1 hg' ⟨hpre, CacheCons_of_eq k1 rfl⟩ hrun
  have hact : st1.active = st.active := hpost.active
  have hcalls : st.calls ≤ st1.calls := by
    have := hpost.calls
    have e : st.regCall.calls = st.calls + 1 := rfl
    omega
  have hE1 : SeqE cfg pos0 ss st (seqAfter fr.merge ss o) st1 :=
    ⟨fun _ => hpost.stOK, fun h => SeqStOK_after _ h j2 hpost.err, hact, hcalls⟩
  refine ⟨⟨hE1, fun _ => hcons.cache, fun h => by rw [seqAfter_result]; exact h⟩, ?_, ?_⟩
  · intro n hn
    obtain ⟨hnp, hnw⟩ := hpost.nodes n hn
    have hb := Node.WF_bounds cfg.hi n hnw
    refine ⟨⟨?_, ?_, ?_, hpost.stOK, ?_, SeqStOK_after _ j6 j2 hpost.err⟩, hcons.cache, ?_,
      by rw [seqAfter_result]; exact k3⟩
    · simp only [Frame.next]
      exact ⟨by have := j1.1; omega, by unfold Cfg.hi at hb; omega⟩
    · simp only [Frame.next]; omega
    · simp only [Frame.next]
      exact Chain_append cfg.hi n fr.nodes pos0 fr.pos j3 hnp hnw
    · simp only [Frame.next]
      rw [hact]
      exact ActOK_next j5 n.rpos (by omega)
    · simp only [Frame.next]
      intro he
      have hfp : fr.pos = pos0 := by omega
      have hnr : ¬ n.rpos > fr.pos := by omega
      obtain ⟨q1, q2⟩ := k2 hfp
      refine ⟨by simp only [hnr, ↓reduceIte]; exact q1, ?_⟩
      intro i hi gi hgi
      by_cases hid : i < fr.depth
      · exact q2 i hid gi hgi
      · have : i = fr.depth := by omega
        subst this
        rw [hl] at hgi
        cases hgi
        cases hm : mayBeEmpty c g' with
        | true => rfl
        | false =>
          have := hcons.cons hm n hn
          omega
  · intro _ hlc
    refine ⟨⟨fun _ => hpost.stOK, fun h => SeqStOK_emit sh fr (SeqStOK_after _ h j2 hpost.err) hd j3, hact, hcalls⟩,
      fun _ => hcons.cache, fun h => ?_⟩
    exact ResCons_emit hs fr _ hd j3 j2 (fun he => (k2 he).2) hlc (by rw [seqAfter_result]; exact h)

theorem ConsJ_none (c : WFCert) (cfg : Cfg) (g : G) (sh : SeqShape) (hs : g.shape = some sh)
    (ctx0 : Ctx) (pos0 : Nat) (fr : Frame) (ss : SeqSt) (st : St)
    (hJ : ConsJ c cfg g sh ctx0 pos0 fr ss st) (hd : fr.depth = fr.nodes.length)
    (_hl : sh.lookup fr.depth = none) (hlc : sh.lenCheck fr.depth = true) :
    ConsE c cfg g pos0 ss st (seqEmit sh fr (seqAfter fr.merge ss ⟨.nil, [], none⟩)) st := by
  obtain ⟨⟨j1, j2, j3, j4, j5, j6⟩, k1, k2, k3⟩ := hJ
  refine ⟨⟨id, fun h => SeqStOK_emit sh fr (SeqStOK_after _ h j2 (by intro er he; cases he)) hd j3, rfl, Nat.le_refl _⟩,
    id, fun h => ?_⟩
  exact ResCons_emit hs fr _ hd j3 j2 (fun he => (k2 he).2) hlc (by rw [seqAfter_result]; exact h)

theorem ConsJ_init {c : WFCert} {cfg : Cfg} {g : G} {sh : SeqShape} {ctx : Ctx} {pos : Nat} {st : St}
    (h : Good c cfg ctx pos st) : ConsJ c cfg g sh ctx pos ⟨0, [], ctx, pos, true⟩ {} st := by
  obtain ⟨⟨hin, hst, hact⟩, hcc⟩ := h
  refine ⟨⟨hin, Nat.le_refl _, by unfold Chain; exact ⟨rfl, hin.2⟩, hst, hact,
      ⟨(by intro x hx; cases hx), (by intro er her; cases her)⟩⟩, hcc, ?_, ?_⟩
  · intro _
    exact ⟨rfl, fun i hi => by simp at hi⟩
  · intro _ x hx; cases hx

theorem seqParse_cons (c : WFCert) (cfg : Cfg) (r : RunFn) (hr : RunPosOK cfg r) (hc : RunConsOK c cfg r)
    (g : G) (sh : SeqShape) (hg : GWF c cfg g) (hs : g.shape = some sh) (ctx0 : Ctx) (pos0 : Nat) :
    ∀ (fuel : Nat) (fr : Frame) ss st b ss' st', ConsJ c cfg g sh ctx0 pos0 fr ss st →
      fr.depth = fr.nodes.length →
      seqParse r sh fuel fr.depth fr.nodes fr.ctx fr.pos fr.merge ss st = some (b, ss', st') →
      ConsE c cfg g pos0 ss st ss' st' :=
  seqParse_ind r sh (ConsJ c cfg g sh ctx0 pos0) (ConsE c cfg g pos0)
    (ConsE_refl c cfg g pos0) (ConsE_trans c cfg g pos0) (ConsJ_stable c cfg g sh ctx0 pos0)
    (fun fr ss st g' o st1 hJ hd hl hrun => ConsJ_call c cfg r hr hc g sh hg hs ctx0 pos0 fr ss st g' o st1 hJ hd hl hrun)
    (fun fr ss st hJ hd hl hlc => ConsJ_none c cfg g sh hs ctx0 pos0 fr ss st hJ hd hl hlc)


/-! ### the induction -/

/-- the state in which the body of a Memoize starts is a state a call may start in -/
theorem Pre_memo_body {cfg : Cfg} {ctx : Ctx} {pos : Nat} {st : St} (idx : Nat) (hpre : Pre cfg ctx pos st)
    (hcur : ¬ ctx.get idx > remaining cfg.file pos + Facts.curtailSlack) :
    Pre cfg (ctx.inc idx) pos (({ st with active := (idx, pos) :: st.active } : St).logEv cfg
      (.body idx pos ((st.active.filter (fun a : Nat × Nat => a.1 == idx && a.2 == pos)).length + 1))) := by
  obtain ⟨hin, hst, hact⟩ := hpre
  have hcount : actCount st.active idx pos ≤ ctx.get idx := hact.2 idx
  have hf := logEv_fields ({ st with active := (idx, pos) :: st.active }) cfg
    (.body idx pos ((st.active.filter (fun a : Nat × Nat => a.1 == idx && a.2 == pos)).length + 1))
  simp only at hf
  generalize ({ st with active := (idx, pos) :: st.active } : St).logEv cfg
    (.body idx pos ((st.active.filter (fun a : Nat × Nat => a.1 == idx && a.2 == pos)).length + 1)) = st1 at hf
  refine ⟨hin, ?_, ?_⟩
  · refine ⟨by rw [hf.1]; exact hst.cache, by rw [hf.2.1]; exact hst.ctxErr, ?_⟩
    cases hf.2.2.2.2 with
    | inl h5 => rw [h5]; exact hst.log
    | inr h5 =>
      rw [h5]
      intro i p d hm
      cases hm with
      | head =>
        have : actCount st.active idx pos = (st.active.filter (fun a => a.1 == idx && a.2 == pos)).length := rfl
        omega
      | tail _ hm => exact hst.log i p d hm
  · rw [hf.2.2.2.1]
    refine ⟨?_, ?_⟩
    · intro a ha
      cases ha with
      | head => exact Nat.le_refl _
      | tail _ ha => exact hact.1 a ha
    · intro k
      by_cases hk : k = idx
      · subst hk
        rw [Ctx.get_inc_self]
        have : actCount ((k, pos) :: st.active) k pos = actCount st.active k pos + 1 := by
          simp [actCount]
        omega
      · rw [Ctx.get_inc_other _ _ _ hk]
        have : actCount ((idx, pos) :: st.active) k pos = actCount st.active k pos := by
          have : (idx == k) = false := by
            simp only [beq_eq_false_iff_ne, ne_eq]; exact fun e => hk e.symm
          simp [actCount, this]
        rw [this]; exact hact.2 k

theorem memo_body_cache (cfg : Cfg) (st : St) (idx pos d : Nat) :
    (({ st with active := (idx, pos) :: st.active } : St).logEv cfg (.body idx pos d)).cache = st.cache :=
  (logEv_fields _ cfg _).1

theorem run_cons (c : WFCert) (cfg : Cfg) (henv : EnvOK c cfg) : ∀ fuel, RunConsOK c cfg (run cfg fuel) := by
  intro fuel
  induction fuel with
  | zero => intro g ctx pos st o st' _ _ h; simp [run] at h
  | succ fuel ih =>
    intro g ctx pos st o st' hg hgood h
    have hposOK : RunPosOK cfg (run cfg fuel) := run_pos cfg henv.core fuel
    obtain ⟨hpre, hcc⟩ := hgood
    cases hsh : g.shape with
    | some sh =>
      rw [run_seqfam cfg fuel g sh ctx pos st hsh] at h
      split at h
      · cases h
      · unfold runSeq at h
        split at h
        · cases h
        · rename_i b ss st1 hsp
          cases h
          have hE := seqParse_cons c cfg (run cfg fuel) hposOK ih g sh hg hsh ctx pos fuel ⟨0, [], ctx, pos, true⟩ {} st b ss st1
            (ConsJ_init ⟨hpre, hcc⟩) rfl hsp
          obtain ⟨f1, f2⟩ := seqFinish_res sh pos ss st1
          exact ⟨CacheCons_of_eq (hE.2.1 hcc) f2,
            fun hne x hx => hE.2.2 (by intro _ x hx; cases hx) hne x (f1 x hx)⟩
    | none =>
    unfold run at h
    split at h
    · cases h
    · cases g with
      | term t =>
        simp only at h
        have hT : TermCons cfg t := by simpa [G.All, LocalP] using hg.loc
        split at h
        · rename_i n hp
          cases h
          refine ⟨hcc, fun _ x hx => ?_⟩
          simp only [Res.alts, List.mem_singleton] at hx
          subst hx; exact hT pos _ hpre.1 hp
        · cases h
          exact ⟨CacheCons_of_eq hcc (logEv_fields st cfg _).1, fun _ x hx => by cases hx⟩
        · cases h
          exact ⟨hcc, fun _ x hx => by cases hx⟩
      | empty =>
        simp only at h
        cases h
        exact ⟨hcc, fun hne => by simp [mayBeEmpty] at hne⟩
      | eof =>
        simp only at h
        split at h
        · cases h; exact ⟨hcc, fun hne => by simp [mayBeEmpty] at hne⟩
        · cases h
          exact ⟨CacheCons_of_eq hcc (logEv_fields st cfg _).1, fun _ x hx => by cases hx⟩
      | ref k =>
        simp only at h
        split at h
        · rename_i g' hk
          have hres := ih g' ctx pos st o st' (henv.rules g' (List.mem_of_getElem? hk)) ⟨hpre, hcc⟩ h
          refine ⟨hres.cache, fun hne => hres.cons ?_⟩
          cases hm : mayBeEmpty c g' with
          | false => rfl
          | true =>
            have := henv.nullable k g' hk hm
            simp [mayBeEmpty, this] at hne
        · cases h
          exact ⟨hcc, fun _ x hx => by cases hx⟩
      | memo idx body =>
        simp only at h
        have hbody : GWF c cfg body := ⟨by simpa [G.Core] using hg.core, by
          have := hg.loc; simp only [G.All] at this; exact this.2⟩
        have hloc : idx ∈ c.memos ∧ (mayBeEmpty c body = true → c.nullM idx = true) := by
          have := hg.loc; simp only [G.All] at this; exact this.1
        cases hc : cacheGet st.cache idx pos ctx with
        | some e =>
          simp only [hc] at h
          cases h
          obtain ⟨hm, hi, hp⟩ := cacheGet_some hc
          refine ⟨CacheCons_of_eq hcc (logEv_fields st cfg _).1, fun hne x hx => ?_⟩
          have := hcc e hm (by rw [hi]; simpa [mayBeEmpty] using hne) x hx
          omega
        | none =>
          simp only [hc] at h
          by_cases hcur : ctx.get idx > remaining cfg.file pos + Facts.curtailSlack
          · simp only [hcur, ↓reduceIte] at h
            cases h
            exact ⟨CacheCons_of_eq hcc (logEv_fields st cfg _).1, fun _ x hx => by cases hx⟩
          · simp only [hcur, ↓reduceIte] at h
            split at h
            · cases h
            · rename_i o2 st2 hr
              cases h
              have hpre1 := Pre_memo_body idx hpre hcur
              have hres := ih body (ctx.inc idx) pos _ o st2 hbody
                ⟨hpre1, CacheCons_of_eq hcc (memo_body_cache cfg st idx pos _)⟩ hr
              have hbc : c.nullM idx = false → ∀ x ∈ o.res.alts, x.rpos > pos := by
                intro hn
                apply hres.cons
                cases hm : mayBeEmpty c body with
                | false => rfl
                | true => have := hloc.2 hm; simp [this] at hn
              refine ⟨?_, fun hne => hbc (by simpa [mayBeEmpty] using hne)⟩
              intro e he hn
              cases mem_cacheSave he with
              | inl h1 => subst h1; exact hbc hn
              | inr h1 => exact hres.cache e h1 hn
      | any gs =>
        simp only at h
        have hgs : ∀ g' ∈ gs, GWF c cfg g' :=
          GWF_list (by simpa [G.Core] using hg.core) (by have := hg.loc; simp only [G.All] at this; exact this.2)
        split at h
        · cases h
        · rename_i a st1 hl
          have hA := anyLoop_ind (run cfg fuel) ctx pos
            (fun a s => Good c cfg ctx pos s ∧ ResCons c (.any gs) pos a.res) gs
            (by
              intro g' hg' a s o' s' hA hr
              obtain ⟨a1, a2⟩ := hA
              have hgr := Good_regCall a1
              have hpost := hposOK g' ctx pos s.regCall o' s' (hgs g' hg').core hgr.1 hr
              have hcons := ih g' ctx pos s.regCall o' s' (hgs g' hg') hgr hr
              refine ⟨Good_after hgr hpost hcons, fun hne x hx => ?_⟩
              rw [(altErr_fields pos _ o'.err).2.1] at hx
              cases mem_appendNode _ _ _ hx with
              | inl h1 => exact a2 hne x h1
              | inr h1 =>
                exact hcons.cons (mbeAny_false (by simpa [mayBeEmpty] using hne) g' hg') x h1)
            {} st a st1 ⟨⟨hpre, hcc⟩, fun _ x hx => by cases hx⟩ hl
          obtain ⟨a1, a2⟩ := hA
          split at h
          · cases h
            exact ⟨a1.2, fun _ x hx => by cases hx⟩
          · cases h
            exact ⟨CacheCons_of_eq a1.2 (setError_ctxErr st1 a.err).2.1, a2⟩
      | choice gs =>
        simp only at h
        have hgs : ∀ g' ∈ gs, GWF c cfg g' :=
          GWF_list (by simpa [G.Core] using hg.core) (by have := hg.loc; simp only [G.All] at this; exact this.2)
        have hF := choiceLoop_ind (run cfg fuel) ctx pos
          (fun _ s => Good c cfg ctx pos s)
          (fun out _ s => CacheCons c s ∧ ∀ o', out = some o' → ResCons c (.choice gs) pos o'.res) gs
          (by intro a s hA; exact ⟨hA.2, (by intro o' ho; cases ho)⟩)
          (by
            intro g' hg' a s o' s' hA hr
            have hgr := Good_regCall hA
            have hpost := hposOK g' ctx pos s.regCall o' s' (hgs g' hg').core hgr.1 hr
            have hcons := ih g' ctx pos s.regCall o' s' (hgs g' hg') hgr hr
            refine ⟨fun _ => ⟨CacheCons_of_eq hcons.cache (setError_ctxErr s' _).2.1, ?_⟩,
              fun _ => Good_after hgr hpost hcons⟩
            intro o2 ho2
            cases ho2
            exact fun hne => hcons.cons (mbeAny_false (by simpa [mayBeEmpty] using hne) g' hg'))
        split at h
        · cases h
        · rename_i o1 a st1 hl
          cases h
          obtain ⟨a1, a2⟩ := hF {} st (some o) a st' ⟨hpre, hcc⟩ hl
          exact ⟨a1, a2 o rfl⟩
        · rename_i a st1 hl
          cases h
          obtain ⟨a1, _⟩ := hF {} st none a st' ⟨hpre, hcc⟩ hl
          exact ⟨a1, fun _ x hx => by cases hx⟩
      | optional g' =>
        simp only at h
        have hg' : GWF c cfg g' := ⟨by simpa [G.Core] using hg.core, by
          have := hg.loc; simp only [G.All] at this; exact this.2⟩
        split at h
        · cases h
        · rename_i o1 st1 hr
          cases h
          have hres := ih g' ctx pos st o1 _ hg' ⟨hpre, hcc⟩ hr
          exact ⟨hres.cache, fun hne => by simp [mayBeEmpty] at hne⟩
      | name g' nm =>
        simp only at h
        have hg' : GWF c cfg g' := ⟨by simpa [G.Core] using hg.core, by
          have := hg.loc; simp only [G.All] at this; exact this.2⟩
        split at h
        · cases h
        · rename_i o1 st1 hr
          have hres := ih g' ctx pos st o1 st1 hg' ⟨hpre, hcc⟩ hr
          split at h
          · split at h
            · cases h; exact ⟨hres.cache, fun _ x hx => by cases hx⟩
            · cases h; exact ⟨hres.cache, fun _ x hx => by cases hx⟩
          · split at h
            · cases h; exact ⟨hres.cache, fun _ x hx => by cases hx⟩
            · cases h
              exact ⟨hres.cache, fun hne => hres.cons (by simpa [mayBeEmpty] using hne)⟩
      | single g' =>
        simp only at h
        have hg' : GWF c cfg g' := ⟨by simpa [G.Core] using hg.core, by
          have := hg.loc; simp only [G.All] at this; exact this.2⟩
        split at h
        · cases h
        · rename_i o1 st1 hr
          have hres := ih g' ctx pos st o1 st1 hg' ⟨hpre, hcc⟩ hr
          have hpost := hposOK g' ctx pos st o1 st1 hg'.core hpre hr
          split at h
          · cases h; exact ⟨hres.cache, fun _ x hx => by cases hx⟩
          · split at h
            · rename_i tk c' p r i hres'
              cases h
              refine ⟨hres.cache, fun hne x hx => ?_⟩
              simp only [Res.alts, List.mem_singleton] at hx
              subst hx
              have hm : Node.nt tk [x] p r i ∈ o1.res.alts := by rw [hres']; simp [Res.alts]
              have h1 := hres.cons (by simpa [mayBeEmpty] using hne) _ hm
              obtain ⟨_, hw⟩ := hpost.nodes _ hm
              have hw' : x.pos = p ∧ x.WF cfg.hi ∧ Chain cfg.hi [] x.rpos r := by
                simpa only [Node.WF, Chain] using hw
              have hw'' : x.rpos = r ∧ r ≤ cfg.hi := by simpa only [Chain] using hw'.2.2
              simp only [Node.rpos] at h1
              omega
            · cases h
              exact ⟨hres.cache, fun hne => hres.cons (by simpa [mayBeEmpty] using hne)⟩
      | suppress g' =>
        simp only at h
        have hg' : GWF c cfg g' := ⟨by simpa [G.Core] using hg.core, by
          have := hg.loc; simp only [G.All] at this; exact this.2⟩
        split at h
        · cases h
        · rename_i o1 st1 hr
          cases h
          have hres := ih g' ctx pos st o1 _ hg' ⟨hpre, hcc⟩ hr
          exact ⟨hres.cache, fun hne => hres.cons (by simpa [mayBeEmpty] using hne)⟩
      | ltrim g' m => exact absurd hg.core (by simp [G.Core])
      | rtrim g' m => exact absurd hg.core (by simp [G.Core])
      | seq k gs o => simp [G.shape] at hsh
      | many g' ae o => simp [G.shape] at hsh
      | sepBy v s ae o => simp [G.shape] at hsh

end PV
