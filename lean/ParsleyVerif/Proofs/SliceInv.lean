import ParsleyVerif.Proofs.SliceRender
/-
  The invariant of the slice machine (holds in every reachable state, with or without SetReaderPos) and the
  building blocks for its preservation.
-/
namespace PV.Slice

def Sealed : Handle → Prop
  | .list sl => sl.len = sl.cap
  | _ => True

/-- a live list entry that the memo table does not hold: owned by one combinator frame -/
def Linear (s : St) (e : Entry) (sl : Slice) : Prop :=
  e.live = true ∧ e.h = Handle.list sl ∧ inMemo s (Handle.list sl) = false

structure Inv (s : St) (top : Nat → Nat) : Prop where
  topz : ∀ a, s.arrs.length ≤ a → top a = 0
  cellok : CellsOK s.nodes.length s.arrs
  pool : ∀ e ∈ s.pool, HWF s top e.h
  memo : ∀ kv ∈ s.memo, HWF s top kv.2 ∧ Sealed kv.2
  nodes : NodesWF s top
  own : ∀ (i : Nat) (e : Entry) (sl : Slice), s.pool[i]? = some e → Linear s e sl → Safe top sl
  uniq : ∀ (i j : Nat) (ei ej : Entry) (sli slj : Slice), s.pool[i]? = some ei → s.pool[j]? = some ej →
    Linear s ei sli → Linear s ej slj → sli.arr = slj.arr → i = j
  bufs : ∀ b ∈ s.bufs, SWF s.arrs b ∧ (b.cap ≠ 0 → top b.arr = 0)

theorem Inv.init : Inv {} (fun _ => 0) :=
  ⟨fun _ _ => rfl, fun a c hc => by simp [cells] at hc, fun e he => by simp at he, fun kv hkv => by simp at hkv,
   fun n tok sl pos rpos h => by simp at h, fun i e sl h => by simp at h,
   fun i j ei ej sli slj h => by simp at h, fun b hb => by simp at hb⟩

/-! ### pool access -/

theorem get_some {s : St} {i : Nat} {h : Handle} (hg : s.get i = some h) :
    ∃ e, s.pool[i]? = some e ∧ e.live = true ∧ e.h = h := by
  unfold St.get at hg
  cases hp : s.pool[i]? with
  | none => simp [hp] at hg
  | some e =>
    simp only [hp] at hg
    by_cases hl : e.live = true
    · simp [hl] at hg; exact ⟨e, rfl, hl, hg⟩
    · simp [hl] at hg

theorem inMemo_true {s : St} {h : Handle} (hm : inMemo s h = true) : ∃ kv ∈ s.memo, kv.2 = h := by
  unfold inMemo at hm
  rw [List.any_eq_true] at hm
  obtain ⟨kv, hkv, hd⟩ := hm
  exact ⟨kv, hkv, of_decide_eq_true hd⟩

theorem inMemo_of_mem {s : St} {kv : Nat × Handle} (hkv : kv ∈ s.memo) : inMemo s kv.2 = true := by
  unfold inMemo
  rw [List.any_eq_true]
  exact ⟨kv, hkv, decide_eq_true rfl⟩

theorem consumable_list {s : St} {sl : Slice} : consumable s (Handle.list sl) = !(inMemo s (Handle.list sl)) := rfl

theorem kill_pool_get {s : St} {i k : Nat} {e : Entry} (h : (s.kill i).pool[k]? = some e) :
    ∃ e0, s.pool[k]? = some e0 ∧ e.h = e0.h ∧ (e.live = true → e0.live = true ∧ k ≠ i ∧ e = e0) := by
  unfold St.kill at h
  simp only [List.getElem?_modify] at h
  by_cases hik : i = k
  · subst hik
    simp only [if_true] at h
    cases hp : s.pool[i]? with
    | none => simp [hp] at h
    | some e0 =>
      simp [hp] at h
      subst h
      exact ⟨e0, rfl, rfl, fun hl => by simp at hl⟩
  · simp only [if_neg hik] at h
    have h' : s.pool[k]? = some e := by simpa using h
    exact ⟨e, h', rfl, fun hl => ⟨hl, fun hk => hik hk.symm, rfl⟩⟩

theorem kill_pool_mem {s : St} {i : Nat} {e : Entry} (h : e ∈ (s.kill i).pool) : ∃ e0 ∈ s.pool, e.h = e0.h := by
  obtain ⟨k, hk, rfl⟩ := List.getElem_of_mem h
  have : (s.kill i).pool[k]? = some (s.kill i).pool[k] := by simp [hk]
  obtain ⟨e0, h0, hh, _⟩ := kill_pool_get this
  exact ⟨e0, List.mem_of_getElem? h0, hh⟩

/-! ### building blocks -/

theorem Inv.kill {s : St} {top : Nat → Nat} (inv : Inv s top) (i : Nat) : Inv (s.kill i) top := by
  refine ⟨inv.topz, inv.cellok, ?_, inv.memo, inv.nodes, ?_, ?_, inv.bufs⟩
  · intro e he
    obtain ⟨e0, h0, hh⟩ := kill_pool_mem he
    rw [hh]; exact inv.pool e0 h0
  · intro k e sl hk hl
    obtain ⟨e0, h0, _, hlive⟩ := kill_pool_get hk
    obtain ⟨_, _, rfl⟩ := hlive hl.1
    exact inv.own k e sl h0 hl
  · intro k j ek ej slk slj hk hj hlk hlj ha
    obtain ⟨e0, h0, _, hlive⟩ := kill_pool_get hk
    obtain ⟨_, _, rfl⟩ := hlive hlk.1
    obtain ⟨e1, h1, _, hlive1⟩ := kill_pool_get hj
    obtain ⟨_, _, rfl⟩ := hlive1 hlj.1
    exact inv.uniq k j ek ej slk slj h0 h1 hlk hlj ha

theorem Inv.consume {s : St} {top : Nat → Nat} (inv : Inv s top) (i : Nat) (h : Handle) :
    Inv (s.consume i h) top := by
  unfold St.consume
  split
  · exact inv.kill i
  · exact inv

theorem HWF.frame {s : St} {top : Nat → Nat} {h : Handle} (hw : HWF s top h) (s' : St)
    (hn : s.nodes.length ≤ s'.nodes.length) (fa : FrameA top s.arrs s'.arrs) : HWF s' top h := by
  cases h with
  | ptr m => exact Nat.lt_of_lt_of_le hw hn
  | list sl => exact ⟨fa.swf hw.1, hw.2.1, hw.2.2.1, by rw [fa.view_eq sl hw.2.2.1]; exact hw.2.2.2⟩
  | _ => trivial

/-- replace the array heap by a framed one -/
theorem Inv.setArrs {s : St} {top : Nat → Nat} (inv : Inv s top) (arrs' : Arrs) (fa : FrameA top s.arrs arrs')
    (ok : CellsOK s.nodes.length arrs') : Inv { s with arrs := arrs' } top := by
  refine ⟨fun a ha => inv.topz a (by have := fa.1; simp at ha; omega), ok, ?_, ?_, ?_, inv.own, inv.uniq, ?_⟩
  · intro e he; exact (inv.pool e he).frame _ (Nat.le_refl _) fa
  · intro kv hkv; exact ⟨(inv.memo kv hkv).1.frame _ (Nat.le_refl _) fa, (inv.memo kv hkv).2⟩
  · intro n tok sl pos rpos hn
    exact ⟨fa.swf (inv.nodes n tok sl pos rpos hn).1, (inv.nodes n tok sl pos rpos hn).2⟩
  · intro b hb; exact ⟨fa.swf (inv.bufs b hb).1, (inv.bufs b hb).2⟩

theorem push_pool_get {s : St} {h : Handle} {k : Nat} {e : Entry} (hk : (s.push h).pool[k]? = some e) :
    s.pool[k]? = some e ∨ (k = s.pool.length ∧ e = ⟨h, true⟩) := by
  unfold St.push at hk
  simp only at hk
  by_cases hlt : k < s.pool.length
  · rw [List.getElem?_append_left hlt] at hk; exact Or.inl hk
  · rw [List.getElem?_append_right (by omega)] at hk
    by_cases h0 : k - s.pool.length = 0
    · simp [h0] at hk; exact Or.inr ⟨by omega, hk.symm⟩
    · simp [h0] at hk

theorem old_lt {s : St} {k : Nat} {e : Entry} (hk : s.pool[k]? = some e) : k < s.pool.length := by
  by_cases h : k < s.pool.length
  · exact h
  · rw [List.getElem?_eq_none (by omega)] at hk; cases hk

/-- push a handle that is not a list -/
theorem Inv.push_flat {s : St} {top : Nat → Nat} (inv : Inv s top) (h : Handle) (hw : HWF s top h)
    (nl : ∀ sl, h ≠ Handle.list sl) : Inv (s.push h) top := by
  refine ⟨inv.topz, inv.cellok, ?_, inv.memo, inv.nodes, ?_, ?_, inv.bufs⟩
  · intro e he
    simp only [St.push, List.mem_append, List.mem_singleton] at he
    rcases he with he | he
    · exact inv.pool e he
    · subst he; exact hw
  · intro k e sl hk hl
    rcases push_pool_get hk with h1 | ⟨_, h2⟩
    · exact inv.own k e sl h1 hl
    · subst h2; exact absurd hl.2.1 (nl sl)
  · intro k j ek ej slk slj hk hj hlk hlj ha
    rcases push_pool_get hk with h1 | ⟨_, h2⟩
    · rcases push_pool_get hj with h3 | ⟨_, h4⟩
      · exact inv.uniq k j ek ej slk slj h1 h3 hlk hlj ha
      · subst h4; exact absurd hlj.2.1 (nl slj)
    · subst h2; exact absurd hlk.2.1 (nl slk)

/-- the ghost bound after a list on `sl'` has been handed out -/
def raise (top : Nat → Nat) (sl' : Slice) : Nat → Nat := fun a => if a = sl'.arr then max (top a) sl'.len else top a

theorem raise_ge (top : Nat → Nat) (sl' : Slice) (a : Nat) : top a ≤ raise top sl' a := by
  unfold raise; split <;> omega

/-- push a list handle -/
theorem Inv.push_list {s : St} {top : Nat → Nat} (inv : Inv s top) (sl' : Slice) (w : SWF s.arrs sl')
    (pos : 0 < sl'.len) (sf : Safe top sl') (nn : Handle.nil ∉ view s.arrs sl')
    (C : inMemo s (Handle.list sl') = false → ∀ (i : Nat) (e : Entry) (sl : Slice), s.pool[i]? = some e → Linear s e sl → sl.arr ≠ sl'.arr)
    (B : ∀ b ∈ s.bufs, b.cap ≠ 0 → b.arr ≠ sl'.arr) :
    Inv (s.push (Handle.list sl')) (raise top sl') := by
  have ha : sl'.arr < s.arrs.length := by
    rcases w.2 with h0 | ⟨h1, _⟩
    · have := w.1; omega
    · exact h1
  have hmono : ∀ {h : Handle}, HWF s top h → HWF (s.push (Handle.list sl')) (raise top sl') h := by
    intro h hw
    cases h with
    | ptr m => exact hw
    | list sl => exact ⟨hw.1, hw.2.1, Nat.le_trans hw.2.2.1 (raise_ge _ _ _), hw.2.2.2⟩
    | _ => trivial
  refine ⟨?_, inv.cellok, ?_, ?_, ?_, ?_, ?_, ?_⟩
  · intro a haa
    have : a ≠ sl'.arr := by simp [St.push] at haa; omega
    simp only [raise, if_neg this]
    exact inv.topz a haa
  · intro e he
    simp only [St.push, List.mem_append, List.mem_singleton] at he
    rcases he with he | he
    · exact hmono (inv.pool e he)
    · subst he
      exact ⟨w, pos, by simp only [raise, if_pos]; omega, nn⟩
  · intro kv hkv; exact ⟨hmono (inv.memo kv hkv).1, (inv.memo kv hkv).2⟩
  · intro n tok sl p rp hn
    exact ⟨(inv.nodes n tok sl p rp hn).1, Nat.le_trans (inv.nodes n tok sl p rp hn).2 (raise_ge _ _ _)⟩
  · intro k e sl hk hl
    have hl' : Linear s e sl := hl
    rcases push_pool_get hk with h1 | ⟨_, h2⟩
    · have hs := inv.own k e sl h1 hl'
      cases hm : inMemo s (Handle.list sl') with
      | false =>
        have hne := C hm k e sl h1 hl'
        intro hlt
        simp only [raise, if_neg hne]
        exact hs hlt
      | true =>
        obtain ⟨kv, hkv, hkv2⟩ := inMemo_true hm
        have hw := (inv.memo kv hkv).1
        rw [hkv2] at hw
        intro hlt
        have := hs hlt
        have h3 := hw.2.2.1
        simp only [raise]
        split
        · rename_i heq; rw [heq] at this ⊢; omega
        · exact this
    · subst h2
      have : sl = sl' := by have := hl.2.1; simp at this; exact this.symm
      subst this
      intro hlt
      have := sf hlt
      simp only [raise, if_pos]
      omega
  · intro k j ek ej slk slj hk hj hlk hlj harr
    have hlk' : Linear s ek slk := hlk
    have hlj' : Linear s ej slj := hlj
    rcases push_pool_get hk with h1 | ⟨hk1, h2⟩
    · rcases push_pool_get hj with h3 | ⟨_, h4⟩
      · exact inv.uniq k j ek ej slk slj h1 h3 hlk' hlj' harr
      · subst h4
        have : slj = sl' := by have := hlj.2.1; simp at this; exact this.symm
        subst this
        exact absurd harr (C hlj'.2.2 k ek slk h1 hlk')
    · rcases push_pool_get hj with h3 | ⟨hj1, _⟩
      · subst h2
        have : slk = sl' := by have := hlk.2.1; simp at this; exact this.symm
        subst this
        exact absurd harr.symm (C hlk'.2.2 j ej slj h3 hlj')
      · omega
  · intro b hb
    refine ⟨(inv.bufs b hb).1, fun hc => ?_⟩
    simp only [raise, if_neg (B b hb hc)]
    exact (inv.bufs b hb).2 hc

/-! ### more building blocks -/

theorem Inv.alloc {s : St} {top : Nat → Nat} (inv : Inv s top) (o : NodeObj)
    (ow : ∀ tok sl pos rpos, o = NodeObj.nt tok sl pos rpos → SWF s.arrs sl ∧ sl.len ≤ top sl.arr) :
    Inv (allocNode s o) top := by
  have hn : s.nodes.length ≤ (allocNode s o).nodes.length := by simp [allocNode]
  refine ⟨inv.topz, inv.cellok.mono hn, ?_, ?_, ?_, inv.own, inv.uniq, inv.bufs⟩
  · intro e he; exact (inv.pool e he).frame _ hn (FrameA.refl _ _)
  · intro kv hkv; exact ⟨(inv.memo kv hkv).1.frame _ hn (FrameA.refl _ _), (inv.memo kv hkv).2⟩
  · intro n tok sl pos rpos hnn
    simp only [allocNode] at hnn
    by_cases hlt : n < s.nodes.length
    · rw [List.getElem?_append_left hlt] at hnn
      exact inv.nodes n tok sl pos rpos hnn
    · rw [List.getElem?_append_right (by omega)] at hnn
      by_cases h0 : n - s.nodes.length = 0
      · simp [h0] at hnn
        exact ow tok sl pos rpos hnn
      · simp [h0] at hnn

theorem Inv.setBufs {s : St} {top : Nat → Nat} (inv : Inv s top) (bufs' : List Slice)
    (hb : ∀ b ∈ bufs', SWF s.arrs b ∧ (b.cap ≠ 0 → top b.arr = 0)) : Inv { s with bufs := bufs' } top :=
  ⟨inv.topz, inv.cellok, inv.pool, inv.memo, inv.nodes, inv.own, inv.uniq, hb⟩

theorem inMemo_cons {s : St} {key : Nat} {h x : Handle} (hf : inMemo { s with memo := (key, h) :: s.memo } x = false) :
    inMemo s x = false := by
  unfold inMemo at hf ⊢
  simp only [List.any_cons, Bool.or_eq_false_iff] at hf
  exact hf.2

theorem Inv.memo_cons {s : St} {top : Nat → Nat} (inv : Inv s top) (key : Nat) (h : Handle) (hw : HWF s top h)
    (hs : Sealed h) : Inv { s with memo := (key, h) :: s.memo } top := by
  refine ⟨inv.topz, inv.cellok, inv.pool, ?_, inv.nodes, ?_, ?_, inv.bufs⟩
  · intro kv hkv
    simp only [List.mem_cons] at hkv
    rcases hkv with hkv | hkv
    · subst hkv; exact ⟨hw, hs⟩
    · exact inv.memo kv hkv
  · intro i e sl hi hl
    exact inv.own i e sl hi ⟨hl.1, hl.2.1, inMemo_cons hl.2.2⟩
  · intro i j ei ej sli slj hi hj hli hlj ha
    exact inv.uniq i j ei ej sli slj hi hj ⟨hli.1, hli.2.1, inMemo_cons hli.2.2⟩ ⟨hlj.1, hlj.2.1, inMemo_cons hlj.2.2⟩ ha

/-! ### consume -/

theorem consume_nodes (s : St) (i : Nat) (h : Handle) : (s.consume i h).nodes = s.nodes := by
  unfold St.consume; split <;> rfl
theorem consume_arrs (s : St) (i : Nat) (h : Handle) : (s.consume i h).arrs = s.arrs := by
  unfold St.consume; split <;> rfl
theorem consume_memo (s : St) (i : Nat) (h : Handle) : (s.consume i h).memo = s.memo := by
  unfold St.consume; split <;> rfl
theorem consume_bufs (s : St) (i : Nat) (h : Handle) : (s.consume i h).bufs = s.bufs := by
  unfold St.consume; split <;> rfl
theorem consume_pool_length (s : St) (i : Nat) (h : Handle) : (s.consume i h).pool.length = s.pool.length := by
  unfold St.consume; split
  · simp [St.kill]
  · rfl

theorem consume_pool_get {s : St} {i k : Nat} {h : Handle} {e : Entry} (hk : (s.consume i h).pool[k]? = some e) :
    ∃ e0, s.pool[k]? = some e0 ∧ e.h = e0.h ∧
      (e.live = true → e0.live = true ∧ e = e0 ∧ (consumable s h = true → k ≠ i)) := by
  unfold St.consume at hk
  split at hk
  · rename_i hc
    obtain ⟨e0, h0, hh, hl⟩ := kill_pool_get hk
    exact ⟨e0, h0, hh, fun hlv => ⟨(hl hlv).1, (hl hlv).2.2, fun _ => (hl hlv).2.1⟩⟩
  · rename_i hc
    exact ⟨e, hk, rfl, fun hlv => ⟨hlv, rfl, fun hcc => absurd hcc hc⟩⟩

theorem inMemo_congr {s s' : St} (h : s'.memo = s.memo) (x : Handle) : inMemo s' x = inMemo s x := by
  unfold inMemo; rw [h]

/-- `Linear` entries of the state after consuming entry `i` and replacing the arrays are `Linear` entries of
    the old state, and not entry `i` if that was consumable -/
theorem linear_after_consume {s : St} {i k : Nat} {h : Handle} {arrs' : Arrs} {e : Entry} {sl : Slice}
    (hk : ({ (s.consume i h) with arrs := arrs' } : St).pool[k]? = some e)
    (hl : Linear ({ (s.consume i h) with arrs := arrs' } : St) e sl) :
    s.pool[k]? = some e ∧ Linear s e sl ∧ (consumable s h = true → k ≠ i) := by
  obtain ⟨e0, h0, _, hlv⟩ := consume_pool_get (s := s) (i := i) (h := h) hk
  obtain ⟨_, he, hne⟩ := hlv hl.1
  subst he
  refine ⟨h0, ⟨hl.1, hl.2.1, ?_⟩, hne⟩
  have := hl.2.2
  rw [inMemo_congr (s := s) (by simp [consume_memo])] at this
  exact this

end PV.Slice
