/-
  THE JOINT REUSE INVARIANT of a stratified grammar (property C01, completeness, half A — cf.
  Proofs/RunComplete.lean, which this file extends from the monotone fragment to stratum 1 OVER stratum 0).

  `run_strat`: if `run cfg fuel g ctx pos st = some (o, st')` for a stratum-1 parser `g`, from a context that
  counts no stratum-0 index (`CtxUp`), at a position of the file, from a cache that satisfies `CacheS` —

      stratum-1 entries: `EntryS` — the promise of `EntryC`, for CURTAILED derivations of the stratified
                         grammar (`DerivesSC`, Spec/Strat.lean): every tree curtailed-derivable under any counters
                         that pass the test of `ResultCache.Get` against the STORED context is in the entry;
      stratum-0 entries: `LowEntry` (Proofs/StratLow.lean) — exact (`Big`), stored with empty context and empty
                         curtailing set —

  then for EVERY counter function `c'` that dominates `ctx` on the returned curtailing set `o.cp` every tree `x`
  with `DerivesSC cfg s c' g pos x` is among `o.res`, and `CacheS` holds of `st'`.  The same induction carries
  SOUNDNESS with respect to the stratified meaning: every returned tree `x` has `DerivesS cfg s g pos x` (for a low
  leaf: it is an alternative of the exact result, which is the rule `low`).

  The induction on fuel is that of `run_complete`; the new case is the LOW LEAF: there `run_low` applies (the
  sub-run never curtails: `o.cp = []`, and returns THE big-step result), the only rule of `DerivesSC` for a low
  leaf quotes a big-step result, and `Big` is deterministic (`big_fun`).
-/
import ParsleyVerif.Proofs.StratLow
import ParsleyVerif.Proofs.BigStepFun
namespace PV.Strat
open PV PV.Text PV.Big

/-! ### scope: projections of a stratum-1 parser -/

namespace UpS
variable {cfg : Cfg} {s : Cert} {bodyOf : Nat → G}

/-- a low leaf of a stratum-1 parser is a stratum-0 parser that enters only stratum-0 Memoize indexes -/
theorem leaf {g : G} (h : UpS cfg s bodyOf g) (hl : isLowLeaf s g = true) :
    LowS cfg s bodyOf g ∧ ∀ i ∈ lrfMemos s.lrf g, s.lowIdx i = true := by
  have key : leafOK s g = true → LowS cfg s bodyOf g ∧ ∀ i ∈ lrfMemos s.lrf g, s.lowIdx i = true := by
    intro hk
    simp only [leafOK, Bool.and_eq_true, List.all_eq_true] at hk
    exact ⟨⟨hk.1, h.gok, h.terms, G.All_self h.cons hl⟩, hk.2⟩
  have hok := h.ok
  cases g with
  | term t => simp [isLowLeaf] at hl
  | empty => simp [isLowLeaf] at hl
  | any gs => simp [isLowLeaf] at hl
  | optional g' => simp [isLowLeaf] at hl
  | eof => simp [upOK] at hok
  | ltrim g' m => simp [upOK] at hok
  | rtrim g' m => simp [upOK] at hok
  | ref k =>
    simp only [isLowLeaf] at hl
    simp only [upOK, hl, Bool.not_true, Bool.false_or] at hok
    exact key hok
  | memo i b =>
    simp only [isLowLeaf] at hl
    simp only [upOK, hl, ↓reduceIte] at hok
    exact key hok
  | seq k gs o =>
    cases k with
    | seqOf => simp [isLowLeaf] at hl
    | seqTry => simp only [upOK] at hok; exact key hok
    | seqFirstOrAll => simp only [upOK] at hok; exact key hok
  | choice gs => simp only [upOK] at hok; exact key hok
  | many g' ae o => simp only [upOK] at hok; exact key hok
  | sepBy v sp ae o => simp only [upOK] at hok; exact key hok
  | name g' nm => simp only [upOK] at hok; exact key hok
  | single g' => simp only [upOK] at hok; exact key hok
  | suppress g' => simp only [upOK] at hok; exact key hok

theorem term {t : Terminal} (h : UpS cfg s bodyOf (.term t)) : TermS cfg (.term t) := by
  have := h.terms; simpa [TermsOK, G.All] using this

/-- the predicate of `LeafCons` at one sub-parser -/
abbrev LeafConsP (cfg : Cfg) (s : Cert) : G → Prop := fun g0 => isLowLeaf s g0 = true → TermsCons cfg g0

theorem memo {i : Nat} {b : G} (h : UpS cfg s bodyOf (.memo i b)) (hi : s.lowIdx i = false) :
    b = bodyOf i ∧ UpS cfg s bodyOf b := by
  have h1 : upOK s b = true := by have := h.ok; simpa [upOK, hi] using this
  have h2 : b = bodyOf i ∧ GOK bodyOf b := by simpa [GOK, G.All, LocalOK] using h.gok
  have h3 : TermS cfg (.memo i b) ∧ b.All (TermS cfg) := by simpa [TermsOK, G.All] using h.terms
  have h4 : LeafConsP cfg s (.memo i b) ∧ b.All (LeafConsP cfg s) := by
    have := h.cons; simpa only [LeafCons, G.All] using this
  exact ⟨h2.1, h1, h2.2, h3.2, h4.2⟩

theorem any {gs : List G} (h : UpS cfg s bodyOf (.any gs)) : ∀ g ∈ gs, UpS cfg s bodyOf g := by
  have h1 : upOKList s gs = true := by simpa [upOK] using h.ok
  have h2 : LocalOK bodyOf (.any gs) ∧ AllList (LocalOK bodyOf) gs := by simpa [GOK, G.All] using h.gok
  have h3 : TermS cfg (.any gs) ∧ AllList (TermS cfg) gs := by simpa [TermsOK, G.All] using h.terms
  have h4 : LeafConsP cfg s (.any gs) ∧ AllList (LeafConsP cfg s) gs := by
    have := h.cons; simpa only [LeafCons, G.All] using this
  exact fun g hg => ⟨upOKList_mem h1 g hg, AllList_mem h2.2 g hg, AllList_mem h3.2 g hg, AllList_mem h4.2 g hg⟩

theorem optional {g : G} (h : UpS cfg s bodyOf (.optional g)) : UpS cfg s bodyOf g := by
  have h1 : upOK s g = true := by simpa [upOK] using h.ok
  have h2 : LocalOK bodyOf (.optional g) ∧ g.All (LocalOK bodyOf) := by simpa [GOK, G.All] using h.gok
  have h3 : TermS cfg (.optional g) ∧ g.All (TermS cfg) := by simpa [TermsOK, G.All] using h.terms
  have h4 : LeafConsP cfg s (.optional g) ∧ g.All (LeafConsP cfg s) := by
    have := h.cons; simpa only [LeafCons, G.All] using this
  exact ⟨h1, h2.2, h3.2, h4.2⟩

theorem seqOf {gs : List G} {o : SeqOpts} {sh : SeqShape} (h : UpS cfg s bodyOf (.seq .seqOf gs o))
    (hs : (G.seq .seqOf gs o).shape = some sh) :
    (∀ d g', sh.lookup d = some g' → UpS cfg s bodyOf g') ∧ sh.token ≠ eofTok := by
  have h1 : tokOK o seqTok = true ∧ upOKList s gs = true := by simpa [upOK] using h.ok
  refine ⟨?_, ?_⟩
  · intro d g' hd
    refine ⟨?_, shape_lookup_all h.gok hs d g' hd, shape_lookup_all h.terms hs d g' hd,
      shape_lookup_all h.cons hs d g' hd⟩
    simp only [G.shape, Option.some.injEq] at hs
    subst hs
    exact upOKList_mem h1.2 g' (List.mem_of_getElem? hd)
  · simp only [G.shape, Option.some.injEq] at hs
    subst hs
    exact tokOK_ne h1.1

end UpS

/-! ### the invariant -/

/-- what a result computed under `ctx` with curtailing set `cp` promises -/
def OutS (cfg : Cfg) (s : Cert) (g : G) (ctx : Ctx) (pos : Nat) (o : Out) : Prop :=
  ∀ (c' : Nat → Nat) (x : Node), (∀ k ∈ o.cp, ctx.get k ≤ c' k) → DerivesSC cfg s c' g pos x → x ∈ o.res.alts

/-- the tree does not carry the token "EOF" at its root and ends inside the file, not before the call position -/
def OKN (cfg : Cfg) (pos : Nat) (x : Node) : Prop := x.token ≠ eofTok ∧ pos ≤ x.rpos ∧ x.rpos ≤ cfg.hi

/-- every tree of the result satisfies `Q` -/
def ResQ (Q : Node → Prop) (r : Res) : Prop := ∀ x ∈ r.alts, Q x

def ResOK (cfg : Cfg) (pos : Nat) (r : Res) : Prop := ResQ (OKN cfg pos) r

structure EntryS (cfg : Cfg) (s : Cert) (bodyOf : Nat → G) (e : CacheEntry) : Prop where
  /-- `Filter(cp)`: only counters of curtailed parsers are stored -/
  keys : ∀ kv ∈ e.ctx, kv.1 ∈ e.cp
  /-- the premise is the test of `ResultCache.Get` -/
  complete : ∀ (c' : Nat → Nat) (x : Node), (∀ kv ∈ e.ctx, kv.2 ≤ c' kv.1) →
      DerivesSC cfg s c' (.memo e.idx (bodyOf e.idx)) e.pos x → x ∈ e.res.alts
  ok : ResOK cfg e.pos e.res
  /-- and it only holds derivations -/
  sound : ∀ x ∈ e.res.alts, DerivesS cfg s (.memo e.idx (bodyOf e.idx)) e.pos x

/-- the cache invariant of a stratified run -/
def CacheS (cfg : Cfg) (s : Cert) (bodyOf : Nat → G) (st : St) : Prop :=
  MixCache cfg s bodyOf (EntryS cfg s bodyOf) st

/-- a stratum-1 context counts no stratum-0 index -/
def CtxUp (s : Cert) (ctx : Ctx) : Prop := ∀ i, s.lowIdx i = true → ctx.get i = 0

theorem CtxUp.nil (s : Cert) : CtxUp s [] := fun _ _ => rfl

def RunS (cfg : Cfg) (s : Cert) (bodyOf : Nat → G) (r : RunFn) : Prop :=
  ∀ g ctx pos st o st', UpS cfg s bodyOf g → InFile cfg.file pos → CtxUp s ctx → CacheS cfg s bodyOf st →
    r g ctx pos st = some (o, st') →
    OutS cfg s g ctx pos o ∧ ResOK cfg pos o.res ∧ (∀ x ∈ o.res.alts, DerivesS cfg s g pos x) ∧
      CacheS cfg s bodyOf st'

theorem ResQ_nil (Q : Node → Prop) : ResQ Q .nil := by intro x hx; cases hx

theorem ResQ_append {Q : Node → Prop} {a b : Res} (ha : ResQ Q a) (hb : ResQ Q b) : ResQ Q (appendNode a b) := by
  intro x hx
  cases mem_appendNode _ _ _ hx with
  | inl h => exact ha x h
  | inr h => exact hb x h

theorem DerivesSeqS.snoc {cfg : Cfg} {s : Cert} {sh : SeqShape} {g : G} {n : Node} :
    ∀ {nodes : List Node} {d p : Nat}, DerivesSeqS cfg s sh d p nodes →
      sh.lookup (d + nodes.length) = some g → DerivesS cfg s g (endOf p nodes) n →
      DerivesSeqS cfg s sh d p (nodes ++ [n])
  | [], d, p, _, hl, hd => by
    simp only [List.length_nil, Nat.add_zero] at hl
    exact .cons hl (by simpa [endOf] using hd) .nil
  | m :: rest, d, p, h, hl, hd => by
    cases h with
    | cons hl' hm hrest =>
      refine .cons hl' hm (DerivesSeqS.snoc (g := g) hrest ?_ ?_)
      · simpa [Nat.add_assoc, Nat.add_comm 1] using hl
      · rw [endOf_cons] at hd; exact hd

theorem ResOK_nil (cfg : Cfg) (pos : Nat) : ResOK cfg pos .nil := by intro x hx; cases hx

theorem ResOK_append {cfg : Cfg} {pos : Nat} {a b : Res} (ha : ResOK cfg pos a) (hb : ResOK cfg pos b) :
    ResOK cfg pos (appendNode a b) := ResQ_append ha hb

theorem ResOK_empty {cfg : Cfg} {pos : Nat} (hin : InFile cfg.file pos) : ResOK cfg pos (.one (.empty pos)) := by
  intro x hx
  simp only [Res.alts, List.mem_singleton] at hx
  subst hx
  exact ⟨by simp [Node.token, eofTok], Nat.le_refl _, hin.2⟩

/-! ### Any -/

theorem anyLoop_strat (cfg : Cfg) (s : Cert) (bodyOf : Nat → G) (r : RunFn) (hr : RunS cfg s bodyOf r)
    (ctx : Ctx) (pos : Nat) (hin : InFile cfg.file pos) (hup : CtxUp s ctx) (Q : Node → Prop) :
    ∀ (gs : List G), (∀ g ∈ gs, UpS cfg s bodyOf g) →
      (∀ g ∈ gs, ∀ x, OKN cfg pos x → DerivesS cfg s g pos x → Q x) →
      ∀ a st a' st', CacheS cfg s bodyOf st → ResQ Q a.res → anyLoop r ctx pos gs a st = some (a', st') →
        CacheS cfg s bodyOf st' ∧ ResQ Q a'.res ∧ (∀ x ∈ a.res.alts, x ∈ a'.res.alts) ∧
        (∀ k ∈ a.cp, k ∈ a'.cp) ∧
        ∀ g ∈ gs, ∀ (c' : Nat → Nat) (x : Node), (∀ k ∈ a'.cp, ctx.get k ≤ c' k) → DerivesSC cfg s c' g pos x →
          x ∈ a'.res.alts := by
  intro gs
  induction gs with
  | nil =>
    intro _ _ a st a' st' hC hN h
    simp only [anyLoop] at h
    cases h
    exact ⟨hC, hN, fun x hx => hx, fun k hk => hk, (by intro g hg; cases hg)⟩
  | cons g gs ih =>
    intro hgs hQ a st a' st' hC hN h
    simp only [anyLoop] at h
    split at h
    · cases h
    · rename_i o st1 hrun
      have hg1 := hgs g (List.mem_cons_self ..)
      obtain ⟨hO, hNo, hSo, hC1⟩ := hr g ctx pos st.regCall o st1 hg1 hin hup (MixCache.of_eq hC rfl) hrun
      obtain ⟨f1, f2, _, _⟩ := altErr_fields pos { a with cp := cpUnion a.cp o.cp, res := appendNode a.res o.res } o.err
      have hN1 : ResQ Q (altErr pos { a with cp := cpUnion a.cp o.cp, res := appendNode a.res o.res } o.err).res := by
        rw [f2]
        exact ResQ_append hN (fun x hx => hQ g (List.mem_cons_self ..) x (hNo x hx) (hSo x hx))
      obtain ⟨c1, c2, c3, c4, c5⟩ := ih (fun g' hg' => hgs g' (List.mem_cons_of_mem _ hg'))
        (fun g' hg' => hQ g' (List.mem_cons_of_mem _ hg')) _ _ _ _ hC1 hN1 h
      rw [f2] at c3
      rw [f1] at c4
      refine ⟨c1, c2, fun x hx => c3 x (mem_appendNode_left _ _ _ hx), fun k hk => c4 k (mem_cpUnion_left _ _ _ hk), ?_⟩
      intro g' hg' c' x hdom hd
      cases hg' with
      | head =>
        refine c3 x (mem_appendNode_right _ _ _ (hO c' x ?_ hd))
        intro k hk
        exact hdom k (c4 k (mem_cpUnion_right _ _ _ hk))
      | tail _ hm => exact c5 g' hm c' x hdom hd

/-! ### Sequence -/

/-- how the `sequence` object may evolve: results and curtailing parsers are only ever added -/
def SeqLeS (Q : Node → Prop) (ss ss' : SeqSt) : Prop :=
  (∀ x ∈ ss.result.alts, x ∈ ss'.result.alts) ∧ (∀ k ∈ ss.cp, k ∈ ss'.cp) ∧
    (ResQ Q ss.result → ResQ Q ss'.result)

theorem SeqLeS.refl (Q : Node → Prop) (ss : SeqSt) : SeqLeS Q ss ss := ⟨fun _ h => h, fun _ h => h, id⟩
theorem SeqLeS.trans {Q : Node → Prop} {a b c : SeqSt} (h1 : SeqLeS Q a b) (h2 : SeqLeS Q b c) :
    SeqLeS Q a c :=
  ⟨fun x hx => h2.1 x (h1.1 x hx), fun k hk => h2.2.1 k (h1.2.1 k hk), fun h => h2.2.2 (h1.2.2 h)⟩

/-- the alternatives loop visits EVERY alternative, provided the early exit never fires -/
theorem seqAlts_traceS (Q : Node → Prop) (k : Node → SeqSt → St → Option (Bool × SeqSt × St)) (Inv : St → Prop) :
    ∀ (l : List Node),
      (∀ n ∈ l, ∀ ss st b ss' st', Inv st → k n ss st = some (b, ss', st') → b = false ∧ Inv st' ∧ SeqLeS Q ss ss') →
      ∀ ss st b ss' st', Inv st → seqAlts k l ss st = some (b, ss', st') →
        b = false ∧ Inv st' ∧ SeqLeS Q ss ss' ∧
        ∀ n ∈ l, ∃ ss2 st2 ss3 st3, Inv st2 ∧ k n ss2 st2 = some (false, ss3, st3) ∧ SeqLeS Q ss3 ss' := by
  intro l
  induction l with
  | nil =>
    intro _ ss st b ss' st' hI h
    simp only [seqAlts] at h
    cases h
    exact ⟨rfl, hI, SeqLeS.refl _ _, (by intro n hn; cases hn)⟩
  | cons n rest ih =>
    intro hk ss st b ss' st' hI h
    simp only [seqAlts] at h
    split at h
    · cases h
    · rename_i ss1 st1 hk1
      have := (hk n (List.mem_cons_self ..) _ _ _ _ _ hI hk1).1
      cases this
    · rename_i ss1 st1 hk1
      obtain ⟨_, e1, e2⟩ := hk n (List.mem_cons_self ..) _ _ _ _ _ hI hk1
      obtain ⟨r1, r2, r3, r4⟩ := ih (fun n' hn' => hk n' (List.mem_cons_of_mem _ hn')) ss1 st1 b ss' st' e1 h
      refine ⟨r1, r2, e2.trans r3, ?_⟩
      intro n' hn'
      cases hn' with
      | head => exact ⟨ss, st, ss1, st1, hI, hk1, r3⟩
      | tail _ hm => exact r4 n' hm

theorem SeqLeS_after (Q : Node → Prop) (m : Bool) (ss : SeqSt) (o : Out) : SeqLeS Q ss (seqAfter m ss o) :=
  ⟨by rw [PV.seqAfter_result]; exact fun _ h => h, seqAfter_cp_left m ss o, by rw [PV.seqAfter_result]; exact id⟩

/-- **Completeness principle for the sequence loop over a stratified grammar** (cf. `seqParse_complete`) -/
theorem seqParse_strat (cfg : Cfg) (s : Cert) (bodyOf : Nat → G) (r : RunFn) (hr : RunS cfg s bodyOf r)
    (sh : SeqShape)
    (hlook : ∀ d g', sh.lookup d = some g' → UpS cfg s bodyOf g')
    (hlc : ∀ d g', sh.lookup d = some g' → sh.lenCheck d = false)
    (htok : sh.token ≠ eofTok) (pos0 : Nat) (Q : Node → Prop)
    (hQ : ∀ nodes, DerivesSeqS cfg s sh 0 pos0 nodes → sh.lenCheck nodes.length = true →
      OKN cfg pos0 (handleResult sh pos0 nodes) → Q (handleResult sh pos0 nodes)) :
    ∀ (fuel : Nat) (fr : Frame) ss st b ss' st',
      CacheS cfg s bodyOf st → fr.depth = fr.nodes.length → (fr.merge = false → fr.ctx = []) →
      (∀ n ∈ fr.nodes, n.token ≠ eofTok) → endOf pos0 fr.nodes = fr.pos →
      InFile cfg.file fr.pos → pos0 ≤ fr.pos → CtxUp s fr.ctx → DerivesSeqS cfg s sh 0 pos0 fr.nodes →
      seqParse r sh fuel fr.depth fr.nodes fr.ctx fr.pos fr.merge ss st = some (b, ss', st') →
      b = false ∧ CacheS cfg s bodyOf st' ∧ SeqLeS Q ss ss' ∧
      ∀ (c' : Nat → Nat) (rest : List Node), (fr.merge = true → ∀ k ∈ ss'.cp, fr.ctx.get k ≤ c' k) →
        DerivesSeqSC cfg s c' sh fr.depth fr.pos rest → sh.lenCheck (fr.depth + rest.length) = true →
        handleResult sh pos0 (fr.nodes ++ rest) ∈ ss'.result.alts := by
  intro fuel
  induction fuel with
  | zero => intro fr ss st b ss' st' _ _ _ _ _ _ _ _ _ h; simp [seqParse] at h
  | succ fuel ih =>
    intro fr ss st b ss' st' hC hd hm hne hend hin hp0 hup hch h
    rw [seqParse_succ] at h
    generalize hstep : seqStep r sh fr st = step at h
    unfold seqStep at hstep
    cases step with
    | none => simp at h
    | some p =>
    obtain ⟨o, st1⟩ := p
    simp only at h
    -- what the call of element `depth` gives
    have hfacts : CacheS cfg s bodyOf st1 ∧ ResOK cfg fr.pos o.res ∧
        (∀ g', sh.lookup fr.depth = some g' → OutS cfg s g' fr.ctx fr.pos o) ∧
        (∀ g', sh.lookup fr.depth = some g' → ∀ x ∈ o.res.alts, DerivesS cfg s g' fr.pos x) ∧
        (sh.lookup fr.depth = none → o.res.isNil = true) := by
      cases hl : sh.lookup fr.depth with
      | none =>
        simp only [hl] at hstep
        cases hstep
        exact ⟨hC, ResOK_nil _ _, (by intro g' hg'; cases hg'), (by intro g' hg'; cases hg'), fun _ => rfl⟩
      | some g' =>
        simp only [hl] at hstep
        obtain ⟨hO, hN, hS, hC1⟩ := hr g' fr.ctx fr.pos st.regCall o st1 (hlook _ _ hl) hin hup (MixCache.of_eq hC rfl) hstep
        exact ⟨hC1, hN, (by intro g'' hg''; cases hg''; exact hO), (by intro g'' hg''; cases hg''; exact hS),
          (by intro hc; cases hc)⟩
    obtain ⟨hC1, hNo, hOut, hSnd, hnone⟩ := hfacts
    -- the domination premise for the element, from the one for the whole frame
    have hdomEl : ∀ (c' : Nat → Nat) (fin : SeqSt), SeqLeS Q (seqAfter fr.merge ss o) fin →
        (fr.merge = true → ∀ k ∈ fin.cp, fr.ctx.get k ≤ c' k) → ∀ k ∈ o.cp, fr.ctx.get k ≤ c' k := by
      intro c' fin hle hdom k hk
      cases hmg : fr.merge with
      | true =>
        refine hdom hmg k (hle.2.1 k ?_)
        rw [hmg]; exact seqAfter_cp_right ss o k hk
      | false => rw [hm hmg]; exact Nat.zero_le _
    -- the tree emitted at this depth
    have hemitEq : handleResult sh fr.pos (if fr.depth > 0 then fr.nodes else []) = handleResult sh pos0 fr.nodes := by
      have hn : (if fr.depth > 0 then fr.nodes else []) = fr.nodes := by
        split
        · rfl
        · have : fr.nodes.length = 0 := by omega
          exact (List.length_eq_zero_iff.mp this).symm
      rw [hn]
      cases hnn : fr.nodes with
      | nil => rw [hnn] at hend; simp only [endOf_nil] at hend; rw [hend]
      | cons a b => exact handleResult_pos_irrel sh _ _ _ (by simp)
    have hemitOK : sh.lenCheck fr.depth = true → ResQ Q (.one (handleResult sh pos0 fr.nodes)) := by
      intro hlcd x hx
      simp only [Res.alts, List.mem_singleton] at hx
      subst hx
      refine hQ fr.nodes hch (by rw [← hd]; exact hlcd) ⟨handleResult_token sh pos0 fr.nodes htok hne, ?_, ?_⟩
      · rw [handleResult_rpos, hend]; exact hp0
      · rw [handleResult_rpos, hend]; exact hin.2
    by_cases hnil : o.res.isNil = true
    · -- the element failed (or there is no further element)
      have halts : o.res.alts = [] := alts_nil_of_isNil hnil
      have hnocons : ∀ (c' : Nat → Nat) (n : Node) (rest1 : List Node) (fin : SeqSt), SeqLeS Q (seqAfter fr.merge ss o) fin →
          (fr.merge = true → ∀ k ∈ fin.cp, fr.ctx.get k ≤ c' k) →
          ¬ DerivesSeqSC cfg s c' sh fr.depth fr.pos (n :: rest1) := by
        intro c' n rest1 fin hle hdom hds
        cases hds with
        | cons hl' hn' _ =>
          have := hOut _ hl' c' n (hdomEl c' fin hle hdom) hn'
          rw [halts] at this; cases this
      simp only [hnil, ↓reduceIte] at h
      by_cases hlcd : sh.lenCheck fr.depth = true
      · simp only [hlcd, ↓reduceIte] at h
        injection h with h
        injection h with hb h
        injection h with hs hst
        subst hb hs hst
        have hle : SeqLeS Q (seqAfter fr.merge ss o) (seqEmit sh fr (seqAfter fr.merge ss o)) := by
          refine ⟨fun x hx => mem_appendNode_left _ _ _ hx, fun k hk => hk, ?_⟩
          intro hN
          refine ResQ_append hN ?_
          rw [hemitEq]
          exact hemitOK hlcd
        refine ⟨emitB_false fr hne, hC1, (SeqLeS_after _ _ _ _).trans hle, ?_⟩
        intro c' rest hdom hds _
        cases rest with
        | nil =>
          rw [List.append_nil]
          simp only [seqEmit]
          refine mem_appendNode_right _ _ _ ?_
          rw [hemitEq]; simp [Res.alts]
        | cons n rest1 => exact absurd hds (hnocons c' n rest1 _ hle hdom)
      · simp only [hlcd] at h
        injection h with h
        injection h with hb h
        injection h with hs hst
        subst hb hs hst
        refine ⟨rfl, hC1, SeqLeS_after _ _ _ _, ?_⟩
        intro c' rest hdom hds hlen
        cases rest with
        | nil => simp only [List.length_nil, Nat.add_zero] at hlen; exact absurd hlen hlcd
        | cons n rest1 => exact absurd hds (hnocons c' n rest1 _ (SeqLeS.refl _ _) hdom)
    · -- the element returned alternatives
      have hnil' : o.res.isNil = false := by simpa using hnil
      simp only [hnil', Bool.false_eq_true, ↓reduceIte] at h
      obtain ⟨g', hl⟩ : ∃ g', sh.lookup fr.depth = some g' := by
        cases hl : sh.lookup fr.depth with
        | none => exact absurd (hnone hl) hnil
        | some g' => exact ⟨g', rfl⟩
      -- the frame each alternative continues with
      have hnext : ∀ n ∈ o.res.alts, (fr.next n).depth = (fr.next n).nodes.length ∧
          ((fr.next n).merge = false → (fr.next n).ctx = []) ∧
          (∀ m ∈ (fr.next n).nodes, m.token ≠ eofTok) ∧ endOf pos0 (fr.next n).nodes = (fr.next n).pos ∧
          InFile cfg.file (fr.next n).pos ∧ pos0 ≤ (fr.next n).pos ∧ CtxUp s (fr.next n).ctx ∧
          DerivesSeqS cfg s sh 0 pos0 (fr.next n).nodes := by
        intro n hn
        obtain ⟨q1, q2, q3⟩ := hNo n hn
        refine ⟨by simp [Frame.next, hd], ?_, ?_, by simp only [Frame.next]; exact endOf_snoc _ _ _,
          InFile_of_le hin q2 q3, by simp only [Frame.next]; omega, ?_, ?_⟩
        · intro hmf
          simp only [Frame.next] at hmf ⊢
          by_cases hc : n.rpos > fr.pos
          · simp [hc]
          · simp only [hc, decide_false, Bool.not_false, Bool.and_true] at hmf
            simp only [hc, ↓reduceIte]
            exact hm hmf
        · intro m hmm
          simp only [Frame.next, List.mem_append, List.mem_singleton] at hmm
          cases hmm with
          | inl h1 => exact hne m h1
          | inr h1 => rw [h1]; exact q1
        · simp only [Frame.next]
          by_cases hc : n.rpos > fr.pos
          · simp only [hc, ↓reduceIte]; exact CtxUp.nil s
          · simp only [hc, ↓reduceIte]; exact hup
        · simp only [Frame.next]
          refine DerivesSeqS.snoc hch (by rw [Nat.zero_add, ← hd]; exact hl) ?_
          rw [hend]; exact hSnd _ hl n hn
      obtain ⟨t1, t2, t3, t4⟩ := seqAlts_traceS Q _ (CacheS cfg s bodyOf) o.res.alts
        (by
          intro n hn ss2 st2 b2 ss3 st3 hC2 hk
          obtain ⟨n1, n2, n3, n4, n5, n6, n7, n8⟩ := hnext n hn
          obtain ⟨i1, i2, i3, _⟩ := ih (fr.next n) ss2 st2 b2 ss3 st3 hC2 n1 n2 n3 n4 n5 n6 n7 n8 hk
          exact ⟨i1, i2, i3⟩)
        _ _ _ _ _ hC1 h
      refine ⟨t1, t2, (SeqLeS_after _ _ _ _).trans t3, ?_⟩
      intro c' rest hdom hds hlen
      cases rest with
      | nil =>
        simp only [List.length_nil, Nat.add_zero] at hlen
        rw [hlc _ _ hl] at hlen; cases hlen
      | cons n rest1 =>
        cases hds with
        | cons hl' hn' hrest =>
          have hnm : n ∈ o.res.alts := hOut _ hl' c' n (hdomEl c' ss' t3 hdom) hn'
          obtain ⟨ss2, st2, ss3, st3, hC2, hk, hle3⟩ := t4 n hnm
          obtain ⟨n1, n2, n3, n4, n5, n6, n7, n8⟩ := hnext n hnm
          obtain ⟨_, _, _, i4⟩ := ih (fr.next n) ss2 st2 false ss3 st3 hC2 n1 n2 n3 n4 n5 n6 n7 n8 hk
          have := i4 (if n.rpos > fr.pos then zeroC else c') rest1 ?_ (by simpa [Frame.next] using hrest)
            (by simpa [Frame.next, Nat.add_assoc, Nat.add_comm 1] using hlen)
          · refine hle3.1 _ ?_
            simpa [Frame.next, List.append_assoc] using this
          · intro hmg k hk3
            simp only [Frame.next] at hmg ⊢
            by_cases hc : n.rpos > fr.pos
            · simp [hc] at hmg
            · simp only [hc, decide_false, Bool.not_false, Bool.and_true] at hmg
              simp only [hc, ↓reduceIte]
              exact hdom hmg k (hle3.2.1 k hk3)

/-! ### the induction -/

theorem run_strat (cfg : Cfg) (s : Cert) (bodyOf : Nat → G) (henv : EnvS cfg s bodyOf) :
    ∀ fuel, RunS cfg s bodyOf (run cfg fuel) := by
  intro fuel
  induction fuel with
  | zero => intro g ctx pos st o st' _ _ _ _ h; simp [run] at h
  | succ fuel ih =>
    intro g ctx pos st o st' hg hin hup hcs h
    by_cases hleaf : isLowLeaf s g = true
    · -- a low leaf: the sub-run never curtails and returns THE big-step result
      obtain ⟨hlow, hmem⟩ := hg.leaf hleaf
      obtain ⟨hcp, hbig, hC1⟩ := run_low cfg s bodyOf (EntryS cfg s bodyOf) henv (fuel + 1) g ctx pos st o st' hlow hin
        (fun i hi => hup i (hmem i hi)) hcs h
      have hdo := low_big henv hbig hlow hin
      refine ⟨?_, ?_, fun x hx => .low hleaf hbig hx, hC1⟩
      · intro c' x _ hd
        have key : ∀ R e, Big cfg g pos R e → x ∈ R.alts → x ∈ o.res.alts := by
          intro R e hb hx
          obtain ⟨hR, _⟩ := big_fun hb hbig
          rw [← hR]; exact hx
        cases hd with
        | low _ hb hx => exact key _ _ hb hx
        | term _ => simp [isLowLeaf] at hleaf
        | empty => simp [isLowLeaf] at hleaf
        | ref hk _ _ => simp only [isLowLeaf] at hleaf; rw [hleaf] at hk; cases hk
        | memo hi _ _ => simp only [isLowLeaf] at hleaf; rw [hleaf] at hi; cases hi
        | any _ _ => simp [isLowLeaf] at hleaf
        | optSome _ => simp [isLowLeaf] at hleaf
        | optNone => simp [isLowLeaf] at hleaf
        | seqOf _ _ _ => simp [isLowLeaf] at hleaf
      · intro x hx
        have hd := hdo x hx
        obtain ⟨p1, p2, _⟩ := hd.inFile hin
        exact ⟨noEofDeep_token hd.tok, p1, p2⟩
    -- a monotone operator of stratum 1
    cases hsh : g.shape with
    | some sh =>
      obtain ⟨gs, so, rfl⟩ : ∃ gs so, g = .seq .seqOf gs so := by
        cases g with
        | seq k gs so =>
          cases k with
          | seqOf => exact ⟨gs, so, rfl⟩
          | seqTry => simp [isLowLeaf] at hleaf
          | seqFirstOrAll => simp [isLowLeaf] at hleaf
        | many g1 ae so => simp [isLowLeaf] at hleaf
        | sepBy v sp ae so => simp [isLowLeaf] at hleaf
        | _ => simp [G.shape] at hsh
      rw [run_seqfam cfg fuel _ sh ctx pos st hsh] at h
      split at h
      · cases h
      · unfold runSeq at h
        split at h
        · cases h
        · rename_i b ss st1 hsp
          have hfin : seqFinish sh pos ss st1 = (o, st') := by injection h
          obtain ⟨s1, _⟩ := seqOf_shape hsh
          obtain ⟨u1, htok⟩ := hg.seqOf hsh
          obtain ⟨_, c2, c3, c4⟩ := seqParse_strat cfg s bodyOf (run cfg fuel) ih sh u1 s1 htok pos
            (fun x => OKN cfg pos x ∧ DerivesS cfg s (.seq .seqOf gs so) pos x)
            (fun nodes hch hlen hok => ⟨hok, .seqOf hsh hch hlen⟩) fuel
            ⟨0, [], ctx, pos, true⟩ {} st b ss st1 hcs rfl (by intro hc; cases hc) (by intro n hn; cases hn) rfl
            hin (Nat.le_refl _) hup .nil hsp
          obtain ⟨f1, f2⟩ := seqFinish_res sh pos ss st1
          obtain ⟨f3, f4⟩ := seqFinish_complete sh pos ss st1
          rw [hfin] at f1 f2 f3 f4
          have hQ := c3.2.2 (ResQ_nil _)
          refine ⟨?_, fun x hx => (hQ x (f1 x hx)).1, fun x hx => (hQ x (f1 x hx)).2, MixCache.of_eq c2 f2⟩
          intro c' x hdom hd
          cases hd with
          | low hl _ _ => simp [isLowLeaf] at hl
          | seqOf hs' hds hlen =>
            rename_i sh' nodes
            have : sh' = sh := by rw [hsh] at hs'; injection hs' with e; exact e.symm
            subst this
            refine f3 _ ?_
            have := c4 c' nodes (by intro _ k hk; rw [f4] at hdom; exact hdom k hk) hds
              (by simpa using hlen)
            simpa using this
    | none =>
    unfold run at h
    split at h
    · cases h
    · cases g with
      | term t =>
        simp only at h
        obtain ⟨t1, t3⟩ := hg.term
        split at h
        · rename_i n hp
          cases h
          refine ⟨?_, ?_, ?_, hcs⟩
          · intro c' x _ hd
            cases hd with
            | low hl _ _ => simp [isLowLeaf] at hl
            | term hp' => rw [hp] at hp'; cases hp'; simp [Res.alts]
          · intro x hx
            simp only [Res.alts, List.mem_singleton] at hx
            subst hx
            obtain ⟨a1, a2⟩ := (t1 pos hin).1 _ hp
            have hb := Node.WF_bounds cfg.hi _ a2
            rw [a1] at hb
            exact ⟨noEofDeep_token (t3 _ _ hp), hb.1, hb.2⟩
          · intro x hx
            simp only [Res.alts, List.mem_singleton] at hx
            subst hx
            exact .term hp
        · rename_i e hp
          cases h
          refine ⟨?_, ResOK_nil _ _, (by intro x hx; cases hx), MixCache.of_eq hcs (logEv_fields st cfg _).1⟩
          intro c' x _ hd
          cases hd with
          | low hl _ _ => simp [isLowLeaf] at hl
          | term hp' => rw [hp] at hp'; cases hp'
        · rename_i site hp
          cases h
          refine ⟨?_, ResOK_nil _ _, (by intro x hx; cases hx), hcs⟩
          intro c' x _ hd
          cases hd with
          | low hl _ _ => simp [isLowLeaf] at hl
          | term hp' => rw [hp] at hp'; cases hp'
      | empty =>
        simp only at h
        cases h
        refine ⟨?_, ResOK_empty hin, ?_, hcs⟩
        · intro c' x _ hd
          cases hd with
          | low hl _ _ => simp [isLowLeaf] at hl
          | empty => simp [Res.alts]
        · intro x hx
          simp only [Res.alts, List.mem_singleton] at hx
          subst hx
          exact .empty
      | eof => simp [isLowLeaf] at hleaf
      | ref k =>
        simp only at h
        have hk0 : s.lowRule k = false := by simpa [isLowLeaf] using hleaf
        split at h
        · rename_i g' hk
          obtain ⟨h1, h2, hs2, h3⟩ := ih g' ctx pos st o st' (henv.up k g' hk hk0) hin hup hcs h
          refine ⟨?_, h2, fun x hx => .ref hk0 hk (hs2 x hx), h3⟩
          intro c' x hdom hd
          cases hd with
          | low hl _ _ => simp only [isLowLeaf] at hl; rw [hk0] at hl; cases hl
          | ref _ hk' hd' => rw [hk] at hk'; cases hk'; exact h1 c' x hdom hd'
        · rename_i hk
          cases h
          refine ⟨?_, ResOK_nil _ _, (by intro x hx; cases hx), hcs⟩
          intro c' x _ hd
          cases hd with
          | low hl _ _ => simp only [isLowLeaf] at hl; rw [hk0] at hl; cases hl
          | ref _ hk' hd' => rw [hk'] at hk; cases hk
      | memo idx body =>
        simp only at h
        have hi0 : s.lowIdx idx = false := by simpa [isLowLeaf] using hleaf
        obtain ⟨hb, hub⟩ := hg.memo hi0
        cases hc : cacheGet st.cache idx pos ctx with
        | some e =>
          -- reuse: the test of `Get` is the premise of the entry's promise
          simp only [hc] at h
          cases h
          obtain ⟨hm, hi, hp⟩ := cacheGet_some hc
          have hE := (hcs e hm).2 (by rw [hi]; exact hi0)
          refine ⟨?_, by have := hE.ok; rw [hp] at this; exact this, ?_, MixCache.of_eq hcs (logEv_fields st cfg _).1⟩
          · intro c' x hdom hd
            simp only at hdom
            refine hE.complete c' x ?_ (by rw [hi, hp, ← hb]; exact hd)
            intro kv hkv
            have h1 := cacheGet_ctx hc kv hkv
            have h2 := hdom kv.1 (hE.keys kv hkv)
            omega
          · intro x hx
            have := hE.sound x hx
            rw [hi, hp, ← hb] at this
            exact this
        | none =>
          simp only [hc] at h
          by_cases hcur : ctx.get idx > remaining cfg.file pos + Facts.curtailSlack
          · -- curtailment: no curtailed derivation enters `idx` under counters that dominate `ctx` on it
            simp only [hcur, ↓reduceIte] at h
            cases h
            refine ⟨?_, ResOK_nil _ _, (by intro x hx; cases hx), MixCache.of_eq hcs (logEv_fields st cfg _).1⟩
            intro c' x hdom hd
            have h1 := hdom idx (by simp)
            cases hd with
            | low hl _ _ => simp only [isLowLeaf] at hl; rw [hi0] at hl; cases hl
            | memo _ hle _ => omega
          · simp only [hcur, ↓reduceIte] at h
            split at h
            · cases h
            · rename_i o2 st2 hr
              cases h
              have hupb : CtxUp s (ctx.inc idx) := by
                intro i hi
                have hne : i ≠ idx := fun e => by rw [e, hi0] at hi; cases hi
                rw [Ctx.get_inc_other _ _ _ hne]
                exact hup i hi
              have hih := fun hc1 => ih _ _ _ _ _ _ hub hin hupb hc1 hr
              obtain ⟨h1, h2, hs2, h3⟩ := hih (MixCache.of_eq hcs (logEv_fields _ cfg _).1)
              have hOut : OutS cfg s (.memo idx body) ctx pos o := by
                intro c' x hdom hd
                cases hd with
                | low hl _ _ => simp only [isLowLeaf] at hl; rw [hi0] at hl; cases hl
                | memo _ hle hd' =>
                  refine h1 (bump c' idx) x ?_ hd'
                  intro k hk
                  by_cases hki : k = idx
                  · subst hki
                    rw [Ctx.get_inc_self]
                    have := hdom k hk
                    simp only [bump, ↓reduceIte]; omega
                  · rw [Ctx.get_inc_other _ _ _ hki]
                    have := hdom k hk
                    simp only [bump, hki, ↓reduceIte]; exact this
              have hSnd : ∀ x ∈ o.res.alts, DerivesS cfg s (.memo idx body) pos x :=
                fun x hx => .memo hi0 (hs2 x hx)
              refine ⟨hOut, h2, hSnd, ?_⟩
              intro e he
              cases mem_cacheSave he with
              | inl h4 =>
                subst h4
                refine ⟨fun hf => (by simp only at hf; rw [hi0] at hf; cases hf), fun _ => ⟨?_, ?_, h2, ?_⟩⟩
                · intro kv hkv
                  exact (mem_ctx_filter.mp hkv).2
                · intro c' x hdom hd
                  simp only at hdom hd ⊢
                  rw [← hb] at hd
                  exact hOut c' x (get_le_of_filter hdom) hd
                · intro x hx
                  simp only at hx ⊢
                  rw [← hb]
                  exact hSnd x hx
              | inr h4 => exact h3 e h4
      | any gs =>
        simp only at h
        split at h
        · cases h
        · rename_i a st1 hl
          obtain ⟨a1, a2, _, _, a5⟩ := anyLoop_strat cfg s bodyOf (run cfg fuel) ih ctx pos hin hup
            (fun x => OKN cfg pos x ∧ DerivesS cfg s (.any gs) pos x) gs hg.any
            (fun g' hg' x hok hd => ⟨hok, .any hg' hd⟩) {} st a st1 hcs (ResQ_nil _) hl
          have hOut : ∀ (c' : Nat → Nat) (x : Node), (∀ k ∈ a.cp, ctx.get k ≤ c' k) → DerivesSC cfg s c' (.any gs) pos x →
              x ∈ a.res.alts := by
            intro c' x hdom hd
            cases hd with
            | low hl _ _ => simp [isLowLeaf] at hl
            | any hm hd' => exact a5 _ hm c' x hdom hd'
          split at h
          · rename_i hnil
            cases h
            refine ⟨?_, ResOK_nil _ _, (by intro x hx; cases hx), a1⟩
            intro c' x hdom hd
            have := hOut c' x hdom hd
            rw [alts_nil_of_isNil hnil] at this; cases this
          · cases h
            exact ⟨hOut, fun x hx => (a2 x hx).1, fun x hx => (a2 x hx).2,
              MixCache.of_eq a1 (setError_ctxErr st1 a.err).2.1⟩
      | optional g' =>
        simp only at h
        split at h
        · cases h
        · rename_i o1 st1 hr
          cases h
          obtain ⟨h1, h2, hs2, h3⟩ := ih g' ctx pos st o1 _ hg.optional hin hup hcs hr
          refine ⟨?_, ResOK_append h2 (ResOK_empty hin), ?_, h3⟩
          · intro c' x hdom hd
            cases hd with
            | low hl _ _ => simp [isLowLeaf] at hl
            | optSome hd' => exact mem_appendNode_left _ _ _ (h1 c' x hdom hd')
            | optNone => exact mem_appendNode_right _ _ _ (by simp [Res.alts])
          · intro x hx
            cases mem_appendNode _ _ _ hx with
            | inl hx1 => exact .optSome (hs2 x hx1)
            | inr hx1 =>
              simp only [Res.alts, List.mem_singleton] at hx1
              subst hx1
              exact .optNone
      | choice gs => simp [isLowLeaf] at hleaf
      | name g' nm => simp [isLowLeaf] at hleaf
      | single g' => simp [isLowLeaf] at hleaf
      | suppress g' => simp [isLowLeaf] at hleaf
      | ltrim g' m => simp [isLowLeaf] at hleaf
      | rtrim g' m => simp [isLowLeaf] at hleaf
      | seq k gs o => simp [G.shape] at hsh
      | many g' ae o => simp [G.shape] at hsh
      | sepBy v sp ae o => simp [G.shape] at hsh

end PV.Strat
