/-
  C16, full value theorem — layer 2b: the String terminal on a rendered string literal of the supported subset,
  at the level of the terminal's byte specification (`stringSpec`, `Lang.strBody`).
-/
import ParsleyVerif.Proofs.J16Num
namespace PV.J16
open PV PV.Text

/-! ### one element -/

theorem digitValue_le (b : Nat) : Lang.digitValue b ≤ 15 := by
  unfold Lang.digitValue
  split
  · omega
  · split
    · omega
    · split <;> omega

theorem digitsValue4 (a b c d : Nat) :
    Lang.digitsValue 16 [a, b, c, d] =
      Lang.digitValue a * 4096 + (Lang.digitValue b * 256 + (Lang.digitValue c * 16 + Lang.digitValue d)) := by
  simp [Lang.digitsValue]

/-- the UTF-8 encoding of a scalar value ≥ U+0080: at least two bytes, the first ≥ 0xC0 -/
theorem encodeRune_multi (c : Nat) (h1 : 0x80 ≤ c) (hv : Utf8.validRune c = true) :
    ∃ b t, Utf8.encodeRune c = b :: t ∧ 0xC0 ≤ b ∧ t ≠ [] := by
  unfold Utf8.encodeRune
  rw [if_neg (by omega)]
  by_cases c2 : c < 0x800
  · rw [if_pos c2]; exact ⟨_, _, rfl, by omega, by simp⟩
  · rw [if_neg c2]
    simp only [hv, Bool.not_true, Bool.false_eq_true, if_false]
    by_cases c3 : c < 0x10000
    · rw [if_pos c3]; exact ⟨_, _, rfl, by omega, by simp⟩
    · rw [if_neg c3]; exact ⟨_, _, rfl, by omega, by simp⟩

theorem validScalar_of (c : Nat) (h : Utf8.validRune c = true) : Utf8.ValidScalar c := by
  unfold Utf8.validRune Utf8.isSurrogate Utf8.maxRune at h
  unfold Utf8.ValidScalar
  simp at h
  omega

/-- the first byte of an element's rendering -/
theorem elem_head (e : SElem) (he : e.OK) :
    ∃ b t, e.render = b :: t ∧ b ≠ 13 ∧ b ≠ 10 ∧ b ≠ 34 ∧
      (match e with | .plain _ => Lang.plainByte b = true | _ => Lang.plainByte b = false) := by
  cases e with
  | plain b =>
    obtain ⟨h1, h2, h3, h4⟩ := he
    refine ⟨b, [], rfl, by omega, by omega, h3, ?_⟩
    simp [Lang.plainByte]; omega
  | esc x => exact ⟨92, [x], rfl, by omega, by omega, by omega, rfl⟩
  | uni a b c d => exact ⟨92, [117, a, b, c, d], rfl, by omega, by omega, by omega, rfl⟩
  | utf8 c =>
    obtain ⟨h1, hv⟩ := he
    obtain ⟨b, t, hbt, hb, _⟩ := encodeRune_multi c h1 hv
    refine ⟨b, t, hbt, by omega, by omega, by omega, ?_⟩
    simp [Lang.plainByte]; omega

/-- an element of the subset is read as one element by the body reader: its code point, its width -/
theorem elem_strElem (e : SElem) (he : e.OK) (rest : Bytes) :
    Lang.strElem (e.render ++ rest) = some (e.code, e.render.length) := by
  cases e with
  | plain b =>
    obtain ⟨h1, h2, h3, h4⟩ := he
    have hnl : ¬ ((SElem.render (.plain b) ++ rest).head? = some 13 ∨ (SElem.render (.plain b) ++ rest).head? = some 10) := by
      simp [SElem.render]; omega
    rw [strElem_not_nl _ hnl]
    simp only [SElem.render, List.cons_append, List.nil_append, Lang.escElem, SElem.code, List.length_cons, List.length_nil]
    rw [if_neg h3, if_pos h4, if_pos h2]
    simp only
    rw [if_neg (by unfold Utf8.runeError; omega)]
  | esc x =>
    rcases he with rfl | rfl | rfl | rfl | rfl | rfl | rfl <;> rfl
  | uni a b c d =>
    obtain ⟨ha, hb, hc, hd, hs⟩ := he
    have hnl : ¬ ((SElem.render (.uni a b c d) ++ rest).head? = some 13 ∨ (SElem.render (.uni a b c d) ++ rest).head? = some 10) := by
      simp [SElem.render]
    rw [strElem_not_nl _ hnl]
    have hval : Utf8.validRune (Lang.digitsValue 16 [a, b, c, d]) = true := by
      have := digitValue_le a; have := digitValue_le b; have := digitValue_le c; have := digitValue_le d
      have hle : Lang.digitsValue 16 [a, b, c, d] ≤ Utf8.maxRune := by
        rw [digitsValue4]; unfold Utf8.maxRune; omega
      unfold Utf8.validRune
      rw [hs]
      simp [hle]
    have hesc : Lang.escElem 34 (SElem.render (.uni a b c d) ++ rest) = some (Lang.digitsValue 16 [a, b, c, d], 6) := by
      simp only [SElem.render, List.cons_append, List.nil_append, Lang.escElem]
      rw [if_neg (by omega), if_neg (by simp)]
      have hl : Lang.simpleEscapes.lookup 117 = none := by decide
      simp only [hl]
      rw [if_neg (by omega), if_neg (by omega)]
      simp only [if_true]
      unfold Lang.hexEscape
      rw [if_pos]
      · rfl
      · refine ⟨by simp, ?_, .inr hval⟩
        simp [ha, hb, hc, hd]
    rw [hesc]
    simp only [SElem.code, SElem.render, List.length_cons, List.length_nil]
    rw [if_neg (by omega)]
  | utf8 c =>
    obtain ⟨h1, hv⟩ := he
    obtain ⟨b, t, hbt, hb, ht⟩ := encodeRune_multi c h1 hv
    have hlen : 2 ≤ (Utf8.encodeRune c).length := by
      rw [hbt]; cases t with
      | nil => exact absurd rfl ht
      | cons _ _ => simp
    have hnl : ¬ ((SElem.render (.utf8 c) ++ rest).head? = some 13 ∨ (SElem.render (.utf8 c) ++ rest).head? = some 10) := by
      simp [SElem.render, hbt]; omega
    rw [strElem_not_nl _ hnl]
    have hdec := Utf8.decode_encode c rest (validScalar_of c hv)
    have hesc : Lang.escElem 34 (SElem.render (.utf8 c) ++ rest) = some (c, (Utf8.encodeRune c).length) := by
      simp only [SElem.render]
      rw [← hdec, hbt, List.cons_append]
      simp only [Lang.escElem]
      rw [if_neg (by omega), if_pos (by omega), if_neg (by omega)]
    rw [hesc]
    simp only [SElem.code, SElem.render]
    rw [if_neg (by omega)]

theorem strElem_quote (tail : Bytes) : Lang.strElem (34 :: tail) = none := by
  rw [strElem_not_nl _ (by simp)]
  simp [Lang.escElem]

/-! ### a run of elements up to the closing quote -/

def elemInfo (e : SElem) : Nat × Nat := (e.code, e.render.length)

theorem strElems_render : ∀ (qs : List SElem), StrOK qs → ∀ (tail : Bytes) (N : Nat), qs.length ≤ N →
    Lang.strElems N (renderElems qs ++ 34 :: tail) = qs.map elemInfo := by
  intro qs
  induction qs with
  | nil =>
    intro _ tail N _
    cases N with
    | zero => rfl
    | succ n => simp only [renderElems, List.nil_append, Lang.strElems, strElem_quote, List.map_nil]
  | cons e r ih =>
    intro hq tail N hN
    obtain ⟨n, rfl⟩ : ∃ n, N = n + 1 := ⟨N - 1, by simp only [List.length_cons] at hN; omega⟩
    simp only [renderElems, List.append_assoc, Lang.strElems, elem_strElem e (hq e (by simp)), List.drop_left,
      List.map_cons, elemInfo]
    rw [ih (fun x hx => hq x (by simp [hx])) tail n (by simp only [List.length_cons] at hN; omega)]

theorem elem_render_pos (e : SElem) (he : e.OK) : 1 ≤ e.render.length := by
  obtain ⟨b, t, hbt, _⟩ := elem_head e he
  rw [hbt]; simp

theorem renderElems_length_ge : ∀ (qs : List SElem), StrOK qs → qs.length ≤ (renderElems qs).length := by
  intro qs
  induction qs with
  | nil => intro _; simp [renderElems]
  | cons e r ih =>
    intro hq
    have := elem_render_pos e (hq e (by simp))
    have := ih (fun x hx => hq x (by simp [hx]))
    simp only [renderElems, List.length_cons, List.length_append]; omega

theorem flatMap_elemInfo : ∀ (qs : List SElem),
    (qs.map elemInfo).flatMap (fun e => Utf8.encodeRune e.1) = decodeStr qs ∧
    ((qs.map elemInfo).map (·.2)).sum = (renderElems qs).length := by
  intro qs
  induction qs with
  | nil => exact ⟨rfl, rfl⟩
  | cons e r ih =>
    simp only [List.map_cons, List.flatMap_cons, List.sum_cons, ih.1, ih.2, decodeStr, renderElems, List.length_append]
    exact ⟨rfl, rfl⟩

/-! ### the plain prefix -/

def plainPre : List SElem → Bytes
  | .plain b :: r => b :: plainPre r
  | _ => []
def plainRest : List SElem → List SElem
  | .plain _ :: r => plainRest r
  | l => l

theorem plain_split : ∀ (s : List SElem), StrOK s →
    renderElems s = plainPre s ++ renderElems (plainRest s) ∧ decodeStr s = plainPre s ++ decodeStr (plainRest s) ∧
    (∀ b ∈ plainPre s, Lang.plainByte b = true) ∧ StrOK (plainRest s) ∧
    (∀ c, (renderElems (plainRest s)).head? = some c → Lang.plainByte c = false ∧ c ≠ 13 ∧ c ≠ 10 ∧ c ≠ 34) := by
  intro s
  induction s with
  | nil => intro _; exact ⟨rfl, rfl, (by intro b hb; cases hb), (by intro e he; cases he), (by intro c hc; cases hc)⟩
  | cons e r ih =>
    intro hs
    have he := hs e (by simp)
    have hr : StrOK r := fun x hx => hs x (by simp [hx])
    obtain ⟨b0, t0, hbt, h13, h10, h34, hpl⟩ := elem_head e he
    cases e with
    | plain b =>
      obtain ⟨i1, i2, i3, i4, i5⟩ := ih hr
      obtain ⟨h1, h2, h3, h4⟩ := he
      have hdec : SElem.decode (.plain b) = [b] := by
        show Utf8.encodeRune b = [b]
        unfold Utf8.encodeRune; rw [if_pos h2]
      refine ⟨?_, ?_, ?_, i4, i5⟩
      · simp only [renderElems, plainPre, plainRest, SElem.render, List.cons_append, List.nil_append]; rw [i1]
      · simp only [decodeStr, plainPre, plainRest, hdec, List.cons_append, List.nil_append]; rw [i2]
      · intro x hx
        simp only [plainPre, List.mem_cons] at hx
        rcases hx with rfl | hx
        · injection hbt with hb _; subst hb; exact hpl
        · exact i3 x hx
    | esc x =>
      refine ⟨rfl, rfl, (by intro b hb; cases hb), hs, ?_⟩
      intro c hc
      simp only [plainRest, renderElems, hbt, List.cons_append, List.head?_cons, Option.some.injEq] at hc
      subst hc; exact ⟨hpl, h13, h10, h34⟩
    | uni a b c d =>
      refine ⟨rfl, rfl, (by intro b hb; cases hb), hs, ?_⟩
      intro c hc
      simp only [plainRest, renderElems, hbt, List.cons_append, List.head?_cons, Option.some.injEq] at hc
      subst hc; exact ⟨hpl, h13, h10, h34⟩
    | utf8 c =>
      refine ⟨rfl, rfl, (by intro b hb; cases hb), hs, ?_⟩
      intro c hc
      simp only [plainRest, renderElems, hbt, List.cons_append, List.head?_cons, Option.some.injEq] at hc
      subst hc; exact ⟨hpl, h13, h10, h34⟩

theorem takeWhile_append_stop (p : Nat → Bool) (ps : Bytes) (b : Nat) (t : Bytes) (hps : ∀ x ∈ ps, p x = true)
    (hb : p b = false) : (ps ++ b :: t).takeWhile p = ps := by
  induction ps with
  | nil => simp [List.takeWhile_cons, hb]
  | cons a r ih =>
    rw [List.cons_append, List.takeWhile_cons, hps a (by simp), ih (fun x hx => hps x (by simp [hx]))]
    rfl

/-! ### the body -/

/-- the body reader on the rendered elements up to the closing quote: the decoded value, all bytes consumed -/
theorem strBody_render (s : List SElem) (hs : StrOK s) (hne : s ≠ []) (tail : Bytes) :
    Lang.strBody (renderElems s ++ 34 :: tail) = (some (decodeStr s), (renderElems s).length) := by
  obtain ⟨h1, h2, h3, h4, h5⟩ := plain_split s hs
  have hr : renderElems s ++ 34 :: tail = plainPre s ++ (renderElems (plainRest s) ++ 34 :: tail) := by
    rw [h1, List.append_assoc]
  cases hq : plainRest s with
  | nil =>
    rw [hq] at h1 h2 hr
    simp only [renderElems, List.nil_append, List.append_nil, decodeStr] at h1 h2 hr
    have htw : (renderElems s ++ 34 :: tail).takeWhile Lang.plainByte = plainPre s := by
      rw [hr]; exact takeWhile_append_stop _ _ _ _ h3 rfl
    have hpos : (plainPre s).length ≠ 0 := by
      intro h0
      have : renderElems s = [] := by rw [h1]; exact List.length_eq_zero_iff.mp h0
      cases s with
      | nil => exact hne rfl
      | cons e r =>
        obtain ⟨b, t, hbt, _⟩ := elem_head e (hs e (by simp))
        simp [renderElems, hbt] at this
    unfold Lang.strBody
    simp only [htw]
    rw [show List.drop (plainPre s).length (renderElems s ++ 34 :: tail) = 34 :: tail by rw [hr, List.drop_left]]
    simp only [true_or, or_true, if_true]
    rw [if_neg hpos, hr, List.take_left, h2, h1]
  | cons e qr =>
    rw [hq] at h1 h2 hr h4 h5
    obtain ⟨b, t, hbt, _⟩ := elem_head e (h4 e (by simp))
    have hX : renderElems (e :: qr) ++ 34 :: tail = b :: (t ++ (renderElems qr ++ 34 :: tail)) := by
      simp [renderElems, hbt]
    obtain ⟨hb1, hb2, hb3, hb4⟩ := h5 b (by simp [renderElems, hbt])
    have htw : (renderElems s ++ 34 :: tail).takeWhile Lang.plainByte = plainPre s := by
      rw [hr, hX]; exact takeWhile_append_stop _ _ _ _ h3 hb1
    have hdrop : List.drop (plainPre s).length (renderElems s ++ 34 :: tail) = renderElems (e :: qr) ++ 34 :: tail := by
      rw [hr, List.drop_left]
    have hfuel : (e :: qr).length ≤ (renderElems s ++ 34 :: tail).length := by
      have := renderElems_length_ge (e :: qr) h4
      rw [hr]; simp only [List.length_append]; omega
    have hes := strElems_render (e :: qr) h4 tail _ hfuel
    obtain ⟨hf1, hf2⟩ := flatMap_elemInfo (e :: qr)
    unfold Lang.strBody
    simp only [htw, hdrop]
    rw [hX]
    simp only
    rw [if_neg (by omega), ← hX, hes, hf1, hf2]
    have hn : (plainPre s).length + (renderElems (e :: qr)).length ≠ 0 := by
      have := elem_render_pos e (h4 e (by simp))
      simp only [renderElems, List.length_append]; omega
    rw [if_neg hn, hr, List.take_left, h2, h1, List.length_append]

/-- **String** on a rendered string literal -/
theorem stringSpec_render (s : List SElem) (hs : StrOK s) (tail : Bytes) (pos : Nat) :
    stringSpec false (renderStr s ++ tail) pos =
      .node (.term strTok (.str (decodeStr s)) pos (pos + (renderStr s).length)) := by
  have hl : renderStr s ++ tail = 34 :: (renderElems s ++ 34 :: tail) := by simp [renderStr]
  rw [hl]
  simp only [stringSpec]
  cases s with
  | nil =>
    simp only [renderElems, List.nil_append, quotedSpec, List.head?_cons, if_true, renderStr, decodeStr, tok_str,
      List.length_cons, List.length_nil]
  | cons e r =>
    obtain ⟨b, t, hbt, _, _, h34, _⟩ := elem_head e (hs e (by simp))
    have hhead : (renderElems (e :: r) ++ 34 :: tail).head? ≠ some 34 := by
      simp [renderElems, hbt]; exact h34
    have hne : renderElems (e :: r) ++ 34 :: tail ≠ [] := by simp
    unfold quotedSpec
    rw [if_neg hhead, if_neg hne, c08_unquoteString_value, strBody_render (e :: r) hs (by simp) tail]
    simp only [List.drop_left, List.head?_cons, if_true, Option.getD_some, tok_str]
    have hlen : (renderStr (e :: r)).length = 1 + (renderElems (e :: r)).length + 1 := by
      simp only [renderStr, List.length_cons, List.length_append, List.length_nil]; omega
    rw [hlen, show pos + (1 + (renderElems (e :: r)).length + 1) = pos + 1 + (renderElems (e :: r)).length + 1 by omega]

end PV.J16
