/-
  The work budget of the driver (`Cfg.maxCalls`) can only turn an answer of `run` into `none`: whatever `run`
  answers under a budget, it answers without one.  (Used to state C03L for every budget although the
  termination machinery it builds on — `EnvOK` — is stated for `maxCalls = 0`.)
-/
import ParsleyVerif.Proofs.RunLoops
namespace PV.LRF
open PV

/-- the same configuration with the work budget disabled -/
def noBudget (cfg : Cfg) : Cfg := { cfg with maxCalls := 0 }

theorem run_noBudget_aux (env : List G) (file : Text.File) (fileSet : Text.FileSet) (params : Params) (ghost : Bool)
    (mc : Nat) : ∀ f, RunLe (run ⟨env, file, fileSet, params, ghost, mc⟩ f) (run ⟨env, file, fileSet, params, ghost, 0⟩ f) := by
  intro f
  induction f with
  | zero => intro g ctx pos st x h; simp [run] at h
  | succ f ih =>
    intro g ctx pos st x h
    unfold run at h ⊢
    split at h
    · cases h
    · simp only [ne_eq, not_true_eq_false, false_and, ↓reduceIte]
      cases g with
      | term t => simp only [St.logEv] at h ⊢; exact h
      | empty => exact h
      | eof => simp only [St.logEv] at h ⊢; exact h
      | ref k =>
        simp only at h ⊢
        split at h
        · exact ih _ _ _ _ _ h
        · exact h
      | memo idx body =>
        simp only [St.logEv] at h ⊢
        cases hc : cacheGet st.cache idx pos ctx with
        | some e => simp only [hc] at h ⊢; exact h
        | none =>
          simp only [hc] at h ⊢
          by_cases hcur : ctx.get idx > Text.remaining file pos + Facts.curtailSlack
          · simp only [hcur, ↓reduceIte] at h ⊢; exact h
          · simp only [hcur, ↓reduceIte] at h ⊢
            split at h
            · cases h
            · rename_i o st2 hr
              rw [ih _ _ _ _ _ hr]
              exact h
      | any gs =>
        simp only at h ⊢
        split at h
        · cases h
        · rename_i a st1 hr
          rw [anyLoop_mono ih _ _ _ _ _ _ hr]
          exact h
      | choice gs =>
        simp only at h ⊢
        split at h
        · cases h
        · rename_i o a st1 hr
          rw [choiceLoop_mono ih _ _ _ _ _ _ hr]
          exact h
        · rename_i a st1 hr
          rw [choiceLoop_mono ih _ _ _ _ _ _ hr]
          exact h
      | optional g' =>
        simp only at h ⊢
        split at h
        · cases h
        · rename_i o st1 hr
          rw [ih _ _ _ _ _ hr]; exact h
      | name g' nm =>
        simp only at h ⊢
        split at h
        · cases h
        · rename_i o st1 hr
          rw [ih _ _ _ _ _ hr]; exact h
      | single g' =>
        simp only at h ⊢
        split at h
        · cases h
        · rename_i o st1 hr
          rw [ih _ _ _ _ _ hr]; exact h
      | suppress g' =>
        simp only at h ⊢
        split at h
        · cases h
        · rename_i o st1 hr
          rw [ih _ _ _ _ _ hr]; exact h
      | ltrim g' m =>
        simp only at h ⊢
        split at h
        · cases h
        · rename_i o st1 hr
          rw [ih _ _ _ _ _ hr]; exact h
      | rtrim g' m =>
        simp only at h ⊢
        split at h
        · cases h
        · rename_i o st1 hr
          rw [ih _ _ _ _ _ hr]; exact h
      | seq k gs o =>
        simp only [G.shape] at h ⊢
        split at h
        · cases h
        · rename_i b ss st1 hr
          rw [seqParse_mono ih _ f f (Nat.le_refl _) _ _ _ _ _ _ _ _ hr]
          exact h
      | many g' ae o =>
        simp only [G.shape] at h ⊢
        split at h
        · cases h
        · rename_i b ss st1 hr
          rw [seqParse_mono ih _ f f (Nat.le_refl _) _ _ _ _ _ _ _ _ hr]
          exact h
      | sepBy v s ae o =>
        simp only [G.shape] at h ⊢
        split at h
        · cases h
        · rename_i b ss st1 hr
          rw [seqParse_mono ih _ f f (Nat.le_refl _) _ _ _ _ _ _ _ _ hr]
          exact h

/-- whatever `run` answers under a work budget, it answers without one -/
theorem run_noBudget (cfg : Cfg) (f : Nat) : RunLe (run cfg f) (run (noBudget cfg) f) := by
  obtain ⟨env, file, fileSet, params, ghost, mc⟩ := cfg
  exact run_noBudget_aux env file fileSet params ghost mc f

end PV.LRF
