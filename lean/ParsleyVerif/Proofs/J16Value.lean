/-
  C16, full value theorem — layer 3: the example grammar FINDS the tree of every document of the supported
  subset.  `value_ok`: by structural recursion on the document, the `value` rule started at the first byte of
  `d.render` (followed by a delimiter) answers exactly `d.tree pos` — for every left-recursion context, every
  state, all sufficiently large fuel.
-/
import ParsleyVerif.Proofs.J16Run
import ParsleyVerif.Proofs.J16Str
namespace PV.J16
open PV PV.Text

/-- the standing hypotheses on the configuration: the grammar's rules, no work budget, a file-set offset -/
structure Std (cfg : Cfg) : Prop where
  env : cfg.env = Gjson.env
  mc : cfg.maxCalls = 0
  off : 1 ≤ cfg.file.offset

/-- the parser stands at `pos`, and the bytes from there to the end of the file are `l` -/
def At (cfg : Cfg) (pos : Nat) (l : Bytes) : Prop := InFile cfg.file pos ∧ rest cfg.file pos = l

theorem At.adv {cfg : Cfg} {pos : Nat} {a b : Bytes} (h : At cfg pos (a ++ b)) : At cfg (pos + a.length) b := by
  obtain ⟨hin, hr⟩ := h
  refine ⟨inFile_add_c10 _ _ _ hin (by rw [hr]; simp), ?_⟩
  rw [rest_add_c10 _ _ _ hin, hr, List.drop_left]

theorem At.adv1 {cfg : Cfg} {pos c : Nat} {b : Bytes} (h : At cfg pos (c :: b)) : At cfg (pos + 1) b :=
  At.adv (a := [c]) h

theorem At.cast {cfg : Cfg} {pos pos' : Nat} {l l' : Bytes} (h : At cfg pos l) (hp : pos = pos') (hl : l = l') :
    At cfg pos' l' := by subst hp; subst hl; exact h

theorem wsNl_isWs {w : Bytes} (h : WsNl w) : ∀ b ∈ w, isWs b = true := by
  intro b hb
  rcases h b hb with rfl | rfl | rfl <;> decide

theorem wsSp_isWs {w : Bytes} (h : WsSp w) : ∀ b ∈ w, isWs b = true := by
  intro b hb
  rcases h b hb with rfl | rfl <;> decide

theorem wsSp_ok : ∀ {w : Bytes}, WsSp w → wsOk .spaces w := by
  intro w
  induction w with
  | nil => intro _; rfl
  | cons b r ih =>
    intro h
    have hr : WsSp r := fun x hx => h x (by simp [hx])
    have := ih hr
    simp only [wsOk] at this ⊢
    rcases h b (by simp) with rfl | rfl
    · simp only [firstBreak, this]; decide
    · simp only [firstBreak, this]; decide

/-- neither a sign, nor a digit, nor `.` -/
def NotNum (c : Nat) : Prop := c ≠ 45 ∧ c ≠ 43 ∧ c ≠ 46 ∧ ¬ (48 ≤ c ∧ c ≤ 57)

theorem floatMatch_notNum {c : Nat} {l : Bytes} (h : NotNum c) : floatMatch (c :: l) = none := by
  obtain ⟨h1, h2, h3, h4⟩ := h
  unfold floatMatch
  simp only [signLen_other h1 h2, List.drop_zero, Nat.zero_add,
    spanLen_cons_neg isDigit c l (isDigit_false_of (by omega))]
  split
  · rename_i heq; injection heq with h _; exact absurd h h3
  · rfl

theorem integerMatch_notNum {c : Nat} {l : Bytes} (h : NotNum c) : integerMatch (c :: l) = none := by
  obtain ⟨h1, h2, h3, h4⟩ := h
  unfold integerMatch
  simp only [signLen_other h1 h2, List.drop_zero]
  rw [if_neg (by simp; omega), if_neg (by omega)]

theorem bool_wf : (Terminal.bool [116, 114, 117, 101] [102, 97, 108, 115, 101]).WF := by
  refine ⟨⟨by simp, ?_⟩, ⟨by simp, ?_⟩⟩ <;> (intro b hb; simp at hb; omega)

theorem nil_wf : (Terminal.nil [110, 117, 108, 108]).WF := by
  refine ⟨by simp, ?_⟩; intro b hb; simp at hb; omega

theorem spec_null (P : Params) (tail : Bytes) (pos : Nat) (ht : Delim tail) :
    Terminal.spec P ([110, 117, 108, 108] ++ tail) pos (.nil [110, 117, 108, 108]) =
      .node (.term nilTok .nil pos (pos + 4)) := by
  simp only [Terminal.spec, wordAt_append _ tail ht, if_true, tok_nil]; rfl

theorem spec_true (P : Params) (tail : Bytes) (pos : Nat) (ht : Delim tail) :
    Terminal.spec P ([116, 114, 117, 101] ++ tail) pos (.bool [116, 114, 117, 101] [102, 97, 108, 115, 101]) =
      .node (.term boolTok (.bool true) pos (pos + 4)) := by
  simp only [Terminal.spec, wordAt_append _ tail ht, if_true, tok_bool]; rfl

theorem spec_false (P : Params) (tail : Bytes) (pos : Nat) (ht : Delim tail) :
    Terminal.spec P ([102, 97, 108, 115, 101] ++ tail) pos (.bool [116, 114, 117, 101] [102, 97, 108, 115, 101]) =
      .node (.term boolTok (.bool false) pos (pos + 5)) := by
  have h1 : wordAt [116, 114, 117, 101] ([102, 97, 108, 115, 101] ++ tail) = false :=
    wordAt_head_ne _ _ 116 102 _ ([97, 108, 115, 101] ++ tail) rfl rfl (by omega)
  simp only [Terminal.spec, h1, wordAt_append _ tail ht, if_true, tok_bool, Bool.false_eq_true, if_false]; rfl

/-! ### terminals through their byte specification -/

section
variable {cfg : Cfg} (hS : Std cfg)
include hS

theorem succ_of_spec {t : Terminal} (wf : t.WF) (hl : cfg.params.LenOk t) {pos : Nat} {l : Bytes} {n : Node}
    (hat : At cfg pos l) (h : Terminal.spec cfg.params l pos t = .node n) : Succ cfg (.term t) pos n := by
  apply succ_term hS.mc
  rw [c08_spec cfg.params cfg.file t pos hat.1 wf hl, hat.2]; exact h

theorem fails_of_spec {t : Terminal} (wf : t.WF) (hl : cfg.params.LenOk t) {pos : Nat} {l : Bytes}
    (hat : At cfg pos l) (h : ∀ n, Terminal.spec cfg.params l pos t ≠ .node n) : Fails cfg (.term t) pos := by
  apply fails_term hS.mc
  rw [c08_spec cfg.params cfg.file t pos hat.1 wf hl, hat.2]; exact h

/-! ### runes -/

theorem succ_rune {c : Nat} (hc : c < 0x80) {pos : Nat} {l : Bytes} (hat : At cfg pos (c :: l)) :
    Succ cfg (Gjson.rn c) pos (runeLeaf c pos) := by
  apply succ_term hS.mc
  rw [rune_parse cfg.params cfg.file c _ pos l hc hat.1 hat.2]
  have : Utf8.encodeRune c = [c] := by unfold Utf8.encodeRune; rw [if_pos hc]
  rw [this]; rfl

theorem fails_rune {c : Nat} (hc : c < 0x80) {pos : Nat} {l : Bytes} (hat : At cfg pos l) (hne : l.head? ≠ some c) :
    Fails cfg (Gjson.rn c) pos := by
  apply fails_of_spec hS (t := .rune c [34, c, 34]) True.intro True.intro hat
  intro n
  simp only [Terminal.spec, runeW]
  rw [if_pos hc, if_neg hne]
  simp [nf]

/-! ### whitespace -/

theorem succ_ltrim' {g : G} {m : WsMode} {pos : Nat} {w l : Bytes} {n : Node} (hat : At cfg pos (w ++ l))
    (hw : ∀ b ∈ w, isWs b = true) (hl : Stop l) (hok : wsOk m w) (h : Succ cfg g (pos + w.length) n) :
    Succ cfg (.ltrim g m) pos n := by
  have hk : wsRun (rest cfg.file pos) = w.length := by rw [hat.2]; exact wsRun_append w l hw hl
  apply succ_ltrim hS.mc hS.off hat.1
  · rw [hat.2]; exact (wsOk_append m w l hw hl).2 hok
  · rw [hk]; exact h

theorem fails_ltrim' {g : G} {m : WsMode} {pos : Nat} {w l : Bytes} (hat : At cfg pos (w ++ l))
    (hw : ∀ b ∈ w, isWs b = true) (hl : Stop l) (h : Fails cfg g (pos + w.length)) : Fails cfg (.ltrim g m) pos := by
  have hk : wsRun (rest cfg.file pos) = w.length := by rw [hat.2]; exact wsRun_append w l hw hl
  apply fails_ltrim hS.mc hS.off hat.1
  rw [hk]; exact h

/-! ### alternatives that fail on the first byte -/

theorem fails_string {pos : Nat} {l : Bytes} (hat : At cfg pos l) (h : l.head? ≠ some 34) :
    Fails cfg (.term (.string false)) pos := by
  apply fails_of_spec hS (t := .string false) True.intro True.intro hat
  intro n
  simp only [Terminal.spec]
  unfold stringSpec
  split
  · exact absurd rfl h
  · simp [nf]
  · simp [nf]

theorem fails_float {pos : Nat} {l : Bytes} (hat : At cfg pos l) (h : floatMatch l = none) :
    Fails cfg (.term .float) pos := by
  apply fails_of_spec hS (t := .float) True.intro True.intro hat
  intro n
  simp only [Terminal.spec, floatSpec, h, nf]
  simp

theorem fails_integer {pos : Nat} {l : Bytes} (hat : At cfg pos l) (h : integerMatch l = none) :
    Fails cfg (.term .integer) pos := by
  apply fails_of_spec hS (t := .integer) True.intro True.intro hat
  intro n
  simp only [Terminal.spec, integerSpec, h, nf]
  simp

theorem fails_array {pos : Nat} {l : Bytes} (hat : At cfg pos l) (h : l.head? ≠ some 91) : Fails cfg Gjson.array pos :=
  fails_seqOf hS.mc (fails_rune hS (by omega) hat h)

theorem fails_object {pos : Nat} {l : Bytes} (hat : At cfg pos l) (h : l.head? ≠ some 123) : Fails cfg Gjson.object pos :=
  fails_seqOf hS.mc (fails_rune hS (by omega) hat h)

theorem fails_bool {pos c : Nat} {l : Bytes} (hat : At cfg pos (c :: l)) (h1 : c ≠ 116) (h2 : c ≠ 102) :
    Fails cfg (.term (.bool [116, 114, 117, 101] [102, 97, 108, 115, 101])) pos := by
  apply fails_of_spec hS bool_wf True.intro hat
  intro n
  simp only [Terminal.spec]
  rw [wordAt_head_ne _ _ 116 c _ l rfl rfl (Ne.symm h1), wordAt_head_ne _ _ 102 c _ l rfl rfl (Ne.symm h2)]
  simp [nf]

theorem fails_nil {pos c : Nat} {l : Bytes} (hat : At cfg pos (c :: l)) (h1 : c ≠ 110) :
    Fails cfg (.term (.nil [110, 117, 108, 108])) pos := by
  apply fails_of_spec hS nil_wf True.intro hat
  intro n
  simp only [Terminal.spec]
  rw [wordAt_head_ne _ _ 110 c _ l rfl rfl (Ne.symm h1)]
  simp [nf]

/-! ### the `value` rule -/

theorem env0 : cfg.env[0]? = some Gjson.valueRule := by rw [hS.env]; rfl

theorem succ_value {pre post : List G} {g : G} (halts : Gjson.alts = pre ++ g :: post) {pos : Nat} {n : Node}
    (hpre : ∀ g' ∈ pre, Fails cfg g' pos) (hg : Succ cfg g pos n) : Succ cfg (.ref 0) pos n := by
  apply succ_ref hS.mc (env0 hS)
  unfold Gjson.valueRule
  rw [halts]
  exact succ_name hS.mc (succ_choice hS.mc hpre hg)

/-- at a closer the `value` rule answers nothing -/
theorem fails_value_closer {pos c : Nat} {l : Bytes} (hat : At cfg pos (c :: l)) (hc : c = 93 ∨ c = 125) :
    Fails cfg (.ref 0) pos := by
  apply fails_ref hS.mc (env0 hS)
  apply fails_name hS.mc
  apply fails_choice hS.mc
  have hnn : NotNum c := by unfold NotNum; omega
  intro g' hg'
  simp only [Gjson.alts, List.mem_cons, List.not_mem_nil, or_false] at hg'
  rcases hg' with rfl | rfl | rfl | rfl | rfl | rfl | rfl
  · exact fails_string hS hat (by simp; omega)
  · exact fails_float hS hat (floatMatch_notNum hnn)
  · exact fails_integer hS hat (integerMatch_notNum hnn)
  · exact fails_array hS hat (by simp; omega)
  · exact fails_object hS hat (by simp; omega)
  · exact fails_bool hS hat (by omega) (by omega)
  · exact fails_nil hS hat (by omega)

/-! ### scalars -/

theorem value_null {pos : Nat} {tail : Bytes} (hat : At cfg pos (JDoc.null.render ++ tail)) (ht : Delim tail) :
    Succ cfg (.ref 0) pos (JDoc.null.tree pos) := by
  have hat' : At cfg pos (110 :: ([117, 108, 108] ++ tail)) := hat
  have hnn : NotNum 110 := by unfold NotNum; omega
  refine succ_value hS (pre := [.term (.string false), .term .float, .term .integer, Gjson.array, Gjson.object,
      .term (.bool [116, 114, 117, 101] [102, 97, 108, 115, 101])]) rfl ?_ ?_
  · intro g' hg'
    simp only [List.mem_cons, List.not_mem_nil, or_false] at hg'
    rcases hg' with rfl | rfl | rfl | rfl | rfl | rfl
    · exact fails_string hS hat' (by simp)
    · exact fails_float hS hat' (floatMatch_notNum hnn)
    · exact fails_integer hS hat' (integerMatch_notNum hnn)
    · exact fails_array hS hat' (by simp)
    · exact fails_object hS hat' (by simp)
    · exact fails_bool hS hat' (by omega) (by omega)
  · exact succ_of_spec hS nil_wf True.intro hat (spec_null cfg.params tail pos ht)

theorem value_bool (b : Bool) {pos : Nat} {tail : Bytes} (hat : At cfg pos ((JDoc.bool b).render ++ tail)) (ht : Delim tail) :
    Succ cfg (.ref 0) pos ((JDoc.bool b).tree pos) := by
  have hhead : ∃ c l, (JDoc.bool b).render ++ tail = c :: l ∧ (c = 116 ∨ c = 102) := by
    cases b
    · exact ⟨102, _, rfl, .inr rfl⟩
    · exact ⟨116, _, rfl, .inl rfl⟩
  obtain ⟨c, l, hcl, hc⟩ := hhead
  have hat' : At cfg pos (c :: l) := hcl ▸ hat
  have hnn : NotNum c := by unfold NotNum; omega
  refine succ_value hS (pre := [.term (.string false), .term .float, .term .integer, Gjson.array, Gjson.object]) rfl ?_ ?_
  · intro g' hg'
    simp only [List.mem_cons, List.not_mem_nil, or_false] at hg'
    rcases hg' with rfl | rfl | rfl | rfl | rfl
    · exact fails_string hS hat' (by simp; omega)
    · exact fails_float hS hat' (floatMatch_notNum hnn)
    · exact fails_integer hS hat' (integerMatch_notNum hnn)
    · exact fails_array hS hat' (by simp; omega)
    · exact fails_object hS hat' (by simp; omega)
  · cases b
    · exact succ_of_spec hS bool_wf True.intro hat (spec_false cfg.params tail pos ht)
    · exact succ_of_spec hS bool_wf True.intro hat (spec_true cfg.params tail pos ht)

theorem value_int (i : Int) (hi : (JDoc.int i).OK) {pos : Nat} {tail : Bytes}
    (hat : At cfg pos ((JDoc.int i).render ++ tail)) (ht : Delim tail) :
    Succ cfg (.ref 0) pos ((JDoc.int i).tree pos) := by
  obtain ⟨c, r, hcr, hc⟩ := int_head i
  have hat' : At cfg pos (c :: (r ++ tail)) := by
    have : (JDoc.int i).render ++ tail = c :: (r ++ tail) := by simp only [JDoc.render, hcr, List.cons_append]
    exact this ▸ hat
  refine succ_value hS (pre := [.term (.string false), .term .float]) rfl ?_ ?_
  · intro g' hg'
    simp only [List.mem_cons, List.not_mem_nil, or_false] at hg'
    rcases hg' with rfl | rfl
    · exact fails_string hS hat' (by simp; omega)
    · exact fails_float hS hat (floatMatch_renderInt i tail ht)
  · apply succ_of_spec hS (t := .integer) True.intro True.intro hat
    simp only [Terminal.spec, JDoc.render]
    rw [integerSpec_renderInt i tail pos ht hi]
    rfl

theorem value_dec (d : DecLex) (hd : (JDoc.dec d).OK) (hf : (JDoc.dec d).FloatsOk cfg.params) {pos : Nat} {tail : Bytes}
    (hat : At cfg pos ((JDoc.dec d).render ++ tail)) (ht : Delim tail) :
    Succ cfg (.ref 0) pos ((JDoc.dec d).tree pos) := by
  obtain ⟨c, r, hcr, hc⟩ := dec_head d hd
  have hat' : At cfg pos (c :: (r ++ tail)) := by
    have : (JDoc.dec d).render ++ tail = c :: (r ++ tail) := by simp only [JDoc.render, hcr, List.cons_append]
    exact this ▸ hat
  refine succ_value hS (pre := [.term (.string false)]) rfl ?_ ?_
  · intro g' hg'
    simp only [List.mem_cons, List.not_mem_nil, or_false] at hg'
    subst hg'
    exact fails_string hS hat' (by simp; omega)
  · apply succ_of_spec hS (t := .float) True.intro True.intro hat
    simp only [Terminal.spec, JDoc.render]
    rw [floatSpec_dec cfg.params d hd tail pos ht hf]
    rfl

theorem succ_string (s : List SElem) (hs : StrOK s) {pos : Nat} {tail : Bytes} (hat : At cfg pos (renderStr s ++ tail)) :
    Succ cfg (.term (.string false)) pos (.term strTok (.str (decodeStr s)) pos (pos + (renderStr s).length)) := by
  apply succ_of_spec hS (t := .string false) True.intro True.intro hat
  simp only [Terminal.spec]
  exact stringSpec_render s hs tail pos

theorem value_str (s : List SElem) (hs : (JDoc.str s).OK) {pos : Nat} {tail : Bytes}
    (hat : At cfg pos ((JDoc.str s).render ++ tail)) : Succ cfg (.ref 0) pos ((JDoc.str s).tree pos) :=
  succ_value hS (pre := []) rfl (fun g' hg' => by cases hg') (succ_string hS s hs hat)

end

end PV.J16
