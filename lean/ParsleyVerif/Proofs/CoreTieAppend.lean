/-
  Stage 1 of the core tie: ast.AppendNode / (*NodeList).Append (value level) — translated vs. `appendNode`, `nlAppend`.
-/
import ParsleyVerif.Proofs.CoreTieBasics
namespace PV.CoreTie
open PV.FactsCore

@[simp] theorem eqEmptyNode_eNode (n : PV.Node) (p : Nat) :
    CorePrelude.Node.eqEmptyNode (eNode n) (p : Int) = n.isEmptyAt p := by
  cases n with
  | empty q =>
    by_cases h : q = p
    · subst h; simp [eNode, CorePrelude.Node.eqEmptyNode, PV.Node.isEmptyAt]
    · have h1 : (q : Int) ≠ p := by omega
      have h2 : ¬ p = q := fun e => h e.symm
      simp [eNode, CorePrelude.Node.eqEmptyNode, PV.Node.isEmptyAt, h1, h2]
  | _ => simp [eNode, CorePrelude.Node.eqEmptyNode, PV.Node.isEmptyAt]

@[simp] theorem asNodeList_eNode (n : PV.Node) : CorePrelude.Node.asNodeList (eNode n) = ([], false) := by
  cases n <;> rfl

theorem append_loop1 (W : World Context) (orig : List CNode) (p : Nat) (r : List CNode → CNode → CM (List CNode))
    (l : List PV.Node) (s : Context) :
    NodeList_Append_loop1 W orig (p : Int) r (l.map eNode) s =
      .ok (if l.any (PV.Node.isEmptyAt p) then .ret orig else .done ()) s := by
  induction l with
  | nil => simp [NodeList_Append_loop1]
  | cons n rest ih =>
    simp only [List.map_cons, NodeList_Append_loop1, eqEmptyNode_eNode, List.any_cons, ite_apply]
    by_cases h : n.isEmptyAt p = true
    · simp [h]
    · simp [h, ih]

theorem rec_list (W : World Context) (fuel : Nat) (nl l : List CNode) (s : Context) :
    NodeList_Append_rec W (fuel + 1) nl (.list l) s = NodeList_Append_loop2 W (NodeList_Append_rec W fuel) l nl s := by
  simp [NodeList_Append_rec, CorePrelude.Node.asNodeList]

/-- appending ONE (non-list) node -/
theorem append_one (W : World Context) (fuel : Nat) (nl : List PV.Node) (n : PV.Node) (s : Context) :
    NodeList_Append_rec W (fuel + 1) (nl.map eNode) (eNode n) s = .ok ((nlAppend1 nl n).map eNode) s := by
  cases n with
  | empty p =>
    cases h : nl.any (PV.Node.isEmptyAt p) <;>
      simp [NodeList_Append_rec, eNode, CorePrelude.Node.asNodeList, CorePrelude.Node.asEmptyNode, append_loop1,
        nlAppend1, h, CorePrelude.Go.append]
  | term t v p r => simp [NodeList_Append_rec, eNode, CorePrelude.Node.asNodeList, CorePrelude.Node.asEmptyNode, nlAppend1, CorePrelude.Go.append]
  | eof p => simp [NodeList_Append_rec, eNode, CorePrelude.Node.asNodeList, CorePrelude.Node.asEmptyNode, nlAppend1, CorePrelude.Go.append]
  | nt t c p r i => simp [NodeList_Append_rec, eNode, CorePrelude.Node.asNodeList, CorePrelude.Node.asEmptyNode, nlAppend1, CorePrelude.Go.append]

theorem append_loop2 (W : World Context) (fuel : Nat) (l nl : List PV.Node) (s : Context) :
    NodeList_Append_loop2 W (NodeList_Append_rec W (fuel + 1)) (l.map eNode) (nl.map eNode) s =
      .ok ((l.foldl nlAppend1 nl).map eNode) s := by
  induction l generalizing nl with
  | nil => simp [NodeList_Append_loop2]
  | cons n rest ih =>
    simp only [List.map_cons, NodeList_Append_loop2, bind_apply, append_one, List.foldl_cons]
    exact ih _

theorem depth_eNode (n : PV.Node) : (eNode n).depth = 0 := by cases n <;> rfl

theorem depthList_map (l : List PV.Node) : CorePrelude.Node.depth.depthList (l.map eNode) = 0 := by
  induction l with
  | nil => rfl
  | cons n r ih => simp [CorePrelude.Node.depth.depthList, depth_eNode, ih]

/-- **(nl *NodeList).Append(node)**, translated, on a result `b` that is not nil: the model's `nlAppend` -/
theorem tie_NodeList_Append (W : World Context) (nl : List PV.Node) (b : PV.Res) (hb : b.isNil = false) (s : Context) :
    NodeList_Append W (nl.map eNode) (eRes b) s = .ok ((nlAppend nl b).map eNode) s := by
  cases b with
  | nil => simp [PV.Res.isNil] at hb
  | one n =>
    simp only [NodeList_Append, eRes_one, depth_eNode, nlAppend]
    exact append_one W 0 nl n s
  | list l =>
    have hd : (CorePrelude.Node.list (l.map eNode)).depth + 1 = (0 + 1) + 1 := by
      simp [CorePrelude.Node.depth, depthList_map]
    simp only [NodeList_Append, eRes_list, nlAppend, hd]
    rw [rec_list, append_loop2]

/-- **ast.AppendNode**, translated, is the model's `appendNode` (on every pair of results, in every state, changing nothing) -/
theorem tie_AppendNode (W : World Context) (a b : PV.Res) (s : Context) :
    AppendNode W (eRes a) (eRes b) s = .ok (eRes (appendNode a b)) s := by
  cases hb : b.isNil
  · cases a with
    | nil => cases b <;> simp [AppendNode, appendNode]
    | one n =>
      have h1 := tie_NodeList_Append W [n] b hb s
      simp only [List.map_cons, List.map_nil] at h1
      have e : appendNode (.one n) b = .list (nlAppend [n] b) := by cases b <;> simp_all [appendNode, PV.Res.isNil]
      simp [AppendNode, hb, h1, e]
    | list l =>
      have h1 := tie_NodeList_Append W l b hb s
      have e : appendNode (.list l) b = .list (nlAppend l b) := by cases b <;> simp_all [appendNode, PV.Res.isNil]
      simp [AppendNode, hb, h1, e]
  · have : b = .nil := by cases b <;> simp_all [PV.Res.isNil]
    subst this
    cases a <;> simp [AppendNode, appendNode]

end PV.CoreTie
