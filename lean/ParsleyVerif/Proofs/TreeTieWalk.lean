/-
  parsley.Walk / NodeList.Walk, translated: on every shape, with every call-back that leaves the `children` of the cells
  alone, the translated Walk calls the call-back on the nodes in post-order and stops after the first `true`.
-/
import ParsleyVerif.Proofs.TreeTieBasics
namespace PV.TreeTie
open PV.CorePrelude hiding Node World
open PV.TreePrelude PV.FactsTree

@[simp] theorem asKinds_ref (ks : List Kind) (a : Ptr) :
    TreePrelude.Node.asKinds ks (.ref a) = if ks.contains .ref then (.ref a, true) else (.nil, false) := by
  simp [TreePrelude.Node.asKinds, TreePrelude.Node.hasKind, TreePrelude.Node.kind]
@[simp] theorem asKinds_list (ks : List Kind) (l : List TN) :
    TreePrelude.Node.asKinds ks (.list l) = if ks.contains .list then (.list l, true) else (.nil, false) := by
  simp [TreePrelude.Node.asKinds, TreePrelude.Node.hasKind, TreePrelude.Node.kind]
@[simp] theorem asKinds_empty (ks : List Kind) (p : Int) :
    TreePrelude.Node.asKinds ks (.empty p) = if ks.contains .empty then (.empty p, true) else (.nil, false) := by
  simp [TreePrelude.Node.asKinds, TreePrelude.Node.hasKind, TreePrelude.Node.kind]
@[simp] theorem asKinds_eof (ks : List Kind) (p : Int) :
    TreePrelude.Node.asKinds ks (.eof p) = if ks.contains .eof then (.eof p, true) else (.nil, false) := by
  simp [TreePrelude.Node.asKinds, TreePrelude.Node.hasKind, TreePrelude.Node.kind]
@[simp] theorem asKinds_term (ks : List Kind) (t : TerminalNode) :
    TreePrelude.Node.asKinds ks (.term t) = if ks.contains .term then (.term t, true) else (.nil, false) := by
  simp [TreePrelude.Node.asKinds, TreePrelude.Node.hasKind, TreePrelude.Node.kind]
@[simp] theorem asKinds_nil (ks : List Kind) : TreePrelude.Node.asKinds ks .nil = (.nil, false) := by
  simp [TreePrelude.Node.asKinds, TreePrelude.Node.hasKind, TreePrelude.Node.kind]

theorem bind_pure_bool {σ : Type} (x : CorePrelude.M σ Bool) (s : σ) :
    (x >>= fun b => if b = true then (pure true : CorePrelude.M σ Bool) else pure false) s = x s := by
  simp only [bind_apply]
  cases x s with
  | ok b s' => cases b <;> rfl
  | panic => rfl
  | nofuel => rfl

theorem visit_single (f : TN → TM Bool) (n : TN) (s : TSt) : visit f [n] s = f n s := by
  simp only [visit]
  exact bind_pure_bool (f n) s

@[simp] theorem children_apply (W : TW) {a : Ptr} {s : TSt} {c : TCell} (h : s.heap a = some c) :
    NonTerminalNode_Children W a s = .ok c.children s := by
  simp [NonTerminalNode_Children, h]

mutual
/-- **parsley.Walk**, translated -/
theorem walk_visit (W : TW) (f : TN → TM Bool) (hf : KidStable f) :
    ∀ (sk : Sk) (fuel : Nat) (s : TSt), Shaped s.heap sk → sk.fuel ≤ fuel → Walk W fuel sk.node f s = visit f sk.post s
  | .leaf n, fuel, s, hs, hfu => by
    obtain ⟨fuel, rfl⟩ : ∃ k, fuel = k + 1 := ⟨fuel - 1, by simp [Sk.fuel] at hfu; omega⟩
    cases n <;> simp [LeafNode, Shaped] at hs <;> simp [Walk, Sk.node, Sk.post, visit_single]
  | .nt a kids, fuel, s, hs, hfu => by
    obtain ⟨fuel, rfl⟩ : ∃ k, fuel = k + 1 := ⟨fuel - 1, by simp [Sk.fuel] at hfu; omega⟩
    obtain ⟨⟨c, hc, hch⟩, hl⟩ := hs
    have hfl : fuelL kids ≤ fuel := by simp [Sk.fuel] at hfu; omega
    have hloop := walk_loop W f hf kids fuel s hl hfl
    simp only [Sk.node, Sk.post, Walk, asKinds_ref]
    simp [children_apply W hc, hch, hloop, visit_append]
    cases hv : visit f (postL kids) s with
    | ok b s' => cases b <;> simp [visit_single]
    | panic => rfl
    | nofuel => rfl
  | .list [], fuel, s, hs, hfu => absurd rfl hs.1
  | .list (first :: rest), fuel, s, hs, hfu => by
    obtain ⟨fuel, rfl⟩ : ∃ k, fuel = k + 2 := ⟨fuel - 2, by simp [Sk.fuel] at hfu; omega⟩
    have hff : first.fuel ≤ fuel := by simp [Sk.fuel, fuelL] at hfu; omega
    have h1 := walk_visit W f hf first fuel s hs.2.1 hff
    simp only [Sk.node, nodes, Sk.post, Walk, asKinds_list]
    simp [NodeList_Walk, visit_append, CorePrelude.Go.nth, h1]
    cases hv : visit f first.post s with
    | ok b s' => cases b <;> simp [visit_single]
    | panic => rfl
    | nofuel => rfl
/-- the loop over the children -/
theorem walk_loop (W : TW) (f : TN → TM Bool) (hf : KidStable f) :
    ∀ (kids : List Sk) (fuel : Nat) (s : TSt), ShapedL s.heap kids → fuelL kids ≤ fuel →
      Walk_loop1 W f (Walk W fuel) (NodeList_Walk W fuel) (nodes kids) s =
        (do let b ← visit f (postL kids); pure (if b then Brk.ret true else Brk.done ())) s
  | [], fuel, s, _, _ => by simp [nodes, Walk_loop1, postL, visit]
  | k :: r, fuel, s, hs, hfu => by
    have hk : k.fuel ≤ fuel := by simp [fuelL] at hfu; omega
    have hr : fuelL r ≤ fuel := by simp [fuelL] at hfu; omega
    have h1 := walk_visit W f hf k fuel s hs.1 hk
    simp only [nodes, Walk_loop1, postL, bind_apply, h1, visit_append]
    cases hv : visit f k.post s with
    | ok b s' =>
      cases b
      · have hs' : ShapedL s'.heap r := shapedL_sameKids (visit_kidStable hf _ _ _ _ hv) r hs.2
        have h2 := walk_loop W f hf r fuel s' hs' hr
        simp [h2]
      · simp
    | panic => rfl
    | nofuel => rfl
end

end PV.TreeTie
