/-
  C05 / C16: what `parse` and `evaluate` return for a Sentence-rooted grammar — a successful parse has at
  least one tree; `evaluate` unfolded.
-/
import ParsleyVerif.Proofs.Sentence
import ParsleyVerif.Props.C04
namespace PV
open PV.Text

/-- a successful parse of `Sentence(g)` returns at least one tree -/
theorem parse_sentence_alts_ne (cfg : Cfg) (g : G) (fuel : Nat) (p : ParseOut)
    (h : parse cfg fuel (G.sentence g) = some p) (hok : p.msg = none) : p.res.alts ≠ [] := by
  have hx := c04_xor cfg fuel _ {} p h
  have hnn : p.res.isNil = false := by
    cases hx with
    | inl h1 => exact h1.1
    | inr h1 => rw [hok] at h1; simp at h1
  cases hr : run cfg fuel (G.sentence g) [] (cfg.file.pos 0) {} with
  | none => simp [parse, hr] at h
  | some r =>
    obtain ⟨o, st1⟩ := r
    have hpo : p.res = o.res := by
      simp only [parse, hr] at h
      split at h
      · cases h; simp at hok
      · cases h; rfl
    obtain ⟨f, rfl⟩ : ∃ f, fuel = f + 1 := by
      cases fuel with
      | zero => simp [run] at hr
      | succ f => exact ⟨f, rfl⟩
    rw [run_seqfam cfg f _ _ [] _ {} (sentence_shape g)] at hr
    split at hr
    · cases hr
    · unfold runSeq at hr
      split at hr
      · cases hr
      · rename_i b ss st2 hsp
        have ho : (seqFinish (sentenceShape g) (cfg.file.pos 0) ss st2).1 = o := by
          injection hr with hr; rw [hr]
        rw [← ho] at hpo
        have hres := seqParse_result (run cfg f) (sentenceShape g) f ⟨0, [], [], cfg.file.pos 0, true⟩ {} {} b ss st2 rfl hsp
        have hfin : (seqFinish (sentenceShape g) (cfg.file.pos 0) ss st2).1.res = if ss.result.isNil then .nil else ss.result := by
          by_cases hn : ss.result.isNil = true <;> simp [seqFinish, hn]
        rw [hpo, hfin] at hnn ⊢
        by_cases hn : ss.result.isNil = true
        · rw [if_pos hn] at hnn; exact absurd hnn (by simp [Res.isNil])
        · rw [if_neg hn]
          cases hres with
          | inl h1 => rw [h1] at hn; exact absurd rfl hn
          | inr h1 => exact h1

/-- `evaluate` unfolded -/
theorem evaluate_cases (cfg : Cfg) (ce : CustomEval) (fuel : Nat) (g : G) (out : EvaluateOut)
    (h : evaluate cfg ce fuel g = some out) :
    ∃ p, parse cfg fuel g = some p ∧
      ((∃ m, p.msg = some m ∧ out = .error m) ∨
       (p.msg = none ∧
         ((∃ v, evalRes ce fuel p.res = .ok v ∧ out = .value v) ∨
          (∃ q m, evalRes ce fuel p.res = .err q m ∧ out = .error (errorWithPosition cfg.fileSet ⟨q, .other m⟩)) ∨
          (∃ s, evalRes ce fuel p.res = .panic s ∧ out = .panic s)))) := by
  unfold evaluate at h
  cases hp : parse cfg fuel g with
  | none => simp [hp] at h
  | some p =>
    refine ⟨p, rfl, ?_⟩
    simp only [hp] at h
    cases hm : p.msg with
    | some m =>
      simp only [hm, Option.some.injEq] at h
      exact .inl ⟨m, rfl, h.symm⟩
    | none =>
      simp only [hm] at h
      refine .inr ⟨rfl, ?_⟩
      cases he : evalRes ce fuel p.res with
      | ok v => simp only [he, Option.some.injEq] at h; exact .inl ⟨v, rfl, h.symm⟩
      | err q m => simp only [he, Option.some.injEq] at h; exact .inr (.inl ⟨q, m, rfl, h.symm⟩)
      | panic s => simp only [he, Option.some.injEq] at h; exact .inr (.inr ⟨s, rfl, h.symm⟩)

end PV
