import ParsleyVerif.Proofs.DataMap
namespace PV.Data

/-- the invariant of the state machine, relative to the specification pool -/
structure Inv (st : St) (sp : List AVal) : Prop where
  abs : st.pool.map (absVal st) = sp
  setwf : ∀ (i : Nat) (s : Slice), st.pool[i]? = some (Val.set s) → SWF st.heap s ∧ (view st.heap s).Pairwise (· < ·)
  mapwf : ∀ (i : Nat) (m : Nat), st.pool[i]? = some (Val.map m) → m < st.maps.length ∧ MSorted (mobj st.maps m)

theorem Inv.init : Inv {} [] := ⟨rfl, fun i s h => by simp at h, fun i m h => by simp at h⟩

theorem Inv.sp_get {st : St} {sp : List AVal} (inv : Inv st sp) (i : Nat) :
    sp[i]? = (st.pool[i]?).map (absVal st) := by
  rw [← inv.abs]; simp

/-- adding a freshly built value while old arrays/objects are framed -/
theorem Inv.push {st : St} {sp : List AVal} (inv : Inv st sp) (h' : Heap) (mh' : MHeap) (v : Val) (a : AVal)
    (hf : Frame st.heap.length st.heap h') (mf : MFrame st.maps mh')
    (ha : absVal { st with heap := h', maps := mh' } v = a)
    (hset : ∀ s, v = .set s → SWF h' s ∧ (view h' s).Pairwise (· < ·))
    (hmap : ∀ m, v = .map m → m < mh'.length ∧ MSorted (mobj mh' m)) :
    Inv { st with heap := h', maps := mh', pool := st.pool ++ [v] } (sp ++ [a]) := by
  have hold : ∀ x ∈ st.pool, absVal { st with heap := h', maps := mh', pool := st.pool ++ [v] } x = absVal st x := by
    intro x hx
    obtain ⟨i, hi, rfl⟩ := List.getElem_of_mem hx
    have hi' : st.pool[i]? = some st.pool[i] := by simp [hi]
    cases hx' : st.pool[i] with
    | set s =>
      rw [hx'] at hi'
      have := (inv.setwf i s hi').1
      simp only [absVal]
      rw [hf.view_eq s this.1]
    | map m =>
      rw [hx'] at hi'
      have := (inv.mapwf i m hi').1
      simp only [absVal]
      rw [mf.2 m this]
  refine ⟨?_, ?_, ?_⟩
  · simp only [List.map_append, List.map_cons, List.map_nil]
    rw [← inv.abs]
    congr 1
    · exact List.map_congr_left hold
    · rw [← ha]; cases v <;> rfl
  · intro i s hi
    simp only at hi ⊢
    by_cases hlt : i < st.pool.length
    · rw [List.getElem?_append_left hlt] at hi
      obtain ⟨w, srt⟩ := inv.setwf i s hi
      exact ⟨hf.swf w w.1, by rw [hf.view_eq s w.1]; exact srt⟩
    · rw [List.getElem?_append_right (by omega)] at hi
      have : i - st.pool.length = 0 := by
        by_cases h0 : i - st.pool.length = 0
        · exact h0
        · simp [List.getElem?_cons, h0] at hi
      simp [this] at hi
      exact hset s hi
  · intro i m hi
    simp only at hi ⊢
    by_cases hlt : i < st.pool.length
    · rw [List.getElem?_append_left hlt] at hi
      obtain ⟨w, srt⟩ := inv.mapwf i m hi
      exact ⟨by have := mf.1; omega, by rw [mf.2 m w]; exact srt⟩
    · rw [List.getElem?_append_right (by omega)] at hi
      have : i - st.pool.length = 0 := by
        by_cases h0 : i - st.pool.length = 0
        · exact h0
        · simp [List.getElem?_cons, h0] at hi
      simp [this] at hi
      exact hmap m hi

theorem sMerge_sorted : ∀ (a b : List Int), a.Pairwise (· < ·) → b.Pairwise (· < ·) →
    (sMerge a b).Pairwise (· < ·) ∧ ∀ x, x ∈ sMerge a b ↔ x ∈ a ∨ x ∈ b := by
  intro a
  induction a with
  | nil => intro b _ hb; rw [sMerge_nil_left]; exact ⟨hb, by simp⟩
  | cons x xs iha =>
    intro b
    induction b with
    | nil => intro ha _; rw [sMerge_nil_right]; exact ⟨ha, by simp⟩
    | cons y ys ihb =>
      intro ha hb
      have hx := List.pairwise_cons.mp ha
      have hy := List.pairwise_cons.mp hb
      rw [sMerge_cons]
      split
      · rename_i hlt
        obtain ⟨s1, m1⟩ := iha (y :: ys) hx.2 hb
        refine ⟨List.pairwise_cons.mpr ⟨?_, s1⟩, ?_⟩
        · intro z hz
          rcases (m1 z).mp hz with h | h
          · exact hx.1 z h
          · rcases List.mem_cons.mp h with h | h
            · omega
            · have := hy.1 z h; omega
        · intro z; simp only [List.mem_cons, m1]; grind
      · split
        · rename_i hnlt hlt
          obtain ⟨s1, m1⟩ := ihb ha hy.2
          refine ⟨List.pairwise_cons.mpr ⟨?_, s1⟩, ?_⟩
          · intro z hz
            rcases (m1 z).mp hz with h | h
            · rcases List.mem_cons.mp h with h | h
              · omega
              · have := hx.1 z h; omega
            · exact hy.1 z h
          · intro z; simp only [List.mem_cons, m1]; grind
        · rename_i h1 h2
          have hxy : x = y := by omega
          obtain ⟨s1, m1⟩ := iha ys hx.2 hy.2
          refine ⟨List.pairwise_cons.mpr ⟨?_, s1⟩, ?_⟩
          · intro z hz
            rcases (m1 z).mp hz with h | h
            · exact hx.1 z h
            · have := hy.1 z h; omega
          · intro z; simp only [List.mem_cons, m1]; grind

theorem sOfList_sorted (vs : List Int) : (sOfList vs).Pairwise (· < ·) :=
  foldl_sInsert_sorted vs [] (by simp)

/-- one step of the machine refines one step of the specification and keeps the invariant -/
theorem step_refines (grow : Nat → Nat) (st : St) (sp : List AVal) (inv : Inv st sp) (op : Op) :
    Inv (step grow st op).1 (specStep sp op).1 ∧ (step grow st op).2 = (specStep sp op).2 := by
  have spg := inv.sp_get
  cases op with
  | newSet vs =>
    obtain ⟨n1, n2, n3⟩ := newIntSet_spec grow st.heap vs
    simp only [step, specStep]
    generalize newIntSet grow st.heap vs = r at n1 n2 n3
    obtain ⟨h', s'⟩ := r
    refine ⟨?_, trivial⟩
    exact inv.push h' st.maps (.set s') (.set (sOfList vs)) n3 (MFrame.refl _) (by simp [absVal]; exact n2)
      (fun s hs => by cases hs; exact ⟨n1, by rw [n2]; exact sOfList_sorted vs⟩) (fun m hm => by cases hm)
  | insert i v =>
    simp only [step, specStep, St.setAt, spg i]
    cases hp : st.pool[i]? with
    | none => exact ⟨inv, rfl⟩
    | some x =>
      cases x with
      | map m => exact ⟨inv, rfl⟩
      | set s =>
        obtain ⟨w, srt⟩ := inv.setwf i s hp
        obtain ⟨n1, n2, n3⟩ := insert_spec grow st.heap s v w srt
        simp only [Option.map_some, absVal]
        generalize insert grow st.heap s v = r at n1 n2 n3
        obtain ⟨h', s'⟩ := r
        refine ⟨?_, trivial⟩
        exact inv.push h' st.maps (.set s') _ n3 (MFrame.refl _) (by simp [absVal]; exact n2)
          (fun s2 hs => by cases hs; exact ⟨n1, by rw [n2]; exact sInsert_sorted _ _ srt⟩) (fun m hm => by cases hm)
  | union i j =>
    simp only [step, specStep, St.setAt, spg i, spg j]
    cases hp : st.pool[i]? with
    | none => exact ⟨inv, rfl⟩
    | some x =>
      cases x with
      | map m => exact ⟨inv, rfl⟩
      | set s =>
        cases hq : st.pool[j]? with
        | none => exact ⟨inv, rfl⟩
        | some y =>
          cases y with
          | map m => exact ⟨inv, rfl⟩
          | set s2 =>
            obtain ⟨w, srt⟩ := inv.setwf i s hp
            obtain ⟨w2, srt2⟩ := inv.setwf j s2 hq
            obtain ⟨n1, n2, n3⟩ := union_spec grow st.heap s s2 w w2
            simp only [Option.map_some, absVal]
            generalize union grow st.heap s s2 = r at n1 n2 n3
            obtain ⟨h', s'⟩ := r
            refine ⟨?_, trivial⟩
            exact inv.push h' st.maps (.set s') _ n3 (MFrame.refl _) (by simp [absVal]; exact n2)
              (fun s3 hs => by cases hs; exact ⟨n1, by rw [n2]; exact (sMerge_sorted _ _ srt srt2).1⟩)
              (fun m hm => by cases hm)
  | len i =>
    simp only [step, specStep, St.setAt, spg i]
    cases hp : st.pool[i]? with
    | none => exact ⟨inv, rfl⟩
    | some x =>
      cases x with
      | map m => exact ⟨inv, rfl⟩
      | set s =>
        obtain ⟨w, _⟩ := inv.setwf i s hp
        refine ⟨inv, ?_⟩
        simp only [Option.map_some, absVal]
        have : (view st.heap s).length = s.len := by have := w.2.1; have := w.2.2; simp [view]; omega
        rw [this]
  | each i =>
    simp only [step, specStep, St.setAt, spg i]
    cases hp : st.pool[i]? with
    | none => exact ⟨inv, rfl⟩
    | some x => cases x <;> exact ⟨inv, rfl⟩
  | newMap kvs =>
    obtain ⟨n1, n2, n3, n4⟩ := newIntMap_spec st.maps kvs
    simp only [step, specStep]
    generalize newIntMap st.maps kvs = r at n1 n2 n3 n4
    obtain ⟨mh', m'⟩ := r
    simp only at n1 n2 n3 n4
    subst n1
    refine ⟨?_, trivial⟩
    exact inv.push st.heap mh' (.map st.maps.length) _ (Frame.refl _ _) n3 (by simp [absVal]; exact n2)
      (fun s hs => by cases hs) (fun m hm => by cases hm; exact ⟨by omega, by rw [n2]; exact mOfList_sorted kvs⟩)
  | inc i k =>
    simp only [step, specStep, St.mapAt, spg i]
    cases hp : st.pool[i]? with
    | none => exact ⟨inv, rfl⟩
    | some x =>
      cases x with
      | set s => exact ⟨inv, rfl⟩
      | map m =>
        obtain ⟨w, srt⟩ := inv.mapwf i m hp
        obtain ⟨n1, n2, n3, n4⟩ := inc_spec st.maps m k srt
        simp only [Option.map_some, absVal]
        generalize inc st.maps m k = r at n1 n2 n3 n4
        obtain ⟨mh', m'⟩ := r
        simp only at n1 n2 n3 n4
        subst n1
        refine ⟨?_, trivial⟩
        exact inv.push st.heap mh' (.map st.maps.length) _ (Frame.refl _ _) n3 (by simp [absVal]; exact n2)
          (fun s hs => by cases hs)
          (fun m2 hm => by cases hm; exact ⟨by omega, by rw [n2]; exact mInc_sorted _ _ srt⟩)
  | filter i j =>
    simp only [step, specStep, St.mapAt, St.setAt, spg i, spg j]
    cases hp : st.pool[i]? with
    | none => exact ⟨inv, rfl⟩
    | some x =>
      cases x with
      | set s => cases hq : st.pool[j]? with
        | none => exact ⟨inv, rfl⟩
        | some y => cases y <;> exact ⟨inv, rfl⟩
      | map m =>
        cases hq : st.pool[j]? with
        | none => exact ⟨inv, rfl⟩
        | some y =>
          cases y with
          | map m2 => exact ⟨inv, rfl⟩
          | set s =>
            obtain ⟨w, _⟩ := inv.mapwf i m hp
            obtain ⟨n1, n2, n3, n4⟩ := filter_spec st.maps m w (view st.heap s)
            simp only [Option.map_some, absVal]
            generalize filter st.maps m (view st.heap s) = r at n1 n2 n3 n4
            obtain ⟨mh', m'⟩ := r
            simp only at n1 n2 n3 n4
            subst n1
            refine ⟨?_, trivial⟩
            exact inv.push st.heap mh' (.map st.maps.length) _ (Frame.refl _ _) n3 (by simp [absVal]; exact n2)
              (fun s hs => by cases hs)
              (fun m2 hm => by cases hm; exact ⟨by omega, by rw [n2]; exact mFilter_sorted _ _⟩)
  | get i k =>
    simp only [step, specStep, St.mapAt, spg i]
    cases hp : st.pool[i]? with
    | none => exact ⟨inv, rfl⟩
    | some x => cases x <;> exact ⟨inv, rfl⟩
  | keys i =>
    simp only [step, specStep, St.mapAt, spg i]
    cases hp : st.pool[i]? with
    | none => exact ⟨inv, rfl⟩
    | some x => cases x <;> exact ⟨inv, rfl⟩
  | eachMap i =>
    simp only [step, specStep, St.mapAt, spg i]
    cases hp : st.pool[i]? with
    | none => exact ⟨inv, rfl⟩
    | some x => cases x <;> exact ⟨inv, rfl⟩

end PV.Data
