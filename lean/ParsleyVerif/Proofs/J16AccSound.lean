/-
  C16, the converse — step 1: a REFINED soundness theorem for the parser core.

  `Derives` (Spec/Derives.lean, C01) is the monotone reading: its LeftTrim rule does not record whether the
  whitespace that was skipped is acceptable in the trim's mode, so `Derives` over-approximates what `run`
  returns for grammars that use LeftTrim in mode WsSpaces / WsNone / WsForceNl (the JSON grammar does, before
  `,` and `:`).  `DerivesW cfg R g pos x` is the refinement used for the byte-level reject statement:

    * LeftTrim derives only when `skipWhitespaces` reports NO whitespace error for the mode;
    * RightTrim derives only the tree with its end moved (no "keep" rule);
    * references are abstract (`R k pos x`, as in Proofs/ArithAbs.lean), so derivations of a closed grammar
      term can be inverted by finite case analysis.

  Scope (`Strict`): grammars without `Memoize` and without `Optional` — every other combinator returns a result
  XOR an error (`Optional` hands its operand's error through next to the EMPTY match, and LeftTrim then decides by
  the error's position: for such operands the refinement is false).  `run_soundW`: for a `Strict` grammar every
  run answers a result xor an error, and every returned tree is a `DerivesW` derivation — for every fuel,
  context, state and work budget.

  Everything lives in `PV.J16Acc`.
-/
import ParsleyVerif.Spec.Derives
import ParsleyVerif.Proofs.RunBasics
import ParsleyVerif.Proofs.RunLoops
import ParsleyVerif.Proofs.RunEqns
import ParsleyVerif.Proofs.RunSound
namespace PV.J16Acc
open PV PV.Text

mutual
inductive DerivesW (cfg : Cfg) (R : Nat → Nat → Node → Prop) : G → Nat → Node → Prop
  | term {t pos n} : t.parse cfg.params cfg.file pos = .node n → DerivesW cfg R (.term t) pos n
  | empty {pos} : DerivesW cfg R .empty pos (.empty pos)
  | eof {pos} : isEOF cfg.file pos = true → DerivesW cfg R .eof pos (.eof pos)
  | ref {k pos x} : R k pos x → DerivesW cfg R (.ref k) pos x
  | any {gs g pos x} : g ∈ gs → DerivesW cfg R g pos x → DerivesW cfg R (.any gs) pos x
  | choice {gs g pos x} : g ∈ gs → DerivesW cfg R g pos x → DerivesW cfg R (.choice gs) pos x
  | name {g nm pos x} : DerivesW cfg R g pos x → DerivesW cfg R (.name g nm) pos x
  | suppress {g pos x} : DerivesW cfg R g pos x → DerivesW cfg R (.suppress g) pos x
  | singleUnwrap {g pos tk c p r i} : DerivesW cfg R g pos (.nt tk [c] p r i) → DerivesW cfg R (.single g) pos c
  | singleKeep {g pos x} : DerivesW cfg R g pos x → DerivesW cfg R (.single g) pos x
  /-- LeftTrim: the whitespace is acceptable in mode `m`, and the operand runs after it -/
  | ltrim {g m pos x} : (skipWhitespaces cfg.file pos m).2 = none →
      DerivesW cfg R g (skipWhitespaces cfg.file pos m).1 x → DerivesW cfg R (.ltrim g m) pos x
  /-- RightTrim: the operand's tree with its end moved past the whitespace -/
  | rtrim {g m pos x} : DerivesW cfg R g pos x → DerivesW cfg R (.rtrim g m) pos (setRposNode cfg.file m x none).1
  | seqfam {g sh pos nodes} : g.shape = some sh → DerivesSeqW cfg R sh 0 pos nodes →
      sh.lenCheck nodes.length = true → DerivesW cfg R g pos (handleResult sh pos nodes)
inductive DerivesSeqW (cfg : Cfg) (R : Nat → Nat → Node → Prop) : SeqShape → Nat → Nat → List Node → Prop
  | nil {sh d pos} : DerivesSeqW cfg R sh d pos []
  | cons {sh d pos g n rest} : sh.lookup d = some g → DerivesW cfg R g pos n →
      DerivesSeqW cfg R sh (d + 1) n.rpos rest → DerivesSeqW cfg R sh d pos (n :: rest)
end

/-- `R` is closed under the rule bodies -/
def ClosedW (cfg : Cfg) (R : Nat → Nat → Node → Prop) : Prop :=
  ∀ k g pos x, cfg.env[k]? = some g → DerivesW cfg R g pos x → R k pos x

/-- no Memoize, no Optional -/
def StrictLocal : G → Prop
  | .memo _ _ => False
  | .optional _ => False
  | _ => True

def Strict (g : G) : Prop := g.All StrictLocal

/-! ### inversion -/
section Inv
variable {cfg : Cfg} {R : Nat → Nat → Node → Prop}

theorem DerivesW.term_inv {t pos x} (h : DerivesW cfg R (.term t) pos x) :
    t.parse cfg.params cfg.file pos = .node x := by
  cases h with
  | term h => exact h
  | seqfam hs _ _ => simp [G.shape] at hs

theorem DerivesW.empty_inv {pos x} (h : DerivesW cfg R .empty pos x) : x = .empty pos := by
  cases h with
  | empty => rfl
  | seqfam hs _ _ => simp [G.shape] at hs

theorem DerivesW.eof_inv {pos x} (h : DerivesW cfg R .eof pos x) : isEOF cfg.file pos = true ∧ x = .eof pos := by
  cases h with
  | eof h => exact ⟨h, rfl⟩
  | seqfam hs _ _ => simp [G.shape] at hs

theorem DerivesW.ref_inv {k pos x} (h : DerivesW cfg R (.ref k) pos x) : R k pos x := by
  cases h with
  | ref h => exact h
  | seqfam hs _ _ => simp [G.shape] at hs

theorem DerivesW.name_inv {g nm pos x} (h : DerivesW cfg R (.name g nm) pos x) : DerivesW cfg R g pos x := by
  cases h with
  | name h => exact h
  | seqfam hs _ _ => simp [G.shape] at hs

theorem DerivesW.suppress_inv {g pos x} (h : DerivesW cfg R (.suppress g) pos x) : DerivesW cfg R g pos x := by
  cases h with
  | suppress h => exact h
  | seqfam hs _ _ => simp [G.shape] at hs

theorem DerivesW.any_inv {gs pos x} (h : DerivesW cfg R (.any gs) pos x) : ∃ g ∈ gs, DerivesW cfg R g pos x := by
  cases h with
  | any hm h => exact ⟨_, hm, h⟩
  | seqfam hs _ _ => simp [G.shape] at hs

theorem DerivesW.choice_inv {gs pos x} (h : DerivesW cfg R (.choice gs) pos x) :
    ∃ g ∈ gs, DerivesW cfg R g pos x := by
  cases h with
  | choice hm h => exact ⟨_, hm, h⟩
  | seqfam hs _ _ => simp [G.shape] at hs

theorem DerivesW.ltrim_inv {g m pos x} (h : DerivesW cfg R (.ltrim g m) pos x) :
    (skipWhitespaces cfg.file pos m).2 = none ∧ DerivesW cfg R g (skipWhitespaces cfg.file pos m).1 x := by
  cases h with
  | ltrim hw h => exact ⟨hw, h⟩
  | seqfam hs _ _ => simp [G.shape] at hs

theorem DerivesW.rtrim_inv {g m pos x} (h : DerivesW cfg R (.rtrim g m) pos x) :
    ∃ y, DerivesW cfg R g pos y ∧ x = (setRposNode cfg.file m y none).1 := by
  cases h with
  | rtrim h => exact ⟨_, h, rfl⟩
  | seqfam hs _ _ => simp [G.shape] at hs

/-- a Sequence-family parser derives what its result handler builds from a chain of element derivations -/
theorem DerivesW.seq_inv {g sh pos x} (h : DerivesW cfg R g pos x) (hs : g.shape = some sh) :
    ∃ nodes, DerivesSeqW cfg R sh 0 pos nodes ∧ sh.lenCheck nodes.length = true ∧ x = handleResult sh pos nodes := by
  cases h with
  | seqfam hs' hd hl =>
    rw [hs] at hs'
    cases hs'
    exact ⟨_, hd, hl, rfl⟩
  | _ => simp [G.shape] at hs

/-- the three-element SeqOf -/
theorem DerivesW.seqOf3_inv {a b c : G} {o : SeqOpts} {pos x}
    (h : DerivesW cfg R (.seq .seqOf [a, b, c] o) pos x) :
    ∃ x1 x2 x3, DerivesW cfg R a pos x1 ∧ DerivesW cfg R b x1.rpos x2 ∧ DerivesW cfg R c x2.rpos x3 ∧
      x = .nt (o.token.getD seqTok) [x1, x2, x3] x1.pos x3.rpos o.interp := by
  obtain ⟨nodes, hd, hl, rfl⟩ := h.seq_inv rfl
  simp only [List.length_cons, List.length_nil, beq_iff_eq] at hl
  cases hd with
  | nil => simp at hl
  | cons l1 h1 hr1 =>
    cases hr1 with
    | nil => simp at hl
    | cons l2 h2 hr2 =>
      cases hr2 with
      | nil => simp at hl
      | cons l3 h3 hr3 =>
        cases hr3 with
        | cons _ _ _ => simp at hl
        | nil =>
          simp only [List.getElem?_cons_zero, Option.some.injEq, Nat.zero_add, List.getElem?_cons_succ] at l1 l2 l3
          subst l1 l2 l3
          exact ⟨_, _, _, h1, h2, h3, by simp [handleResult]⟩

/-- the two-element SeqOf -/
theorem DerivesW.seqOf2_inv {a b : G} {o : SeqOpts} {pos x}
    (h : DerivesW cfg R (.seq .seqOf [a, b] o) pos x) :
    ∃ x1 x2, DerivesW cfg R a pos x1 ∧ DerivesW cfg R b x1.rpos x2 ∧
      x = .nt (o.token.getD seqTok) [x1, x2] x1.pos x2.rpos o.interp := by
  obtain ⟨nodes, hd, hl, rfl⟩ := h.seq_inv rfl
  simp only [List.length_cons, List.length_nil, beq_iff_eq] at hl
  cases hd with
  | nil => simp at hl
  | cons l1 h1 hr1 =>
    cases hr1 with
    | nil => simp at hl
    | cons l2 h2 hr2 =>
      cases hr2 with
      | cons _ _ _ => simp at hl
      | nil =>
        simp only [List.getElem?_cons_zero, Option.some.injEq, Nat.zero_add, List.getElem?_cons_succ] at l1 l2
        subst l1 l2
        exact ⟨_, _, h1, h2, by simp [handleResult]⟩

theorem DerivesSeqW.snoc {sh : SeqShape} {g : G} {n : Node} :
    ∀ {nodes : List Node} {d p : Nat}, DerivesSeqW cfg R sh d p nodes →
      sh.lookup (d + nodes.length) = some g → DerivesW cfg R g (endOf p nodes) n →
      DerivesSeqW cfg R sh d p (nodes ++ [n])
  | [], d, p, _, hl, hd => by
    simp only [List.length_nil, Nat.add_zero] at hl
    exact .cons hl (by simpa [endOf] using hd) .nil
  | m :: rest, d, p, h, hl, hd => by
    cases h with
    | cons hl' hm hrest =>
      refine .cons hl' hm (DerivesSeqW.snoc (g := g) hrest ?_ ?_)
      · simpa [Nat.add_assoc, Nat.add_comm 1] using hl
      · rw [endOf_cons] at hd; exact hd

end Inv

/-! ### soundness of `run` -/

/-- what the induction on fuel carries: a result XOR an error, and every tree is a refined derivation -/
def RunOKW (cfg : Cfg) (R : Nat → Nat → Node → Prop) (r : RunFn) : Prop :=
  ∀ g ctx pos st o st', Strict g → r g ctx pos st = some (o, st') →
    (o.res.isNil = false → o.err = none) ∧ ∀ x ∈ o.res.alts, DerivesW cfg R g pos x

theorem alts_mem_not_nil {r : Res} {x : Node} (h : x ∈ r.alts) : r.isNil = false := by
  cases r with
  | nil => cases h
  | one n => rfl
  | list l => rfl

theorem wsToErr_none {ws : Option (Nat × WsErr)} (h : wsToErr ws = none) : ws = none := by
  cases ws with
  | none => rfl
  | some pk => obtain ⟨p, k⟩ := pk; simp [wsToErr] at h

theorem seqParse_soundW (cfg : Cfg) (R : Nat → Nat → Node → Prop) (r : RunFn) (hr : RunOKW cfg R r) (g : G)
    (sh : SeqShape) (hg : Strict g) (hs : g.shape = some sh) (pos0 : Nat) :
    ∀ (fuel : Nat) (fr : Frame) ss st b ss' st',
      (DerivesSeqW cfg R sh 0 pos0 fr.nodes ∧ endOf pos0 fr.nodes = fr.pos ∧
        ∀ x ∈ ss.result.alts, DerivesW cfg R g pos0 x) →
      fr.depth = fr.nodes.length →
      seqParse r sh fuel fr.depth fr.nodes fr.ctx fr.pos fr.merge ss st = some (b, ss', st') →
      ((∀ x ∈ ss.result.alts, DerivesW cfg R g pos0 x) → ∀ x ∈ ss'.result.alts, DerivesW cfg R g pos0 x) := by
  have hafter : ∀ (m : Bool) (ss : SeqSt) (o : Out), (seqAfter m ss o).result = ss.result := by
    intro m ss o; unfold seqAfter; split <;> rfl
  have hemit : ∀ (fr : Frame) (ss : SeqSt), fr.depth = fr.nodes.length → DerivesSeqW cfg R sh 0 pos0 fr.nodes →
      endOf pos0 fr.nodes = fr.pos → sh.lenCheck fr.depth = true →
      (∀ x ∈ ss.result.alts, DerivesW cfg R g pos0 x) →
      ∀ x ∈ (seqEmit sh fr ss).result.alts, DerivesW cfg R g pos0 x := by
    intro fr ss hd hds hend hlc hres x hx
    simp only [seqEmit] at hx
    cases mem_appendNode _ _ _ hx with
    | inl h1 => exact hres x h1
    | inr h1 =>
      simp only [Res.alts, List.mem_singleton] at h1
      subst h1
      have hn : (if fr.depth > 0 then fr.nodes else []) = fr.nodes := by
        split
        · rfl
        · have : fr.nodes.length = 0 := by omega
          exact (List.length_eq_zero_iff.mp this).symm
      rw [hn]
      have hp : handleResult sh fr.pos fr.nodes = handleResult sh pos0 fr.nodes := by
        cases hnn : fr.nodes with
        | nil => rw [hnn] at hend; simp only [endOf_nil] at hend; rw [hend]
        | cons a b => exact handleResult_pos_irrel sh _ _ _ (by simp)
      rw [hp]
      exact DerivesW.seqfam hs hds (by rw [← hd]; exact hlc)
  refine seqParse_ind r sh
    (fun fr ss _ => DerivesSeqW cfg R sh 0 pos0 fr.nodes ∧ endOf pos0 fr.nodes = fr.pos ∧
        ∀ x ∈ ss.result.alts, DerivesW cfg R g pos0 x)
    (fun ss _ ss' _ =>
      ((∀ x ∈ ss.result.alts, DerivesW cfg R g pos0 x) → ∀ x ∈ ss'.result.alts, DerivesW cfg R g pos0 x))
    ?_ ?_ ?_ ?_ ?_
  · intro ss st; exact id
  · intro a b c d e f h1 h2; exact fun h => h2 (h1 h)
  · intro fr ss st ss' st' hJ hE
    exact ⟨hJ.1, hJ.2.1, hE hJ.2.2⟩
  · intro fr ss st g' o st1 hJ hd hl hrun
    obtain ⟨j2, j3, j4⟩ := hJ
    have hg' : Strict g' := shape_lookup_all hg hs fr.depth g' hl
    obtain ⟨_, hn⟩ := hr g' fr.ctx fr.pos st.regCall o st1 hg' hrun
    refine ⟨fun h => by rw [hafter]; exact h, ?_, ?_⟩
    · intro n hnm
      refine ⟨?_, ?_, by rw [hafter]; exact j4⟩
      · simp only [Frame.next]
        exact DerivesSeqW.snoc j2 (by rw [Nat.zero_add, ← hd]; exact hl) (by rw [j3]; exact hn n hnm)
      · simp only [Frame.next]; exact endOf_snoc _ _ _
    · intro _ hlc
      exact fun h => hemit fr _ hd j2 j3 hlc (by rw [hafter]; exact h)
  · intro fr ss st hJ hd _ hlc
    obtain ⟨j2, j3, j4⟩ := hJ
    exact fun h => hemit fr _ hd j2 j3 hlc (by rw [hafter]; exact h)

/-- the Sequence family answers a result XOR an error -/
theorem seqFinish_strict (sh : SeqShape) (pos : Nat) (ss : SeqSt) (st : St) :
    (seqFinish sh pos ss st).1.res.isNil = false → (seqFinish sh pos ss st).1.err = none := by
  by_cases hnil : ss.result.isNil = true
  · have e2 : (seqFinish sh pos ss st).1.res = .nil := by simp [seqFinish, hnil]
    rw [e2]; intro h; simp [Res.isNil] at h
  · have hnil' : ss.result.isNil = false := by simpa using hnil
    intro _
    cases sh.name <;> simp [seqFinish, hnil']

/-- LeftTrim over an operand that answers a result XOR an error: a result is returned only together with no
    error and only when the whitespace was acceptable -/
theorem ltrimFinish_strict (pos pos' : Nat) (wsErr : Option Err) (o : Out) (st : St)
    (ho : o.res.isNil = false → o.err = none) :
    (ltrimFinish pos pos' wsErr o st).1.res.isNil = false →
      (ltrimFinish pos pos' wsErr o st).1.err = none ∧ wsErr = none := by
  unfold ltrimFinish
  simp only
  cases he : o.err with
  | none =>
    cases wsErr with
    | none => intro _; exact ⟨rfl, rfl⟩
    | some w => intro h; simp [Res.isNil] at h
  | some e =>
    have hn : o.res.isNil = true := by
      cases hb : o.res.isNil with
      | true => rfl
      | false => have := ho hb; rw [he] at this; cases this
    cases wsErr with
    | none => intro h; simp only at h; rw [hn] at h; cases h
    | some w =>
      simp only
      split
      · intro h; simp [Res.isNil] at h
      · split
        · intro h; simp only at h; rw [hn] at h; cases h
        · intro h; simp only at h; rw [hn] at h; cases h

local macro "nil_case" : tactic =>
  `(tactic| exact ⟨fun hn => by simp [Res.isNil] at hn, fun x hx => by cases hx⟩)

/-- for a grammar without Memoize and Optional every run answers a result XOR an error, and every returned tree is
    a refined derivation -/
theorem run_soundW (cfg : Cfg) (R : Nat → Nat → Node → Prop) (hR : ClosedW cfg R) (henv : ∀ g' ∈ cfg.env, Strict g') :
    ∀ fuel g ctx pos st o st', Strict g → run cfg fuel g ctx pos st = some (o, st') →
      (o.res.isNil = false → o.err = none) ∧ ∀ x ∈ o.res.alts, DerivesW cfg R g pos x := by
  intro fuel
  induction fuel with
  | zero => intro g ctx pos st o st' _ h; simp [run] at h
  | succ fuel ih =>
    intro g ctx pos st o st' hg h
    cases hsh : g.shape with
    | some sh =>
      rw [run_seqfam cfg fuel g sh ctx pos st hsh] at h
      split at h
      · cases h
      · unfold runSeq at h
        split at h
        · cases h
        · rename_i b ss st1 hsp
          cases h
          have hE := seqParse_soundW cfg R (run cfg fuel) ih g sh hg hsh pos fuel ⟨0, [], ctx, pos, true⟩ {} st b ss st1
            ⟨.nil, rfl, (by intro x hx; cases hx)⟩ rfl hsp
          obtain ⟨f1, _⟩ := seqFinish_res sh pos ss st1
          exact ⟨seqFinish_strict sh pos ss st1, fun x hx => hE (by intro x hx; cases hx) x (f1 x hx)⟩
    | none =>
    by_cases hlt : ∃ g' m, g = .ltrim g' m
    · obtain ⟨g', m, rfl⟩ := hlt
      have hg' : Strict g' := by
        have : StrictLocal (.ltrim g' m) ∧ g'.All StrictLocal := by simpa [Strict, G.All] using hg
        exact this.2
      rw [run_ltrim] at h
      split at h
      · cases h
      · split at h
        · cases h
        · rename_i o1 st1 hr
          have hfin : ltrimFinish pos (skipWhitespaces cfg.file pos m).1 (wsToErr (skipWhitespaces cfg.file pos m).2) o1 st1 = (o, st') := by
            injection h
          obtain ⟨h1, h2⟩ := ih g' ctx _ st o1 st1 hg' hr
          obtain ⟨f1, _⟩ := ltrimFinish_res pos (skipWhitespaces cfg.file pos m).1 (wsToErr (skipWhitespaces cfg.file pos m).2) o1 st1
          have f3 := ltrimFinish_strict pos (skipWhitespaces cfg.file pos m).1 (wsToErr (skipWhitespaces cfg.file pos m).2) o1 st1 h1
          rw [hfin] at f1 f3
          refine ⟨fun hn => (f3 hn).1, fun x hx => ?_⟩
          have hws := wsToErr_none (f3 (alts_mem_not_nil hx)).2
          exact .ltrim hws (h2 x (f1 x hx))
    unfold run at h
    split at h
    · cases h
    · cases g with
      | term t =>
        simp only at h
        split at h
        · rename_i n hp
          cases h
          refine ⟨fun _ => rfl, ?_⟩
          intro x hx
          simp only [Res.alts, List.mem_singleton] at hx
          subst hx; exact .term hp
        · cases h; nil_case
        · cases h; nil_case
      | empty =>
        simp only at h
        cases h
        refine ⟨fun _ => rfl, ?_⟩
        intro x hx
        simp only [Res.alts, List.mem_singleton] at hx
        subst hx; exact .empty
      | eof =>
        simp only at h
        split at h
        · rename_i he
          cases h
          refine ⟨fun _ => rfl, ?_⟩
          intro x hx
          simp only [Res.alts, List.mem_singleton] at hx
          subst hx; exact .eof he
        · cases h; nil_case
      | ref k =>
        simp only at h
        split at h
        · rename_i g' hk
          obtain ⟨h1, h2⟩ := ih g' ctx pos st o st' (henv g' (List.mem_of_getElem? hk)) h
          exact ⟨h1, fun x hx => .ref (hR k g' pos x hk (h2 x hx))⟩
        · cases h; nil_case
      | memo idx body => simp [Strict, G.All, StrictLocal] at hg
      | any gs =>
        simp only at h
        have hgs : AllList StrictLocal gs := by
          have : StrictLocal (.any gs) ∧ AllList StrictLocal gs := by simpa [Strict, G.All] using hg
          exact this.2
        split at h
        · cases h
        · rename_i a st1 hl
          have hA := anyLoop_ind (run cfg fuel) ctx pos
            (fun a _ => ∀ x ∈ a.res.alts, DerivesW cfg R (.any gs) pos x) gs
            (by
              intro g' hg' a s o' s' hA hr
              obtain ⟨_, h1⟩ := ih g' ctx pos s.regCall o' s' (AllList_mem hgs g' hg') hr
              intro x hx
              rw [(altErr_fields pos _ o'.err).2.1] at hx
              cases mem_appendNode _ _ _ hx with
              | inl h3 => exact hA x h3
              | inr h3 => exact .any hg' (h1 x h3))
            {} st a st1 (by intro x hx; cases hx) hl
          split at h
          · cases h; nil_case
          · cases h
            exact ⟨fun _ => rfl, hA⟩
      | choice gs =>
        simp only at h
        have hgs : AllList StrictLocal gs := by
          have : StrictLocal (.choice gs) ∧ AllList StrictLocal gs := by simpa [Strict, G.All] using hg
          exact this.2
        have hF := choiceLoop_ind (run cfg fuel) ctx pos
          (fun _ _ => True)
          (fun out _ _ => ∀ o', out = some o' →
            (o'.res.isNil = false → o'.err = none) ∧ ∀ x ∈ o'.res.alts, DerivesW cfg R (.choice gs) pos x) gs
          (by intro a s _ o' ho; cases ho)
          (by
            intro g' hg' a s o' s' _ hr
            obtain ⟨_, h1⟩ := ih g' ctx pos s.regCall o' s' (AllList_mem hgs g' hg') hr
            refine ⟨fun _ => ?_, fun _ => trivial⟩
            intro o2 ho2
            cases ho2
            exact ⟨fun _ => rfl, fun x hx => .choice hg' (h1 x hx)⟩)
        split at h
        · cases h
        · rename_i o1 a st1 hl
          cases h
          exact hF {} st (some o) a st' trivial hl o rfl
        · rename_i a st1 hl
          cases h; nil_case
      | optional g' => simp [Strict, G.All, StrictLocal] at hg
      | name g' nm =>
        simp only at h
        have hg' : Strict g' := by
          have : StrictLocal (.name g' nm) ∧ g'.All StrictLocal := by simpa [Strict, G.All] using hg
          exact this.2
        split at h
        · cases h
        · rename_i o1 st1 hr
          obtain ⟨_, h1⟩ := ih g' ctx pos st o1 st1 hg' hr
          split at h
          · split at h
            · cases h; nil_case
            · cases h; nil_case
          · split at h
            · cases h; nil_case
            · cases h; exact ⟨fun _ => rfl, fun x hx => .name (h1 x hx)⟩
      | single g' =>
        simp only at h
        have hg' : Strict g' := by
          have : StrictLocal (.single g') ∧ g'.All StrictLocal := by simpa [Strict, G.All] using hg
          exact this.2
        split at h
        · cases h
        · rename_i o1 st1 hr
          obtain ⟨_, h1⟩ := ih g' ctx pos st o1 st1 hg' hr
          split at h
          · cases h; nil_case
          · split at h
            · rename_i tk c p r i hres
              cases h
              refine ⟨fun _ => rfl, ?_⟩
              intro x hx
              simp only [Res.alts, List.mem_singleton] at hx
              subst hx
              exact .singleUnwrap (h1 (.nt tk [x] p r i) (by rw [hres]; simp [Res.alts]))
            · cases h
              exact ⟨fun _ => rfl, fun x hx => .singleKeep (h1 x hx)⟩
      | suppress g' =>
        simp only at h
        have hg' : Strict g' := by
          have : StrictLocal (.suppress g') ∧ g'.All StrictLocal := by simpa [Strict, G.All] using hg
          exact this.2
        split at h
        · cases h
        · rename_i o1 st1 hr
          cases h
          obtain ⟨_, h1⟩ := ih g' ctx pos st o1 _ hg' hr
          exact ⟨fun _ => rfl, fun x hx => .suppress (h1 x hx)⟩
      | ltrim g' m => exact absurd ⟨g', m, rfl⟩ hlt
      | rtrim g' m =>
        simp only at h
        have hg' : Strict g' := by
          have : StrictLocal (.rtrim g' m) ∧ g'.All StrictLocal := by simpa [Strict, G.All] using hg
          exact this.2
        split at h
        · cases h
        · rename_i o1 st1 hr
          obtain ⟨h0, h1⟩ := ih g' ctx pos st o1 st1 hg' hr
          split at h
          · rename_i e he
            cases h
            refine ⟨fun hn => ?_, fun x hx => ?_⟩
            · have := h0 hn; rw [he] at this; cases this
            · have := h0 (alts_mem_not_nil hx); rw [he] at this; cases this
          · cases hsr : setRposRes cfg.file m o1.res with
            | mk res' ws =>
              simp only [hsr] at h
              cases ws with
              | some w => simp only at h; cases h; nil_case
              | none =>
                simp only at h
                cases h
                refine ⟨fun _ => rfl, ?_⟩
                intro x hx
                have : res' = (setRposRes cfg.file m o1.res).1 := by rw [hsr]
                rw [this] at hx
                obtain ⟨n, hn, hxe⟩ := mem_setRposRes cfg.file m o1.res x hx
                rw [hxe]; exact .rtrim (h1 n hn)
      | seq k gs o => simp [G.shape] at hsh
      | many g' ae o => simp [G.shape] at hsh
      | sepBy v s ae o => simp [G.shape] at hsh

theorem parse_soundW (cfg : Cfg) (R : Nat → Nat → Node → Prop) (hR : ClosedW cfg R) (henv : ∀ g' ∈ cfg.env, Strict g')
    (fuel : Nat) (g : G) (hg : Strict g) (st : St) (p : ParseOut) (h : parse cfg fuel g st = some p) :
    ∀ x ∈ p.res.alts, DerivesW cfg R g (cfg.file.pos 0) x := by
  cases hr : run cfg fuel g [] (cfg.file.pos 0) st with
  | none => simp [parse, hr] at h
  | some r =>
    obtain ⟨o, st1⟩ := r
    have hsnd := (run_soundW cfg R hR henv fuel g [] _ st o st1 hg hr).2
    simp only [parse, hr] at h
    split at h
    · cases h; intro x hx; cases hx
    · cases h; exact hsnd

/-- a refined derivation is a derivation of the monotone reading (`Derives`, C01) when the references are read
    as real derivations of the rule bodies -/
theorem DerivesW.toDerives {cfg : Cfg} {g : G} {pos : Nat} {x : Node}
    (h : DerivesW cfg (fun k pos x => ∃ g, cfg.env[k]? = some g ∧ Derives cfg g pos x) g pos x) :
    Derives cfg g pos x := by
  refine @DerivesW.rec cfg (fun k pos x => ∃ g, cfg.env[k]? = some g ∧ Derives cfg g pos x)
    (fun g pos x _ => Derives cfg g pos x)
    (fun sh d pos nodes _ => DerivesSeq cfg sh d pos nodes)
    ?_ ?_ ?_ ?_ ?_ ?_ ?_ ?_ ?_ ?_ ?_ ?_ ?_ ?_ ?_ g pos x h
  · intro t pos n h; exact .term h
  · intro pos; exact .empty
  · intro pos h; exact .eof h
  · intro k pos x hk; obtain ⟨g, hg, hd⟩ := hk; exact .ref hg hd
  · intro gs g pos x hm _ ih; exact .any hm ih
  · intro gs g pos x hm _ ih; exact .choice hm ih
  · intro g nm pos x _ ih; exact .name ih
  · intro g pos x _ ih; exact .suppress ih
  · intro g pos tk c p r i _ ih; exact .singleUnwrap ih
  · intro g pos x _ ih; exact .singleKeep ih
  · intro g m pos x _ _ ih; exact .ltrim ih
  · intro g m pos x _ ih; exact .rtrimMove ih
  · intro g sh pos nodes hs _ hl ih; exact .seqfam hs ih hl
  · intro sh d pos; exact .nil
  · intro sh d pos g n rest hl _ _ ih1 ih2; exact .cons hl ih1 ih2

end PV.J16Acc
