/-
  C08: the hand-written matchers of Model/Terminal.lean compute the longest prefix of their input in the
  documented language of Spec/Lang.lean.  This file: the generic facts about `longestPrefix` and the
  language operations, the integer and the back-quoted string body.
-/
import ParsleyVerif.Spec.Lang
import ParsleyVerif.Proofs.Terminal
namespace PV
open PV.Text PV.Lang

/-! ### `longestPrefix` -/
theorem find_rev_range_some (p : Nat → Bool) (n k : Nat) :
    (List.range (n + 1)).reverse.find? p = some k ↔ k ≤ n ∧ p k = true ∧ ∀ j, k < j → j ≤ n → p j = false := by
  induction n with
  | zero =>
    simp only [List.range_succ, List.range_zero, List.nil_append, List.reverse_cons, List.reverse_nil, List.find?_cons]
    cases h : p 0
    · simp only [List.find?_nil]
      constructor
      · intro h'; cases h'
      · rintro ⟨h1, h2, _⟩
        have : k = 0 := by omega
        subst this; rw [h] at h2; cases h2
    · constructor
      · intro h'; cases h'
        exact ⟨Nat.le_refl _, h, fun j h1 h2 => by omega⟩
      · rintro ⟨h1, _, _⟩
        have : k = 0 := by omega
        subst this; rfl
  | succ n ih =>
    rw [List.range_succ, List.reverse_append]
    simp only [List.reverse_cons, List.reverse_nil, List.nil_append, List.cons_append, List.find?_cons]
    cases h : p (n + 1)
    · simp only []
      rw [ih]
      constructor
      · rintro ⟨h1, h2, h3⟩
        refine ⟨by omega, h2, fun j hj1 hj2 => ?_⟩
        by_cases hj : j = n + 1
        · subst hj; exact h
        · exact h3 j hj1 (by omega)
      · rintro ⟨h1, h2, h3⟩
        have hk : k ≠ n + 1 := by
          intro hk; subst hk; rw [h] at h2; cases h2
        exact ⟨by omega, h2, fun j hj1 hj2 => h3 j hj1 (by omega)⟩
    · simp only []
      constructor
      · intro h'; cases h'
        exact ⟨Nat.le_refl _, h, fun j h1 h2 => by omega⟩
      · rintro ⟨h1, h2, h3⟩
        by_cases hk : k = n + 1
        · subst hk; rfl
        · have := h3 (n + 1) (by omega) (Nat.le_refl _)
          rw [h] at this; cases this

theorem longestPrefix_some {L : Bytes → Bool} {l : Bytes} {k : Nat} :
    longestPrefix L l = some k ↔
      k ≤ l.length ∧ L (l.take k) = true ∧ ∀ j, k < j → j ≤ l.length → L (l.take j) = false := by
  unfold longestPrefix
  exact find_rev_range_some (fun k => L (l.take k)) l.length k

theorem longestPrefix_none {L : Bytes → Bool} {l : Bytes} :
    longestPrefix L l = none ↔ ∀ j, j ≤ l.length → L (l.take j) = false := by
  unfold longestPrefix
  rw [List.find?_eq_none]
  constructor
  · intro h j hj
    have := h j (by simp; omega)
    simpa using this
  · intro h j hj
    simp at hj
    have := h j (by omega)
    simp [this]

/-- to prove `longestPrefix L l = o` it is enough to check the characterisation -/
theorem longestPrefix_eq_some {L : Bytes → Bool} {l : Bytes} {k : Nat}
    (h1 : k ≤ l.length) (h2 : L (l.take k) = true) (h3 : ∀ j, k < j → j ≤ l.length → L (l.take j) = false) :
    longestPrefix L l = some k := longestPrefix_some.2 ⟨h1, h2, h3⟩

theorem longestPrefix_le {L : Bytes → Bool} {l : Bytes} {k : Nat} (h : longestPrefix L l = some k) : k ≤ l.length :=
  (longestPrefix_some.1 h).1

theorem longestPrefix_mem {L : Bytes → Bool} {l : Bytes} {k : Nat} (h : longestPrefix L l = some k) :
    L (l.take k) = true := (longestPrefix_some.1 h).2.1

theorem longestPrefix_max {L : Bytes → Bool} {l : Bytes} {k : Nat} (h : longestPrefix L l = some k) :
    ∀ j, k < j → j ≤ l.length → L (l.take j) = false := (longestPrefix_some.1 h).2.2

/-- two languages with the same prefixes of `l` have the same longest prefix -/
theorem longestPrefix_congr {L M : Bytes → Bool} {l : Bytes} (h : ∀ j, j ≤ l.length → L (l.take j) = M (l.take j)) :
    longestPrefix L l = longestPrefix M l := by
  cases hm : longestPrefix M l with
  | none =>
    rw [longestPrefix_none] at hm ⊢
    intro j hj; rw [h j hj]; exact hm j hj
  | some k =>
    rw [longestPrefix_some] at hm ⊢
    obtain ⟨h1, h2, h3⟩ := hm
    exact ⟨h1, by rw [h k h1]; exact h2, fun j hj1 hj2 => by rw [h j hj2]; exact h3 j hj1 hj2⟩

/-- the prefixes of `c :: r` are `[]` and `c ::` the prefixes of `r` -/
theorem longestPrefix_cons (L : Bytes → Bool) (c : Nat) (r : Bytes) :
    longestPrefix L (c :: r) =
      match longestPrefix (fun w => L (c :: w)) r with
      | some k => some (k + 1)
      | none => if L [] then some 0 else none := by
  cases hm : longestPrefix (fun w => L (c :: w)) r with
  | some k =>
    simp only []
    rw [longestPrefix_some] at hm ⊢
    obtain ⟨h1, h2, h3⟩ := hm
    refine ⟨by simp; omega, by simpa using h2, fun j hj1 hj2 => ?_⟩
    cases j with
    | zero => omega
    | succ j =>
      have := h3 j (by omega) (by simp at hj2; omega)
      simpa using this
  | none =>
    simp only []
    rw [longestPrefix_none] at hm
    cases h0 : L []
    · simp only [Bool.false_eq_true, if_false]
      rw [longestPrefix_none]
      intro j hj
      cases j with
      | zero => simpa using h0
      | succ j =>
        have := hm j (by simp at hj; omega)
        simpa using this
    · simp only [if_true]
      rw [longestPrefix_some]
      refine ⟨by simp, by simpa using h0, fun j hj1 hj2 => ?_⟩
      cases j with
      | zero => omega
      | succ j =>
        have := hm j (by simp at hj2; omega)
        simpa using this

theorem longestPrefix_nil (L : Bytes → Bool) : longestPrefix L [] = if L [] then some 0 else none := by
  cases h0 : L []
  · simp only [Bool.false_eq_true, if_false]
    rw [longestPrefix_none]
    intro j hj; simpa using h0
  · simp only [if_true]
    rw [longestPrefix_some]
    exact ⟨by simp, by simpa using h0, fun j hj1 hj2 => by simp at hj2; omega⟩

/-- `L (c :: w) = q && M w`, `L [] = false` -/
theorem longestPrefix_cons_of (L M : Bytes → Bool) (c : Nat) (r : Bytes) (q : Bool) (h0 : L [] = false)
    (h : ∀ w, L (c :: w) = (q && M w)) :
    longestPrefix L (c :: r) = if q then (longestPrefix M r).map (1 + ·) else none := by
  rw [longestPrefix_cons, h0]
  have : (fun w => L (c :: w)) = fun w => (q && M w) := funext h
  rw [this]
  cases q
  · simp only [Bool.false_and, Bool.false_eq_true, if_false]
    have : longestPrefix (fun _ => false) r = none := by rw [longestPrefix_none]; intros; rfl
    rw [this]
  · simp only [Bool.true_and, if_true]
    cases longestPrefix M r with
    | none => rfl
    | some k => simp [Nat.add_comm]

theorem longestPrefix_none_nil {L : Bytes → Bool} {l : Bytes} (h : longestPrefix L l = none) : L [] = false := by
  have := longestPrefix_none.1 h 0 (Nat.zero_le _)
  simpa using this

/-! ### union -/
def optMax : Option Nat → Option Nat → Option Nat
  | some a, some b => some (max a b)
  | some a, none => some a
  | none, b => b

theorem longestPrefix_or (A B : Bytes → Bool) (l : Bytes) :
    longestPrefix (fun w => A w || B w) l = optMax (longestPrefix A l) (longestPrefix B l) := by
  cases ha : longestPrefix A l with
  | none =>
    have ha' := longestPrefix_none.1 ha
    simp only [optMax]
    apply longestPrefix_congr
    intro j hj; simp [ha' j hj]
  | some a =>
    obtain ⟨a1, a2, a3⟩ := longestPrefix_some.1 ha
    cases hb : longestPrefix B l with
    | none =>
      have hb' := longestPrefix_none.1 hb
      simp only [optMax]
      rw [← ha]
      apply longestPrefix_congr
      intro j hj; simp [hb' j hj]
    | some b =>
      obtain ⟨b1, b2, b3⟩ := longestPrefix_some.1 hb
      simp only [optMax]
      rw [longestPrefix_some]
      refine ⟨by omega, ?_, fun j hj1 hj2 => ?_⟩
      · by_cases hab : a ≤ b
        · rw [Nat.max_eq_right hab, b2]; simp
        · rw [Nat.max_eq_left (by omega), a2]; simp
      · rw [a3 j (by omega) hj2, b3 j (by omega) hj2]; rfl

/-! ### first `some` -/
theorem firstSome_ite (c : Prop) [Decidable c] (a : Nat) (r : List (Option Nat)) :
    firstSome ((if c then some a else none) :: r) = if c then some a else firstSome r := by
  by_cases h : c
  · rw [if_pos h, if_pos h]; rfl
  · rw [if_neg h, if_neg h]; rfl

theorem firstSome_ite' (c : Prop) [Decidable c] (a : Nat) (r : List (Option Nat)) :
    firstSome ((if c then none else some a) :: r) = if c then firstSome r else some a := by
  by_cases h : c
  · rw [if_pos h, if_pos h]; rfl
  · rw [if_neg h, if_neg h]; rfl

theorem firstSome_some (a : Nat) (r : List (Option Nat)) : firstSome (some a :: r) = some a := rfl
theorem firstSome_none (r : List (Option Nat)) : firstSome (none :: r) = firstSome r := rfl
theorem firstSome_nil : firstSome [] = none := rfl


/-! ### the language operations -/
theorem cat_iff (A B : Bytes → Bool) (l : Bytes) :
    cat A B l = true ↔ ∃ a b, l = a ++ b ∧ A a = true ∧ B b = true := by
  unfold cat
  rw [List.any_eq_true]
  constructor
  · rintro ⟨i, _, hi⟩
    simp only [Bool.and_eq_true] at hi
    exact ⟨l.take i, l.drop i, (List.take_append_drop i l).symm, hi.1, hi.2⟩
  · rintro ⟨a, b, rfl, ha, hb⟩
    refine ⟨a.length, by simp [List.mem_range]; omega, ?_⟩
    simp [ha, hb]

theorem star_iff (p : Nat → Bool) (l : Bytes) : star p l = true ↔ ∀ b ∈ l, p b = true := by
  unfold star; simp

theorem star_nil (p : Nat → Bool) : star p [] = true := rfl
theorem star_cons (p : Nat → Bool) (c : Nat) (w : Bytes) : star p (c :: w) = (p c && star p w) := by
  simp [star]

theorem plus1_iff (p : Nat → Bool) (l : Bytes) : plus1 p l = true ↔ l ≠ [] ∧ ∀ b ∈ l, p b = true := by
  unfold plus1; cases l <;> simp

theorem plus1_nil (p : Nat → Bool) : plus1 p [] = false := rfl
theorem plus1_cons (p : Nat → Bool) (c : Nat) (w : Bytes) : plus1 p (c :: w) = (p c && star p w) := by
  simp [plus1, star]

theorem opt_iff (A : Bytes → Bool) (l : Bytes) : opt A l = true ↔ l = [] ∨ A l = true := by
  unfold opt; cases l <;> simp

theorem optSign_iff (A : Bytes → Bool) (l : Bytes) :
    optSign A l = true ↔ A l = true ∨ ∃ b r, l = b :: r ∧ sign b = true ∧ A r = true := by
  unfold optSign
  cases l with
  | nil => simp
  | cons b r =>
    simp only [Bool.or_eq_true, Bool.and_eq_true, List.cons.injEq]
    constructor
    · rintro (h | h)
      · exact Or.inl h
      · exact Or.inr ⟨b, r, ⟨rfl, rfl⟩, h⟩
    · rintro (h | ⟨b', r', ⟨rfl, rfl⟩, h⟩)
      · exact Or.inl h
      · exact Or.inr h

theorem sign_iff (b : Nat) : sign b = true ↔ b = 45 ∨ b = 43 := by
  unfold sign; simp

theorem cat_nil (A B : Bytes → Bool) : cat A B [] = (A [] && B []) := by
  simp [cat]

/-- `p* B` read from the left -/
theorem cat_star_cons (p : Nat → Bool) (B : Bytes → Bool) (c : Nat) (w : Bytes) :
    cat (star p) B (c :: w) = (B (c :: w) || (p c && cat (star p) B w)) := by
  rw [Bool.eq_iff_iff]
  simp only [Bool.or_eq_true, Bool.and_eq_true, cat_iff]
  constructor
  · rintro ⟨a, b, h, ha, hb⟩
    cases a with
    | nil => left; rw [h]; exact hb
    | cons a0 a' =>
      right
      simp only [List.cons_append, List.cons.injEq] at h
      rw [star_cons, Bool.and_eq_true] at ha
      obtain ⟨rfl, rfl⟩ := h
      exact ⟨ha.1, a', b, rfl, ha.2, hb⟩
  · rintro (h | ⟨hc, a, b, rfl, ha, hb⟩)
    · exact ⟨[], c :: w, rfl, rfl, h⟩
    · exact ⟨c :: a, b, rfl, by rw [star_cons, hc, ha]; rfl, hb⟩

theorem cat_star_nil (p : Nat → Bool) (B : Bytes → Bool) : cat (star p) B [] = B [] := by
  rw [cat_nil]; rfl

/-- `p+ B` read from the left -/
theorem cat_plus1_cons (p : Nat → Bool) (B : Bytes → Bool) (c : Nat) (w : Bytes) :
    cat (plus1 p) B (c :: w) = (p c && cat (star p) B w) := by
  rw [Bool.eq_iff_iff]
  simp only [Bool.and_eq_true, cat_iff]
  constructor
  · rintro ⟨a, b, h, ha, hb⟩
    cases a with
    | nil => cases ha
    | cons a0 a' =>
      simp only [List.cons_append, List.cons.injEq] at h
      rw [plus1_cons, Bool.and_eq_true] at ha
      obtain ⟨rfl, rfl⟩ := h
      exact ⟨ha.1, a', b, rfl, ha.2, hb⟩
  · rintro ⟨hc, a, b, rfl, ha, hb⟩
    exact ⟨c :: a, b, rfl, by rw [plus1_cons, hc, ha]; rfl, hb⟩

theorem cat_plus1_nil (p : Nat → Bool) (B : Bytes → Bool) : cat (plus1 p) B [] = false := by
  rw [cat_nil]; rfl

theorem spanLen_nil (p : Nat → Bool) : spanLen p [] = 0 := rfl
theorem spanLen_cons_pos (p : Nat → Bool) (c : Nat) (r : Bytes) (h : p c = true) :
    spanLen p (c :: r) = 1 + spanLen p r := by
  simp [spanLen, h, Nat.add_comm]
theorem spanLen_cons_neg (p : Nat → Bool) (c : Nat) (r : Bytes) (h : p c = false) :
    spanLen p (c :: r) = 0 := by
  simp [spanLen, h]

/-! ### longest prefixes of composed languages -/
theorem map_one_add_map (o : Option Nat) (n : Nat) : (o.map (n + ·)).map (1 + ·) = o.map ((1 + n) + ·) := by
  cases o with
  | none => rfl
  | some k => simp [Nat.add_assoc]

/-- `p* B`, when `B` cannot start with a `p` byte: the `p` run is taken whole -/
theorem longestPrefix_cat_star (p : Nat → Bool) (B : Bytes → Bool)
    (hB : ∀ c w, p c = true → B (c :: w) = false) (l : Bytes) :
    longestPrefix (cat (star p) B) l = (longestPrefix B (l.drop (spanLen p l))).map (spanLen p l + ·) := by
  induction l with
  | nil =>
    rw [spanLen_nil, longestPrefix_nil, cat_star_nil, List.drop_zero, longestPrefix_nil]
    cases B [] <;> rfl
  | cons c r ih =>
    cases hc : p c
    · rw [spanLen_cons_neg p c r hc, List.drop_zero, longestPrefix_cons, longestPrefix_cons (L := B)]
      have : (fun w => cat (star p) B (c :: w)) = fun w => B (c :: w) := by
        funext w; rw [cat_star_cons, hc]; simp
      rw [this, cat_star_nil]
      cases longestPrefix (fun w => B (c :: w)) r with
      | some k => simp
      | none => simp only []; cases B [] <;> rfl
    · rw [spanLen_cons_pos p c r hc, longestPrefix_cons]
      have : (fun w => cat (star p) B (c :: w)) = cat (star p) B := by
        funext w; rw [cat_star_cons, hc, hB c w hc]; simp
      rw [this, ih, cat_star_nil]
      have hd : (c :: r).drop (1 + spanLen p r) = r.drop (spanLen p r) := by
        rw [Nat.add_comm]; rfl
      rw [hd]
      cases hm : longestPrefix B (r.drop (spanLen p r)) with
      | some k => simp [Nat.add_comm, Nat.add_left_comm]
      | none => simp [longestPrefix_none_nil hm]

/-- `p+ B`, when `B` cannot start with a `p` byte -/
theorem longestPrefix_cat_plus1 (p : Nat → Bool) (B : Bytes → Bool)
    (hB : ∀ c w, p c = true → B (c :: w) = false) (l : Bytes) :
    longestPrefix (cat (plus1 p) B) l =
      if spanLen p l > 0 then (longestPrefix B (l.drop (spanLen p l))).map (spanLen p l + ·) else none := by
  cases l with
  | nil => rw [longestPrefix_nil, cat_plus1_nil, spanLen_nil]; rfl
  | cons c r =>
    rw [longestPrefix_cons_of (cat (plus1 p) B) (cat (star p) B) c r (p c) (cat_plus1_nil p B)
      (cat_plus1_cons p B c), longestPrefix_cat_star p B hB]
    cases hc : p c
    · rw [spanLen_cons_neg p c r hc]; rfl
    · rw [spanLen_cons_pos p c r hc, if_pos rfl, if_pos (by omega), map_one_add_map]
      have hd : (c :: r).drop (1 + spanLen p r) = r.drop (spanLen p r) := by
        rw [Nat.add_comm]; rfl
      rw [hd]

theorem star_eq_cat (p : Nat → Bool) (l : Bytes) : star p l = cat (star p) (fun w => w.isEmpty) l := by
  induction l with
  | nil => rfl
  | cons c w ih => rw [cat_star_cons, star_cons, ih]; rfl

theorem longestPrefix_isEmpty (l : Bytes) : longestPrefix (fun w => w.isEmpty) l = some 0 := by
  apply longestPrefix_eq_some (Nat.zero_le _) rfl
  intro j h1 h2
  cases l with
  | nil => simp at h2; omega
  | cons c r => cases j with
    | zero => omega
    | succ j => rfl

/-- `p*`: the whole `p` run -/
theorem longestPrefix_star (p : Nat → Bool) (l : Bytes) : longestPrefix (star p) l = some (spanLen p l) := by
  have : star p = cat (star p) (fun w => w.isEmpty) := funext (star_eq_cat p)
  rw [this, longestPrefix_cat_star p _ (fun _ _ _ => rfl), longestPrefix_isEmpty]
  rfl

theorem plus1_eq_cat (p : Nat → Bool) (l : Bytes) : plus1 p l = cat (plus1 p) (fun w => w.isEmpty) l := by
  cases l with
  | nil => rfl
  | cons c w => rw [cat_plus1_cons, plus1_cons, star_eq_cat]

/-- `p+`: the whole `p` run, which must not be empty -/
theorem longestPrefix_plus1 (p : Nat → Bool) (l : Bytes) :
    longestPrefix (plus1 p) l = if spanLen p l > 0 then some (spanLen p l) else none := by
  have : plus1 p = cat (plus1 p) (fun w => w.isEmpty) := funext (plus1_eq_cat p)
  rw [this, longestPrefix_cat_plus1 p _ (fun _ _ _ => rfl), longestPrefix_isEmpty]
  rfl

/-- `A?` -/
theorem longestPrefix_opt (A : Bytes → Bool) (l : Bytes) :
    longestPrefix (opt A) l = some ((longestPrefix A l).getD 0) := by
  cases hm : longestPrefix A l with
  | none =>
    have hm' := longestPrefix_none.1 hm
    apply longestPrefix_eq_some (Nat.zero_le _) rfl
    intro j h1 h2
    have := hm' j h2
    cases hj : l.take j with
    | nil =>
      have : (l.take j).length = 0 := by rw [hj]; rfl
      rw [List.length_take] at this; omega
    | cons c w => rw [hj] at this; simp [opt, this]
  | some k =>
    obtain ⟨h1, h2, h3⟩ := longestPrefix_some.1 hm
    apply longestPrefix_eq_some h1 (by simp [opt, h2])
    intro j hj1 hj2
    have := h3 j hj1 hj2
    cases hj : l.take j with
    | nil =>
      have : (l.take j).length = 0 := by rw [hj]; rfl
      rw [List.length_take] at this; omega
    | cons c w => rw [hj] at this; simp [opt, this]

theorem signLen_le (l : Bytes) : signLen l ≤ l.length := by
  unfold signLen; split <;> simp

/-- `[-+]? A`, when no word of `A` is empty or starts with a sign -/
theorem longestPrefix_optSign (A : Bytes → Bool) (hA0 : A [] = false)
    (hA : ∀ c w, sign c = true → A (c :: w) = false) (l : Bytes) :
    longestPrefix (optSign A) l = (longestPrefix A (l.drop (signLen l))).map (signLen l + ·) := by
  cases l with
  | nil =>
    show longestPrefix (optSign A) [] = (longestPrefix A []).map _
    rw [longestPrefix_nil, longestPrefix_nil]
    simp [optSign, hA0]
  | cons c r =>
    by_cases hc : sign c = true
    · have hs : signLen (c :: r) = 1 := by
        rw [sign_iff] at hc; rcases hc with rfl | rfl <;> rfl
      rw [hs, longestPrefix_cons]
      have : (fun w => optSign A (c :: w)) = A := by
        funext w; simp [optSign, hA c w hc, hc]
      rw [this]
      have h0 : optSign A [] = false := by simp [optSign, hA0]
      rw [h0]
      show _ = (longestPrefix A r).map _
      cases longestPrefix A r with
      | none => rfl
      | some k => simp [Nat.add_comm]
    · have hs : signLen (c :: r) = 0 := by
        rw [sign_iff] at hc
        have h45 : c ≠ 45 := fun h => hc (Or.inl h)
        have h43 : c ≠ 43 := fun h => hc (Or.inr h)
        simp [signLen, h45, h43]
      rw [hs, List.drop_zero]
      have : longestPrefix (optSign A) (c :: r) = longestPrefix A (c :: r) := by
        rw [longestPrefix_cons, longestPrefix_cons (L := A)]
        have : (fun w => optSign A (c :: w)) = fun w => A (c :: w) := by
          funext w; simp [optSign, hc]
        rw [this]
        have h0 : optSign A [] = false := by simp [optSign, hA0]
        rw [h0, hA0]
      rw [this]
      cases longestPrefix A (c :: r) with
      | none => rfl
      | some k => simp


theorem isDigit_eq_digit : isDigit = digit := rfl
theorem isHex_eq_hexDigit : isHex = hexDigit := rfl
theorem isOct_eq_octDigit : isOct = octDigit := rfl

/-! ### back-quoted string body -/
theorem backquoteMatch_eq_longest (l : Bytes) : backquoteMatch l = longestPrefix isBackquoteBody l := by
  unfold isBackquoteBody backquoteMatch
  rw [longestPrefix_plus1]

/-! ### integer -/
/-- `[1-9][0-9]*`, greedy -/
theorem longestPrefix_decimalLit (b : Bytes) :
    longestPrefix decimalLit b =
      match b with
      | d :: r => if nzDigit d then some (1 + spanLen digit r) else none
      | [] => none := by
  cases b with
  | nil => rw [longestPrefix_nil]; rfl
  | cons d r =>
    rw [longestPrefix_cons_of decimalLit (star digit) d r (nzDigit d) rfl (fun _ => rfl), longestPrefix_star]
    rfl

/-- `[xX][0-9a-fA-F]+` -/
def hexTail : Bytes → Bool
  | x :: r => (x = 120 || x = 88) && plus1 hexDigit r
  | [] => false

theorem hexLit_cons (c : Nat) (w : Bytes) : hexLit (c :: w) = (decide (c = 48) && hexTail w) := by
  by_cases hc : c = 48
  · subst hc
    cases w <;> simp [hexLit, hexTail]
  · simp [hexLit, hc]

/-- `0[xX][0-9a-fA-F]+`, greedy -/
theorem longestPrefix_hexLit (b : Bytes) :
    longestPrefix hexLit b =
      match b with
      | c :: x :: r =>
        if c = 48 ∧ (x = 120 ∨ x = 88) ∧ spanLen hexDigit r > 0 then some (2 + spanLen hexDigit r) else none
      | _ => none := by
  match b with
  | [] => rw [longestPrefix_nil]; rfl
  | [c] =>
    rw [longestPrefix_cons_of hexLit hexTail c [] _ rfl (hexLit_cons c), longestPrefix_nil]
    simp [hexTail]
  | c :: x :: r =>
    rw [longestPrefix_cons_of hexLit hexTail c _ _ rfl (hexLit_cons c),
      longestPrefix_cons_of hexTail (plus1 hexDigit) x r (x = 120 || x = 88) rfl (fun _ => rfl),
      longestPrefix_plus1]
    simp only []
    by_cases h1 : c = 48
    · by_cases h2 : x = 120 ∨ x = 88
      · by_cases h3 : spanLen hexDigit r > 0
        · simp [h1, h2, h3]; omega
        · simp [h1, h2, h3]
      · simp [h1, h2]
    · simp [h1]

theorem octalLit_cons (c : Nat) (w : Bytes) : octalLit (c :: w) = (decide (c = 48) && star octDigit w) := by
  by_cases hc : c = 48
  · subst hc; simp [octalLit]
  · simp [octalLit, hc]

/-- `0[0-7]*`, greedy -/
theorem longestPrefix_octalLit (b : Bytes) :
    longestPrefix octalLit b =
      match b with
      | c :: r => if c = 48 then some (1 + spanLen octDigit r) else none
      | [] => none := by
  cases b with
  | nil => rw [longestPrefix_nil]; rfl
  | cons c r =>
    rw [longestPrefix_cons_of octalLit (star octDigit) c r _ rfl (octalLit_cons c), longestPrefix_star]
    by_cases hc : c = 48 <;> simp [hc]

/-- leftmost-first on `(?:[1-9][0-9]*|0[xX][0-9a-fA-F]+|0[0-7]*)`: the alternatives are tried in the order
    written, the first one that matches wins, with its greedy match -/
theorem integerMatch_eq_firstSome (l : Bytes) :
    integerMatch l =
      (firstSome [longestPrefix decimalLit (l.drop (signLen l)), longestPrefix hexLit (l.drop (signLen l)),
        longestPrefix octalLit (l.drop (signLen l))]).map (signLen l + ·) := by
  rw [longestPrefix_decimalLit, longestPrefix_hexLit, longestPrefix_octalLit]
  unfold integerMatch
  simp only []
  generalize signLen l = s
  match l.drop s with
  | [] => rfl
  | [d] =>
    simp only []
    by_cases h1 : (49 ≤ d && d ≤ 57) = true
    · have h1' : nzDigit d = true := h1
      rw [if_pos h1, if_pos h1']
      simp [firstSome, spanLen]
    · have h1' : ¬ nzDigit d = true := h1
      rw [if_neg h1, if_neg h1']
      by_cases h2 : d = 48
      · simp [h2, firstSome, spanLen]
      · simp [h2, firstSome]
  | d :: x :: r' =>
    simp only []
    by_cases h1 : (49 ≤ d && d ≤ 57) = true
    · have h1' : nzDigit d = true := h1
      rw [if_pos h1, if_pos h1']
      simp [firstSome, Nat.add_assoc, isDigit_eq_digit]
    · have h1' : ¬ nzDigit d = true := h1
      rw [if_neg h1, if_neg h1']
      by_cases h2 : d = 48
      · rw [if_pos h2]
        by_cases h3 : ((x = 120 || x = 88) && spanLen isHex r' > 0) = true
        · rw [if_pos h3]
          rw [isHex_eq_hexDigit] at h3; simp at h3
          rw [if_pos ⟨h2, by simpa using h3⟩]
          simp [firstSome, Nat.add_assoc, isHex_eq_hexDigit]
        · rw [if_neg h3]
          rw [isHex_eq_hexDigit] at h3; simp at h3
          rw [if_neg (fun h => by have := h.2; simp at this; exact absurd this.2 (by have := h3; omega)), if_pos h2]
          simp [firstSome, Nat.add_assoc, isOct_eq_octDigit]
      · rw [if_neg h2, if_neg (fun h => h2 h.1), if_neg h2]
        rfl

/-- when the second and the third alternative both match, the earlier one (hexadecimal) is the longer one,
    so taking the first is taking the longest (`0x1F`: hexadecimal 4, octal 1) -/
theorem hex_before_octal (b : Bytes) (h o : Nat) (hh : longestPrefix hexLit b = some h)
    (ho : longestPrefix octalLit b = some o) : o = 1 ∧ o < h := by
  rw [longestPrefix_hexLit] at hh
  rw [longestPrefix_octalLit] at ho
  match b with
  | [] => cases hh
  | [c] => cases hh
  | c :: x :: r =>
    simp only [] at hh ho
    by_cases h1 : c = 48 ∧ (x = 120 ∨ x = 88) ∧ spanLen hexDigit r > 0
    · rw [if_pos h1] at hh
      rw [if_pos h1.1] at ho
      cases hh; cases ho
      have : octDigit x = false := by
        rcases h1.2.1 with rfl | rfl <;> rfl
      rw [spanLen_cons_neg _ _ _ this]
      omega
    · rw [if_neg h1] at hh; cases hh

/-- the decimal alternative excludes the other two -/
theorem decimal_excl (b : Bytes) (d : Nat) (hd : longestPrefix decimalLit b = some d) :
    longestPrefix hexLit b = none ∧ longestPrefix octalLit b = none := by
  rw [longestPrefix_decimalLit] at hd
  rw [longestPrefix_hexLit, longestPrefix_octalLit]
  match b with
  | [] => cases hd
  | [c] =>
    simp only [] at hd ⊢
    by_cases h : nzDigit c = true
    · have : c ≠ 48 := by rintro rfl; cases h
      simp [this]
    · rw [if_neg h] at hd; cases hd
  | c :: x :: r =>
    simp only [] at hd ⊢
    by_cases h : nzDigit c = true
    · have : c ≠ 48 := by rintro rfl; cases h
      simp [this]
    · rw [if_neg h] at hd; cases hd

theorem isIntBody_nil : isIntBody [] = false := rfl
theorem isIntBody_sign (c : Nat) (w : Bytes) (h : sign c = true) : isIntBody (c :: w) = false := by
  rw [sign_iff] at h
  rcases h with rfl | rfl <;> cases w <;> rfl

theorem longestPrefix_isIntBody (b : Bytes) :
    longestPrefix isIntBody b =
      firstSome [longestPrefix decimalLit b, longestPrefix hexLit b, longestPrefix octalLit b] := by
  have : isIntBody = fun w => (fun w => decimalLit w || hexLit w) w || octalLit w := rfl
  rw [this, longestPrefix_or, longestPrefix_or]
  cases hd : longestPrefix decimalLit b with
  | some d =>
    obtain ⟨h1, h2⟩ := decimal_excl b d hd
    rw [h1, h2]; rfl
  | none =>
    cases hh : longestPrefix hexLit b with
    | none => cases longestPrefix octalLit b <;> rfl
    | some h =>
      cases ho : longestPrefix octalLit b with
      | none => rfl
      | some o =>
        have := hex_before_octal b h o hh ho
        simp only [optMax, firstSome]
        rw [Nat.max_eq_left (by omega)]

theorem integerMatch_eq_longest (l : Bytes) : integerMatch l = longestPrefix isInt l := by
  unfold isInt
  rw [longestPrefix_optSign isIntBody isIntBody_nil isIntBody_sign, longestPrefix_isIntBody, integerMatch_eq_firstSome]


theorem integerMatch_sound (l : Bytes) (k : Nat) (h : integerMatch l = some k) : isInt (l.take k) = true :=
  longestPrefix_mem (integerMatch_eq_longest l ▸ h)
theorem integerMatch_maximal (l : Bytes) (k : Nat) (h : integerMatch l = some k) :
    ∀ j, k < j → j ≤ l.length → isInt (l.take j) = false :=
  longestPrefix_max (integerMatch_eq_longest l ▸ h)
theorem integerMatch_none (l : Bytes) (h : integerMatch l = none) : ∀ j, j ≤ l.length → isInt (l.take j) = false :=
  longestPrefix_none.1 (integerMatch_eq_longest l ▸ h)

theorem backquoteMatch_sound (l : Bytes) (k : Nat) (h : backquoteMatch l = some k) :
    isBackquoteBody (l.take k) = true :=
  longestPrefix_mem (backquoteMatch_eq_longest l ▸ h)
theorem backquoteMatch_maximal (l : Bytes) (k : Nat) (h : backquoteMatch l = some k) :
    ∀ j, k < j → j ≤ l.length → isBackquoteBody (l.take j) = false :=
  longestPrefix_max (backquoteMatch_eq_longest l ▸ h)
theorem backquoteMatch_none (l : Bytes) (h : backquoteMatch l = none) :
    ∀ j, j ≤ l.length → isBackquoteBody (l.take j) = false :=
  longestPrefix_none.1 (backquoteMatch_eq_longest l ▸ h)

/-! ### the statements are not vacuous -/
-- `-0x1Fg`
example : longestPrefix isInt [45, 48, 120, 49, 70, 103] = some 5 := by decide
example : integerMatch [45, 48, 120, 49, 70, 103] = some 5 := by decide
-- `0x1F`: hexadecimal 4, octal 1
example : longestPrefix hexLit [48, 120, 49, 70] = some 4 ∧ longestPrefix octalLit [48, 120, 49, 70] = some 1 := by decide
-- `0x`, `089`, `+`, `12a`
example : longestPrefix isInt [48, 120] = some 1 := by decide
example : longestPrefix isInt [48, 56, 57] = some 1 := by decide
example : longestPrefix isInt [43] = none ∧ integerMatch [43] = none := by decide
example : longestPrefix isInt [49, 50, 97] = some 2 := by decide
-- back-quoted body: "ab`c", "`"
example : longestPrefix isBackquoteBody [97, 98, 96, 99] = some 2 ∧ backquoteMatch [97, 98, 96, 99] = some 2 := by decide
example : longestPrefix isBackquoteBody [96] = none ∧ backquoteMatch [96] = none := by decide

end PV
