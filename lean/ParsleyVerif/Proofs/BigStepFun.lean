/-
  The big-step semantics `Big` (Spec/BigStep.lean) is FUNCTIONAL: a parser has at most one exact result at
  a position.  Mutual structural recursion on the first derivation, inversion of the second.
-/
import ParsleyVerif.Spec.BigStep
namespace PV
open PV.Text

namespace Big

theorem shape_none_of (g : G) (h : ∀ sh, g.shape ≠ some sh) : g.shape = none := by
  cases hs : g.shape with
  | none => rfl
  | some sh => exact absurd hs (h sh)

end Big

open Big in
mutual
theorem big_fun {cfg : Cfg} : ∀ {g : G} {pos : Nat} {R1 : Res} {e1 : Bool} {R2 : Res} {e2 : Bool},
    Big cfg g pos R1 e1 → Big cfg g pos R2 e2 → R1 = R2 ∧ e1 = e2
  | _, _, _, _, _, _, .termOk h, h2 => by
    cases h2 with
    | termOk h' => rw [h] at h'; cases h'; exact ⟨rfl, rfl⟩
    | termFail h' => exact absurd h (h' _)
    | seqfam hs _ _ _ => simp [G.shape] at hs
  | _, _, _, _, _, _, .termFail h, h2 => by
    cases h2 with
    | termOk h' => exact absurd h' (h _)
    | termFail h' => exact ⟨rfl, rfl⟩
    | seqfam hs _ _ _ => simp [G.shape] at hs
  | _, _, _, _, _, _, .empty, h2 => by
    cases h2 with
    | empty => exact ⟨rfl, rfl⟩
    | seqfam hs _ _ _ => simp [G.shape] at hs
  | _, _, _, _, _, _, .eofOk h, h2 => by
    cases h2 with
    | eofOk h' => exact ⟨rfl, rfl⟩
    | eofFail h' => rw [h] at h'; cases h'
    | seqfam hs _ _ _ => simp [G.shape] at hs
  | _, _, _, _, _, _, .eofFail h, h2 => by
    cases h2 with
    | eofOk h' => rw [h] at h'; cases h'
    | eofFail h' => exact ⟨rfl, rfl⟩
    | seqfam hs _ _ _ => simp [G.shape] at hs
  | _, _, _, _, _, _, .ref hk h, h2 => by
    cases h2 with
    | ref hk' h' => rw [hk] at hk'; cases hk'; exact big_fun h h'
    | refNone hk' => rw [hk] at hk'; cases hk'
    | seqfam hs _ _ _ => simp [G.shape] at hs
  | _, _, _, _, _, _, .refNone hk, h2 => by
    cases h2 with
    | ref hk' h' => rw [hk] at hk'; cases hk'
    | refNone hk' => exact ⟨rfl, rfl⟩
    | seqfam hs _ _ _ => simp [G.shape] at hs
  | _, _, _, _, _, _, .memo h, h2 => by
    cases h2 with
    | memo h' => exact big_fun h h'
    | seqfam hs _ _ _ => simp [G.shape] at hs
  | _, _, _, _, _, _, .any h he, h2 => by
    cases h2 with
    | any h' he' =>
      obtain ⟨r1, r2⟩ := big_any_fun h h'
      subst r1 r2 he he'
      exact ⟨rfl, rfl⟩
    | seqfam hs _ _ _ => simp [G.shape] at hs
  | _, _, _, _, _, _, .choice h, h2 => by
    cases h2 with
    | choice h' => exact big_choice_fun h h'
    | seqfam hs _ _ _ => simp [G.shape] at hs
  | _, _, _, _, _, _, .optional h, h2 => by
    cases h2 with
    | optional h' =>
      obtain ⟨r1, r2⟩ := big_fun h h'
      subst r1 r2
      exact ⟨rfl, rfl⟩
    | seqfam hs _ _ _ => simp [G.shape] at hs
  | _, _, _, _, _, _, .name h he hR, h2 => by
    cases h2 with
    | name h' he' hR' =>
      obtain ⟨r1, r2⟩ := big_fun h h'
      subst r1 r2 he he' hR hR'
      exact ⟨rfl, rfl⟩
    | seqfam hs _ _ _ => simp [G.shape] at hs
  | _, _, _, _, _, _, .single h hR, h2 => by
    cases h2 with
    | single h' hR' =>
      obtain ⟨r1, r2⟩ := big_fun h h'
      subst r1 r2 hR hR'
      exact ⟨rfl, rfl⟩
    | seqfam hs _ _ _ => simp [G.shape] at hs
  | _, _, _, _, _, _, .suppress h, h2 => by
    cases h2 with
    | suppress h' =>
      obtain ⟨r1, _⟩ := big_fun h h'
      exact ⟨r1, rfl⟩
    | seqfam hs _ _ _ => simp [G.shape] at hs
  | _, _, _, _, _, _, .ltrimOk hw h, h2 => by
    cases h2 with
    | ltrimOk hw' h' => exact big_fun h h'
    | ltrimWs hw' h' _ => rw [hw] at hw'; cases hw'
    | seqfam hs _ _ _ => simp [G.shape] at hs
  | _, _, _, _, _, _, .ltrimWs hw h _, h2 => by
    cases h2 with
    | ltrimOk hw' h' => rw [hw] at hw'; cases hw'
    | ltrimWs hw' h' _ => exact ⟨rfl, rfl⟩
    | seqfam hs _ _ _ => simp [G.shape] at hs
  | _, _, _, _, _, _, .rtrim h hR he, h2 => by
    cases h2 with
    | rtrim h' hR' he' =>
      obtain ⟨r1, r2⟩ := big_fun h h'
      subst r1 r2 hR hR' he he'
      exact ⟨rfl, rfl⟩
    | seqfam hs _ _ _ => simp [G.shape] at hs
  | _, _, _, _, _, _, .seqfam hs h hR he, h2 => by
    cases h2 with
    | seqfam hs' h' hR' he' =>
      rw [hs] at hs'; cases hs'
      obtain ⟨r1, _, r3⟩ := big_seq_fun h h'
      subst r1 r3 hR hR' he he'
      exact ⟨rfl, rfl⟩
    | _ => simp [G.shape] at hs
termination_by structural _ _ _ _ _ _ h1 _ => h1

theorem big_any_fun {cfg : Cfg} : ∀ {gs : List G} {pos : Nat} {acc R1 : Res} {e1 : Bool} {R2 : Res} {e2 : Bool},
    BigAny cfg gs pos acc R1 e1 → BigAny cfg gs pos acc R2 e2 → R1 = R2 ∧ e1 = e2
  | _, _, _, _, _, _, _, .nil, h2 => by cases h2; exact ⟨rfl, rfl⟩
  | _, _, _, _, _, _, _, .cons h ht, h2 => by
    cases h2 with
    | cons h' ht' =>
      obtain ⟨r1, r2⟩ := big_fun h h'
      subst r1 r2
      obtain ⟨r3, r4⟩ := big_any_fun ht ht'
      subst r3 r4
      exact ⟨rfl, rfl⟩
termination_by structural _ _ _ _ _ _ _ h1 _ => h1

theorem big_choice_fun {cfg : Cfg} : ∀ {gs : List G} {pos : Nat} {R1 : Res} {e1 : Bool} {R2 : Res} {e2 : Bool},
    BigChoice cfg gs pos R1 e1 → BigChoice cfg gs pos R2 e2 → R1 = R2 ∧ e1 = e2
  | _, _, _, _, _, _, .nil, h2 => by cases h2; exact ⟨rfl, rfl⟩
  | _, _, _, _, _, _, .hit h hn, h2 => by
    cases h2 with
    | hit h' hn' => exact ⟨(big_fun h h').1, rfl⟩
    | skip h' ht' =>
      obtain ⟨r1, _⟩ := big_fun h h'
      subst r1
      simp [Res.isNil] at hn
  | _, _, _, _, _, _, .skip h ht, h2 => by
    cases h2 with
    | hit h' hn' =>
      obtain ⟨r1, _⟩ := big_fun h h'
      subst r1
      simp [Res.isNil] at hn'
    | skip h' ht' =>
      obtain ⟨_, r2⟩ := big_fun h h'
      obtain ⟨r3, r4⟩ := big_choice_fun ht ht'
      subst r2 r3 r4
      exact ⟨rfl, rfl⟩
termination_by structural _ _ _ _ _ _ h1 _ => h1

theorem big_seq_fun {cfg : Cfg} : ∀ {sh : SeqShape} {depth : Nat} {nodes : List Node} {pos : Nat}
    {em1 : List Node} {s1 e1 : Bool} {em2 : List Node} {s2 e2 : Bool},
    BigSeq cfg sh depth nodes pos em1 s1 e1 → BigSeq cfg sh depth nodes pos em2 s2 e2 →
    em1 = em2 ∧ s1 = s2 ∧ e1 = e2
  | _, _, _, _, _, _, _, _, _, _, .last hl, h2 => by
    cases h2 with
    | last hl' => exact ⟨rfl, rfl, rfl⟩
    | fail hl' _ => rw [hl] at hl'; cases hl'
    | step hl' _ _ _ => rw [hl] at hl'; cases hl'
  | _, _, _, _, _, _, _, _, _, _, .fail hl h, h2 => by
    cases h2 with
    | last hl' => rw [hl] at hl'; cases hl'
    | fail hl' h' =>
      rw [hl] at hl'; cases hl'
      obtain ⟨_, r2⟩ := big_fun h h'
      subst r2
      exact ⟨rfl, rfl, rfl⟩
    | step hl' h' hn' _ =>
      rw [hl] at hl'; cases hl'
      obtain ⟨r1, _⟩ := big_fun h h'
      subst r1
      simp [Res.isNil] at hn'
  | _, _, _, _, _, _, _, _, _, _, .step hl h hn ha, h2 => by
    cases h2 with
    | last hl' => rw [hl] at hl'; cases hl'
    | fail hl' h' =>
      rw [hl] at hl'; cases hl'
      obtain ⟨r1, _⟩ := big_fun h h'
      subst r1
      simp [Res.isNil] at hn
    | step hl' h' hn' ha' =>
      rw [hl] at hl'; cases hl'
      obtain ⟨r1, r2⟩ := big_fun h h'
      subst r1 r2
      obtain ⟨r3, r4, r5⟩ := big_alts_fun ha ha'
      subst r3 r4 r5
      exact ⟨rfl, rfl, rfl⟩
termination_by structural _ _ _ _ _ _ _ _ _ _ h1 _ => h1

theorem big_alts_fun {cfg : Cfg} : ∀ {sh : SeqShape} {depth : Nat} {nodes alts : List Node}
    {em1 : List Node} {s1 e1 : Bool} {em2 : List Node} {s2 e2 : Bool},
    BigAlts cfg sh depth nodes alts em1 s1 e1 → BigAlts cfg sh depth nodes alts em2 s2 e2 →
    em1 = em2 ∧ s1 = s2 ∧ e1 = e2
  | _, _, _, _, _, _, _, _, _, _, .nil, h2 => by cases h2; exact ⟨rfl, rfl, rfl⟩
  | _, _, _, _, _, _, _, _, _, _, .stop h, h2 => by
    cases h2 with
    | stop h' =>
      obtain ⟨r1, _, r3⟩ := big_seq_fun h h'
      exact ⟨r1, rfl, r3⟩
    | next h' ht' =>
      obtain ⟨_, r2, _⟩ := big_seq_fun h h'
      cases r2
  | _, _, _, _, _, _, _, _, _, _, .next h ht, h2 => by
    cases h2 with
    | stop h' =>
      obtain ⟨_, r2, _⟩ := big_seq_fun h h'
      cases r2
    | next h' ht' =>
      obtain ⟨r1, _, r3⟩ := big_seq_fun h h'
      obtain ⟨r4, r5, r6⟩ := big_alts_fun ht ht'
      subst r1 r3 r4 r5 r6
      exact ⟨rfl, rfl, rfl⟩
termination_by structural _ _ _ _ _ _ _ _ _ _ h1 _ => h1
end

end PV
