/-
  THE CUT ARGUMENT for stratified grammars (property C01, completeness, half B — cf. Proofs/CurtailCover.lean and
  Proofs/CurtailTrees.lean, which this file redoes for `DerivesS` / `DerivesSC` of Spec/Strat.lean).  No `run` here.

  Every end position a derivation `DerivesS` reaches is reached by a CURTAILED derivation `DerivesSC` from the zero
  counters (`derivesSC_of_derivesS_ends`), and every tree whose derivations never nest the same (stratum-1 memo
  index, start, end) twice is curtailed-derivable as it is (`derivesSC_of_derivesS_tree`).

  The walk down a derivation is that of `cut_ends` / `cut_trees`.  The new rule `low` is a LEAF for it: a
  stratum-0 sub-derivation contains no stratum-1 Memoize node, its rule does not look at the counters, so it is
  taken over unchanged.  Only its span is needed (`derivesSN_pos`): an alternative of an exact stratum-0 result
  starts at the call position and ends inside the file (`low_big`).
-/
import ParsleyVerif.Proofs.StratRun
namespace PV.Strat
open PV PV.Text

/-! ### derivations with a size -/

mutual
inductive DerivesSN (cfg : Cfg) (s : Cert) : Nat → G → Nat → Node → Prop
  | low {g pos R e x} : isLowLeaf s g = true → Big cfg g pos R e → x ∈ R.alts → DerivesSN cfg s 1 g pos x
  | term {t pos n} : t.parse cfg.params cfg.file pos = .node n → DerivesSN cfg s 1 (.term t) pos n
  | empty {pos} : DerivesSN cfg s 1 .empty pos (.empty pos)
  | ref {m k g pos x} : s.lowRule k = false → cfg.env[k]? = some g → DerivesSN cfg s m g pos x →
      DerivesSN cfg s (m + 1) (.ref k) pos x
  | memo {m i g pos x} : s.lowIdx i = false → DerivesSN cfg s m g pos x → DerivesSN cfg s (m + 1) (.memo i g) pos x
  | any {m gs g pos x} : g ∈ gs → DerivesSN cfg s m g pos x → DerivesSN cfg s (m + 1) (.any gs) pos x
  | optSome {m g pos x} : DerivesSN cfg s m g pos x → DerivesSN cfg s (m + 1) (.optional g) pos x
  | optNone {g pos} : DerivesSN cfg s 1 (.optional g) pos (.empty pos)
  | seqOf {m gs o sh pos nodes} : (G.seq .seqOf gs o).shape = some sh → DerivesSeqSN cfg s m sh 0 pos nodes →
      sh.lenCheck nodes.length = true → DerivesSN cfg s (m + 1) (.seq .seqOf gs o) pos (handleResult sh pos nodes)
inductive DerivesSeqSN (cfg : Cfg) (s : Cert) : Nat → SeqShape → Nat → Nat → List Node → Prop
  | nil {sh d pos} : DerivesSeqSN cfg s 0 sh d pos []
  | cons {a b sh d pos g n rest} : sh.lookup d = some g → DerivesSN cfg s a g pos n →
      DerivesSeqSN cfg s b sh (d + 1) n.rpos rest → DerivesSeqSN cfg s (a + b + 1) sh d pos (n :: rest)
end

mutual
/-- every derivation has a size -/
theorem derivesSN_of_derivesS {cfg : Cfg} {s : Cert} : ∀ {g : G} {pos : Nat} {x : Node},
    DerivesS cfg s g pos x → ∃ n, DerivesSN cfg s n g pos x
  | _, _, _, .low hl hb hx => ⟨1, .low hl hb hx⟩
  | _, _, _, .term h => ⟨1, .term h⟩
  | _, _, _, .empty => ⟨1, .empty⟩
  | _, _, _, .ref hk he hd => by
    obtain ⟨n, hn⟩ := derivesSN_of_derivesS hd
    exact ⟨n + 1, .ref hk he hn⟩
  | _, _, _, .memo hi hd => by
    obtain ⟨n, hn⟩ := derivesSN_of_derivesS hd
    exact ⟨n + 1, .memo hi hn⟩
  | _, _, _, .any hm hd => by
    obtain ⟨n, hn⟩ := derivesSN_of_derivesS hd
    exact ⟨n + 1, .any hm hn⟩
  | _, _, _, .optSome hd => by
    obtain ⟨n, hn⟩ := derivesSN_of_derivesS hd
    exact ⟨n + 1, .optSome hn⟩
  | _, _, _, .optNone => ⟨1, .optNone⟩
  | _, _, _, .seqOf hs hds hl => by
    obtain ⟨n, hn⟩ := derivesSeqSN_of_derivesSeqS hds
    exact ⟨n + 1, .seqOf hs hn hl⟩
theorem derivesSeqSN_of_derivesSeqS {cfg : Cfg} {s : Cert} : ∀ {sh : SeqShape} {d pos : Nat} {nodes : List Node},
    DerivesSeqS cfg s sh d pos nodes → ∃ n, DerivesSeqSN cfg s n sh d pos nodes
  | _, _, _, _, .nil => ⟨0, .nil⟩
  | _, _, _, _, .cons hl hd hrest => by
    obtain ⟨a, ha⟩ := derivesSN_of_derivesS hd
    obtain ⟨b, hb⟩ := derivesSeqSN_of_derivesSeqS hrest
    exact ⟨a + b + 1, .cons hl ha hb⟩
end

/-- and a sized derivation is a derivation -/
theorem derivesS_of_derivesSN (cfg : Cfg) (s : Cert) : ∀ n,
    (∀ g pos x, DerivesSN cfg s n g pos x → DerivesS cfg s g pos x) ∧
    (∀ sh d pos nodes, DerivesSeqSN cfg s n sh d pos nodes → DerivesSeqS cfg s sh d pos nodes) := by
  intro n
  induction n using Nat.strongRecOn with
  | _ n ih =>
    refine ⟨?_, ?_⟩
    · intro g pos x h
      cases h with
      | low hl hb hx => exact .low hl hb hx
      | term hp => exact .term hp
      | empty => exact .empty
      | ref hk he hd => exact .ref hk he ((ih _ (by omega)).1 _ _ _ hd)
      | memo hi hd => exact .memo hi ((ih _ (by omega)).1 _ _ _ hd)
      | any hm hd => exact .any hm ((ih _ (by omega)).1 _ _ _ hd)
      | optSome hd => exact .optSome ((ih _ (by omega)).1 _ _ _ hd)
      | optNone => exact .optNone
      | seqOf hs hds hl => exact .seqOf hs ((ih _ (by omega)).2 _ _ _ _ hds) hl
    · intro sh d pos nodes h
      cases h with
      | nil => exact .nil
      | cons hl hx hrest => exact .cons hl ((ih _ (by omega)).1 _ _ _ hx) ((ih _ (by omega)).2 _ _ _ _ hrest)

/-! ### positions: a derivation started inside the file ends inside the file, not before its start -/

theorem derivesSN_pos (cfg : Cfg) (s : Cert) (bodyOf : Nat → G) (henv : EnvS cfg s bodyOf) : ∀ n,
    (∀ g pos x, UpS cfg s bodyOf g → InFile cfg.file pos → DerivesSN cfg s n g pos x →
      pos ≤ x.rpos ∧ x.rpos ≤ cfg.hi) ∧
    (∀ sh d pos nodes, (∀ d g', sh.lookup d = some g' → UpS cfg s bodyOf g') → InFile cfg.file pos →
      DerivesSeqSN cfg s n sh d pos nodes → pos ≤ endOf pos nodes ∧ endOf pos nodes ≤ cfg.hi) := by
  intro n
  induction n using Nat.strongRecOn with
  | _ n ih =>
    refine ⟨?_, ?_⟩
    · intro g pos x hg hin h
      have hhi : pos ≤ cfg.hi := hin.2
      cases h with
      | low hl hb hx =>
        obtain ⟨p1, p2, _⟩ := (low_big henv hb (hg.leaf hl).1 hin x hx).inFile hin
        exact ⟨p1, p2⟩
      | term hp =>
        rename_i t
        obtain ⟨hT, _⟩ := hg.term
        obtain ⟨h1, h2⟩ := (hT pos hin).1 _ hp
        have := Node.WF_bounds cfg.hi _ h2
        omega
      | empty => exact ⟨Nat.le_refl _, hhi⟩
      | ref hk he hd => exact (ih _ (by omega)).1 _ _ _ (henv.up _ _ he hk) hin hd
      | memo hi hd => exact (ih _ (by omega)).1 _ _ _ (hg.memo hi).2 hin hd
      | any hm hd => exact (ih _ (by omega)).1 _ _ _ (hg.any _ hm) hin hd
      | optSome hd => exact (ih _ (by omega)).1 _ _ _ hg.optional hin hd
      | optNone => exact ⟨Nat.le_refl _, hhi⟩
      | seqOf hs hds hl =>
        rw [handleResult_rpos]
        exact (ih _ (by omega)).2 _ _ _ _ (hg.seqOf hs).1 hin hds
    · intro sh d pos nodes hg hin h
      cases h with
      | nil => exact ⟨Nat.le_refl _, hin.2⟩
      | cons hl hx hrest =>
        obtain ⟨p1, p2⟩ := (ih _ (by omega)).1 _ _ _ (hg _ _ hl) hin hx
        obtain ⟨q1, q2⟩ := (ih _ (by omega)).2 _ _ _ _ hg (InFile_of_le hin p1 p2) hrest
        rw [endOf_cons]
        omega

/-! ### the cut, end positions -/

/-- a strictly smaller derivation of an enclosing activation's own span -/
def FailS (cfg : Cfg) (s : Cert) (bodyOf : Nat → G) (n pos : Nat) (bound : Nat → Nat) : Prop :=
  ∃ k body n' z, n' ≤ n ∧ UpS cfg s bodyOf (.memo k body) ∧ s.lowIdx k = false ∧
    DerivesSN cfg s n' (.memo k body) pos z ∧ z.rpos = bound k

theorem FailS.mono {cfg : Cfg} {s : Cert} {bodyOf : Nat → G} {n m pos : Nat} {bound : Nat → Nat}
    (h : FailS cfg s bodyOf n pos bound) (hnm : n ≤ m) : FailS cfg s bodyOf m pos bound := by
  obtain ⟨k, body, n', z, h1, h2, h3, h4, h5⟩ := h
  exact ⟨k, body, n', z, by omega, h2, h3, h4, h5⟩

theorem cut_endsS (cfg : Cfg) (s : Cert) (bodyOf : Nat → G) (henv : EnvS cfg s bodyOf) : ∀ n,
    (∀ g pos x (c bound : Nat → Nat), UpS cfg s bodyOf g → InFile cfg.file pos → DerivesSN cfg s n g pos x →
      (∀ k, c k + bound k ≤ cfg.hi + 1) → (∀ k, x.rpos ≤ bound k) →
      (∃ y, DerivesSC cfg s c g pos y ∧ y.rpos = x.rpos) ∨ FailS cfg s bodyOf n pos bound) ∧
    (∀ sh d pos nodes (c bound : Nat → Nat), (∀ d g', sh.lookup d = some g' → UpS cfg s bodyOf g') →
      InFile cfg.file pos → DerivesSeqSN cfg s n sh d pos nodes →
      (∀ k, c k + bound k ≤ cfg.hi + 1) → (∀ k, endOf pos nodes ≤ bound k) →
      (∃ nodes', DerivesSeqSC cfg s c sh d pos nodes' ∧ nodes'.length = nodes.length ∧
        endOf pos nodes' = endOf pos nodes) ∨ FailS cfg s bodyOf n pos bound) := by
  have hpos := derivesSN_pos cfg s bodyOf henv
  intro n
  induction n using Nat.strongRecOn with
  | _ n ih =>
    refine ⟨?_, ?_⟩
    · intro g pos x c bound hg hin h hinv hend
      cases h with
      | low hl hb hx => exact .inl ⟨_, .low hl hb hx, rfl⟩
      | term hp => exact .inl ⟨_, .term hp, rfl⟩
      | empty => exact .inl ⟨_, .empty, rfl⟩
      | optNone => exact .inl ⟨_, .optNone, rfl⟩
      | ref hk he hd =>
        cases (ih _ (by omega)).1 _ _ _ c bound (henv.up _ _ he hk) hin hd hinv hend with
        | inl h1 => obtain ⟨y, hy, hey⟩ := h1; exact .inl ⟨y, .ref hk he hy, hey⟩
        | inr h1 => exact .inr (h1.mono (by omega))
      | any hm hd =>
        cases (ih _ (by omega)).1 _ _ _ c bound (hg.any _ hm) hin hd hinv hend with
        | inl h1 => obtain ⟨y, hy, hey⟩ := h1; exact .inl ⟨y, .any hm hy, hey⟩
        | inr h1 => exact .inr (h1.mono (by omega))
      | optSome hd =>
        cases (ih _ (by omega)).1 _ _ _ c bound hg.optional hin hd hinv hend with
        | inl h1 => obtain ⟨y, hy, hey⟩ := h1; exact .inl ⟨y, .optSome hy, hey⟩
        | inr h1 => exact .inr (h1.mono (by omega))
      | seqOf hs hds hl =>
        rw [handleResult_rpos] at hend
        cases (ih _ (by omega)).2 _ _ _ _ c bound (hg.seqOf hs).1 hin hds hinv hend with
        | inl h1 =>
          obtain ⟨nodes', h2, h3, h4⟩ := h1
          refine .inl ⟨handleResult _ pos nodes', .seqOf hs h2 (by rw [h3]; exact hl), ?_⟩
          rw [handleResult_rpos, handleResult_rpos, h4]
        | inr h1 => exact .inr (h1.mono (by omega))
      | memo hi hd =>
        rename_i m i body
        obtain ⟨hb, hgb⟩ := hg.memo hi
        obtain ⟨p1, p2⟩ := (hpos _).1 _ _ _ hgb hin hd
        by_cases hlt : x.rpos < bound i
        · -- a strictly shorter nested activation: enter the body
          have hguard : c i ≤ remaining cfg.file pos + Facts.curtailSlack := by
            rw [remaining_eq hin]
            have := hinv i
            omega
          cases (ih _ (by omega)).1 _ _ _ (bump c i) (setB bound i x.rpos) hgb hin hd
              (by
                intro k
                by_cases hk : k = i
                · subst hk; simp only [bump, setB, ↓reduceIte]; have := hinv k; omega
                · simp only [bump, setB, hk, ↓reduceIte]; exact hinv k)
              (by
                intro k
                by_cases hk : k = i
                · subst hk; simp only [setB, ↓reduceIte]; exact Nat.le_refl _
                · simp only [setB, hk, ↓reduceIte]; exact hend k) with
          | inl h1 => obtain ⟨y, hy, hey⟩ := h1; exact .inl ⟨y, .memo hi hguard hy, hey⟩
          | inr h1 =>
            obtain ⟨k, body', n', z, f1, f2, f2', f3, f4⟩ := h1
            by_cases hk : k = i
            · -- the failure is ours: restart with the smaller derivation of our own span
              subst hk
              simp only [setB, ↓reduceIte] at f4
              have hb' := (f2.memo f2').1
              cases (ih n' (by omega)).1 _ _ _ c bound f2 hin f3 hinv (by intro k'; rw [f4]; exact hend k') with
              | inl h2 =>
                obtain ⟨y, hy, hey⟩ := h2
                refine .inl ⟨y, ?_, by rw [hey, f4]⟩
                rw [hb, ← hb']; exact hy
              | inr h2 => exact .inr (h2.mono (by omega))
            · simp only [setB, hk, ↓reduceIte] at f4
              exact .inr ⟨k, body', n', z, by omega, f2, f2', f3, f4⟩
        · -- same end as the enclosing activation of `i`: report this derivation to it
          have : x.rpos = bound i := by have := hend i; omega
          exact .inr ⟨i, body, m + 1, x, Nat.le_refl _, hg, hi, .memo hi hd, this⟩
    · intro sh d pos nodes c bound hg hin h hinv hend
      cases h with
      | nil => exact .inl ⟨[], .nil, rfl, rfl⟩
      | cons hl hx hrest =>
        rename_i a b g' x rest
        obtain ⟨p1, p2⟩ := (hpos _).1 _ _ _ (hg _ _ hl) hin hx
        have hin' : InFile cfg.file x.rpos := InFile_of_le hin p1 p2
        obtain ⟨q1, q2⟩ := (hpos _).2 _ _ _ _ hg hin' hrest
        rw [endOf_cons] at hend
        cases (ih a (by omega)).1 _ _ _ c bound (hg _ _ hl) hin hx hinv (fun k => by have := hend k; omega) with
        | inr h1 => exact .inr (h1.mono (by omega))
        | inl h1 =>
          obtain ⟨y, hy, hey⟩ := h1
          by_cases hc : x.rpos > pos
          · -- input consumed: the rest starts afresh; a failure there would end beyond the file
            cases (ih b (by omega)).2 _ _ _ _ zeroC (topB cfg) hg hin' hrest
                (by intro k; simp [zeroC, topB]) (by intro k; simp only [topB]; omega) with
            | inl h2 =>
              obtain ⟨rest', r1, r2, r3⟩ := h2
              refine .inl ⟨y :: rest', .cons hl hy ?_, by simp [r2], ?_⟩
              · rw [hey]; simp only [hc, ↓reduceIte]; exact r1
              · rw [endOf_cons, endOf_cons, hey]; exact r3
            | inr h2 =>
              obtain ⟨k, body', n', z, _, f2, _, f3, f4⟩ := h2
              have := ((hpos _).1 _ _ _ f2 hin' f3).2
              simp only [topB] at f4
              omega
          · have hxe : x.rpos = pos := by omega
            cases (ih b (by omega)).2 _ _ _ _ c bound hg hin' hrest hinv hend with
            | inl h2 =>
              obtain ⟨rest', r1, r2, r3⟩ := h2
              refine .inl ⟨y :: rest', .cons hl hy ?_, by simp [r2], ?_⟩
              · rw [hey]; simp only [hc, ↓reduceIte]; exact r1
              · rw [endOf_cons, endOf_cons, hey]; exact r3
            | inr h2 =>
              rw [hxe] at h2
              exact .inr (h2.mono (by omega))

/-- **(B), ends.**  Every end position that a derivation of a stratified grammar reaches is reached by a
    curtailed derivation from the empty left-recursion context. -/
theorem derivesSC_of_derivesS_ends (cfg : Cfg) (s : Cert) (bodyOf : Nat → G) (henv : EnvS cfg s bodyOf)
    (g : G) (hg : UpS cfg s bodyOf g) (pos : Nat) (hin : InFile cfg.file pos) (x : Node)
    (h : DerivesS cfg s g pos x) : ∃ y, DerivesSC cfg s zeroC g pos y ∧ y.rpos = x.rpos := by
  obtain ⟨n, hn⟩ := derivesSN_of_derivesS h
  have hp := (derivesSN_pos cfg s bodyOf henv n).1 _ _ _ hg hin hn
  cases (cut_endsS cfg s bodyOf henv n).1 g pos x zeroC (topB cfg) hg hin hn
      (by intro k; simp [zeroC, topB]) (by intro k; simp only [topB]; omega) with
  | inl h1 => exact h1
  | inr h1 =>
    obtain ⟨k, body', n', z, _, f2, _, f3, f4⟩ := h1
    have := ((derivesSN_pos cfg s bodyOf henv _).1 _ _ _ f2 hin f3).2
    simp only [topB] at f4
    omega

/-! ### the cut, trees -/

mutual
/-- the tree `x` has a derivation from `g` at `pos` in which — on the part of it that still starts at `pos` — a
    stratum-1 `memo k` node spans `pos … e`.  A low leaf contains no such node. -/
inductive ContainsS (cfg : Cfg) (s : Cert) (k e : Nat) : G → Nat → Node → Prop
  | here {body pos x} : s.lowIdx k = false → DerivesS cfg s (.memo k body) pos x → x.rpos = e →
      ContainsS cfg s k e (.memo k body) pos x
  | ref {r g pos x} : s.lowRule r = false → cfg.env[r]? = some g → ContainsS cfg s k e g pos x →
      ContainsS cfg s k e (.ref r) pos x
  | memo {i g pos x} : s.lowIdx i = false → ContainsS cfg s k e g pos x → ContainsS cfg s k e (.memo i g) pos x
  | any {gs g pos x} : g ∈ gs → ContainsS cfg s k e g pos x → ContainsS cfg s k e (.any gs) pos x
  | optSome {g pos x} : ContainsS cfg s k e g pos x → ContainsS cfg s k e (.optional g) pos x
  | seqOf {gs o sh pos nodes} : (G.seq .seqOf gs o).shape = some sh → ContainsSeqS cfg s k e sh 0 pos nodes →
      sh.lenCheck nodes.length = true → ContainsS cfg s k e (.seq .seqOf gs o) pos (handleResult sh pos nodes)
inductive ContainsSeqS (cfg : Cfg) (s : Cert) (k e : Nat) : SeqShape → Nat → Nat → List Node → Prop
  | head {sh d pos g n rest} : sh.lookup d = some g → ContainsS cfg s k e g pos n →
      DerivesSeqS cfg s sh (d + 1) n.rpos rest → ContainsSeqS cfg s k e sh d pos (n :: rest)
  | tail {sh d pos g n rest} : sh.lookup d = some g → DerivesS cfg s g pos n → n.rpos = pos →
      ContainsSeqS cfg s k e sh (d + 1) n.rpos rest → ContainsSeqS cfg s k e sh d pos (n :: rest)
end

/-- the same (stratum-1 memo index, start, end) is never nested in itself -/
def AcyclicS (cfg : Cfg) (s : Cert) (bodyOf : Nat → G) : Prop :=
  ∀ k pos x, s.lowIdx k = false → InFile cfg.file pos → ¬ ContainsS cfg s k x.rpos (bodyOf k) pos x

theorem derivesS_pos (cfg : Cfg) (s : Cert) (bodyOf : Nat → G) (henv : EnvS cfg s bodyOf) {g : G} {pos : Nat} {x : Node}
    (h : DerivesS cfg s g pos x) (hg : UpS cfg s bodyOf g) (hin : InFile cfg.file pos) :
    pos ≤ x.rpos ∧ x.rpos ≤ cfg.hi := by
  obtain ⟨n, hn⟩ := derivesSN_of_derivesS h
  exact (derivesSN_pos cfg s bodyOf henv n).1 _ _ _ hg hin hn

theorem derivesSeqS_pos (cfg : Cfg) (s : Cert) (bodyOf : Nat → G) (henv : EnvS cfg s bodyOf) {sh : SeqShape}
    {d pos : Nat} {nodes : List Node} (h : DerivesSeqS cfg s sh d pos nodes)
    (hg : ∀ d g', sh.lookup d = some g' → UpS cfg s bodyOf g') (hin : InFile cfg.file pos) :
    pos ≤ endOf pos nodes ∧ endOf pos nodes ≤ cfg.hi := by
  obtain ⟨n, hn⟩ := derivesSeqSN_of_derivesSeqS h
  exact (derivesSN_pos cfg s bodyOf henv n).2 _ _ _ _ hg hin hn

mutual
/-- the contained node ends no later than the tree that contains it -/
theorem containsS_end_le {cfg : Cfg} {s : Cert} {bodyOf : Nat → G} (henv : EnvS cfg s bodyOf) {k e : Nat} :
    ∀ {g : G} {pos : Nat} {x : Node}, ContainsS cfg s k e g pos x → UpS cfg s bodyOf g → InFile cfg.file pos →
      e ≤ x.rpos ∧ pos ≤ x.rpos ∧ x.rpos ≤ cfg.hi
  | _, _, _, .here _ hd he, hg, hin => by
    have := derivesS_pos cfg s bodyOf henv hd hg hin
    omega
  | _, _, _, .ref hr hk hc, _, hin => containsS_end_le henv hc (henv.up _ _ hk hr) hin
  | _, _, _, .memo hi hc, hg, hin => containsS_end_le henv hc (hg.memo hi).2 hin
  | _, _, _, .any hm hc, hg, hin => containsS_end_le henv hc (hg.any _ hm) hin
  | _, _, _, .optSome hc, hg, hin => containsS_end_le henv hc hg.optional hin
  | _, _, _, .seqOf hs hc _, hg, hin => by
    obtain ⟨i1, i2, i3⟩ := containsSeqS_end_le henv hc (hg.seqOf hs).1 hin
    rw [handleResult_rpos]
    exact ⟨i1, i2, i3⟩
theorem containsSeqS_end_le {cfg : Cfg} {s : Cert} {bodyOf : Nat → G} (henv : EnvS cfg s bodyOf) {k e : Nat} :
    ∀ {sh : SeqShape} {d pos : Nat} {nodes : List Node}, ContainsSeqS cfg s k e sh d pos nodes →
      (∀ d g', sh.lookup d = some g' → UpS cfg s bodyOf g') → InFile cfg.file pos →
      e ≤ endOf pos nodes ∧ pos ≤ endOf pos nodes ∧ endOf pos nodes ≤ cfg.hi
  | _, _, _, _, .head hl hc hds, hg, hin => by
    obtain ⟨i1, i2, i3⟩ := containsS_end_le henv hc (hg _ _ hl) hin
    have := derivesSeqS_pos cfg s bodyOf henv hds hg (InFile_of_le hin i2 i3)
    rw [endOf_cons]
    omega
  | _, _, _, _, .tail hl _ hz hc, hg, hin => by
    rw [endOf_cons]
    have := containsSeqS_end_le henv hc hg (by rw [hz]; exact hin)
    omega
end

theorem cut_treesS (cfg : Cfg) (s : Cert) (bodyOf : Nat → G) (henv : EnvS cfg s bodyOf)
    (hac : AcyclicS cfg s bodyOf) : ∀ n,
    (∀ g pos x (c bound : Nat → Nat), UpS cfg s bodyOf g → InFile cfg.file pos → DerivesSN cfg s n g pos x →
      (∀ k, c k + bound k ≤ cfg.hi + 1) → (∀ k, x.rpos ≤ bound k) →
      DerivesSC cfg s c g pos x ∨ ∃ k, bound k ≤ cfg.hi ∧ ContainsS cfg s k (bound k) g pos x) ∧
    (∀ sh d pos nodes (c bound : Nat → Nat), (∀ d g', sh.lookup d = some g' → UpS cfg s bodyOf g') →
      InFile cfg.file pos → DerivesSeqSN cfg s n sh d pos nodes →
      (∀ k, c k + bound k ≤ cfg.hi + 1) → (∀ k, endOf pos nodes ≤ bound k) →
      DerivesSeqSC cfg s c sh d pos nodes ∨ ∃ k, bound k ≤ cfg.hi ∧ ContainsSeqS cfg s k (bound k) sh d pos nodes) := by
  have hpos := derivesSN_pos cfg s bodyOf henv
  intro n
  induction n using Nat.strongRecOn with
  | _ n ih =>
    refine ⟨?_, ?_⟩
    · intro g pos x c bound hg hin h hinv hend
      cases h with
      | low hl hb hx => exact .inl (.low hl hb hx)
      | term hp => exact .inl (.term hp)
      | empty => exact .inl .empty
      | optNone => exact .inl .optNone
      | ref hk he hd =>
        cases (ih _ (by omega)).1 _ _ _ c bound (henv.up _ _ he hk) hin hd hinv hend with
        | inl h1 => exact .inl (.ref hk he h1)
        | inr h1 => obtain ⟨k, h2, h3⟩ := h1; exact .inr ⟨k, h2, .ref hk he h3⟩
      | any hm hd =>
        cases (ih _ (by omega)).1 _ _ _ c bound (hg.any _ hm) hin hd hinv hend with
        | inl h1 => exact .inl (.any hm h1)
        | inr h1 => obtain ⟨k, h2, h3⟩ := h1; exact .inr ⟨k, h2, .any hm h3⟩
      | optSome hd =>
        cases (ih _ (by omega)).1 _ _ _ c bound hg.optional hin hd hinv hend with
        | inl h1 => exact .inl (.optSome h1)
        | inr h1 => obtain ⟨k, h2, h3⟩ := h1; exact .inr ⟨k, h2, .optSome h3⟩
      | seqOf hs hds hl =>
        rw [handleResult_rpos] at hend
        cases (ih _ (by omega)).2 _ _ _ _ c bound (hg.seqOf hs).1 hin hds hinv hend with
        | inl h1 => exact .inl (.seqOf hs h1 hl)
        | inr h1 => obtain ⟨k, h2, h3⟩ := h1; exact .inr ⟨k, h2, .seqOf hs h3 hl⟩
      | memo hi hd =>
        rename_i m i body
        obtain ⟨hb, hgb⟩ := hg.memo hi
        obtain ⟨p1, p2⟩ := (hpos _).1 _ _ _ hgb hin hd
        by_cases hlt : x.rpos < bound i
        · have hguard : c i ≤ remaining cfg.file pos + Facts.curtailSlack := by
            rw [remaining_eq hin]
            have := hinv i
            omega
          cases (ih _ (by omega)).1 _ _ _ (bump c i) (setB bound i x.rpos) hgb hin hd
              (by
                intro k
                by_cases hk : k = i
                · subst hk; simp only [bump, setB, ↓reduceIte]; have := hinv k; omega
                · simp only [bump, setB, hk, ↓reduceIte]; exact hinv k)
              (by
                intro k
                by_cases hk : k = i
                · subst hk; simp only [setB, ↓reduceIte]; exact Nat.le_refl _
                · simp only [setB, hk, ↓reduceIte]; exact hend k) with
          | inl h1 => exact .inl (.memo hi hguard h1)
          | inr h1 =>
            obtain ⟨k, f1, f2⟩ := h1
            by_cases hk : k = i
            · -- the body would contain `memo i` with our own span: excluded by acyclicity
              subst hk
              simp only [setB, ↓reduceIte] at f2
              rw [hb] at f2
              exact absurd f2 (hac k pos x hi hin)
            · simp only [setB, hk, ↓reduceIte] at f1 f2
              exact .inr ⟨k, f1, .memo hi f2⟩
        · have he : x.rpos = bound i := by have := hend i; omega
          refine .inr ⟨i, by omega, .here hi ((derivesS_of_derivesSN cfg s _).1 _ _ _ (.memo hi hd)) he⟩
    · intro sh d pos nodes c bound hg hin h hinv hend
      cases h with
      | nil => exact .inl .nil
      | cons hl hx hrest =>
        rename_i a b g' x rest
        obtain ⟨p1, p2⟩ := (hpos _).1 _ _ _ (hg _ _ hl) hin hx
        have hin' : InFile cfg.file x.rpos := InFile_of_le hin p1 p2
        obtain ⟨q1, q2⟩ := (hpos _).2 _ _ _ _ hg hin' hrest
        rw [endOf_cons] at hend
        cases (ih a (by omega)).1 _ _ _ c bound (hg _ _ hl) hin hx hinv (fun k => by have := hend k; omega) with
        | inr h1 =>
          obtain ⟨k, h2, h3⟩ := h1
          exact .inr ⟨k, h2, .head hl h3 ((derivesS_of_derivesSN cfg s _).2 _ _ _ _ hrest)⟩
        | inl hy =>
          by_cases hc : x.rpos > pos
          · cases (ih b (by omega)).2 _ _ _ _ zeroC (topB cfg) hg hin' hrest
                (by intro k; simp [zeroC, topB]) (by intro k; simp only [topB]; omega) with
            | inl r1 =>
              refine .inl (.cons hl hy ?_)
              simp only [hc, ↓reduceIte]; exact r1
            | inr h2 =>
              obtain ⟨k, f1, _⟩ := h2
              simp only [topB] at f1
              omega
          · have hxe : x.rpos = pos := by omega
            cases (ih b (by omega)).2 _ _ _ _ c bound hg hin' hrest hinv hend with
            | inl r1 =>
              refine .inl (.cons hl hy ?_)
              simp only [hc, ↓reduceIte]; exact r1
            | inr h2 =>
              obtain ⟨k, f1, f2⟩ := h2
              exact .inr ⟨k, f1, .tail hl ((derivesS_of_derivesSN cfg s _).1 _ _ _ hx) hxe f2⟩

/-- **(B), trees.**  In an acyclic stratified grammar every derivation is a curtailed derivation from the empty
    left-recursion context — the same tree. -/
theorem derivesSC_of_derivesS_tree (cfg : Cfg) (s : Cert) (bodyOf : Nat → G) (henv : EnvS cfg s bodyOf)
    (hac : AcyclicS cfg s bodyOf) (g : G) (hg : UpS cfg s bodyOf g) (pos : Nat) (hin : InFile cfg.file pos)
    (x : Node) (h : DerivesS cfg s g pos x) : DerivesSC cfg s zeroC g pos x := by
  obtain ⟨n, hn⟩ := derivesSN_of_derivesS h
  have hp := (derivesSN_pos cfg s bodyOf henv n).1 _ _ _ hg hin hn
  cases (cut_treesS cfg s bodyOf henv hac n).1 g pos x zeroC (topB cfg) hg hin hn
      (by intro k; simp [zeroC, topB]) (by intro k; simp only [topB]; omega) with
  | inl h1 => exact h1
  | inr h1 =>
    obtain ⟨k, f1, _⟩ := h1
    simp only [topB] at f1
    omega

end PV.Strat
