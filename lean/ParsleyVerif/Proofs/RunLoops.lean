/-
  Generic reasoning principles for the loops of the parser core (`anyLoop`, `choiceLoop`, `seqParse` /
  `seqAlts`), parametric in the function `r` that runs a sub-parser.  Every invariant proof over `run`
  (by induction on fuel) instantiates these with `r := run cfg fuel` and the induction hypothesis.
-/
import ParsleyVerif.Model.Run
namespace PV

/-! ### Any -/
theorem anyLoop_ind (r : RunFn) (ctx : Ctx) (pos : Nat) (A : AltSt → St → Prop) :
    ∀ (gs : List G),
      (∀ g ∈ gs, ∀ a st o st', A a st → r g ctx pos st.regCall = some (o, st') →
          A (altErr pos { a with cp := cpUnion a.cp o.cp, res := appendNode a.res o.res } o.err) st') →
      ∀ a st a' st', A a st → anyLoop r ctx pos gs a st = some (a', st') → A a' st' := by
  intro gs
  induction gs with
  | nil =>
    intro _ a st a' st' hA h
    simp only [anyLoop] at h
    cases h; exact hA
  | cons g gs ih =>
    intro step a st a' st' hA h
    simp only [anyLoop] at h
    split at h
    · cases h
    · rename_i o st1 hr
      exact ih (fun g' hg' => step g' (List.mem_cons_of_mem _ hg')) _ _ _ _
        (step g (List.mem_cons_self ..) a st o st1 hA hr) h

/-! ### Choice -/
theorem choiceLoop_ind (r : RunFn) (ctx : Ctx) (pos : Nat) (A : AltSt → St → Prop)
    (Fin : Option Out → AltSt → St → Prop) :
    ∀ (gs : List G),
      (∀ a st, A a st → Fin none a st) →
      (∀ g ∈ gs, ∀ a st o st', A a st → r g ctx pos st.regCall = some (o, st') →
          (o.res.isNil = false →
            Fin (some ⟨o.res, (altErr pos { a with cp := cpUnion a.cp o.cp } o.err).cp, none⟩)
              (altErr pos { a with cp := cpUnion a.cp o.cp } o.err)
              (st'.setError (altErr pos { a with cp := cpUnion a.cp o.cp } o.err).err)) ∧
          (o.res.isNil = true → A (altErr pos { a with cp := cpUnion a.cp o.cp } o.err) st')) →
      ∀ a st out a' st', A a st → choiceLoop r ctx pos gs a st = some (out, a', st') → Fin out a' st' := by
  intro gs
  induction gs with
  | nil =>
    intro hnil _ a st out a' st' hA h
    simp only [choiceLoop] at h
    cases h; exact hnil _ _ hA
  | cons g gs ih =>
    intro hnil step a st out a' st' hA h
    simp only [choiceLoop] at h
    split at h
    · cases h
    · rename_i o st1 hr
      have hs := step g (List.mem_cons_self ..) a st o st1 hA hr
      by_cases hn : o.res.isNil = true
      · simp only [hn, Bool.not_true, Bool.false_eq_true, ↓reduceIte] at h
        exact ih hnil (fun g' hg' => step g' (List.mem_cons_of_mem _ hg')) _ _ _ _ _ (hs.2 hn) h
      · have hn' : o.res.isNil = false := by simpa using hn
        simp only [hn', Bool.not_false, ↓reduceIte] at h
        cases h
        exact hs.1 hn'

/-! ### Sequence -/

/-- the arguments of `seqParse` that stay fixed while the alternatives of one element are tried -/
structure Frame where
  depth : Nat
  nodes : List Node
  ctx : Ctx
  pos : Nat
  merge : Bool

/-- the frame `parseNext` continues with after element `depth` produced node `n` -/
def Frame.next (fr : Frame) (n : Node) : Frame :=
  { depth := fr.depth + 1, nodes := fr.nodes ++ [n],
    ctx := if n.rpos > fr.pos then [] else fr.ctx, pos := n.rpos,
    merge := fr.merge && !(n.rpos > fr.pos) }

/-- the state of the `sequence` object after element `depth` answered `o` -/
def seqAfter (merge : Bool) (ss : SeqSt) (o : Out) : SeqSt :=
  let ss := { ss with err := pickErr ss.err o.err }
  if merge then { ss with cp := cpUnion ss.cp o.cp } else ss

/-- what is emitted when element `depth` is missing or failed and `lenCheck depth` holds -/
def seqEmit (sh : SeqShape) (fr : Frame) (ss : SeqSt) : SeqSt :=
  { ss with result := appendNode ss.result (.one (handleResult sh fr.pos (if fr.depth > 0 then fr.nodes else []))) }

theorem seqAlts_ind (k : Node → SeqSt → St → Option (Bool × SeqSt × St))
    (E : SeqSt → St → SeqSt → St → Prop)
    (Erefl : ∀ ss st, E ss st ss st)
    (Etrans : ∀ a b c d e f, E a b c d → E c d e f → E a b e f)
    (P : Node → SeqSt → St → Prop)
    (Pstable : ∀ n ss st ss' st', P n ss st → E ss st ss' st' → P n ss' st') :
    ∀ (l : List Node),
      (∀ n ∈ l, ∀ ss st b ss' st', P n ss st → k n ss st = some (b, ss', st') → E ss st ss' st') →
      ∀ ss st b ss' st', (∀ n ∈ l, P n ss st) → seqAlts k l ss st = some (b, ss', st') → E ss st ss' st' := by
  intro l
  induction l with
  | nil =>
    intro _ ss st b ss' st' _ h
    simp only [seqAlts] at h
    cases h; exact Erefl _ _
  | cons n rest ih =>
    intro hk ss st b ss' st' hP h
    simp only [seqAlts] at h
    split at h
    · cases h
    · rename_i ss1 st1 hk1
      cases h
      exact hk n (List.mem_cons_self ..) _ _ _ _ _ (hP n (List.mem_cons_self ..)) hk1
    · rename_i ss1 st1 hk1
      have e1 := hk n (List.mem_cons_self ..) _ _ _ _ _ (hP n (List.mem_cons_self ..)) hk1
      have e2 := ih (fun n' hn' => hk n' (List.mem_cons_of_mem _ hn')) ss1 st1 b ss' st'
        (fun n' hn' => Pstable _ _ _ _ _ (hP n' (List.mem_cons_of_mem _ hn')) e1) h
      exact Etrans _ _ _ _ _ _ e1 e2

/-- Invariant principle for `seqParse`.
    `J fr ss st` is what holds when `parse(depth, …)` is entered; `E` is how the sequence object and the
    context state may evolve (reflexive, transitive); `J` must be stable under `E`.  The user shows, for
    the call of element `depth`, that the evolution is allowed, that every alternative it returned gives a
    good next frame, and that the emission (when it returned nil and `lenCheck` holds) is allowed. -/
theorem seqParse_ind (r : RunFn) (sh : SeqShape)
    (J : Frame → SeqSt → St → Prop)
    (E : SeqSt → St → SeqSt → St → Prop)
    (Erefl : ∀ ss st, E ss st ss st)
    (Etrans : ∀ a b c d e f, E a b c d → E c d e f → E a b e f)
    (Jstable : ∀ fr ss st ss' st', J fr ss st → E ss st ss' st' → J fr ss' st')
    (hcall : ∀ fr ss st g o st1, J fr ss st → fr.depth = fr.nodes.length → sh.lookup fr.depth = some g →
        r g fr.ctx fr.pos st.regCall = some (o, st1) →
        E ss st (seqAfter fr.merge ss o) st1 ∧
        (∀ n ∈ o.res.alts, J (fr.next n) (seqAfter fr.merge ss o) st1) ∧
        (o.res.isNil = true → sh.lenCheck fr.depth = true →
          E ss st (seqEmit sh fr (seqAfter fr.merge ss o)) st1))
    (hnone : ∀ fr ss st, J fr ss st → fr.depth = fr.nodes.length → sh.lookup fr.depth = none →
        sh.lenCheck fr.depth = true →
        E ss st (seqEmit sh fr (seqAfter fr.merge ss ⟨.nil, [], none⟩)) st) :
    ∀ (fuel : Nat) (fr : Frame) ss st b ss' st', J fr ss st → fr.depth = fr.nodes.length →
      seqParse r sh fuel fr.depth fr.nodes fr.ctx fr.pos fr.merge ss st = some (b, ss', st') →
      E ss st ss' st' := by
  intro fuel
  induction fuel with
  | zero => intro fr ss st b ss' st' _ _ h; simp [seqParse] at h
  | succ fuel ih =>
    intro fr ss st b ss' st' hJ hd h
    simp only [seqParse] at h
    -- the call of element `depth`
    cases hl : sh.lookup fr.depth with
    | none =>
      simp only [hl] at h
      have hE := hnone fr ss st hJ hd hl
      -- o = ⟨nil, [], none⟩
      by_cases hlc : sh.lenCheck fr.depth = true
      · simp only [hlc, ↓reduceIte] at h
        have hE := hE hlc
        by_cases hdp : fr.depth > 0
        · simp only [hdp, ↓reduceIte] at h
          cases h
          simpa [seqEmit, seqAfter, hdp] using hE
        · simp only [hdp, ↓reduceIte] at h
          cases h
          simpa [seqEmit, seqAfter, hdp] using hE
      · simp only [hlc] at h
        have : sh.lenCheck fr.depth = false := by simpa using hlc
        simp only [Bool.false_eq_true, ↓reduceIte] at h
        cases h
        -- no emission: the only change is `pickErr ss.err none` / `cpUnion ss.cp []`
        have e1 : pickErr ss.err none = ss.err := by simp [pickErr]
        by_cases hm : fr.merge = true
        · have e2 : cpUnion ss.cp [] = ss.cp := by cases hc : ss.cp <;> simp [cpUnion]
          simp only [hm, ↓reduceIte, e1, e2]
          exact Erefl _ _
        · simp only [hm, e1]
          exact Erefl _ _
    | some g =>
      simp only [hl] at h
      split at h
      · cases h
      · rename_i o st1 hr
        obtain ⟨hE1, hnext, hemit⟩ := hcall fr ss st g o st1 hJ hd hl hr
        have hss : (if fr.merge = true then
              { cp := cpUnion ss.cp o.cp, result := ss.result, err := pickErr ss.err o.err : SeqSt }
            else { cp := ss.cp, result := ss.result, err := pickErr ss.err o.err }) = seqAfter fr.merge ss o := by
          unfold seqAfter
          by_cases hm : fr.merge = true <;> simp [hm]
        split at h
        · -- o.res = nil
          rename_i hnil
          have hnil' : o.res.isNil = true := by rw [hnil]; rfl
          by_cases hlc : sh.lenCheck fr.depth = true
          · simp only [hlc, ↓reduceIte] at h
            have hE := hemit hnil' hlc
            by_cases hdp : fr.depth > 0
            · simp only [hdp, ↓reduceIte] at h
              cases h
              rw [← hss] at hE
              simpa [seqEmit, hdp] using hE
            · simp only [hdp, ↓reduceIte] at h
              cases h
              rw [← hss] at hE
              simpa [seqEmit, hdp] using hE
          · have : sh.lenCheck fr.depth = false := by simpa using hlc
            simp only [this, Bool.false_eq_true, ↓reduceIte] at h
            cases h
            rw [hss]; exact hE1
        · -- alternatives
          rename_i hnn
          rw [hss] at h
          refine Etrans _ _ _ _ _ _ hE1 ?_
          refine seqAlts_ind _ E Erefl Etrans (fun n ss st => J (fr.next n) ss st)
            (fun n ss st ss' st' hP hE => Jstable _ _ _ _ _ hP hE) o.res.alts ?_ _ _ b ss' st' hnext h
          intro n _ ss2 st2 b2 ss3 st3 hJ2 hk
          have := ih (fr.next n) ss2 st2 b2 ss3 st3 hJ2 (by simp [Frame.next, hd])
          apply this
          simpa [Frame.next] using hk

/-! ### monotonicity in the sub-parser runner (used for fuel monotonicity) -/

def RunLe (r1 r2 : RunFn) : Prop := ∀ g ctx pos st x, r1 g ctx pos st = some x → r2 g ctx pos st = some x

theorem anyLoop_mono {r1 r2 : RunFn} (h12 : RunLe r1 r2) (ctx : Ctx) (pos : Nat) :
    ∀ gs a st x, anyLoop r1 ctx pos gs a st = some x → anyLoop r2 ctx pos gs a st = some x := by
  intro gs
  induction gs with
  | nil => intro a st x h; simpa [anyLoop] using h
  | cons g gs ih =>
    intro a st x h
    simp only [anyLoop] at h ⊢
    split at h
    · cases h
    · rename_i o st1 hr
      rw [h12 _ _ _ _ _ hr]
      exact ih _ _ _ h

theorem choiceLoop_mono {r1 r2 : RunFn} (h12 : RunLe r1 r2) (ctx : Ctx) (pos : Nat) :
    ∀ gs a st x, choiceLoop r1 ctx pos gs a st = some x → choiceLoop r2 ctx pos gs a st = some x := by
  intro gs
  induction gs with
  | nil => intro a st x h; simpa [choiceLoop] using h
  | cons g gs ih =>
    intro a st x h
    simp only [choiceLoop] at h ⊢
    split at h
    · cases h
    · rename_i o st1 hr
      rw [h12 _ _ _ _ _ hr]
      simp only
      by_cases hn : o.res.isNil = true
      · simp only [hn, Bool.not_true, Bool.false_eq_true, ↓reduceIte] at h ⊢
        exact ih _ _ _ h
      · have hn' : o.res.isNil = false := by simpa using hn
        simp only [hn', Bool.not_false, ↓reduceIte] at h ⊢
        exact h

theorem seqAlts_mono (k1 k2 : Node → SeqSt → St → Option (Bool × SeqSt × St))
    (hk : ∀ n ss st x, k1 n ss st = some x → k2 n ss st = some x) :
    ∀ l ss st x, seqAlts k1 l ss st = some x → seqAlts k2 l ss st = some x := by
  intro l
  induction l with
  | nil => intro ss st x h; simpa [seqAlts] using h
  | cons n rest ih =>
    intro ss st x h
    simp only [seqAlts] at h ⊢
    split at h
    · cases h
    · rename_i ss1 st1 hk1
      rw [hk _ _ _ _ hk1]; simpa using h
    · rename_i ss1 st1 hk1
      rw [hk _ _ _ _ hk1]
      exact ih _ _ _ h

theorem seqParse_mono {r1 r2 : RunFn} (h12 : RunLe r1 r2) (sh : SeqShape) :
    ∀ f1 f2, f1 ≤ f2 → ∀ depth nodes ctx pos merge ss st x,
      seqParse r1 sh f1 depth nodes ctx pos merge ss st = some x →
      seqParse r2 sh f2 depth nodes ctx pos merge ss st = some x := by
  intro f1
  induction f1 with
  | zero => intro f2 _ depth nodes ctx pos merge ss st x h; simp [seqParse] at h
  | succ f1 ih =>
    intro f2 hle depth nodes ctx pos merge ss st x h
    cases f2 with
    | zero => omega
    | succ f2 =>
      simp only [seqParse] at h ⊢
      cases hl : sh.lookup depth with
      | none => simp only [hl] at h ⊢; exact h
      | some g =>
        simp only [hl] at h ⊢
        split at h
        · cases h
        · rename_i o st1 hr
          rw [h12 _ _ _ _ _ hr]
          simp only
          split
          · rename_i hnil
            simp only [hnil] at h
            exact h
          · rename_i hnn
            split at h
            · rename_i hnil; exact absurd hnil hnn
            · exact seqAlts_mono _ _ (fun n ss st x hx => ih f2 (by omega) _ _ _ _ _ _ _ _ hx) _ _ _ _ h

end PV
