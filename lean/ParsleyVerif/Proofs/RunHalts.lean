/-
  TOTAL reasoning principles for the loops of the parser core — the duals of `anyLoop_ind`,
  `choiceLoop_ind`, `seqParse_ind` (which say "if the loop returns then …"): if every sub-parser call
  answers for some fuel, from every state the loop can be in, then the loop answers for some fuel.
  Parametric in a fuel-indexed, fuel-monotone family `R` of sub-parser runners (`R f := run cfg f`).
-/
import ParsleyVerif.Proofs.RunLoops
namespace PV

def RunMono (R : Nat → RunFn) : Prop := ∀ f1 f2, f1 ≤ f2 → RunLe (R f1) (R f2)

/-! ### Any -/
theorem anyLoop_halts (R : Nat → RunFn) (hmono : RunMono R) (ctx : Ctx) (pos : Nat) (I : St → Prop) :
    ∀ (gs : List G),
      (∀ g ∈ gs, ∀ st, I st → ∃ f x, R f g ctx pos st.regCall = some x) →
      (∀ f, ∀ g ∈ gs, ∀ st o st', I st → R f g ctx pos st.regCall = some (o, st') → I st') →
      ∀ a st, I st → ∃ f x, anyLoop (R f) ctx pos gs a st = some x := by
  intro gs
  induction gs with
  | nil => intro _ _ a st _; exact ⟨0, _, rfl⟩
  | cons g gs ih =>
    intro hhalt hpres a st hI
    obtain ⟨f1, ⟨o, st1⟩, h1⟩ := hhalt g (List.mem_cons_self ..) st hI
    have hI1 := hpres f1 g (List.mem_cons_self ..) st o st1 hI h1
    obtain ⟨f2, x, h2⟩ := ih (fun g' hg' => hhalt g' (List.mem_cons_of_mem _ hg'))
      (fun f g' hg' => hpres f g' (List.mem_cons_of_mem _ hg'))
      (altErr pos { a with cp := cpUnion a.cp o.cp, res := appendNode a.res o.res } o.err) st1 hI1
    refine ⟨max f1 f2, x, ?_⟩
    simp only [anyLoop]
    rw [hmono f1 (max f1 f2) (Nat.le_max_left ..) _ _ _ _ _ h1]
    exact anyLoop_mono (hmono f2 (max f1 f2) (Nat.le_max_right ..)) _ _ _ _ _ _ h2

/-! ### Choice -/
theorem choiceLoop_halts (R : Nat → RunFn) (hmono : RunMono R) (ctx : Ctx) (pos : Nat) (I : St → Prop) :
    ∀ (gs : List G),
      (∀ g ∈ gs, ∀ st, I st → ∃ f x, R f g ctx pos st.regCall = some x) →
      (∀ f, ∀ g ∈ gs, ∀ st o st', I st → R f g ctx pos st.regCall = some (o, st') → I st') →
      ∀ a st, I st → ∃ f x, choiceLoop (R f) ctx pos gs a st = some x := by
  intro gs
  induction gs with
  | nil => intro _ _ a st _; exact ⟨0, _, rfl⟩
  | cons g gs ih =>
    intro hhalt hpres a st hI
    obtain ⟨f1, ⟨o, st1⟩, h1⟩ := hhalt g (List.mem_cons_self ..) st hI
    have hI1 := hpres f1 g (List.mem_cons_self ..) st o st1 hI h1
    by_cases hn : o.res.isNil = true
    · obtain ⟨f2, x, h2⟩ := ih (fun g' hg' => hhalt g' (List.mem_cons_of_mem _ hg'))
        (fun f g' hg' => hpres f g' (List.mem_cons_of_mem _ hg'))
        (altErr pos { a with cp := cpUnion a.cp o.cp } o.err) st1 hI1
      refine ⟨max f1 f2, x, ?_⟩
      simp only [choiceLoop]
      rw [hmono f1 (max f1 f2) (Nat.le_max_left ..) _ _ _ _ _ h1]
      simp only [hn, Bool.not_true, Bool.false_eq_true, ↓reduceIte]
      exact choiceLoop_mono (hmono f2 (max f1 f2) (Nat.le_max_right ..)) _ _ _ _ _ _ h2
    · have hn' : o.res.isNil = false := by simpa using hn
      refine ⟨f1, ?_⟩
      simp only [choiceLoop]
      rw [h1]
      simp only [hn', Bool.not_false, ↓reduceIte]
      exact ⟨_, rfl⟩

/-! ### Sequence -/

theorem seqAlts_halts (K : Nat → Node → SeqSt → St → Option (Bool × SeqSt × St))
    (Kmono : ∀ f f', f ≤ f' → ∀ n ss st x, K f n ss st = some x → K f' n ss st = some x)
    (E : SeqSt → St → SeqSt → St → Prop)
    (P : Node → SeqSt → St → Prop)
    (Pstable : ∀ n ss st ss' st', P n ss st → E ss st ss' st' → P n ss' st') :
    ∀ (l : List Node),
      (∀ f, ∀ n ∈ l, ∀ ss st b ss' st', P n ss st → K f n ss st = some (b, ss', st') → E ss st ss' st') →
      (∀ n ∈ l, ∀ ss st, P n ss st → ∃ f x, K f n ss st = some x) →
      ∀ ss st, (∀ n ∈ l, P n ss st) → ∃ f x, seqAlts (K f) l ss st = some x := by
  intro l
  induction l with
  | nil => intro _ _ ss st _; exact ⟨0, _, rfl⟩
  | cons n rest ih =>
    intro hpres hhalt ss st hP
    obtain ⟨f1, ⟨b, ss1, st1⟩, h1⟩ := hhalt n (List.mem_cons_self ..) ss st (hP n (List.mem_cons_self ..))
    cases b with
    | true =>
      refine ⟨f1, ?_⟩
      simp only [seqAlts, h1]
      exact ⟨_, rfl⟩
    | false =>
      have hE := hpres f1 n (List.mem_cons_self ..) ss st false ss1 st1 (hP n (List.mem_cons_self ..)) h1
      obtain ⟨f2, x, h2⟩ := ih (fun f n' hn' => hpres f n' (List.mem_cons_of_mem _ hn'))
        (fun n' hn' => hhalt n' (List.mem_cons_of_mem _ hn')) ss1 st1
        (fun n' hn' => Pstable _ _ _ _ _ (hP n' (List.mem_cons_of_mem _ hn')) hE)
      refine ⟨max f1 f2, x, ?_⟩
      simp only [seqAlts]
      rw [Kmono f1 (max f1 f2) (Nat.le_max_left ..) _ _ _ _ h1]
      exact seqAlts_mono _ _ (Kmono f2 (max f1 f2) (Nat.le_max_right ..) ) _ _ _ _ h2

/-- `seqParse` after the call of element `depth` answered a non-nil result -/
theorem seqParse_step (r : RunFn) (sh : SeqShape) (fuel depth : Nat) (nodes : List Node) (ctx : Ctx) (pos : Nat)
    (merge : Bool) (ss : SeqSt) (st : St) (g : G) (o : Out) (st1 : St)
    (hl : sh.lookup depth = some g) (hr : r g ctx pos st.regCall = some (o, st1)) (hnn : o.res.isNil = false) :
    seqParse r sh (fuel + 1) depth nodes ctx pos merge ss st =
      seqAlts (fun n ss st =>
          seqParse r sh fuel (depth + 1) (nodes ++ [n]) (if n.rpos > pos then [] else ctx) n.rpos
            (merge && !(n.rpos > pos)) ss st)
        o.res.alts (seqAfter merge ss o) st1 := by
  have hss : (if merge = true then
        { cp := cpUnion ss.cp o.cp, result := ss.result, err := pickErr ss.err o.err : SeqSt }
      else { cp := ss.cp, result := ss.result, err := pickErr ss.err o.err }) = seqAfter merge ss o := by
    unfold seqAfter
    by_cases hm : merge = true <;> simp [hm]
  simp only [seqParse, hl, hr]
  split
  · rename_i hnil
    rw [hnil] at hnn
    simp [Res.isNil] at hnn
  · rw [hss]

theorem seqParse_step_nil (r : RunFn) (sh : SeqShape) (fuel depth : Nat) (nodes : List Node) (ctx : Ctx) (pos : Nat)
    (merge : Bool) (ss : SeqSt) (st : St) (g : G) (o : Out) (st1 : St)
    (hl : sh.lookup depth = some g) (hr : r g ctx pos st.regCall = some (o, st1)) (hn : o.res.isNil = true) :
    ∃ x, seqParse r sh (fuel + 1) depth nodes ctx pos merge ss st = some x := by
  have hnil : o.res = .nil := (isNil_iff' o.res).mp hn
  simp only [seqParse, hl, hr, hnil]
  split
  · split <;> exact ⟨_, rfl⟩
  · exact ⟨_, rfl⟩
where
  isNil_iff' (r : Res) : r.isNil = true ↔ r = .nil := by cases r <;> simp [Res.isNil]

theorem seqParse_step_none (r : RunFn) (sh : SeqShape) (fuel depth : Nat) (nodes : List Node) (ctx : Ctx) (pos : Nat)
    (merge : Bool) (ss : SeqSt) (st : St) (hl : sh.lookup depth = none) :
    ∃ x, seqParse r sh (fuel + 1) depth nodes ctx pos merge ss st = some x := by
  simp only [seqParse, hl]
  split
  · split <;> exact ⟨_, rfl⟩
  · exact ⟨_, rfl⟩

/-- Total principle for `seqParse`: the hypotheses of `seqParse_ind` (how the frame invariant `J` and
    the evolution `E` are maintained) plus: every element call answers for some fuel (`hhalt`), and a
    measure `μ` of frames decreases from a frame to each of its successors (`hdec`). -/
theorem seqParse_halts (R : Nat → RunFn) (hmono : RunMono R) (sh : SeqShape)
    (J : Frame → SeqSt → St → Prop)
    (E : SeqSt → St → SeqSt → St → Prop)
    (Erefl : ∀ ss st, E ss st ss st)
    (Etrans : ∀ a b c d e f, E a b c d → E c d e f → E a b e f)
    (Jstable : ∀ fr ss st ss' st', J fr ss st → E ss st ss' st' → J fr ss' st')
    (hcall : ∀ f fr ss st g o st1, J fr ss st → fr.depth = fr.nodes.length → sh.lookup fr.depth = some g →
        R f g fr.ctx fr.pos st.regCall = some (o, st1) →
        E ss st (seqAfter fr.merge ss o) st1 ∧
        (∀ n ∈ o.res.alts, J (fr.next n) (seqAfter fr.merge ss o) st1) ∧
        (o.res.isNil = true → sh.lenCheck fr.depth = true →
          E ss st (seqEmit sh fr (seqAfter fr.merge ss o)) st1))
    (hnone : ∀ fr ss st, J fr ss st → fr.depth = fr.nodes.length → sh.lookup fr.depth = none →
        sh.lenCheck fr.depth = true →
        E ss st (seqEmit sh fr (seqAfter fr.merge ss ⟨.nil, [], none⟩)) st)
    (μ : Frame → Nat)
    (hhalt : ∀ fr ss st g, J fr ss st → fr.depth = fr.nodes.length → sh.lookup fr.depth = some g →
        ∃ f x, R f g fr.ctx fr.pos st.regCall = some x)
    (hdec : ∀ f fr ss st g o st1, J fr ss st → fr.depth = fr.nodes.length → sh.lookup fr.depth = some g →
        R f g fr.ctx fr.pos st.regCall = some (o, st1) → ∀ n ∈ o.res.alts, μ (fr.next n) < μ fr) :
    ∀ (m : Nat) (fr : Frame), μ fr < m → ∀ ss st, J fr ss st → fr.depth = fr.nodes.length →
      ∃ f x, seqParse (R f) sh f fr.depth fr.nodes fr.ctx fr.pos fr.merge ss st = some x := by
  intro m
  induction m with
  | zero => intro fr hm; omega
  | succ m ih =>
    intro fr hm ss st hJ hd
    cases hl : sh.lookup fr.depth with
    | none =>
      obtain ⟨x, hx⟩ := seqParse_step_none (R 1) sh 0 fr.depth fr.nodes fr.ctx fr.pos fr.merge ss st hl
      exact ⟨1, x, hx⟩
    | some g =>
      obtain ⟨f1, ⟨o, st1⟩, h1⟩ := hhalt fr ss st g hJ hd hl
      by_cases hn : o.res.isNil = true
      · have h1' := hmono f1 (f1 + 1) (by omega) _ _ _ _ _ h1
        obtain ⟨x, hx⟩ := seqParse_step_nil (R (f1 + 1)) sh f1 fr.depth fr.nodes fr.ctx fr.pos fr.merge ss st g o st1 hl h1' hn
        exact ⟨f1 + 1, x, hx⟩
      · have hn' : o.res.isNil = false := by simpa using hn
        obtain ⟨_, hnext, _⟩ := hcall f1 fr ss st g o st1 hJ hd hl h1
        have hdec' := hdec f1 fr ss st g o st1 hJ hd hl h1
        obtain ⟨f2, x, h2⟩ := seqAlts_halts
          (fun f n ss st => seqParse (R f) sh f (fr.next n).depth (fr.next n).nodes (fr.next n).ctx
            (fr.next n).pos (fr.next n).merge ss st)
          (fun f f' hff n ss st x hx => seqParse_mono (hmono f f' hff) sh f f' hff _ _ _ _ _ _ _ _ hx)
          E (fun n ss st => J (fr.next n) ss st)
          (fun n ss st ss' st' hP hE => Jstable _ _ _ _ _ hP hE) o.res.alts
          (fun f n _ ss st b ss' st' hP hK =>
            seqParse_ind (R f) sh J E Erefl Etrans Jstable (hcall f) hnone f (fr.next n) ss st b ss' st' hP
              (by simp [Frame.next, hd]) hK)
          (fun n hnm ss st hP => ih (fr.next n) (by have := hdec' n hnm; omega) ss st hP (by simp [Frame.next, hd]))
          (seqAfter fr.merge ss o) st1 hnext
        refine ⟨max f1 f2 + 1, x, ?_⟩
        rw [seqParse_step (R (max f1 f2 + 1)) sh (max f1 f2) fr.depth fr.nodes fr.ctx fr.pos fr.merge ss st g o st1 hl
          (hmono f1 _ (by omega) _ _ _ _ _ h1) hn']
        exact seqAlts_mono _ _ (fun n ss st x hx =>
          seqParse_mono (hmono f2 (max f1 f2 + 1) (by omega)) sh f2 (max f1 f2) (Nat.le_max_right ..) _ _ _ _ _ _ _ _ hx)
          _ _ _ _ h2

end PV
