/-
  The tie between the slice machine of C07 (Model/Slice.lean) and the in-place primitives TRANSLATED from the Go source on
  every run (Generated/FactsAst.lean, namespace PV.FactsAstProg; run-time Generated/SlicePrelude.lean).

  `conc` turns a state of the machine (node objects, arrays of handles) into a store of the run-time (node structs, arrays
  of interface values); the theorems say that running the translated function on `conc s` gives `conc` of what the machine
  computes — for every growth policy, every amount of fuel above an explicit bound.
-/
import ParsleyVerif.Proofs.SliceRun
import ParsleyVerif.Generated.FactsAst
set_option linter.unusedSimpArgs false
namespace PV.AstTie
open PV.Slice
open PV.SlicePrelude (Node Kind Cell Sl Res M Go.idx Go.setIdx Go.readerPos Go.setReaderPos Go.len Go.append Go.litSlice)
open PV.FactsAstProg

def concSl (s : Slice) : Sl := ⟨s.arr, s.len, s.cap⟩

def isNT (nodes : List NodeObj) (n : Nat) : Bool :=
  match nodes[n]? with
  | some (.nt _ _ _ _) => true
  | _ => false

/-- a handle of the machine as an interface value: the dynamic type of a pointer is that of the object it points to -/
def concH (nodes : List NodeObj) : Handle → Node
  | .nil => .nil
  | .ptr n => if isNT nodes n then .nonterm n else .term n
  | .empty p => .empty p
  | .eof p => .eof p
  | .list s => .list (concSl s)

def concObj : NodeObj → Cell
  | .term tok val pos rpos => { readerPos := rpos, pos := pos, token := tok, value := val, children := ⟨0, 0, 0⟩ }
  | .nt tok ch pos rpos => { readerPos := rpos, pos := pos, token := tok, value := 0, children := concSl ch }

def conc (grow : Nat → Nat) (nodes : List NodeObj) (arrs : Arrs) : SlicePrelude.St :=
  { cells := nodes.map concObj, arrays := arrs.map (fun c => c.map (concH nodes)), grow := grow }

/-! ### the monad -/

theorem bind_ok {α β : Type} (x : M α) (f : α → M β) (s s' : SlicePrelude.St) (a : α) (h : x s = .ok a s') :
    (x >>= f) s = f a s' := by
  show SlicePrelude.M.bind x f s = _
  simp [SlicePrelude.M.bind, h]

theorem pure_run {α : Type} (a : α) (s : SlicePrelude.St) : (pure a : M α) s = .ok a s := rfl

/-! ### bump keeps the dynamic types -/

theorem isNT_bump (nodes : List NodeObj) (n d m : Nat) : isNT (nodes.modify n (NodeObj.bump d)) m = isNT nodes m := by
  unfold isNT
  rw [List.getElem?_modify]
  by_cases h : n = m
  · subst h
    cases hn : nodes[n]? with
    | none => simp
    | some o => cases o <;> simp [NodeObj.bump]
  · simp [h]

theorem concH_bump (nodes : List NodeObj) (n d : Nat) : concH (nodes.modify n (NodeObj.bump d)) = concH nodes := by
  funext h
  cases h <;> simp [concH, isNT_bump]

theorem concObj_bump (o : NodeObj) (d : Nat) :
    concObj (o.bump d) = { concObj o with readerPos := (concObj o).readerPos + d } := by
  cases o <;> simp [concObj, NodeObj.bump]

theorem conc_bump (grow : Nat → Nat) (nodes : List NodeObj) (arrs : Arrs) (n d : Nat) (o : NodeObj) (hn : nodes[n]? = some o) :
    conc grow (nodes.modify n (NodeObj.bump d)) arrs =
      { conc grow nodes arrs with
        cells := (conc grow nodes arrs).cells.set n { concObj o with readerPos := (concObj o).readerPos + d } } := by
  unfold conc
  simp only [concH_bump]
  congr 1
  apply List.ext_getElem?
  intro i
  rw [List.getElem?_map, List.getElem?_modify, List.getElem?_set]
  by_cases h : n = i
  · subst h
    have hl : n < nodes.length := by
      rcases Nat.lt_or_ge n nodes.length with h | h
      · exact h
      · rw [List.getElem?_eq_none h] at hn; cases hn
    have ho : nodes[n] = o := by
      rw [List.getElem?_eq_getElem hl] at hn
      exact Option.some.inj hn
    subst ho
    simp [hl, concObj_bump]
  · simp [h]

theorem bind_run {α β : Type} (x : M α) (f : α → M β) (s : SlicePrelude.St) :
    (x >>= f) s = match x s with
      | .ok a s' => f a s'
      | .panic => .panic
      | .nofuel => .nofuel := rfl

/-! ### node structs -/

theorem readerPos_conc (grow : Nat → Nat) (nodes : List NodeObj) (arrs : Arrs) (n : Nat) (o : NodeObj)
    (hn : nodes[n]? = some o) :
    Go.readerPos n (conc grow nodes arrs) = .ok (o.rpos : Int) (conc grow nodes arrs) := by
  unfold SlicePrelude.Go.readerPos
  have : (conc grow nodes arrs).cells[n]? = some (concObj o) := by simp [conc, hn]
  rw [this]
  cases o <;> rfl

theorem setReaderPos_conc (grow : Nat → Nat) (nodes : List NodeObj) (arrs : Arrs) (n d : Nat) (o : NodeObj)
    (hn : nodes[n]? = some o) :
    Go.setReaderPos n ((o.rpos : Int) + d) (conc grow nodes arrs) =
      .ok () (conc grow (nodes.modify n (NodeObj.bump d)) arrs) := by
  unfold SlicePrelude.Go.setReaderPos
  have : (conc grow nodes arrs).cells[n]? = some (concObj o) := by simp [conc, hn]
  rw [this, conc_bump grow nodes arrs n d o hn]
  cases o <;> rfl

/-- the call-back of the machine: `f = (· + d)` -/
def shift (d : Nat) : Int → Int := fun p => p + d

theorem term_tie (grow : Nat → Nat) (nodes : List NodeObj) (arrs : Arrs) (n d fuel : Nat) (o : NodeObj)
    (hn : nodes[n]? = some o) :
    TerminalNode_SetReaderPos (fuel + 1) n (shift d) (conc grow nodes arrs) =
      .ok () (conc grow (nodes.modify n (NodeObj.bump d)) arrs) := by
  rw [TerminalNode_SetReaderPos]
  simp only [bind_run, readerPos_conc grow nodes arrs n o hn, shift, setReaderPos_conc grow nodes arrs n d o hn, pure_run]

theorem nonterm_tie (grow : Nat → Nat) (nodes : List NodeObj) (arrs : Arrs) (n d fuel : Nat) (o : NodeObj)
    (hn : nodes[n]? = some o) :
    NonTerminalNode_SetReaderPos (fuel + 1) n (shift d) (conc grow nodes arrs) =
      .ok () (conc grow (nodes.modify n (NodeObj.bump d)) arrs) := by
  rw [NonTerminalNode_SetReaderPos]
  simp only [bind_run, readerPos_conc grow nodes arrs n o hn, shift, setReaderPos_conc grow nodes arrs n d o hn, pure_run]

theorem eof_tie (fuel : Nat) (p : Int) (f : Int → Int) (s : SlicePrelude.St) :
    EndNode_SetReaderPos (fuel + 1) p f s = .ok () s := by
  rw [EndNode_SetReaderPos]
  rfl

/-! ### one cell: `SetReaderPos(node, f)` on an element of a list -/

theorem cell_tie (grow : Nat → Nat) (nodes : List NodeObj) (arrs : Arrs) (d fuel : Nat) (c : Handle)
    (hc : CellOK nodes.length c) (hnil : c ≠ Handle.nil) :
    SetReaderPos (fuel + 2) (concH nodes c) (shift d) (conc grow nodes arrs) =
      .ok (concH (setRPCell d nodes c).1 (setRPCell d nodes c).2) (conc grow (setRPCell d nodes c).1 arrs) := by
  rw [SetReaderPos]
  cases c with
  | nil => exact absurd rfl hnil
  | list sl => exact absurd hc (by simp [CellOK])
  | empty p =>
    simp [concH, setRPCell, SlicePrelude.Node.hasKind, SlicePrelude.Node.kind, SlicePrelude.Node.asEmpty, pure_run, shift]
  | eof p =>
    simp [concH, setRPCell, SlicePrelude.Node.hasKind, SlicePrelude.Node.kind, bind_run, eof_tie, pure_run]
  | ptr n =>
    have hn : n < nodes.length := hc
    have ho : nodes[n]? = some nodes[n] := List.getElem?_eq_getElem hn
    simp only [setRPCell, concH, isNT_bump]
    by_cases hk : isNT nodes n = true
    · simp [hk, SlicePrelude.Node.hasKind, SlicePrelude.Node.kind, bind_run, nonterm_tie grow nodes arrs n d fuel _ ho, pure_run]
    · simp [hk, SlicePrelude.Node.hasKind, SlicePrelude.Node.kind, bind_run, term_tie grow nodes arrs n d fuel _ ho, pure_run]

/-! ### list arrays -/

theorem cellsOf_conc (grow : Nat → Nat) (nodes : List NodeObj) (arrs : Arrs) (a : Nat) :
    SlicePrelude.cellsOf (conc grow nodes arrs) a = (cells arrs a).map (concH nodes) := by
  simp only [SlicePrelude.cellsOf, conc, cells, List.getD_eq_getElem?_getD, List.getElem?_map]
  cases arrs[a]? <;> simp

theorem idx_conc (grow : Nat → Nat) (nodes : List NodeObj) (arrs : Arrs) (sl : Slice) (k : Nat)
    (hk : k < sl.len) (hl : sl.len ≤ (cells arrs sl.arr).length) :
    Go.idx (concSl sl) (k : Int) (conc grow nodes arrs) =
      .ok (concH nodes ((cells arrs sl.arr).getD k Handle.nil)) (conc grow nodes arrs) := by
  unfold SlicePrelude.Go.idx
  have h1 : (0 : Int) ≤ (k : Int) ∧ (k : Int) < ((concSl sl).len : Int) := by
    simp only [concSl]; omega
  rw [if_pos h1, cellsOf_conc]
  have hk' : k < (cells arrs sl.arr).length := by omega
  simp [concSl, hk', List.getD_eq_getElem?_getD]

theorem setIdx_conc (grow : Nat → Nat) (nodes : List NodeObj) (arrs : Arrs) (sl : Slice) (k : Nat) (v : Handle)
    (hk : k < sl.len) (hl : sl.len ≤ (cells arrs sl.arr).length) :
    Go.setIdx (concSl sl) (k : Int) (concH nodes v) (conc grow nodes arrs) =
      .ok () (conc grow nodes (writeCell arrs sl.arr k v)) := by
  unfold SlicePrelude.Go.setIdx
  have h1 : (0 : Int) ≤ (k : Int) ∧ (k : Int) < ((concSl sl).len : Int) ∧
      (k : Int).toNat < (SlicePrelude.cellsOf (conc grow nodes arrs) (concSl sl).arr).length := by
    rw [cellsOf_conc]
    simp only [concSl, List.length_map, Int.toNat_natCast]; omega
  rw [if_pos h1]
  congr 1
  simp only [conc, writeCell, concSl, Int.toNat_natCast]
  congr 1
  apply List.ext_getElem?
  intro i
  simp only [List.getElem?_modify, List.getElem?_map]
  by_cases h : sl.arr = i
  · subst h
    cases arrs[sl.arr]? <;> simp [List.map_set]
  · simp [h]

/-- what `NodeList.SetReaderPos` needs of the list it is applied to: the view lies inside the array, and every element
    in view is neither nil (Go would panic) nor a list (the machine does not recurse), pointers point to existing objects -/
def ListOK (nodes : Nat) (arrs : Arrs) (sl : Slice) : Prop :=
  sl.len ≤ (cells arrs sl.arr).length ∧
  ∀ i, i < sl.len → (cells arrs sl.arr).getD i Handle.nil ≠ Handle.nil ∧ CellOK nodes ((cells arrs sl.arr).getD i Handle.nil)

theorem setRPCell_length (d : Nat) (nodes : List NodeObj) (c : Handle) : (setRPCell d nodes c).1.length = nodes.length := by
  cases c <;> simp [setRPCell]

theorem setRPCell_ok (d : Nat) (nodes : List NodeObj) (c : Handle) (hc : CellOK nodes.length c) (hnil : c ≠ Handle.nil) :
    (setRPCell d nodes c).2 ≠ Handle.nil ∧ CellOK nodes.length (setRPCell d nodes c).2 := by
  cases c <;> simp_all [setRPCell, CellOK]

theorem ListOK.write {n : Nat} {arrs : Arrs} {sl : Slice} (h : ListOK n arrs sl) (k : Nat) (v : Handle)
    (hv : v ≠ Handle.nil ∧ CellOK n v) : ListOK n (writeCell arrs sl.arr k v) sl := by
  have hc : cells (writeCell arrs sl.arr k v) sl.arr = (cells arrs sl.arr).set k v := by
    by_cases ha : sl.arr < arrs.length
    · exact cells_modify_same arrs sl.arr _ ha
    · have ha' : arrs.length ≤ sl.arr := by omega
      unfold writeCell
      rw [cells_modify_oob arrs sl.arr _ ha', cells_oob arrs sl.arr ha']
      rfl
  unfold ListOK
  rw [hc]
  refine ⟨by simpa using h.1, fun i hi => ?_⟩
  have hi' : i < (cells arrs sl.arr).length := by have := h.1; omega
  simp only [List.getD_eq_getElem?_getD, List.getElem?_set]
  by_cases hki : k = i
  · subst hki
    simpa [hi'] using hv
  · simpa [hki, List.getD_eq_getElem?_getD] using h.2 i hi

theorem loop_tie (grow : Nat → Nat) (d : Nat) (sl : Slice) :
    ∀ (n k fuel : Nat) (nodes : List NodeObj) (arrs : Arrs), k + n = sl.len → n + 3 ≤ fuel →
      ListOK nodes.length arrs sl →
      NodeList_SetReaderPos_loop1 fuel (concSl sl) (shift d) (k : Int) (conc grow nodes arrs) =
        .ok () (conc grow (trimLoop d sl.arr n k nodes arrs).1 (trimLoop d sl.arr n k nodes arrs).2) := by
  intro n
  induction n with
  | zero =>
    intro k fuel nodes arrs hk hf _
    obtain ⟨f, rfl⟩ : ∃ f, fuel = f + 1 := ⟨fuel - 1, by omega⟩
    rw [NodeList_SetReaderPos_loop1]
    have : ¬ ((k : Int) < Go.len (concSl sl)) := by simp only [SlicePrelude.Go.len, concSl]; omega
    simp [this, trimLoop, pure_run]
  | succ n ih =>
    intro k fuel nodes arrs hk hf hok
    obtain ⟨f, rfl⟩ : ∃ f, fuel = f + 3 := ⟨fuel - 3, by omega⟩
    rw [NodeList_SetReaderPos_loop1]
    have hlt : (k : Int) < Go.len (concSl sl) := by simp only [SlicePrelude.Go.len, concSl]; omega
    have hk' : k < sl.len := by omega
    have hc := hok.2 k hk'
    have hcell := cell_tie grow nodes arrs d f _ hc.2 hc.1
    have hok' := setRPCell_ok d nodes _ hc.2 hc.1
    have hlen := setRPCell_length d nodes ((cells arrs sl.arr).getD k Handle.nil)
    have hw : ListOK (setRPCell d nodes ((cells arrs sl.arr).getD k Handle.nil)).1.length
        (writeCell arrs sl.arr k (setRPCell d nodes ((cells arrs sl.arr).getD k Handle.nil)).2) sl := by
      rw [hlen]; exact hok.write k _ hok'
    have hrec := ih (k + 1) (f + 2) _ _ (by omega) (by omega) hw
    have hcast : ((k : Int) + 1) = ((k + 1 : Nat) : Int) := by omega
    simp only [hlt, decide_true, if_true, bind_run, idx_conc grow nodes arrs sl k hk' hok.1, hcell,
      setIdx_conc grow _ arrs sl k _ hk' hok.1, hcast, hrec, trimLoop]

/-! ### `ast.SetReaderPos(node, f)` on a whole value -/

/-- what `ast.SetReaderPos` needs of its operand (the machine rejects a nil operand before `setRP`) -/
def TrimOK (s : St) : Handle → Prop
  | .nil => False
  | .ptr n => n < s.nodes.length
  | .list sl => ListOK s.nodes.length s.arrs sl
  | _ => True

/-- the fuel that certainly suffices -/
def trimFuel : Handle → Nat
  | .list sl => sl.len + 5
  | _ => 2

theorem setRP_tie (grow : Nat → Nat) (d : Nat) (s : St) (h : Handle) (hok : TrimOK s h) (fuel : Nat)
    (hf : trimFuel h ≤ fuel) :
    SetReaderPos fuel (concH s.nodes h) (shift d) (conc grow s.nodes s.arrs) =
      .ok (concH (setRP d s h).1.nodes (setRP d s h).2) (conc grow (setRP d s h).1.nodes (setRP d s h).1.arrs) := by
  cases h with
  | nil => exact absurd hok (by simp [TrimOK])
  | ptr n =>
    obtain ⟨f, rfl⟩ : ∃ f, fuel = f + 2 := ⟨fuel - 2, by simp only [trimFuel] at hf; omega⟩
    have := cell_tie grow s.nodes s.arrs d f (Handle.ptr n) hok (by simp)
    simpa [setRP, setRPCell] using this
  | empty p =>
    obtain ⟨f, rfl⟩ : ∃ f, fuel = f + 2 := ⟨fuel - 2, by simp only [trimFuel] at hf; omega⟩
    have := cell_tie grow s.nodes s.arrs d f (Handle.empty p) (by simp [CellOK]) (by simp)
    simpa [setRP, setRPCell] using this
  | eof p =>
    obtain ⟨f, rfl⟩ : ∃ f, fuel = f + 2 := ⟨fuel - 2, by simp only [trimFuel] at hf; omega⟩
    have := cell_tie grow s.nodes s.arrs d f (Handle.eof p) (by simp [CellOK]) (by simp)
    simpa [setRP, setRPCell] using this
  | list sl =>
    obtain ⟨f, rfl⟩ : ∃ f, fuel = f + 2 := ⟨fuel - 2, by simp only [trimFuel] at hf; omega⟩
    have hl := loop_tie grow d sl sl.len 0 f s.nodes s.arrs (by omega) (by simp only [trimFuel] at hf; omega) hok
    rw [SetReaderPos]
    have hcast : ((0 : Nat) : Int) = 0 := rfl
    rw [hcast] at hl
    have hkind : ∀ nodes, concH nodes (Handle.list sl) = Node.list (concSl sl) := fun _ => rfl
    simp only [hkind, setRP, SlicePrelude.Node.hasKind, SlicePrelude.Node.kind, bind_run, pure_run]
    rw [NodeList_SetReaderPos]
    simp [bind_run, hl, pure_run]


/-! ### append: `ast.AppendNode`, `(*NodeList).Append` (the nodes are not touched: `nodes` is fixed) -/

theorem isNil_concH (nodes : List NodeObj) (h : Handle) : Node.isNil (concH nodes h) = decide (h = Handle.nil) := by
  cases h with
  | ptr n => by_cases hk : isNT nodes n = true <;> simp [concH, SlicePrelude.Node.isNil, hk]
  | _ => simp [concH, SlicePrelude.Node.isNil]

theorem concH_eq_empty (nodes : List NodeObj) (c : Handle) (p : Nat) :
    concH nodes c = Node.empty (p : Int) ↔ c = Handle.empty p := by
  cases c with
  | ptr n => by_cases hk : isNT nodes n = true <;> simp [concH, hk]
  | empty q => simp only [concH, Node.empty.injEq, Handle.empty.injEq]; omega
  | _ => simp [concH]

theorem asList_concH (nodes : List NodeObj) (h : Handle) (hn : ∀ sl, h ≠ Handle.list sl) :
    Node.asList (concH nodes h) = none := by
  cases h with
  | ptr n => by_cases hk : isNT nodes n = true <;> simp [concH, SlicePrelude.Node.asList, hk]
  | list sl => exact absurd rfl (hn sl)
  | _ => simp [concH, SlicePrelude.Node.asList]

theorem asEmpty_concH (nodes : List NodeObj) (h : Handle) (hn : ∀ p, h ≠ Handle.empty p) :
    Node.asEmpty (concH nodes h) = none := by
  cases h with
  | ptr n => by_cases hk : isNT nodes n = true <;> simp [concH, SlicePrelude.Node.asEmpty, hk]
  | empty p => exact absurd rfl (hn p)
  | _ => simp [concH, SlicePrelude.Node.asEmpty]

theorem view_conc (grow : Nat → Nat) (nodes : List NodeObj) (arrs : Arrs) (s : Slice) :
    SlicePrelude.view (conc grow nodes arrs) (concSl s) = (view arrs s).map (concH nodes) := by
  simp [SlicePrelude.view, view, cellsOf_conc, concSl, List.map_take]

theorem conc_write (grow : Nat → Nat) (nodes : List NodeObj) (arrs : Arrs) (a i : Nat) (v : Handle) :
    ({ conc grow nodes arrs with
        arrays := (conc grow nodes arrs).arrays.modify a (fun c => c.set i (concH nodes v)) } : SlicePrelude.St) =
      conc grow nodes (writeCell arrs a i v) := by
  simp only [conc, writeCell]
  congr 1
  apply List.ext_getElem?
  intro j
  simp only [List.getElem?_modify, List.getElem?_map]
  by_cases h : a = j
  · subst h
    cases arrs[a]? <;> simp [List.map_set]
  · simp [h]

/-- `append(s, v)`: exactly the machine's `sliceAppend`, for every header (in place — a write into the array every other
    header onto it shares — when len < cap, a fresh array otherwise) -/
theorem append_conc (grow : Nat → Nat) (nodes : List NodeObj) (arrs : Arrs) (s : Slice) (v : Handle) :
    Go.append (concSl s) (concH nodes v) (conc grow nodes arrs) =
      .ok (concSl (sliceAppend grow arrs s v).2) (conc grow nodes (sliceAppend grow arrs s v).1) := by
  unfold SlicePrelude.Go.append sliceAppend
  by_cases h : s.len < s.cap
  · have h' : (concSl s).len < (concSl s).cap := h
    rw [if_pos h', if_pos h]
    show Res.ok _ _ = Res.ok _ _
    rw [show (concSl s).arr = s.arr from rfl, show (concSl s).len = s.len from rfl, conc_write]
    rfl
  · have h' : ¬ (concSl s).len < (concSl s).cap := h
    rw [if_neg h', if_neg h]
    show Res.ok _ _ = Res.ok _ _
    congr 1
    · simp [conc, concSl]
    · rw [view_conc]
      simp [conc, concSl, concH]

theorem litSlice_conc (grow : Nat → Nat) (nodes : List NodeObj) (arrs : Arrs) (h : Handle) :
    Go.litSlice [concH nodes h] (conc grow nodes arrs) =
      .ok (concSl ⟨arrs.length, 1, 1⟩) (conc grow nodes (arrs ++ [[h]])) := by
  simp [SlicePrelude.Go.litSlice, conc, concSl]

theorem swf_len {arrs : Arrs} {s : Slice} (w : SWF arrs s) : s.len ≤ (cells arrs s.arr).length := by
  rcases w.2 with h0 | ⟨_, h1⟩
  · have := w.1; omega
  · have := w.1; omega

/-- the scanning loop of the EmptyNode case (`for _, node := range *nl { if node == v { return } }; *nl = append(*nl, v)`),
    from index `k`: nothing happens when the value is among the elements from `k` on, else the append -/
theorem dedupe_tie (grow : Nat → Nat) (nodes : List NodeObj) (arrs : Arrs) (nl : Slice) (p : Nat)
    (hl : nl.len ≤ (cells arrs nl.arr).length) :
    ∀ (n k fuel : Nat), k + n = nl.len → n + 1 ≤ fuel →
      NodeList_Append_loop2 fuel (concSl nl) (p : Int) (k : Int) (conc grow nodes arrs) =
        if Handle.empty p ∈ (view arrs nl).drop k then .ok (concSl nl) (conc grow nodes arrs)
        else .ok (concSl (sliceAppend grow arrs nl (Handle.empty p)).2)
          (conc grow nodes (sliceAppend grow arrs nl (Handle.empty p)).1) := by
  have hvl : (view arrs nl).length = nl.len := by simp [view]; omega
  intro n
  induction n with
  | zero =>
    intro k fuel hk hf
    obtain ⟨f, rfl⟩ : ∃ f, fuel = f + 1 := ⟨fuel - 1, by omega⟩
    rw [NodeList_Append_loop2]
    have : ¬ ((k : Int) < Go.len (concSl nl)) := by simp only [SlicePrelude.Go.len, concSl]; omega
    have hd : (view arrs nl).drop k = [] := List.drop_eq_nil_of_le (by omega)
    have ha := append_conc grow nodes arrs nl (Handle.empty p)
    simp only [concH] at ha
    simp [this, hd, bind_run, ha, pure_run]
  | succ n ih =>
    intro k fuel hk hf
    obtain ⟨f, rfl⟩ : ∃ f, fuel = f + 1 := ⟨fuel - 1, by omega⟩
    rw [NodeList_Append_loop2]
    have hlt : (k : Int) < Go.len (concSl nl) := by simp only [SlicePrelude.Go.len, concSl]; omega
    have hk' : k < nl.len := by omega
    have hkv : k < (view arrs nl).length := by omega
    have hkc : k < (cells arrs nl.arr).length := by omega
    have hget : (cells arrs nl.arr).getD k Handle.nil = (view arrs nl)[k] := by
      simp [view, List.getD_eq_getElem?_getD, hkc]
    have hd : (view arrs nl).drop k = (cells arrs nl.arr).getD k Handle.nil :: (view arrs nl).drop (k + 1) := by
      rw [hget]; exact List.drop_eq_getElem_cons hkv
    have hcast : ((k : Int) + 1) = ((k + 1 : Nat) : Int) := by omega
    have hrec := ih (k + 1) f (by omega) (by omega)
    simp only [hlt, decide_true, if_true, bind_run, idx_conc grow nodes arrs nl k hk' hl, hcast, hrec, hd,
      List.mem_cons]
    generalize (cells arrs nl.arr).getD k Handle.nil = c
    by_cases hc : c = Handle.empty p
    · have : concH nodes c = Node.empty (p : Int) := (concH_eq_empty nodes _ p).2 hc
      rw [if_pos (decide_eq_true this)]
      simp [hc, pure_run]
    · have : ¬ concH nodes c = Node.empty (p : Int) := fun e => hc ((concH_eq_empty nodes _ p).1 e)
      have hc' : ¬ Handle.empty p = c := fun e => hc e.symm
      rw [if_neg (by simp [this]), hrec]
      simp [hc']

/-- `(nl *NodeList).Append(c)` for a `c` that is not a list -/
theorem append1_tie (grow : Nat → Nat) (nodes : List NodeObj) (arrs : Arrs) (nl : Slice) (c : Handle)
    (hc : ∀ sl, c ≠ Handle.list sl) (hl : nl.len ≤ (cells arrs nl.arr).length) (fuel : Nat) (hf : nl.len + 3 ≤ fuel) :
    NodeList_Append fuel (concSl nl) (concH nodes c) (conc grow nodes arrs) =
      .ok (concSl (nlAppend1 grow arrs nl c).2) (conc grow nodes (nlAppend1 grow arrs nl c).1) := by
  obtain ⟨f, rfl⟩ : ∃ f, fuel = f + 1 := ⟨fuel - 1, by omega⟩
  rw [NodeList_Append, asList_concH nodes c hc]
  by_cases he : ∃ p, c = Handle.empty p
  · obtain ⟨p, rfl⟩ := he
    have hd := dedupe_tie grow nodes arrs nl p hl nl.len 0 f (by omega) (by omega)
    have hcast : ((0 : Nat) : Int) = 0 := rfl
    rw [hcast] at hd
    simp only [concH, SlicePrelude.Node.asEmpty, hd, List.drop_zero, nlAppend1]
    split <;> rfl
  · have he' : ∀ p, c ≠ Handle.empty p := fun p e => he ⟨p, e⟩
    rw [asEmpty_concH nodes c he']
    have ha := append_conc grow nodes arrs nl c
    have h1 : nlAppend1 grow arrs nl c = sliceAppend grow arrs nl c := by
      cases c <;> first | rfl | exact absurd rfl (he' _)
    simp only [bind_run, ha, pure_run, h1]

theorem nlAppend1_len (grow : Nat → Nat) (arrs : Arrs) (nl : Slice) (c : Handle) :
    (nlAppend1 grow arrs nl c).2.len ≤ nl.len + 1 := by
  unfold nlAppend1 sliceAppend
  repeat' split
  all_goals simp

/-- the loop of the NodeList case (`for _, node := range v { nl.Append(node) }`) from index `k`, `n` rounds to go; the
    elements read are never lists in a heap whose cells are all `CellOK` -/
theorem appendLoop_tie (grow : Nat → Nat) (nodes : List NodeObj) (N : Nat) (src : Slice) :
    ∀ (n k fuel : Nat) (arrs : Arrs) (nl : Slice), k + n = src.len → nl.len + 2 * n + 4 ≤ fuel →
      CellsOK N arrs → SWF arrs nl → SWF arrs src →
      NodeList_Append_loop1 fuel (concSl nl) (concSl src) (k : Int) (conc grow nodes arrs) =
        .ok (concSl (nlAppendLoop grow src n k arrs nl).2) (conc grow nodes (nlAppendLoop grow src n k arrs nl).1) := by
  intro n
  induction n with
  | zero =>
    intro k fuel arrs nl hk hf _ _ _
    obtain ⟨f, rfl⟩ : ∃ f, fuel = f + 1 := ⟨fuel - 1, by omega⟩
    rw [NodeList_Append_loop1]
    have : ¬ ((k : Int) < Go.len (concSl src)) := by simp only [SlicePrelude.Go.len, concSl]; omega
    simp [this, nlAppendLoop, pure_run]
  | succ n ih =>
    intro k fuel arrs nl hk hf ok w ws
    obtain ⟨f, rfl⟩ : ∃ f, fuel = f + 1 := ⟨fuel - 1, by omega⟩
    rw [NodeList_Append_loop1]
    have hlt : (k : Int) < Go.len (concSl src) := by simp only [SlicePrelude.Go.len, concSl]; omega
    have hk' : k < src.len := by omega
    have hsl := swf_len ws
    have hcok : CellOK N ((cells arrs src.arr).getD k Handle.nil) := by
      rw [List.getD_eq_getElem?_getD]
      cases hk2 : (cells arrs src.arr)[k]? with
      | none => trivial
      | some c => exact ok src.arr c (List.mem_of_getElem? hk2)
    have hnl : ∀ sl, (cells arrs src.arr).getD k Handle.nil ≠ Handle.list sl := by
      intro sl e; rw [e] at hcok; exact hcok
    have r1 := nlAppend1_spec grow (fun _ => 0) N arrs nl _ w (fun _ => Nat.zero_le _) (fun _ _ => rfl) ok hcok
    have hlen := nlAppend1_len grow arrs nl ((cells arrs src.arr).getD k Handle.nil)
    have h1 := append1_tie grow nodes arrs nl _ hnl (swf_len w) f (by omega)
    have hrec := ih (k + 1) f _ _ (by omega) (by omega) r1.ok r1.swf (r1.frame.swf ws)
    have hcast : ((k : Int) + 1) = ((k + 1 : Nat) : Int) := by omega
    simp only [hlt, decide_true, if_true, bind_run, idx_conc grow nodes arrs src k hk' hsl, h1, hcast, hrec, nlAppendLoop]

/-- the number of elements an operand contributes -/
def hLen : Handle → Nat
  | .list s => s.len
  | _ => 1

/-- what the append family needs of an operand: a list header lies inside its array, a pointer points to an existing
    object (what every reachable state guarantees of every held handle) -/
def AppOK (n : Nat) (arrs : Arrs) : Handle → Prop
  | .list sl => SWF arrs sl
  | .ptr m => m < n
  | _ => True

/-- `(nl *NodeList).Append(h2)` is the machine's `nlAppend` -/
theorem nlAppend_tie (grow : Nat → Nat) (nodes : List NodeObj) (N : Nat) (arrs : Arrs) (nl : Slice) (h2 : Handle)
    (ok : CellsOK N arrs) (w : SWF arrs nl) (h2ok : AppOK N arrs h2) (fuel : Nat) (hf : nl.len + 2 * hLen h2 + 5 ≤ fuel) :
    NodeList_Append fuel (concSl nl) (concH nodes h2) (conc grow nodes arrs) =
      .ok (concSl (nlAppend grow arrs nl h2).2) (conc grow nodes (nlAppend grow arrs nl h2).1) := by
  by_cases hl : ∃ src, h2 = Handle.list src
  · obtain ⟨src, rfl⟩ := hl
    obtain ⟨f, rfl⟩ : ∃ f, fuel = f + 1 := ⟨fuel - 1, by omega⟩
    have hloop := appendLoop_tie grow nodes N src src.len 0 f arrs nl (by omega) (by simp only [hLen] at hf; omega) ok w h2ok
    have hcast : ((0 : Nat) : Int) = 0 := rfl
    rw [hcast] at hloop
    rw [NodeList_Append]
    simp only [concH, SlicePrelude.Node.asList, hloop, nlAppend]
  · have hn : ∀ sl, h2 ≠ Handle.list sl := fun sl e => hl ⟨sl, e⟩
    have h1 : nlAppend grow arrs nl h2 = nlAppend1 grow arrs nl h2 := by
      cases h2 <;> first | rfl | exact absurd rfl (hn _)
    rw [h1]
    exact append1_tie grow nodes arrs nl h2 hn (swf_len w) fuel (by omega)

/-- `ast.AppendNode(h1, h2)`, neither nil, `h1` not a list: a fresh one-element list, then `Append` -/
theorem appendNode_fresh_tie (grow : Nat → Nat) (nodes : List NodeObj) (arrs : Arrs) (h1 h2 : Handle)
    (hn1 : h1 ≠ Handle.nil) (hn2 : h2 ≠ Handle.nil) (hn : ∀ sl, h1 ≠ Handle.list sl)
    (ok : CellsOK nodes.length arrs) (h1ok : AppOK nodes.length arrs h1) (h2ok : AppOK nodes.length arrs h2)
    (f : Nat) (hf : 2 * hLen h2 + 6 ≤ f) :
    AppendNode (f + 1) (concH nodes h1) (concH nodes h2) (conc grow nodes arrs) =
      .ok (Node.list (concSl (nlAppend grow (arrs ++ [[h1]]) ⟨arrs.length, 1, 1⟩ h2).2))
        (conc grow nodes (nlAppend grow (arrs ++ [[h1]]) ⟨arrs.length, 1, 1⟩ h2).1) := by
  rw [AppendNode]
  simp only [isNil_concH, hn1, hn2, decide_false, if_false, Bool.false_eq_true]
  have hc1 : CellOK nodes.length h1 := by
    cases h1 <;> first | trivial | exact h1ok | exact absurd rfl (hn _)
  have ok' : CellsOK nodes.length (arrs ++ [[h1]]) :=
    cellsOK_append ok [h1] (fun x hx => by simp at hx; subst hx; exact hc1)
  have w' : SWF (arrs ++ [[h1]]) ⟨arrs.length, 1, 1⟩ :=
    ⟨Nat.le_refl _, Or.inr ⟨by simp, by rw [cells_append_eq]; simp⟩⟩
  have fr := frameA_append (fun _ => 0) arrs [h1] (fun _ _ => rfl)
  have h2ok' : AppOK nodes.length (arrs ++ [[h1]]) h2 := by
    cases h2 <;> first | trivial | exact h2ok | exact fr.swf h2ok
  have ht := nlAppend_tie grow nodes nodes.length (arrs ++ [[h1]]) ⟨arrs.length, 1, 1⟩ h2 ok' w' h2ok' f
    (by show 1 + 2 * hLen h2 + 5 ≤ f; omega)
  simp only [asList_concH nodes h1 hn, bind_run, litSlice_conc, ht, pure_run]

/-- `ast.AppendNode(h1, h2)` is the machine's `appendNodeCore` -/
theorem appendNode_tie (grow : Nat → Nat) (nodes : List NodeObj) (arrs : Arrs) (h1 h2 : Handle)
    (ok : CellsOK nodes.length arrs) (h1ok : AppOK nodes.length arrs h1) (h2ok : AppOK nodes.length arrs h2)
    (fuel : Nat) (hf : hLen h1 + 2 * hLen h2 + 6 ≤ fuel) :
    AppendNode fuel (concH nodes h1) (concH nodes h2) (conc grow nodes arrs) =
      .ok (concH nodes (appendNodeCore grow arrs h1 h2).2) (conc grow nodes (appendNodeCore grow arrs h1 h2).1) := by
  obtain ⟨f, rfl⟩ : ∃ f, fuel = f + 1 := ⟨fuel - 1, by omega⟩
  by_cases hn1 : h1 = Handle.nil
  · rw [AppendNode]
    simp [appendNodeCore, isNil_concH, hn1, pure_run]
  by_cases hn2 : h2 = Handle.nil
  · rw [AppendNode]
    simp [appendNodeCore, isNil_concH, hn1, hn2, pure_run]
  cases h1 with
  | nil => exact absurd rfl hn1
  | list sl =>
    rw [AppendNode]
    have ht := nlAppend_tie grow nodes nodes.length arrs sl h2 ok h1ok h2ok f
      (by have : hLen (Handle.list sl) = sl.len := rfl
          omega)
    have e : appendNodeCore grow arrs (Handle.list sl) h2 =
        ((nlAppend grow arrs sl h2).1, Handle.list (nlAppend grow arrs sl h2).2) := by
      simp [appendNodeCore, hn2]
    rw [e, show concH nodes (Handle.list sl) = Node.list (concSl sl) from rfl]
    have hnil1 : Node.isNil (Node.list (concSl sl)) = false := rfl
    simp only [hnil1, isNil_concH, hn2, decide_false, if_false, Bool.false_eq_true, reduceCtorEq,
      SlicePrelude.Node.asList, bind_run, ht, pure_run]
    rfl
  | ptr n =>
    have e : appendNodeCore grow arrs (Handle.ptr n) h2 =
        ((nlAppend grow (arrs ++ [[Handle.ptr n]]) ⟨arrs.length, 1, 1⟩ h2).1,
          Handle.list (nlAppend grow (arrs ++ [[Handle.ptr n]]) ⟨arrs.length, 1, 1⟩ h2).2) := by
      simp [appendNodeCore, hn2]
    rw [e]
    exact appendNode_fresh_tie grow nodes arrs _ h2 hn1 hn2 (by simp) ok h1ok h2ok f
      (by have h1 : ∀ x, hLen x = hLen x := fun _ => rfl
          simp only [hLen] at hf ⊢; omega)
  | empty p =>
    have e : appendNodeCore grow arrs (Handle.empty p) h2 =
        ((nlAppend grow (arrs ++ [[Handle.empty p]]) ⟨arrs.length, 1, 1⟩ h2).1,
          Handle.list (nlAppend grow (arrs ++ [[Handle.empty p]]) ⟨arrs.length, 1, 1⟩ h2).2) := by
      simp [appendNodeCore, hn2]
    rw [e]
    exact appendNode_fresh_tie grow nodes arrs _ h2 hn1 hn2 (by simp) ok h1ok h2ok f
      (by have h1 : ∀ x, hLen x = hLen x := fun _ => rfl
          simp only [hLen] at hf ⊢; omega)
  | eof p =>
    have e : appendNodeCore grow arrs (Handle.eof p) h2 =
        ((nlAppend grow (arrs ++ [[Handle.eof p]]) ⟨arrs.length, 1, 1⟩ h2).1,
          Handle.list (nlAppend grow (arrs ++ [[Handle.eof p]]) ⟨arrs.length, 1, 1⟩ h2).2) := by
      simp [appendNodeCore, hn2]
    rw [e]
    exact appendNode_fresh_tie grow nodes arrs _ h2 hn1 hn2 (by simp) ok h1ok h2ok f
      (by have h1 : ∀ x, hLen x = hLen x := fun _ => rfl
          simp only [hLen] at hf ⊢; omega)

/-! ### any store: an append through a header WITHOUT spare capacity never writes into an existing array

  Directly about the translated functions, for every store of the run-time (not only those that correspond to a state of the
  machine) and every argument (nested lists included).  `Away N nl`: an in-place append through `nl` — if `nl` has spare
  capacity at all — goes to an array allocated after the first `N`.  A clipped header (len = cap) is `Away N` for every `N`,
  and stays so through `Append`: its first append allocates, the later ones extend that new array. -/

def Pres (N : Nat) (st st' : SlicePrelude.St) : Prop :=
  st'.cells = st.cells ∧ st'.grow = st.grow ∧ N ≤ st'.arrays.length ∧ st'.arrays.take N = st.arrays.take N

def Away (N : Nat) (nl : Sl) : Prop := nl.len < nl.cap → N ≤ nl.arr

theorem Pres.refl {N : Nat} {st : SlicePrelude.St} (h : N ≤ st.arrays.length) : Pres N st st := ⟨rfl, rfl, h, rfl⟩

theorem Pres.trans {N : Nat} {a b c : SlicePrelude.St} (h1 : Pres N a b) (h2 : Pres N b c) : Pres N a c :=
  ⟨h2.1.trans h1.1, h2.2.1.trans h1.2.1, h2.2.2.1, h2.2.2.2.trans h1.2.2.2⟩

theorem bind_ok_inv {α β : Type} (x : M α) (f : α → M β) (s s' : SlicePrelude.St) (b : β)
    (h : (x >>= f) s = .ok b s') : ∃ a s1, x s = .ok a s1 ∧ f a s1 = .ok b s' := by
  rw [bind_run] at h
  cases hx : x s with
  | ok a s1 => exact ⟨a, s1, rfl, by simpa [hx] using h⟩
  | panic => simp [hx] at h
  | nofuel => simp [hx] at h

theorem append_away {N : Nat} {s s' : Sl} {v : Node} {st st' : SlicePrelude.St} (hN : N ≤ st.arrays.length)
    (ha : Away N s) (h : Go.append s v st = .ok s' st') : Away N s' ∧ Pres N st st' := by
  unfold SlicePrelude.Go.append at h
  by_cases hlt : s.len < s.cap
  · rw [if_pos hlt] at h
    simp only [Res.ok.injEq] at h
    obtain ⟨rfl, rfl⟩ := h
    have hNa := ha hlt
    refine ⟨fun _ => hNa, rfl, rfl, by simpa using hN, ?_⟩
    apply List.ext_getElem?
    intro i
    simp only [List.getElem?_take, List.getElem?_modify]
    by_cases hi : i < N
    · have : ¬ s.arr = i := by omega
      simp [hi, this]
    · simp [hi]
  · rw [if_neg hlt] at h
    simp only [Res.ok.injEq] at h
    obtain ⟨rfl, rfl⟩ := h
    refine ⟨fun _ => hN, rfl, rfl, by simp; omega, ?_⟩
    simp [List.take_append_of_le_length hN]

theorem idx_state {s : Sl} {i : Int} {st st' : SlicePrelude.St} {v : Node} (h : Go.idx s i st = .ok v st') : st' = st := by
  unfold SlicePrelude.Go.idx at h
  split at h
  · split at h
    · simp only [Res.ok.injEq] at h; exact h.2.symm
    · cases h
  · cases h

theorem append_away_all (N : Nat) : ∀ fuel : Nat,
    (∀ (nl : Sl) (node : Node) (st : SlicePrelude.St) (nl' : Sl) (st' : SlicePrelude.St), N ≤ st.arrays.length → Away N nl →
      NodeList_Append fuel nl node st = .ok nl' st' → Away N nl' ∧ Pres N st st') ∧
    (∀ (nl v : Sl) (k : Int) (st : SlicePrelude.St) (nl' : Sl) (st' : SlicePrelude.St), N ≤ st.arrays.length → Away N nl →
      NodeList_Append_loop1 fuel nl v k st = .ok nl' st' → Away N nl' ∧ Pres N st st') ∧
    (∀ (nl : Sl) (p k : Int) (st : SlicePrelude.St) (nl' : Sl) (st' : SlicePrelude.St), N ≤ st.arrays.length → Away N nl →
      NodeList_Append_loop2 fuel nl p k st = .ok nl' st' → Away N nl' ∧ Pres N st st') := by
  intro fuel
  induction fuel with
  | zero =>
    refine ⟨?_, ?_, ?_⟩
    · intro nl node st nl' st' _ _ h; rw [NodeList_Append] at h; cases h
    · intro nl v k st nl' st' _ _ h; rw [NodeList_Append_loop1] at h; cases h
    · intro nl p k st nl' st' _ _ h; rw [NodeList_Append_loop2] at h; cases h
  | succ f ih =>
    obtain ⟨ihA, ih1, ih2⟩ := ih
    refine ⟨?_, ?_, ?_⟩
    · intro nl node st nl' st' hN ha h
      rw [NodeList_Append] at h
      cases hl : Node.asList node with
      | some v =>
        simp only [hl] at h
        exact ih1 _ _ _ _ _ _ hN ha h
      | none =>
        simp only [hl] at h
        cases he : Node.asEmpty node with
        | some p =>
          simp only [he] at h
          exact ih2 _ _ _ _ _ _ hN ha h
        | none =>
          simp only [he] at h
          exact append_away hN ha h
    · intro nl v k st nl' st' hN ha h
      rw [NodeList_Append_loop1] at h
      split at h
      · obtain ⟨c, s1, h1, h2⟩ := bind_ok_inv _ _ _ _ _ h
        have := idx_state h1; subst this
        obtain ⟨nl1, s2, h3, h4⟩ := bind_ok_inv _ _ _ _ _ h2
        have r1 := ihA _ _ _ _ _ hN ha h3
        have r2 := ih1 _ _ _ _ _ _ r1.2.2.2.1 r1.1 h4
        exact ⟨r2.1, r1.2.trans r2.2⟩
      · simp only [pure_run, Res.ok.injEq] at h
        obtain ⟨rfl, rfl⟩ := h
        exact ⟨ha, Pres.refl hN⟩
    · intro nl p k st nl' st' hN ha h
      rw [NodeList_Append_loop2] at h
      split at h
      · obtain ⟨c, s1, h1, h2⟩ := bind_ok_inv _ _ _ _ _ h
        have := idx_state h1; subst this
        split at h2
        · simp only [pure_run, Res.ok.injEq] at h2
          obtain ⟨rfl, rfl⟩ := h2
          exact ⟨ha, Pres.refl hN⟩
        · exact ih2 _ _ _ _ _ _ hN ha h2
      · exact append_away hN ha h

/-! ### reachable states -/

theorem trimOK_of_hwf {s : St} {top : Nat → Nat} (inv : Inv s top) {h : Handle} (hw : HWF s top h)
    (hnil : h ≠ Handle.nil) : TrimOK s h := by
  cases h with
  | nil => exact absurd rfl hnil
  | ptr n => exact hw
  | empty p => trivial
  | eof p => trivial
  | list sl =>
    obtain ⟨hswf, hpos, _, hnn⟩ := hw
    have hlen : sl.len ≤ (cells s.arrs sl.arr).length := by
      rcases hswf.2 with h0 | ⟨_, h1⟩
      · have := hswf.1; omega
      · have := hswf.1; omega
    refine ⟨hlen, fun i hi => ?_⟩
    have hi' : i < (cells s.arrs sl.arr).length := by omega
    have hget : (cells s.arrs sl.arr).getD i Handle.nil = (cells s.arrs sl.arr)[i] := by
      simp [List.getD_eq_getElem?_getD, hi']
    rw [hget]
    refine ⟨fun hc => hnn ?_, inv.cellok sl.arr _ (List.getElem_mem hi')⟩
    rw [← hc]
    simp only [view]
    exact List.mem_iff_getElem.mpr ⟨i, by simp; omega, by simp⟩

theorem isNT_sim {nodes nodes' : List NodeObj} (h : NodesSim nodes nodes') (n : Nat) : isNT nodes' n = isNT nodes n := by
  unfold isNT
  cases hn : nodes[n]? with
  | some o =>
    obtain ⟨e, he⟩ := h.2 n o hn
    rw [he]
    cases o <;> rfl
  | none =>
    have : nodes'[n]? = none := by
      rw [List.getElem?_eq_none_iff] at hn ⊢
      rw [h.1]; exact hn
    rw [this]

theorem concH_sim {nodes nodes' : List NodeObj} (h : NodesSim nodes nodes') : concH nodes' = concH nodes := by
  funext c
  cases c <;> simp [concH, isNT_sim h]

end PV.AstTie
