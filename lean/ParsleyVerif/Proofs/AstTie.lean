/-
  The tie between the slice machine of C07 (Model/Slice.lean) and the in-place primitives TRANSLATED from the Go source on
  every run (Generated/FactsAst.lean, namespace PV.FactsAstProg; run-time Generated/SlicePrelude.lean).

  `conc` turns a state of the machine (node objects, arrays of handles) into a store of the run-time (node structs, arrays
  of interface values); the theorems say that running the translated function on `conc s` gives `conc` of what the machine
  computes — for every growth policy, every amount of fuel above an explicit bound.
-/
import ParsleyVerif.Proofs.SliceRun
import ParsleyVerif.Generated.FactsAst
set_option linter.unusedSimpArgs false
namespace PV.AstTie
open PV.Slice
open PV.SlicePrelude (Node Kind Cell Sl Res M Go.idx Go.setIdx Go.readerPos Go.setReaderPos Go.len)
open PV.FactsAstProg

def concSl (s : Slice) : Sl := ⟨s.arr, s.len, s.cap⟩

def isNT (nodes : List NodeObj) (n : Nat) : Bool :=
  match nodes[n]? with
  | some (.nt _ _ _ _) => true
  | _ => false

/-- a handle of the machine as an interface value: the dynamic type of a pointer is that of the object it points to -/
def concH (nodes : List NodeObj) : Handle → Node
  | .nil => .nil
  | .ptr n => if isNT nodes n then .nonterm n else .term n
  | .empty p => .empty p
  | .eof p => .eof p
  | .list s => .list (concSl s)

def concObj : NodeObj → Cell
  | .term tok val pos rpos => { readerPos := rpos, pos := pos, token := tok, value := val, children := ⟨0, 0, 0⟩ }
  | .nt tok ch pos rpos => { readerPos := rpos, pos := pos, token := tok, value := 0, children := concSl ch }

def conc (grow : Nat → Nat) (nodes : List NodeObj) (arrs : Arrs) : SlicePrelude.St :=
  { cells := nodes.map concObj, arrays := arrs.map (fun c => c.map (concH nodes)), grow := grow }

/-! ### the monad -/

theorem bind_ok {α β : Type} (x : M α) (f : α → M β) (s s' : SlicePrelude.St) (a : α) (h : x s = .ok a s') :
    (x >>= f) s = f a s' := by
  show SlicePrelude.M.bind x f s = _
  simp [SlicePrelude.M.bind, h]

theorem pure_run {α : Type} (a : α) (s : SlicePrelude.St) : (pure a : M α) s = .ok a s := rfl

/-! ### bump keeps the dynamic types -/

theorem isNT_bump (nodes : List NodeObj) (n d m : Nat) : isNT (nodes.modify n (NodeObj.bump d)) m = isNT nodes m := by
  unfold isNT
  rw [List.getElem?_modify]
  by_cases h : n = m
  · subst h
    cases hn : nodes[n]? with
    | none => simp
    | some o => cases o <;> simp [NodeObj.bump]
  · simp [h]

theorem concH_bump (nodes : List NodeObj) (n d : Nat) : concH (nodes.modify n (NodeObj.bump d)) = concH nodes := by
  funext h
  cases h <;> simp [concH, isNT_bump]

theorem concObj_bump (o : NodeObj) (d : Nat) :
    concObj (o.bump d) = { concObj o with readerPos := (concObj o).readerPos + d } := by
  cases o <;> simp [concObj, NodeObj.bump]

theorem conc_bump (grow : Nat → Nat) (nodes : List NodeObj) (arrs : Arrs) (n d : Nat) (o : NodeObj) (hn : nodes[n]? = some o) :
    conc grow (nodes.modify n (NodeObj.bump d)) arrs =
      { conc grow nodes arrs with
        cells := (conc grow nodes arrs).cells.set n { concObj o with readerPos := (concObj o).readerPos + d } } := by
  unfold conc
  simp only [concH_bump]
  congr 1
  apply List.ext_getElem?
  intro i
  rw [List.getElem?_map, List.getElem?_modify, List.getElem?_set]
  by_cases h : n = i
  · subst h
    have hl : n < nodes.length := by
      rcases Nat.lt_or_ge n nodes.length with h | h
      · exact h
      · rw [List.getElem?_eq_none h] at hn; cases hn
    have ho : nodes[n] = o := by
      rw [List.getElem?_eq_getElem hl] at hn
      exact Option.some.inj hn
    subst ho
    simp [hl, concObj_bump]
  · simp [h]

theorem bind_run {α β : Type} (x : M α) (f : α → M β) (s : SlicePrelude.St) :
    (x >>= f) s = match x s with
      | .ok a s' => f a s'
      | .panic => .panic
      | .nofuel => .nofuel := rfl

/-! ### node structs -/

theorem readerPos_conc (grow : Nat → Nat) (nodes : List NodeObj) (arrs : Arrs) (n : Nat) (o : NodeObj)
    (hn : nodes[n]? = some o) :
    Go.readerPos n (conc grow nodes arrs) = .ok (o.rpos : Int) (conc grow nodes arrs) := by
  unfold SlicePrelude.Go.readerPos
  have : (conc grow nodes arrs).cells[n]? = some (concObj o) := by simp [conc, hn]
  rw [this]
  cases o <;> rfl

theorem setReaderPos_conc (grow : Nat → Nat) (nodes : List NodeObj) (arrs : Arrs) (n d : Nat) (o : NodeObj)
    (hn : nodes[n]? = some o) :
    Go.setReaderPos n ((o.rpos : Int) + d) (conc grow nodes arrs) =
      .ok () (conc grow (nodes.modify n (NodeObj.bump d)) arrs) := by
  unfold SlicePrelude.Go.setReaderPos
  have : (conc grow nodes arrs).cells[n]? = some (concObj o) := by simp [conc, hn]
  rw [this, conc_bump grow nodes arrs n d o hn]
  cases o <;> rfl

/-- the call-back of the machine: `f = (· + d)` -/
def shift (d : Nat) : Int → Int := fun p => p + d

theorem term_tie (grow : Nat → Nat) (nodes : List NodeObj) (arrs : Arrs) (n d fuel : Nat) (o : NodeObj)
    (hn : nodes[n]? = some o) :
    TerminalNode_SetReaderPos (fuel + 1) n (shift d) (conc grow nodes arrs) =
      .ok () (conc grow (nodes.modify n (NodeObj.bump d)) arrs) := by
  rw [TerminalNode_SetReaderPos]
  simp only [bind_run, readerPos_conc grow nodes arrs n o hn, shift, setReaderPos_conc grow nodes arrs n d o hn, pure_run]

theorem nonterm_tie (grow : Nat → Nat) (nodes : List NodeObj) (arrs : Arrs) (n d fuel : Nat) (o : NodeObj)
    (hn : nodes[n]? = some o) :
    NonTerminalNode_SetReaderPos (fuel + 1) n (shift d) (conc grow nodes arrs) =
      .ok () (conc grow (nodes.modify n (NodeObj.bump d)) arrs) := by
  rw [NonTerminalNode_SetReaderPos]
  simp only [bind_run, readerPos_conc grow nodes arrs n o hn, shift, setReaderPos_conc grow nodes arrs n d o hn, pure_run]

theorem eof_tie (fuel : Nat) (p : Int) (f : Int → Int) (s : SlicePrelude.St) :
    EndNode_SetReaderPos (fuel + 1) p f s = .ok () s := by
  rw [EndNode_SetReaderPos]
  rfl

/-! ### one cell: `SetReaderPos(node, f)` on an element of a list -/

theorem cell_tie (grow : Nat → Nat) (nodes : List NodeObj) (arrs : Arrs) (d fuel : Nat) (c : Handle)
    (hc : CellOK nodes.length c) (hnil : c ≠ Handle.nil) :
    SetReaderPos (fuel + 2) (concH nodes c) (shift d) (conc grow nodes arrs) =
      .ok (concH (setRPCell d nodes c).1 (setRPCell d nodes c).2) (conc grow (setRPCell d nodes c).1 arrs) := by
  rw [SetReaderPos]
  cases c with
  | nil => exact absurd rfl hnil
  | list sl => exact absurd hc (by simp [CellOK])
  | empty p =>
    simp [concH, setRPCell, SlicePrelude.Node.hasKind, SlicePrelude.Node.kind, SlicePrelude.Node.asEmpty, pure_run, shift]
  | eof p =>
    simp [concH, setRPCell, SlicePrelude.Node.hasKind, SlicePrelude.Node.kind, bind_run, eof_tie, pure_run]
  | ptr n =>
    have hn : n < nodes.length := hc
    have ho : nodes[n]? = some nodes[n] := List.getElem?_eq_getElem hn
    simp only [setRPCell, concH, isNT_bump]
    by_cases hk : isNT nodes n = true
    · simp [hk, SlicePrelude.Node.hasKind, SlicePrelude.Node.kind, bind_run, nonterm_tie grow nodes arrs n d fuel _ ho, pure_run]
    · simp [hk, SlicePrelude.Node.hasKind, SlicePrelude.Node.kind, bind_run, term_tie grow nodes arrs n d fuel _ ho, pure_run]

/-! ### list arrays -/

theorem cellsOf_conc (grow : Nat → Nat) (nodes : List NodeObj) (arrs : Arrs) (a : Nat) :
    SlicePrelude.cellsOf (conc grow nodes arrs) a = (cells arrs a).map (concH nodes) := by
  simp only [SlicePrelude.cellsOf, conc, cells, List.getD_eq_getElem?_getD, List.getElem?_map]
  cases arrs[a]? <;> simp

theorem idx_conc (grow : Nat → Nat) (nodes : List NodeObj) (arrs : Arrs) (sl : Slice) (k : Nat)
    (hk : k < sl.len) (hl : sl.len ≤ (cells arrs sl.arr).length) :
    Go.idx (concSl sl) (k : Int) (conc grow nodes arrs) =
      .ok (concH nodes ((cells arrs sl.arr).getD k Handle.nil)) (conc grow nodes arrs) := by
  unfold SlicePrelude.Go.idx
  have h1 : (0 : Int) ≤ (k : Int) ∧ (k : Int) < ((concSl sl).len : Int) := by
    simp only [concSl]; omega
  rw [if_pos h1, cellsOf_conc]
  have hk' : k < (cells arrs sl.arr).length := by omega
  simp [concSl, hk', List.getD_eq_getElem?_getD]

theorem setIdx_conc (grow : Nat → Nat) (nodes : List NodeObj) (arrs : Arrs) (sl : Slice) (k : Nat) (v : Handle)
    (hk : k < sl.len) (hl : sl.len ≤ (cells arrs sl.arr).length) :
    Go.setIdx (concSl sl) (k : Int) (concH nodes v) (conc grow nodes arrs) =
      .ok () (conc grow nodes (writeCell arrs sl.arr k v)) := by
  unfold SlicePrelude.Go.setIdx
  have h1 : (0 : Int) ≤ (k : Int) ∧ (k : Int) < ((concSl sl).len : Int) ∧
      (k : Int).toNat < (SlicePrelude.cellsOf (conc grow nodes arrs) (concSl sl).arr).length := by
    rw [cellsOf_conc]
    simp only [concSl, List.length_map, Int.toNat_natCast]; omega
  rw [if_pos h1]
  congr 1
  simp only [conc, writeCell, concSl, Int.toNat_natCast]
  congr 1
  apply List.ext_getElem?
  intro i
  simp only [List.getElem?_modify, List.getElem?_map]
  by_cases h : sl.arr = i
  · subst h
    cases arrs[sl.arr]? <;> simp [List.map_set]
  · simp [h]

/-- what `NodeList.SetReaderPos` needs of the list it is applied to: the view lies inside the array, and every element
    in view is neither nil (Go would panic) nor a list (the machine does not recurse), pointers point to existing objects -/
def ListOK (nodes : Nat) (arrs : Arrs) (sl : Slice) : Prop :=
  sl.len ≤ (cells arrs sl.arr).length ∧
  ∀ i, i < sl.len → (cells arrs sl.arr).getD i Handle.nil ≠ Handle.nil ∧ CellOK nodes ((cells arrs sl.arr).getD i Handle.nil)

theorem setRPCell_length (d : Nat) (nodes : List NodeObj) (c : Handle) : (setRPCell d nodes c).1.length = nodes.length := by
  cases c <;> simp [setRPCell]

theorem setRPCell_ok (d : Nat) (nodes : List NodeObj) (c : Handle) (hc : CellOK nodes.length c) (hnil : c ≠ Handle.nil) :
    (setRPCell d nodes c).2 ≠ Handle.nil ∧ CellOK nodes.length (setRPCell d nodes c).2 := by
  cases c <;> simp_all [setRPCell, CellOK]

theorem ListOK.write {n : Nat} {arrs : Arrs} {sl : Slice} (h : ListOK n arrs sl) (k : Nat) (v : Handle)
    (hv : v ≠ Handle.nil ∧ CellOK n v) : ListOK n (writeCell arrs sl.arr k v) sl := by
  have hc : cells (writeCell arrs sl.arr k v) sl.arr = (cells arrs sl.arr).set k v := by
    by_cases ha : sl.arr < arrs.length
    · exact cells_modify_same arrs sl.arr _ ha
    · have ha' : arrs.length ≤ sl.arr := by omega
      unfold writeCell
      rw [cells_modify_oob arrs sl.arr _ ha', cells_oob arrs sl.arr ha']
      rfl
  unfold ListOK
  rw [hc]
  refine ⟨by simpa using h.1, fun i hi => ?_⟩
  have hi' : i < (cells arrs sl.arr).length := by have := h.1; omega
  simp only [List.getD_eq_getElem?_getD, List.getElem?_set]
  by_cases hki : k = i
  · subst hki
    simpa [hi'] using hv
  · simpa [hki, List.getD_eq_getElem?_getD] using h.2 i hi

theorem loop_tie (grow : Nat → Nat) (d : Nat) (sl : Slice) :
    ∀ (n k fuel : Nat) (nodes : List NodeObj) (arrs : Arrs), k + n = sl.len → n + 3 ≤ fuel →
      ListOK nodes.length arrs sl →
      NodeList_SetReaderPos_loop1 fuel (concSl sl) (shift d) (k : Int) (conc grow nodes arrs) =
        .ok () (conc grow (trimLoop d sl.arr n k nodes arrs).1 (trimLoop d sl.arr n k nodes arrs).2) := by
  intro n
  induction n with
  | zero =>
    intro k fuel nodes arrs hk hf _
    obtain ⟨f, rfl⟩ : ∃ f, fuel = f + 1 := ⟨fuel - 1, by omega⟩
    rw [NodeList_SetReaderPos_loop1]
    have : ¬ ((k : Int) < Go.len (concSl sl)) := by simp only [SlicePrelude.Go.len, concSl]; omega
    simp [this, trimLoop, pure_run]
  | succ n ih =>
    intro k fuel nodes arrs hk hf hok
    obtain ⟨f, rfl⟩ : ∃ f, fuel = f + 3 := ⟨fuel - 3, by omega⟩
    rw [NodeList_SetReaderPos_loop1]
    have hlt : (k : Int) < Go.len (concSl sl) := by simp only [SlicePrelude.Go.len, concSl]; omega
    have hk' : k < sl.len := by omega
    have hc := hok.2 k hk'
    have hcell := cell_tie grow nodes arrs d f _ hc.2 hc.1
    have hok' := setRPCell_ok d nodes _ hc.2 hc.1
    have hlen := setRPCell_length d nodes ((cells arrs sl.arr).getD k Handle.nil)
    have hw : ListOK (setRPCell d nodes ((cells arrs sl.arr).getD k Handle.nil)).1.length
        (writeCell arrs sl.arr k (setRPCell d nodes ((cells arrs sl.arr).getD k Handle.nil)).2) sl := by
      rw [hlen]; exact hok.write k _ hok'
    have hrec := ih (k + 1) (f + 2) _ _ (by omega) (by omega) hw
    have hcast : ((k : Int) + 1) = ((k + 1 : Nat) : Int) := by omega
    simp only [hlt, decide_true, if_true, bind_run, idx_conc grow nodes arrs sl k hk' hok.1, hcell,
      setIdx_conc grow _ arrs sl k _ hk' hok.1, hcast, hrec, trimLoop]

/-! ### `ast.SetReaderPos(node, f)` on a whole value -/

/-- what `ast.SetReaderPos` needs of its operand (the machine rejects a nil operand before `setRP`) -/
def TrimOK (s : St) : Handle → Prop
  | .nil => False
  | .ptr n => n < s.nodes.length
  | .list sl => ListOK s.nodes.length s.arrs sl
  | _ => True

/-- the fuel that certainly suffices -/
def trimFuel : Handle → Nat
  | .list sl => sl.len + 5
  | _ => 2

theorem setRP_tie (grow : Nat → Nat) (d : Nat) (s : St) (h : Handle) (hok : TrimOK s h) (fuel : Nat)
    (hf : trimFuel h ≤ fuel) :
    SetReaderPos fuel (concH s.nodes h) (shift d) (conc grow s.nodes s.arrs) =
      .ok (concH (setRP d s h).1.nodes (setRP d s h).2) (conc grow (setRP d s h).1.nodes (setRP d s h).1.arrs) := by
  cases h with
  | nil => exact absurd hok (by simp [TrimOK])
  | ptr n =>
    obtain ⟨f, rfl⟩ : ∃ f, fuel = f + 2 := ⟨fuel - 2, by simp only [trimFuel] at hf; omega⟩
    have := cell_tie grow s.nodes s.arrs d f (Handle.ptr n) hok (by simp)
    simpa [setRP, setRPCell] using this
  | empty p =>
    obtain ⟨f, rfl⟩ : ∃ f, fuel = f + 2 := ⟨fuel - 2, by simp only [trimFuel] at hf; omega⟩
    have := cell_tie grow s.nodes s.arrs d f (Handle.empty p) (by simp [CellOK]) (by simp)
    simpa [setRP, setRPCell] using this
  | eof p =>
    obtain ⟨f, rfl⟩ : ∃ f, fuel = f + 2 := ⟨fuel - 2, by simp only [trimFuel] at hf; omega⟩
    have := cell_tie grow s.nodes s.arrs d f (Handle.eof p) (by simp [CellOK]) (by simp)
    simpa [setRP, setRPCell] using this
  | list sl =>
    obtain ⟨f, rfl⟩ : ∃ f, fuel = f + 2 := ⟨fuel - 2, by simp only [trimFuel] at hf; omega⟩
    have hl := loop_tie grow d sl sl.len 0 f s.nodes s.arrs (by omega) (by simp only [trimFuel] at hf; omega) hok
    rw [SetReaderPos]
    have hcast : ((0 : Nat) : Int) = 0 := rfl
    rw [hcast] at hl
    have hkind : ∀ nodes, concH nodes (Handle.list sl) = Node.list (concSl sl) := fun _ => rfl
    simp only [hkind, setRP, SlicePrelude.Node.hasKind, SlicePrelude.Node.kind, bind_run, pure_run]
    rw [NodeList_SetReaderPos]
    simp [bind_run, hl, pure_run]

/-! ### reachable states -/

theorem trimOK_of_hwf {s : St} {top : Nat → Nat} (inv : Inv s top) {h : Handle} (hw : HWF s top h)
    (hnil : h ≠ Handle.nil) : TrimOK s h := by
  cases h with
  | nil => exact absurd rfl hnil
  | ptr n => exact hw
  | empty p => trivial
  | eof p => trivial
  | list sl =>
    obtain ⟨hswf, hpos, _, hnn⟩ := hw
    have hlen : sl.len ≤ (cells s.arrs sl.arr).length := by
      rcases hswf.2 with h0 | ⟨_, h1⟩
      · have := hswf.1; omega
      · have := hswf.1; omega
    refine ⟨hlen, fun i hi => ?_⟩
    have hi' : i < (cells s.arrs sl.arr).length := by omega
    have hget : (cells s.arrs sl.arr).getD i Handle.nil = (cells s.arrs sl.arr)[i] := by
      simp [List.getD_eq_getElem?_getD, hi']
    rw [hget]
    refine ⟨fun hc => hnn ?_, inv.cellok sl.arr _ (List.getElem_mem hi')⟩
    rw [← hc]
    simp only [view]
    exact List.mem_iff_getElem.mpr ⟨i, by simp; omega, by simp⟩

theorem isNT_sim {nodes nodes' : List NodeObj} (h : NodesSim nodes nodes') (n : Nat) : isNT nodes' n = isNT nodes n := by
  unfold isNT
  cases hn : nodes[n]? with
  | some o =>
    obtain ⟨e, he⟩ := h.2 n o hn
    rw [he]
    cases o <;> rfl
  | none =>
    have : nodes'[n]? = none := by
      rw [List.getElem?_eq_none_iff] at hn ⊢
      rw [h.1]; exact hn
    rw [this]

theorem concH_sim {nodes nodes' : List NodeObj} (h : NodesSim nodes nodes') : concH nodes' = concH nodes := by
  funext c
  cases c <;> simp [concH, isNT_sim h]

end PV.AstTie
