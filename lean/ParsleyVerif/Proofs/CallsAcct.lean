/-
  C17, part 1: the accounting of `RegisterCall` (`St.calls`) — for EVERY grammar.

  `RegisterCall` has exactly three call sites in the modelled code: Any (once per alternative), Choice
  (once per alternative tried) and `(*sequence).parse` (once per element invocation).  This file shows
  that nothing else moves the counter and gives the exact identity
      calls' = calls + (number of invocations) + Σ (cost of each invocation)
  for the three loops, parametric in the function `r` that runs a sub-parser.
-/
import ParsleyVerif.Proofs.RunLoops
import ParsleyVerif.Proofs.RunBasics
namespace PV

/-- one invocation of a sub-parser from a combinator that registers the call first -/
structure Inv where
  g : G
  ctx : Ctx
  pos : Nat
  st : St          -- the state before `RegisterCall`
  o : Out
  st' : St         -- the state when the sub-parser returned

/-- the invocation really happened: `RegisterCall`, then the sub-parser ran from that state -/
def Inv.ok (r : RunFn) (i : Inv) : Prop := r i.g i.ctx i.pos i.st.regCall = some (i.o, i.st')

/-- the calls made inside the invocation (not counting its own registration) -/
def Inv.cost (i : Inv) : Nat := i.st'.calls - (i.st.calls + 1)

/-- the invocations follow one another: each starts with the call count the previous one ended with
    (nothing in between moves the counter) -/
def Chained : Nat → List Inv → Nat → Prop
  | c, [], c' => c = c'
  | c, i :: is, c' => i.st.calls = c ∧ Chained i.st'.calls is c'

theorem Chained.append {c1 c2 c3 : Nat} {l1 l2 : List Inv} (h1 : Chained c1 l1 c2) (h2 : Chained c2 l2 c3) :
    Chained c1 (l1 ++ l2) c3 := by
  induction l1 generalizing c1 with
  | nil => simp only [Chained] at h1; subst h1; simpa using h2
  | cons i is ih => exact ⟨h1.1, ih h1.2⟩

/-- **the accounting identity**: a chain of invocations, each of which does not lower the counter, adds
    one call per invocation plus the calls made inside the invocations -/
theorem Chained.total {c c' : Nat} {l : List Inv} (h : Chained c l c')
    (hm : ∀ i ∈ l, i.st.calls + 1 ≤ i.st'.calls) :
    c' = c + l.length + (l.map Inv.cost).sum := by
  induction l generalizing c with
  | nil => simp only [Chained] at h; simp [h]
  | cons i is ih =>
    have h1 := ih h.2 (fun j hj => hm j (List.mem_cons_of_mem _ hj))
    have h2 := hm i (List.mem_cons_self ..)
    have h3 := h.1
    simp only [List.length_cons, List.map_cons, List.sum_cons, Inv.cost]
    omega

theorem Chained.le {c c' : Nat} {l : List Inv} (h : Chained c l c')
    (hm : ∀ i ∈ l, i.st.calls + 1 ≤ i.st'.calls) : c + l.length ≤ c' := by
  have := h.total hm; omega

/-! ### Any: every alternative is invoked, in order -/
theorem anyLoop_calls (r : RunFn) (ctx : Ctx) (pos : Nat) :
    ∀ (gs : List G) (a : AltSt) (st : St) (a' : AltSt) (st' : St),
      anyLoop r ctx pos gs a st = some (a', st') →
      ∃ invs : List Inv, invs.map Inv.g = gs ∧ (∀ i ∈ invs, i.ok r ∧ i.ctx = ctx ∧ i.pos = pos) ∧
        Chained st.calls invs st'.calls := by
  intro gs
  induction gs with
  | nil =>
    intro a st a' st' h
    simp only [anyLoop] at h
    cases h
    exact ⟨[], rfl, by simp, rfl⟩
  | cons g gs ih =>
    intro a st a' st' h
    simp only [anyLoop] at h
    split at h
    · cases h
    · rename_i o st1 hr
      obtain ⟨invs, h1, h2, h3⟩ := ih _ _ _ _ h
      refine ⟨⟨g, ctx, pos, st, o, st1⟩ :: invs, by simp [h1], ?_, ⟨rfl, h3⟩⟩
      intro i hi
      rcases List.mem_cons.mp hi with rfl | hi
      · exact ⟨hr, rfl, rfl⟩
      · exact h2 i hi

/-! ### Choice: the alternatives up to and including the first that matched -/
theorem choiceLoop_calls (r : RunFn) (ctx : Ctx) (pos : Nat) :
    ∀ (gs : List G) (a : AltSt) (st : St) (out : Option Out) (a' : AltSt) (st' : St),
      choiceLoop r ctx pos gs a st = some (out, a', st') →
      ∃ invs : List Inv, invs.map Inv.g <+: gs ∧ (∀ i ∈ invs, i.ok r ∧ i.ctx = ctx ∧ i.pos = pos) ∧
        Chained st.calls invs st'.calls ∧
        (out = none → invs.map Inv.g = gs ∧ ∀ i ∈ invs, i.o.res.isNil = true) ∧
        (∀ x, out = some x → ∃ l i, invs = l ++ [i] ∧ i.o.res.isNil = false ∧ ∀ j ∈ l, j.o.res.isNil = true) := by
  intro gs
  induction gs with
  | nil =>
    intro a st out a' st' h
    simp only [choiceLoop] at h
    cases h
    exact ⟨[], by simp, by simp, rfl, by simp, by simp⟩
  | cons g gs ih =>
    intro a st out a' st' h
    simp only [choiceLoop] at h
    split at h
    · cases h
    · rename_i o st1 hr
      by_cases hn : o.res.isNil = true
      · simp only [hn, Bool.not_true, Bool.false_eq_true, ↓reduceIte] at h
        obtain ⟨invs, h1, h2, h3, h4, h5⟩ := ih _ _ _ _ _ h
        refine ⟨⟨g, ctx, pos, st, o, st1⟩ :: invs, ?_, ?_, ⟨rfl, h3⟩, ?_, ?_⟩
        · simpa using h1
        · intro i hi
          rcases List.mem_cons.mp hi with rfl | hi
          · exact ⟨hr, rfl, rfl⟩
          · exact h2 i hi
        · intro ho
          obtain ⟨e1, e2⟩ := h4 ho
          refine ⟨by simp [e1], ?_⟩
          intro i hi
          rcases List.mem_cons.mp hi with rfl | hi
          · exact hn
          · exact e2 i hi
        · intro x hx
          obtain ⟨l, i, e1, e2, e3⟩ := h5 x hx
          refine ⟨⟨g, ctx, pos, st, o, st1⟩ :: l, i, by simp [e1], e2, ?_⟩
          intro j hj
          rcases List.mem_cons.mp hj with rfl | hj
          · exact hn
          · exact e3 j hj
      · have hn' : o.res.isNil = false := by simpa using hn
        simp only [hn', Bool.not_false, ↓reduceIte] at h
        cases h
        refine ⟨[⟨g, ctx, pos, st, o, st1⟩], by simp, ?_, ⟨rfl, ?_⟩, by simp, ?_⟩
        · intro i hi
          simp only [List.mem_singleton] at hi
          subst hi
          exact ⟨hr, rfl, rfl⟩
        · simp only [Chained]
          exact (setError_ctxErr _ _).2.2.2.2.symm
        · intro x _
          exact ⟨[], _, rfl, hn', by simp⟩

/-! ### the Sequence family: every element invocation -/
theorem seqParse_calls (r : RunFn) (sh : SeqShape) (fuel : Nat) (fr : Frame) (ss : SeqSt) (st : St)
    (b : Bool) (ss' : SeqSt) (st' : St) (hd : fr.depth = fr.nodes.length)
    (h : seqParse r sh fuel fr.depth fr.nodes fr.ctx fr.pos fr.merge ss st = some (b, ss', st')) :
    ∃ invs : List Inv, (∀ i ∈ invs, i.ok r ∧ ∃ d, sh.lookup d = some i.g) ∧ Chained st.calls invs st'.calls := by
  refine seqParse_ind r sh (fun _ _ _ => True)
    (fun _ s _ s' => ∃ invs : List Inv, (∀ i ∈ invs, i.ok r ∧ ∃ d, sh.lookup d = some i.g) ∧
      Chained s.calls invs s'.calls)
    ?_ ?_ ?_ ?_ ?_ fuel fr ss st b ss' st' trivial hd h
  · intro _ s; exact ⟨[], by simp, rfl⟩
  · rintro _ s1 _ s2 _ s3 ⟨l1, a1, c1⟩ ⟨l2, a2, c2⟩
    refine ⟨l1 ++ l2, ?_, c1.append c2⟩
    intro i hi
    rcases List.mem_append.mp hi with hi | hi
    · exact a1 i hi
    · exact a2 i hi
  · intros; trivial
  · intro fr ss st g o st1 _ _ hl hr
    have one : ∃ invs : List Inv, (∀ i ∈ invs, i.ok r ∧ ∃ d, sh.lookup d = some i.g) ∧
        Chained st.calls invs st1.calls := by
      refine ⟨[⟨g, fr.ctx, fr.pos, st, o, st1⟩], ?_, ⟨rfl, rfl⟩⟩
      intro i hi
      simp only [List.mem_singleton] at hi
      subst hi
      exact ⟨hr, fr.depth, hl⟩
    exact ⟨one, fun _ _ => trivial, fun _ _ => one⟩
  · intro fr ss st _ _ _ _
    exact ⟨[], by simp, rfl⟩

end PV
