/-
  The tie of the TERMINAL PARSERS: vocabulary.

  `factgen -out-term` translates the parse closures of text/terminal/*.go (Generated/FactsTerm.lean; run-time
  Generated/TermPrelude.lean on top of Generated/CorePrelude.lean).  The closures call the reader and four library
  functions through the world parameter `T : TWorld`.  This file states what is assumed of that world:

  * `TWorldRel T cfg` — the CONTRACTS.  The reader's methods answer what the model's functions (Model/Text.lean) answer
    on the file of `cfg`, a Go panic (`none`) exactly where the model says `none` (Props/C09P.lean proves these equations
    of the TRANSLATED reader functions for positions at or above the base offset; Props/C08P.lean those of the translated
    `unquoteString`); `ReadRegexp` with the TEXT of one of the five literal expressions (printed from the syntax trees
    of Spec/Regex.lean, whose leftmost-first semantics Props/C08.lean proves equal to the hand-written matchers) finds what
    that matcher finds; strconv.ParseInt(lexeme, 0, 64) on a lexeme of the integer syntax answers `parseInt0`;
    strconv.ParseFloat(lexeme, 64) fails exactly when `floatOk` is false, time.ParseDuration(lexeme) fails with the text
    `durErr` gives (their values are symbolic: the lexeme, as in the model's `Val.float` / `Val.dur`);
    strconv.UnquoteChar(s, '\'') answers `unquoteChar s 39`; strings.ToUpper on an ASCII string is `upperAscii` (used at
    construction time, for Word's token; strconv.Quote, also construction time, is not modelled: the model's terminals
    take the quoted name as a parameter).
  * `RegexpRel T cfg id rx gi` — the contract of the regexp engine for a user expression: `ReadRegexp` /
    `ReadRegexpSubmatch` with the text `rx` find the match `cfg.params.regexp id` reports, the capturing group `gi` being
    the group whose value it reports (absent: index out of range).
  * `CorrT x s o` — the outcome `x` of a translated closure started in state `s` is the model's outcome `o` of
    `Terminal.parse`: the embedded node / error in the unchanged state, a Go panic where the model says `.panic`.
-/
import ParsleyVerif.Proofs.CoreTieWrap
import ParsleyVerif.Generated.FactsTerm
import ParsleyVerif.Spec.Regex
import ParsleyVerif.Spec.Lang
namespace PV.TermTie
open PV.CoreTie PV.Text PV.TermPrelude

abbrev TWorld := PV.TermPrelude.TWorld
abbrev TM := PV.CorePrelude.M

/-! ### the monad, for any state -/

theorem bindT {σ α β : Type} (x : TM σ α) (f : α → TM σ β) (s : σ) :
    (x >>= f) s = match x s with
      | .ok a s' => f a s'
      | .panic => .panic
      | .nofuel => .nofuel := by
  show PV.CorePrelude.M.bind x f s = _
  unfold PV.CorePrelude.M.bind
  cases x s <;> rfl

theorem pureT {σ α : Type} (a : α) (s : σ) : (pure a : TM σ α) s = .ok a s := rfl

theorem iteT {σ α : Type} (c : Prop) (inst : Decidable c) (a b : TM σ α) (s : σ) :
    (@ite (TM σ α) c inst a b) s = @ite (CRes σ α) c inst (a s) (b s) := by
  split <;> rfl

theorem callT_some {σ α : Type} (a : α) (s : σ) : (Go.call (some a) : TM σ α) s = .ok a s := rfl
theorem callT_none {σ α : Type} (s : σ) : (Go.call (none : Option α) : TM σ α) s = .panic := rfl
theorem panicT {σ α : Type} (s : σ) : (CorePrelude.Go.panic : TM σ α) s = .panic := rfl

/-! ### what the world's functions return, from what the model's return -/

/-- (position, found) -/
def ePB (r : Nat × Bool) : Int × Bool := ((r.1 : Int), r.2)
/-- (position, bytes or nil) -/
def ePS (r : Nat × Option Bytes) : Int × Option Bytes := ((r.1 : Int), r.2)

/-- the text of an expression of Spec/Regex.lean, as the Go string constant -/
def rxBytes (sx : Rx.Sx) : Bytes := tokOf (String.ofList sx.src)

/-- a symbolic float64 / time.Duration value: the lexeme it was parsed from -/
def symOf (lex : Bytes) : CorePrelude.Opaque := lex.map Int.ofNat

/-- **the contracts of the world** -/
structure TWorldRel (T : TWorld) (cfg : Cfg) : Prop where
  readRune : ∀ p ch : Nat, T.Reader_ReadRune p ch = (readRune cfg.file p ch).map ePB
  matchString : ∀ (p : Nat) (s : Bytes), T.Reader_MatchString p s = (matchString cfg.file p s).map ePB
  matchWord : ∀ (p : Nat) (w : Bytes), T.Reader_MatchWord p w = (matchWord cfg.file p w).map ePB
  reInteger : ∀ p : Nat, T.Reader_ReadRegexp p (rxBytes Rx.integerSx) = (readRegexp integerMatch cfg.file p).map ePS
  reFloat : ∀ p : Nat, T.Reader_ReadRegexp p (rxBytes Rx.floatSx) = (readRegexp floatMatch cfg.file p).map ePS
  reDuration : ∀ p : Nat, T.Reader_ReadRegexp p (rxBytes Rx.durationSx) = (readRegexp durationMatch cfg.file p).map ePS
  reChar : ∀ p : Nat, T.Reader_ReadRegexp p (rxBytes Rx.charSx) = (readRegexp charMatch cfg.file p).map ePS
  reBackquote : ∀ p : Nat, T.Reader_ReadRegexp p (rxBytes Rx.backquoteSx) = (readRegexp backquoteMatch cfg.file p).map ePS
  readf : ∀ p : Nat, T.Reader_Readf p T.unquoteString = (readf unquoteString cfg.file p).map ePS
  isEOF : ∀ p : Nat, T.Reader_IsEOF p = isEOF cfg.file p
  remaining : ∀ p : Nat, T.Reader_Remaining p = (remaining cfg.file p : Nat)
  /-- strconv.ParseInt(lexeme, 0, 64) on a lexeme of the integer syntax -/
  parseInt : ∀ lex : Bytes, Lang.IsInt lex →
    match parseInt0 lex with
    | some v => T.strconv_ParseInt lex 0 64 = (v, .nil)
    | none => (T.strconv_ParseInt lex 0 64).2.isNil = false
  /-- strconv.ParseFloat(lexeme, 64) -/
  parseFloat : ∀ lex : Bytes,
    if cfg.params.floatOk lex then T.strconv_ParseFloat lex 64 = (symOf lex, .nil)
    else (T.strconv_ParseFloat lex 64).2.isNil = false
  /-- time.ParseDuration(lexeme) -/
  parseDuration : ∀ lex : Bytes,
    match cfg.params.durErr lex with
    | none => T.time_ParseDuration lex = (symOf lex, .nil)
    | some msg => (T.time_ParseDuration lex).2 = .other 0 msg
  /-- strconv.UnquoteChar(s, '\'') -/
  unquoteChar : ∀ s : Bytes,
    match unquoteChar s 39 with
    | some (v, tail) => ∃ mb, T.strconv_UnquoteChar s 39 = ((v : Int), mb, tail, .nil)
    | none => (T.strconv_UnquoteChar s 39).2.2.2.isNil = false
  /-- strings.ToUpper on an ASCII string (construction time: the token of terminal.Word) -/
  toUpper : ∀ w : Bytes, (∀ b ∈ w, b < 0x80) → T.strings_ToUpper w = upperAscii w

/-- the engine of the model for the user expression `id`: the length of the match -/
def userEngine (cfg : Cfg) (id : Nat) : Bytes → Option Nat := fun rest => (cfg.params.regexp id rest).map (·.1)

/-- **the contract of the regexp engine for the user expression `id`**, written `rx` in the Go program and used with the
    capturing group `gi` (0: the whole match) -/
structure RegexpRel (T : TWorld) (cfg : Cfg) (id : Nat) (rx : Bytes) (gi : Int) : Prop where
  whole : ∀ p : Nat, T.Reader_ReadRegexp p rx = (readRegexp (userEngine cfg id) cfg.file p).map ePS
  group : gi ≠ 0 → 0 < gi ∧ ∀ p : Nat,
    match readRegexp (userEngine cfg id) cfg.file p with
    | none => T.Reader_ReadRegexpSubmatch p rx = none
    | some (rp, none) => T.Reader_ReadRegexpSubmatch p rx = some ((rp : Int), none)
    | some (rp, some _) => ∃ ms, T.Reader_ReadRegexpSubmatch p rx = some ((rp : Int), some ms) ∧
        match cfg.params.regexp id (cfg.file.data.drop (p - cfg.file.offset)) with
        | some (_, some g) => ∃ v, ms[gi.toNat]? = some v ∧ Go.stringOfBytes v = g
        | _ => (ms.length : Int) ≤ gi

/-! ### outcomes -/

/-- the outcome of a translated terminal closure corresponds to the model's `TermOut` -/
def CorrT {σ : Type} (x : CRes σ (CNode × IntSet × CErr)) (s : σ) : TermOut → Prop
  | .node n => x = .ok (eNode n, [], .nil) s
  | .err e => x = .ok (.nil, [], eErr1 e) s
  | .panic _ => x = .panic

theorem corrT_node {σ : Type} {x : CRes σ (CNode × IntSet × CErr)} {s : σ} {n : PV.Node}
    (h : x = .ok (eNode n, [], .nil) s) : CorrT x s (.node n) := h
theorem corrT_err {σ : Type} {x : CRes σ (CNode × IntSet × CErr)} {s : σ} {e : PV.Err}
    (h : x = .ok (.nil, [], eErr1 e) s) : CorrT x s (.err e) := h
theorem corrT_panic {σ : Type} {x : CRes σ (CNode × IntSet × CErr)} {s : σ} {site : String}
    (h : x = .panic) : CorrT x s (.panic site) := h

/-! ### small facts about the prelude -/

theorem goStr_eq_tokOf (s : String) : CorePrelude.Go.str s = tokOf s := rfl

theorem stringOfRune_nat (ch : Nat) : Go.stringOfRune (ch : Int) = Utf8.encodeRune ch := by
  unfold Go.stringOfRune Utf8.encodeRune Utf8.validRune Utf8.isSurrogate Utf8.maxRune
  have h0 : ¬ ((ch : Int) < 0) := by omega
  simp only [h0, if_false, Int.toNat_natCast]
  by_cases h1 : ch < 0x80
  · simp [h1]
  · by_cases h2 : ch < 0x800
    · simp [h1, h2]
    · simp only [h1, h2, if_false]
      by_cases h3 : ch ≤ 0x10FFFF
      · by_cases h4 : (0xD800 ≤ ch ∧ ch ≤ 0xDFFF)
        · have : ¬ ch > 0x10FFFF := by omega
          simp [h3, h4]
        · have h5 : ¬ ch > 0x10FFFF := by omega
          have h6 : (decide (0xD800 ≤ ch) && decide (ch ≤ 0xDFFF)) = false := by
            rcases Nat.lt_or_ge ch 0xD800 with h | h
            · simp; omega
            · have : ¬ ch ≤ 0xDFFF := fun h' => h4 ⟨h, h'⟩
              simp [this]
          simp [h3, h5, h6]
      · have h5 : ch > 0x10FFFF := by omega
        simp [h3, h5]

theorem eNode_term (tok : Bytes) (v : Val) (p r : Nat) :
    eNode (.term tok v p r) = .leaf tok (eVal v) p r := by simp [eNode]

theorem eErr1_mk (p : Nat) (k : ErrKind) : eErr1 ⟨p, k⟩ = .mk (p : Int) (eKind k) := rfl

end PV.TermTie
