/-
  Value-level facts needed by the completeness half of C01: AppendNode and IntSet.Union never LOSE an
  element, what `ResultCache.Get` checks, what `leftRecCtx.Filter(cp)` keeps, tokens of sequence nodes.
-/
import ParsleyVerif.Spec.DerivesC
import ParsleyVerif.Proofs.RunBasics
namespace PV
open PV.Text

/-! ### AppendNode never loses an alternative -/

theorem mem_nlAppend1_left (nl : List Node) (n x : Node) (h : x ∈ nl) : x ∈ nlAppend1 nl n := by
  unfold nlAppend1
  split
  · split
    · exact h
    · exact List.mem_append_left _ h
  · exact List.mem_append_left _ h

theorem mem_nlAppend1_self (nl : List Node) (n : Node) : n ∈ nlAppend1 nl n := by
  unfold nlAppend1
  split
  · rename_i p
    split
    · rename_i hany
      obtain ⟨y, hy, hye⟩ := List.any_eq_true.mp hany
      cases y with
      | empty q =>
        simp only [Node.isEmptyAt, beq_iff_eq] at hye
        subst hye; exact hy
      | term _ _ _ _ => simp [Node.isEmptyAt] at hye
      | eof _ => simp [Node.isEmptyAt] at hye
      | nt _ _ _ _ _ => simp [Node.isEmptyAt] at hye
    · simp
  · simp

theorem mem_foldl_nlAppend1_left (l : List Node) : ∀ (nl : List Node) (x : Node), x ∈ nl → x ∈ l.foldl nlAppend1 nl := by
  induction l with
  | nil => intro nl x h; exact h
  | cons n l ih => intro nl x h; rw [List.foldl_cons]; exact ih _ _ (mem_nlAppend1_left nl n x h)

theorem mem_foldl_nlAppend1_right (l : List Node) : ∀ (nl : List Node) (x : Node), x ∈ l → x ∈ l.foldl nlAppend1 nl := by
  induction l with
  | nil => intro nl x h; cases h
  | cons n l ih =>
    intro nl x h
    rw [List.foldl_cons]
    cases h with
    | head => exact mem_foldl_nlAppend1_left l _ _ (mem_nlAppend1_self nl n)
    | tail _ hm => exact ih _ _ hm

theorem mem_nlAppend_left (nl : List Node) (b : Res) (x : Node) (h : x ∈ nl) : x ∈ nlAppend nl b := by
  cases b with
  | nil => exact h
  | one n => exact mem_nlAppend1_left nl n x h
  | list l => exact mem_foldl_nlAppend1_left l nl x h

theorem mem_nlAppend_right (nl : List Node) (b : Res) (x : Node) (h : x ∈ b.alts) : x ∈ nlAppend nl b := by
  cases b with
  | nil => cases h
  | one n =>
    simp only [Res.alts, List.mem_singleton] at h
    subst h; exact mem_nlAppend1_self nl x
  | list l => exact mem_foldl_nlAppend1_right l nl x h

/-- the converse of `mem_appendNode`: only an EMPTY node equal to one already present is skipped -/
theorem mem_appendNode_left (a b : Res) (x : Node) (h : x ∈ a.alts) : x ∈ (appendNode a b).alts := by
  cases a with
  | nil => cases h
  | one n =>
    cases b with
    | nil => exact h
    | one m => exact mem_nlAppend_left [n] (.one m) x h
    | list l => exact mem_nlAppend_left [n] (.list l) x h
  | list la =>
    cases b with
    | nil => exact h
    | one m => exact mem_nlAppend_left la (.one m) x h
    | list l => exact mem_nlAppend_left la (.list l) x h

theorem mem_appendNode_right (a b : Res) (x : Node) (h : x ∈ b.alts) : x ∈ (appendNode a b).alts := by
  cases a with
  | nil => simpa [appendNode] using h
  | one n =>
    cases b with
    | nil => cases h
    | one m => exact mem_nlAppend_right [n] (.one m) x h
    | list l => exact mem_nlAppend_right [n] (.list l) x h
  | list la =>
    cases b with
    | nil => cases h
    | one m => exact mem_nlAppend_right la (.one m) x h
    | list l => exact mem_nlAppend_right la (.list l) x h

theorem mem_appendNode_iff (a b : Res) (x : Node) : x ∈ (appendNode a b).alts ↔ x ∈ a.alts ∨ x ∈ b.alts :=
  ⟨mem_appendNode a b x, fun h => h.elim (mem_appendNode_left a b x) (mem_appendNode_right a b x)⟩

/-! ### IntSet.Union never loses a member (sortedness is not needed for this direction) -/

theorem mem_cpUnion_left : ∀ (a b : List Nat) (k : Nat), k ∈ a → k ∈ cpUnion a b
  | [], b, k, h => by cases h
  | x :: xs, [], k, h => by simpa [cpUnion] using h
  | x :: xs, y :: ys, k, h => by
    unfold cpUnion
    split
    · cases h with
      | head => exact List.mem_cons_self ..
      | tail _ hm => exact List.mem_cons_of_mem _ (mem_cpUnion_left xs (y :: ys) k hm)
    · split
      · exact List.mem_cons_of_mem _ (mem_cpUnion_left (x :: xs) ys k h)
      · cases h with
        | head => exact List.mem_cons_self ..
        | tail _ hm => exact List.mem_cons_of_mem _ (mem_cpUnion_left xs ys k hm)

theorem mem_cpUnion_right : ∀ (a b : List Nat) (k : Nat), k ∈ b → k ∈ cpUnion a b
  | [], b, k, h => by simpa [cpUnion] using h
  | x :: xs, [], k, h => by cases h
  | x :: xs, y :: ys, k, h => by
    unfold cpUnion
    split
    · exact List.mem_cons_of_mem _ (mem_cpUnion_right xs (y :: ys) k h)
    · split
      · cases h with
        | head => exact List.mem_cons_self ..
        | tail _ hm => exact List.mem_cons_of_mem _ (mem_cpUnion_right (x :: xs) ys k hm)
      · rename_i h1 h2
        have hxy : x = y := by omega
        cases h with
        | head => rw [hxy]; exact List.mem_cons_self ..
        | tail _ hm => exact List.mem_cons_of_mem _ (mem_cpUnion_right xs ys k hm)

/-! ### ResultCache.Get and leftRecCtx.Filter -/

/-- a hit means: every counter STORED with the entry is at most the current one -/
theorem cacheGet_ctx {c : List CacheEntry} {idx pos : Nat} {ctx : Ctx} {e : CacheEntry}
    (h : cacheGet c idx pos ctx = some e) : ∀ kv ∈ e.ctx, kv.2 ≤ ctx.get kv.1 := by
  unfold cacheGet at h
  split at h
  · cases h
  · rename_i e' hf
    split at h
    · rename_i hall
      cases h
      intro kv hkv
      have := List.all_eq_true.mp hall kv hkv
      simpa using this
    · cases h

theorem mem_ctx_filter {ctx : Ctx} {keys : List Nat} {kv : Nat × Nat} :
    kv ∈ ctx.filter keys ↔ kv ∈ ctx ∧ kv.1 ∈ keys := by
  unfold Ctx.filter
  rw [List.mem_filter]
  simp

/-- if `c'` dominates the counters kept by `Filter(cp)`, it dominates the context on every key of `cp` -/
theorem get_le_of_filter {ctx : Ctx} {cp : List Nat} {c' : Nat → Nat}
    (h : ∀ kv ∈ ctx.filter cp, kv.2 ≤ c' kv.1) : ∀ k ∈ cp, ctx.get k ≤ c' k := by
  intro k hk
  unfold Ctx.get
  cases hf : List.find? (fun kv => kv.1 == k) ctx with
  | none => simp
  | some kv =>
    have hm := List.mem_of_find?_eq_some hf
    have hk1 := List.find?_some hf
    simp only [beq_iff_eq] at hk1
    have := h kv (mem_ctx_filter.mpr ⟨hm, hk1 ▸ hk⟩)
    simp only [Option.map_some, Option.getD_some]
    rw [hk1] at this; exact this

/-! ### tokens of the nodes a sequence builds -/

theorem handleResult_token (sh : SeqShape) (p : Nat) (nodes : List Node) (ht : sh.token ≠ eofTok)
    (hn : ∀ n ∈ nodes, n.token ≠ eofTok) : (handleResult sh p nodes).token ≠ eofTok := by
  cases nodes with
  | nil => exact ht
  | cons n rest =>
    cases rest with
    | nil =>
      by_cases hs : sh.single = true
      · simp only [handleResult, hs, ↓reduceIte]; exact hn n (List.mem_cons_self ..)
      · simp only [handleResult, hs]; exact ht
    | cons m rest => exact ht

theorem handleResult_rpos (sh : SeqShape) (p : Nat) (nodes : List Node) :
    (handleResult sh p nodes).rpos = endOf p nodes := by
  cases nodes with
  | nil => rfl
  | cons n rest =>
    cases rest with
    | nil =>
      by_cases hs : sh.single = true
      · simp [handleResult, hs, endOf]
      · simp [handleResult, hs, endOf, Node.rpos]
    | cons m rest =>
      show (((m :: rest).getLast?).getD n).rpos = endOf p (n :: m :: rest)
      simp only [endOf]
      rw [List.getLast?_cons_cons]
      cases h : (m :: rest).getLast? with
      | none => simp at h
      | some l => simp

end PV
