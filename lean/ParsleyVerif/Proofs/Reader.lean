import ParsleyVerif.Spec.ReaderSpec
namespace PV.Text

theorem rest_length (f : File) (pos : Nat) (h : InFile f pos) : (rest f pos).length = f.offset + f.len - pos := by
  unfold rest File.len at *; simp; unfold InFile File.len at h; omega

theorem rest_head (f : File) (pos : Nat) : (rest f pos).head? = f.data[pos - f.offset]? := by
  unfold rest; simp [List.head?_drop]

/-! ### ReadRune -/
theorem readRune_ascii (f : File) (pos ch : Nat) (h : InFile f pos) (hc : ch < 0x80) :
    readRune f pos ch = some (if (rest f pos).head? = some ch then (pos + 1, true) else (pos, false)) := by
  obtain ⟨h1, h2⟩ := h
  unfold readRune
  rw [if_neg (by omega)]
  simp only []
  by_cases hge : pos - f.offset ≥ f.len
  · rw [if_pos hge]
    have : (rest f pos).head? = none := by
      rw [rest_head]; unfold File.len at hge; simp; omega
    simp [this]
  · rw [if_neg hge, if_pos hc, rest_head]
    have hlt : pos - f.offset < f.data.length := by unfold File.len at hge; omega
    rw [List.getElem?_eq_getElem hlt]
    simp only [File.pos, Option.some.injEq]
    by_cases he : ch = f.data[pos - f.offset]
    · rw [if_pos he, if_pos he.symm]; congr 2; omega
    · rw [if_neg he, if_neg (fun h => he h.symm)]

theorem readRune_multibyte (f : File) (pos ch : Nat) (h : InFile f pos) (hc : ¬ ch < 0x80) :
    readRune f pos ch = some (if rest f pos ≠ [] ∧ (Utf8.decodeRune (rest f pos)).1 = ch
      then (pos + (Utf8.decodeRune (rest f pos)).2, true) else (pos, false)) := by
  obtain ⟨h1, h2⟩ := h
  unfold readRune
  rw [if_neg (by omega)]
  simp only []
  by_cases hge : pos - f.offset ≥ f.len
  · rw [if_pos hge]
    have : rest f pos = [] := by unfold rest; unfold File.len at hge; simp; omega
    simp [this]
  · rw [if_neg hge, if_neg hc]
    have hne : rest f pos ≠ [] := by
      unfold rest; unfold File.len at hge; simp; omega
    have hr : List.drop (pos - f.offset) f.data = rest f pos := rfl
    rw [hr]
    rcases hd : Utf8.decodeRune (rest f pos) with ⟨r, w⟩
    simp only [hne, ne_eq, not_false_eq_true, true_and, File.pos]
    by_cases he : r = ch
    · rw [if_pos he, if_pos he]; congr 2; omega
    · rw [if_neg he, if_neg he]

/-! ### MatchString -/
theorem matchString_spec (f : File) (pos : Nat) (s : Bytes) (h : InFile f pos) (hs : s ≠ []) :
    matchString f pos s = some (if s <+: rest f pos then (pos + s.length, true) else (pos, false)) := by
  obtain ⟨h1, h2⟩ := h
  have hl : f.len = f.data.length := rfl
  unfold matchString
  rw [if_neg hs, if_neg (by omega)]
  simp only []
  by_cases hg : s.length + (pos - f.offset) > f.data.length
  · rw [if_pos hg]
    have : ¬ s <+: rest f pos := by
      intro hp
      have := hp.length_le
      unfold rest at this; simp at this; omega
    rw [if_neg this]
  · rw [if_neg hg]
    by_cases hp : s <+: rest f pos
    · rw [if_pos hp, if_pos (by unfold rest at hp; exact List.isPrefixOf_iff_prefix.mpr hp)]
      simp only [File.pos]; congr 2; omega
    · rw [if_neg hp, if_neg (by unfold rest at hp; intro hh; exact hp (List.isPrefixOf_iff_prefix.mp hh))]

/-! ### MatchWord -/
theorem matchWordLoop_spec (data : Bytes) (cur : Nat) : ∀ (w : Bytes) (i : Nat),
    (∀ b ∈ w, b < 0x80) → w.length + cur + i ≤ data.length →
    matchWordLoop data cur w i = some (w.isPrefixOf (data.drop (cur + i))) := by
  intro w
  induction w with
  | nil => intro i _ _; simp [matchWordLoop]
  | cons b r ih =>
    intro i ha hl
    have hb : b < 0x80 := ha b (by simp)
    have hlt : cur + i < data.length := by simp at hl; omega
    unfold matchWordLoop
    rw [if_neg (by omega), List.getElem?_eq_getElem hlt]
    simp only []
    have hd : data.drop (cur + i) = data[cur + i] :: data.drop (cur + i + 1) := List.drop_eq_getElem_cons hlt
    rw [hd]
    by_cases he : b = data[cur + i]
    · rw [if_neg (by simpa using he)]
      rw [ih (i + 1) (fun x hx => ha x (by simp [hx])) (by simp at hl ⊢; omega)]
      simp [List.isPrefixOf, he]
      rfl
    · rw [if_pos he]
      simp [List.isPrefixOf, he]

theorem matchWord_spec (f : File) (pos : Nat) (w : Bytes) (h : InFile f pos) (hw : w ≠ [])
    (ha : ∀ b ∈ w, b < 0x80) :
    matchWord f pos w = some (if w <+: rest f pos ∧ ((rest f pos).drop w.length).head?.all (fun d => !isWordByte d)
      then (pos + w.length, true) else (pos, false)) := by
  obtain ⟨h1, h2⟩ := h
  have hl : f.len = f.data.length := rfl
  unfold matchWord
  rw [if_neg hw, if_neg (by omega)]
  simp only []
  by_cases hg : w.length + (pos - f.offset) > f.data.length
  · rw [if_pos hg]
    have : ¬ w <+: rest f pos := by
      intro hp
      have := hp.length_le
      unfold rest at this; simp at this; omega
    rw [if_neg (fun hh => this hh.1)]
  · rw [if_neg hg]
    rw [matchWordLoop_spec f.data (pos - f.offset) w 0 ha (by omega)]
    simp only [Nat.add_zero]
    by_cases hp : w <+: rest f pos
    · have hpb : w.isPrefixOf (f.data.drop (pos - f.offset)) = true := List.isPrefixOf_iff_prefix.mpr hp
      rw [hpb]
      simp only []
      have hdrop : ((rest f pos).drop w.length).head? = f.data[pos - f.offset + w.length]? := by
        unfold rest; simp [List.head?_drop]
      by_cases hz : f.data.length - (pos - f.offset) - w.length = 0
      · rw [if_pos hz]
        have : f.data[pos - f.offset + w.length]? = none := by simp; omega
        rw [hdrop, this]
        simp [hp, File.pos]; omega
      · rw [if_neg hz]
        have hlt : pos - f.offset + w.length < f.data.length := by omega
        rw [hdrop, List.getElem?_eq_getElem hlt]
        simp only [Option.all_some, hp, true_and, File.pos]
        by_cases hwb : isWordByte f.data[pos - f.offset + w.length] = true
        · simp [hwb]
        · simp [hwb]; omega
    · have hpb : w.isPrefixOf (f.data.drop (pos - f.offset)) = false := by
        cases hh : w.isPrefixOf (f.data.drop (pos - f.offset)) with
        | false => rfl
        | true => exact absurd (List.isPrefixOf_iff_prefix.mp hh) hp
      rw [hpb]
      simp [hp]

/-! ### ReadRegexp, Readf (parametric) -/
theorem readRegexp_spec (engine : Bytes → Option Nat) (f : File) (pos : Nat) (h : InFile f pos)
    (hc : ∀ r m, engine r = some m → m ≤ r.length) :
    readRegexp engine f pos = some (
      if rest f pos = [] then (pos, none) else
      match engine (rest f pos) with
      | none => (pos, none)
      | some m => (pos + m, some ((rest f pos).take m))) := by
  obtain ⟨h1, h2⟩ := h
  unfold readRegexp
  rw [if_neg (by omega)]
  simp only []
  by_cases hge : pos - f.offset ≥ f.len
  · rw [if_pos hge]
    have : rest f pos = [] := by unfold rest; unfold File.len at hge; simp; omega
    simp [this]
  · rw [if_neg hge]
    have hne : rest f pos ≠ [] := by unfold rest; unfold File.len at hge; simp; omega
    rw [if_neg hne]
    show (match engine (rest f pos) with | none => _ | some m => _) = _
    cases he : engine (rest f pos) with
    | none => rfl
    | some m =>
      have hm := hc _ _ he
      unfold rest at hm; simp at hm
      have hl : f.len = f.data.length := rfl
      simp only []
      rw [if_neg (by omega)]
      simp only [File.pos, rest]
      congr 2; omega

theorem readf_spec (fn : Bytes → Option Bytes × Nat) (f : File) (pos : Nat) (h : InFile f pos) :
    readf fn f pos =
      if rest f pos = [] then some (pos, none) else
      if (fn (rest f pos)).2 = 0 then (if (fn (rest f pos)).1.isSome then none else some (pos, none))
      else if (fn (rest f pos)).2 < ((fn (rest f pos)).1.getD []).length ∨ (fn (rest f pos)).2 > (rest f pos).length then none
      else some (pos + (fn (rest f pos)).2, (fn (rest f pos)).1) := by
  obtain ⟨h1, h2⟩ := h
  have hrl := rest_length f pos ⟨h1, h2⟩
  unfold readf
  rw [if_neg (by omega)]
  simp only []
  by_cases hge : pos - f.offset ≥ f.len
  · rw [if_pos hge]
    have : rest f pos = [] := by unfold rest; unfold File.len at hge; simp; omega
    simp [this]
  · rw [if_neg hge]
    have hne : rest f pos ≠ [] := by unfold rest; unfold File.len at hge; simp; omega
    rw [if_neg hne]
    have hr : List.drop (pos - f.offset) f.data = rest f pos := rfl
    rw [hr]
    rcases hfn : fn (rest f pos) with ⟨value, nextPos⟩
    simp only []
    by_cases hz : nextPos = 0
    · rw [if_pos hz, if_pos hz]
    · rw [if_neg hz, if_neg hz]
      have e : (pos - f.offset + nextPos > f.len) ↔ (nextPos > (rest f pos).length) := by
        rw [hrl]; constructor <;> intro <;> omega
      by_cases hbad : nextPos < (value.getD []).length ∨ pos - f.offset + nextPos > f.len
      · rw [if_pos hbad, if_pos (by rcases hbad with hb | hb; exact Or.inl hb; exact Or.inr (e.mp hb))]
      · rw [if_neg hbad, if_neg (by intro hh; rcases hh with hb | hb; exact hbad (Or.inl hb); exact hbad (Or.inr (e.mpr hb)))]
        simp only [File.pos]; congr 2; omega

/-! ### Remaining, IsEOF -/
theorem remaining_spec (f : File) (pos : Nat) (h : InFile f pos) : remaining f pos = (rest f pos).length := by
  rw [rest_length f pos h]; unfold remaining; unfold InFile at h; omega

theorem isEOF_spec (f : File) (pos : Nat) (h : InFile f pos) : isEOF f pos = true ↔ rest f pos = [] := by
  unfold isEOF rest File.len; unfold InFile File.len at h; simp

end PV.Text
