/-
  C17, part 4: the ghost flag (`cfg.ghost`: whether the model keeps its event log) does not influence the run.
  `run` with the flag off, from the state with the log erased, returns the same outcome and the same state
  up to the log — in particular the same call count.  For EVERY grammar.
-/
import ParsleyVerif.Proofs.RunLoops
import ParsleyVerif.Proofs.RunBasics
namespace PV.C17
open PV.Text

/-- the state without its event log -/
def noLog (st : St) : St := { st with log := [] }

def noLogOS (x : Out × St) : Out × St := (x.1, noLog x.2)

/-- `r'` does from the log-free state what `r` does, up to the log -/
def Sim (r r' : RunFn) : Prop := ∀ g ctx pos st, r' g ctx pos (noLog st) = (r g ctx pos st).map noLogOS

theorem noLog_setError (st : St) (e : Option Err) : noLog (st.setError e) = (noLog st).setError e := by
  unfold St.setError
  cases e with
  | none => rfl
  | some e =>
    simp only [noLog]
    split
    · rfl
    · split <;> rfl

theorem noLog_logEv (cfg : Cfg) (st : St) (e : Ev) : noLog (st.logEv cfg e) = noLog st := by
  unfold St.logEv
  split <;> rfl

theorem logEv_off (cfg : Cfg) (st : St) (e : Ev) : st.logEv { cfg with ghost := false } e = st := by
  simp [St.logEv]

theorem anyLoop_sim {r r' : RunFn} (h : Sim r r') (ctx : Ctx) (pos : Nat) :
    ∀ gs a st, anyLoop r' ctx pos gs a (noLog st) = (anyLoop r ctx pos gs a st).map (fun x => (x.1, noLog x.2)) := by
  intro gs
  induction gs with
  | nil => intro a st; rfl
  | cons g gs ih =>
    intro a st
    simp only [anyLoop]
    have := h g ctx pos st.regCall
    rw [show noLog st.regCall = (noLog st).regCall from rfl] at this
    rw [this]
    cases r g ctx pos st.regCall with
    | none => rfl
    | some x => exact ih _ _

theorem choiceLoop_sim {r r' : RunFn} (h : Sim r r') (ctx : Ctx) (pos : Nat) :
    ∀ gs a st, choiceLoop r' ctx pos gs a (noLog st) =
      (choiceLoop r ctx pos gs a st).map (fun x => (x.1, x.2.1, noLog x.2.2)) := by
  intro gs
  induction gs with
  | nil => intro a st; rfl
  | cons g gs ih =>
    intro a st
    simp only [choiceLoop]
    have := h g ctx pos st.regCall
    rw [show noLog st.regCall = (noLog st).regCall from rfl] at this
    rw [this]
    cases r g ctx pos st.regCall with
    | none => rfl
    | some x =>
      obtain ⟨o, st1⟩ := x
      simp only [Option.map_some, noLogOS]
      split
      · simp [noLog_setError]
      · exact ih _ _

theorem seqAlts_sim (k k' : Node → SeqSt → St → Option (Bool × SeqSt × St))
    (hk : ∀ n ss st, k' n ss (noLog st) = (k n ss st).map (fun x => (x.1, x.2.1, noLog x.2.2))) :
    ∀ l ss st, seqAlts k' l ss (noLog st) = (seqAlts k l ss st).map (fun x => (x.1, x.2.1, noLog x.2.2)) := by
  intro l
  induction l with
  | nil => intro ss st; rfl
  | cons n rest ih =>
    intro ss st
    simp only [seqAlts]
    rw [hk]
    cases k n ss st with
    | none => rfl
    | some x =>
      obtain ⟨b, ss1, st1⟩ := x
      cases b
      · exact ih _ _
      · rfl

theorem seqParse_sim {r r' : RunFn} (h : Sim r r') (sh : SeqShape) :
    ∀ fuel depth nodes ctx pos merge ss st,
      seqParse r' sh fuel depth nodes ctx pos merge ss (noLog st) =
        (seqParse r sh fuel depth nodes ctx pos merge ss st).map (fun x => (x.1, x.2.1, noLog x.2.2)) := by
  intro fuel
  induction fuel with
  | zero => intros; rfl
  | succ fuel ih =>
    intro depth nodes ctx pos merge ss st
    simp only [seqParse]
    cases hl : sh.lookup depth with
    | none =>
      simp only
      split
      · split <;> rfl
      · rfl
    | some g =>
      simp only
      have := h g ctx pos st.regCall
      rw [show noLog st.regCall = (noLog st).regCall from rfl] at this
      rw [this]
      cases r g ctx pos st.regCall with
      | none => rfl
      | some x =>
        obtain ⟨o, st1⟩ := x
        simp only [Option.map_some, noLogOS]
        split
        · split
          · split <;> rfl
          · rfl
        · exact seqAlts_sim _ _ (fun n ss st => ih _ _ _ _ _ _ _) _ _ _

/-- **the ghost flag is not observable**: outcome, cache, furthest error, call count and activation stack
    are the same with the event log switched off -/
theorem run_ghost (cfg : Cfg) : ∀ fuel g ctx pos st,
    run { cfg with ghost := false } fuel g ctx pos (noLog st) = (run cfg fuel g ctx pos st).map noLogOS := by
  intro fuel
  induction fuel with
  | zero => intros; rfl
  | succ fuel ih =>
    intro g ctx pos st
    have hsim : Sim (run cfg fuel) (run { cfg with ghost := false } fuel) := ih
    have hwrap : ∀ (g' : G) (p : Nat) (F : Out → St → Option (Out × St)),
        (∀ o s, F o (noLog s) = (F o s).map noLogOS) →
        (match run { cfg with ghost := false } fuel g' ctx p (noLog st) with
          | none => none
          | some (o, s) => F o s) =
        (match run cfg fuel g' ctx p st with
          | none => none
          | some (o, s) => F o s).map noLogOS := by
      intro g' p F hF
      rw [ih]
      cases run cfg fuel g' ctx p st with
      | none => rfl
      | some x => exact hF _ _
    by_cases hmax : cfg.maxCalls ≠ 0 ∧ st.calls > cfg.maxCalls
    · have hmax' : cfg.maxCalls ≠ 0 ∧ (noLog st).calls > cfg.maxCalls := hmax
      cases g <;> simp [run, hmax, hmax']
    · have hmax' : ¬ (cfg.maxCalls ≠ 0 ∧ (noLog st).calls > cfg.maxCalls) := hmax
      cases g with
      | term t =>
        simp only [run, hmax, hmax', if_false]
        cases Terminal.parse cfg.params cfg.file t pos with
        | node n => rfl
        | err e => simp [noLogOS, logEv_off, noLog_logEv]
        | panic s => rfl
      | empty => simp only [run, hmax, hmax', if_false]; rfl
      | eof =>
        simp only [run, hmax, hmax', if_false]
        split
        · rfl
        · simp [noLogOS, logEv_off, noLog_logEv]
      | ref k =>
        simp only [run, hmax, hmax', if_false]
        cases cfg.env[k]? with
        | none => rfl
        | some g' => exact ih _ _ _ _
      | memo idx body =>
        simp only [run, hmax, hmax', if_false]
        rw [show (noLog st).cache = st.cache from rfl]
        cases cacheGet st.cache idx pos ctx with
        | some e => simp [noLogOS, logEv_off, noLog_logEv]
        | none =>
          simp only
          split
          · simp [noLogOS, logEv_off, noLog_logEv]
          · simp only [logEv_off]
            have hst : (⟨st.cache, (noLog st).ctxErr, (noLog st).calls, (idx, pos) :: (noLog st).active, (noLog st).log⟩ : St) =
                noLog ((⟨st.cache, st.ctxErr, st.calls, (idx, pos) :: st.active, st.log⟩ : St).logEv cfg
                  (.body idx pos ((st.active.filter (fun (a : Nat × Nat) => a.1 == idx && a.2 == pos)).length + 1))) := by
              rw [noLog_logEv]; rfl
            rw [hst, ih]
            cases run cfg fuel body (ctx.inc idx) pos _ with
            | none => rfl
            | some x => rfl
      | any gs =>
        simp only [run, hmax, hmax', if_false]
        rw [anyLoop_sim hsim]
        cases anyLoop (run cfg fuel) ctx pos gs {} st with
        | none => rfl
        | some x =>
          obtain ⟨a, st1⟩ := x
          simp only [Option.map_some]
          split
          · rfl
          · simp [noLogOS, noLog_setError]
      | choice gs =>
        simp only [run, hmax, hmax', if_false]
        rw [choiceLoop_sim hsim]
        cases choiceLoop (run cfg fuel) ctx pos gs {} st with
        | none => rfl
        | some x =>
          obtain ⟨out, a, st1⟩ := x
          cases out <;> rfl
      | optional g' =>
        simp only [run, hmax, hmax', if_false]
        exact hwrap g' pos (fun o s => some (⟨appendNode o.res (.one (.empty pos)), o.cp, o.err⟩, s)) (fun _ _ => rfl)
      | suppress g' =>
        simp only [run, hmax, hmax', if_false]
        exact hwrap g' pos (fun o s => some (⟨o.res, o.cp, none⟩, s)) (fun _ _ => rfl)
      | name g' nm =>
        simp only [run, hmax, hmax', if_false]
        rw [ih]
        cases run cfg fuel g' ctx pos st with
        | none => rfl
        | some x =>
          obtain ⟨o, s⟩ := x
          simp only [Option.map_some, noLogOS]
          (repeat' split) <;> rfl
      | single g' =>
        simp only [run, hmax, hmax', if_false]
        rw [ih]
        cases run cfg fuel g' ctx pos st with
        | none => rfl
        | some x =>
          obtain ⟨o, s⟩ := x
          simp only [Option.map_some, noLogOS]
          (repeat' split) <;> rfl
      | rtrim g' m =>
        simp only [run, hmax, hmax', if_false]
        rw [ih]
        cases run cfg fuel g' ctx pos st with
        | none => rfl
        | some x =>
          obtain ⟨o, s⟩ := x
          simp only [Option.map_some, noLogOS]
          (repeat' split) <;> rfl
      | ltrim g' m =>
        simp only [run, hmax, hmax', if_false]
        rw [ih]
        cases run cfg fuel g' ctx (skipWhitespaces cfg.file pos m).1 st with
        | none => rfl
        | some x =>
          obtain ⟨o, s⟩ := x
          simp only [Option.map_some, noLogOS]
          have hce : (noLog s).ctxErr = s.ctxErr := rfl
          simp only [hce]
          cases s.ctxErr with
          | none => simp only; (repeat' split) <;> rfl
          | some ce =>
            simp only
            (repeat' split) <;> first | rfl | simp [noLogOS, noLog_setError] | simp_all
      | seq k gs o =>
        simp only [run, hmax, hmax', if_false, G.shape]
        rw [seqParse_sim hsim]
        cases seqParse (run cfg fuel) _ fuel 0 [] ctx pos true {} st with
        | none => rfl
        | some x =>
          obtain ⟨b, ss, s⟩ := x
          simp only [Option.map_some]
          split <;> simp [noLogOS, noLog_setError]
      | many g' ae o =>
        simp only [run, hmax, hmax', if_false, G.shape]
        rw [seqParse_sim hsim]
        cases seqParse (run cfg fuel) _ fuel 0 [] ctx pos true {} st with
        | none => rfl
        | some x =>
          obtain ⟨b, ss, s⟩ := x
          simp only [Option.map_some]
          split <;> simp [noLogOS, noLog_setError]
      | sepBy v sp ae o =>
        simp only [run, hmax, hmax', if_false, G.shape]
        rw [seqParse_sim hsim]
        cases seqParse (run cfg fuel) _ fuel 0 [] ctx pos true {} st with
        | none => rfl
        | some x =>
          obtain ⟨b, ss, s⟩ := x
          simp only [Option.map_some]
          split <;> simp [noLogOS, noLog_setError]

/-- `parsley.Parse` inherits it: same result, same error and message, same final state up to the log -/
theorem parse_ghost (cfg : Cfg) (fuel : Nat) (g : G) (st : St) :
    parse { cfg with ghost := false } fuel g (noLog st) =
      (parse cfg fuel g st).map (fun p => { p with st := noLog p.st }) := by
  simp only [parse]
  rw [show File.pos ({ cfg with ghost := false } : Cfg).file 0 = cfg.file.pos 0 from rfl, run_ghost]
  cases run cfg fuel g [] (cfg.file.pos 0) st with
  | none => rfl
  | some x =>
    obtain ⟨o, s⟩ := x
    simp only [Option.map_some, noLogOS]
    rw [show (noLog s).ctxErr = s.ctxErr from rfl]
    split <;> rfl

end PV.C17
